import BareProofs.C06Regex
import BareProofs.C06Regex2Lemmas

/-!
# C06Regex2 — the remaining statement patterns: hand-written scanner = first backtracking match of the pattern AST

Continues `BareProofs/C06Regex.lean` (same conventions: lines without `'\n'`; the scanner applied as `Scan.shape` applies it).
-/

namespace C06Regex
open Rx Text Scan RxPatterns

/-! ## line continuation -/

/-- **`\\\s*$`** with `re.search` (what `_R_SCRIPT_CONTINUATION.sub('', line)` removes): `Text.contBody?` is the text before
the leftmost match. -/
theorem continuation_regex (line : Chars) (hnl : '\n' ∉ line) : contBody? line = rxContBody line := by
  unfold rxContBody search
  cases hc : contBody? line with
  | none =>
    rw [searchFrom_none]
    · rfl
    · intro i hi
      have hn : '\n' ∉ line.drop i := not_mem_drop hnl
      cases hd : line.drop i with
      | nil => exact cont_matchFrom_nil _
      | cons x r =>
        rw [hd] at hn
        rw [cont_matchFrom_cons _ _ _ hn]
        by_cases hx : x = '\\' ∧ allSpace r = true
        · exfalso
          have e : line = line.take i ++ '\\' :: r := by
            rw [← hx.1, ← hd]; exact (List.take_append_drop i line).symm
          rw [e, contBody?_of_decomp _ _ hx.2] at hc
          cases hc
        · simp [hx]
  | some body =>
    obtain ⟨w, hw, e⟩ := C10.contBody?_some_decomp hc
    have hd : line.drop body.length = '\\' :: w := by rw [e]; simp
    rw [searchFrom_first continuation ⟨line.length, [], []⟩ body.length line 0 (by rw [e]; simp)]
    · simp [e]
    · intro i hi
      have hn : '\n' ∉ line.drop i := not_mem_drop hnl
      have hdi : line.drop i = body.drop i ++ '\\' :: w := by
        rw [e, List.drop_append_of_le_length (by omega)]
      cases hb : body.drop i with
      | nil => exact absurd hb (drop_ne_nil hi)
      | cons x r =>
        rw [hdi, hb] at hn ⊢
        rw [List.cons_append] at hn ⊢
        rw [cont_matchFrom_cons _ _ _ hn]
        have : allSpace (r ++ '\\' :: w) = false := by
          simp [allSpace, show isSpace '\\' = false from by decide]
        simp [this]
    · have hn : '\n' ∉ line.drop body.length := not_mem_drop hnl
      rw [hd] at hn ⊢
      rw [cont_matchFrom_cons _ _ _ hn]
      have hl : body.length + (w.length + 1) = line.length := by rw [e]; simp
      simp [hw, hl]

/-! ## `return` -/

/-- **`^(?P<return>\s*return(?:\s+(?P<expr>\S.*))?)\s*$`** -/
theorem return_regex (line : Chars) (hnl : '\n' ∉ line) : onLine return? line = rxReturn line := by
  unfold onLine rxReturn matchAt matchFrom return_
  rw [lead_cap _ _ _ _ _ _ (fun K' => rejects_kw isSpace "return" 'r' "eturn".toList rfl (by decide) _ K'),
    seq_m, kw_match "return" 'r' "eturn".toList rfl]
  unfold return?
  have hs : '\n' ∉ lstripL line := not_mem_dropWhile hnl
  cases hk : keyword? "return" (lstripL line) with
  | none => rfl
  | some r =>
    have hr : '\n' ∉ r := noNL_keyword hs hk
    have hlen := keyword?_length hk
    have hl1 := lstrip_split_length line
    have hd : line.drop ((line.takeWhile isSpace).length + "return".length) = r := by
      rw [← List.drop_drop, drop_ind, keyword?_drop hk]
    simp only []
    rw [return_tail _ _ hr]
    by_cases ha : allSpace r = true
    · simp [ha, St.group, St.span, List.lookup, Shape.shift]
    · simp only [ha, Bool.false_eq_true, if_false]
      cases r with
      | nil => simp [allSpace] at ha
      | cons c r' =>
        by_cases hc : isSpace c = true
        · simp only [hc, if_true]
          have hne : lstripL (c :: r') ≠ [] := fun e => ha (allSpace_of_lstrip_nil e)
          have hl2 := lstrip_split_length (c :: r')
          have htot : (line.takeWhile isSpace).length + "return".length + (c :: r').length = line.length := by omega
          have hg2 := slice_suffix line (c :: r') _ ((c :: r').takeWhile isSpace).length hd (by omega)
          rw [drop_length_takeWhile] at hg2
          cases he : lstripL (c :: r') with
          | nil => exact absurd he hne
          | cons x e =>
            rw [show List.dropWhile isSpace (c :: r') = x :: e from he] at hg2
            rw [he] at hl2
            rw [htot] at hg2
            simp only [Option.bind_some, St.group, St.span, List.lookup, beq_self_eq_true, show (2 == 1) = false from rfl,
              Option.map_some, htot, hg2, Shape.shift]
            simp only [slice, List.drop_zero, Nat.sub_zero, List.take_length, List.length_cons] at hl2 hlen hl1 htot ⊢
            simp only [Option.some.injEq, Shape.ret.injEq, Prod.mk.injEq, and_true]
            omega
        · simp [hc]

example : '\n' ∉ "  return  a + b ".toList ∧
    rxReturn "  return  a + b ".toList = some (.ret (some (10, "a + b ".toList))) := by decide +kernel
example : rxReturn "return \t".toList = some (.ret none) ∧ rxReturn "returnx".toList = none := by decide +kernel

/-! ## `if` / `elif` / `while` -/

/-- **`^\s*kw\s+(?P<expr>.+)\s*:\s*$`**: the expression ends before the LAST colon that is followed by blanks only. -/
theorem kwExprColon_regex (w : String) (mk : Nat → Chars → Shape) (c : Char) (cs : List Char) (hw : w.toList = c :: cs)
    (hc : isSpace c = false) (hmk : ∀ n e k, (mk n e).shift k = mk (n + k) e) (line : Chars) (hnl : '\n' ∉ line) :
    onLine (kwExprColon? w mk) line = rxKwExprColon w mk line := by
  unfold onLine rxKwExprColon matchAt matchFrom RxPatterns.kwExprColon
  rw [lead _ _ _ (rejects_kw isSpace w c cs hw hc _ _), seq_m, kw_match w c cs hw]
  unfold kwExprColon?
  have hs : '\n' ∉ lstripL line := not_mem_dropWhile hnl
  cases hk : keyword? w (lstripL line) with
  | none => rfl
  | some r =>
    have hr : '\n' ∉ r := noNL_keyword hs hk
    have hl1 := lstrip_split_length line
    have hd : line.drop ((line.takeWhile isSpace).length + w.length) = r := by
      rw [← List.drop_drop, drop_ind, keyword?_drop hk]
    simp only []
    rw [exprColon_rx _ _ _ _ _ hr]
    cases he : exprColon? r with
    | none => rfl
    | some ne =>
      obtain ⟨n, e⟩ := ne
      obtain ⟨tl, htl⟩ := exprColon?_drop he
      have hg : slice line ((line.takeWhile isSpace).length + w.length + n,
          (line.takeWhile isSpace).length + w.length + n + e.length) = e :=
        slice_prefix line _ _ e tl (by rw [← List.drop_drop, hd, htl]) rfl
      simp only [Option.map_some, Option.bind_some, St.span, List.lookup, beq_self_eq_true, hg, hmk, Option.some.injEq]
      congr 1; omega

theorem if_regex (line : Chars) (hnl : '\n' ∉ line) :
    onLine (kwExprColon? "if" .ifBegin) line = rxKwExprColon "if" .ifBegin line :=
  kwExprColon_regex "if" .ifBegin 'i' ['f'] rfl (by decide) (fun _ _ _ => rfl) line hnl

theorem elif_regex (line : Chars) (hnl : '\n' ∉ line) :
    onLine (kwExprColon? "elif" .elif) line = rxKwExprColon "elif" .elif line :=
  kwExprColon_regex "elif" .elif 'e' "lif".toList rfl (by decide) (fun _ _ _ => rfl) line hnl

theorem while_regex (line : Chars) (hnl : '\n' ∉ line) :
    onLine (kwExprColon? "while" .whileBegin) line = rxKwExprColon "while" .whileBegin line :=
  kwExprColon_regex "while" .whileBegin 'w' "hile".toList rfl (by decide) (fun _ _ _ => rfl) line hnl

example : '\n' ∉ " if  a ? b : c :  ".toList ∧
    rxKwExprColon "if" .ifBegin " if  a ? b : c :  ".toList = some (.ifBegin 5 "a ? b : c ".toList) := by decide +kernel
example : rxKwExprColon "while" .whileBegin "while   :".toList = some (.whileBegin 7 [' ']) ∧
    rxKwExprColon "while" .whileBegin "while :".toList = none := by decide +kernel

/-! ## `for` -/

/-- the tail `\s+in\s+(?P<values>.+)\s*:\s*$` and the reading of the three groups -/
theorem for_read (line value : Chars) (index : Option Chars) (slen k p : Nat) (rest : Chars) (caps : List (Nat × Nat × Nat))
    (hd : line.drop p = rest) (hnl : '\n' ∉ rest) (hk : slen + k = line.length) (hsl : rest.length ≤ slen)
    (h1 : (caps.lookup 1).map (slice line) = some value) (h2 : (caps.lookup 2).map (slice line) = index) :
    ((ws1 ⬝ kw "in".toList ⬝ ws1 ⬝ Rx.cap 3 (some "values") dotPlus ⬝ ws ⬝ lit ':' ⬝ ws ⬝ Rx.eol).m ⟨p, rest, caps⟩ some).bind
        (fun st => (st.group line 1).bind fun value => (st.span 3).map fun ab =>
          Shape.forBegin value (st.group line 2) ab.1 (slice line ab)) =
      (match ws1? rest with
        | none => none
        | some r =>
          match keyword? "in" r with
          | none => none
          | some r =>
            match exprColon? r with
            | some (n, e) => some (Shape.forBegin value index (slen - r.length + n) e)
            | none => none).map (Shape.shift k) := by
  rw [for_tail _ _ _ hnl]
  cases hw : ws1? rest with
  | none => rfl
  | some r =>
    simp only []
    cases hkw : keyword? "in" r with
    | none => rfl
    | some r' =>
      simp only []
      cases he : exprColon? r' with
      | none => rfl
      | some ne =>
        obtain ⟨n, e⟩ := ne
        simp only []
        obtain ⟨pre1, e1⟩ := ws1?_suffix hw
        obtain ⟨pre2, e2⟩ := keyword?_suffix hkw
        have hsuf : rest = (pre1 ++ pre2) ++ r' := by rw [e1, e2, List.append_assoc]
        have hdr := drop_of_suffix hsuf
        have hle : r'.length ≤ rest.length := by rw [hsuf]; simp only [List.length_append]; omega
        have hne : rest ≠ [] := by intro e0; rw [e0] at hw; simp [ws1?] at hw
        have htot := length_of_drop line rest p hd hne
        obtain ⟨tl, htl⟩ := exprColon?_drop he
        have hg : slice line (p + rest.length - r'.length + n, p + rest.length - r'.length + n + e.length) = e :=
          slice_prefix line _ _ e tl (by
            rw [show p + rest.length - r'.length + n = p + ((rest.length - r'.length) + n) from by omega,
              ← List.drop_drop, hd, ← List.drop_drop, hdr, htl]) rfl
        simp only [Option.bind_some, St.group, St.span, List.lookup, show (1 == 3) = false from rfl,
          show (2 == 3) = false from rfl, beq_self_eq_true, Option.map_some, hg, Shape.shift]
        rw [h2]
        cases hl1 : caps.lookup 1 with
        | none => rw [hl1] at h1; cases h1
        | some ab =>
          rw [hl1] at h1
          simp only [Option.map_some, Option.some.injEq] at h1
          simp only [Option.map_some, Option.bind_some, h1, Option.some.injEq, Shape.forBegin.injEq, true_and, and_true]
          omega

theorem ws1_in_comma (rA r1 : Chars) (h : lstripL rA = ',' :: r1) : ∀ r, ws1? rA = some r → keyword? "in" r = none := by
  intro r hr
  cases rA with
  | nil => simp [ws1?] at hr
  | cons c r0 =>
    by_cases hc : isSpace c = true
    · simp only [ws1?, hc, if_true, Option.some.injEq] at hr
      have : lstripL r0 = ',' :: r1 := by simpa [lstripL, List.dropWhile_cons, hc] using h
      rw [← hr, this]
      simp [keyword?, show "in".toList = ['i', 'n'] from rfl, List.isPrefixOf]
    · simp [ws1?, hc] at hr

theorem for_K_rejects_word :
    RejectsHead isWord (fun st => (ws1 ⬝ kw "in".toList ⬝ ws1 ⬝ Rx.cap 3 (some "values") dotPlus ⬝ ws ⬝ lit ':' ⬝ ws ⬝ Rx.eol).m st some) := by
  intro st ⟨c, r, hr, hc⟩
  show (ws1 ⬝ _).m st some = none
  rw [ws1_det _ _ _ (rejects_kw isSpace "in" 'i' ['n'] rfl (by decide) _ _), hr]
  simp [word_not_space hc]

theorem for_K_comma (st : St) (r1 : Chars) (h : lstripL st.rest = ',' :: r1) :
    (ws1 ⬝ kw "in".toList ⬝ ws1 ⬝ Rx.cap 3 (some "values") dotPlus ⬝ ws ⬝ lit ':' ⬝ ws ⬝ Rx.eol).m st some = none := by
  rw [ws1_det _ _ _ (rejects_kw isSpace "in" 'i' ['n'] rfl (by decide) _ _)]
  cases hr : st.rest with
  | nil => rfl
  | cons c r0 =>
    by_cases hc : isSpace c = true
    · have : lstripL r0 = ',' :: r1 := by rw [hr] at h; simpa [lstripL, List.dropWhile_cons, hc] using h
      simp only [hc, if_true]
      rw [seq_m, kw_match "in" 'i' ['n'] rfl]
      simp [this, keyword?, List.isPrefixOf]
    · simp [hc]

/-- **`^\s*for\s+(?P<value>[A-Za-z_]\w*)(?:\s*,\s*(?P<index>[A-Za-z_]\w*))?\s+in\s+(?P<values>.+)\s*:\s*$`** -/
theorem for_regex (line : Chars) (hnl : '\n' ∉ line) : onLine for? line = rxFor line := by
  unfold onLine rxFor matchAt matchFrom forBegin
  rw [lead _ _ _ (rejects_kw isSpace "for" 'f' ['o', 'r'] rfl (by decide) _ _), seq_m, kw_match "for" 'f' ['o', 'r'] rfl]
  unfold for?
  have hs : '\n' ∉ lstripL line := not_mem_dropWhile hnl
  have hl1 := lstrip_split_length line
  cases hk : keyword? "for" (lstripL line) with
  | none => rfl
  | some r0 =>
    have hr0 : '\n' ∉ r0 := noNL_keyword hs hk
    have hlen0 := keyword?_length hk
    have hd0 : line.drop ((line.takeWhile isSpace).length + "for".length) = r0 := by
      rw [← List.drop_drop, drop_ind, keyword?_drop hk]
    simp only []
    rw [ws1_det _ _ _ (rejects_cap_ident isSpace (fun x => space_not_idStart) _ _ _ _)]
    cases r0 with
    | nil => rfl
    | cons c r0' =>
      have hr0' : '\n' ∉ r0' := fun hm => hr0 (List.mem_cons_of_mem _ hm)
      by_cases hc : isSpace c = true
      · rw [show ws1? (c :: r0') = some (lstripL r0') from by simp [ws1?, hc]]
        simp only [hc, if_true]
        have hl2 := lstrip_split_length r0'
        have hd1 : line.drop ((line.takeWhile isSpace).length + "for".length + 1 + (r0'.takeWhile isSpace).length) = lstripL r0' := by
          have e : line.drop ((line.takeWhile isSpace).length + "for".length + 1 + (r0'.takeWhile isSpace).length) =
              (line.drop ((line.takeWhile isSpace).length + "for".length)).drop (1 + (r0'.takeWhile isSpace).length) := by
            rw [List.drop_drop, Nat.add_assoc]
          rw [e, hd0, Nat.add_comm 1, List.drop_succ_cons, drop_length_takeWhile]; rfl
        rw [seq_m, cap_ident_det _ _ _ _ (by
          intro st hst
          show (Rx.opt _ ⬝ _).m st some = none
          rw [seq_m, for_index _ _ for_K_rejects_word (fun r1 h => for_K_comma _ r1 h)]
          obtain ⟨x, r, hr, hx⟩ := hst
          have : lstripL st.rest = x :: r := by rw [hr]; simp [lstripL, List.dropWhile_cons, word_not_space hx]
          rw [this]
          have hne : ¬ x = ',' := fun e => by rw [e] at hx; exact absurd hx (by decide)
          simp only [hne, if_false]
          exact for_K_rejects_word st ⟨x, r, hr, hx⟩)]
        cases hi : ident? (lstripL r0') with
        | none => rfl
        | some vr =>
          obtain ⟨value, rA⟩ := vr
          have hrA : '\n' ∉ rA := noNL_ident (not_mem_dropWhile hr0') hi
          have hsp := ident?_eq_append hi
          have hlA := congrArg List.length hsp
          simp only [List.length_append] at hlA
          have hdA := drop_add_of_drop line value rA _ (hd1.trans hsp)
          have hg1 := slice_prefix line _ _ value rA (hd1.trans hsp) rfl
          simp only []
          rw [seq_m, for_index _ _ for_K_rejects_word (fun r1 h => for_K_comma _ r1 h)]
          simp only []
          have hlA2 := lstrip_split_length rA
          cases hcm : lstripL rA with
          | nil =>
            simp only []
            refine (for_read line value none (lstripL line).length _ _ rA _ hdA hrA ?_ ?_ ?_ ?_).symm
            · exact hl1 ▸ (by omega)
            · simp only [List.length_cons] at hlen0; omega
            · simp [List.lookup, hg1]
            · simp [List.lookup]
          | cons x r1 =>
            by_cases hx : x = ','
            · subst hx
              simp only [if_true]
              cases hix : ident? (lstripL r1) with
              | none =>
                simp only []
                cases hw : ws1? rA with
                | none => rfl
                | some r => simp only [ws1_in_comma rA r1 hcm r hw]; rfl
              | some ir =>
                obtain ⟨ix, r2⟩ := ir
                have hr1 : '\n' ∉ r1 := noNL_lstrip_tail hrA hcm
                have hr2 : '\n' ∉ r2 := noNL_ident (not_mem_dropWhile hr1) hix
                have hsp2 := ident?_eq_append hix
                have hlB := congrArg List.length hsp2
                have hlB2 := lstrip_split_length r1
                rw [hcm] at hlA2
                simp only [List.length_append, List.length_cons] at hlB hlA2
                have hdB : line.drop ((line.takeWhile isSpace).length + "for".length + 1 + (r0'.takeWhile isSpace).length + value.length +
                    (rA.takeWhile isSpace).length + 1 + (r1.takeWhile isSpace).length) = lstripL r1 := by
                  have e : rA = (rA.takeWhile isSpace ++ [',']) ++ r1 := by
                    have := (List.takeWhile_append_dropWhile (p := isSpace) (l := rA)).symm
                    rw [show rA.dropWhile isSpace = ',' :: r1 from hcm] at this
                    simpa using this
                  have h1 := drop_add_of_drop line _ r1 _ (hdA.trans e)
                  simp only [List.length_append, List.length_singleton] at h1
                  have e' : line.drop ((line.takeWhile isSpace).length + "for".length + 1 + (r0'.takeWhile isSpace).length + value.length +
                      (rA.takeWhile isSpace).length + 1 + (r1.takeWhile isSpace).length) =
                      (line.drop ((line.takeWhile isSpace).length + "for".length + 1 + (r0'.takeWhile isSpace).length + value.length +
                        ((rA.takeWhile isSpace).length + 1))).drop (r1.takeWhile isSpace).length := by
                    rw [List.drop_drop]; congr 1
                  rw [e', h1, drop_length_takeWhile]; rfl
                have hdC := drop_add_of_drop line ix r2 _ (hdB.trans hsp2)
                have hg2 := slice_prefix line _ _ ix r2 (hdB.trans hsp2) rfl
                simp only []
                refine (for_read line value (some ix) (lstripL line).length _ _ r2 _ hdC hr2 ?_ ?_ ?_ ?_).symm
                · exact hl1 ▸ (by omega)
                · simp only [List.length_cons] at hlen0; omega
                · simp [List.lookup, hg1]
                · simp [List.lookup, hg2]
            · simp only [hx, if_false]
              have hne : ∀ r1', x :: r1 = ',' :: r1' → False := fun r1' h => hx (List.cons.inj h).1
              simp only [hne, hx]
              refine (for_read line value none (lstripL line).length _ _ rA _ hdA hrA ?_ ?_ ?_ ?_).symm
              · exact hl1 ▸ (by omega)
              · simp only [List.length_cons] at hlen0; omega
              · simp [List.lookup, hg1]
              · simp [List.lookup]
      · simp [hc, ws1?]

example : '\n' ∉ " for v , i in  a : b :".toList ∧
    rxFor " for v , i in  a : b :".toList = some (.forBegin ['v'] (some ['i']) 15 "a : b ".toList) := by decide +kernel
example : rxFor "for v in x:".toList = some (.forBegin ['v'] none 9 ['x']) ∧ rxFor "for v, in x:".toList = none := by decide +kernel

/-! ## the cascade, with what is proved so far -/

/-- `Scan.shape` = the regex cascade of parser.py (`RxPatterns.rxShape`: every test by `Rx.matchAt` on the pattern AST, in the
order of `parse_script`).

Full statement: `∀ line, '\n' ∉ line → shape line = rxShape line`.  PROVED for assignment, the six keyword-only lines,
`if` / `elif` / `while`, `else:`, `for`, label and `return`; the per-pattern equalities for `function`, `jump` / `jumpif` and the
two `include` forms remain hypotheses (compared per pattern with the real `re` by the streams `rx-scan` / `rx-read`).  Missing:
`.+\)` backing off to the last parenthesis in front of `\s+name\s*$`, the quoted url `(?:\\'|[^'])*` (star over an
alternation), and the three optional groups of `function`. -/
theorem shape_is_cascade_partial2 (line : Chars) (hnl : '\n' ∉ line)
    (hFunction : onLine funcBegin? line = rxFunction line)
    (hJump : onLine jump? line = rxJump line)
    (hInclude : onLine include? line = rxInclude line) :
    shape line = rxShape line :=
  shape_is_cascade_partial line hnl hFunction (if_regex line hnl) (elif_regex line hnl) (while_regex line hnl)
    (for_regex line hnl) hJump (return_regex line hnl) hInclude

end C06Regex
