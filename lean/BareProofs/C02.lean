import Lean.Elab.Tactic
import BareModel.ExprParse
import BareModel.Gen.Regex
import BareProofs.C02Lemmas

/-!
# C02 — expression text parses to the tree the precedence rules dictate

## Token level: the binary chain (`insR` / `parseChain`, mirror of the spine re-ordering of `_parse_binary_expression`)

All chains of any length, all operands:

* `reorder_is_prec`   the generated table `parser.BINARY_REORDER` is exactly "strictly lower precedence" (8 levels)
* `chain_flat`        nothing is dropped or re-ordered: the in-order token sequence of the result is the input
* `chain_wf`          the result respects precedence and left associativity (`WFPrec`)
* `rebuild`           completeness: every `WFPrec` tree is what the chain parser builds from its own token sequence
* `wf_unique`         hence *the* tree is unique: two `WFPrec` trees with the same token sequence are equal
* `chain_is_the_prec_tree`  the three together
* `unary_group_are_operands`  unary applications and groups are leaves of the chain (bind tighter / override)

## Text level: `parseExpr` (mirror of `parse_expression`; scanners in `BareModel/ExprScan.lean`, lemmas in `C02Lemmas.lean`)

All texts of any length and nesting depth:

* `regex_sources_pinned`   the 15 token patterns of the working tree are the ones the scanners were written for
* `parse_uses_chain`       the binary level of the text parser *is* `parseChain` over the operands it scanned, so the chain
                           theorems apply to what the text parser builds (and the result is the unique `WFPrec` tree)
* `parse_deep_wf`          every accepted tree is hereditarily precedence-respecting (`HWF`: at every binary node, inside
                           groups, call arguments and unary operands too)
* `unary_tighter`, `group_overrides`   a unary operator applies to one unary-level operand; a group is parsed independently
                           and is a leaf of the enclosing chain
* `fuel_sufficient`        fuel = text length never runs out (every recursive call is on a strictly shorter text)
* `reject_is_parser_error` the only failure is 'Syntax error' / 'Unmatched parenthesis' with a column pointing at the start of a
                           suffix of the text, `1 ≤ column ≤ length + 1`
* `accept_faithful`        an accepted text is a whitespace-separated spelling of exactly the token sequence of the returned
                           tree, followed by whitespace only: nothing skipped, invented, dropped or re-ordered

Not proved (stated so nobody reads more into the theorems): *completeness* at text level (every spelling of the token
sequence of an `HWF` tree is accepted and yields that tree) — it is sampled by the `expr` correspondence stream, whose
generator knows the intended tree by construction; unique readability of `Lexes` (a backslash in front of a quote
can be read as an escape or, when nothing closes the string later, as an ordinary character — the scanner follows the
regex engine's priority, see `strBody`); the scanners' agreement with CPython's `re` (correspondence).
-/

namespace C02
open ExprParse

/-- The generated re-order table is exactly "strictly lower precedence": -/
theorem reorder_is_prec : ∀ a b : BinOp, reorders a b = decide (prec b < prec a) := by
  intro a b; cases a <;> cases b <;> decide

/-- induction over the binary skeleton of an expression (`Expr` is a nested inductive, so `induction` is unavailable) -/
theorem binInd {motive : Expr → Prop}
    (binary : ∀ op l r, motive l → motive r → motive (.binary op l r))
    (operand : ∀ e, IsOperand e → motive e) : ∀ e, motive e
  | .binary op l r => binary op l r (binInd binary operand l) (binInd binary operand r)
  | .number _ => operand _ rfl
  | .string _ => operand _ rfl
  | .variable _ => operand _ rfl
  | .function _ _ => operand _ rfl
  | .unary _ _ => operand _ rfl
  | .group _ => operand _ rfl

/-- specification-shaped insertion (precedence comparison instead of table lookup, one recursion instead of two) -/
def ins : Expr → BinOp → Expr → Expr
  | .binary pl l rr, op, r => if prec pl < prec op then .binary pl l (ins rr op r) else .binary op (.binary pl l rr) r
  | t, op, r => .binary op t r

theorem graft_eq (pl : BinOp) (l rr : Expr) (op : BinOp) (r : Expr) :
    graft (.binary pl l rr) op r = .binary pl l (ins rr op r) := by
  induction rr using binInd generalizing pl l with
  | binary pr rl rrr _ ihr =>
    rw [graft]; simp only [reorder_is_prec]
    by_cases h : prec pr < prec op
    · simp only [h, decide_true, if_true]; rw [ihr]; simp [ins, h]
    · simp [h, ins]
  | operand e he => cases e <;> simp_all [IsOperand, rootOp, graft, ins]

theorem insR_eq_ins (t : Expr) (op : BinOp) (r : Expr) : insR t op r = ins t op r := by
  cases t with
  | binary pl l rr =>
    simp only [insR, reorder_is_prec]
    by_cases h : prec pl < prec op
    · simp only [h, decide_true, if_true, graft_eq]; simp [ins, h]
    · simp [h, ins]
  | _ => simp [insR, ins]

def build : Expr → List (BinOp × Expr) → Expr
  | t, [] => t
  | t, (op, r) :: rest => build (ins t op r) rest

theorem parseChain_eq_build (t : Expr) (ch : List (BinOp × Expr)) : parseChain t ch = build t ch := by
  induction ch generalizing t with
  | nil => rfl
  | cons x xs ih => obtain ⟨op, r⟩ := x; simp [parseChain, build, insR_eq_ins, ih]

/-! ### nothing dropped, nothing re-ordered -/

theorem flat_operand {e : Expr} (h : IsOperand e) : flat e = [.inl e] := by
  cases e <;> simp_all [IsOperand, rootOp, flat]

theorem flat_ins (t : Expr) (op : BinOp) (r : Expr) (hr : IsOperand r) :
    flat (ins t op r) = flat t ++ [.inr op, .inl r] := by
  induction t using binInd with
  | binary pl l rr _ ihr =>
    simp only [ins]; split
    · simp [flat, ihr]
    · simp [flat, flat_operand hr]
  | operand e he => cases e <;> simp_all [IsOperand, rootOp, ins, flat, flat_operand hr]

theorem flat_build (t : Expr) (ch : List (BinOp × Expr)) (hch : ∀ x ∈ ch, IsOperand x.2) :
    flat (build t ch) = flat t ++ ch.flatMap (fun x => [.inr x.1, .inl x.2]) := by
  induction ch generalizing t with
  | nil => simp [build]
  | cons x xs ih =>
    obtain ⟨op, r⟩ := x
    simp only [build]
    rw [ih _ (fun y hy => hch y (List.mem_cons_of_mem _ hy)), flat_ins _ _ _ (hch (op, r) (List.mem_cons_self ..))]
    simp

/-- **chain_flat**: the in-order traversal of the parsed chain `u₀ o₁ u₁ o₂ u₂ …` is exactly that sequence. -/
theorem chain_flat (u0 : Expr) (ch : List (BinOp × Expr)) (h0 : IsOperand u0) (hch : ∀ x ∈ ch, IsOperand x.2) :
    flat (parseChain u0 ch) = .inl u0 :: ch.flatMap (fun x => [.inr x.1, .inl x.2]) := by
  rw [parseChain_eq_build, flat_build _ _ hch, flat_operand h0]; rfl

/-! ### the result respects precedence and left associativity -/

theorem WF_operand {e : Expr} (h : IsOperand e) : WFPrec e := by
  cases e <;> simp_all [IsOperand, rootOp, WFPrec]

theorem rootOp_ins (t : Expr) (op : BinOp) (r : Expr) :
    ∃ q, rootOp (ins t op r) = some q ∧ prec q ≤ prec op ∧ (∀ q', rootOp t = some q' → min (prec q') (prec op) = prec q) := by
  cases t with
  | binary pl l rr =>
    simp only [ins]; split
    · exact ⟨pl, by simp [rootOp]; omega⟩
    · exact ⟨op, by simp [rootOp]; omega⟩
  | _ => exact ⟨op, by simp [ins, rootOp]⟩

theorem WF_ins (t : Expr) (op : BinOp) (r : Expr) (hr : IsOperand r) (h : WFPrec t) : WFPrec (ins t op r) := by
  induction t using binInd with
  | binary pl l rr _ ihr =>
    obtain ⟨h1, h2, h3, h4⟩ := h
    simp only [ins]; split
    · rename_i hlt
      refine ⟨h1, ihr h2, h3, ?_⟩
      intro q hq
      obtain ⟨q0, hq0, hle, hmin⟩ := rootOp_ins rr op r
      rw [hq0] at hq; cases hq
      cases hrr : rootOp rr with
      | none =>
        have : ins rr op r = .binary op rr r := by cases rr <;> simp_all [rootOp, ins]
        rw [this] at hq0; simp [rootOp] at hq0; subst hq0; exact hlt
      | some q' => have := hmin q' hrr; have := h4 q' hrr; omega
    · rename_i hge
      refine ⟨⟨h1, h2, h3, h4⟩, WF_operand hr, ?_, ?_⟩
      · intro q hq; simp [rootOp] at hq; subst hq; omega
      · intro q hq; rw [hr] at hq; cases hq
  | operand e he =>
    have : ins e op r = .binary op e r := by cases e <;> simp_all [IsOperand, rootOp, ins]
    rw [this]
    refine ⟨WF_operand he, WF_operand hr, ?_, ?_⟩
    · intro q hq; rw [he] at hq; cases hq
    · intro q hq; rw [hr] at hq; cases hq

theorem WF_build (t : Expr) (ch : List (BinOp × Expr)) (hch : ∀ x ∈ ch, IsOperand x.2) (h : WFPrec t) :
    WFPrec (build t ch) := by
  induction ch generalizing t with
  | nil => simpa [build]
  | cons x xs ih =>
    simp only [build]
    exact ih _ (fun y hy => hch y (List.mem_cons_of_mem _ hy)) (WF_ins t x.1 x.2 (hch x (List.mem_cons_self ..)) h)

/-- **chain_wf** -/
theorem chain_wf (u0 : Expr) (ch : List (BinOp × Expr)) (h0 : IsOperand u0) (hch : ∀ x ∈ ch, IsOperand x.2) :
    WFPrec (parseChain u0 ch) := by
  rw [parseChain_eq_build]; exact WF_build _ _ hch (WF_operand h0)

/-! ### completeness and uniqueness -/

def first : Expr → Expr
  | .binary _ l _ => first l
  | e => e

def chain : Expr → List (BinOp × Expr)
  | .binary op l r => chain l ++ (op, first r) :: chain r
  | _ => []

theorem first_operand (t : Expr) : IsOperand (first t) := by
  induction t using binInd with
  | binary op l r ihl _ => simpa [first] using ihl
  | operand e he => cases e <;> simp_all [first, IsOperand, rootOp]

theorem chain_operands (t : Expr) : ∀ x ∈ chain t, IsOperand x.2 := by
  induction t using binInd with
  | binary op l r ihl ihr =>
    intro x hx
    simp only [chain, List.mem_append, List.mem_cons] at hx
    rcases hx with hx | hx | hx
    · exact ihl x hx
    · subst hx; exact first_operand r
    · exact ihr x hx
  | operand e he => intro x hx; cases e <;> simp_all [chain, IsOperand, rootOp]

theorem build_append (t : Expr) (a b : List (BinOp × Expr)) : build t (a ++ b) = build (build t a) b := by
  induction a generalizing t with
  | nil => rfl
  | cons x xs ih => simp [build, ih]

/-- every operator of the binary skeleton has precedence ≥ m -/
def AllGe (m : Nat) : Expr → Prop
  | .binary op l r => m ≤ prec op ∧ AllGe m l ∧ AllGe m r
  | _ => True

theorem AllGe_operand {m : Nat} {e : Expr} (h : IsOperand e) : AllGe m e := by
  cases e <;> simp_all [IsOperand, rootOp, AllGe]

theorem AllGe.mono {m m' : Nat} {t : Expr} (h : AllGe m t) (hm : m' ≤ m) : AllGe m' t := by
  induction t using binInd with
  | binary op l r ihl ihr => exact ⟨by have := h.1; omega, ihl h.2.1, ihr h.2.2⟩
  | operand e he => exact AllGe_operand he

theorem WF_allGe (t : Expr) : WFPrec t → ∀ q, rootOp t = some q → AllGe (prec q) t := by
  induction t using binInd with
  | binary op l r ihl ihr =>
    intro h q hq
    obtain ⟨hl, hr, h3, h4⟩ := h
    simp [rootOp] at hq; subst hq
    refine ⟨Nat.le_refl _, ?_, ?_⟩
    · cases hlo : rootOp l with
      | none => exact AllGe_operand hlo
      | some pl => exact (ihl hl pl hlo).mono (h3 pl hlo)
    · cases hro : rootOp r with
      | none => exact AllGe_operand hro
      | some pr => exact (ihr hr pr hro).mono (Nat.le_of_lt (h4 pr hro))
  | operand e he => intro _ q hq; rw [he] at hq; cases hq

theorem chain_allGe {m : Nat} (t : Expr) : AllGe m t → ∀ x ∈ chain t, m ≤ prec x.1 := by
  induction t using binInd with
  | binary op l r ihl ihr =>
    intro h x hx
    obtain ⟨h1, h2, h3⟩ := h
    simp only [chain, List.mem_append, List.mem_cons] at hx
    rcases hx with hx | hx | hx
    · exact ihl h2 x hx
    · subst hx; exact h1
    · exact ihr h3 x hx
  | operand e he => intro _ x hx; cases e <;> simp_all [chain, IsOperand, rootOp]

/-- operators of strictly higher precedence than the root are inserted below it, on the right -/
theorem build_under (op : BinOp) (l x : Expr) (c : List (BinOp × Expr)) (h : ∀ y ∈ c, prec op < prec y.1) :
    build (.binary op l x) c = .binary op l (build x c) := by
  induction c generalizing x with
  | nil => rfl
  | cons y ys ih =>
    have hy := h y (List.mem_cons_self ..)
    simp only [build, ins, hy, if_true]
    exact ih _ (fun z hz => h z (List.mem_cons_of_mem _ hz))

theorem rebuild_build (t : Expr) : WFPrec t → build (first t) (chain t) = t := by
  induction t using binInd with
  | binary op l r ihl ihr =>
    intro h
    obtain ⟨hl, hr, h3, h4⟩ := h
    simp only [chain, first]
    rw [build_append, ihl hl]
    simp only [build]
    have hins : ins l op (first r) = .binary op l (first r) := by
      cases hlo : rootOp l with
      | none => cases l <;> simp_all [rootOp, ins]
      | some pl =>
        cases l with
        | binary pl' ll lr =>
          simp [rootOp] at hlo; subst hlo
          have := h3 pl' rfl
          simp only [ins]; rw [if_neg (by omega)]
        | _ => simp [rootOp] at hlo
    rw [hins]
    have hgt : ∀ y ∈ chain r, prec op < prec y.1 := by
      cases hro : rootOp r with
      | none => cases r <;> simp_all [rootOp, chain]
      | some pr =>
        intro y hy
        have := chain_allGe _ (WF_allGe _ hr pr hro) y hy
        have := h4 pr hro
        omega
    rw [build_under op l (first r) (chain r) hgt, ihr hr]
  | operand e he => intro _; cases e <;> simp_all [first, chain, build, IsOperand, rootOp]

/-- **rebuild** (completeness): a precedence-respecting tree is exactly what the chain parser produces from its own
first operand and (operator, operand) sequence. -/
theorem rebuild (t : Expr) (h : WFPrec t) : parseChain (first t) (chain t) = t := by
  rw [parseChain_eq_build]; exact rebuild_build t h

/-- **wf_unique**: the precedence-respecting tree with a given token sequence is unique. -/
theorem wf_unique (t₁ t₂ : Expr) (h₁ : WFPrec t₁) (h₂ : WFPrec t₂) (hf : first t₁ = first t₂) (hc : chain t₁ = chain t₂) :
    t₁ = t₂ := by
  rw [← rebuild t₁ h₁, ← rebuild t₂ h₂, hf, hc]

theorem first_build (t : Expr) (ch : List (BinOp × Expr)) : first (build t ch) = first t := by
  induction ch generalizing t with
  | nil => rfl
  | cons x xs ih =>
    rw [build, ih]
    clear ih
    induction t using binInd with
    | binary pl l rr ihl _ => simp only [ins]; split <;> simp [first]
    | operand e he => cases e <;> simp_all [ins, first, IsOperand, rootOp]

theorem chain_ins (t : Expr) (op : BinOp) (r : Expr) (hr : IsOperand r) : chain (ins t op r) = chain t ++ [(op, r)] := by
  have hfr : first r = r := by cases r <;> simp_all [IsOperand, rootOp, first]
  have hcr : chain r = [] := by cases r <;> simp_all [IsOperand, rootOp, chain]
  induction t using binInd with
  | binary pl l rr _ ihr =>
    simp only [ins]; split
    · simp only [chain, ihr]
      have : first (ins rr op r) = first rr := by
        have := first_build rr [(op, r)]; simpa [build] using this
      simp [this]
    · simp [chain, hfr, hcr]
  | operand e he => cases e <;> simp_all [ins, chain, IsOperand, rootOp]

theorem chain_build (t : Expr) (ch : List (BinOp × Expr)) (hch : ∀ x ∈ ch, IsOperand x.2) :
    chain (build t ch) = chain t ++ ch := by
  induction ch generalizing t with
  | nil => simp [build]
  | cons x xs ih =>
    simp only [build]
    rw [ih _ (fun y hy => hch y (List.mem_cons_of_mem _ hy)), chain_ins _ _ _ (hch x (List.mem_cons_self ..))]
    simp

/-- **chain_is_the_prec_tree**: for every chain `u₀ o₁ u₁ … oₙ uₙ` of operands (n unbounded) the parser's result is
the unique tree that (1) has exactly this token sequence and (2) respects precedence and left associativity. -/
theorem chain_is_the_prec_tree (u0 : Expr) (ch : List (BinOp × Expr)) (h0 : IsOperand u0) (hch : ∀ x ∈ ch, IsOperand x.2)
    (t : Expr) : (WFPrec t ∧ first t = u0 ∧ chain t = ch) ↔ t = parseChain u0 ch := by
  have hfu : first u0 = u0 := by cases u0 <;> simp_all [IsOperand, rootOp, first]
  have hcu : chain u0 = [] := by cases u0 <;> simp_all [IsOperand, rootOp, chain]
  constructor
  · rintro ⟨hw, hf, hc⟩
    rw [← rebuild t hw, hf, hc]
  · rintro rfl
    refine ⟨chain_wf u0 ch h0 hch, ?_, ?_⟩
    · rw [parseChain_eq_build, first_build, hfu]
    · rw [parseChain_eq_build, chain_build _ _ hch, hcu]; rfl

/-- unary applications, groups, calls and literals are operands: a unary operator binds tighter than any binary
operator, and parentheses override precedence, because `insR` never looks inside them. -/
theorem unary_group_are_operands (op : UnOp) (e : Expr) (n : Name) (args : List Expr) :
    IsOperand (.unary op e) ∧ IsOperand (.group e) ∧ IsOperand (.function n args) := by
  simp [IsOperand, rootOp]

/-! ### non-vacuity: all 14 operators in one chain; `a + b * c ** d - e` -/

private def v (s : String) : Expr := .variable (.user s)

example : parseChain (v "a") [(.add, v "b"), (.mul, v "c"), (.pow, v "d"), (.sub, v "e")] =
    .binary .sub (.binary .add (v "a") (.binary .mul (v "b") (.binary .pow (v "c") (v "d")))) (v "e") := by rfl

example : WFPrec (parseChain (v "a") (BinOp.all.map fun o => (o, v "x"))) :=
  chain_wf _ _ rfl (by intro x hx; simp [BinOp.all] at hx; rcases hx with h | h | h | h | h | h | h | h | h | h | h | h | h | h <;> subst h <;> rfl)


/-! # Text level: `parseExpr` (mirror of `parse_expression`) -/

open ExprScan

/-! ### tokens of a chain -/

def chainToks : List (BinOp × Expr) → List Tok
  | [] => []
  | (op, x) :: rest => .bin op :: (toks x ++ chainToks rest)

theorem toks_ne_nil : ∀ e : Expr, toks e ≠ []
  | .number _ | .string _ | .variable _ | .function _ _ | .unary _ _ | .group _ => by simp [toks]
  | .binary _ _ _ => by simp [toks]

theorem toks_ins (t : Expr) (op : BinOp) (r : Expr) : toks (ins t op r) = toks t ++ .bin op :: toks r := by
  induction t using binInd with
  | binary pl l rr _ ihr =>
    simp only [ins]; split
    · simp [toks, ihr]
    · simp [toks]
  | operand e he => cases e <;> simp_all [IsOperand, rootOp, ins, toks]

theorem toks_parseChain (l : Expr) (ch : List (BinOp × Expr)) : toks (parseChain l ch) = toks l ++ chainToks ch := by
  induction ch generalizing l with
  | nil => simp [parseChain, chainToks]
  | cons x xs ih =>
    obtain ⟨op, r⟩ := x
    simp [parseChain, chainToks, ih, insR_eq_ins, toks_ins]

/-! ### hereditary well-formedness: the precedence conditions hold at *every* binary node of the tree (inside groups,
call arguments and unary operands too), and the operand of a unary operator is never a bare binary node -/

mutual
def Inner : Expr → Prop
  | .number _ => True
  | .string _ => True
  | .variable _ => True
  | .function _ args => InnerArgs args
  | .binary _ l r => Inner l ∧ Inner r
  | .unary _ e => IsOperand e ∧ Inner e
  | .group e => WFPrec e ∧ Inner e
def InnerArgs : List Expr → Prop
  | [] => True
  | a :: rest => (WFPrec a ∧ Inner a) ∧ InnerArgs rest
end

/-- hereditarily precedence-respecting -/
def HWF (e : Expr) : Prop := WFPrec e ∧ Inner e

theorem Inner_ins (t : Expr) (op : BinOp) (r : Expr) (ht : Inner t) (hr : Inner r) : Inner (ins t op r) := by
  induction t using binInd with
  | binary pl l rr _ ihr =>
    simp only [Inner] at ht
    simp only [ins]; split
    · exact ⟨ht.1, ihr ht.2⟩
    · exact ⟨⟨ht.1, ht.2⟩, hr⟩
  | operand e he =>
    have : ins e op r = .binary op e r := by cases e <;> simp_all [IsOperand, rootOp, ins]
    rw [this]; exact ⟨ht, hr⟩

theorem Inner_parseChain (l : Expr) (ch : List (BinOp × Expr)) (hl : Inner l) (hch : ∀ x ∈ ch, Inner x.2) :
    Inner (parseChain l ch) := by
  induction ch generalizing l with
  | nil => simpa [parseChain]
  | cons x xs ih =>
    simp only [parseChain, insR_eq_ins]
    exact ih _ (Inner_ins l x.1 x.2 hl (hch x (List.mem_cons_self ..))) (fun y hy => hch y (List.mem_cons_of_mem _ hy))

theorem InnerArgs_append (args : List Expr) (a : Expr) (h : InnerArgs args) (ha : WFPrec a ∧ Inner a) :
    InnerArgs (args ++ [a]) := by
  induction args with
  | nil => exact ⟨ha, trivial⟩
  | cons b bs ih => exact ⟨h.1, ih h.2⟩

/-! ### what a successful parse step consumed -/

/-- the (operator, operand) pairs the chain loop scans from `t`, left to right, stopping at `rest` where no binary
operator follows -/
inductive ChainScan (pu : List Char → Res (Expr × List Char)) : List Char → List (BinOp × Expr) → List Char → Prop
  | done (t : List Char) : scanBinOp t = none → ChainScan pu t [] t
  | step (t rt nt rest : List Char) (op : BinOp) (r : Expr) (ch : List (BinOp × Expr)) :
      scanBinOp t = some (op, rt) → pu rt = .ok (r, nt) → ChainScan pu nt ch rest → ChainScan pu t ((op, r) :: ch) rest

/-- result of a unary-level parse: consumed text spells the tokens of the tree; the tree is a chain operand -/
structure Good (t : List Char) (e : Expr) (r : List Char) : Prop where
  seg : ∃ pre, t = pre ++ r ∧ Seg pre (toks e)
  operand : IsOperand e
  inner : Inner e

/-- result of a binary-level parse -/
structure GoodB (t : List Char) (e : Expr) (r : List Char) : Prop where
  seg : ∃ pre, t = pre ++ r ∧ Seg pre (toks e)
  wf : WFPrec e
  inner : Inner e

theorem chainLoop_scan (pu : List Char → Res (Expr × List Char)) :
    ∀ (n : Nat) (l : Expr) (t : List Char) (e : Expr) (r : List Char), chainLoop pu n l t = .ok (e, r) →
      ∃ ch, ChainScan pu t ch r ∧ e = parseChain l ch := by
  intro n
  induction n with
  | zero =>
    intro l t e r h
    simp only [chainLoop] at h
    split at h
    · rename_i hnone
      simp only [Except.ok.injEq, Prod.mk.injEq] at h
      obtain ⟨rfl, rfl⟩ := h
      exact ⟨[], ChainScan.done _ hnone, rfl⟩
    · cases h
  | succ n ih =>
    intro l t e r h
    simp only [chainLoop] at h
    split at h
    · rename_i hnone
      simp only [Except.ok.injEq, Prod.mk.injEq] at h
      obtain ⟨rfl, rfl⟩ := h
      exact ⟨[], ChainScan.done _ hnone, rfl⟩
    · rename_i op rt hsome
      split at h
      · cases h
      · rename_i x nt hpu
        obtain ⟨ch, hcs, he⟩ := ih _ _ _ _ h
        exact ⟨(op, x) :: ch, ChainScan.step _ _ _ _ _ _ _ hsome hpu hcs, by simpa [parseChain] using he⟩

theorem chainScan_good {pu : List Char → Res (Expr × List Char)} (hpu : ∀ t e r, pu t = .ok (e, r) → Good t e r)
    {t r : List Char} {ch : List (BinOp × Expr)} (h : ChainScan pu t ch r) :
    (∃ pre, t = pre ++ r ∧ Seg pre (chainToks ch)) ∧ (∀ x ∈ ch, IsOperand x.2) ∧ (∀ x ∈ ch, Inner x.2) := by
  induction h with
  | done t _ => exact ⟨⟨[], rfl, Seg.nil⟩, by simp, by simp⟩
  | step t rt nt rest op x ch hop hx _ ih =>
    obtain ⟨⟨pre2, hnt, hseg2⟩, hops, hinn⟩ := ih
    obtain ⟨ws, body, ht, hws, hsp⟩ := scanBinOp_spec hop
    obtain ⟨⟨pre1, hrt, hseg1⟩, hxo, hxi⟩ := hpu _ _ _ hx
    refine ⟨⟨(ws ++ body) ++ (pre1 ++ pre2), ?_, ?_⟩, ?_, ?_⟩
    · rw [ht, hrt, hnt]; simp
    · have := (Seg.single hws hsp).append (hseg1.append hseg2)
      simpa [chainToks] using this
    · intro y hy; rcases List.mem_cons.mp hy with h | h
      · subst h; exact hxo
      · exact hops y h
    · intro y hy; rcases List.mem_cons.mp hy with h | h
      · subst h; exact hxi
      · exact hinn y h

theorem binaryWith_scan (pu : List Char → Res (Expr × List Char)) (n : Nat) (t : List Char) (e : Expr) (r : List Char)
    (h : binaryWith pu n t = .ok (e, r)) :
    ∃ u0 t0 ch, pu t = .ok (u0, t0) ∧ ChainScan pu t0 ch r ∧ e = parseChain u0 ch := by
  simp only [binaryWith] at h
  split at h
  · cases h
  · rename_i u0 t0 hu
    obtain ⟨ch, hcs, he⟩ := chainLoop_scan pu _ _ _ _ _ h
    exact ⟨u0, t0, ch, hu, hcs, he⟩

theorem binaryWith_good {pu : List Char → Res (Expr × List Char)} (hpu : ∀ t e r, pu t = .ok (e, r) → Good t e r)
    (n : Nat) (t : List Char) (e : Expr) (r : List Char) (h : binaryWith pu n t = .ok (e, r)) : GoodB t e r := by
  obtain ⟨u0, t0, ch, hu, hcs, rfl⟩ := binaryWith_scan pu n t e r h
  obtain ⟨⟨pre0, ht, hseg0⟩, hu0, hi0⟩ := hpu _ _ _ hu
  obtain ⟨⟨pre1, ht0, hseg1⟩, hops, hinn⟩ := chainScan_good hpu hcs
  refine ⟨⟨pre0 ++ pre1, by rw [ht, ht0]; simp, ?_⟩, chain_wf u0 ch hu0 hops, Inner_parseChain u0 ch hi0 hinn⟩
  rw [toks_parseChain]; exact hseg0.append hseg1


/-- tokens the argument loop still has to see: further arguments (behind commas unless none was parsed yet), then `)` -/
def argTail (args more : List Expr) : List Tok :=
  (if args.isEmpty then toksArgs more else toksMore more) ++ [.rparen]

theorem argsLoop_good {pb : List Char → Res (Expr × List Char)} (hpb : ∀ t e r, pb t = .ok (e, r) → GoodB t e r) :
    ∀ (n : Nat) (args : List Expr) (t : List Char) (as : List Expr) (r : List Char),
      argsLoop pb n args t = .ok (as, r) →
      ∃ more pre, as = args ++ more ∧ t = pre ++ r ∧ Seg pre (argTail args more) ∧ InnerArgs more := by
  intro n
  induction n with
  | zero => intro args t as r h; simp [argsLoop] at h
  | succ n ih =>
    intro args t as r h
    simp only [argsLoop] at h
    split at h
    · rename_i r' hclose
      simp only [Except.ok.injEq, Prod.mk.injEq] at h
      obtain ⟨rfl, rfl⟩ := h
      obtain ⟨ws, body, ht, hws, hsp⟩ := scanClose_spec hclose
      refine ⟨[], ws ++ body, by simp, by rw [ht]; simp, ?_, trivial⟩
      have := Seg.single hws hsp
      simpa [argTail, toksArgs, toksMore] using this
    · split at h
      · cases h
      · rename_i t1 hsep
        split at h
        · cases h
        · rename_i a nt hpa
          obtain ⟨more, pre2, has, hnt, hseg2, hinn⟩ := ih _ _ _ _ h
          obtain ⟨⟨pre1, ht1, hseg1⟩, hwf, hia⟩ := hpb _ _ _ hpa
          have hne : (args ++ [a]).isEmpty = false := by simp
          simp only [argTail, hne] at hseg2
          by_cases hargs : args.isEmpty
          · simp only [hargs, if_true, Option.some.injEq] at hsep
            subst hsep
            refine ⟨a :: more, pre1 ++ pre2, by simp [has], by rw [ht1, hnt]; simp, ?_, ⟨⟨hwf, hia⟩, hinn⟩⟩
            have := hseg1.append hseg2
            simpa [argTail, hargs, toksArgs] using this
          · simp only [hargs] at hsep
            obtain ⟨ws, body, ht, hws, hsp⟩ := scanComma_spec hsep
            refine ⟨a :: more, (ws ++ body) ++ (pre1 ++ pre2), by simp [has], by rw [ht, ht1, hnt]; simp, ?_, ⟨⟨hwf, hia⟩, hinn⟩⟩
            have := (Seg.single hws hsp).append (hseg1.append hseg2)
            simpa [argTail, hargs, toksMore] using this

theorem parseAtom_good (t : List Char) (e : Expr) (r : List Char) (hun : scanUnaryOp t = none)
    (h : parseAtom t = .ok (e, r)) : Good t e r := by
  unfold parseAtom at h
  split at h
  · rename_i q r' hs
    simp only [Except.ok.injEq, Prod.mk.injEq] at h
    obtain ⟨rfl, rfl⟩ := h
    obtain ⟨ws, body, ht, hws, hsp⟩ := scanNumber_spec hun hs
    exact ⟨⟨ws ++ body, by rw [ht]; simp, by simpa [toks] using Seg.single hws hsp⟩, rfl, trivial⟩
  · split at h
    · rename_i s r' hs
      simp only [Except.ok.injEq, Prod.mk.injEq] at h
      obtain ⟨rfl, rfl⟩ := h
      obtain ⟨ws, body, ht, hws, hsp⟩ := scanString_spec (Or.inl rfl) hs
      exact ⟨⟨ws ++ body, by rw [ht]; simp, by simpa [toks] using Seg.single hws hsp⟩, rfl, trivial⟩
    · split at h
      · rename_i s r' hs
        simp only [Except.ok.injEq, Prod.mk.injEq] at h
        obtain ⟨rfl, rfl⟩ := h
        obtain ⟨ws, body, ht, hws, hsp⟩ := scanString_spec (Or.inr rfl) hs
        exact ⟨⟨ws ++ body, by rw [ht]; simp, by simpa [toks] using Seg.single hws hsp⟩, rfl, trivial⟩
      · split at h
        · rename_i n r' hs
          simp only [Except.ok.injEq, Prod.mk.injEq] at h
          obtain ⟨rfl, rfl⟩ := h
          obtain ⟨ws, ht, hws, hid⟩ := scanVariable_spec hs
          exact ⟨⟨ws ++ n, by rw [ht]; simp, by simpa [toks] using Seg.single hws (Spell.var n hid)⟩, rfl, trivial⟩
        · split at h
          · rename_i n r' hs
            simp only [Except.ok.injEq, Prod.mk.injEq] at h
            obtain ⟨rfl, rfl⟩ := h
            obtain ⟨ws, body, ht, hws, hsp⟩ := scanVariableEx_spec hs
            exact ⟨⟨ws ++ body, by rw [ht]; simp, by simpa [toks] using Seg.single hws hsp⟩, rfl, trivial⟩
          · cases h

/-- every successful unary-level parse consumed a spelling of the tokens of the tree it returns, and returns a chain
operand whose inside is hereditarily precedence-respecting -/
theorem parseUnary_good : ∀ (fuel : Nat) (t : List Char) (e : Expr) (r : List Char),
    parseUnary fuel t = .ok (e, r) → Good t e r := by
  intro fuel
  induction fuel with
  | zero =>
    intro t e r h
    simp only [parseUnary] at h
    split at h
    · cases h
    · rename_i hcond
      have hun : scanUnaryOp t = none := by
        cases hu : scanUnaryOp t with
        | none => rfl
        | some x => simp [hu] at hcond
      exact parseAtom_good t e r hun h
  | succ fuel ih =>
    intro t e r h
    simp only [parseUnary] at h
    split at h
    · -- group
      rename_i gt hopen
      split at h
      · cases h
      · rename_i e' nt hb
        split at h
        · cases h
        · rename_i r' hclose
          simp only [Except.ok.injEq, Prod.mk.injEq] at h
          obtain ⟨rfl, rfl⟩ := h
          obtain ⟨⟨preB, hgt, hsegB⟩, hwf, hinn⟩ := binaryWith_good ih _ _ _ _ hb
          obtain ⟨ws1, b1, ht, hws1, hsp1⟩ := scanGroupOpen_spec hopen
          obtain ⟨ws2, b2, hnt, hws2, hsp2⟩ := scanClose_spec hclose
          refine ⟨⟨(ws1 ++ b1) ++ (preB ++ (ws2 ++ b2)), by rw [ht, hgt, hnt]; simp, ?_⟩, rfl, ⟨hwf, hinn⟩⟩
          have := (Seg.single hws1 hsp1).append (hsegB.append (Seg.single hws2 hsp2))
          simpa [toks] using this
    · split at h
      · -- unary operator
        rename_i op ut hun
        split at h
        · cases h
        · rename_i e' nt hu
          simp only [Except.ok.injEq, Prod.mk.injEq] at h
          obtain ⟨rfl, rfl⟩ := h
          obtain ⟨⟨pre, hut, hseg⟩, hop, hinn⟩ := ih _ _ _ hu
          obtain ⟨ws, b, ht, hws, hsp⟩ := scanUnaryOp_spec hun
          refine ⟨⟨(ws ++ b) ++ pre, by rw [ht, hut]; simp, ?_⟩, rfl, ⟨hop, hinn⟩⟩
          have := (Seg.single hws hsp).append hseg
          simpa [toks] using this
      · split at h
        · -- function call
          rename_i name argText hfn
          split at h
          · cases h
          · rename_i args r' ha
            simp only [Except.ok.injEq, Prod.mk.injEq] at h
            obtain ⟨rfl, rfl⟩ := h
            obtain ⟨more, pre, has, hat, hseg, hinn⟩ := argsLoop_good (fun t e r h => binaryWith_good ih fuel t e r h) _ _ _ _ _ ha
            obtain ⟨ws, ws2, ht, hws, hws2, hid, hlen⟩ := scanFuncOpen_spec hfn
            simp only [List.nil_append] at has
            subst has
            refine ⟨⟨(ws ++ (name ++ (ws2 ++ ['(']))) ++ pre, by rw [ht, hat]; simp, ?_⟩, rfl, hinn⟩
            have := (Seg.single hws (Spell.call name ws2 hid hlen hws2)).append hseg
            simpa [toks, argTail] using this
        · exact parseAtom_good t e r (by assumption) h


/-! ### failures: where they point, what they say, and that fuel never runs out -/

/-- the two error texts of the expression parser -/
def Msg (m : String) : Prop := m = "Syntax error" ∨ m = "Unmatched parenthesis"

theorem fuelMsg_not_Msg : ¬ Msg fuelMsg := by simp [Msg, fuelMsg]

/-- an error of `f` on `t` carries a suffix of `t` (the remaining text at the point of failure) and one of the two parser
error texts; the fuel marker can only appear when the text is longer than `k` -/
def ErrP {α : Type} (k : Nat) (f : List Char → Res α) : Prop :=
  ∀ t m l, f t = .error (m, l) → l <:+ t ∧ (Msg m ∨ (m = fuelMsg ∧ k < t.length))

/-- a success of `f` returns a strictly shorter suffix -/
def OkShort {β : Type} (f : List Char → Res (β × List Char)) : Prop :=
  ∀ t e r, f t = .ok (e, r) → r <:+ t ∧ r.length < t.length

theorem consumed {t ws body r : List Char} (ht : t = ws ++ (body ++ r)) (hb : body ≠ []) : r <:+ t ∧ r.length < t.length := by
  subst ht
  refine ⟨⟨ws ++ body, by simp⟩, ?_⟩
  cases body with
  | nil => exact absurd rfl hb
  | cons b bs => simp; omega

theorem short_of_seg {t pre r : List Char} {ts : List Tok} (ht : t = pre ++ r) (hs : Seg pre ts) (hne : ts ≠ []) :
    r <:+ t ∧ r.length < t.length := by
  subst ht
  refine ⟨List.suffix_append _ _, ?_⟩
  cases ts with
  | nil => exact absurd rfl hne
  | cons tok ts =>
    have := hs.ne_nil
    cases pre with
    | nil => exact absurd rfl this
    | cons p ps => simp; omega

theorem parseUnary_short (fuel : Nat) : OkShort (parseUnary fuel) := by
  intro t e r h
  obtain ⟨⟨pre, ht, hseg⟩, _, _⟩ := parseUnary_good fuel t e r h
  exact short_of_seg ht hseg (toks_ne_nil e)

theorem binaryWith_short (fuel n : Nat) : OkShort (binaryWith (parseUnary fuel) n) := by
  intro t e r h
  obtain ⟨⟨pre, ht, hseg⟩, _, _⟩ := binaryWith_good (parseUnary_good fuel) n t e r h
  exact short_of_seg ht hseg (toks_ne_nil e)

theorem chainLoop_err {pu : List Char → Res (Expr × List Char)} {k : Nat} (hok : OkShort pu) (herr : ErrP k pu) :
    ∀ (n : Nat) (l : Expr) (t : List Char) (m : String) (ln : List Char), chainLoop pu n l t = .error (m, ln) →
      ln <:+ t ∧ (Msg m ∨ (m = fuelMsg ∧ (k < t.length ∨ n < t.length))) := by
  intro n
  induction n with
  | zero =>
    intro l t m ln h
    simp only [chainLoop] at h
    split at h
    · cases h
    · rename_i x hsome
      obtain ⟨op, rt⟩ := x
      simp only [Except.error.injEq, Prod.mk.injEq] at h
      obtain ⟨rfl, rfl⟩ := h
      obtain ⟨ws, body, ht, _, hsp⟩ := scanBinOp_spec hsome
      have := (consumed ht hsp.ne_nil).2
      exact ⟨List.suffix_refl _, Or.inr ⟨rfl, Or.inr (by omega)⟩⟩
  | succ n ih =>
    intro l t m ln h
    simp only [chainLoop] at h
    split at h
    · cases h
    · rename_i op rt hsome
      obtain ⟨ws, body, ht, _, hsp⟩ := scanBinOp_spec hsome
      obtain ⟨hsuf, hlen⟩ := consumed ht hsp.ne_nil
      split at h
      · rename_i e hpu
        obtain ⟨m', l'⟩ := e
        simp only [Except.error.injEq, Prod.mk.injEq] at h
        obtain ⟨rfl, rfl⟩ := h
        obtain ⟨hs, hm⟩ := herr _ _ _ hpu
        refine ⟨hs.trans hsuf, ?_⟩
        rcases hm with hm | ⟨hm, hk⟩
        · exact Or.inl hm
        · exact Or.inr ⟨hm, Or.inl (by omega)⟩
      · rename_i x nt hpu
        obtain ⟨hs2, hl2⟩ := hok _ _ _ hpu
        obtain ⟨hs, hm⟩ := ih _ _ _ _ h
        refine ⟨(hs.trans hs2).trans hsuf, ?_⟩
        rcases hm with hm | ⟨hm, hk | hk⟩
        · exact Or.inl hm
        · exact Or.inr ⟨hm, Or.inl (by omega)⟩
        · exact Or.inr ⟨hm, Or.inr (by omega)⟩

theorem binaryWith_err {pu : List Char → Res (Expr × List Char)} {k : Nat} (hok : OkShort pu) (herr : ErrP k pu)
    (n : Nat) (t : List Char) (m : String) (ln : List Char) (h : binaryWith pu n t = .error (m, ln)) :
    ln <:+ t ∧ (Msg m ∨ (m = fuelMsg ∧ (k < t.length ∨ n < t.length))) := by
  simp only [binaryWith] at h
  split at h
  · rename_i e hpu
    obtain ⟨m', l'⟩ := e
    simp only [Except.error.injEq, Prod.mk.injEq] at h
    obtain ⟨rfl, rfl⟩ := h
    obtain ⟨hs, hm⟩ := herr _ _ _ hpu
    refine ⟨hs, ?_⟩
    rcases hm with hm | ⟨hm, hk⟩
    · exact Or.inl hm
    · exact Or.inr ⟨hm, Or.inl hk⟩
  · rename_i u0 t0 hpu
    obtain ⟨hs2, hl2⟩ := hok _ _ _ hpu
    obtain ⟨hs, hm⟩ := chainLoop_err hok herr _ _ _ _ _ h
    refine ⟨hs.trans hs2, ?_⟩
    rcases hm with hm | ⟨hm, hk | hk⟩
    · exact Or.inl hm
    · exact Or.inr ⟨hm, Or.inl (by omega)⟩
    · exact Or.inr ⟨hm, Or.inr (by omega)⟩

theorem argsLoop_err {pb : List Char → Res (Expr × List Char)} {k : Nat} (hok : OkShort pb) (herr : ErrP k pb) :
    ∀ (n : Nat) (args : List Expr) (t : List Char) (m : String) (ln : List Char), argsLoop pb n args t = .error (m, ln) →
      ln <:+ t ∧ (Msg m ∨ (m = fuelMsg ∧ (k < t.length ∨ n ≤ t.length))) := by
  intro n
  induction n with
  | zero =>
    intro args t m ln h
    simp only [argsLoop, Except.error.injEq, Prod.mk.injEq] at h
    obtain ⟨rfl, rfl⟩ := h
    exact ⟨List.suffix_refl _, Or.inr ⟨rfl, Or.inr (Nat.zero_le _)⟩⟩
  | succ n ih =>
    intro args t m ln h
    simp only [argsLoop] at h
    split at h
    · cases h
    · split at h
      · simp only [Except.error.injEq, Prod.mk.injEq] at h
        obtain ⟨rfl, rfl⟩ := h
        exact ⟨List.suffix_refl _, Or.inl (Or.inl rfl)⟩
      · rename_i t1 hsep
        have ht1 : t1 <:+ t ∧ t1.length ≤ t.length := by
          by_cases hargs : args.isEmpty
          · simp only [hargs, if_true, Option.some.injEq] at hsep
            subst hsep; exact ⟨List.suffix_refl _, Nat.le_refl _⟩
          · simp only [hargs] at hsep
            obtain ⟨ws, body, ht, _, hsp⟩ := scanComma_spec hsep
            have := consumed ht hsp.ne_nil
            exact ⟨this.1, by omega⟩
        split at h
        · rename_i e hpb
          obtain ⟨m', l'⟩ := e
          simp only [Except.error.injEq, Prod.mk.injEq] at h
          obtain ⟨rfl, rfl⟩ := h
          obtain ⟨hs, hm⟩ := herr _ _ _ hpb
          refine ⟨hs.trans ht1.1, ?_⟩
          rcases hm with hm | ⟨hm, hk⟩
          · exact Or.inl hm
          · exact Or.inr ⟨hm, Or.inl (by omega)⟩
        · rename_i a nt hpb
          obtain ⟨hs2, hl2⟩ := hok _ _ _ hpb
          obtain ⟨hs, hm⟩ := ih _ _ _ _ h
          refine ⟨(hs.trans hs2).trans ht1.1, ?_⟩
          rcases hm with hm | ⟨hm, hk | hk⟩
          · exact Or.inl hm
          · exact Or.inr ⟨hm, Or.inl (by omega)⟩
          · exact Or.inr ⟨hm, Or.inr (by omega)⟩

theorem parseAtom_err (t : List Char) (m : String) (l : List Char) (h : parseAtom t = .error (m, l)) :
    l = t ∧ m = "Syntax error" := by
  unfold parseAtom at h
  repeat (split at h; · cases h)
  simp only [Except.error.injEq, Prod.mk.injEq] at h
  exact ⟨h.2.symm, h.1.symm⟩

theorem parseUnary_err : ∀ fuel : Nat, ErrP fuel (parseUnary fuel) := by
  intro fuel
  induction fuel with
  | zero =>
    intro t m l h
    simp only [parseUnary] at h
    split at h
    · rename_i hcond
      simp only [Except.error.injEq, Prod.mk.injEq] at h
      obtain ⟨rfl, rfl⟩ := h
      refine ⟨List.suffix_refl _, Or.inr ⟨rfl, ?_⟩⟩
      cases t with
      | nil => simp [scanGroupOpen, scanChar, scanUnaryOp, scanFuncOpen, skipWs, firstAlt, unOpAlts, stripPrefix?] at hcond
      | cons c cs => simp
    · obtain ⟨rfl, rfl⟩ := parseAtom_err t m l h
      exact ⟨List.suffix_refl _, Or.inl (Or.inl rfl)⟩
  | succ fuel ih =>
    intro t m l h
    have hbin : ErrP fuel (binaryWith (parseUnary fuel) fuel) := by
      intro t' m' l' h'
      obtain ⟨hs, hm⟩ := binaryWith_err (parseUnary_short fuel) ih fuel t' m' l' h'
      refine ⟨hs, ?_⟩
      rcases hm with hm | ⟨hm, hk | hk⟩
      · exact Or.inl hm
      · exact Or.inr ⟨hm, hk⟩
      · exact Or.inr ⟨hm, hk⟩
    simp only [parseUnary] at h
    split at h
    · -- group
      rename_i gt hopen
      obtain ⟨ws, body, ht, _, hsp⟩ := scanGroupOpen_spec hopen
      obtain ⟨hsuf, hlen⟩ := consumed ht hsp.ne_nil
      split at h
      · rename_i e hb
        obtain ⟨m', l'⟩ := e
        simp only [Except.error.injEq, Prod.mk.injEq] at h
        obtain ⟨rfl, rfl⟩ := h
        obtain ⟨hs, hm⟩ := hbin _ _ _ hb
        refine ⟨hs.trans hsuf, ?_⟩
        rcases hm with hm | ⟨hm, hk⟩
        · exact Or.inl hm
        · exact Or.inr ⟨hm, by omega⟩
      · split at h
        · simp only [Except.error.injEq, Prod.mk.injEq] at h
          obtain ⟨rfl, rfl⟩ := h
          exact ⟨List.suffix_refl _, Or.inl (Or.inr rfl)⟩
        · cases h
    · split at h
      · -- unary operator
        rename_i op ut hun
        obtain ⟨ws, body, ht, _, hsp⟩ := scanUnaryOp_spec hun
        obtain ⟨hsuf, hlen⟩ := consumed ht hsp.ne_nil
        split at h
        · rename_i e hu
          obtain ⟨m', l'⟩ := e
          simp only [Except.error.injEq, Prod.mk.injEq] at h
          obtain ⟨rfl, rfl⟩ := h
          obtain ⟨hs, hm⟩ := ih _ _ _ hu
          refine ⟨hs.trans hsuf, ?_⟩
          rcases hm with hm | ⟨hm, hk⟩
          · exact Or.inl hm
          · exact Or.inr ⟨hm, by omega⟩
        · cases h
      · split at h
        · -- function call
          rename_i name argText hfn
          obtain ⟨ws, ws2, ht, _, _, hid, hlen2⟩ := scanFuncOpen_spec hfn
          have hsuf : argText <:+ t := ⟨ws ++ (name ++ (ws2 ++ ['('])), by rw [ht]; simp⟩
          have hlen : argText.length + 2 ≤ t.length := by rw [ht]; simp; omega
          split at h
          · rename_i e ha
            obtain ⟨m', l'⟩ := e
            simp only [Except.error.injEq, Prod.mk.injEq] at h
            obtain ⟨rfl, rfl⟩ := h
            obtain ⟨hs, hm⟩ := argsLoop_err (binaryWith_short fuel fuel) hbin _ _ _ _ _ ha
            refine ⟨hs.trans hsuf, ?_⟩
            rcases hm with hm | ⟨hm, hk | hk⟩
            · exact Or.inl hm
            · exact Or.inr ⟨hm, by omega⟩
            · exact Or.inr ⟨hm, by omega⟩
          · cases h
        · obtain ⟨rfl, rfl⟩ := parseAtom_err t m l h
          exact ⟨List.suffix_refl _, Or.inl (Or.inl rfl)⟩

theorem parseBinary_err (fuel : Nat) : ErrP fuel (parseBinary fuel) := by
  intro t m l h
  obtain ⟨hs, hm⟩ := binaryWith_err (parseUnary_short fuel) (parseUnary_err fuel) fuel t m l h
  refine ⟨hs, ?_⟩
  rcases hm with hm | ⟨hm, hk | hk⟩
  · exact Or.inl hm
  · exact Or.inr ⟨hm, hk⟩
  · exact Or.inr ⟨hm, hk⟩


/-! ## The property theorems at text level -/

/-- the 15 token patterns the scanners of `BareModel/ExprScan.lean` were written for (name, pattern source, flags) -/
def pinnedRegexes : List (String × String × Nat) :=
  [
   ("parser._R_EXPR_BINARY_OP", "^\\s*(\\*\\*|\\*|\\/|%|\\+|-|<=|<|>=|>|==|!=|&&|\\|\\|)", 32),
   ("parser._R_EXPR_UNARY_OP", "^\\s*(!|-)", 32),
   ("parser._R_EXPR_FUNCTION_OPEN", "^\\s*([A-Za-z_]\\w*)\\s*\\(", 32),
   ("parser._R_EXPR_FUNCTION_SEPARATOR", "^\\s*,", 32),
   ("parser._R_EXPR_FUNCTION_CLOSE", "^\\s*\\)", 32),
   ("parser._R_EXPR_GROUP_OPEN", "^\\s*\\(", 32),
   ("parser._R_EXPR_GROUP_CLOSE", "^\\s*\\)", 32),
   ("parser._R_EXPR_NUMBER", "^\\s*([+-]?\\d+(?:\\.\\d*)?(?:e[+-]\\d+)?)", 32),
   ("parser._R_EXPR_STRING", "^\\s*'((?:\\\\\\\\|\\\\'|[^'])*)'", 32),
   ("parser._R_EXPR_STRING_ESCAPE", "\\\\([\\\\\\'])", 32),
   ("parser._R_EXPR_STRING_DOUBLE", "^\\s*\"((?:\\\\\\\\|\\\\\"|[^\"])*)\"", 32),
   ("parser._R_EXPR_STRING_DOUBLE_ESCAPE", "\\\\([\\\\\"])", 32),
   ("parser._R_EXPR_VARIABLE", "^\\s*([A-Za-z_]\\w*)", 32),
   ("parser._R_EXPR_VARIABLE_EX", "^\\s*\\[\\s*((?:\\\\\\]|[^\\]])+)\\s*\\]", 32),
   ("parser._R_EXPR_VARIABLE_EX_ESCAPE", "\\\\([\\\\\\]])", 32)
  ]

/-- **regex_sources_pinned**: the token patterns in the working tree (regenerated into `Gen.regexes` on every run) are
exactly the ones the hand-written scanners mirror — alternation order of the operators, `\w*` in the call pattern (`\w+` until fix F31),
the optional parts of the number pattern, the escape alternatives of strings and bracketed names.  A changed pattern
breaks this obligation (and then the correspondence streams and the search decide what it means). -/
theorem regex_sources_pinned :
    pinnedRegexes.map (fun r => (r.1, Gen.regexes.lookup r.1)) = pinnedRegexes.map (fun r => (r.1, some r.2)) := by
  decide


/-- **parse_uses_chain**: the binary level of the text parser is the proved chain parser — whenever
`_parse_binary_expression` succeeds, its result is `parseChain` of the first unary-level operand and of the
(operator, operand) pairs it scanned left to right (`ChainScan`), and all of those are chain operands.  Hence every
theorem about `parseChain` (`chain_flat`, `chain_wf`, `chain_is_the_prec_tree`) applies to what the text parser built. -/
theorem parse_uses_chain (fuel : Nat) (text : List Char) (e : Expr) (rest : List Char)
    (h : parseBinary fuel text = .ok (e, rest)) :
    ∃ u0 t0 ch, parseUnary fuel text = .ok (u0, t0) ∧ ChainScan (parseUnary fuel) t0 ch rest ∧
      e = parseChain u0 ch ∧ IsOperand u0 ∧ (∀ x ∈ ch, IsOperand x.2) ∧
      (∀ t, (WFPrec t ∧ first t = u0 ∧ chain t = ch) ↔ t = e) := by
  obtain ⟨u0, t0, ch, hu, hcs, he⟩ := binaryWith_scan _ _ _ _ _ h
  have hu0 := (parseUnary_good fuel _ _ _ hu).operand
  have hops := (chainScan_good (parseUnary_good fuel) hcs).2.1
  exact ⟨u0, t0, ch, hu, hcs, he, hu0, hops, fun t => by rw [he]; exact chain_is_the_prec_tree u0 ch hu0 hops t⟩

/-- the same at the level of `parse_expression`: an accepted text yields `parseChain` of scanned operands -/
theorem parseExpr_ok_iff (s : String) (e : Expr) :
    parseExpr s = .ok e ↔ ∃ rest, parseBinary s.toList.length s.toList = .ok (e, rest) ∧ (skipWs rest).isEmpty = true := by
  simp only [parseExpr, parseExprL]
  generalize parseBinary s.toList.length s.toList = res
  match res with
  | .ok (e', nt) =>
    by_cases hblank : (skipWs nt).isEmpty = true
    · simp only [hblank, if_true]
      constructor
      · intro h; cases h; exact ⟨nt, rfl, hblank⟩
      · rintro ⟨rest, hr, _⟩; cases hr; rfl
    · simp only [hblank]
      constructor
      · intro h; cases h
      · rintro ⟨rest, hr, hb'⟩; cases hr; exact absurd hb' hblank
  | .error (m, l) =>
    constructor
    · intro h; cases h
    · rintro ⟨rest, hr, _⟩; cases hr

/-- **parse_deep_wf**: every accepted tree is *hereditarily* precedence-respecting: at every binary node of the tree —
at the top, inside groups, inside call arguments, under unary operators — the left child (if a bare binary node) has
precedence ≥ the node's and the right child strictly greater, and the operand of a unary operator is never a bare
binary node.  With `wf_unique` this is *the* tree the precedence levels and left associativity dictate for the token
sequence of the text (`accept_faithful`), for texts of any length and nesting depth. -/
theorem parse_deep_wf (s : String) (e : Expr) (h : parseExpr s = .ok e) : HWF e := by
  obtain ⟨rest, hb, _⟩ := (parseExpr_ok_iff s e).mp h
  have := binaryWith_good (parseUnary_good _) _ _ _ _ hb
  exact ⟨this.wf, this.inner⟩

/-- **unary_tighter**: what a unary operator is applied to is a single unary-level operand (a literal, a variable, a
call, a group or another unary application), never a binary chain: `-a ** b` is `(-a) ** b`.  And the unary application
itself is a leaf for the enclosing chain. -/
theorem unary_tighter (fuel : Nat) (text : List Char) (op : UnOp) (x : Expr) (rest : List Char)
    (h : parseUnary fuel text = .ok (.unary op x, rest)) : IsOperand x ∧ IsOperand (.unary op x) := by
  have := (parseUnary_good fuel _ _ _ h).inner
  simp only [Inner] at this
  exact ⟨this.1, rfl⟩

/-- **group_overrides**: a parenthesised text is parsed by an independent run of the binary-level parser on the text
between the parentheses, and the resulting group is a leaf for the enclosing chain (so its inside is never
re-ordered against the operators outside). -/
theorem group_overrides (fuel : Nat) (text gt : List Char) (e : Expr) (rest : List Char)
    (hopen : scanGroupOpen text = some gt) (h : parseUnary (fuel + 1) text = .ok (e, rest)) :
    ∃ inner nt, parseBinary fuel gt = .ok (inner, nt) ∧ scanClose nt = some rest ∧ e = .group inner ∧
      IsOperand e ∧ WFPrec inner := by
  simp only [parseUnary, hopen] at h
  split at h
  · cases h
  · rename_i inner nt hb
    split at h
    · cases h
    · rename_i r hclose
      simp only [Except.ok.injEq, Prod.mk.injEq] at h
      obtain ⟨rfl, rfl⟩ := h
      exact ⟨inner, nt, hb, hclose, rfl, rfl, (binaryWith_good (parseUnary_good fuel) _ _ _ _ hb).wf⟩

/-- **fuel_sufficient**: fuel = text length is enough.  Every recursive call of the parser is made on a strictly shorter
text (`parseUnary_short`, `consumed`), so the fuel marker never appears: no parse fails for lack of fuel. -/
theorem fuel_sufficient (fuel : Nat) (text : List Char) (hf : text.length ≤ fuel) (l : List Char) :
    parseUnary fuel text ≠ .error (fuelMsg, l) ∧ parseBinary fuel text ≠ .error (fuelMsg, l) := by
  constructor
  · intro h
    rcases (parseUnary_err fuel _ _ _ h).2 with hm | ⟨_, hk⟩
    · exact fuelMsg_not_Msg hm
    · omega
  · intro h
    rcases (parseBinary_err fuel _ _ _ h).2 with hm | ⟨_, hk⟩
    · exact fuelMsg_not_Msg hm
    · omega

/-- **reject_is_parser_error**: the only failure value of `parse_expression` is a parser error carrying one of the two
error texts and a column that points at the start of a suffix of the text (the remaining text where parsing stopped):
`column + len(remaining) = len(text) + 1` with no truncation in the subtraction, hence `1 ≤ column ≤ len(text) + 1`. -/
theorem reject_is_parser_error (s : String) (err : ParseErr) (h : parseExpr s = .error err) :
    (err.error = "Syntax error" ∨ err.error = "Unmatched parenthesis") ∧
    (∃ line, line <:+ s.toList ∧ err.column + line.length = s.length + 1) ∧
    1 ≤ err.column ∧ err.column ≤ s.length + 1 := by
  have hlen : s.toList.length = s.length := String.length_toList
  simp only [parseExpr, parseExprL] at h
  split at h
  · rename_i e nt hb
    split at h
    · cases h
    · simp only [Except.error.injEq] at h
      subst h
      have hsuf := (binaryWith_short _ _ _ _ _ hb).1
      have := hsuf.length_le
      exact ⟨Or.inl rfl, ⟨nt, hsuf, by simp only; omega⟩, by simp, by simp only; omega⟩
  · rename_i m l hb
    simp only [Except.error.injEq] at h
    subst h
    obtain ⟨hsuf, hm⟩ := parseBinary_err _ _ _ _ hb
    have := hsuf.length_le
    refine ⟨?_, ⟨l, hsuf, by simp only; omega⟩, by simp, by simp only; omega⟩
    rcases hm with hm | ⟨_, hk⟩
    · exact hm
    · omega

/-- **accept_faithful**: accepted text is never silently re-interpreted.  If `parse_expression` accepts `s` with tree
`e`, then `s` *is* a spelling of exactly the in-order token sequence of `e` (`toks e`: operands, operators, parentheses,
`name(`, commas): the text is `(whitespace* spelling-of-tokenᵢ)*` followed by whitespace only, where a spelling is a
member of the token pattern's language denoting the token's value (`Spell`).  No character of the text is skipped, no
token is invented, dropped or re-ordered, and trailing text is not ignored. -/
theorem accept_faithful (s : String) (e : Expr) (h : parseExpr s = .ok e) : Lexes s.toList (toks e) := by
  obtain ⟨rest, hb, hblank⟩ := (parseExpr_ok_iff s e).mp h
  obtain ⟨pre, ht, hseg⟩ := (binaryWith_good (parseUnary_good _) _ _ _ _ hb).seg
  refine ⟨pre, rest, ht, hseg, ?_⟩
  obtain ⟨ws, hws, hsp⟩ := skipWs_split rest
  have : skipWs rest = [] := by simpa using hblank
  rw [this, List.append_nil] at hws
  rw [hws]; exact hsp

/-! ### non-vacuity at text level

`kernel_rfl` closes `lhs = rhs` with the term `Eq.refl lhs` and leaves the definitional-equality check to the *kernel*
(which evaluates the parser on the literal text in well under a second), instead of the elaborator's much slower
unifier.  Nothing is trusted: a wrong right-hand side is rejected by the kernel when the `example` is added. -/

open Lean Elab Tactic Meta in
elab "kernel_rfl" : tactic => do
  let g ← getMainGoal
  let t ← instantiateMVars (← g.getType)
  let some (_, lhs, _) := t.eq? | throwError "kernel_rfl: the goal is not an equation"
  g.assign (← mkExpectedTypeHint (← mkEqRefl lhs) t)

example : parseExpr "a + b * c ** d - e" =
    .ok (.binary .sub (.binary .add (v "a") (.binary .mul (v "b") (.binary .pow (v "c") (v "d")))) (v "e")) := by kernel_rfl

/-- unary binds tighter than `**`; parentheses override; a call, a string with an escape, a bracketed name, `1.5e+3` -/
example : parseExpr "-a ** b" = .ok (.binary .pow (.unary .neg (v "a")) (v "b")) := by kernel_rfl
example : parseExpr "(a + b) * c" = .ok (.binary .mul (.group (.binary .add (v "a") (v "b"))) (v "c")) := by kernel_rfl
example : parseExpr " ff( 1.5e+3 ,'it\\'s', [x y] )\t" =
    .ok (.function (.user "ff") [.number 1500, .string "it's", v "x y"]) := by kernel_rfl
example : parseExpr "-5 + +5" = .ok (.binary .add (.unary .neg (.number 5)) (.number 5)) := by kernel_rfl

/-- all 14 operators in one text (no whitespace at all) -/
example : parseExpr "a||b&&c==d!=e<=f<g>=h>i+j-k*l/m%n**o" =
    .ok (.binary .or (v "a") (.binary .and (v "b") (.binary .ne (.binary .eq (v "c") (v "d"))
      (.binary .gt (.binary .ge (.binary .lt (.binary .le (v "e") (v "f")) (v "g")) (v "h"))
        (.binary .sub (.binary .add (v "i") (v "j"))
          (.binary .mod (.binary .div (.binary .mul (v "k") (v "l")) (v "m")) (.binary .pow (v "n") (v "o")))))))) := by
  kernel_rfl

/-- the hypotheses of the theorems are inhabited: `accept_faithful`, `parse_deep_wf`, `parse_uses_chain` on a nested text … -/
private def nested : Expr :=
  .binary .mul (.unary .neg (.group (.binary .add (v "a") (v "b")))) (.function (.user "ff") [v "c", .unary .not (v "d")])

private theorem nested_parses : parseExpr "-(a + b) * ff(c, !d)" = .ok nested := by kernel_rfl

example : Lexes "-(a + b) * ff(c, !d)".toList (toks nested) := accept_faithful _ _ nested_parses
example : HWF nested := parse_deep_wf _ _ nested_parses
example : ∃ u0 ch, nested = parseChain u0 ch ∧ IsOperand u0 ∧ ∀ x ∈ ch, IsOperand x.2 := by
  obtain ⟨rest, hb, _⟩ := (parseExpr_ok_iff _ _).mp nested_parses
  obtain ⟨u0, _, ch, _, _, he, h0, hch, _⟩ := parse_uses_chain _ _ _ _ hb
  exact ⟨u0, ch, he, h0, hch⟩

/-- `unary_tighter` on `-a ** b`: the unary-level parse stops in front of ` ** b`; its operand `a` is a chain operand -/
example : IsOperand (v "a") ∧ IsOperand (.unary .neg (v "a")) :=
  unary_tighter 7 "-a ** b".toList .neg (v "a") " ** b".toList (by kernel_rfl)

/-- `group_overrides` on `(a + b) * c`: the inside is an independent binary-level parse of `a + b) * c` up to the `)` -/
example : ∃ inner nt, parseBinary 10 "a + b) * c".toList = .ok (inner, nt) ∧ scanClose nt = some " * c".toList ∧
    Expr.group (.binary .add (v "a") (v "b")) = .group inner ∧ IsOperand (Expr.group (.binary .add (v "a") (v "b"))) ∧ WFPrec inner :=
  group_overrides 10 "(a + b) * c".toList "a + b) * c".toList _ " * c".toList (by kernel_rfl) (by kernel_rfl)

/-- `fuel_sufficient` / `reject_is_parser_error` on a rejected text (the failure is a real parser error, not the fuel marker) -/
example : parseBinary 4 "a + ".toList ≠ .error (fuelMsg, []) := (fuel_sufficient 4 "a + ".toList (by decide) []).2

example : ∃ line, line <:+ "a + ".toList ∧ 4 + line.length = "a + ".length + 1 :=
  (reject_is_parser_error "a + " ⟨"Syntax error", 4⟩ (by kernel_rfl)).2.1

/-- … and the rejections: trailing text, unbalanced parenthesis, an operator without operand (a one-letter call is
accepted since fix F31) -/
example : parseExpr "a b" = .error ⟨"Syntax error", 2⟩ := by kernel_rfl
example : parseExpr "(a" = .error ⟨"Unmatched parenthesis", 1⟩ := by kernel_rfl
example : parseExpr "f(x)" = .ok (.function (.user "f") [v "x"]) := by kernel_rfl
example : parseExpr "a ** " = .error ⟨"Syntax error", 5⟩ := by kernel_rfl
example : parseExpr "1e5" = .error ⟨"Syntax error", 2⟩ := by kernel_rfl
-- the token patterns are compiled without `re.ASCII` (flags 32 in `pinnedRegexes`): `\d` is every Unicode decimal digit, read
-- with its decimal value (as `float()` does), `\w` every Unicode word character; `[A-Za-z_]` stays ASCII
example : parseExpr "aé٣(١٢.٥e+٣, x²)" = .ok (.function (.user "aé٣") [.number 12500, v "x²"]) := by kernel_rfl
example : parseExpr "٣" = .ok (.number 3) := by kernel_rfl
example : parseExpr "1٣ + 𝟘𝟡" = .ok (.binary .add (.number 13) (.number 9)) := by kernel_rfl
example : parseExpr "é" = .error ⟨"Syntax error", 1⟩ := by kernel_rfl
example : parseExpr "1²" = .error ⟨"Syntax error", 2⟩ := by kernel_rfl

/-- the backtracking cases of the string / bracket patterns -/
example : parseExpr "'abc\\'" = .ok (.string "abc\\") := by kernel_rfl
example : parseExpr "[   ]" = .ok (v " ") := by kernel_rfl

end C02
