import BareModel.ExprParse

/-!
# C02 — expression text parses to the tree the precedence rules dictate (binary-chain core)

Property theorems (all chains of any length, all operands):

* `reorder_is_prec`   the generated table `parser.BINARY_REORDER` is exactly "strictly lower precedence" (8 levels)
* `chain_flat`        nothing is dropped or re-ordered: the in-order token sequence of the result is the input
* `chain_wf`          the result respects precedence and left associativity (`WFPrec`)
* `rebuild`           completeness: every `WFPrec` tree is what the chain parser builds from its own token sequence
* `wf_unique`         hence *the* tree is unique: two `WFPrec` trees with the same token sequence are equal
* `chain_is_the_prec_tree`  the three together
* `unary_group_are_operands`  unary applications and groups are leaves of the chain (bind tighter / override)
-/

namespace C02
open ExprParse

/-- The generated re-order table is exactly "strictly lower precedence": -/
theorem reorder_is_prec : ∀ a b : BinOp, reorders a b = decide (prec b < prec a) := by
  intro a b; cases a <;> cases b <;> decide

/-- induction over the binary skeleton of an expression (`Expr` is a nested inductive, so `induction` is unavailable) -/
theorem binInd {motive : Expr → Prop}
    (binary : ∀ op l r, motive l → motive r → motive (.binary op l r))
    (operand : ∀ e, IsOperand e → motive e) : ∀ e, motive e
  | .binary op l r => binary op l r (binInd binary operand l) (binInd binary operand r)
  | .number q => operand _ rfl
  | .string s => operand _ rfl
  | .variable n => operand _ rfl
  | .function n a => operand _ rfl
  | .unary o e => operand _ rfl
  | .group e => operand _ rfl

/-- specification-shaped insertion (precedence comparison instead of table lookup, one recursion instead of two) -/
def ins : Expr → BinOp → Expr → Expr
  | .binary pl l rr, op, r => if prec pl < prec op then .binary pl l (ins rr op r) else .binary op (.binary pl l rr) r
  | t, op, r => .binary op t r

theorem graft_eq (pl : BinOp) (l rr : Expr) (op : BinOp) (r : Expr) :
    graft (.binary pl l rr) op r = .binary pl l (ins rr op r) := by
  induction rr using binInd generalizing pl l with
  | binary pr rl rrr _ ihr =>
    rw [graft]; simp only [reorder_is_prec]
    by_cases h : prec pr < prec op
    · simp only [h, decide_true, if_true]; rw [ihr]; simp [ins, h]
    · simp [h, ins]
  | operand e he => cases e <;> simp_all [IsOperand, rootOp, graft, ins]

theorem insR_eq_ins (t : Expr) (op : BinOp) (r : Expr) : insR t op r = ins t op r := by
  cases t with
  | binary pl l rr =>
    simp only [insR, reorder_is_prec]
    by_cases h : prec pl < prec op
    · simp only [h, decide_true, if_true, graft_eq]; simp [ins, h]
    · simp [h, ins]
  | _ => simp [insR, ins]

def build : Expr → List (BinOp × Expr) → Expr
  | t, [] => t
  | t, (op, r) :: rest => build (ins t op r) rest

theorem parseChain_eq_build (t : Expr) (ch : List (BinOp × Expr)) : parseChain t ch = build t ch := by
  induction ch generalizing t with
  | nil => rfl
  | cons x xs ih => obtain ⟨op, r⟩ := x; simp [parseChain, build, insR_eq_ins, ih]

/-! ### nothing dropped, nothing re-ordered -/

theorem flat_operand {e : Expr} (h : IsOperand e) : flat e = [.inl e] := by
  cases e <;> simp_all [IsOperand, rootOp, flat]

theorem flat_ins (t : Expr) (op : BinOp) (r : Expr) (hr : IsOperand r) :
    flat (ins t op r) = flat t ++ [.inr op, .inl r] := by
  induction t using binInd with
  | binary pl l rr _ ihr =>
    simp only [ins]; split
    · simp [flat, ihr]
    · simp [flat, flat_operand hr]
  | operand e he => cases e <;> simp_all [IsOperand, rootOp, ins, flat, flat_operand hr]

theorem flat_build (t : Expr) (ch : List (BinOp × Expr)) (hch : ∀ x ∈ ch, IsOperand x.2) :
    flat (build t ch) = flat t ++ ch.flatMap (fun x => [.inr x.1, .inl x.2]) := by
  induction ch generalizing t with
  | nil => simp [build]
  | cons x xs ih =>
    obtain ⟨op, r⟩ := x
    simp only [build]
    rw [ih _ (fun y hy => hch y (List.mem_cons_of_mem _ hy)), flat_ins _ _ _ (hch (op, r) (List.mem_cons_self ..))]
    simp

/-- **chain_flat**: the in-order traversal of the parsed chain `u₀ o₁ u₁ o₂ u₂ …` is exactly that sequence. -/
theorem chain_flat (u0 : Expr) (ch : List (BinOp × Expr)) (h0 : IsOperand u0) (hch : ∀ x ∈ ch, IsOperand x.2) :
    flat (parseChain u0 ch) = .inl u0 :: ch.flatMap (fun x => [.inr x.1, .inl x.2]) := by
  rw [parseChain_eq_build, flat_build _ _ hch, flat_operand h0]; rfl

/-! ### the result respects precedence and left associativity -/

theorem WF_operand {e : Expr} (h : IsOperand e) : WFPrec e := by
  cases e <;> simp_all [IsOperand, rootOp, WFPrec]

theorem rootOp_ins (t : Expr) (op : BinOp) (r : Expr) :
    ∃ q, rootOp (ins t op r) = some q ∧ prec q ≤ prec op ∧ (∀ q', rootOp t = some q' → min (prec q') (prec op) = prec q) := by
  cases t with
  | binary pl l rr =>
    simp only [ins]; split
    · exact ⟨pl, by simp [rootOp]; omega⟩
    · exact ⟨op, by simp [rootOp]; omega⟩
  | _ => exact ⟨op, by simp [ins, rootOp]⟩

theorem WF_ins (t : Expr) (op : BinOp) (r : Expr) (hr : IsOperand r) (h : WFPrec t) : WFPrec (ins t op r) := by
  induction t using binInd with
  | binary pl l rr _ ihr =>
    obtain ⟨h1, h2, h3, h4⟩ := h
    simp only [ins]; split
    · rename_i hlt
      refine ⟨h1, ihr h2, h3, ?_⟩
      intro q hq
      obtain ⟨q0, hq0, hle, hmin⟩ := rootOp_ins rr op r
      rw [hq0] at hq; cases hq
      cases hrr : rootOp rr with
      | none =>
        have : ins rr op r = .binary op rr r := by cases rr <;> simp_all [rootOp, ins]
        rw [this] at hq0; simp [rootOp] at hq0; subst hq0; exact hlt
      | some q' => have := hmin q' hrr; have := h4 q' hrr; omega
    · rename_i hge
      refine ⟨⟨h1, h2, h3, h4⟩, WF_operand hr, ?_, ?_⟩
      · intro q hq; simp [rootOp] at hq; subst hq; omega
      · intro q hq; rw [hr] at hq; cases hq
  | operand e he =>
    have : ins e op r = .binary op e r := by cases e <;> simp_all [IsOperand, rootOp, ins]
    rw [this]
    refine ⟨WF_operand he, WF_operand hr, ?_, ?_⟩
    · intro q hq; rw [he] at hq; cases hq
    · intro q hq; rw [hr] at hq; cases hq

theorem WF_build (t : Expr) (ch : List (BinOp × Expr)) (hch : ∀ x ∈ ch, IsOperand x.2) (h : WFPrec t) :
    WFPrec (build t ch) := by
  induction ch generalizing t with
  | nil => simpa [build]
  | cons x xs ih =>
    simp only [build]
    exact ih _ (fun y hy => hch y (List.mem_cons_of_mem _ hy)) (WF_ins t x.1 x.2 (hch x (List.mem_cons_self ..)) h)

/-- **chain_wf** -/
theorem chain_wf (u0 : Expr) (ch : List (BinOp × Expr)) (h0 : IsOperand u0) (hch : ∀ x ∈ ch, IsOperand x.2) :
    WFPrec (parseChain u0 ch) := by
  rw [parseChain_eq_build]; exact WF_build _ _ hch (WF_operand h0)

/-! ### completeness and uniqueness -/

def first : Expr → Expr
  | .binary _ l _ => first l
  | e => e

def chain : Expr → List (BinOp × Expr)
  | .binary op l r => chain l ++ (op, first r) :: chain r
  | _ => []

theorem first_operand (t : Expr) : IsOperand (first t) := by
  induction t using binInd with
  | binary op l r ihl _ => simpa [first] using ihl
  | operand e he => cases e <;> simp_all [first, IsOperand, rootOp]

theorem chain_operands (t : Expr) : ∀ x ∈ chain t, IsOperand x.2 := by
  induction t using binInd with
  | binary op l r ihl ihr =>
    intro x hx
    simp only [chain, List.mem_append, List.mem_cons] at hx
    rcases hx with hx | hx | hx
    · exact ihl x hx
    · subst hx; exact first_operand r
    · exact ihr x hx
  | operand e he => intro x hx; cases e <;> simp_all [chain, IsOperand, rootOp]

theorem build_append (t : Expr) (a b : List (BinOp × Expr)) : build t (a ++ b) = build (build t a) b := by
  induction a generalizing t with
  | nil => rfl
  | cons x xs ih => simp [build, ih]

/-- every operator of the binary skeleton has precedence ≥ m -/
def AllGe (m : Nat) : Expr → Prop
  | .binary op l r => m ≤ prec op ∧ AllGe m l ∧ AllGe m r
  | _ => True

theorem AllGe_operand {m : Nat} {e : Expr} (h : IsOperand e) : AllGe m e := by
  cases e <;> simp_all [IsOperand, rootOp, AllGe]

theorem AllGe.mono {m m' : Nat} {t : Expr} (h : AllGe m t) (hm : m' ≤ m) : AllGe m' t := by
  induction t using binInd with
  | binary op l r ihl ihr => exact ⟨by have := h.1; omega, ihl h.2.1, ihr h.2.2⟩
  | operand e he => exact AllGe_operand he

theorem WF_allGe (t : Expr) : WFPrec t → ∀ q, rootOp t = some q → AllGe (prec q) t := by
  induction t using binInd with
  | binary op l r ihl ihr =>
    intro h q hq
    obtain ⟨hl, hr, h3, h4⟩ := h
    simp [rootOp] at hq; subst hq
    refine ⟨Nat.le_refl _, ?_, ?_⟩
    · cases hlo : rootOp l with
      | none => exact AllGe_operand hlo
      | some pl => exact (ihl hl pl hlo).mono (h3 pl hlo)
    · cases hro : rootOp r with
      | none => exact AllGe_operand hro
      | some pr => exact (ihr hr pr hro).mono (Nat.le_of_lt (h4 pr hro))
  | operand e he => intro _ q hq; rw [he] at hq; cases hq

theorem chain_allGe {m : Nat} (t : Expr) : AllGe m t → ∀ x ∈ chain t, m ≤ prec x.1 := by
  induction t using binInd with
  | binary op l r ihl ihr =>
    intro h x hx
    obtain ⟨h1, h2, h3⟩ := h
    simp only [chain, List.mem_append, List.mem_cons] at hx
    rcases hx with hx | hx | hx
    · exact ihl h2 x hx
    · subst hx; exact h1
    · exact ihr h3 x hx
  | operand e he => intro _ x hx; cases e <;> simp_all [chain, IsOperand, rootOp]

/-- operators of strictly higher precedence than the root are inserted below it, on the right -/
theorem build_under (op : BinOp) (l x : Expr) (c : List (BinOp × Expr)) (h : ∀ y ∈ c, prec op < prec y.1) :
    build (.binary op l x) c = .binary op l (build x c) := by
  induction c generalizing x with
  | nil => rfl
  | cons y ys ih =>
    have hy := h y (List.mem_cons_self ..)
    simp only [build, ins, hy, if_true]
    exact ih _ (fun z hz => h z (List.mem_cons_of_mem _ hz))

theorem rebuild_build (t : Expr) : WFPrec t → build (first t) (chain t) = t := by
  induction t using binInd with
  | binary op l r ihl ihr =>
    intro h
    obtain ⟨hl, hr, h3, h4⟩ := h
    simp only [chain, first]
    rw [build_append, ihl hl]
    simp only [build]
    have hins : ins l op (first r) = .binary op l (first r) := by
      cases hlo : rootOp l with
      | none => cases l <;> simp_all [rootOp, ins]
      | some pl =>
        cases l with
        | binary pl' ll lr =>
          simp [rootOp] at hlo; subst hlo
          have := h3 pl' rfl
          simp only [ins]; rw [if_neg (by omega)]
        | _ => simp [rootOp] at hlo
    rw [hins]
    have hgt : ∀ y ∈ chain r, prec op < prec y.1 := by
      cases hro : rootOp r with
      | none => cases r <;> simp_all [rootOp, chain]
      | some pr =>
        intro y hy
        have := chain_allGe _ (WF_allGe _ hr pr hro) y hy
        have := h4 pr hro
        omega
    rw [build_under op l (first r) (chain r) hgt, ihr hr]
  | operand e he => intro _; cases e <;> simp_all [first, chain, build, IsOperand, rootOp]

/-- **rebuild** (completeness): a precedence-respecting tree is exactly what the chain parser produces from its own
first operand and (operator, operand) sequence. -/
theorem rebuild (t : Expr) (h : WFPrec t) : parseChain (first t) (chain t) = t := by
  rw [parseChain_eq_build]; exact rebuild_build t h

/-- **wf_unique**: the precedence-respecting tree with a given token sequence is unique. -/
theorem wf_unique (t₁ t₂ : Expr) (h₁ : WFPrec t₁) (h₂ : WFPrec t₂) (hf : first t₁ = first t₂) (hc : chain t₁ = chain t₂) :
    t₁ = t₂ := by
  rw [← rebuild t₁ h₁, ← rebuild t₂ h₂, hf, hc]

theorem first_build (t : Expr) (ch : List (BinOp × Expr)) : first (build t ch) = first t := by
  induction ch generalizing t with
  | nil => rfl
  | cons x xs ih =>
    rw [build, ih]
    clear ih
    induction t using binInd with
    | binary pl l rr ihl _ => simp only [ins]; split <;> simp [first]
    | operand e he => cases e <;> simp_all [ins, first, IsOperand, rootOp]

theorem chain_ins (t : Expr) (op : BinOp) (r : Expr) (hr : IsOperand r) : chain (ins t op r) = chain t ++ [(op, r)] := by
  have hfr : first r = r := by cases r <;> simp_all [IsOperand, rootOp, first]
  have hcr : chain r = [] := by cases r <;> simp_all [IsOperand, rootOp, chain]
  induction t using binInd with
  | binary pl l rr _ ihr =>
    simp only [ins]; split
    · simp only [chain, ihr, first_build]
      have : first (ins rr op r) = first rr := by
        have := first_build rr [(op, r)]; simpa [build] using this
      simp [this]
    · simp [chain, hfr, hcr]
  | operand e he => cases e <;> simp_all [ins, chain, IsOperand, rootOp]

theorem chain_build (t : Expr) (ch : List (BinOp × Expr)) (hch : ∀ x ∈ ch, IsOperand x.2) :
    chain (build t ch) = chain t ++ ch := by
  induction ch generalizing t with
  | nil => simp [build]
  | cons x xs ih =>
    simp only [build]
    rw [ih _ (fun y hy => hch y (List.mem_cons_of_mem _ hy)), chain_ins _ _ _ (hch x (List.mem_cons_self ..))]
    simp

/-- **chain_is_the_prec_tree**: for every chain `u₀ o₁ u₁ … oₙ uₙ` of operands (n unbounded) the parser's result is
the unique tree that (1) has exactly this token sequence and (2) respects precedence and left associativity. -/
theorem chain_is_the_prec_tree (u0 : Expr) (ch : List (BinOp × Expr)) (h0 : IsOperand u0) (hch : ∀ x ∈ ch, IsOperand x.2)
    (t : Expr) : (WFPrec t ∧ first t = u0 ∧ chain t = ch) ↔ t = parseChain u0 ch := by
  have hfu : first u0 = u0 := by cases u0 <;> simp_all [IsOperand, rootOp, first]
  have hcu : chain u0 = [] := by cases u0 <;> simp_all [IsOperand, rootOp, chain]
  constructor
  · rintro ⟨hw, hf, hc⟩
    rw [← rebuild t hw, hf, hc]
  · rintro rfl
    refine ⟨chain_wf u0 ch h0 hch, ?_, ?_⟩
    · rw [parseChain_eq_build, first_build, hfu]
    · rw [parseChain_eq_build, chain_build _ _ hch, hcu]; rfl

/-- unary applications, groups, calls and literals are operands: a unary operator binds tighter than any binary
operator, and parentheses override precedence, because `insR` never looks inside them. -/
theorem unary_group_are_operands (op : UnOp) (e : Expr) (n : Name) (args : List Expr) :
    IsOperand (.unary op e) ∧ IsOperand (.group e) ∧ IsOperand (.function n args) := by
  simp [IsOperand, rootOp]

/-! ### non-vacuity: all 14 operators in one chain; `a + b * c ** d - e` -/

private def v (s : String) : Expr := .variable (.user s)

example : parseChain (v "a") [(.add, v "b"), (.mul, v "c"), (.pow, v "d"), (.sub, v "e")] =
    .binary .sub (.binary .add (v "a") (.binary .mul (v "b") (.binary .pow (v "c") (v "d")))) (v "e") := by rfl

example : WFPrec (parseChain (v "a") (BinOp.all.map fun o => (o, v "x"))) :=
  chain_wf _ _ rfl (by intro x hx; simp [BinOp.all] at hx; rcases hx with h | h | h | h | h | h | h | h | h | h | h | h | h | h <;> subst h <;> rfl)

end C02
