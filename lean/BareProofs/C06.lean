import BareModel.Parser
namespace C06
end C06
