import BareModel.Parser
import BareProofs.C06Lemmas
import BareProofs.C06Caret

/-!
# C06 — the parser is total and its diagnostics point at the offending source

About the assembled model of `parse_script` (`Parser.parseScript chunks start`, `BareModel/Parser.lean`: physical lines →
logical lines → regex cascade → expression parser → lowering step → end-of-input checks), for **all** inputs (any
number and length of chunks / lines, any nesting depth):

* `parse_total`               the parser is a total function: a statement list or a `ParserError`, nothing else
* `error_position`            every error carries the number (`start` + index of the first physical line) and the text
                              of a logical line of the input — or of the dangling continuation — and a column with
                              `1 ≤ column ≤ len(line) + 1`; all three sources of errors: block structure (current line
                              or the recorded opening line of a block, column 1), expression errors in all eight
                              statement kinds that carry an expression (`shape_offsets` + `C02.reject_is_parser_error`),
                              dangling continuation (column `len + 1`)
* `first_error_wins`          the error of the first failing logical line is what is reported
* `no_open_block_accepted`, `ok_is_stmts`   success ⇒ every logical line was processed, the block stack is empty, no
                              function is open, no continuation is pending; the result is the statement list built
* `accounts_for_every_line`   on success every logical line was classified to exactly one statement kind and had one of
                              the documented effects (`LineEffect`): appended ≥ 1 statement to the current list, opened a
                              function, closed a function (appending the function statement), or was merged into the
                              preceding `include` statement; `block_lines_move_the_stack` adds what the block lines do
                              to the block stack
* `prepend_shifts_line_partial` comment / blank chunks in front: same outcome (model or error) with every reported line
                              number moved by the number of physical lines put in front (`_partial` only because the
                              other half of the design statement is the separate theorem below)
* `prepend_statements_shift`  simple valid statement lines in front (assignment, expression statement, label, jump,
                              return): rejected iff rejected, same error text / line text / column, line number moved
                              by the number of lines; `prepend_statements_acceptance`
* `start_line_offsets`        `start_line_number + d` ⇒ same outcome, line number `+ d`
* `caret_under_same_char`, `caret_in_range`, `caret_row` (in `C06Caret.lean`)   the formatted message
-/

namespace C06
open Text Scan Lower Parser

/-! `errOf r` (in `C06Lemmas`) is the error of a result, if any: examples and `prepend_statements_shift` are stated with
it because the success type `List Stmt` has no `DecidableEq`. -/

/-! ## 1. totality -/

/-- **parse_total**: for every input `parse_script` returns a model or raises a `BareScriptParserError` — in the model
this is the typing of `parseScript` (a total function into `Except ParserError (List Stmt)`; every `raise` of the code
is a `ParserError` value, there is no other failure value). -/
theorem parse_total : ∀ (chunks : List String) (start : Nat),
    (∃ m, parseScript chunks start = .ok m) ∨ (∃ e, parseScript chunks start = .error e) := by
  intro chunks start
  cases parseScript chunks start with
  | ok m => exact .inl ⟨m, rfl⟩
  | error e => exact .inr ⟨e, rfl⟩

example : (∃ m, parseScript ["x = 1", "if x:", "  y = 2", "endif"] 1 = .ok m) := by
  cases h : parseScript ["x = 1", "if x:", "  y = 2", "endif"] 1 with
  | ok m => exact ⟨m, rfl⟩
  | error e =>
    have : errOf (parseScript ["x = 1", "if x:", "  y = 2", "endif"] 1) = none := by decide
    rw [h] at this; cases this

/-! ## 2. error positions -/

/-- what `stepAll` reports is a good position, and the states it passes through keep the invariants -/
theorem stepAll_error (start : Nat) (full : List (Nat × String)) : ∀ (ll : List (Nat × String)) (s : St) (e : ParserError),
    (∀ x ∈ ll, x ∈ full) → Pos start full s → stepAll start s ll = .error e → GoodPos start full e
  | [], _, _, _, _, h => by cases h
  | (ix, line) :: rest, s, e, hsub, hp, h => by
      simp only [stepAll] at h
      have hmem : (ix, line) ∈ full := hsub _ (by simp)
      split at h
      · rename_i s1 h1
        exact stepAll_error start full rest s1 e (fun x hx => hsub x (List.mem_cons_of_mem _ hx))
          (stepLogical_pos hmem hp h1) h
      · rename_i e1 h1
        cases h
        exact stepLogical_error hmem hp h1

theorem stepAll_pos (start : Nat) (full : List (Nat × String)) : ∀ (ll : List (Nat × String)) (s s' : St),
    (∀ x ∈ ll, x ∈ full) → Pos start full s → stepAll start s ll = .ok s' → Pos start full s'
  | [], s, s', _, hp, h => by simp only [stepAll, Except.ok.injEq] at h; subst h; exact hp
  | (ix, line) :: rest, s, s', hsub, hp, h => by
      simp only [stepAll] at h
      have hmem : (ix, line) ∈ full := hsub _ (by simp)
      split at h
      · rename_i s1 h1
        exact stepAll_pos start full rest s1 s' (fun x hx => hsub x (List.mem_cons_of_mem _ hx))
          (stepLogical_pos hmem hp h1) h
      · cases h

/-- **error_position**: every `BareScriptParserError` raised by `parse_script` carries

* the number `start_line_number + ix` and the text of a logical line `(ix, line)` of the input (`ix` = index of its
  first physical line, `line` = the joined text), and a column with `1 ≤ column ≤ len(line) + 1`
  (`len + 1` = "at the end of the line"), **or**
* for an input that ends inside a continued line: number and joined text of that unfinished line, the column
  `len(line) + 1` and the text "Unterminated line continuation".

All eight statement kinds with an expression (assignment, `if`, `elif`, `while`, `for`, `jumpif`, `return`, expression
statement) are covered by the column bound; block-structure errors have column 1 and report either the current line or
the line that opened the unclosed block (`Missing end…`). -/
theorem error_position (chunks : List String) (start : Nat) (e : ParserError)
    (h : parseScript chunks start = .error e) :
    (∃ ix line, (ix, line) ∈ (Text.scriptLines chunks).1 ∧
        e.lineNumber = start + ix ∧ e.line = line ∧ 1 ≤ e.column ∧ e.column ≤ line.length + 1) ∨
    (∃ d, (Text.scriptLines chunks).2 = some d ∧ e.error = Text.unterminated ∧
        e.lineNumber = start + d.ixLine ∧ e.line = d.line ∧ e.column = d.line.length + 1) := by
  unfold parseScript at h
  simp only at h
  split at h
  · rename_i e1 h1
    cases h
    exact .inl (stepAll_error start _ _ _ _ (fun _ hx => hx) (pos_init _ _) h1)
  · rename_i s h1
    have hp := stepAll_pos start _ _ _ _ (fun _ hx => hx) (pos_init _ _) h1
    have hs := stepAll_sync start _ _ _ sync_init h1
    unfold finishAll at h
    split at h
    · -- dangling continuation
      rename_i d hd
      cases h
      refine .inr ⟨d, hd, ?_, rfl, rfl, ?_⟩
      · -- the text and column of a `LineErr` produced by the line loop
        unfold Text.scriptLines Text.logicalLinesCore at hd
        simp only [Option.map_eq_some_iff] at hd
        obtain ⟨x, _, rfl⟩ := hd
        rfl
      · unfold Text.scriptLines Text.logicalLinesCore at hd
        simp only [Option.map_eq_some_iff] at hd
        obtain ⟨x, _, rfl⟩ := hd
        simp [Text.LineErr.ofDangling]
    · split at h
      · -- open block: reported at the recorded opening line
        rename_i d ds dl dn wrest hd hw
        cases h
        obtain ⟨ix, line, hm, he⟩ := hp.defs (dl, dn) (by rw [hw]; simp)
        simp only [Prod.mk.injEq] at he
        obtain ⟨rfl, rfl⟩ := he
        exact .inl ⟨ix, dl, hm, rfl, rfl, Nat.le_refl 1, by simp⟩
      · -- unreachable: the stacks have the same height
        rename_i d ds hd hw
        have := hs.len
        rw [hd, hw] at this
        simp at this
      · split at h
        · rename_i f fl fn hf hw
          cases h
          obtain ⟨ix, line, hm, he⟩ := hp.func (fl, fn) hw
          simp only [Prod.mk.injEq] at he
          obtain ⟨rfl, rfl⟩ := he
          exact .inl ⟨ix, fl, hm, rfl, rfl, Nat.le_refl 1, by simp⟩
        · rename_i f hf hw
          have := hs.fsome
          rw [hf, hw] at this
          simp at this
        · cases h

/-- `if a +:` → Syntax error, line 1, column 7: the expression `a +` starts at offset 3 of the line and the expression
parser stops at its end (column 4 of the expression).  The hypotheses of `error_position` are inhabited by an expression
error inside an `if`, at the right offset inside the *line* (F5). -/
example : errOf (parseScript ["if a +:"] 1) = some ⟨"Syntax error", "if a +:", 7, 1⟩ := by decide

/-- a missing `endif` is reported at the line of the `if` (line 2: a comment line comes first) -/
example : errOf (parseScript ["# c", "if a:", "  x = 1", ""] 1) = some ⟨"Missing endif statement", "if a:", 1, 2⟩ := by
  decide

/-- a dangling continuation: joined text, column `len + 1`, number of the first physical line of the unfinished line -/
example : errOf (parseScript ["y = 0", "x = 1 + \\", "  2 \\"] 1) =
    some ⟨"Unterminated line continuation", "x = 1 + 2", 10, 2⟩ := by decide

/-- one chunk with several physical lines, a continued line with the error in its second part, `start = 10` -/
example : errOf (parseScript ["a = 1\nwhile a < \\\n   3 +:\n  a = 2\nendwhile"] 10) =
    some ⟨"Syntax error", "while a < 3 +:", 14, 11⟩ := by decide

/-- `endfunction` with an open block reports the block's opening line -/
example : errOf (parseScript ["function f():", "for x in y:", "endfunction"] 1) =
    some ⟨"Missing endfor statement", "for x in y:", 1, 2⟩ := by decide

theorem stepAll_error_kind (start : Nat) : ∀ (ll : List (Nat × String)) (s : St) (e : ParserError),
    stepAll start s ll = .error e → ExprMsg e.error ∨ e.column = 1
  | [], _, _, h => by cases h
  | (ix, line) :: rest, s, e, h => by
      simp only [stepAll] at h
      split at h
      · exact stepAll_error_kind start rest _ e h
      · rename_i e1 h1; cases h; exact stepLogical_error_kind h1

/-- **error_kinds**: every error is an expression error (`Syntax error` / `Unmatched parenthesis`, column as in
`error_position`), a dangling continuation, or a block-structure error — and those always have column 1. -/
theorem error_kinds (chunks : List String) (start : Nat) (e : ParserError) (h : parseScript chunks start = .error e) :
    e.error = "Syntax error" ∨ e.error = "Unmatched parenthesis" ∨ e.error = Text.unterminated ∨ e.column = 1 := by
  unfold parseScript at h
  simp only at h
  split at h
  · rename_i e1 h1
    cases h
    rcases stepAll_error_kind start _ _ _ h1 with (h2 | h2) | h2
    · exact .inl h2
    · exact .inr (.inl h2)
    · exact .inr (.inr (.inr h2))
  · rename_i s h1
    unfold finishAll at h
    split at h
    · rename_i d hd
      cases h
      unfold Text.scriptLines Text.logicalLinesCore at hd
      simp only [Option.map_eq_some_iff] at hd
      obtain ⟨x, _, rfl⟩ := hd
      exact .inr (.inr (.inl rfl))
    · repeat' split at h
      all_goals first | (cases h; exact .inr (.inr (.inr rfl))) | cases h

example : errOf (parseScript ["x = 1", "  else:"] 1) = some ⟨"No matching if statement", "  else:", 1, 2⟩ := by decide

/-- **first_error_wins**: if the logical lines before `(ix, line)` are processed without error and `(ix, line)` fails,
that failure is the result — whatever follows. -/
theorem first_error_wins (start : Nat) : ∀ (before after : List (Nat × String)) (s s' : St) (ix : Nat) (line : String)
    (e : ParserError), stepAll start s before = .ok s' → stepLogical start s' ix line = .error e →
    stepAll start s (before ++ (ix, line) :: after) = .error e
  | [], _, s, s', ix, line, e, h1, h2 => by
      simp only [stepAll, Except.ok.injEq] at h1; subst h1
      simp only [List.nil_append, stepAll, h2]
  | (ix0, l0) :: rest, after, s, s', ix, line, e, h1, h2 => by
      simp only [stepAll] at h1
      split at h1
      · rename_i s1 hs1
        simp only [List.cons_append, stepAll, hs1]
        exact first_error_wins start rest after s1 s' ix line e h1 h2
      · cases h1

/-! ## 3. nothing left open -/

/-- **no_open_block_accepted** (+ `ok_is_stmts`): if `parse_script` returns a model then all logical lines were
processed without error up to a final state in which the block stack is empty and no function is open, no continuation
was pending at the end of the input, and the model is the statement list of that state. -/
theorem no_open_block_accepted (chunks : List String) (start : Nat) (m : List Stmt)
    (h : parseScript chunks start = .ok m) :
    ∃ s : St, stepAll start (PState.init, {}) (Text.scriptLines chunks).1 = .ok s ∧
      s.1.defs = [] ∧ s.1.func = none ∧ (Text.scriptLines chunks).2 = none ∧ m = s.1.stmts := by
  unfold parseScript at h
  simp only at h
  split at h
  · cases h
  · rename_i s h1
    refine ⟨s, h1, ?_⟩
    unfold finishAll at h
    split at h
    · cases h
    · rename_i hd
      split at h
      · cases h
      · cases h
      · rename_i hdefs
        split at h
        · cases h
        · cases h
        · rename_i hfunc
          simp only [Except.ok.injEq] at h
          exact ⟨hdefs, hfunc, hd, h.symm⟩

/-- **ok_is_stmts** -/
theorem ok_is_stmts (chunks : List String) (start : Nat) (m : List Stmt) (h : parseScript chunks start = .ok m) :
    ∃ s : St, stepAll start (PState.init, {}) (Text.scriptLines chunks).1 = .ok s ∧ m = s.1.stmts := by
  obtain ⟨s, h1, _, _, _, h5⟩ := no_open_block_accepted chunks start m h
  exact ⟨s, h1, h5⟩

/-- conversely (the three end-of-input tests are the only ones): open block, open function and a pending continuation
are each rejected -/
theorem open_block_rejected (chunks : List String) (start : Nat) (s : St)
    (h : stepAll start (PState.init, {}) (Text.scriptLines chunks).1 = .ok s)
    (hopen : s.1.defs ≠ [] ∨ s.1.func ≠ none ∨ (Text.scriptLines chunks).2 ≠ none) :
    ∃ e, parseScript chunks start = .error e := by
  cases hr : parseScript chunks start with
  | error e => exact ⟨e, rfl⟩
  | ok m =>
    obtain ⟨s', h1, h2, h3, h4, _⟩ := no_open_block_accepted chunks start m hr
    rw [h] at h1
    cases h1
    rcases hopen with ho | ho | ho
    · exact absurd h2 ho
    · exact absurd h3 ho
    · exact absurd h4 ho

example : errOf (parseScript ["function f():", "  return 1"] 1) =
    some ⟨"Missing endfunction statement", "function f():", 1, 1⟩ := by decide
example : errOf (parseScript ["while a:", "if b:", "endif"] 5) = some ⟨"Missing endwhile statement", "while a:", 1, 5⟩ := by
  decide
example : errOf (parseScript ["function f():", "  if a:", "    return 1", "  endif", "endfunction", "fn()"] 1) = none := by
  decide

/-! ## 4. every logical line is accounted for -/

/-- a run of the line loop in which every logical line is consumed by exactly one classified statement kind `cl` whose
lowering step succeeded with one of the documented effects -/
inductive Run (start : Nat) : St → List (Nat × String) → St → Prop
  | nil (s : St) : Run start s [] s
  | cons {s s' s'' : St} {ix : Nat} {line : String} {rest : List (Nat × String)} (cl : Line)
      (hstep : stepLogical start s ix line = .ok s')
      (hclass : Scan.classify ExprParse.parseExpr line = .ok cl)
      (hlower : stepLine s.1 cl = .ok s'.1)
      (heffect : LineEffect s.1 s'.1)
      (hblock : BlockChange s.1 s'.1 cl)
      (hrest : Run start s' rest s'') : Run start s ((ix, line) :: rest) s''

theorem stepAll_run (start : Nat) : ∀ (ll : List (Nat × String)) (s s' : St), stepAll start s ll = .ok s' →
    Run start s ll s'
  | [], s, s', h => by simp only [stepAll, Except.ok.injEq] at h; subst h; exact .nil s
  | (ix, line) :: rest, s, s', h => by
      simp only [stepAll] at h
      split at h
      · rename_i s1 h1
        obtain ⟨cl, hc, hl, _⟩ := stepLogical_ok h1
        exact .cons cl h1 hc hl (stepLine_effect hl) (stepLine_block hl) (stepAll_run start rest s1 s' h)
      · cases h

/-- **accounts_for_every_line**: when `parse_script` returns a model, *every* logical line of the input (every
non-blank, non-comment physical line, continued lines joined) was consumed, in order, by exactly one branch of the
statement cascade (`classify … = ok cl`), its lowering step succeeded, and it had one of the documented effects
(`LineEffect`: appended at least one statement to the current statement list / opened a function / closed a function,
appending its `function` statement to the script / was merged into the preceding `include` statement).  No line is
skipped: `Run` has exactly one step per element of `(scriptLines chunks).1`. -/
theorem accounts_for_every_line (chunks : List String) (start : Nat) (m : List Stmt)
    (h : parseScript chunks start = .ok m) :
    ∃ s : St, Run start (PState.init, {}) (Text.scriptLines chunks).1 s ∧ m = s.1.stmts := by
  obtain ⟨s, h1, h2⟩ := ok_is_stmts chunks start m h
  exact ⟨s, stepAll_run start _ _ _ h1, h2⟩

/-- the per-line fact behind it: a successful lowering step has a documented effect … -/
theorem line_has_effect (ps ps' : PState) (l : Line) (h : stepLine ps l = .ok ps') : LineEffect ps ps' :=
  stepLine_effect h

/-- … and block lines move the block stack as documented: `if`/`while`/`for` push one entry, `endif`/`endwhile`/`endfor`
pop one, `elif`/`else` replace the top entry, `continue` changes one entry in place (its `hasContinue` flag), every other
line leaves the stack unchanged. -/
theorem block_lines_move_the_stack (ps ps' : PState) (l : Line) (h : stepLine ps l = .ok ps') : BlockChange ps ps' l :=
  stepLine_block h

/-- the statement count never decreases along a run: nothing that was emitted is dropped later -/
theorem LineEffect.stmts_monotone {ps ps' : PState} (h : LineEffect ps ps') :
    ps.stmts.length ≤ ps'.stmts.length ∨ (ps.func = none ∧ ps'.func.isSome = true ∧ ps'.stmts = ps.stmts) := by
  cases h with
  | funcOpened h h' hs => exact .inr ⟨h, h', hs⟩
  | funcClosed f h h' hs => left; rw [hs]; simp
  | grew hf hs h =>
    left
    obtain ⟨st, f, d, i, n⟩ := ps
    obtain ⟨st', f', d', i', n'⟩ := ps'
    cases f <;> cases f' <;> simp_all [PState.cur] <;> omega
  | includeMerged pre incs inc hf hs h h' =>
    left
    obtain ⟨st, f, d, i, n⟩ := ps
    obtain ⟨st', f', d', i', n'⟩ := ps'
    cases f <;> cases f' <;> simp_all [PState.cur]

/-- non-vacuity: the four effects on concrete lines -/
example : ∃ s, stepAll 1 (PState.init, {}) (Text.scriptLines ["include 'a.bare'", "include <b.bare>", "function f():",
      "  x = 1", "endfunction"]).1 = .ok s ∧ s.1.stmts.length = 2 := by
  cases h : stepAll 1 (PState.init, {}) (Text.scriptLines ["include 'a.bare'", "include <b.bare>", "function f():",
      "  x = 1", "endfunction"]).1 with
  | ok s =>
    refine ⟨s, rfl, ?_⟩
    have : (match stepAll 1 (PState.init, {}) (Text.scriptLines ["include 'a.bare'", "include <b.bare>", "function f():",
      "  x = 1", "endfunction"]).1 with | .ok s => s.1.stmts.length | .error _ => 0) = 2 := by decide
    rw [h] at this; exact this
  | error e =>
    have : (match stepAll 1 (PState.init, {}) (Text.scriptLines ["include 'a.bare'", "include <b.bare>", "function f():",
      "  x = 1", "endfunction"]).1 with | .ok s => s.1.stmts.length | .error _ => 0) = 2 := by decide
    rw [h] at this; cases this

/-! ## 5./6. line numbers move with the text -/

/-- **start_line_offsets**: `parse_script(text, start + d)` has the outcome of `parse_script(text, start)` with every
reported line number increased by `d` — same model on success, same error text, line text and column on failure. -/
theorem start_line_offsets (chunks : List String) (start d : Nat) :
    parseScript chunks (start + d) = shiftR d (parseScript chunks start) := by
  unfold parseScript
  simp only
  have h := stepAll_shift start d (Text.scriptLines chunks).1 PState.init {}
  have e : shiftW d ({} : Where) = {} := rfl
  rw [e] at h
  rw [h]
  cases stepAll start (PState.init, {}) (Text.scriptLines chunks).1 with
  | error e => rfl
  | ok s =>
    obtain ⟨ps, wh⟩ := s
    simp only [shiftS]
    exact finishAll_shift start d ps wh _

example : errOf (parseScript ["x = (1"] 1) = some ⟨"Unmatched parenthesis", "x = (1", 5, 1⟩ ∧
    errOf (parseScript ["x = (1"] (1 + 41)) = some ⟨"Unmatched parenthesis", "x = (1", 5, 42⟩ := by decide

/-- putting comment / blank physical lines in front is the same as starting the line count later -/
theorem prepend_is_start_offset (pre lines : List String) (start : Nat)
    (hpre : ∀ l ∈ pre.flatMap Text.splitLines, Text.isComment l = true) :
    parseScript (pre ++ lines) start = parseScript lines (start + (pre.flatMap Text.splitLines).length) := by
  unfold parseScript
  simp only [scriptLines_prepend pre lines hpre, stepAll_reindex]
  cases h : stepAll (start + (pre.flatMap Text.splitLines).length) (PState.init, {}) (Text.scriptLines lines).1 with
  | error e => rfl
  | ok s => exact finishAll_reindex start _ s (stepAll_sync _ _ _ _ sync_init h) _

/-- **prepend_shifts_line_partial**: chunks put in front of a script, all of whose physical lines are comments or blank
(`Text.isComment`, the pattern `^\s*(?:#.*)?$`), leave the outcome unchanged except that every reported line number is
increased by the number of physical lines put in front: same model on success; on failure the same error text, line
text and column.

`_partial`: DESIGN §9 also lists "simple valid statement" lines as prefix.  Such a prefix changes the emitted statements
(and the recorded jump positions of `if` entries), so that half is not an equation of outcomes; it is the separate
theorem `prepend_statements_shift` below (equation of the *errors*). -/
theorem prepend_shifts_line_partial (pre lines : List String) (start : Nat)
    (hpre : ∀ l ∈ pre.flatMap Text.splitLines, Text.isComment l = true) :
    parseScript (pre ++ lines) start = shiftR (pre.flatMap Text.splitLines).length (parseScript lines start) := by
  rw [prepend_is_start_offset pre lines start hpre, start_line_offsets]

/-- the same for chunks that are single physical lines (no line feed inside): the shift is the number of chunks -/
theorem prepend_shifts_line_single (pre lines : List String) (start : Nat)
    (hnl : ∀ l ∈ pre, '\n' ∉ l.toList) (hpre : ∀ l ∈ pre, Text.isComment l = true) :
    parseScript (pre ++ lines) start = shiftR pre.length (parseScript lines start) := by
  have hsplit : pre.flatMap Text.splitLines = pre := by
    clear hpre
    induction pre with
    | nil => rfl
    | cons p rest ih =>
      have h1 : Text.splitLines p = [p] := by
        unfold Text.splitLines
        rw [C10.split_no_nl (hnl p (by simp))]
        simp
      rw [List.flatMap_cons, h1, ih (fun l hl => hnl l (List.mem_cons_of_mem _ hl))]
      rfl
  have := prepend_shifts_line_partial pre lines start (by rw [hsplit]; exact hpre)
  rwa [hsplit] at this

theorem errOf_shiftR {α : Type} (d : Nat) (r : Except ParserError α) : errOf (shiftR d r) = (errOf r).map (shiftE d) := by
  cases r <;> rfl

/-- **prepend_statements_shift** (the "simple valid statement" half of DESIGN's `prepend_shifts_line`): chunks put in
front that are *simple valid statements* (`SimpleLine`: one physical line, not a comment, no continuation backslash,
classified without error as assignment / expression statement / label / jump / return) do not change whether the
script is rejected, and if it is, the error has the same text, line text and column, and its line number is increased by
the number of lines put in front.  (The accepted model differs, of course: it starts with the new statements.) -/
theorem prepend_statements_shift (pre lines : List String) (start : Nat) (hpre : ∀ p ∈ pre, SimpleLine p) :
    errOf (parseScript (pre ++ lines) start) = (errOf (parseScript lines start)).map (shiftE pre.length) := by
  obtain ⟨psP, h1, h2⟩ := stepAll_simple start (numbered 0 pre) PState.init {}
    (fun x hx => hpre _ (numbered_mem _ _ _ hx)) sync_init
  have hsync : Sync (psP, {}) := by
    have ht := abs_defs_length h2
    have hf := abs_func_isSome h2
    constructor
    · simpa [PState.init] using ht.symm
    · simpa [PState.init] using hf.symm
  have key : errOf (parseScript (pre ++ lines) start) =
      errOf (parseFrom (start + pre.length) (psP, {}) (Text.scriptLines lines).1 (Text.scriptLines lines).2) := by
    rw [parseScript_eq_parseFrom, scriptLines_prepend_simple pre lines hpre]
    unfold parseFrom
    simp only [stepAll_append, h1, stepAll_reindex]
    cases h : stepAll (start + pre.length) (psP, {}) (Text.scriptLines lines).1 with
    | error e => rfl
    | ok s' => simp only [finishAll_reindex start _ s' (stepAll_sync _ _ _ _ hsync h)]
  rw [key, parseFrom_sim0 (start + pre.length) (psP, {}) (PState.init, {}) h2 rfl, ← parseScript_eq_parseFrom,
    start_line_offsets, errOf_shiftR]

/-- acceptance is unchanged by such a prefix -/
theorem prepend_statements_acceptance (pre lines : List String) (start : Nat) (hpre : ∀ p ∈ pre, SimpleLine p) :
    (∃ m, parseScript (pre ++ lines) start = .ok m) ↔ (∃ m, parseScript lines start = .ok m) := by
  have h := prepend_statements_shift pre lines start hpre
  cases h1 : parseScript (pre ++ lines) start <;> cases h2 : parseScript lines start <;>
    simp [h1, h2, errOf] at h ⊢

/-- non-vacuity: three comment/blank lines in front of a script with an error in its second line -/
example :
    (∀ l ∈ ["# header", "", "   \t"], '\n' ∉ l.toList) ∧ (∀ l ∈ ["# header", "", "   \t"], Text.isComment l = true) ∧
    errOf (parseScript ["a = 1", "b = a +"] 1) = some ⟨"Syntax error", "b = a +", 8, 2⟩ ∧
    errOf (parseScript (["# header", "", "   \t"] ++ ["a = 1", "b = a +"]) 1) = some ⟨"Syntax error", "b = a +", 8, 5⟩ := by
  decide

/-- the line `zz = 1` and the line `fn(zz, 2)` are simple valid statements -/
theorem simple_examples : SimpleLine "zz = 1" ∧ SimpleLine "fn(zz, 2)" := by
  refine ⟨⟨by decide, by decide, by decide, ?_⟩, ⟨by decide, by decide, by decide, ?_⟩⟩
  · cases h : Scan.classify ExprParse.parseExpr "zz = 1" with
    | ok cl =>
      refine ⟨cl, rfl, ?_⟩
      have : (match Scan.classify ExprParse.parseExpr "zz = 1" with | .ok cl => IsEmit cl | .error _ => false) = true := by
        decide
      rw [h] at this; exact this
    | error e =>
      have : (match Scan.classify ExprParse.parseExpr "zz = 1" with | .ok cl => IsEmit cl | .error _ => false) = true := by
        decide
      rw [h] at this; cases this
  · cases h : Scan.classify ExprParse.parseExpr "fn(zz, 2)" with
    | ok cl =>
      refine ⟨cl, rfl, ?_⟩
      have : (match Scan.classify ExprParse.parseExpr "fn(zz, 2)" with
          | .ok cl => IsEmit cl | .error _ => false) = true := by decide
      rw [h] at this; exact this
    | error e =>
      have : (match Scan.classify ExprParse.parseExpr "fn(zz, 2)" with
          | .ok cl => IsEmit cl | .error _ => false) = true := by decide
      rw [h] at this; cases this

/-- non-vacuity of `prepend_statements_shift`: two statements in front of a script with an unclosed `while` -/
example : errOf (parseScript ["while a:", "b = 1"] 1) = some ⟨"Missing endwhile statement", "while a:", 1, 1⟩ ∧
    errOf (parseScript (["zz = 1", "fn(zz, 2)"] ++ ["while a:", "b = 1"]) 1) =
      some ⟨"Missing endwhile statement", "while a:", 1, 3⟩ := by decide

end C06
