import BareProofs.C12More
import BareModel.LibH3

/-!
# C12HistLemmas — refinement lemmas for `LibH3` (bodies generic in the number primitives), the operators on values and the pool
operations, used by `C12Hist`.
-/

namespace C12Hist
open LibH LibH2 LibH3 C12 C12More

set_option linter.unusedSimpArgs false
set_option linter.unusedVariables false
set_option linter.unnecessarySeqFocus false

def absBodyR3 (p : BodyR3 PyNum) : BodyR3 Rat := (absV p.1, p.2.map absV)

abbrev absB3 : Except (Fail PyNum) (BodyR3 PyNum) → Except (Fail Rat) (BodyR3 Rat) := absE absBodyR3

set_option quotPrecheck false in
local notation "absKV" => (fun (p : String × HVal) => ((p.1, absV p.2) : String × AVal))

macro "leaf3" : tactic =>
  `(tactic| simp [absE, absFail, absBodyR3, pure, Except.pure, throw, throwThe, MonadExceptOf.throw, ofI])

theorem absV_obj' (kvs : List (String × HVal)) : absV (.obj kvs) = .obj (kvs.map absKV) := by
  simp

theorem asObj_abs (a : HVal) : (absV a).asObj? = a.asObj?.map (List.map absKV) := by
  cases a <;> simp [Val.asObj?]

/-! ### dict primitives commute with a map on the values -/

theorem objSet_map {V W : Type} (g : V → W) (k : String) (v : V) (l : List (String × V)) :
    (objSet k v l).map (fun p => (p.1, g p.2)) = objSet k (g v) (l.map (fun p => (p.1, g p.2))) := by
  induction l with
  | nil => rfl
  | cons p r ih =>
    simp only [objSet, List.map_cons]
    split <;> simp [ih]

theorem objSet_abs (k : String) (v : HVal) (l : List (String × HVal)) :
    (objSet k v l).map absKV = objSet k (absV v) (l.map absKV) := objSet_map absV k v l

theorem objUpdate_abs (d2 d : List (String × HVal)) : (objUpdate d d2).map absKV = objUpdate (d.map absKV) (d2.map absKV) := by
  unfold objUpdate
  induction d2 generalizing d with
  | nil => rfl
  | cons p r ih => simp only [List.foldl_cons, List.map_cons, ih, objSet_abs]

theorem objGet_abs (k : String) (l : List (String × HVal)) : objGet? k (l.map absKV) = (objGet? k l).map absV := by
  unfold objGet?
  induction l with
  | nil => rfl
  | cons p r ih =>
    simp only [List.map_cons, List.find?_cons]
    by_cases h : (p.1 == k) = true
    · simp [h]
    · simp only [List.find?_cons, h] at ih ⊢
      simpa using ih

theorem filter_abs (key : String) (d : List (String × HVal)) :
    (d.filter (fun p => !(p.1 == key))).map absKV = (d.map absKV).filter (fun p => !(p.1 == key)) := by
  induction d with
  | nil => rfl
  | cons p r ih =>
    simp only [List.filter_cons, List.map_cons]
    by_cases h : (p.1 == key) = true <;> simp [h] <;> simpa using ih

theorem any_abs (key : String) (d : List (String × HVal)) :
    (d.map absKV).any (fun p => p.1 == key) = d.any (fun p => p.1 == key) := by
  induction d with
  | nil => rfl
  | cons p r ih => simp [List.any_cons] at ih ⊢; simp [ih]

theorem keys_abs (d : List (String × HVal)) :
    (d.map (fun p => (Val.str p.1 : HVal))).map absV = (d.map absKV).map (fun p => (Val.str p.1 : AVal)) := by
  simp [List.map_map, Function.comp_def]

/-! ### object functions -/

theorem objectAssign_ref (v : List HVal) : absB3 (objectAssignG v) = objectAssignG (v.map absV) := by
  unfold objectAssignG
  rw [list2_map]
  cases list2 v with
  | none => rfl
  | some p =>
    obtain ⟨a, b⟩ := p
    simp only [Option.map_some, req, bind, Except.bind, asObj_abs]
    cases a.asObj? with
    | none => rfl
    | some d =>
      cases b.asObj? with
      | none => rfl
      | some d2 => simp [absE, absBodyR3, pure, Except.pure, objUpdate_abs, absV_obj']

theorem objectCopy_ref (v : List HVal) : absB3 (objectCopyG v) = objectCopyG (v.map absV) := by
  unfold objectCopyG
  rw [list1_map]
  cases list1 v with
  | none => rfl
  | some a =>
    simp only [Option.map_some, req, bind, Except.bind, asObj_abs]
    cases a.asObj? with
    | none => rfl
    | some d => simp [absE, absBodyR3, pure, Except.pure, absV_obj']

theorem objectDelete_ref (v : List HVal) : absB3 (objectDeleteG v) = objectDeleteG (v.map absV) := by
  unfold objectDeleteG
  rw [list2_map]
  cases list2 v with
  | none => rfl
  | some p =>
    obtain ⟨a, k⟩ := p
    simp only [Option.map_some, req, bind, Except.bind, asObj_abs, asStr_abs]
    cases a.asObj? with
    | none => rfl
    | some d =>
      cases k.asStr? with
      | none => rfl
      | some key => simp [absE, absBodyR3, pure, Except.pure, filter_abs, absV_obj']

theorem objectGet_ref (v : List HVal) : absB3 (objectGetG v) = objectGetG (v.map absV) := by
  unfold objectGetG
  rw [list3_map]
  cases list3 v with
  | none => rfl
  | some p =>
    obtain ⟨a, k, dflt⟩ := p
    simp only [Option.map_some, req, bind, Except.bind, asObj_abs, asStr_abs]
    cases a.asObj? with
    | none => rfl
    | some d =>
      cases k.asStr? with
      | none => rfl
      | some key =>
        simp only [Option.map_some, objGet_abs]
        cases objGet? key d <;> simp [absE, absBodyR3, pure, Except.pure]

theorem objectHas_ref (v : List HVal) : absB3 (objectHasG v) = objectHasG (v.map absV) := by
  unfold objectHasG
  rw [list2_map]
  cases list2 v with
  | none => rfl
  | some p =>
    obtain ⟨a, k⟩ := p
    simp only [Option.map_some, req, bind, Except.bind, asObj_abs, asStr_abs]
    cases a.asObj? with
    | none => rfl
    | some d =>
      cases k.asStr? with
      | none => rfl
      | some key => simp [absE, absBodyR3, pure, Except.pure, any_abs, List.any_map, Function.comp_def]

theorem objectKeys_ref (v : List HVal) : absB3 (objectKeysG v) = objectKeysG (v.map absV) := by
  unfold objectKeysG
  rw [list1_map]
  cases list1 v with
  | none => rfl
  | some a =>
    simp only [Option.map_some, req, bind, Except.bind, asObj_abs]
    cases a.asObj? with
    | none => rfl
    | some d => simp [absE, absBodyR3, pure, Except.pure, List.map_map, Function.comp_def]

theorem objectSet_ref (v : List HVal) : absB3 (objectSetG v) = objectSetG (v.map absV) := by
  unfold objectSetG
  rw [list3_map]
  cases list3 v with
  | none => rfl
  | some p =>
    obtain ⟨a, k, value⟩ := p
    simp only [Option.map_some, req, bind, Except.bind, asObj_abs, asStr_abs]
    cases a.asObj? with
    | none => rfl
    | some d =>
      cases k.asStr? with
      | none => rfl
      | some key => simp [absE, absBodyR3, pure, Except.pure, objSet_abs, absV_obj']

theorem objectNewLoop_ref : ∀ (n : Nat) (v : List HVal) (acc : List (String × HVal)), v.length ≤ n →
    absE (List.map absKV) (objectNewLoop v acc) = objectNewLoop (v.map absV) (acc.map absKV)
  | _, [], acc, _ => by simp [objectNewLoop, absE, pure, Except.pure]
  | _, [k], acc, _ => by
    simp only [objectNewLoop, List.map_cons, List.map_nil, asStr_abs]
    cases k.asStr? <;> simp [absE, absFail, pure, Except.pure, throw, throwThe, MonadExceptOf.throw, objSet_abs]
  | n + 1, k :: value :: r, acc, h => by
    simp only [objectNewLoop, List.map_cons, asStr_abs]
    cases hk : k.asStr? with
    | none => simp [absE, absFail, throw, throwThe, MonadExceptOf.throw]
    | some s =>
      simp only []
      rw [objectNewLoop_ref n r (objSet s value acc) (by simp at h; omega), objSet_abs]

theorem objectNew_ref (v : List HVal) : absB3 (objectNewG v) = objectNewG (v.map absV) := by
  unfold objectNewG
  have h := objectNewLoop_ref v.length v [] (Nat.le_refl _)
  simp only [List.map_nil] at h
  rw [← h]
  cases objectNewLoop v [] with
  | error e => simp [absE, bind, Except.bind]
  | ok d => simp [absE, absBodyR3, bind, Except.bind, pure, Except.pure, absV_obj']

/-! ### system functions -/

theorem systemType_ref (v : List HVal) : absB3 (systemTypeG v) = systemTypeG (v.map absV) := by
  unfold systemTypeG
  rw [list1_map]
  cases list1 v with
  | none => rfl
  | some a => simp [req, bind, Except.bind, absE, absBodyR3, pure, Except.pure]

theorem systemBoolean_ref (v : List HVal) : absB3 (systemBooleanG hOps v) = systemBooleanG aOps (v.map absV) := by
  unfold systemBooleanG
  rw [list1_map]
  cases list1 v with
  | none => rfl
  | some a => simp [req, bind, Except.bind, absE, absBodyR3, pure, Except.pure, hOps, aOps, truthy_abs]

theorem isSame_abs (a b : HVal) : isSame hOps a b = isSame aOps (absV a) (absV b) := by
  cases a <;> cases b <;> simp [isSame, hOps, aOps, pyEq_abs, ratEq]

theorem identityFree_abs (a b : HVal) : identityFree (absV a) (absV b) = identityFree a b := by
  cases a <;> cases b <;> simp [identityFree]

theorem systemIs_ref (v : List HVal) : absB3 (systemIsG hOps v) = systemIsG aOps (v.map absV) := by
  unfold systemIsG
  rw [list2_map]
  cases list2 v with
  | none => rfl
  | some p =>
    obtain ⟨a, b⟩ := p
    simp [req, bind, Except.bind, absE, absBodyR3, pure, Except.pure, isSame_abs]

/-! ### arraySort -/

theorem insSorted_abs (x : HVal) (l : List HVal) :
    (insSorted (valCmp pyCmp) x l).map absV = insSorted (valCmp ratCmp) (absV x) (l.map absV) := by
  induction l with
  | nil => rfl
  | cons y r ih =>
    simp only [insSorted, List.map_cons, ← cmp_abs]
    split <;> simp [ih]

/-- sorting by `value_compare` commutes with forgetting the spelling: the order of a mixed int / float array does not depend on the
    spelling, and every element keeps its own spelling -/
theorem sortVals_abs (l : List HVal) : (sortVals (valCmp pyCmp) l).map absV = sortVals (valCmp ratCmp) (l.map absV) := by
  induction l with
  | nil => rfl
  | cons x r ih => simp only [sortVals, List.map_cons, insSorted_abs, ih]

theorem arraySort_ref (v : List HVal) : absB3 (arraySortG hOps v) = arraySortG aOps (v.map absV) := by
  unfold arraySortG
  rw [list2_map]
  cases list2 v with
  | none => rfl
  | some p =>
    obtain ⟨a, cf⟩ := p
    simp only [Option.map_some, req, bind, Except.bind, asArr_abs]
    cases a.asArr? with
    | none => rfl
    | some xs =>
      cases cf <;> simp [absE, absFail, absBodyR3, pure, Except.pure, throw, throwThe, MonadExceptOf.throw, hOps, aOps, sortVals_abs]

/-! ### datetime getters, numberParseFloat, jsonParse -/

theorem datetimeField_ref (f : Datetime.DT → Int) (v : List HVal) :
    absB3 (datetimeFieldG hOps f v) = datetimeFieldG aOps f (v.map absV) := by
  unfold datetimeFieldG
  rw [list1_map]
  cases list1 v with
  | none => rfl
  | some a =>
    cases a <;> simp [req, bind, Except.bind, absE, absFail, absBodyR3, pure, Except.pure, badShape3, hOps, aOps]
    rename_i k i
    cases Datetime.ofLocalMs i <;> simp [absE, absFail, absBodyR3, pure, Except.pure, throw, throwThe, MonadExceptOf.throw]

theorem numberParseFloat_ref (rnd : Rat → Rat) (v : List HVal) :
    absB3 (numberParseFloatG hOps rnd v) = numberParseFloatG aOps rnd (v.map absV) := by
  unfold numberParseFloatG
  rw [list1_map]
  cases list1 v with
  | none => rfl
  | some a =>
    simp only [Option.map_some, req, bind, Except.bind, asStr_abs]
    cases a.asStr? with
    | none => rfl
    | some s =>
      simp only [pure, Except.pure]
      split <;> rename_i h <;> simp [h, absE, absBodyR3, hOps, aOps]

mutual
/-- the value `json.loads` builds, with spellings forgotten, is the one-number-type value: the int / float typing of the number tokens
    is invisible after abstraction -/
theorem ofJ_abs (rnd : Rat → Rat) : ∀ j : Json.JValue, absV (ofJ hOps rnd j) = ofJ aOps rnd j
  | .null => by simp [ofJ]
  | .bool b => by simp [ofJ]
  | .num n => by cases n <;> simp [ofJ, hOps, aOps]
  | .str s => by simp [ofJ]
  | .arr xs => by simp [ofJ, ofJL_abs rnd xs]
  | .obj kvs => by
    have h := ofJM_abs rnd kvs []
    simp only [List.map_nil] at h
    simp [ofJ, h]
theorem ofJL_abs (rnd : Rat → Rat) : ∀ xs : List Json.JValue, (ofJL hOps rnd xs).map absV = ofJL aOps rnd xs
  | [] => by simp [ofJL]
  | x :: r => by simp [ofJL, ofJ_abs rnd x, ofJL_abs rnd r]
theorem ofJM_abs (rnd : Rat → Rat) : ∀ (kvs : List (Json.Str × Json.JValue)) (acc : List (String × HVal)),
    (ofJM hOps rnd kvs acc).map absKV = ofJM aOps rnd kvs (acc.map absKV)
  | [], acc => by simp [ofJM]
  | (k, x) :: r, acc => by
    simp only [ofJM]
    rw [ofJM_abs rnd r, objSet_abs, ofJ_abs rnd x]
end

theorem jsonParse_ref (rnd : Rat → Rat) (v : List HVal) : absB3 (jsonParseG hOps rnd v) = jsonParseG aOps rnd (v.map absV) := by
  unfold jsonParseG
  rw [list1_map]
  cases list1 v with
  | none => rfl
  | some a =>
    simp only [Option.map_some, req, bind, Except.bind, asStr_abs]
    cases a.asStr? with
    | none => rfl
    | some s =>
      simp only [pure, Except.pure, throw, throwThe, MonadExceptOf.throw]
      split <;> rename_i h <;> simp [h, absE, absFail, absBodyR3, ofJ_abs]

/-! ### the wrapped calls -/

/-- every body of `LibH3` refines its one-number-type instance: same value, same failure (class and failure value), same new contents
    of a mutated argument - for ALL argument lists, without any hypothesis. -/
theorem body3_refines (rnd : Rat → Rat) (name : String) (v : List HVal) :
    absB3 (bodyG3 hOps rnd name v) = bodyG3 aOps rnd name (v.map absV) := by
  unfold bodyG3
  split <;> first
    | exact objectAssign_ref v | exact objectCopy_ref v | exact objectDelete_ref v | exact objectGet_ref v | exact objectHas_ref v
    | exact objectKeys_ref v | exact objectNew_ref v | exact objectSet_ref v | exact systemType_ref v | exact systemBoolean_ref v
    | exact systemIs_ref v | exact arraySort_ref v | exact datetimeField_ref _ v | exact numberParseFloat_ref rnd v
    | exact jsonParse_ref rnd v | rfl

theorem wrap3_abs (args : List HVal) (b : Except (Fail PyNum) (BodyR3 PyNum)) :
    absOut (wrap3 args b) = wrap3 (args.map absV) (absB3 b) := by
  cases b with
  | error e => cases e <;> simp [wrap3, absOut, absE, absFail]
  | ok p =>
    obtain ⟨r, o⟩ := p
    cases o <;> simp [wrap3, absOut, absE, absBodyR3, List.map_set]

theorem failRet3_abs (name : String) (args : List HVal) : absV (failRet3 name args) = failRet3 name (args.map absV) := by
  unfold failRet3
  split
  · simp only [List.getD_eq_getElem?_getD, List.getElem?_map]
    cases args[2]? <;> simp
  · split <;> simp

/-- **T `libH3_refines_lib`**: for every function of the `LibH3` table (any name: unmodelled names are the trivially failing body on both
    sides), ALL argument lists and ANY rounding function, the wrapped host-level call with spellings forgotten afterwards equals the
    one-number-type call on the abstracted arguments - the value of the call expression (including the failure values: null,
    `false` for objectHas, the caller's own third argument for objectGet; a number KEY is such a failure in either spelling) and the
    post-call contents of the argument objects.  No hypothesis: these functions move, compare, test and produce numbers but never print
    or round one. -/
theorem libH3_refines_lib (rnd : Rat → Rat) (name : String) (args : List HVal) :
    absOut (callH3 rnd name args) = callA3 rnd name (args.map absV) := by
  unfold callH3 callA3 callWith3
  cases (modelName3 name).map argModel with
  | none => simp only [wrap3_abs, body3_refines]
  | some ms =>
    simp only [← validate_refines]
    cases validateH ms args with
    | none => simp [absOut, failRet3_abs]
    | some vargs => simp only [Option.map_some, wrap3_abs, body3_refines]

/-! ### the Boolean hypotheses imply the hypotheses of the `LibH2` theorems -/

theorem smallInt_of (n : Int) (h : smallIntB n = true) : smallInt n := by
  simpa [smallIntB, smallInt] using h

theorem textOk_of (v : HVal) (h : textOkB v = true) : TextOk v := by
  cases v with
  | num x => cases x with
    | int n => exact smallInt_of n (by simpa [textOkB] using h)
    | float q => trivial
  | _ => trivial

theorem numOk_of (E : Env) (x : PyNum) (h : numOkB E x = true) : NumOk E x := by
  cases x with
  | int n => exact smallInt_of n (by simpa [numOkB] using h)
  | float q => simp only [numOkB, decide_eq_true_eq] at h; exact h

theorem digitsOk_of (d : PyNum) (h : digitsOkB d = true) : DigitsOk d := by
  simpa [digitsOkB, DigitsOk] using h

theorem preBody_of_argsOkB (E : Env) (name : String) (v : List HVal) (h : argsOkB E name v = true) : PreBody E name v := by
  unfold PreBody
  split
  · intro a ha
    rcases v with _ | ⟨x, _ | ⟨y, t⟩⟩ <;> simp [list1] at ha
    subst ha
    exact textOk_of _ (by simpa [argsOkB] using h)
  · intro a s xs hv ha x hx
    rcases v with _ | ⟨a', _ | ⟨s', _ | ⟨c, t⟩⟩⟩ <;> simp [list2] at hv
    obtain ⟨rfl, rfl⟩ := hv
    cases a' <;> simp [Val.asArr?] at ha
    subst ha
    simp only [argsOkB, List.all_eq_true] at h
    exact textOk_of _ (h x hx)
  · intro a d x dg hv ha hd
    rcases v with _ | ⟨a', _ | ⟨d', _ | ⟨c, t⟩⟩⟩ <;> simp [list2] at hv
    obtain ⟨rfl, rfl⟩ := hv
    cases a' <;> simp [Val.asNum?] at ha
    cases d' <;> simp [Val.asNum?] at hd
    subst ha hd
    simp only [argsOkB, Bool.and_eq_true] at h
    exact ⟨numOk_of E _ h.1, digitsOk_of _ h.2⟩
  · intro a d t x dg hv ha hd
    rcases v with _ | ⟨a', _ | ⟨d', _ | ⟨t', _ | ⟨c, u⟩⟩⟩⟩ <;> simp [list3] at hv
    obtain ⟨rfl, rfl, rfl⟩ := hv
    cases a' <;> simp [Val.asNum?] at ha
    cases d' <;> simp [Val.asNum?] at hd
    subst ha hd
    simp only [argsOkB, Bool.and_eq_true] at h
    exact ⟨numOk_of E _ h.1, digitsOk_of _ h.2⟩
  · trivial

/-! ### operators on values -/

theorem dbl_of (E : Env) (x : PyNum) (h : dblB E x = true) : E.rnd x.abs = x.abs := by
  simpa [dblB] using h

theorem isDouble_of (E : Env) (x : PyNum) (h : dblB E x = true) : IsDouble E.rnd x := by
  cases x with
  | int n => trivial
  | float q =>
    unfold dblB at h
    exact (of_decide_eq_true h : E.rnd q = q)

theorem intRes_of (E : Env) (f : Int → Int → Int) (a b : PyNum) (h : intResB E f a b = true) :
    ∀ m n, a = .int m → b = .int n → E.rnd ((f m n : Int) : Rat) = ((f m n : Int) : Rat) := by
  intro m n ha hb
  subst ha hb
  simpa [intResB] using h

theorem opAddV_ref (E : Env) (hE : Sane E) (l r : HVal) (h : opOkB E .add l r = true) :
    absV (opAddVH E l r) = opAddVA E (absV l) (absV r) := by
  cases l with
  | num a =>
    cases r with
    | num b =>
      simp only [opOkB, Bool.and_eq_true] at h
      simp only [opAddVH, opAddVA, absV_num]
      rw [opAdd_refines E.rnd a b (dbl_of E a h.1.1) (dbl_of E b h.1.2) (intRes_of E (· + ·) a b h.2)]
    | str s =>
      have ht : TextOk (.num a) := textOk_of _ (by simpa [opOkB] using h)
      simp [opAddVH, opAddVA, valueString_abs E hE _ ht]
    | _ => simp [opAddVH, opAddVA]
  | str s =>
    have ht : TextOk r := textOk_of _ (by cases r <;> simpa [opOkB] using h)
    have hs := valueString_abs E hE r ht
    cases r <;> simp only [absV_null, absV_bool, absV_num, absV_str, absV_arr, absV_obj, absV_opaque] at hs ⊢ <;>
      simp [opAddVH, opAddVA, hs]
  | _ => cases r <;> simp [opAddVH, opAddVA, valueStringH, valueStringA]

theorem arith_ref (E : Env) (op : BinOp) (a b : PyNum) (hop : isArith op = true) (h : opOkB E op (.num a) (.num b) = true) :
    absV (arithH E op a b) = arithA E op a.abs b.abs := by
  cases op <;> simp [isArith] at hop
  · simp only [opOkB, Bool.and_eq_true] at h
    simp only [arithH, arithA, absV_num]
    rw [opSub_refines E.rnd a b (dbl_of E a h.1.1) (dbl_of E b h.1.2) (intRes_of E (· - ·) a b h.2)]
  · simp only [opOkB, Bool.and_eq_true] at h
    simp only [arithH, arithA, absV_num, abs_float]
    rw [opMul_refines E.rnd a b (isDouble_of E a h.1) (isDouble_of E b h.2)]
  · simp only [opOkB, Bool.and_eq_true] at h
    simp only [arithH, arithA]
    rw [opDiv_refines E.rnd a b (dbl_of E a h.1) (dbl_of E b h.2)]
    cases opDivA E.rnd a.abs b.abs <;> simp
  · simp only [opOkB, Bool.and_eq_true] at h
    simp only [arithH, arithA]
    rw [← opMod_refines E.rnd a b (dbl_of E a h.1.1) (dbl_of E b h.1.2) (intRes_of E (fun m n => Int.tmod m n + n) a b h.2)]
    cases opModH E.rnd a b <;> simp

/-- **T `opBin_refines`**: every binary operator of the history language on ANY two values (`+` on numbers / strings / string and
    value, `- * / %` on numbers, the six comparisons through `value_compare`, `&&`, `||` by truthiness), with the spelling forgotten
    afterwards, is the one-number-type operator on the abstracted operands - the failure value null included - provided the operands meet
    `opOkB` (number operands are doubles, the exact result of `int + int`, `int - int`, the adjusted `int % int` is a double, a host int
    whose text is taken is below 1e15). -/
theorem opBin_refines (E : Env) (hE : Sane E) (op : BinOp) (l r : HVal) (h : opOkB E op l r = true) :
    absV (opBinH E op l r) = opBinA E op (absV l) (absV r) := by
  cases op
  case add => simpa [opBinH, opBinA] using opAddV_ref E hE l r h
  case and =>
    simp only [opBinH, opBinA, isArith, reduceCtorEq, if_false, if_true, Bool.false_eq_true, ← truthy_abs]
    split <;> rfl
  case or =>
    simp only [opBinH, opBinA, isArith, reduceCtorEq, if_false, if_true, Bool.false_eq_true, ← truthy_abs]
    split <;> rfl
  case sub =>
    simp only [opBinH, opBinA, isArith, reduceCtorEq, if_false, if_true]
    cases l <;> cases r <;> simp only [absV_null, absV_bool, absV_num, absV_str, absV_arr, absV_obj, absV_opaque] <;>
      exact arith_ref E _ _ _ rfl h
  case mul =>
    simp only [opBinH, opBinA, isArith, reduceCtorEq, if_false, if_true]
    cases l <;> cases r <;> simp only [absV_null, absV_bool, absV_num, absV_str, absV_arr, absV_obj, absV_opaque] <;>
      exact arith_ref E _ _ _ rfl h
  case div =>
    simp only [opBinH, opBinA, isArith, reduceCtorEq, if_false, if_true]
    cases l <;> cases r <;> simp only [absV_null, absV_bool, absV_num, absV_str, absV_arr, absV_obj, absV_opaque] <;>
      exact arith_ref E _ _ _ rfl h
  case mod =>
    simp only [opBinH, opBinA, isArith, reduceCtorEq, if_false, if_true]
    cases l <;> cases r <;> simp only [absV_null, absV_bool, absV_num, absV_str, absV_arr, absV_obj, absV_opaque] <;>
      exact arith_ref E _ _ _ rfl h
  all_goals simp [opBinH, opBinA, isArith, ← cmp_abs]

/-- the unary operators: `-` (exact in both spellings; null on a non-number) and `!` (truthiness: `0` and `0.0` alike). -/
theorem opUn_refines (op : UnOp) (v : HVal) : absV (opUnH op v) = opUnA op (absV v) := by
  cases op
  · cases v <;> simp [opUnH, opUnA, opNeg_refines]
  · simp [opUnH, opUnA, ← truthy_abs]

/-! ### pool operations -/

theorem getVar_abs (p : Pool PyNum) (i : Nat) : absV (getVar p i) = getVar (p.map absV) i := by
  simp only [getVar, List.getD_eq_getElem?_getD, List.getElem?_map]
  cases p[i]? <;> simp

theorem writeBack_abs (p : Pool PyNum) : ∀ (ixs : List Nat) (vs : List HVal),
    (writeBack p ixs vs).map absV = writeBack (p.map absV) ixs (vs.map absV)
  | [], _ => by simp [writeBack]
  | _ :: _, [] => by simp [writeBack]
  | i :: is, v :: vs => by simp [writeBack, List.map_set, writeBack_abs p is vs]

end C12Hist
