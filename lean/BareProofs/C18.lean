import BareModel.Lint

namespace C18
open Lint

/-! ## Dictionaries -/

theorem has_iff (d : Dict) (k : Name) : d.has k = true ↔ k ∈ d.keys := by
  simp [Dict.has]

theorem has_false_iff (d : Dict) (k : Name) : d.has k = false ↔ k ∉ d.keys := by
  simp [Dict.has]

@[simp] theorem keys_nil : Dict.keys [] = [] := rfl

@[simp] theorem keys_cons (p : Name × Nat) (d : Dict) : Dict.keys (p :: d) = p.1 :: d.keys := rfl

@[simp] theorem keys_append (d : Dict) (k : Name) (v : Nat) : Dict.keys (d ++ [(k, v)]) = d.keys ++ [k] := by
  simp [Dict.keys]

theorem keys_set (d : Dict) (k : Name) (v : Nat) :
    (d.set k v).keys = if k ∈ d.keys then d.keys else d.keys ++ [k] := by
  unfold Dict.set
  by_cases h : k ∈ d.keys
  · simp only [(has_iff d k).2 h, if_true, h]
    simp only [Dict.keys, List.map_map]
    apply List.map_congr_left
    intro p _
    by_cases hp : p.1 = k <;> simp [hp]
  · have : d.has k = false := (has_false_iff d k).2 h
    simp [this, h]

theorem get_append (d : Dict) (k k' : Name) (v : Nat) :
    Dict.get (d ++ [(k', v)]) k = if k ∈ d.keys then d.get k else if k' = k then v else 0 := by
  induction d with
  | nil => simp [Dict.get]
  | cons p d ih =>
    obtain ⟨a, b⟩ := p
    by_cases ha : a = k
    · simp [Dict.get, ha]
    · have : ¬ k = a := fun e => ha e.symm
      simp [Dict.get, ha, this, ih]

theorem get_of_not_mem (d : Dict) (k : Name) (h : k ∉ d.keys) : d.get k = 0 := by
  induction d with
  | nil => rfl
  | cons p d ih =>
    obtain ⟨a, b⟩ := p
    simp only [keys_cons, List.mem_cons, not_or] at h
    have : ¬ a = k := fun e => h.1 e.symm
    simp [Dict.get, this, ih h.2]

theorem get_map_set (d : Dict) (k k' : Name) (v : Nat) (h : k' ∈ d.keys) :
    Dict.get (d.map (fun p => if p.1 = k' then (k', v) else p)) k = if k = k' then v else d.get k := by
  induction d with
  | nil => simp at h
  | cons p d ih =>
    obtain ⟨a, b⟩ := p
    by_cases ha : a = k'
    · subst ha
      by_cases hk : k = a
      · subst hk; simp [Dict.get]
      · have hk' : ¬ a = k := fun e => hk e.symm
        simp only [List.map_cons, if_true, Dict.get, hk', if_false, hk]
        by_cases hm : a ∈ Dict.keys d
        · simpa [hk] using ih hm
        · -- the rest of the dictionary does not mention `k'`: untouched
          have : d.map (fun p => if p.1 = a then (a, v) else p) = d := by
            have : ∀ p ∈ d, (if p.1 = a then (a, v) else p) = p := by
              intro p hp
              have : p.1 ≠ a := fun e => hm (by rw [← e]; exact List.mem_map_of_mem (f := (·.1)) hp)
              simp [this]
            rw [List.map_congr_left this]; simp
          rw [this]
    · have hm : k' ∈ Dict.keys d := by
        simp only [keys_cons, List.mem_cons] at h
        rcases h with h | h
        · exact absurd h.symm ha
        · exact h
      simp only [List.map_cons, ha, if_false, Dict.get]
      by_cases hak : a = k
      · subst hak; simp [ha]
      · simp [hak, ih hm]

theorem get_set (d : Dict) (k k' : Name) (v : Nat) :
    (d.set k' v).get k = if k = k' then v else d.get k := by
  unfold Dict.set
  by_cases h : k' ∈ d.keys
  · simp only [(has_iff d k').2 h, if_true]
    exact get_map_set d k k' v h
  · simp only [(has_false_iff d k').2 h, Bool.false_eq_true, if_false]
    rw [get_append]
    by_cases hk : k = k'
    · subst hk; simp [h]
    · have hk' : ¬ k' = k := fun e => hk e.symm
      by_cases hm : k ∈ d.keys
      · simp [hm, hk]
      · simp [hm, hk, hk', get_of_not_mem d k hm]

/-! ## Statement recognisers -/

def isFn (f : Name) : Stmt → Bool
  | .function _ g _ _ _ _ => g == f
  | _ => false

theorem isLabel_iff (l : Name) (s : Stmt) : isLabel l s = true ↔ s = .label l := by
  cases s <;> simp [isLabel]

theorem isJumpTo_iff (l : Name) (s : Stmt) : isJumpTo l s = true ↔ ∃ c, s = .jump l c := by
  cases s <;> simp [isJumpTo]

theorem isFn_iff (f : Name) (s : Stmt) : isFn f s = true ↔ ∃ k a v y b, s = .function k f a v y b := by
  cases s <;> simp [isFn]

theorem any_isLabel (l : Name) (ss : List Stmt) : ss.any (isLabel l) = true ↔ DefinedIn ss l := by
  simp only [List.any_eq_true, isLabel_iff, DefinedIn]
  constructor
  · rintro ⟨s, hs, rfl⟩; exact hs
  · intro h; exact ⟨_, h, rfl⟩

theorem any_isJumpTo (l : Name) (ss : List Stmt) : ss.any (isJumpTo l) = true ↔ JumpsTo ss l := by
  simp only [List.any_eq_true, isJumpTo_iff, JumpsTo]
  constructor
  · rintro ⟨s, hs, c, rfl⟩; exact ⟨c, hs⟩
  · rintro ⟨c, h⟩; exact ⟨_, h, c, rfl⟩

/-! ## The statement loop: warnings -/

/-- the warnings the loop emits at one statement, as a function of the statements *before* it in the scope -/
def stmtW (sc : Scope) (onFn : Nat → Name → List Name → List Stmt → List Warning) (pre : List Stmt) (ix : Nat) :
    Stmt → List Warning
  | .function _ f args _ _ body =>
      match sc with
      | .global => (if pre.any (isFn f) then [.redefFunction f ix] else []) ++ onFn ix f args body
      | .fn _ => []
  | .expr nm e => if nm.isNone && isPointless e then [.pointless sc ix] else []
  | .label l => if pre.any (isLabel l) then [.redefLabel sc l ix] else []
  | _ => []

def specW (sc : Scope) (onFn : Nat → Name → List Name → List Stmt → List Warning) :
    List Stmt → Nat → List Stmt → List Warning
  | _, _, [] => []
  | pre, ix, s :: r => stmtW sc onFn pre ix s ++ specW sc onFn (pre ++ [s]) (ix + 1) r

/-- what the loop state remembers about the statements already visited -/
structure Inv (sc : Scope) (pre : List Stmt) (st : LoopState) : Prop where
  lab : ∀ l, st.ldefs.has l = pre.any (isLabel l)
  fn : sc = .global → ∀ f, st.fdefs.has f = pre.any (isFn f)

theorem has_append (d : Dict) (k k' : Name) (v : Nat) : Dict.has (d ++ [(k', v)]) k = (d.has k || k' == k) := by
  by_cases h : k' = k
  · simp [Dict.has, h]
  · have h' : ¬ k = k' := fun e => h e.symm
    simp [Dict.has, h, h']

theorem step_inv {sc onFn pre st} (ix : Nat) (s : Stmt) (h : Inv sc pre st) :
    Inv sc (pre ++ [s]) (scopeStep sc onFn ix s st) := by
  cases s with
  | function k f args v y body =>
    cases sc with
    | global =>
      refine ⟨fun l => ?_, fun _ g => ?_⟩
      · have := h.lab l
        by_cases hf : st.fdefs.has f = true <;> simp [scopeStep, hf, this, isLabel]
      · have := h.fn rfl g
        by_cases hf : st.fdefs.has f = true
        · have hf' := hf
          rw [h.fn rfl f] at hf'
          by_cases hg : f = g
          · subst hg; simp [scopeStep, hf, isFn, hf']
          · simp [scopeStep, hf, this, isFn, hg]
        · simp [scopeStep, hf, has_append, this, isFn]
    | fn g =>
      refine ⟨fun l => ?_, fun hg => by cases hg⟩
      simp [scopeStep, h.lab l, isLabel]
  | expr nm e =>
    refine ⟨fun l => ?_, fun hg g => ?_⟩
    · by_cases hp : (nm.isNone && isPointless e) = true <;> simp [scopeStep, hp, h.lab l, isLabel]
    · by_cases hp : (nm.isNone && isPointless e) = true <;> simp [scopeStep, hp, h.fn hg g, isFn]
  | label l' =>
    refine ⟨fun l => ?_, fun hg g => ?_⟩
    · by_cases hl : st.ldefs.has l' = true
      · have hl' := hl
        rw [h.lab l'] at hl'
        by_cases e : l' = l
        · subst e; simp [scopeStep, hl, isLabel]
        · simp [scopeStep, hl, h.lab l, isLabel, e]
      · simp [scopeStep, hl, has_append, h.lab l, isLabel]
    · by_cases hl : st.ldefs.has l' = true <;> simp [scopeStep, hl, h.fn hg g, isFn]
  | jump l' c => exact ⟨fun l => by simp [scopeStep, h.lab l, isLabel], fun hg g => by simp [scopeStep, h.fn hg g, isFn]⟩
  | ret e => exact ⟨fun l => by simp [scopeStep, h.lab l, isLabel], fun hg g => by simp [scopeStep, h.fn hg g, isFn]⟩
  | «include» incs => exact ⟨fun l => by simp [scopeStep, h.lab l, isLabel], fun hg g => by simp [scopeStep, h.fn hg g, isFn]⟩

theorem step_warnings {sc onFn pre st} (ix : Nat) (s : Stmt) (h : Inv sc pre st) :
    (scopeStep sc onFn ix s st).warnings = st.warnings ++ stmtW sc onFn pre ix s := by
  cases s with
  | function k f args v y body =>
    cases sc with
    | global =>
      have := h.fn rfl f
      by_cases hf : st.fdefs.has f = true
      · simp [scopeStep, stmtW, hf, ← this]
      · have hf' : st.fdefs.has f = false := by simpa using hf
        simp [scopeStep, stmtW, hf', ← this]
    | fn g => simp [scopeStep, stmtW]
  | expr nm e => by_cases hp : (nm.isNone && isPointless e) = true <;> simp [scopeStep, stmtW, hp]
  | label l =>
    have := h.lab l
    by_cases hl : st.ldefs.has l = true
    · simp [scopeStep, stmtW, hl, ← this]
    · have hl' : st.ldefs.has l = false := by simpa using hl
      simp [scopeStep, stmtW, hl', ← this]
  | jump l c => simp [scopeStep, stmtW]
  | ret e => simp [scopeStep, stmtW]
  | «include» incs => simp [scopeStep, stmtW]

/-- the loop emits, statement by statement, exactly `stmtW` of the prefix -/
theorem loop_warnings (sc onFn) (ss : List Stmt) : ∀ (pre : List Stmt) (ix : Nat) (st : LoopState), Inv sc pre st →
    (scopeLoop sc onFn ix ss st).warnings = st.warnings ++ specW sc onFn pre ix ss := by
  induction ss with
  | nil => intro pre ix st _; simp [scopeLoop, specW]
  | cons s r ih =>
    intro pre ix st h
    rw [scopeLoop, ih (pre ++ [s]) (ix + 1) _ (step_inv ix s h), step_warnings ix s h, specW, List.append_assoc]

theorem inv_init (sc : Scope) : Inv sc [] {} := ⟨fun _ => rfl, fun _ _ => rfl⟩

theorem mem_specW {sc onFn} {w : Warning} (ss : List Stmt) : ∀ (pre : List Stmt) (ix : Nat),
    w ∈ specW sc onFn pre ix ss ↔ ∃ k s, ss[k]? = some s ∧ w ∈ stmtW sc onFn (pre ++ ss.take k) (ix + k) s := by
  induction ss with
  | nil => intro pre ix; simp [specW]
  | cons s r ih =>
    intro pre ix
    rw [specW, List.mem_append, ih]
    constructor
    · rintro (h | ⟨k, s', hk, hw⟩)
      · exact ⟨0, s, rfl, by simpa using h⟩
      · refine ⟨k + 1, s', by simpa using hk, ?_⟩
        have : ix + 1 + k = ix + (k + 1) := by omega
        simpa [this, List.append_assoc] using hw
    · rintro ⟨k, s', hk, hw⟩
      cases k with
      | zero =>
        simp only [List.getElem?_cons_zero, Option.some.injEq] at hk
        subst hk; left; simpa using hw
      | succ k =>
        right
        refine ⟨k, s', by simpa using hk, ?_⟩
        have : ix + 1 + k = ix + (k + 1) := by omega
        simpa [this, List.append_assoc] using hw

/-- membership in the warnings of a whole loop run from the initial state -/
theorem mem_loop_warnings {sc onFn} {w : Warning} (ss : List Stmt) :
    w ∈ (scopeLoop sc onFn 0 ss {}).warnings ↔ ∃ k s, ss[k]? = some s ∧ w ∈ stmtW sc onFn (ss.take k) k s := by
  rw [loop_warnings sc onFn ss [] 0 {} (inv_init sc)]
  have : ({} : LoopState).warnings = [] := rfl
  rw [this, List.nil_append, mem_specW]
  simp

/-! ## The statement loop: the two label dictionaries -/

def defStep (ix : Nat) (s : Stmt) (d : Dict) : Dict :=
  match s with
  | .label l => if d.has l then d else d ++ [(l, ix)]
  | _ => d

def useStep (ix : Nat) (s : Stmt) (d : Dict) : Dict :=
  match s with
  | .jump l _ => d.set l ix
  | _ => d

def scan (step : Nat → Stmt → Dict → Dict) : Nat → List Stmt → Dict → Dict
  | _, [], d => d
  | ix, s :: r, d => scan step (ix + 1) r (step ix s d)

theorem step_ldefs (sc onFn) (ix : Nat) (s : Stmt) (st : LoopState) :
    (scopeStep sc onFn ix s st).ldefs = defStep ix s st.ldefs := by
  cases s with
  | function k f args v y body =>
    cases sc with
    | global => by_cases hf : st.fdefs.has f = true <;> simp [scopeStep, defStep, hf]
    | fn g => simp [scopeStep, defStep]
  | expr nm e => by_cases hp : (nm.isNone && isPointless e) = true <;> simp [scopeStep, defStep, hp]
  | label l => by_cases hl : st.ldefs.has l = true <;> simp [scopeStep, defStep, hl]
  | jump l c => simp [scopeStep, defStep]
  | ret e => simp [scopeStep, defStep]
  | «include» incs => simp [scopeStep, defStep]

theorem step_lused (sc onFn) (ix : Nat) (s : Stmt) (st : LoopState) :
    (scopeStep sc onFn ix s st).lused = useStep ix s st.lused := by
  cases s with
  | function k f args v y body =>
    cases sc with
    | global => by_cases hf : st.fdefs.has f = true <;> simp [scopeStep, useStep, hf]
    | fn g => simp [scopeStep, useStep]
  | expr nm e => by_cases hp : (nm.isNone && isPointless e) = true <;> simp [scopeStep, useStep, hp]
  | label l => by_cases hl : st.ldefs.has l = true <;> simp [scopeStep, useStep, hl]
  | jump l c => simp [scopeStep, useStep]
  | ret e => simp [scopeStep, useStep]
  | «include» incs => simp [scopeStep, useStep]

theorem loop_ldefs (sc onFn) (ss : List Stmt) : ∀ (ix : Nat) (st : LoopState),
    (scopeLoop sc onFn ix ss st).ldefs = scan defStep ix ss st.ldefs := by
  induction ss with
  | nil => intro ix st; rfl
  | cons s r ih => intro ix st; rw [scopeLoop, ih, step_ldefs, scan]

theorem loop_lused (sc onFn) (ss : List Stmt) : ∀ (ix : Nat) (st : LoopState),
    (scopeLoop sc onFn ix ss st).lused = scan useStep ix ss st.lused := by
  induction ss with
  | nil => intro ix st; rfl
  | cons s r ih => intro ix st; rw [scopeLoop, ih, step_lused, scan]

/-- `labels_defined`: the keys are the labels defined in the scope -/
theorem defs_mem (l : Name) (ss : List Stmt) : ∀ (ix : Nat) (d : Dict),
    l ∈ (scan defStep ix ss d).keys ↔ l ∈ d.keys ∨ DefinedIn ss l := by
  induction ss with
  | nil => intro ix d; simp [scan, DefinedIn]
  | cons s r ih =>
    intro ix d
    rw [scan, ih]
    simp only [DefinedIn, List.mem_cons]
    cases s with
    | label l' =>
      by_cases hl : d.has l' = true
      · have := (has_iff d l').1 hl
        simp only [defStep, hl, if_true, Stmt.label.injEq]
        constructor
        · rintro (h | h)
          · exact Or.inl h
          · exact Or.inr (Or.inr h)
        · rintro (h | h | h)
          · exact Or.inl h
          · subst h; exact Or.inl this
          · exact Or.inr h
      · simp only [defStep, hl, Stmt.label.injEq]
        simp only [Bool.false_eq_true, if_false, keys_append, List.mem_append, List.mem_singleton]
        constructor
        · rintro ((h | h) | h)
          · exact Or.inl h
          · exact Or.inr (Or.inl h)
          · exact Or.inr (Or.inr h)
        · rintro (h | h | h)
          · exact Or.inl (Or.inl h)
          · exact Or.inl (Or.inr h)
          · exact Or.inr h
    | _ => simp [defStep]

theorem defs_nodup (ss : List Stmt) : ∀ (ix : Nat) (d : Dict), d.keys.Nodup → (scan defStep ix ss d).keys.Nodup := by
  induction ss with
  | nil => intro ix d h; exact h
  | cons s r ih =>
    intro ix d h
    rw [scan]
    apply ih
    cases s with
    | label l' =>
      by_cases hl : d.has l' = true
      · simpa [defStep, hl] using h
      · have hn : l' ∉ d.keys := fun hm => hl ((has_iff d l').2 hm)
        simp only [defStep, hl, Bool.false_eq_true, if_false, keys_append]
        rw [List.nodup_append]
        exact ⟨h, by simp, fun a ha b hb => by simp at hb; subst hb; exact fun e => hn (e ▸ ha)⟩
    | _ => simpa [defStep] using h

/-- `labels_defined[l]` is the index of the *first* definition -/
theorem defs_get (l : Name) (ss : List Stmt) : ∀ (ix : Nat) (d : Dict),
    (scan defStep ix ss d).get l =
      if l ∈ d.keys then d.get l else
        match ss.findIdx? (isLabel l) with
        | some i => ix + i
        | none => 0 := by
  induction ss with
  | nil =>
    intro ix d
    by_cases h : l ∈ d.keys <;> simp [scan, h, get_of_not_mem]
  | cons s r ih =>
    intro ix d
    rw [scan, ih]
    cases s with
    | label l' =>
      by_cases hl : d.has l' = true
      · have hm := (has_iff d l').1 hl
        simp only [defStep, hl, if_true]
        by_cases h : l ∈ d.keys
        · simp [h]
        · have : ¬ l' = l := fun e => h (e ▸ hm)
          simp only [h, if_false, List.findIdx?_cons, isLabel, beq_iff_eq, this]
          cases r.findIdx? (isLabel l) with
          | none => simp
          | some i => simp; omega
      · have hn : l' ∉ d.keys := fun hm => hl ((has_iff d l').2 hm)
        simp only [defStep, hl, Bool.false_eq_true, if_false, keys_append, List.mem_append, List.mem_singleton]
        by_cases h : l ∈ d.keys
        · simp [h, get_append]
        · by_cases e : l = l'
          · subst e; simp [h, get_append, List.findIdx?_cons, isLabel]
          · have e' : ¬ l' = l := fun x => e x.symm
            simp only [h, e, or_self, if_false, List.findIdx?_cons, isLabel, beq_iff_eq, e']
            cases r.findIdx? (isLabel l) with
            | none => simp
            | some i => simp; omega
    | _ =>
      simp only [defStep]
      by_cases h : l ∈ d.keys
      · simp [h]
      · simp only [h, if_false, List.findIdx?_cons, isLabel]
        cases r.findIdx? (isLabel l) with
        | none => simp
        | some i => simp; omega

/-- `labels_used`: the keys are the labels some jump of the scope targets -/
theorem uses_mem (l : Name) (ss : List Stmt) : ∀ (ix : Nat) (d : Dict),
    l ∈ (scan useStep ix ss d).keys ↔ l ∈ d.keys ∨ JumpsTo ss l := by
  induction ss with
  | nil => intro ix d; simp [scan, JumpsTo]
  | cons s r ih =>
    intro ix d
    rw [scan, ih]
    cases s with
    | jump l' c =>
      simp only [useStep, keys_set, JumpsTo, List.mem_cons, Stmt.jump.injEq]
      by_cases hm : l' ∈ d.keys
      · simp only [hm, if_true]
        constructor
        · rintro (h | ⟨c', h⟩)
          · exact Or.inl h
          · exact Or.inr ⟨c', Or.inr h⟩
        · rintro (h | ⟨c', h | h⟩)
          · exact Or.inl h
          · exact Or.inl (h.1 ▸ hm)
          · exact Or.inr ⟨c', h⟩
      · simp only [hm, if_false, List.mem_append, List.mem_singleton]
        constructor
        · rintro ((h | h) | ⟨c', h⟩)
          · exact Or.inl h
          · exact Or.inr ⟨c, Or.inl ⟨h, rfl⟩⟩
          · exact Or.inr ⟨c', Or.inr h⟩
        · rintro (h | ⟨c', h | h⟩)
          · exact Or.inl (Or.inl h)
          · exact Or.inl (Or.inr h.1)
          · exact Or.inr ⟨c', h⟩
    | _ => simp [useStep, JumpsTo]

theorem uses_nodup (ss : List Stmt) : ∀ (ix : Nat) (d : Dict), d.keys.Nodup → (scan useStep ix ss d).keys.Nodup := by
  induction ss with
  | nil => intro ix d h; exact h
  | cons s r ih =>
    intro ix d h
    rw [scan]
    apply ih
    cases s with
    | jump l' c =>
      simp only [useStep, keys_set]
      by_cases hm : l' ∈ d.keys
      · simpa [hm] using h
      · simp only [hm, if_false]
        rw [List.nodup_append]
        exact ⟨h, by simp, fun a ha b hb => by simp at hb; subst hb; exact fun e => hm (e ▸ ha)⟩
    | _ => simpa [useStep] using h

/-- `labels_used[l]` is the index of the *last* jump to `l` -/
theorem uses_get (l : Name) (ss : List Stmt) : ∀ (ix : Nat) (d : Dict),
    (scan useStep ix ss d).get l =
      match lastJumpFrom l ix ss with
      | some j => j
      | none => d.get l := by
  induction ss with
  | nil => intro ix d; simp [scan, lastJumpFrom]
  | cons s r ih =>
    intro ix d
    rw [scan, ih, lastJumpFrom]
    cases hlj : lastJumpFrom l (ix + 1) r with
    | some j => simp
    | none =>
      cases s with
      | jump l' c =>
        by_cases e : l' = l
        · subst e; simp [useStep, get_set, isJumpTo]
        · have e' : ¬ l = l' := fun x => e x.symm
          simp [useStep, get_set, isJumpTo, e, e']
      | _ => simp [useStep, isJumpTo]

theorem lastJump_none (l : Name) (ss : List Stmt) : ∀ ix, lastJumpFrom l ix ss = none ↔ ¬ JumpsTo ss l := by
  induction ss with
  | nil => intro ix; simp [lastJumpFrom, JumpsTo]
  | cons s r ih =>
    intro ix
    rw [lastJumpFrom]
    cases hlj : lastJumpFrom l (ix + 1) r with
    | some j =>
      have : JumpsTo r l := by
        by_cases h : JumpsTo r l
        · exact h
        · rw [(ih (ix + 1)).2 h] at hlj; cases hlj
      obtain ⟨c, hc⟩ := this
      simp only [reduceCtorEq, false_iff]
      exact fun h => h ⟨c, List.mem_cons_of_mem _ hc⟩
    | none =>
      have hr := (ih (ix + 1)).1 hlj
      by_cases hj : isJumpTo l s = true
      · obtain ⟨c, rfl⟩ := (isJumpTo_iff l s).1 hj
        simp only [hj, if_true, reduceCtorEq, false_iff]
        exact fun h => h ⟨c, List.mem_cons_self⟩
      · simp only [hj, Bool.false_eq_true, if_false, true_iff]
        rintro ⟨c, hc⟩
        rcases List.mem_cons.1 hc with h | h
        · exact hj ((isJumpTo_iff l s).2 ⟨c, h.symm⟩)
        · exact hr ⟨c, h⟩

end C18
