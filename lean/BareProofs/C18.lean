import BareModel.Lint

namespace C18
open Lint

/-! ## Dictionaries -/

theorem has_iff (d : Dict) (k : Name) : d.has k = true ↔ k ∈ d.keys := by
  simp [Dict.has]

theorem has_false_iff (d : Dict) (k : Name) : d.has k = false ↔ k ∉ d.keys := by
  simp [Dict.has]

@[simp] theorem keys_nil : Dict.keys [] = [] := rfl

@[simp] theorem keys_cons (p : Name × Nat) (d : Dict) : Dict.keys (p :: d) = p.1 :: d.keys := rfl

@[simp] theorem keys_append (d : Dict) (k : Name) (v : Nat) : Dict.keys (d ++ [(k, v)]) = d.keys ++ [k] := by
  simp [Dict.keys]

theorem keys_set (d : Dict) (k : Name) (v : Nat) :
    (d.set k v).keys = if k ∈ d.keys then d.keys else d.keys ++ [k] := by
  unfold Dict.set
  by_cases h : k ∈ d.keys
  · simp only [(has_iff d k).2 h, if_true, h]
    simp only [Dict.keys, List.map_map]
    apply List.map_congr_left
    intro p _
    by_cases hp : p.1 = k <;> simp [hp]
  · have : d.has k = false := (has_false_iff d k).2 h
    simp [this, h]

theorem get_append (d : Dict) (k k' : Name) (v : Nat) :
    Dict.get (d ++ [(k', v)]) k = if k ∈ d.keys then d.get k else if k' = k then v else 0 := by
  induction d with
  | nil => simp [Dict.get]
  | cons p d ih =>
    obtain ⟨a, b⟩ := p
    by_cases ha : a = k
    · simp [Dict.get, ha]
    · have : ¬ k = a := fun e => ha e.symm
      simp [Dict.get, ha, this, ih]

theorem get_of_not_mem (d : Dict) (k : Name) (h : k ∉ d.keys) : d.get k = 0 := by
  induction d with
  | nil => rfl
  | cons p d ih =>
    obtain ⟨a, b⟩ := p
    simp only [keys_cons, List.mem_cons, not_or] at h
    have : ¬ a = k := fun e => h.1 e.symm
    simp [Dict.get, this, ih h.2]

theorem get_map_set (d : Dict) (k k' : Name) (v : Nat) (h : k' ∈ d.keys) :
    Dict.get (d.map (fun p => if p.1 = k' then (k', v) else p)) k = if k = k' then v else d.get k := by
  induction d with
  | nil => simp at h
  | cons p d ih =>
    obtain ⟨a, b⟩ := p
    by_cases ha : a = k'
    · subst ha
      by_cases hk : k = a
      · subst hk; simp [Dict.get]
      · have hk' : ¬ a = k := fun e => hk e.symm
        simp only [List.map_cons, if_true, Dict.get, hk', if_false, hk]
        by_cases hm : a ∈ Dict.keys d
        · simpa [hk] using ih hm
        · -- the rest of the dictionary does not mention `k'`: untouched
          have : d.map (fun p => if p.1 = a then (a, v) else p) = d := by
            have : ∀ p ∈ d, (if p.1 = a then (a, v) else p) = p := by
              intro p hp
              have : p.1 ≠ a := fun e => hm (by rw [← e]; exact List.mem_map_of_mem (f := (·.1)) hp)
              simp [this]
            rw [List.map_congr_left this]; simp
          rw [this]
    · have hm : k' ∈ Dict.keys d := by
        simp only [keys_cons, List.mem_cons] at h
        rcases h with h | h
        · exact absurd h.symm ha
        · exact h
      simp only [List.map_cons, ha, if_false, Dict.get]
      by_cases hak : a = k
      · subst hak; simp [ha]
      · simp [hak, ih hm]

theorem get_set (d : Dict) (k k' : Name) (v : Nat) :
    (d.set k' v).get k = if k = k' then v else d.get k := by
  unfold Dict.set
  by_cases h : k' ∈ d.keys
  · simp only [(has_iff d k').2 h, if_true]
    exact get_map_set d k k' v h
  · simp only [(has_false_iff d k').2 h, Bool.false_eq_true, if_false]
    rw [get_append]
    by_cases hk : k = k'
    · subst hk; simp [h]
    · have hk' : ¬ k' = k := fun e => hk e.symm
      by_cases hm : k ∈ d.keys
      · simp [hm, hk]
      · simp [hm, hk, hk', get_of_not_mem d k hm]

/-! ## Statement recognisers -/

def isFn (f : Name) : Stmt → Bool
  | .function _ g _ _ _ _ => g == f
  | _ => false

theorem isLabel_iff (l : Name) (s : Stmt) : isLabel l s = true ↔ s = .label l := by
  cases s <;> simp [isLabel]

theorem isJumpTo_iff (l : Name) (s : Stmt) : isJumpTo l s = true ↔ ∃ c, s = .jump l c := by
  cases s <;> simp [isJumpTo]

theorem isFn_iff (f : Name) (s : Stmt) : isFn f s = true ↔ ∃ k a v y b, s = .function k f a v y b := by
  cases s <;> simp [isFn]

theorem any_isLabel (l : Name) (ss : List Stmt) : ss.any (isLabel l) = true ↔ DefinedIn ss l := by
  simp only [List.any_eq_true, isLabel_iff, DefinedIn]
  constructor
  · rintro ⟨s, hs, rfl⟩; exact hs
  · intro h; exact ⟨_, h, rfl⟩

theorem any_isJumpTo (l : Name) (ss : List Stmt) : ss.any (isJumpTo l) = true ↔ JumpsTo ss l := by
  simp only [List.any_eq_true, isJumpTo_iff, JumpsTo]
  constructor
  · rintro ⟨s, hs, c, rfl⟩; exact ⟨c, hs⟩
  · rintro ⟨c, h⟩; exact ⟨_, h, c, rfl⟩

/-! ## The statement loop: warnings -/

/-- the warnings the loop emits at one statement, as a function of the statements *before* it in the scope -/
def stmtW (sc : Scope) (onFn : Nat → Name → List Name → List Stmt → List Warning) (pre : List Stmt) (ix : Nat) :
    Stmt → List Warning
  | .function _ f args _ _ body =>
      match sc with
      | .global => (if pre.any (isFn f) then [.redefFunction f ix] else []) ++ onFn ix f args body
      | .fn _ => []
  | .expr nm e => if nm.isNone && isPointless e then [.pointless sc ix] else []
  | .label l => if pre.any (isLabel l) then [.redefLabel sc l ix] else []
  | _ => []

def specW (sc : Scope) (onFn : Nat → Name → List Name → List Stmt → List Warning) :
    List Stmt → Nat → List Stmt → List Warning
  | _, _, [] => []
  | pre, ix, s :: r => stmtW sc onFn pre ix s ++ specW sc onFn (pre ++ [s]) (ix + 1) r

/-- what the loop state remembers about the statements already visited -/
structure Inv (sc : Scope) (pre : List Stmt) (st : LoopState) : Prop where
  lab : ∀ l, st.ldefs.has l = pre.any (isLabel l)
  fn : sc = .global → ∀ f, st.fdefs.has f = pre.any (isFn f)

theorem has_append (d : Dict) (k k' : Name) (v : Nat) : Dict.has (d ++ [(k', v)]) k = (d.has k || k' == k) := by
  by_cases h : k' = k
  · simp [Dict.has, h]
  · have h' : ¬ k = k' := fun e => h e.symm
    simp [Dict.has, h, h']

theorem step_inv {sc onFn pre st} (ix : Nat) (s : Stmt) (h : Inv sc pre st) :
    Inv sc (pre ++ [s]) (scopeStep sc onFn ix s st) := by
  cases s with
  | function k f args v y body =>
    cases sc with
    | global =>
      refine ⟨fun l => ?_, fun _ g => ?_⟩
      · have := h.lab l
        by_cases hf : st.fdefs.has f = true <;> simp [scopeStep, hf, this, isLabel]
      · have := h.fn rfl g
        by_cases hf : st.fdefs.has f = true
        · have hf' := hf
          rw [h.fn rfl f] at hf'
          by_cases hg : f = g
          · subst hg; simp [scopeStep, hf, isFn, hf']
          · simp [scopeStep, hf, this, isFn, hg]
        · simp [scopeStep, hf, has_append, this, isFn]
    | fn g =>
      refine ⟨fun l => ?_, fun hg => by cases hg⟩
      simp [scopeStep, h.lab l, isLabel]
  | expr nm e =>
    refine ⟨fun l => ?_, fun hg g => ?_⟩
    · by_cases hp : (nm.isNone && isPointless e) = true <;> simp [scopeStep, hp, h.lab l, isLabel]
    · by_cases hp : (nm.isNone && isPointless e) = true <;> simp [scopeStep, hp, h.fn hg g, isFn]
  | label l' =>
    refine ⟨fun l => ?_, fun hg g => ?_⟩
    · by_cases hl : st.ldefs.has l' = true
      · have hl' := hl
        rw [h.lab l'] at hl'
        by_cases e : l' = l
        · subst e; simp [scopeStep, hl, isLabel]
        · simp [scopeStep, hl, h.lab l, isLabel, e]
      · simp [scopeStep, hl, has_append, h.lab l, isLabel]
    · by_cases hl : st.ldefs.has l' = true <;> simp [scopeStep, hl, h.fn hg g, isFn]
  | jump l' c => exact ⟨fun l => by simp [scopeStep, h.lab l, isLabel], fun hg g => by simp [scopeStep, h.fn hg g, isFn]⟩
  | ret e => exact ⟨fun l => by simp [scopeStep, h.lab l, isLabel], fun hg g => by simp [scopeStep, h.fn hg g, isFn]⟩
  | «include» incs => exact ⟨fun l => by simp [scopeStep, h.lab l, isLabel], fun hg g => by simp [scopeStep, h.fn hg g, isFn]⟩

theorem step_warnings {sc onFn pre st} (ix : Nat) (s : Stmt) (h : Inv sc pre st) :
    (scopeStep sc onFn ix s st).warnings = st.warnings ++ stmtW sc onFn pre ix s := by
  cases s with
  | function k f args v y body =>
    cases sc with
    | global =>
      have := h.fn rfl f
      by_cases hf : st.fdefs.has f = true
      · simp [scopeStep, stmtW, hf, ← this]
      · have hf' : st.fdefs.has f = false := by simpa using hf
        simp [scopeStep, stmtW, hf', ← this]
    | fn g => simp [scopeStep, stmtW]
  | expr nm e => by_cases hp : (nm.isNone && isPointless e) = true <;> simp [scopeStep, stmtW, hp]
  | label l =>
    have := h.lab l
    by_cases hl : st.ldefs.has l = true
    · simp [scopeStep, stmtW, hl, ← this]
    · have hl' : st.ldefs.has l = false := by simpa using hl
      simp [scopeStep, stmtW, hl', ← this]
  | jump l c => simp [scopeStep, stmtW]
  | ret e => simp [scopeStep, stmtW]
  | «include» incs => simp [scopeStep, stmtW]

/-- the loop emits, statement by statement, exactly `stmtW` of the prefix -/
theorem loop_warnings (sc onFn) (ss : List Stmt) : ∀ (pre : List Stmt) (ix : Nat) (st : LoopState), Inv sc pre st →
    (scopeLoop sc onFn ix ss st).warnings = st.warnings ++ specW sc onFn pre ix ss := by
  induction ss with
  | nil => intro pre ix st _; simp [scopeLoop, specW]
  | cons s r ih =>
    intro pre ix st h
    rw [scopeLoop, ih (pre ++ [s]) (ix + 1) _ (step_inv ix s h), step_warnings ix s h, specW, List.append_assoc]

theorem inv_init (sc : Scope) : Inv sc [] {} := ⟨fun _ => rfl, fun _ _ => rfl⟩

theorem mem_specW {sc onFn} {w : Warning} (ss : List Stmt) : ∀ (pre : List Stmt) (ix : Nat),
    w ∈ specW sc onFn pre ix ss ↔ ∃ k s, ss[k]? = some s ∧ w ∈ stmtW sc onFn (pre ++ ss.take k) (ix + k) s := by
  induction ss with
  | nil => intro pre ix; simp [specW]
  | cons s r ih =>
    intro pre ix
    rw [specW, List.mem_append, ih]
    constructor
    · rintro (h | ⟨k, s', hk, hw⟩)
      · exact ⟨0, s, rfl, by simpa using h⟩
      · refine ⟨k + 1, s', by simpa using hk, ?_⟩
        have : ix + 1 + k = ix + (k + 1) := by omega
        simpa [this, List.append_assoc] using hw
    · rintro ⟨k, s', hk, hw⟩
      cases k with
      | zero =>
        simp only [List.getElem?_cons_zero, Option.some.injEq] at hk
        subst hk; left; simpa using hw
      | succ k =>
        right
        refine ⟨k, s', by simpa using hk, ?_⟩
        have : ix + 1 + k = ix + (k + 1) := by omega
        simpa [this, List.append_assoc] using hw

/-- membership in the warnings of a whole loop run from the initial state -/
theorem mem_loop_warnings {sc onFn} {w : Warning} (ss : List Stmt) :
    w ∈ (scopeLoop sc onFn 0 ss {}).warnings ↔ ∃ k s, ss[k]? = some s ∧ w ∈ stmtW sc onFn (ss.take k) k s := by
  rw [loop_warnings sc onFn ss [] 0 {} (inv_init sc)]
  have : ({} : LoopState).warnings = [] := rfl
  rw [this, List.nil_append, mem_specW]
  simp

/-! ## The statement loop: the two label dictionaries -/

def defStep (ix : Nat) (s : Stmt) (d : Dict) : Dict :=
  match s with
  | .label l => if d.has l then d else d ++ [(l, ix)]
  | _ => d

def useStep (ix : Nat) (s : Stmt) (d : Dict) : Dict :=
  match s with
  | .jump l _ => d.set l ix
  | _ => d

def scan (step : Nat → Stmt → Dict → Dict) : Nat → List Stmt → Dict → Dict
  | _, [], d => d
  | ix, s :: r, d => scan step (ix + 1) r (step ix s d)

theorem step_ldefs (sc onFn) (ix : Nat) (s : Stmt) (st : LoopState) :
    (scopeStep sc onFn ix s st).ldefs = defStep ix s st.ldefs := by
  cases s with
  | function k f args v y body =>
    cases sc with
    | global => by_cases hf : st.fdefs.has f = true <;> simp [scopeStep, defStep, hf]
    | fn g => simp [scopeStep, defStep]
  | expr nm e => by_cases hp : (nm.isNone && isPointless e) = true <;> simp [scopeStep, defStep, hp]
  | label l => by_cases hl : st.ldefs.has l = true <;> simp [scopeStep, defStep, hl]
  | jump l c => simp [scopeStep, defStep]
  | ret e => simp [scopeStep, defStep]
  | «include» incs => simp [scopeStep, defStep]

theorem step_lused (sc onFn) (ix : Nat) (s : Stmt) (st : LoopState) :
    (scopeStep sc onFn ix s st).lused = useStep ix s st.lused := by
  cases s with
  | function k f args v y body =>
    cases sc with
    | global => by_cases hf : st.fdefs.has f = true <;> simp [scopeStep, useStep, hf]
    | fn g => simp [scopeStep, useStep]
  | expr nm e => by_cases hp : (nm.isNone && isPointless e) = true <;> simp [scopeStep, useStep, hp]
  | label l => by_cases hl : st.ldefs.has l = true <;> simp [scopeStep, useStep, hl]
  | jump l c => simp [scopeStep, useStep]
  | ret e => simp [scopeStep, useStep]
  | «include» incs => simp [scopeStep, useStep]

theorem loop_ldefs (sc onFn) (ss : List Stmt) : ∀ (ix : Nat) (st : LoopState),
    (scopeLoop sc onFn ix ss st).ldefs = scan defStep ix ss st.ldefs := by
  induction ss with
  | nil => intro ix st; rfl
  | cons s r ih => intro ix st; rw [scopeLoop, ih, step_ldefs, scan]

theorem loop_lused (sc onFn) (ss : List Stmt) : ∀ (ix : Nat) (st : LoopState),
    (scopeLoop sc onFn ix ss st).lused = scan useStep ix ss st.lused := by
  induction ss with
  | nil => intro ix st; rfl
  | cons s r ih => intro ix st; rw [scopeLoop, ih, step_lused, scan]

/-- `labels_defined`: the keys are the labels defined in the scope -/
theorem defs_mem (l : Name) (ss : List Stmt) : ∀ (ix : Nat) (d : Dict),
    l ∈ (scan defStep ix ss d).keys ↔ l ∈ d.keys ∨ DefinedIn ss l := by
  induction ss with
  | nil => intro ix d; simp [scan, DefinedIn]
  | cons s r ih =>
    intro ix d
    rw [scan, ih]
    simp only [DefinedIn, List.mem_cons]
    cases s with
    | label l' =>
      by_cases hl : d.has l' = true
      · have := (has_iff d l').1 hl
        simp only [defStep, hl, if_true, Stmt.label.injEq]
        constructor
        · rintro (h | h)
          · exact Or.inl h
          · exact Or.inr (Or.inr h)
        · rintro (h | h | h)
          · exact Or.inl h
          · subst h; exact Or.inl this
          · exact Or.inr h
      · simp only [defStep, hl, Stmt.label.injEq]
        simp only [Bool.false_eq_true, if_false, keys_append, List.mem_append, List.mem_singleton]
        constructor
        · rintro ((h | h) | h)
          · exact Or.inl h
          · exact Or.inr (Or.inl h)
          · exact Or.inr (Or.inr h)
        · rintro (h | h | h)
          · exact Or.inl (Or.inl h)
          · exact Or.inl (Or.inr h)
          · exact Or.inr h
    | _ => simp [defStep]

theorem defs_nodup (ss : List Stmt) : ∀ (ix : Nat) (d : Dict), d.keys.Nodup → (scan defStep ix ss d).keys.Nodup := by
  induction ss with
  | nil => intro ix d h; exact h
  | cons s r ih =>
    intro ix d h
    rw [scan]
    apply ih
    cases s with
    | label l' =>
      by_cases hl : d.has l' = true
      · simpa [defStep, hl] using h
      · have hn : l' ∉ d.keys := fun hm => hl ((has_iff d l').2 hm)
        simp only [defStep, hl, Bool.false_eq_true, if_false, keys_append]
        rw [List.nodup_append]
        exact ⟨h, by simp, fun a ha b hb => by simp at hb; subst hb; exact fun e => hn (e ▸ ha)⟩
    | _ => simpa [defStep] using h

/-- `labels_defined[l]` is the index of the *first* definition -/
theorem defs_get (l : Name) (ss : List Stmt) : ∀ (ix : Nat) (d : Dict),
    (scan defStep ix ss d).get l =
      if l ∈ d.keys then d.get l else
        match ss.findIdx? (isLabel l) with
        | some i => ix + i
        | none => 0 := by
  induction ss with
  | nil =>
    intro ix d
    by_cases h : l ∈ d.keys <;> simp [scan, h, get_of_not_mem]
  | cons s r ih =>
    intro ix d
    rw [scan, ih]
    cases s with
    | label l' =>
      by_cases hl : d.has l' = true
      · have hm := (has_iff d l').1 hl
        simp only [defStep, hl, if_true]
        by_cases h : l ∈ d.keys
        · simp [h]
        · have : ¬ l' = l := fun e => h (e ▸ hm)
          simp only [h, if_false, List.findIdx?_cons, isLabel, beq_iff_eq, this]
          cases r.findIdx? (isLabel l) with
          | none => simp
          | some i => simp; omega
      · have hn : l' ∉ d.keys := fun hm => hl ((has_iff d l').2 hm)
        simp only [defStep, hl, Bool.false_eq_true, if_false, keys_append, List.mem_append, List.mem_singleton]
        by_cases h : l ∈ d.keys
        · simp [h, get_append]
        · by_cases e : l = l'
          · subst e; simp [h, get_append, List.findIdx?_cons, isLabel]
          · have e' : ¬ l' = l := fun x => e x.symm
            simp only [h, e, or_self, if_false, List.findIdx?_cons, isLabel, beq_iff_eq, e']
            cases r.findIdx? (isLabel l) with
            | none => simp
            | some i => simp; omega
    | _ =>
      simp only [defStep]
      by_cases h : l ∈ d.keys
      · simp [h]
      · simp only [h, if_false, List.findIdx?_cons, isLabel]
        cases r.findIdx? (isLabel l) with
        | none => simp
        | some i => simp; omega

/-- `labels_used`: the keys are the labels some jump of the scope targets -/
theorem uses_mem (l : Name) (ss : List Stmt) : ∀ (ix : Nat) (d : Dict),
    l ∈ (scan useStep ix ss d).keys ↔ l ∈ d.keys ∨ JumpsTo ss l := by
  induction ss with
  | nil => intro ix d; simp [scan, JumpsTo]
  | cons s r ih =>
    intro ix d
    rw [scan, ih]
    cases s with
    | jump l' c =>
      simp only [useStep, keys_set, JumpsTo, List.mem_cons, Stmt.jump.injEq]
      by_cases hm : l' ∈ d.keys
      · simp only [hm, if_true]
        constructor
        · rintro (h | ⟨c', h⟩)
          · exact Or.inl h
          · exact Or.inr ⟨c', Or.inr h⟩
        · rintro (h | ⟨c', h | h⟩)
          · exact Or.inl h
          · exact Or.inl (h.1 ▸ hm)
          · exact Or.inr ⟨c', h⟩
      · simp only [hm, if_false, List.mem_append, List.mem_singleton]
        constructor
        · rintro ((h | h) | ⟨c', h⟩)
          · exact Or.inl h
          · exact Or.inr ⟨c, Or.inl ⟨h, rfl⟩⟩
          · exact Or.inr ⟨c', Or.inr h⟩
        · rintro (h | ⟨c', h | h⟩)
          · exact Or.inl (Or.inl h)
          · exact Or.inl (Or.inr h.1)
          · exact Or.inr ⟨c', h⟩
    | _ => simp [useStep, JumpsTo]

theorem uses_nodup (ss : List Stmt) : ∀ (ix : Nat) (d : Dict), d.keys.Nodup → (scan useStep ix ss d).keys.Nodup := by
  induction ss with
  | nil => intro ix d h; exact h
  | cons s r ih =>
    intro ix d h
    rw [scan]
    apply ih
    cases s with
    | jump l' c =>
      simp only [useStep, keys_set]
      by_cases hm : l' ∈ d.keys
      · simpa [hm] using h
      · simp only [hm, if_false]
        rw [List.nodup_append]
        exact ⟨h, by simp, fun a ha b hb => by simp at hb; subst hb; exact fun e => hm (e ▸ ha)⟩
    | _ => simpa [useStep] using h

/-- `labels_used[l]` is the index of the *last* jump to `l` -/
theorem uses_get (l : Name) (ss : List Stmt) : ∀ (ix : Nat) (d : Dict),
    (scan useStep ix ss d).get l =
      match lastJumpFrom l ix ss with
      | some j => j
      | none => d.get l := by
  induction ss with
  | nil => intro ix d; simp [scan, lastJumpFrom]
  | cons s r ih =>
    intro ix d
    rw [scan, ih, lastJumpFrom]
    cases hlj : lastJumpFrom l (ix + 1) r with
    | some j => simp
    | none =>
      cases s with
      | jump l' c =>
        by_cases e : l' = l
        · subst e; simp [useStep, get_set, isJumpTo]
        · have e' : ¬ l = l' := fun x => e x.symm
          simp [useStep, get_set, isJumpTo, e, e']
      | _ => simp [useStep, isJumpTo]

theorem lastJump_none (l : Name) (ss : List Stmt) : ∀ ix, lastJumpFrom l ix ss = none ↔ ¬ JumpsTo ss l := by
  induction ss with
  | nil => intro ix; simp [lastJumpFrom, JumpsTo]
  | cons s r ih =>
    intro ix
    rw [lastJumpFrom]
    cases hlj : lastJumpFrom l (ix + 1) r with
    | some j =>
      have : JumpsTo r l := by
        by_cases h : JumpsTo r l
        · exact h
        · rw [(ih (ix + 1)).2 h] at hlj; cases hlj
      obtain ⟨c, hc⟩ := this
      simp only [reduceCtorEq, false_iff]
      exact fun h => h ⟨c, List.mem_cons_of_mem _ hc⟩
    | none =>
      have hr := (ih (ix + 1)).1 hlj
      by_cases hj : isJumpTo l s = true
      · obtain ⟨c, rfl⟩ := (isJumpTo_iff l s).1 hj
        simp only [hj, if_true, reduceCtorEq, false_iff]
        exact fun h => h ⟨c, List.mem_cons_self⟩
      · simp only [hj, Bool.false_eq_true, if_false, true_iff]
        rintro ⟨c, hc⟩
        rcases List.mem_cons.1 hc with h | h
        · exact hj ((isJumpTo_iff l s).2 ⟨c, h.symm⟩)
        · exact hr ⟨c, h⟩

/-- `lastJumpFrom l ix ss = some j` says: `j - ix` is the position of the *last* jump to `l` in `ss` -/
theorem lastJump_spec (l : Name) (ss : List Stmt) : ∀ (ix j : Nat), lastJumpFrom l ix ss = some j ↔
    ∃ k : Nat, j = ix + k ∧ (∃ c, ss[k]? = some (.jump l c)) ∧
      ∀ k' : Nat, k < k' → ∀ c, ss[k']? ≠ some (.jump l c) := by
  induction ss with
  | nil => intro ix j; simp [lastJumpFrom]
  | cons s r ih =>
    intro ix j
    rw [lastJumpFrom]
    cases hlj : lastJumpFrom l (ix + 1) r with
    | some j' =>
      obtain ⟨k₀, rfl, ⟨c₀, hc₀⟩, hlast⟩ := (ih (ix + 1) j').1 hlj
      simp only [Option.some.injEq]
      constructor
      · rintro rfl
        refine ⟨k₀ + 1, by omega, ⟨c₀, by simpa using hc₀⟩, fun k' hk' c => ?_⟩
        cases k' with
        | zero => omega
        | succ k' => simpa using hlast k' (by omega) c
      · rintro ⟨k, rfl, ⟨c, hc⟩, hl⟩
        cases k with
        | zero => exact absurd (by simpa using hc₀) (hl (k₀ + 1) (by omega) c₀)
        | succ k =>
          have : lastJumpFrom l (ix + 1) r = some (ix + 1 + k) :=
            (ih (ix + 1) _).2 ⟨k, rfl, ⟨c, by simpa using hc⟩, fun k' hk' c' => by
              simpa using hl (k' + 1) (by omega) c'⟩
          rw [hlj] at this
          simp only [Option.some.injEq] at this
          omega
    | none =>
      have hnj : ¬ JumpsTo r l := (lastJump_none l r (ix + 1)).1 hlj
      have hr : ∀ (k : Nat) c, r[k]? ≠ some (.jump l c) := fun k c h => hnj ⟨c, List.mem_of_getElem? h⟩
      by_cases hj : isJumpTo l s = true
      · obtain ⟨c, rfl⟩ := (isJumpTo_iff l s).1 hj
        simp only [hj, if_true, Option.some.injEq]
        constructor
        · rintro rfl
          refine ⟨0, rfl, ⟨c, rfl⟩, fun k' hk' c' => ?_⟩
          cases k' with
          | zero => omega
          | succ k' => simpa using hr k' c'
        · rintro ⟨k, rfl, ⟨c', hc'⟩, _⟩
          cases k with
          | zero => rfl
          | succ k => exact absurd (by simpa using hc') (hr k c')
      · simp only [hj, Bool.false_eq_true, if_false, reduceCtorEq, false_iff]
        rintro ⟨k, _, ⟨c', hc'⟩, _⟩
        cases k with
        | zero =>
          simp only [List.getElem?_cons_zero, Option.some.injEq] at hc'
          exact hj ((isJumpTo_iff l s).2 ⟨c', hc'⟩)
        | succ k => exact absurd (by simpa using hc') (hr k c')

/-! ## `sorted(d.keys())` -/

theorem mem_sortNames (a : Name) (ns : List Name) : a ∈ sortNames ns ↔ a ∈ ns :=
  (List.mergeSort_perm ns _).mem_iff

theorem nodup_sortNames {ns : List Name} (h : ns.Nodup) : (sortNames ns).Nodup :=
  (List.mergeSort_perm ns _).nodup_iff.2 h

/-- the order of the after-loop reports: ascending code-point order of the names -/
theorem sorted_sortNames (ns : List Name) : (sortNames ns).Pairwise (fun a b => a.render ≤ b.render) := by
  have h := List.pairwise_mergeSort (le := fun a b : Name => decide (a.render ≤ b.render))
    (fun a b c hab hbc => by
      simp only [decide_eq_true_eq] at hab hbc ⊢
      exact String.le_trans hab hbc)
    (fun a b => by
      simp only [Bool.or_eq_true, decide_eq_true_eq]
      exact String.le_total _ _) ns
  exact h.imp (fun hab => by simpa using hab)

theorem filterMap_ite {α β : Type} (c : α → Bool) (g : α → β) (l : List α) :
    l.filterMap (fun x => if c x = true then none else some (g x)) = (l.filter (fun x => !c x)).map g := by
  induction l with
  | nil => rfl
  | cons x xs ih => by_cases h : c x = true <;> simp [h, ih]

/-! ## The warnings of one scope -/

/-- final loop state of a linted scope: the global list, or the body of a top-level function -/
def scopeState : Scope → List Stmt → LoopState
  | .global, ss => globalLoop ss
  | .fn f, ss => fnLoop f ss

/-- the unknown-label reports lint emits for the scope `sc` whose statement list is `ss` -/
def unknownWarnings (sc : Scope) (ss : List Stmt) : List Warning :=
  unknownLabelW sc (scopeState sc ss).ldefs (scopeState sc ss).lused

/-- the unused-label reports of the scope -/
def unusedWarnings (sc : Scope) (ss : List Stmt) : List Warning :=
  unusedLabelW sc (scopeState sc ss).ldefs (scopeState sc ss).lused

/-- the warnings emitted inside the statement loop of the scope -/
def loopWarnings (sc : Scope) (ss : List Stmt) : List Warning := (scopeState sc ss).warnings

theorem scope_ldefs (sc : Scope) (ss : List Stmt) : (scopeState sc ss).ldefs = scan defStep 0 ss [] := by
  cases sc <;> simp only [scopeState, globalLoop, fnLoop, loop_ldefs]

theorem scope_lused (sc : Scope) (ss : List Stmt) : (scopeState sc ss).lused = scan useStep 0 ss [] := by
  cases sc <;> simp only [scopeState, globalLoop, fnLoop, loop_lused]

theorem scope_ldefs_mem (sc ss l) : l ∈ (scopeState sc ss).ldefs.keys ↔ DefinedIn ss l := by
  rw [scope_ldefs, defs_mem]; simp

theorem scope_lused_mem (sc ss l) : l ∈ (scopeState sc ss).lused.keys ↔ JumpsTo ss l := by
  rw [scope_lused, uses_mem]; simp

/-- `findLabel`: the interpreter's label search — index of the first `label l` statement of the list, if any -/
def findLabel (l : Name) (ss : List Stmt) : Option Nat := ss.findIdx? (isLabel l)

theorem findLabel_none (l : Name) (ss : List Stmt) : findLabel l ss = none ↔ ¬ DefinedIn ss l := by
  rw [findLabel, List.findIdx?_eq_none_iff, ← any_isLabel]
  simp

theorem findLabel_some (l : Name) (ss : List Stmt) (i : Nat) :
    findLabel l ss = some i ↔ ss[i]? = some (.label l) ∧ ∀ j, j < i → ss[j]? ≠ some (.label l) := by
  rw [findLabel, List.findIdx?_eq_some_iff_getElem]
  constructor
  · rintro ⟨hi, hp, hlt⟩
    refine ⟨?_, fun j hj hs => ?_⟩
    · rw [List.getElem?_eq_getElem hi, (isLabel_iff l _).1 hp]
    · have hj' : j < ss.length := Nat.lt_trans hj hi
      have := hlt j hj
      rw [List.getElem?_eq_getElem hj'] at hs
      simp only [Option.some.injEq] at hs
      rw [hs] at this
      simp [isLabel] at this
  · rintro ⟨hs, hlt⟩
    obtain ⟨hi, hs'⟩ := List.getElem?_eq_some_iff.1 hs
    refine ⟨hi, by rw [hs']; simp [isLabel], fun j hj => ?_⟩
    have hj' : j < ss.length := Nat.lt_trans hj hi
    have := hlt j hj
    rw [List.getElem?_eq_getElem hj'] at this
    intro hp
    exact this (by rw [(isLabel_iff l _).1 hp])

/-- **unknown_label_exact.**  For every scope `ss` (global statement list or body of a top-level function): the
unknown-label warnings are `us.map …` for a list `us` of (label, index) pairs that has no repeated label, is in ascending
order of the label names, and contains `(l, j)` exactly when `l ∈ unknownLabels ss` — some jump of the scope targets `l`
and the scope does not define `l` — with `j` the index of the last jump to `l`. -/
theorem unknown_label_exact (sc : Scope) (ss : List Stmt) :
    ∃ us : List (Name × Nat),
      unknownWarnings sc ss = us.map (fun p => Warning.unknownLabel sc p.1 p.2) ∧
      (us.map (·.1)).Nodup ∧
      (us.map (·.1)).Pairwise (fun a b => a.render ≤ b.render) ∧
      ∀ l j, (l, j) ∈ us ↔ UnknownLabel ss l ∧ lastJumpFrom l 0 ss = some j := by
  let ld := (scopeState sc ss).ldefs
  let lu := (scopeState sc ss).lused
  let ks := lu.sortedKeys.filter (fun l => !ld.has l)
  refine ⟨ks.map (fun l => (l, lu.get l)), ?_, ?_, ?_, ?_⟩
  · simp only [unknownWarnings, unknownLabelW, filterMap_ite, List.map_map]
    rfl
  · have : (ks.map (fun l => (l, lu.get l))).map (·.1) = ks := by simp [List.map_map, Function.comp_def]
    rw [this]
    refine List.Pairwise.filter _ ?_
    apply nodup_sortNames
    show (scopeState sc ss).lused.keys.Nodup
    rw [scope_lused]
    exact uses_nodup ss 0 [] List.nodup_nil
  · have : (ks.map (fun l => (l, lu.get l))).map (·.1) = ks := by simp [List.map_map, Function.comp_def]
    rw [this]
    exact (sorted_sortNames _).filter _
  · intro l j
    simp only [List.mem_map, Prod.mk.injEq, ks, List.mem_filter, Dict.sortedKeys, mem_sortNames]
    have hget : lu.get l = match lastJumpFrom l 0 ss with | some j => j | none => 0 := by
      show (scopeState sc ss).lused.get l = _
      rw [scope_lused, uses_get]; rfl
    constructor
    · rintro ⟨a, ⟨hm, hd⟩, rfl, rfl⟩
      have hj : JumpsTo ss a := (scope_lused_mem sc ss a).1 hm
      have hnd : ¬ DefinedIn ss a := by
        intro h
        have := (has_iff ld a).2 ((scope_ldefs_mem sc ss a).2 h)
        simp [this] at hd
      refine ⟨⟨hj, hnd⟩, ?_⟩
      cases h : lastJumpFrom a 0 ss with
      | none => exact absurd hj ((lastJump_none a ss 0).1 h)
      | some j => rw [hget, h]
    · rintro ⟨⟨hj, hnd⟩, hl⟩
      refine ⟨l, ⟨(scope_lused_mem sc ss l).2 hj, ?_⟩, rfl, by rw [hget, hl]⟩
      have : ld.has l = false := (has_false_iff ld l).2 (fun h => hnd ((scope_ldefs_mem sc ss l).1 h))
      simp [this]

/-- **unknown_label_iff_findLabel_none** (bridge to the machine).  The scope reports label `l` as unknown exactly when
some jump of the scope targets `l` and the interpreter's label search `findLabel l` over the same list fails — i.e. exactly
for the jumps that raise `Unknown jump label` when taken. -/
theorem unknown_label_iff_findLabel_none (sc : Scope) (ss : List Stmt) (l : Name) :
    (∃ j, Warning.unknownLabel sc l j ∈ unknownWarnings sc ss) ↔ JumpsTo ss l ∧ findLabel l ss = none := by
  obtain ⟨us, hus, -, -, hmem⟩ := unknown_label_exact sc ss
  rw [findLabel_none, hus]
  constructor
  · rintro ⟨j, hj⟩
    obtain ⟨p, hp, he⟩ := List.mem_map.1 hj
    obtain ⟨a, b⟩ := p
    simp only [Warning.unknownLabel.injEq, true_and] at he
    obtain ⟨rfl, rfl⟩ := he
    exact ((hmem a b).1 hp).1
  · rintro ⟨hj, hnd⟩
    cases h : lastJumpFrom l 0 ss with
    | none => exact absurd hj ((lastJump_none l ss 0).1 h)
    | some j => exact ⟨j, List.mem_map.2 ⟨(l, j), (hmem l j).2 ⟨⟨hj, hnd⟩, h⟩, rfl⟩⟩

/-- for one particular jump statement of the scope: its target is reported iff `findLabel` fails -/
theorem jump_reported_iff_findLabel_none (sc : Scope) (ss : List Stmt) (l : Name) (c : Option Expr)
    (h : Stmt.jump l c ∈ ss) :
    (∃ j, Warning.unknownLabel sc l j ∈ unknownWarnings sc ss) ↔ findLabel l ss = none := by
  rw [unknown_label_iff_findLabel_none]
  exact ⟨fun h => h.2, fun h' => ⟨⟨c, h⟩, h'⟩⟩

/-- **unused_label_exact.**  The unused-label warnings of a scope: one per label that the scope defines and no jump of the
scope targets, in ascending order of the names, each with the index of the label's first definition. -/
theorem unused_label_exact (sc : Scope) (ss : List Stmt) :
    ∃ us : List (Name × Nat),
      unusedWarnings sc ss = us.map (fun p => Warning.unusedLabel sc p.1 p.2) ∧
      (us.map (·.1)).Nodup ∧
      (us.map (·.1)).Pairwise (fun a b => a.render ≤ b.render) ∧
      ∀ l i, (l, i) ∈ us ↔ UnusedLabel ss l ∧ findLabel l ss = some i := by
  let ld := (scopeState sc ss).ldefs
  let lu := (scopeState sc ss).lused
  let ks := ld.sortedKeys.filter (fun l => !lu.has l)
  refine ⟨ks.map (fun l => (l, ld.get l)), ?_, ?_, ?_, ?_⟩
  · simp only [unusedWarnings, unusedLabelW, filterMap_ite, List.map_map]
    rfl
  · have : (ks.map (fun l => (l, ld.get l))).map (·.1) = ks := by simp [List.map_map, Function.comp_def]
    rw [this]
    refine List.Pairwise.filter _ ?_
    apply nodup_sortNames
    show (scopeState sc ss).ldefs.keys.Nodup
    rw [scope_ldefs]
    exact defs_nodup ss 0 [] List.nodup_nil
  · have : (ks.map (fun l => (l, ld.get l))).map (·.1) = ks := by simp [List.map_map, Function.comp_def]
    rw [this]
    exact (sorted_sortNames _).filter _
  · intro l i
    simp only [List.mem_map, Prod.mk.injEq, ks, List.mem_filter, Dict.sortedKeys, mem_sortNames]
    have hget : ld.get l = match findLabel l ss with | some i => i | none => 0 := by
      show (scopeState sc ss).ldefs.get l = _
      rw [scope_ldefs, defs_get]
      simp only [keys_nil, List.not_mem_nil, if_false, findLabel]
      cases List.findIdx? (isLabel l) ss <;> simp
    constructor
    · rintro ⟨a, ⟨hm, hu⟩, rfl, rfl⟩
      have hd : DefinedIn ss a := (scope_ldefs_mem sc ss a).1 hm
      have hnj : ¬ JumpsTo ss a := by
        intro h
        have := (has_iff lu a).2 ((scope_lused_mem sc ss a).2 h)
        simp [this] at hu
      refine ⟨⟨hd, hnj⟩, ?_⟩
      cases h : findLabel a ss with
      | none => exact absurd hd ((findLabel_none a ss).1 h)
      | some i => rw [hget, h]
    · rintro ⟨⟨hd, hnj⟩, hl⟩
      refine ⟨l, ⟨(scope_ldefs_mem sc ss l).2 hd, ?_⟩, rfl, by rw [hget, hl]⟩
      have : lu.has l = false := (has_false_iff lu l).2 (fun h => hnj ((scope_lused_mem sc ss l).1 h))
      simp [this]

/-! ## Which warnings each piece of lint can emit -/

theorem lint_decomp (ss : List Stmt) :
    lint ss = (if ss.isEmpty then [.emptyScript] else []) ++
      usedBeforeW .global [] (varScan 0 ss [] []).1 (varScan 0 ss [] []).2 ++
      loopWarnings .global ss ++ unusedWarnings .global ss ++ unknownWarnings .global ss := rfl

theorem lintFunction_decomp (ix : Nat) (f : Name) (args : List Name) (body : List Stmt) :
    lintFunction ix f args body =
      usedBeforeW (.fn f) args (varScan 0 body [] []).1 (varScan 0 body [] []).2 ++
      unusedVarW f (varScan 0 body [] []).1 (varScan 0 body [] []).2 ++
      argLoop f ix (varScan 0 body [] []).2 [] args ++
      loopWarnings (.fn f) body ++ unusedWarnings (.fn f) body ++ unknownWarnings (.fn f) body := rfl

theorem mem_usedBeforeW {w sc skip a u} (h : w ∈ usedBeforeW sc skip a u) : ∃ v i j, w = .usedBefore sc v i j := by
  simp only [usedBeforeW, List.mem_filterMap] at h
  obtain ⟨v, _, hv⟩ := h
  split at hv
  · cases hv
  · split at hv
    · exact ⟨v, _, _, (Option.some.inj hv).symm⟩
    · cases hv

theorem mem_unusedVarW {w f a u} (h : w ∈ unusedVarW f a u) : ∃ v i, w = .unusedVar f v i := by
  simp only [unusedVarW, List.mem_filterMap] at h
  obtain ⟨v, _, hv⟩ := h
  split at hv
  · cases hv
  · exact ⟨v, _, (Option.some.inj hv).symm⟩

theorem mem_argLoop_shape {w f ix u} (args : List Name) : ∀ seen, w ∈ argLoop f ix u seen args →
    (∃ a, w = .dupArg f a ix) ∨ (∃ a, w = .unusedArg f a ix) := by
  induction args with
  | nil => intro seen h; simp [argLoop] at h
  | cons a r ih =>
    intro seen h
    rw [argLoop] at h
    split at h
    · rcases List.mem_cons.1 h with h | h
      · exact Or.inl ⟨a, h⟩
      · exact ih _ h
    · rcases List.mem_append.1 h with h | h
      · split at h
        · simp at h
        · exact Or.inr ⟨a, by simpa using h⟩
      · exact ih _ h

theorem mem_unusedLabelW {w sc ld lu} (h : w ∈ unusedLabelW sc ld lu) : ∃ l i, w = .unusedLabel sc l i := by
  simp only [unusedLabelW, List.mem_filterMap] at h
  obtain ⟨v, _, hv⟩ := h
  split at hv
  · cases hv
  · exact ⟨v, _, (Option.some.inj hv).symm⟩

theorem mem_unknownLabelW {w sc ld lu} (h : w ∈ unknownLabelW sc ld lu) : ∃ l i, w = .unknownLabel sc l i := by
  simp only [unknownLabelW, List.mem_filterMap] at h
  obtain ⟨v, _, hv⟩ := h
  split at hv
  · cases hv
  · exact ⟨v, _, (Option.some.inj hv).symm⟩

/-- a warning that speaks about function `f` (its scope is `.fn f`, or it names `f` as the function) -/
def inFn (f : Name) : Warning → Prop
  | .usedBefore sc _ _ _ => sc = .fn f
  | .unusedVar g _ _ => g = f
  | .dupArg g _ _ => g = f
  | .unusedArg g _ _ => g = f
  | .pointless sc _ => sc = .fn f
  | .redefLabel sc _ _ => sc = .fn f
  | .unusedLabel sc _ _ => sc = .fn f
  | .unknownLabel sc _ _ => sc = .fn f
  | _ => False

theorem any_take {α : Type} (p : α → Bool) (l : List α) (k : Nat) :
    (l.take k).any p = true ↔ ∃ j, j < k ∧ ∃ s, l[j]? = some s ∧ p s = true := by
  simp only [List.any_eq_true, List.mem_take_iff_getElem]
  constructor
  · rintro ⟨s, ⟨j, hj, rfl⟩, hp⟩
    exact ⟨j, by omega, _, List.getElem?_eq_getElem (by omega), hp⟩
  · rintro ⟨j, hj, s, hs, hp⟩
    obtain ⟨hl, rfl⟩ := List.getElem?_eq_some_iff.1 hs
    exact ⟨_, ⟨j, by omega, rfl⟩, hp⟩

/-- inside a function body the loop emits only pointless-statement and label-redefinition warnings of that function -/
theorem mem_fn_loop {w f} {body : List Stmt} (h : w ∈ loopWarnings (.fn f) body) :
    (∃ i, w = .pointless (.fn f) i) ∨ (∃ l i, w = .redefLabel (.fn f) l i) := by
  obtain ⟨k, s, _, hw⟩ := (mem_loop_warnings body).1 h
  cases s with
  | expr nm e =>
    simp only [stmtW] at hw
    split at hw
    · exact Or.inl ⟨k, by simpa using hw⟩
    · simp at hw
  | label l =>
    simp only [stmtW] at hw
    split at hw
    · exact Or.inr ⟨l, k, by simpa using hw⟩
    · simp at hw
  | _ => simp [stmtW] at hw

theorem lintFunction_inFn {w ix f args body} (h : w ∈ lintFunction ix f args body) : inFn f w := by
  rw [lintFunction_decomp] at h
  simp only [List.mem_append] at h
  rcases h with ((((h | h) | h) | h) | h) | h
  · obtain ⟨_, _, _, rfl⟩ := mem_usedBeforeW h; rfl
  · obtain ⟨_, _, rfl⟩ := mem_unusedVarW h; rfl
  · rcases mem_argLoop_shape args [] h with ⟨_, rfl⟩ | ⟨_, rfl⟩ <;> rfl
  · rcases mem_fn_loop h with ⟨_, rfl⟩ | ⟨_, _, rfl⟩ <;> rfl
  · obtain ⟨_, _, rfl⟩ := mem_unusedLabelW h; rfl
  · obtain ⟨_, _, rfl⟩ := mem_unknownLabelW h; rfl

/-- what the global loop emits: function redefinitions, the block of each function statement, pointless global
statements, global label redefinitions -/
theorem mem_global_loop {w} {ss : List Stmt} : w ∈ loopWarnings .global ss ↔
    (∃ f i, w = .redefFunction f i ∧ RedefinedFunctionAt ss f i) ∨
    (∃ i k f a v y b, ss[i]? = some (.function k f a v y b) ∧ w ∈ lintFunction i f a b) ∨
    (∃ i e, w = .pointless .global i ∧ ss[i]? = some (.expr none e) ∧ isPointless e = true) ∨
    (∃ l i, w = .redefLabel .global l i ∧ RedefinedLabelAt ss l i) := by
  show w ∈ (scopeLoop .global lintFunction 0 ss {}).warnings ↔ _
  rw [mem_loop_warnings]
  constructor
  · rintro ⟨k, s, hk, hw⟩
    cases s with
    | function n f a v y b =>
      simp only [stmtW, List.mem_append] at hw
      rcases hw with hw | hw
      · split at hw
        · rename_i hany
          left
          refine ⟨f, k, by simpa using hw, ⟨n, a, v, y, b, hk⟩, ?_⟩
          obtain ⟨j, hj, s, hs, hp⟩ := (any_take _ _ _).1 hany
          obtain ⟨n', a', v', y', b', rfl⟩ := (isFn_iff f s).1 hp
          exact ⟨j, hj, n', a', v', y', b', hs⟩
        · simp at hw
      · exact Or.inr (Or.inl ⟨k, n, f, a, v, y, b, hk, hw⟩)
    | expr nm e =>
      simp only [stmtW] at hw
      split at hw
      · rename_i hp
        simp only [Bool.and_eq_true, Option.isNone_iff_eq_none] at hp
        obtain ⟨rfl, hp⟩ := hp
        exact Or.inr (Or.inr (Or.inl ⟨k, e, by simpa using hw, hk, hp⟩))
      · simp at hw
    | label l =>
      simp only [stmtW] at hw
      split at hw
      · rename_i hany
        obtain ⟨j, hj, s, hs, hp⟩ := (any_take _ _ _).1 hany
        rw [(isLabel_iff l s).1 hp] at hs
        exact Or.inr (Or.inr (Or.inr ⟨l, k, by simpa using hw, hk, j, hj, hs⟩))
      · simp at hw
    | jump l c => simp [stmtW] at hw
    | ret e => simp [stmtW] at hw
    | «include» incs => simp [stmtW] at hw
  · rintro (⟨f, i, rfl, ⟨n, a, v, y, b, hi⟩, j, hj, n', a', v', y', b', hj'⟩ | ⟨i, k, f, a, v, y, b, hi, hw⟩ |
      ⟨i, e, rfl, hi, hp⟩ | ⟨l, i, rfl, hi, j, hj, hj'⟩)
    · refine ⟨i, _, hi, ?_⟩
      have : (ss.take i).any (isFn f) = true :=
        (any_take _ _ _).2 ⟨j, hj, _, hj', (isFn_iff f _).2 ⟨n', a', v', y', b', rfl⟩⟩
      simp [stmtW, this]
    · exact ⟨i, _, hi, by simp [stmtW, hw]⟩
    · exact ⟨i, _, hi, by simp [stmtW, hp]⟩
    · refine ⟨i, _, hi, ?_⟩
      have : (ss.take i).any (isLabel l) = true := (any_take _ _ _).2 ⟨j, hj, _, hj', (isLabel_iff l _).2 rfl⟩
      simp [stmtW, this]

/-- what the loop of a function body emits -/
theorem mem_fn_loop_iff {w f} {body : List Stmt} : w ∈ loopWarnings (.fn f) body ↔
    (∃ i e, w = .pointless (.fn f) i ∧ body[i]? = some (.expr none e) ∧ isPointless e = true) ∨
    (∃ l i, w = .redefLabel (.fn f) l i ∧ RedefinedLabelAt body l i) := by
  show w ∈ (scopeLoop (.fn f) noFn 0 body {}).warnings ↔ _
  rw [mem_loop_warnings]
  constructor
  · rintro ⟨k, s, hk, hw⟩
    cases s with
    | expr nm e =>
      simp only [stmtW] at hw
      split at hw
      · rename_i hp
        simp only [Bool.and_eq_true, Option.isNone_iff_eq_none] at hp
        obtain ⟨rfl, hp⟩ := hp
        exact Or.inl ⟨k, e, by simpa using hw, hk, hp⟩
      · simp at hw
    | label l =>
      simp only [stmtW] at hw
      split at hw
      · rename_i hany
        obtain ⟨j, hj, s, hs, hp⟩ := (any_take _ _ _).1 hany
        rw [(isLabel_iff l s).1 hp] at hs
        exact Or.inr ⟨l, k, by simpa using hw, hk, j, hj, hs⟩
      · simp at hw
    | function n g a v y b => simp [stmtW] at hw
    | jump l c => simp [stmtW] at hw
    | ret e => simp [stmtW] at hw
    | «include» incs => simp [stmtW] at hw
  · rintro (⟨i, e, rfl, hi, hp⟩ | ⟨l, i, rfl, hi, j, hj, hj'⟩)
    · exact ⟨i, _, hi, by simp [stmtW, hp]⟩
    · refine ⟨i, _, hi, ?_⟩
      have : (body.take i).any (isLabel l) = true := (any_take _ _ _).2 ⟨j, hj, _, hj', (isLabel_iff l _).2 rfl⟩
      simp [stmtW, this]

/-! ## From the scopes to the whole output of lint -/

/-- `body` is the statement list of the linted scope `sc` of the script `ss`: the script itself for the global scope, the
body of a top-level function statement named `f` for `.fn f` (several statements may define the same name: each is a scope
of its own and lint reports on each) -/
def ScopeOf (ss : List Stmt) (sc : Scope) (body : List Stmt) : Prop :=
  (sc = .global ∧ body = ss) ∨
    ∃ (f : Name) (i k : Nat) (a : List Name) (v y : Bool), sc = .fn f ∧ ss[i]? = some (Stmt.function k f a v y body)

/-- the four kinds of warning that speak about the statements and labels of one scope -/
def labelKind (sc : Scope) : Warning → Prop
  | .pointless s _ => s = sc
  | .redefLabel s _ _ => s = sc
  | .unusedLabel s _ _ => s = sc
  | .unknownLabel s _ _ => s = sc
  | _ => False

/-- A pointless-statement / label warning of scope `sc` is in lint's output iff it is among the loop, unused-label or
unknown-label warnings of a scope of that name. -/
theorem mem_lint_scoped {w : Warning} {sc : Scope} (hk : labelKind sc w) (ss : List Stmt) :
    w ∈ lint ss ↔ ∃ body, ScopeOf ss sc body ∧
      (w ∈ loopWarnings sc body ∨ w ∈ unusedWarnings sc body ∨ w ∈ unknownWarnings sc body) := by
  rw [lint_decomp]
  simp only [List.mem_append]
  constructor
  · rintro ((((h | h) | h) | h) | h)
    · split at h
      · simp only [List.mem_singleton] at h; subst h; exact hk.elim
      · simp at h
    · obtain ⟨_, _, _, rfl⟩ := mem_usedBeforeW h; exact hk.elim
    · rcases mem_global_loop.1 h with ⟨f, i, rfl, _⟩ | ⟨i, k, f, a, v, y, b, hi, hw⟩ | ⟨i, e, rfl, _⟩ | ⟨l, i, rfl, _⟩
      · exact hk.elim
      · have hf := lintFunction_inFn hw
        have hsc : sc = .fn f := by
          cases w <;> simp only [labelKind, inFn] at hk hf <;> first | exact hk.elim | (rw [← hk, hf])
        subst hsc
        refine ⟨b, Or.inr ⟨f, i, k, a, v, y, rfl, hi⟩, ?_⟩
        rw [lintFunction_decomp] at hw
        simp only [List.mem_append] at hw
        rcases hw with ((((hw | hw) | hw) | hw) | hw) | hw
        · obtain ⟨_, _, _, rfl⟩ := mem_usedBeforeW hw; exact hk.elim
        · obtain ⟨_, _, rfl⟩ := mem_unusedVarW hw; exact hk.elim
        · rcases mem_argLoop_shape a [] hw with ⟨_, rfl⟩ | ⟨_, rfl⟩ <;> exact hk.elim
        · exact Or.inl hw
        · exact Or.inr (Or.inl hw)
        · exact Or.inr (Or.inr hw)
      · have : sc = .global := hk.symm
        subst this; exact ⟨ss, Or.inl ⟨rfl, rfl⟩, Or.inl h⟩
      · have : sc = .global := hk.symm
        subst this; exact ⟨ss, Or.inl ⟨rfl, rfl⟩, Or.inl h⟩
    · obtain ⟨_, _, rfl⟩ := mem_unusedLabelW h
      have : sc = .global := hk.symm
      subst this; exact ⟨ss, Or.inl ⟨rfl, rfl⟩, Or.inr (Or.inl h)⟩
    · obtain ⟨_, _, rfl⟩ := mem_unknownLabelW h
      have : sc = .global := hk.symm
      subst this; exact ⟨ss, Or.inl ⟨rfl, rfl⟩, Or.inr (Or.inr h)⟩
  · rintro ⟨body, (⟨rfl, rfl⟩ | ⟨f, i, k, a, v, y, rfl, hi⟩), h⟩
    · rcases h with h | h | h
      · exact Or.inl (Or.inl (Or.inr h))
      · exact Or.inl (Or.inr h)
      · exact Or.inr h
    · refine Or.inl (Or.inl (Or.inr (mem_global_loop.2 (Or.inr (Or.inl ⟨i, k, f, a, v, y, body, hi, ?_⟩)))))
      rw [lintFunction_decomp]
      simp only [List.mem_append]
      rcases h with h | h | h
      · exact Or.inl (Or.inl (Or.inr h))
      · exact Or.inl (Or.inr h)
      · exact Or.inr h

theorem mem_unknownWarnings {sc sc' : Scope} {ss : List Stmt} {l : Name} {j : Nat} :
    Warning.unknownLabel sc' l j ∈ unknownWarnings sc ss ↔
      sc' = sc ∧ UnknownLabel ss l ∧ lastJumpFrom l 0 ss = some j := by
  obtain ⟨us, hus, -, -, hmem⟩ := unknown_label_exact sc ss
  rw [hus, List.mem_map]
  constructor
  · rintro ⟨⟨a, b⟩, hp, he⟩
    simp only [Warning.unknownLabel.injEq] at he
    obtain ⟨rfl, rfl, rfl⟩ := he
    exact ⟨rfl, (hmem _ _).1 hp⟩
  · rintro ⟨rfl, h⟩
    exact ⟨(l, j), (hmem l j).2 h, rfl⟩

theorem mem_unusedWarnings {sc sc' : Scope} {ss : List Stmt} {l : Name} {i : Nat} :
    Warning.unusedLabel sc' l i ∈ unusedWarnings sc ss ↔
      sc' = sc ∧ UnusedLabel ss l ∧ findLabel l ss = some i := by
  obtain ⟨us, hus, -, -, hmem⟩ := unused_label_exact sc ss
  rw [hus, List.mem_map]
  constructor
  · rintro ⟨⟨a, b⟩, hp, he⟩
    simp only [Warning.unusedLabel.injEq] at he
    obtain ⟨rfl, rfl, rfl⟩ := he
    exact ⟨rfl, (hmem _ _).1 hp⟩
  · rintro ⟨rfl, h⟩
    exact ⟨(l, i), (hmem l i).2 h, rfl⟩

/-- the loop of a scope emits, for that scope, exactly the pointless-statement and label-redefinition warnings -/
theorem mem_loop_scoped {sc : Scope} {ss : List Stmt} {w : Warning} (hk : labelKind sc w) :
    w ∈ loopWarnings sc ss ↔
      (∃ i e, w = .pointless sc i ∧ ss[i]? = some (.expr none e) ∧ isPointless e = true) ∨
      (∃ l i, w = .redefLabel sc l i ∧ RedefinedLabelAt ss l i) := by
  cases sc with
  | fn f => exact mem_fn_loop_iff
  | global =>
    rw [mem_global_loop]
    constructor
    · rintro (⟨f, i, rfl, _⟩ | ⟨i, k, f, a, v, y, b, hi, hw⟩ | h | h)
      · exact hk.elim
      · have hf := lintFunction_inFn hw
        cases w <;> simp only [labelKind, inFn] at hk hf <;> first | exact hk.elim | (rw [hf] at hk; cases hk)
      · exact Or.inl h
      · exact Or.inr h
    · rintro (h | h)
      · exact Or.inr (Or.inr (Or.inl h))
      · exact Or.inr (Or.inr (Or.inr h))

/-- **unknown_label_mem_lint.**  `lint` reports `Unknown label l` for a scope (with index `j`) iff the script has a scope of
that name — the global list, or the body of a top-level function with that name — in which some jump targets `l`, `l` is not
defined, and `j` is the index of the last such jump. -/
theorem unknown_label_mem_lint (ss : List Stmt) (sc : Scope) (l : Name) (j : Nat) :
    Warning.unknownLabel sc l j ∈ lint ss ↔
      ∃ body, ScopeOf ss sc body ∧ UnknownLabel body l ∧ lastJumpFrom l 0 body = some j := by
  rw [mem_lint_scoped (w := .unknownLabel sc l j) (sc := sc) rfl]
  constructor
  · rintro ⟨body, hs, h | h | h⟩
    · rcases (mem_loop_scoped (w := .unknownLabel sc l j) (sc := sc) rfl).1 h with ⟨_, _, h, _⟩ | ⟨_, _, h, _⟩ <;> cases h
    · obtain ⟨_, _, h⟩ := mem_unusedLabelW h; cases h
    · exact ⟨body, hs, (mem_unknownWarnings.1 h).2⟩
  · rintro ⟨body, hs, h⟩
    exact ⟨body, hs, Or.inr (Or.inr (mem_unknownWarnings.2 ⟨rfl, h⟩))⟩

/-- **unused_label_mem_lint.**  `lint` reports `Unused label l` for a scope (with index `i`) iff the script has a scope of
that name which defines `l` (first at index `i`) and in which no jump targets `l`. -/
theorem unused_label_mem_lint (ss : List Stmt) (sc : Scope) (l : Name) (i : Nat) :
    Warning.unusedLabel sc l i ∈ lint ss ↔
      ∃ body, ScopeOf ss sc body ∧ UnusedLabel body l ∧ findLabel l body = some i := by
  rw [mem_lint_scoped (w := .unusedLabel sc l i) (sc := sc) rfl]
  constructor
  · rintro ⟨body, hs, h | h | h⟩
    · rcases (mem_loop_scoped (w := .unusedLabel sc l i) (sc := sc) rfl).1 h with ⟨_, _, h, _⟩ | ⟨_, _, h, _⟩ <;> cases h
    · exact ⟨body, hs, (mem_unusedWarnings.1 h).2⟩
    · obtain ⟨_, _, h⟩ := mem_unknownLabelW h; cases h
  · rintro ⟨body, hs, h⟩
    exact ⟨body, hs, Or.inr (Or.inl (mem_unusedWarnings.2 ⟨rfl, h⟩))⟩

/-- **redefinition_exact (labels).**  `lint` reports `Redefinition of label l` at index `i` of a scope iff statement `i` of
a scope of that name defines `l` and an earlier statement of the same scope already did. -/
theorem redefinition_exact_labels (ss : List Stmt) (sc : Scope) (l : Name) (i : Nat) :
    Warning.redefLabel sc l i ∈ lint ss ↔ ∃ body, ScopeOf ss sc body ∧ RedefinedLabelAt body l i := by
  rw [mem_lint_scoped (w := .redefLabel sc l i) (sc := sc) rfl]
  constructor
  · rintro ⟨body, hs, h | h | h⟩
    · rcases (mem_loop_scoped (w := .redefLabel sc l i) (sc := sc) rfl).1 h with ⟨_, _, h, _⟩ | ⟨l', i', h, hr⟩
      · cases h
      · cases h; exact ⟨body, hs, hr⟩
    · obtain ⟨_, _, h⟩ := mem_unusedLabelW h; cases h
    · obtain ⟨_, _, h⟩ := mem_unknownLabelW h; cases h
  · rintro ⟨body, hs, h⟩
    exact ⟨body, hs, Or.inl ((mem_loop_scoped (w := .redefLabel sc l i) (sc := sc) rfl).2 (Or.inr ⟨l, i, rfl, h⟩))⟩

/-- **pointless_exact.**  `lint` reports a pointless statement at index `i` of a scope iff statement `i` of a scope of that
name is an expression statement without assignment target whose expression contains no function call. -/
theorem pointless_exact (ss : List Stmt) (sc : Scope) (i : Nat) :
    Warning.pointless sc i ∈ lint ss ↔
      ∃ body, ScopeOf ss sc body ∧ ∃ e, body[i]? = some (.expr none e) ∧ isPointless e = true := by
  rw [mem_lint_scoped (w := .pointless sc i) (sc := sc) rfl]
  constructor
  · rintro ⟨body, hs, h | h | h⟩
    · rcases (mem_loop_scoped (w := .pointless sc i) (sc := sc) rfl).1 h with ⟨i', e, h, hr⟩ | ⟨_, _, h, _⟩
      · cases h; exact ⟨body, hs, e, hr⟩
      · cases h
    · obtain ⟨_, _, h⟩ := mem_unusedLabelW h; cases h
    · obtain ⟨_, _, h⟩ := mem_unknownLabelW h; cases h
  · rintro ⟨body, hs, e, h⟩
    exact ⟨body, hs, Or.inl ((mem_loop_scoped (w := .pointless sc i) (sc := sc) rfl).2 (Or.inl ⟨i, e, rfl, h⟩))⟩

/-- **redefinition_exact (functions).**  `lint` reports `Redefinition of function f` at index `i` iff statement `i` of the
script is a function statement named `f` and an earlier statement of the script already defined a function `f`. -/
theorem redefinition_exact_functions (ss : List Stmt) (f : Name) (i : Nat) :
    Warning.redefFunction f i ∈ lint ss ↔ RedefinedFunctionAt ss f i := by
  rw [lint_decomp]
  simp only [List.mem_append]
  constructor
  · rintro ((((h | h) | h) | h) | h)
    · split at h
      · simp at h
      · simp at h
    · obtain ⟨_, _, _, h⟩ := mem_usedBeforeW h; cases h
    · rcases mem_global_loop.1 h with ⟨f', i', h, hr⟩ | ⟨i', k, f', a, v, y, b, _, hw⟩ | ⟨_, _, h, _⟩ | ⟨_, _, h, _⟩
      · cases h; exact hr
      · exact (lintFunction_inFn hw).elim
      · cases h
      · cases h
    · obtain ⟨_, _, h⟩ := mem_unusedLabelW h; cases h
    · obtain ⟨_, _, h⟩ := mem_unknownLabelW h; cases h
  · intro h
    exact Or.inl (Or.inl (Or.inr (mem_global_loop.2 (Or.inl ⟨f, i, rfl, h⟩))))

theorem mem_argLoop_dup {f f' a : Name} {ix ix' : Nat} {u : Dict} (args : List Name) : ∀ seen : List Name,
    Warning.dupArg f' a ix' ∈ argLoop f ix u seen args ↔
      f' = f ∧ ix' = ix ∧ ∃ p : Nat, args[p]? = some a ∧ (a ∈ seen ∨ ∃ j : Nat, j < p ∧ args[j]? = some a) := by
  induction args with
  | nil => intro seen; simp [argLoop]
  | cons x r ih =>
    intro seen
    rw [argLoop]
    by_cases hx : seen.contains x = true
    · have hx' : x ∈ seen := by simpa using hx
      simp only [hx, if_true, List.mem_cons, Warning.dupArg.injEq, ih]
      constructor
      · rintro (⟨rfl, rfl, rfl⟩ | ⟨rfl, rfl, p, hp, h⟩)
        · exact ⟨rfl, rfl, 0, rfl, Or.inl hx'⟩
        · refine ⟨rfl, rfl, p + 1, by simpa using hp, ?_⟩
          rcases h with h | ⟨j, hj, hj'⟩
          · exact Or.inl h
          · exact Or.inr ⟨j + 1, by omega, by simpa using hj'⟩
      · rintro ⟨rfl, rfl, p, hp, h⟩
        cases p with
        | zero =>
          simp only [List.getElem?_cons_zero, Option.some.injEq] at hp
          exact Or.inl ⟨rfl, hp.symm, rfl⟩
        | succ p =>
          refine Or.inr ⟨rfl, rfl, p, by simpa using hp, ?_⟩
          rcases h with h | ⟨j, hj, hj'⟩
          · exact Or.inl h
          · cases j with
            | zero =>
              simp only [List.getElem?_cons_zero, Option.some.injEq] at hj'
              exact Or.inl (hj' ▸ hx')
            | succ j => exact Or.inr ⟨j, by omega, by simpa using hj'⟩
    · have hx' : x ∉ seen := by simpa using hx
      simp only [hx, Bool.false_eq_true, if_false, List.mem_append, ih]
      constructor
      · rintro (h | ⟨rfl, rfl, p, hp, h⟩)
        · split at h <;> simp at h
        · refine ⟨rfl, rfl, p + 1, by simpa using hp, ?_⟩
          rcases h with h | ⟨j, hj, hj'⟩
          · rcases List.mem_cons.1 h with h | h
            · exact Or.inr ⟨0, by omega, by simp [h]⟩
            · exact Or.inl h
          · exact Or.inr ⟨j + 1, by omega, by simpa using hj'⟩
      · rintro ⟨rfl, rfl, p, hp, h⟩
        right
        cases p with
        | zero =>
          simp only [List.getElem?_cons_zero, Option.some.injEq] at hp
          rcases h with h | ⟨j, hj, _⟩
          · exact absurd (hp ▸ h) hx'
          · omega
        | succ p =>
          refine ⟨rfl, rfl, p, by simpa using hp, ?_⟩
          rcases h with h | ⟨j, hj, hj'⟩
          · exact Or.inl (List.mem_cons_of_mem _ h)
          · cases j with
            | zero =>
              simp only [List.getElem?_cons_zero, Option.some.injEq] at hj'
              exact Or.inl (hj' ▸ List.mem_cons_self)
            | succ j => exact Or.inr ⟨j, by omega, by simpa using hj'⟩

/-- **redefinition_exact (arguments).**  `lint` reports `Duplicate argument a of function f` with index `i` iff statement
`i` of the script is a function statement named `f` one of whose argument positions repeats the earlier argument `a`. -/
theorem redefinition_exact_args (ss : List Stmt) (f a : Name) (i : Nat) :
    Warning.dupArg f a i ∈ lint ss ↔
      ∃ k args v y body, ss[i]? = some (Stmt.function k f args v y body) ∧ ∃ p, DuplicateArgAt args a p := by
  rw [lint_decomp]
  simp only [List.mem_append]
  constructor
  · rintro ((((h | h) | h) | h) | h)
    · split at h
      · simp at h
      · simp at h
    · obtain ⟨_, _, _, h⟩ := mem_usedBeforeW h; cases h
    · rcases mem_global_loop.1 h with ⟨_, _, h, _⟩ | ⟨i', k, f', args, v, y, b, hi, hw⟩ | ⟨_, _, h, _⟩ | ⟨_, _, h, _⟩
      · cases h
      · rw [lintFunction_decomp] at hw
        simp only [List.mem_append] at hw
        rcases hw with ((((hw | hw) | hw) | hw) | hw) | hw
        · obtain ⟨_, _, _, h⟩ := mem_usedBeforeW hw; cases h
        · obtain ⟨_, _, h⟩ := mem_unusedVarW hw; cases h
        · obtain ⟨rfl, rfl, p, hp, h⟩ := (mem_argLoop_dup args []).1 hw
          refine ⟨k, args, v, y, b, hi, p, hp, ?_⟩
          rcases h with h | h
          · simp at h
          · exact h
        · rcases mem_fn_loop hw with ⟨_, h⟩ | ⟨_, _, h⟩ <;> cases h
        · obtain ⟨_, _, h⟩ := mem_unusedLabelW hw; cases h
        · obtain ⟨_, _, h⟩ := mem_unknownLabelW hw; cases h
      · cases h
      · cases h
    · obtain ⟨_, _, h⟩ := mem_unusedLabelW h; cases h
    · obtain ⟨_, _, h⟩ := mem_unknownLabelW h; cases h
  · rintro ⟨k, args, v, y, body, hi, p, hp, hj⟩
    refine Or.inl (Or.inl (Or.inr (mem_global_loop.2 (Or.inr (Or.inl ⟨i, k, f, args, v, y, body, hi, ?_⟩)))))
    rw [lintFunction_decomp]
    simp only [List.mem_append]
    exact Or.inl (Or.inl (Or.inl (Or.inr ((mem_argLoop_dup args []).2 ⟨rfl, rfl, p, hp, Or.inr hj⟩))))

/-- two positions of a list satisfy `p` iff `p` holds at least twice -/
theorem twice_iff_countP {α : Type} (p : α → Bool) (l : List α) :
    (∃ i j : Nat, j < i ∧ (∃ s, l[i]? = some s ∧ p s = true) ∧ (∃ s, l[j]? = some s ∧ p s = true)) ↔ 2 ≤ l.countP p := by
  induction l with
  | nil => simp
  | cons x r ih =>
    rw [List.countP_cons]
    constructor
    · rintro ⟨i, j, hji, ⟨s, hs, hps⟩, ⟨t, ht, hpt⟩⟩
      cases i with
      | zero => omega
      | succ i =>
        simp only [List.getElem?_cons_succ] at hs
        cases j with
        | zero =>
          simp only [List.getElem?_cons_zero, Option.some.injEq] at ht
          subst ht
          have : 0 < r.countP p := List.countP_pos_iff.2 ⟨s, List.mem_of_getElem? hs, hps⟩
          simp only [hpt, if_true]; omega
        | succ j =>
          simp only [List.getElem?_cons_succ] at ht
          have := ih.1 ⟨i, j, by omega, ⟨s, hs, hps⟩, ⟨t, ht, hpt⟩⟩
          omega
    · intro h
      by_cases hx : p x = true
      · simp only [hx, if_true] at h
        have : 0 < r.countP p := by omega
        obtain ⟨s, hs, hps⟩ := List.countP_pos_iff.1 this
        obtain ⟨m, hm⟩ := List.getElem?_of_mem hs
        exact ⟨m + 1, 0, by omega, ⟨s, by simpa using hm, hps⟩, ⟨x, rfl, hx⟩⟩
      · simp only [hx, Bool.false_eq_true, if_false, Nat.add_zero] at h
        obtain ⟨i, j, hji, ⟨s, hs, hps⟩, ⟨t, ht, hpt⟩⟩ := ih.2 h
        exact ⟨i + 1, j + 1, by omega, ⟨s, by simpa using hs, hps⟩, ⟨t, by simpa using ht, hpt⟩⟩

/-- **redefined_iff_defined_twice.**  A redefinition is reported for a name exactly when the scope / script / argument list
defines it more than once. -/
theorem redefined_iff_defined_twice :
    (∀ (ss : List Stmt) (l : Name), (∃ i, RedefinedLabelAt ss l i) ↔ 2 ≤ ss.countP (isLabel l)) ∧
    (∀ (ss : List Stmt) (f : Name), (∃ i, RedefinedFunctionAt ss f i) ↔ 2 ≤ ss.countP (isFn f)) ∧
    (∀ (args : List Name) (a : Name), (∃ p, DuplicateArgAt args a p) ↔ 2 ≤ args.countP (· == a)) := by
  refine ⟨fun ss l => ?_, fun ss f => ?_, fun args a => ?_⟩
  · rw [← twice_iff_countP]
    constructor
    · rintro ⟨i, hi, j, hj, hj'⟩
      exact ⟨i, j, hj, ⟨_, hi, (isLabel_iff l _).2 rfl⟩, ⟨_, hj', (isLabel_iff l _).2 rfl⟩⟩
    · rintro ⟨i, j, hj, ⟨s, hs, hps⟩, ⟨t, ht, hpt⟩⟩
      rw [(isLabel_iff l s).1 hps] at hs
      rw [(isLabel_iff l t).1 hpt] at ht
      exact ⟨i, hs, j, hj, ht⟩
  · rw [← twice_iff_countP]
    constructor
    · rintro ⟨i, ⟨k, a, v, y, b, hi⟩, j, hj, k', a', v', y', b', hj'⟩
      exact ⟨i, j, hj, ⟨_, hi, (isFn_iff f _).2 ⟨_, _, _, _, _, rfl⟩⟩, ⟨_, hj', (isFn_iff f _).2 ⟨_, _, _, _, _, rfl⟩⟩⟩
    · rintro ⟨i, j, hj, ⟨s, hs, hps⟩, ⟨t, ht, hpt⟩⟩
      obtain ⟨k, a, v, y, b, rfl⟩ := (isFn_iff f s).1 hps
      obtain ⟨k', a', v', y', b', rfl⟩ := (isFn_iff f t).1 hpt
      exact ⟨i, ⟨k, a, v, y, b, hs⟩, j, hj, k', a', v', y', b', ht⟩
  · rw [← twice_iff_countP]
    constructor
    · rintro ⟨i, hi, j, hj, hj'⟩
      exact ⟨i, j, hj, ⟨_, hi, by simp⟩, ⟨_, hj', by simp⟩⟩
    · rintro ⟨i, j, hj, ⟨s, hs, hps⟩, ⟨t, ht, hpt⟩⟩
      simp only [beq_iff_eq] at hps hpt
      subst hps; subst hpt
      exact ⟨i, hs, j, hj, ht⟩

theorem specW_split {sc onFn} (ss : List Stmt) : ∀ (pre : List Stmt) (ix i : Nat) (s : Stmt), ss[i]? = some s →
    ∃ A B, specW sc onFn pre ix ss = A ++ stmtW sc onFn (pre ++ ss.take i) (ix + i) s ++ B := by
  induction ss with
  | nil => intro pre ix i s h; simp at h
  | cons x r ih =>
    intro pre ix i s h
    cases i with
    | zero =>
      simp only [List.getElem?_cons_zero, Option.some.injEq] at h
      subst h
      exact ⟨[], specW sc onFn (pre ++ [x]) (ix + 1) r, by simp [specW]⟩
    | succ i =>
      simp only [List.getElem?_cons_succ] at h
      obtain ⟨A, B, hAB⟩ := ih (pre ++ [x]) (ix + 1) i s h
      refine ⟨stmtW sc onFn pre ix x ++ A, B, ?_⟩
      have e : ix + 1 + i = ix + (i + 1) := by omega
      rw [specW, hAB, e]
      simp [List.append_assoc]

/-- **lint_function_block.**  For every top-level function statement (index `i`) the output of lint contains, as one
contiguous block, the per-function report `lintFunction i f args body`, which ends with that function's own unused-label and
unknown-label warnings (`lintFunction_decomp`). -/
theorem lint_function_block (ss : List Stmt) (i k : Nat) (f : Name) (args : List Name) (v y : Bool) (body : List Stmt)
    (h : ss[i]? = some (Stmt.function k f args v y body)) :
    ∃ pre post, lint ss = pre ++ lintFunction i f args body ++ post := by
  have hl : loopWarnings .global ss = specW .global lintFunction [] 0 ss := by
    show (scopeLoop .global lintFunction 0 ss {}).warnings = _
    rw [loop_warnings .global lintFunction ss [] 0 {} (inv_init _)]; rfl
  obtain ⟨A, B, hAB⟩ := specW_split (sc := .global) (onFn := lintFunction) ss [] 0 i _ h
  rw [lint_decomp, hl, hAB]
  simp only [stmtW, Nat.zero_add, List.nil_append]
  refine ⟨(if ss.isEmpty then [Warning.emptyScript] else []) ++
      usedBeforeW .global [] (varScan 0 ss [] []).1 (varScan 0 ss [] []).2 ++ A ++
      (if (ss.take i).any (isFn f) = true then [Warning.redefFunction f i] else []),
    B ++ unusedWarnings .global ss ++ unknownWarnings .global ss, ?_⟩
  simp only [List.append_assoc]

/-- **lint_total_pure.**  In the model `lintScript` is a function `List Stmt → List String`: it is defined on every model
(no failure value exists in its type), its result is determined by the model alone (same model, same warnings), and it has
no way to modify its argument — "the model is returned unchanged" is not a statement about a pure function, so that part of
the property (and "never raises" for the Python) is carried by the purity oracle of the correspondence check. -/
theorem lint_total_pure (ss : List Stmt) :
    (∃ ws : List String, lintScript ss = ws) ∧ ∀ ss' : List Stmt, ss' = ss → lintScript ss' = lintScript ss :=
  ⟨⟨_, rfl⟩, fun _ h => by rw [h]⟩

/-! ## Non-vacuity: one model with duplicate labels, dangling jumps, duplicate functions and duplicate arguments

The same model is case `lean-example` of `harness/corpus/C18.jsonl`, where the implementation's output is compared with the
model's: `Pointless global statement (index 1)`, `Redefinition of global label "a" (index 2)`, `Unused argument "p" …`,
`Duplicate argument "p" of function "f" (index 4)`, `Redefinition of label "a" in function "f" (index 2)`,
`Unused label "a" in function "f" (index 0)`, `Unused label "u" in function "f" (index 3)`,
`Unknown label "x" in function "f" (index 1)`, `Redefinition of function "f" (index 5)`,
`Unused global label "a" (index 0)`, `Unknown global label "x" (index 6)`. -/

def exBody : List Stmt :=
  [.label (.user "a"), .jump (.user "x") none, .label (.user "a"), .label (.user "u")]

def exScript : List Stmt := [
  .label (.user "a"),
  .expr none (.variable (.user "v")),
  .label (.user "a"),
  .jump (.user "x") none,
  .function 0 (.user "f") [.user "p", .user "p"] false false exBody,
  .function 1 (.user "f") [] false false [],
  .jump (.user "x") (some (.variable (.user "c")))]

theorem exBody_scope : ScopeOf exScript (.fn (.user "f")) exBody :=
  Or.inr ⟨.user "f", 4, 0, [.user "p", .user "p"], false, false, rfl, rfl⟩

theorem exScript_scope : ScopeOf exScript .global exScript := Or.inl ⟨rfl, rfl⟩

/-- `unknownLabels` is inhabited in both scopes, and lint reports exactly these (global: the *last* jump, index 6) -/
example : UnknownLabel exScript (.user "x") := ⟨⟨none, by simp [exScript]⟩, by simp [DefinedIn, exScript]⟩
example : Warning.unknownLabel .global (.user "x") 6 ∈ lint exScript :=
  (unknown_label_mem_lint _ _ _ _).2
    ⟨_, exScript_scope, ⟨⟨none, by simp [exScript]⟩, by simp [DefinedIn, exScript]⟩, by decide⟩
example : Warning.unknownLabel (.fn (.user "f")) (.user "x") 1 ∈ lint exScript :=
  (unknown_label_mem_lint _ _ _ _).2
    ⟨_, exBody_scope, ⟨⟨none, by simp [exBody]⟩, by simp [DefinedIn, exBody]⟩, by decide⟩
/-- the label `a` is defined in both scopes, so it is *not* unknown in either: scopes do not leak -/
example : ∀ sc j, Warning.unknownLabel sc (.user "a") j ∉ lint exScript := by
  intro sc j h
  obtain ⟨body, hs, ⟨⟨c, hc⟩, hd⟩, _⟩ := (unknown_label_mem_lint _ _ _ _).1 h
  rcases hs with ⟨_, rfl⟩ | ⟨f, i, k, a, v, y, _, hi⟩
  · exact hd (by simp [DefinedIn, exScript])
  · have : i < exScript.length := (List.getElem?_eq_some_iff.1 hi).1
    have hi' : i < 7 := this
    rcases i with _ | _ | _ | _ | _ | _ | _ | i
    all_goals first
      | omega
      | (simp only [exScript, List.getElem?_cons_zero, List.getElem?_cons_succ, Option.some.injEq, reduceCtorEq] at hi)
      | skip
    · simp only [Stmt.function.injEq] at hi
      obtain ⟨-, -, -, -, -, rfl⟩ := hi
      exact hd (by simp [DefinedIn, exBody])
    · simp only [Stmt.function.injEq] at hi
      obtain ⟨-, -, -, -, -, rfl⟩ := hi
      simp at hc
/-- the bridge: the dangling jump is exactly where the interpreter's label search fails -/
example : findLabel (.user "x") exScript = none ∧ findLabel (.user "a") exBody = some 0 := by decide
example : ∃ j, Warning.unknownLabel .global (.user "x") j ∈ unknownWarnings .global exScript :=
  (jump_reported_iff_findLabel_none .global exScript (.user "x") none (by simp [exScript])).2 (by decide)
/-- unused labels, redefinitions of labels / functions / arguments, pointless statement: all inhabited -/
example : Warning.unusedLabel (.fn (.user "f")) (.user "u") 3 ∈ lint exScript :=
  (unused_label_mem_lint _ _ _ _).2
    ⟨_, exBody_scope, ⟨by simp [DefinedIn, exBody], by rintro ⟨c, hc⟩; simp [exBody] at hc⟩, by decide⟩
example : Warning.redefLabel .global (.user "a") 2 ∈ lint exScript :=
  (redefinition_exact_labels _ _ _ _).2 ⟨_, exScript_scope, rfl, 0, by omega, rfl⟩
example : Warning.redefLabel (.fn (.user "f")) (.user "a") 2 ∈ lint exScript :=
  (redefinition_exact_labels _ _ _ _).2 ⟨_, exBody_scope, rfl, 0, by omega, rfl⟩
example : Warning.redefFunction (.user "f") 5 ∈ lint exScript :=
  (redefinition_exact_functions _ _ _).2 ⟨⟨_, _, _, _, _, rfl⟩, 4, by omega, _, _, _, _, _, rfl⟩
example : Warning.redefFunction (.user "f") 4 ∉ lint exScript := by
  intro h
  obtain ⟨-, j, hj, k, a, v, y, b, hb⟩ := (redefinition_exact_functions _ _ _).1 h
  rcases j with _ | _ | _ | _ | j
  all_goals first
    | omega
    | simp [exScript] at hb
example : Warning.dupArg (.user "f") (.user "p") 4 ∈ lint exScript :=
  (redefinition_exact_args _ _ _ _).2 ⟨_, _, _, _, _, rfl, 1, rfl, 0, by omega, rfl⟩
example : Warning.pointless .global 1 ∈ lint exScript :=
  (pointless_exact _ _ _).2 ⟨_, exScript_scope, _, rfl, rfl⟩
example : (2 ≤ exScript.countP (isLabel (.user "a"))) ∧ (2 ≤ exScript.countP (isFn (.user "f"))) := by decide

end C18
