import BareProofs.C01SourceLemmas
import BareProofs.C01
import BareModel.Print

/-!
# C01 from source text: `parse_script` of the printed program is the recursive lowering

The chain T1–T4 of C01 starts from *classified* lines (`Lower.renderB B : List Line`).  This module starts from the
**text**: `PrintScript.printScript pr B` is the source text of the structured program `B` (the canonical spelling of
every line, joined by line feeds; `pr` prints expressions) and the text-level parser model `Parser.parseScript`
(`Text.scriptLines` → `Scan.classify` = the regex cascade of parser.py → `Lower.stepLine` → end-of-input checks) is
shown to return exactly `Lower.lowerProgram B`.

* **`C01.classify_printLine`** (a) — the regex cascade reads every printed line back as the line it was printed
  from; parametric in the expression parser `parse` and printer `pr` (hypotheses: `parse (pr e) = .ok e` for the
  expressions of the line, and the decidable side condition `PrintScript.LineOK`).
* **`C01.scriptLines_print`** (b) — the physical/logical line layer: the text has exactly the printed lines as
  logical lines, numbered `0 … n-1`, with no dangling continuation (no printed line is blank, a comment, or ends with a
  backslash — derived from the shape of `printLine`, see `C01.printLineL_text`).
* **`C01.parseScript_printLines`** — for *any* list of classified lines accepted by the line-at-a-time algorithm,
  `parseScript` of the printed text returns the same statements; **`C01.parseScript_printLines_error`** — and a list it
  rejects is rejected with the same error text.
* **`C01.parseScript_print`** (c) — the main theorem, for structured programs of any depth and length;
  **`C01.source_then_run`** — composed with T2 (`C01.parse_then_run` with the text parser in place of `parseLines`).

* **`C01.parseScript_printIndented` / `C01.parseScript_printPretty`** — the same with every line behind arbitrary blanks
  (indentation by nesting depth in particular), given that the expression parser skips leading blanks.

`BareProofs/C01SourceInst.lean` instantiates `pr` with the concrete expression printer `Print.printExpr`.
-/

set_option linter.unusedSimpArgs false

namespace C01
open Text Scan PrintScript Lower Parser Machine Structured

/-! ## (a) one line -/

theorem shape_printLineL (pe : Expr → Chars) (l : Line) (h : LineOK pe l = true) :
    ∃ off, Scan.shape (printLineL pe l) = expShape pe l off := by
  obtain ⟨off, hs⟩ := shapeS_printLine pe l h
  obtain ⟨⟨c, r, hcr, hsp, -⟩, -, -⟩ := printLineL_text pe l h
  refine ⟨off + 0, ?_⟩
  unfold Scan.shape
  have : lstripL (printLineL pe l) = printLineL pe l := by rw [hcr]; exact lstripL_cons_ns r hsp
  simp only [this, hs, expShape_shift, Nat.sub_self]

/-- (a) over `List Char`: the line classifier on a printed line -/
theorem classifyL_printLineL (parse : String → Except ParseErr Expr) (pe : Expr → Chars) (l : Line)
    (hok : LineOK pe l = true) (hp : ∀ e ∈ exprs l, parse (String.ofList (pe e)) = .ok e) :
    classifyL parse (printLineL pe l) = .ok l := by
  obtain ⟨off, hs⟩ := shape_printLineL pe l hok
  have hn := lineOK_names hok
  unfold classifyL
  rw [hs]
  cases l with
  | assign n e =>
    simp [expShape, hp e (by simp [PrintScript.exprs]), shiftErr, Except.map, nameOf_nameL (hn n (by simp [PrintScript.names]))]
  | funcBegin n args laa a =>
    have : args.map (fun x => nameOf (nameL x)) = args := by
      have : ∀ x ∈ args, nameOf (nameL x) = x := fun x hx => nameOf_nameL (hn x (by simp [PrintScript.names, hx]))
      rw [List.map_congr_left this]; simp
    simp [expShape, nameOf_nameL (hn n (by simp [PrintScript.names])), Function.comp_def, this]
  | funcEnd => rfl
  | ifBegin c => simp [expShape, hp c (by simp [PrintScript.exprs]), shiftErr, Except.map]
  | elif c => simp [expShape, hp c (by simp [PrintScript.exprs]), shiftErr, Except.map]
  | else_ => rfl
  | endif => rfl
  | whileBegin c => simp [expShape, hp c (by simp [PrintScript.exprs]), shiftErr, Except.map]
  | endwhile => rfl
  | forBegin v i e =>
    have hi : i.map (fun x => nameOf (nameL x)) = i := by
      cases i with
      | none => rfl
      | some x => simp [nameOf_nameL (hn x (by simp [PrintScript.names]))]
    simp [expShape, hp e (by simp [PrintScript.exprs]), shiftErr, Except.map, nameOf_nameL (hn v (by simp [PrintScript.names])),
      Function.comp_def, hi]
  | endfor => rfl
  | break_ => rfl
  | continue_ => rfl
  | label n => simp [expShape, nameOf_nameL (hn n (by simp [PrintScript.names]))]
  | jump n c =>
    cases c with
    | none => simp [expShape, nameOf_nameL (hn n (by simp [PrintScript.names]))]
    | some c =>
      simp [expShape, hp c (by simp [PrintScript.exprs]), shiftErr, Except.map, nameOf_nameL (hn n (by simp [PrintScript.names]))]
  | ret e =>
    cases e with
    | none => rfl
    | some e => simp [expShape, hp e (by simp [PrintScript.exprs]), shiftErr, Except.map]
  | «include» url sys => simp [expShape]
  | exprStmt e =>
    simp only [expShape]
    show (parse (String.ofList (pe e))).map Line.exprStmt = _
    rw [hp e (by simp [PrintScript.exprs])]; rfl

/-- **(a) `classify_printLine`**: the statement regex cascade (mirror of parser.py:69-400) classifies the canonical
spelling of a line as that line — for every line kind (assignment, function begin/end, if/elif/else/endif,
while/endwhile, for/endfor, break, continue, label, jump, jumpif, return, both include forms, call statement),
parametric in the expression parser and printer. -/
theorem classify_printLine (parse : String → Except ParseErr Expr) (pr : Expr → String) (l : Line)
    (hok : LineOK (fun e => (pr e).toList) l = true) (hp : ∀ e ∈ exprs l, parse (pr e) = .ok e) :
    Scan.classify parse (printLine pr l) = .ok l := by
  unfold Scan.classify printLine
  rw [String.toList_ofList]
  exact classifyL_printLineL parse _ l hok (fun e he => by simpa using hp e he)

/-! ## (b) the text layer -/

theorem intercalate_eq_joinNl : ∀ ls : List Chars, List.intercalate ['\n'] ls = joinNl ls
  | [] => rfl
  | [l] => by simp [List.intercalate, List.intersperse, joinNl]
  | l :: m :: ls => by
      have ih := intercalate_eq_joinNl (m :: ls)
      simp only [List.intercalate, List.intersperse, List.flatten_cons] at ih ⊢
      rw [ih]; simp [joinNl]

/-- the physical lines of `joinNl ls` are `ls` (a text without lines is one empty physical line) -/
theorem splitLinesL_joinNl : ∀ (ls : List Chars), (∀ l ∈ ls, '\n' ∉ l ∧ l.getLast? ≠ some '\r') →
    splitLinesL (joinNl ls) = if ls = [] then [[]] else ls
  | [], _ => rfl
  | [l], h => by simpa [joinNl] using C10.split_no_nl (h l (by simp)).1
  | l :: m :: ls, h => by
      have ih := splitLinesL_joinNl (m :: ls) (fun x hx => h x (List.mem_cons_of_mem _ hx))
      have hl := h l (by simp)
      simp only [joinNl, reduceCtorEq, if_false] at ih ⊢
      rw [C10.split_append_lf _ _ hl.2, C10.split_no_nl hl.1, ih]; rfl

theorem isCommentL_headGood {t : Chars} (h : HeadGood t) : isCommentL t = false := by
  obtain ⟨c, r, rfl, hs, hc⟩ := h
  simp [isCommentL, lstripL_cons_ns r hs, hc]

theorem contBody?_lastGood {t : Chars} (h : LastGood t) : contBody? t = none := by
  obtain ⟨d, hl, hs, hd⟩ := h
  obtain ⟨t0, rfl⟩ := List.getLast?_eq_some_iff.mp hl
  unfold contBody?
  rw [reverse_dropWhile_snoc_ns t0 hs]
  split
  · rename_i r he; simp only [List.cons.injEq] at he; exact absurd he.1 hd
  · rfl

theorem lastGood_not_cr {t : Chars} (h : LastGood t) : t.getLast? ≠ some '\r' := by
  obtain ⟨d, hl, hs, -⟩ := h
  rw [hl]; intro e; simp only [Option.some.injEq] at e; subst e; exact absurd hs (by decide)

/-- (b) over `List Char` -/
theorem logicalLinesL_joinNl (ls : List Chars) (h : ∀ l ∈ ls, HeadGood l ∧ LastGood l ∧ '\n' ∉ l) :
    logicalLinesL (splitLinesL (joinNl ls)) = (C06.numbered 0 ls, none) := by
  rw [splitLinesL_joinNl ls (fun l hl => ⟨(h l hl).2.2, lastGood_not_cr (h l hl).2.1⟩)]
  by_cases he : ls = []
  · subst he; rfl
  · rw [if_neg he]
    exact C06.loopL_plain ls 0 0 (fun c hc => ⟨isCommentL_headGood (h c hc).1, contBody?_lastGood (h c hc).2.1⟩)

theorem printLines_toList (pr : Expr → String) (ls : List Line) :
    (printLines pr ls).toList = joinNl (ls.map (printLineL fun e => (pr e).toList)) := by
  unfold printLines
  rw [String.toList_intercalate, List.map_map]
  have : (String.toList ∘ printLine pr) = printLineL fun e => (pr e).toList := by
    funext l; simp [printLine]
  rw [this]
  exact intercalate_eq_joinNl _

/-- **(b) `scriptLines_print`**: the logical lines of the printed text are exactly the printed lines, with the indices
`0 … n-1`, and there is no dangling continuation.  (No hypothesis about blank lines, comments or backslashes: a printed
line starts with a non-blank other than `#` and ends with a non-blank other than `\` by construction, given `LineOK`.) -/
theorem scriptLines_print (pr : Expr → String) (ls : List Line)
    (hok : ∀ l ∈ ls, LineOK (fun e => (pr e).toList) l = true) :
    Text.scriptLines [printLines pr ls] = (C06.numbered 0 (ls.map (printLine pr)), none) := by
  rw [C10.scriptLines_eq]
  have h0 : splitChunksL ([printLines pr ls].map String.toList) =
      splitLinesL (joinNl (ls.map (printLineL fun e => (pr e).toList))) := by
    simp [splitChunksL, printLines_toList]
  have h1 := logicalLinesL_joinNl (ls.map (printLineL fun e => (pr e).toList)) (by
    intro t ht
    obtain ⟨l, hl, rfl⟩ := List.mem_map.mp ht
    exact printLineL_text _ l (hok l hl))
  simp only [h0, h1, Option.map_none]
  rw [C06.numbered_map, List.map_map]
  rfl

/-! ## (c) the statement loop -/

/-- whether an `elif` line is accepted does not depend on its expression (the parser tests the block structure before
it parses the expression) -/
theorem elif_ok_indep {ps ps' : PState} {c : Expr} (d : Expr) (h : stepLine ps (.elif c) = .ok ps') :
    ∃ ps'', stepLine ps (.elif d) = .ok ps'' := by
  have h1 := C06.stepLine_abs ps (.elif c)
  have h2 := C06.stepLine_abs ps (.elif d)
  have h3 : C06.astep (C06.abs ps) (.elif c) = C06.astep (C06.abs ps) (.elif d) := rfl
  rw [h, h3, ← h2] at h1
  cases hd : stepLine ps (.elif d) with
  | ok x => exact ⟨x, rfl⟩
  | error e => rw [hd] at h1; cases h1

theorem classify_elif_shape {pexp : String → Except ParseErr Expr} {line : String} {cl : Line} {off : Nat} {e : Chars}
    (h : Scan.classify pexp line = .ok cl) (hs : Scan.shape line.toList = .elif off e) : ∃ c, cl = .elif c := by
  unfold Scan.classify classifyL at h
  simp only [hs] at h
  cases hp : pexp (String.ofList e) with
  | error x => rw [hp] at h; simp [shiftErr, Except.map] at h
  | ok x => rw [hp] at h; simp only [shiftErr, Except.map, Except.ok.injEq] at h; exact ⟨x, h.symm⟩

/-- one logical line that classifies as `cl`, accepted by the lowering step -/
theorem stepLogical_of_classify {start : Nat} {s : St} {ix : Nat} {line : String} {cl : Line} {ps' : PState}
    (hc : Scan.classify ExprParse.parseExpr line = .ok cl) (hs : stepLine s.1 cl = .ok ps') :
    ∃ wh', stepLogical start s ix line = .ok (ps', wh') := by
  rw [C06.stepLogical_eq]
  have hpre : C06.preCheck s line (start + ix) = .ok () := by
    unfold C06.preCheck
    split
    · rename_i off e hsh
      -- the line is an `elif`: `cl = .elif _`
      have : ∃ c, cl = .elif c := classify_elif_shape hc hsh
      obtain ⟨c, rfl⟩ := this
      obtain ⟨ps'', h2⟩ := elif_ok_indep dummyExpr hs
      rw [h2]
    · rfl
  rw [hpre, hc]
  simp only [hs]
  exact ⟨_, rfl⟩

/-- one logical line that classifies as `cl`, rejected by the lowering step: the parser reports that error text -/
theorem stepLogical_of_classify_error {start : Nat} {s : St} {ix : Nat} {line : String} {cl : Line} {e : LowerErr}
    (hc : Scan.classify ExprParse.parseExpr line = .ok cl) (hs : stepLine s.1 cl = .error e) :
    ∃ pe, stepLogical start s ix line = .error pe ∧ pe.error = e.text := by
  rw [C06.stepLogical_eq]
  have hstr : ∀ e' : LowerErr, (C06.structural s.2 line (start + ix) e').error = e'.text := by
    intro e'; unfold C06.structural; split <;> (try split) <;> rfl
  cases hpre : C06.preCheck s line (start + ix) with
  | ok u =>
    cases u
    simp only [hc, hs]
    exact ⟨_, rfl, hstr e⟩
  | error pe =>
    refine ⟨pe, rfl, ?_⟩
    unfold C06.preCheck at hpre
    split at hpre
    · rename_i off x hsh
      have : ∃ c, cl = .elif c := classify_elif_shape hc hsh
      obtain ⟨c, rfl⟩ := this
      -- the pre-check runs the same step with a dummy expression: same error
      have h1 := C06.stepLine_abs s.1 (.elif c)
      have h2 := C06.stepLine_abs s.1 (.elif dummyExpr)
      have h3 : C06.astep (C06.abs s.1) (.elif c) = C06.astep (C06.abs s.1) (.elif dummyExpr) := rfl
      rw [hs, h3, ← h2] at h1
      cases hd : stepLine s.1 (.elif dummyExpr) with
      | ok y => rw [hd] at h1; cases h1
      | error e' =>
        rw [hd] at h1 hpre
        simp only [Except.map, Except.error.injEq] at h1
        simp only [Except.error.injEq] at hpre
        rw [← hpre, hstr, ← h1]
    · cases hpre

/-- the statement loop on printed lines follows the line-at-a-time algorithm on the classified lines -/
theorem stepAll_lines (start : Nat) (f : Line → String) : ∀ (ls : List Line) (i : Nat) (s : St) (ps' : PState),
    (∀ l ∈ ls, Scan.classify ExprParse.parseExpr (f l) = .ok l) → parseLinesFrom s.1 ls = .ok ps' →
    ∃ wh', stepAll start s (C06.numbered i (ls.map f)) = .ok (ps', wh')
  | [], _, s, ps', _, h => by
      simp only [parseLinesFrom, Except.ok.injEq] at h
      exact ⟨s.2, by simp [C06.numbered, stepAll, ← h]⟩
  | l :: ls, i, s, ps', hc, h => by
      simp only [parseLinesFrom] at h
      cases hs : stepLine s.1 l with
      | error e => rw [hs] at h; cases h
      | ok ps1 =>
        rw [hs] at h
        obtain ⟨wh1, h1⟩ := stepLogical_of_classify (start := start) (ix := i) (hc l (by simp)) hs
        obtain ⟨wh', h2⟩ := stepAll_lines start f ls (i + 1) (ps1, wh1) ps' (fun x hx => hc x (List.mem_cons_of_mem _ hx)) h
        exact ⟨wh', by simp only [List.map_cons, C06.numbered, stepAll, h1, h2]⟩

theorem stepAll_lines_error (start : Nat) (f : Line → String) : ∀ (ls : List Line) (i : Nat) (s : St) (e : LowerErr),
    (∀ l ∈ ls, Scan.classify ExprParse.parseExpr (f l) = .ok l) → parseLinesFrom s.1 ls = .error e →
    ∃ pe, stepAll start s (C06.numbered i (ls.map f)) = .error pe ∧ pe.error = e.text
  | [], _, s, e, _, h => by simp [parseLinesFrom] at h
  | l :: ls, i, s, e, hc, h => by
      simp only [parseLinesFrom] at h
      cases hs : stepLine s.1 l with
      | error e' =>
        rw [hs] at h
        simp only [Except.error.injEq] at h; subst h
        obtain ⟨pe, h1, h2⟩ := stepLogical_of_classify_error (start := start) (ix := i) (hc l (by simp)) hs
        exact ⟨pe, by simp only [List.map_cons, C06.numbered, stepAll, h1], h2⟩
      | ok ps1 =>
        rw [hs] at h
        obtain ⟨wh1, h1⟩ := stepLogical_of_classify (start := start) (ix := i) (hc l (by simp)) hs
        obtain ⟨pe, h2, h3⟩ := stepAll_lines_error start f ls (i + 1) (ps1, wh1) e (fun x hx => hc x (List.mem_cons_of_mem _ hx)) h
        exact ⟨pe, by simp only [List.map_cons, C06.numbered, stepAll, h1, h2], h3⟩

/-! ## (c) the theorems -/

/-- the hypotheses about the expression printer, for a list of lines: the decidable side condition of every line and
the round trip of every expression through the expression parser -/
structure LinesPrintable (pr : Expr → String) (ls : List Line) : Prop where
  ok : ∀ l ∈ ls, LineOK (fun e => (pr e).toList) l = true
  roundTrip : ∀ l ∈ ls, ∀ e ∈ exprs l, ExprParse.parseExpr (pr e) = .ok e

theorem LinesPrintable.classify {pr : Expr → String} {ls : List Line} (h : LinesPrintable pr ls) :
    ∀ l ∈ ls, Scan.classify ExprParse.parseExpr (printLine pr l) = .ok l :=
  fun l hl => classify_printLine _ pr l (h.ok l hl) (h.roundTrip l hl)

/-- **any accepted list of classified lines**: the text-level parser on the printed text returns what the
line-at-a-time algorithm returns on the classified lines (any start line number). -/
theorem parseScript_printLines (pr : Expr → String) (ls : List Line) (h : LinesPrintable pr ls) {P : List Stmt}
    (hP : parseLines ls = .ok P) (start : Nat := 1) : parseScript [printLines pr ls] start = .ok P := by
  unfold parseLines at hP
  cases hs : parseLinesFrom PState.init ls with
  | error e => rw [hs] at hP; cases hP
  | ok ps' =>
    rw [hs] at hP
    change finish ps' = .ok P at hP
    obtain ⟨wh', h1⟩ := stepAll_lines start (printLine pr) ls 0 (PState.init, {}) ps' h.classify hs
    unfold parseScript
    simp only [scriptLines_print pr ls h.ok, h1]
    -- end of input: no dangling continuation, `finish` accepted the state
    unfold finish at hP
    unfold finishAll
    cases hd : ps'.defs with
    | cons d ds => rw [hd] at hP; cases hP
    | nil =>
      rw [hd] at hP
      cases hf : ps'.func with
      | some f => rw [hf] at hP; cases hP
      | none =>
        rw [hf] at hP
        simp only [hd, hf]
        simpa using hP

/-- **any rejected list of classified lines** is rejected by the text-level parser with the same error text -/
theorem parseScript_printLines_error (pr : Expr → String) (ls : List Line) (h : LinesPrintable pr ls) {e : LowerErr}
    (hE : parseLines ls = .error e) (start : Nat := 1) :
    ∃ pe, parseScript [printLines pr ls] start = .error pe ∧ pe.error = e.text := by
  unfold parseLines at hE
  cases hs : parseLinesFrom PState.init ls with
  | error e' =>
    rw [hs] at hE
    simp only [Except.error.injEq] at hE; subst hE
    obtain ⟨pe, h1, h2⟩ := stepAll_lines_error start (printLine pr) ls 0 (PState.init, {}) e' h.classify hs
    exact ⟨pe, by unfold parseScript; simp only [scriptLines_print pr ls h.ok, h1], h2⟩
  | ok ps' =>
    rw [hs] at hE
    change finish ps' = .error e at hE
    obtain ⟨wh', h1⟩ := stepAll_lines start (printLine pr) ls 0 (PState.init, {}) ps' h.classify hs
    have hsync : C06.Sync (ps', wh') := C06.stepAll_sync start _ _ _ C06.sync_init h1
    unfold parseScript
    simp only [scriptLines_print pr ls h.ok, h1]
    unfold finish at hE
    unfold finishAll
    cases hd : ps'.defs with
    | cons d ds =>
      rw [hd] at hE
      simp only [Except.error.injEq] at hE; subst hE
      have hl := hsync.len
      simp only [hd, List.length_cons] at hl
      cases hwd : wh'.defs with
      | nil => rw [hwd] at hl; simp at hl
      | cons x xs => obtain ⟨dl, dn⟩ := x; simp only [hd, hwd]; exact ⟨_, rfl, rfl⟩
    | nil =>
      rw [hd] at hE
      cases hf : ps'.func with
      | none => rw [hf] at hE; cases hE
      | some f =>
        rw [hf] at hE
        simp only [Except.error.injEq] at hE; subst hE
        have hfs := hsync.fsome
        simp only [hf, Option.isSome_some] at hfs
        cases hwf : wh'.func with
        | none => rw [hwf] at hfs; cases hfs
        | some x => obtain ⟨fl, fn⟩ := x; simp only [hd, hf, hwf]; exact ⟨_, rfl, rfl⟩

/-- the hypotheses about the expression printer, for a structured program -/
def ProgRoundTrips (pr : Expr → String) (B : List SStmt) : Prop :=
  ∀ l ∈ renderB B, ∀ e ∈ exprs l, ExprParse.parseExpr (pr e) = .ok e

theorem linesPrintable_of_prog {pr : Expr → String} {B : List SStmt} (hp : ProgPrintable pr B = true)
    (hr : ProgRoundTrips pr B) : LinesPrintable pr (renderB B) :=
  ⟨by simpa [ProgPrintable, List.all_eq_true] using hp, hr⟩

/-- **(c) `parseScript_print` — C01 from source text.**  For every structured program `B` (any nesting depth, any
length) that is well nested, has its function definitions numbered in source order and no adjacent include nodes (as in
`C01.parseLines_render`), and whose lines are printable: the text-level parser model — physical lines, comments and
continuations, the regex cascade, expression parsing, the stack algorithm, the end-of-input checks — applied to the
source text `printScript pr B` returns exactly the recursive lowering of `B`. -/
theorem parseScript_print (pr : Expr → String) (B : List SStmt) (hw : WellNested B) (hf : FidsInOrder B)
    (hi : NoAdjacentIncludes B) (hp : ProgPrintable pr B = true) (hr : ProgRoundTrips pr B) (start : Nat := 1) :
    parseScript [printScript pr B] start = .ok (lowerProgram B) :=
  parseScript_printLines pr (renderB B) (linesPrintable_of_prog hp hr) (parseLines_render B hw hf hi) start

/-- … and an ill-nested program is rejected, from its text -/
theorem parseScript_print_rejects (pr : Expr → String) (B : List SStmt) (hw : ¬ WellNested B)
    (hp : ProgPrintable pr B = true) (hr : ProgRoundTrips pr B) (start : Nat := 1) :
    ∃ pe, parseScript [printScript pr B] start = .error pe := by
  obtain ⟨e, he⟩ := parse_rejects_ill_nested B hw
  obtain ⟨pe, h1, -⟩ := parseScript_printLines_error pr (renderB B) (linesPrintable_of_prog hp hr) he start
  exact ⟨pe, h1⟩

variable {W : Type} (cfg : Config W) (base : Option String)

/-- **`source_then_run` — C01 (machine level) from source text**: parsing the *text* of a structured program succeeds,
and executing the parsed model from a fresh counter equals the (ticked) structured run of the source
(`C01.parse_then_run` with `Parser.parseScript [printScript pr B]` in place of `parseLines (renderB B)`). -/
theorem source_then_run (pr : Expr → String) (B : List SStmt) (hw : WellNested B) (hf : FidsInOrder B)
    (hi : NoAdjacentIncludes B) (hr : NoRawB B) (hp : ProgPrintable pr B = true) (hrt : ProgRoundTrips pr B)
    (fuel : Nat) (st : State W) :
    ∃ P, parseScript [printScript pr B] = .ok P ∧
      execute₀ cfg fuel P base st =
        toRes (execTB cfg (callValue₀ cfg) (execIncludes₀ cfg) false B 0 fuel none base { st with count := 0 }) :=
  ⟨lowerProgram B, parseScript_print pr B hw hf hi hp hrt, execute₀_lowered cfg base B hr fuel st⟩

/-! ## indentation -/

/-- an indentation: blanks, no line feed -/
def IndentOK (ws : Chars) : Prop := allSpace ws = true ∧ '\n' ∉ ws

/-- the text of classified lines, each behind its own indentation -/
def printIndented (pr : Expr → String) (items : List (String × Line)) : String :=
  "\n".intercalate (items.map fun p => p.1 ++ printLine pr p.2)

theorem isCommentL_indent {ws t : Chars} (hw : allSpace ws = true) (h : HeadGood t) : isCommentL (ws ++ t) = false := by
  obtain ⟨c, r, rfl, hs, hc⟩ := h
  simp [isCommentL, C10.lstrip_append_ws _ hw, lstripL_cons_ns r hs, hc]

/-- the statement loop, for any texts that classify as the given lines -/
theorem stepAll_pairs (start : Nat) : ∀ (tl : List (String × Line)) (i : Nat) (s : St) (ps' : PState),
    (∀ p ∈ tl, Scan.classify ExprParse.parseExpr p.1 = .ok p.2) → parseLinesFrom s.1 (tl.map Prod.snd) = .ok ps' →
    ∃ wh', stepAll start s (C06.numbered i (tl.map Prod.fst)) = .ok (ps', wh')
  | [], _, s, ps', _, h => by
      simp only [List.map_nil, parseLinesFrom, Except.ok.injEq] at h
      exact ⟨s.2, by simp [C06.numbered, stepAll, ← h]⟩
  | (t, l) :: tl, i, s, ps', hc, h => by
      simp only [List.map_cons, parseLinesFrom] at h
      cases hs : stepLine s.1 l with
      | error e => rw [hs] at h; cases h
      | ok ps1 =>
        rw [hs] at h
        obtain ⟨wh1, h1⟩ := stepLogical_of_classify (start := start) (ix := i) (hc (t, l) (by simp)) hs
        obtain ⟨wh', h2⟩ := stepAll_pairs start tl (i + 1) (ps1, wh1) ps' (fun x hx => hc x (List.mem_cons_of_mem _ hx)) h
        exact ⟨wh', by simp only [List.map_cons, C06.numbered, stepAll, h1, h2]⟩

/-- the end-of-input checks after an accepted run -/
theorem finishAll_of_finish {start : Nat} {ps' : PState} {wh' : Where} {P : List Stmt} (h : finish ps' = .ok P) :
    finishAll start (ps', wh') none = .ok P := by
  unfold finish at h
  unfold finishAll
  cases hd : ps'.defs with
  | cons d ds => rw [hd] at h; cases h
  | nil =>
    rw [hd] at h
    cases hf : ps'.func with
    | some f => rw [hf] at h; cases h
    | none => rw [hf] at h; simp only [hd, hf]; simpa using h

/-- **indentation does not matter**: every line of the printed text may stand behind any blanks (other than a line
feed); the parser returns the same model.  `SkipsLeadingBlanks ExprParse.parseExpr` (the expression parser skips blanks
in front of an expression *statement*; all other statement kinds strip the indentation themselves) is
`C10.parseExpr_skips_leading_blanks`. -/
theorem parseScript_printIndented (hsk : C10.SkipsLeadingBlanks ExprParse.parseExpr) (pr : Expr → String)
    (items : List (String × Line)) (hind : ∀ p ∈ items, IndentOK p.1.toList)
    (h : LinesPrintable pr (items.map Prod.snd)) {P : List Stmt} (hP : parseLines (items.map Prod.snd) = .ok P)
    (start : Nat := 1) : parseScript [printIndented pr items] start = .ok P := by
  -- the texts
  let texts : List Chars := items.map fun p => p.1.toList ++ printLineL (fun e => (pr e).toList) p.2
  have htoList : (printIndented pr items).toList = joinNl texts := by
    unfold printIndented
    rw [String.toList_intercalate, List.map_map]
    have : (String.toList ∘ fun p : String × Line => p.1 ++ printLine pr p.2) =
        fun p => p.1.toList ++ printLineL (fun e => (pr e).toList) p.2 := by
      funext p; simp [printLine]
    rw [this]
    exact intercalate_eq_joinNl _
  have hok := h.ok
  have htext : ∀ t ∈ texts, isCommentL t = false ∧ contBody? t = none ∧ '\n' ∉ t ∧ t.getLast? ≠ some '\r' := by
    intro t ht
    obtain ⟨p, hp, rfl⟩ := List.mem_map.mp ht
    obtain ⟨h1, h2, h3⟩ := printLineL_text _ p.2 (hok p.2 (List.mem_map.mpr ⟨p, hp, rfl⟩))
    obtain ⟨hw, hnl⟩ := hind p hp
    exact ⟨isCommentL_indent hw h1, contBody?_lastGood (LastGood.append _ h2), noNl_append hnl h3,
      lastGood_not_cr (LastGood.append _ h2)⟩
  have hsl : Text.scriptLines [printIndented pr items] = (C06.numbered 0 (texts.map String.ofList), none) := by
    rw [C10.scriptLines_eq]
    have h0 : splitChunksL ([printIndented pr items].map String.toList) = splitLinesL (joinNl texts) := by
      simp [splitChunksL, htoList]
    have h1 : logicalLinesL (splitLinesL (joinNl texts)) = (C06.numbered 0 texts, none) := by
      rw [splitLinesL_joinNl texts (fun l hl => ⟨(htext l hl).2.2.1, (htext l hl).2.2.2⟩)]
      by_cases he : texts = []
      · rw [he]; rfl
      · rw [if_neg he]
        exact C06.loopL_plain texts 0 0 (fun c hc => ⟨(htext c hc).1, (htext c hc).2.1⟩)
    simp only [h0, h1, Option.map_none]
    rw [C06.numbered_map]
  -- every indented line classifies as its line
  have hcl : ∀ p ∈ items.map (fun p : String × Line => (p.1 ++ printLine pr p.2, p.2)),
      Scan.classify ExprParse.parseExpr p.1 = .ok p.2 := by
    intro q hq
    obtain ⟨p, hp, rfl⟩ := List.mem_map.mp hq
    have hc0 := h.classify p.2 (List.mem_map.mpr ⟨p, hp, rfl⟩)
    unfold Scan.classify at hc0 ⊢
    have := C10.classifyL_leading_ws ExprParse.parseExpr hsk (printLine pr p.2).toList (hind p hp).1
    simp only [String.toList_append]
    rw [hc0] at this
    cases hr : classifyL ExprParse.parseExpr (p.1.toList ++ (printLine pr p.2).toList) with
    | ok x => rw [hr] at this; simp only [C10.EqUpToColumn] at this; rw [this]
    | error x => rw [hr] at this; simp [C10.EqUpToColumn] at this
  unfold parseLines at hP
  cases hs : parseLinesFrom PState.init (items.map Prod.snd) with
  | error e => rw [hs] at hP; cases hP
  | ok ps' =>
    rw [hs] at hP
    change finish ps' = .ok P at hP
    have hs' : parseLinesFrom PState.init ((items.map (fun p : String × Line => (p.1 ++ printLine pr p.2, p.2))).map Prod.snd) = .ok ps' := by
      simpa [List.map_map, Function.comp_def] using hs
    obtain ⟨wh', h1⟩ := stepAll_pairs start _ 0 (PState.init, {}) ps' hcl hs'
    have htx : (items.map (fun p : String × Line => (p.1 ++ printLine pr p.2, p.2))).map Prod.fst = texts.map String.ofList := by
      simp [texts, List.map_map, Function.comp_def, printLine]
    rw [htx] at h1
    unfold parseScript
    simp only [hsl, h1]
    exact finishAll_of_finish hP

/-- indentation by nesting depth: `n` blanks per level -/
def depthOf : List Line → Nat → List (Nat × Line)
  | [], _ => []
  | l :: ls, d =>
    match l with
    | .funcBegin .. | .ifBegin _ | .whileBegin _ | .forBegin .. => (d, l) :: depthOf ls (d + 1)
    | .funcEnd | .endif | .endwhile | .endfor => (d - 1, l) :: depthOf ls (d - 1)
    | .elif _ | .else_ => (d - 1, l) :: depthOf ls d
    | _ => (d, l) :: depthOf ls d

theorem depthOf_snd : ∀ (ls : List Line) (d : Nat), (depthOf ls d).map Prod.snd = ls
  | [], _ => rfl
  | l :: ls, d => by
      cases l <;> simp [depthOf, depthOf_snd ls]

/-- the usual layout: every block body indented by `n` more blanks -/
def printPretty (pr : Expr → String) (n : Nat) (B : List SStmt) : String :=
  printIndented pr ((depthOf (renderB B) 0).map fun p => (String.ofList (List.replicate (n * p.1) ' '), p.2))

theorem parseScript_printPretty (hsk : C10.SkipsLeadingBlanks ExprParse.parseExpr) (pr : Expr → String) (n : Nat)
    (B : List SStmt) (hw : WellNested B) (hf : FidsInOrder B) (hi : NoAdjacentIncludes B)
    (hp : ProgPrintable pr B = true) (hr : ProgRoundTrips pr B) (start : Nat := 1) :
    parseScript [printPretty pr n B] start = .ok (lowerProgram B) := by
  have hsnd : ((depthOf (renderB B) 0).map fun p => (String.ofList (List.replicate (n * p.1) ' '), p.2)).map Prod.snd = renderB B := by
    rw [List.map_map]; exact depthOf_snd (renderB B) 0
  refine parseScript_printIndented hsk pr _ ?_ (by rw [hsnd]; exact linesPrintable_of_prog hp hr)
    (by rw [hsnd]; exact parseLines_render B hw hf hi) start
  intro p hp'
  obtain ⟨q, -, rfl⟩ := List.mem_map.mp hp'
  simp only [String.toList_ofList]
  refine ⟨?_, ?_⟩
  · simp only [allSpace, List.all_replicate]
    simp; exact .inr (by decide)
  · intro hm; have := List.eq_of_mem_replicate hm; exact absurd this (by decide)

/-! ## a decidable sufficient condition for `ProgRoundTrips` (used by the examples) -/

mutual
/-- structural equality of expression trees, as a Boolean (`Expr` is a nested inductive: no derived `DecidableEq`) -/
def exprBEq : Expr → Expr → Bool
  | .number a, .number b => decide (a = b)
  | .string a, .string b => decide (a = b)
  | .variable a, .variable b => decide (a = b)
  | .function f as, .function g bs => decide (f = g) && argsBEq as bs
  | .binary o a b, .binary p c d => decide (o = p) && exprBEq a c && exprBEq b d
  | .unary o a, .unary p b => decide (o = p) && exprBEq a b
  | .group a, .group b => exprBEq a b
  | _, _ => false
def argsBEq : List Expr → List Expr → Bool
  | [], [] => true
  | a :: as, b :: bs => exprBEq a b && argsBEq as bs
  | _, _ => false
end

mutual
theorem exprBEq_sound : ∀ (a b : Expr), exprBEq a b = true → a = b
  | .number a, .number b, h => by simp only [exprBEq, decide_eq_true_eq] at h; rw [h]
  | .string a, .string b, h => by simp only [exprBEq, decide_eq_true_eq] at h; rw [h]
  | .variable a, .variable b, h => by simp only [exprBEq, decide_eq_true_eq] at h; rw [h]
  | .function f as, .function g bs, h => by
      simp only [exprBEq, Bool.and_eq_true, decide_eq_true_eq] at h
      rw [h.1, argsBEq_sound as bs h.2]
  | .binary o a b, .binary p c d, h => by
      simp only [exprBEq, Bool.and_eq_true, decide_eq_true_eq] at h
      rw [h.1.1, exprBEq_sound a c h.1.2, exprBEq_sound b d h.2]
  | .unary o a, .unary p b, h => by
      simp only [exprBEq, Bool.and_eq_true, decide_eq_true_eq] at h
      rw [h.1, exprBEq_sound a b h.2]
  | .group a, .group b, h => by
      simp only [exprBEq] at h
      rw [exprBEq_sound a b h]
  | .number _, .string _, h | .number _, .variable _, h | .number _, .function .., h | .number _, .binary .., h
  | .number _, .unary .., h | .number _, .group _, h
  | .string _, .number _, h | .string _, .variable _, h | .string _, .function .., h | .string _, .binary .., h
  | .string _, .unary .., h | .string _, .group _, h
  | .variable _, .number _, h | .variable _, .string _, h | .variable _, .function .., h | .variable _, .binary .., h
  | .variable _, .unary .., h | .variable _, .group _, h
  | .function .., .number _, h | .function .., .string _, h | .function .., .variable _, h | .function .., .binary .., h
  | .function .., .unary .., h | .function .., .group _, h
  | .binary .., .number _, h | .binary .., .string _, h | .binary .., .variable _, h | .binary .., .function .., h
  | .binary .., .unary .., h | .binary .., .group _, h
  | .unary .., .number _, h | .unary .., .string _, h | .unary .., .variable _, h | .unary .., .function .., h
  | .unary .., .binary .., h | .unary .., .group _, h
  | .group _, .number _, h | .group _, .string _, h | .group _, .variable _, h | .group _, .function .., h
  | .group _, .binary .., h | .group _, .unary .., h => by simp [exprBEq] at h
theorem argsBEq_sound : ∀ (as bs : List Expr), argsBEq as bs = true → as = bs
  | [], [], _ => rfl
  | a :: as, b :: bs, h => by
      simp only [argsBEq, Bool.and_eq_true] at h
      rw [exprBEq_sound a b h.1, argsBEq_sound as bs h.2]
  | [], _ :: _, h | _ :: _, [], h => by simp [argsBEq] at h
end

/-- the expression `e` survives `parse ∘ pr`, as a Boolean -/
def roundTripB (parse : String → Except ParseErr Expr) (pr : Expr → String) (e : Expr) : Bool :=
  match parse (pr e) with
  | .ok e' => exprBEq e' e
  | .error _ => false

theorem roundTripB_sound {parse : String → Except ParseErr Expr} {pr : Expr → String} {e : Expr}
    (h : roundTripB parse pr e = true) : parse (pr e) = .ok e := by
  unfold roundTripB at h
  split at h
  · rename_i e' he; rw [he, exprBEq_sound e' e h]
  · cases h

/-- decidable form of `ProgRoundTrips` -/
def ProgRoundTripsB (pr : Expr → String) (B : List SStmt) : Bool :=
  (renderB B).all fun l => (exprs l).all (roundTripB ExprParse.parseExpr pr)

theorem progRoundTrips_of_B {pr : Expr → String} {B : List SStmt} (h : ProgRoundTripsB pr B = true) :
    ProgRoundTrips pr B := by
  simp only [ProgRoundTripsB, List.all_eq_true] at h
  exact fun l hl e he => roundTripB_sound (h l hl e he)

/-! ## examples: the hypotheses are inhabited (expression printer: `Print.printExpr`) -/

namespace SourceDemo

def v (s : String) : Expr := .variable (.user s)
def num (n : Nat) : Expr := .number n

/-- one line of every kind (the two `for` forms, `jump`/`jumpif`, both `return`s, both `include`s — the quoted URL
contains a quote and a backslash —, a label, a call statement, an `async` variadic function header) -/
def lines : List Line :=
  [ .assign (.user "total") (.binary .add (v "total") (num 1)),
    .funcBegin (.user "walk") [.user "xs", .user "k"] true true, .funcBegin (.user "noArgs") [] false false, .funcEnd,
    .ifBegin (.binary .eq (v "k") (.string "a:b")), .elif (.unary .not (v "k")), .else_, .endif,
    .whileBegin (.binary .lt (v "k") (num 10)), .endwhile,
    .forBegin (.user "x") none (v "xs"), .forBegin (.user "x") (some (.user "ix")) (.function (.user "arrayNew") [num 1, num 2]),
    .endfor, .break_, .continue_,
    .label (.user "top"), .jump (.user "top") none, .jump (.user "top") (some (.group (.binary .gt (v "k") (num 0)))),
    .ret none, .ret (some (.unary .neg (v "k"))),
    .include "a'b\\c.bare" false, .include "lib/unittest.bare" true,
    .exprStmt (.function (.user "systemLog") [.binary .add (.string "k = ") (v "k")]) ]

/-- a program with includes, an async variadic function containing a nested `if`/`elif`/`else`, a `while` with
`break`, a `for` with an index variable and `continue`, `return` with and without a value, call statements; and a
global loop -/
def prog : List SStmt :=
  [ .include [⟨"a'b\\c.bare", false⟩, ⟨"lib.bare", true⟩],
    .expr (some (.user "n")) (num 0),
    .func 0 (.user "walk") [.user "xs", .user "k"] true true
      [ .ite (.binary .gt (v "k") (num 1)) [.ret (some (v "k"))]
          (.elif (.function (.user "arrayLength") [v "xs"])
            [ .while (.binary .lt (v "k") (num 10))
                [ .for (.user "x") (some (.user "ix")) (v "xs")
                    [ .ite (v "x") [.cont] (.elif (.binary .eq (v "ix") (num 2)) [.brk] .none),
                      .expr (some (.user "k")) (.binary .add (v "k") (.binary .mul (v "x") (num 2))) ],
                  .ite (.binary .gt (v "k") (num 5)) [.brk]
                    (.els [.expr none (.function (.user "systemLog") [.binary .add (.string "k=") (v "k")])]) ] ]
            (.els [.ret none])),
        .ret (some (.unary .neg (.group (.binary .sub (v "k") (num 1))))) ],
    .while (.unary .not (v "n"))
      [ .expr none (.function (.user "walk") [.function (.user "arrayNew") [num 1, num 2], v "n"]),
        .ite (v "n") [.brk] .none ] ]

/-- the same program with a `break` outside of any loop -/
def illNested : List SStmt := prog ++ [.brk]

theorem lines_ok : ∀ l ∈ lines, LineOK (fun e => (Print.printExpr e).toList) l = true := by decide +kernel
theorem lines_roundTrip : ∀ l ∈ lines, ∀ e ∈ exprs l, ExprParse.parseExpr (Print.printExpr e) = .ok e := by
  have : (lines.all fun l => (exprs l).all (roundTripB ExprParse.parseExpr Print.printExpr)) = true := by decide +kernel
  simp only [List.all_eq_true] at this
  exact fun l hl e he => roundTripB_sound (this l hl e he)

theorem prog_printable : ProgPrintable Print.printExpr prog = true := by decide +kernel
theorem prog_roundTrips : ProgRoundTrips Print.printExpr prog := progRoundTrips_of_B (by decide +kernel)
theorem prog_structure : WellNested prog ∧ FidsInOrder prog ∧ NoAdjacentIncludes prog := by decide
theorem prog_noRaw : NoRawB prog := by simp [prog, NoRawB, NoRawS, NoRawE]

end SourceDemo

open SourceDemo in
/-- (a) every line of `SourceDemo.lines` is read back from its text -/
example : ∀ l ∈ lines, Scan.classify ExprParse.parseExpr (printLine Print.printExpr l) = .ok l :=
  fun l hl => classify_printLine _ _ l (lines_ok l hl) (lines_roundTrip l hl)

/-- what the texts look like -/
example : (SourceDemo.lines.map (printLine Print.printExpr)).take 6 =
    ["total = total + 1", "async function walk(xs, k...):", "function noArgs():", "endfunction", "if k == 'a:b':",
     "elif !k:"] := by decide +kernel
example : printLine Print.printExpr (.include "a'b\\c.bare" false) = "include 'a\\'b\\\\c.bare'" := by decide +kernel
example : printLine Print.printExpr (.jump (.user "top") (some (.group (.binary .gt (SourceDemo.v "k") (SourceDemo.num 0))))) =
    "jumpif ((k > 0)) top" := by decide +kernel

/-- why the side conditions are there: without them the cascade reads another statement -/
example : Scan.shape "else:".toList = .else_ ∧                                   -- a label named `else`
    Scan.shape "if = 1".toList = .assign "if".toList 5 "1".toList ∧              -- assignment comes first
    Scan.shape "a == b".toList = .assign "a".toList 3 "= b".toList ∧             -- an expression statement that is not a call
    Scan.shape "jumpif(a) b".toList = .jump "b".toList (some (7, "a".toList)) := by
  decide +kernel

open SourceDemo in
/-- (b) the logical lines of the program text: 33 lines numbered 0 … 32, no dangling continuation -/
example : Text.scriptLines [printScript Print.printExpr prog] =
    (C06.numbered 0 ((renderB prog).map (printLine Print.printExpr)), none) ∧ (renderB prog).length = 33 :=
  ⟨scriptLines_print _ _ (linesPrintable_of_prog prog_printable prog_roundTrips).ok, by decide⟩

open SourceDemo in
/-- (c) the text of `SourceDemo.prog` parses to its lowering -/
example : parseScript [printScript Print.printExpr prog] = .ok (lowerProgram prog) :=
  parseScript_print _ prog prog_structure.1 prog_structure.2.1 prog_structure.2.2 prog_printable prog_roundTrips

open SourceDemo in
/-- the indented layout (4 blanks per level) of the same program: its first lines, and it parses to the same lowering -/
example : (((depthOf (renderB prog) 0).map fun p => String.ofList (List.replicate (4 * p.1) ' ') ++ printLine Print.printExpr p.2).take 8 =
    ["include 'a\\'b\\\\c.bare'", "include <lib.bare>", "n = 0", "async function walk(xs, k...):", "    if k > 1:",
     "        return k", "    elif arrayLength(xs):", "        while k < 10:"]) ∧
    (C10.SkipsLeadingBlanks ExprParse.parseExpr →
      parseScript [printPretty Print.printExpr 4 prog] = .ok (lowerProgram prog)) :=
  ⟨by decide +kernel, fun hsk => parseScript_printPretty hsk _ 4 prog prog_structure.1 prog_structure.2.1 prog_structure.2.2
    prog_printable prog_roundTrips⟩

open SourceDemo in
/-- … and the ill-nested variant is rejected with the parser's message -/
example : ∃ pe, parseScript [printScript Print.printExpr illNested] = .error pe ∧
    pe.error = "Break statement outside of loop" := by
  have hp : ProgPrintable Print.printExpr illNested = true := by decide +kernel
  have hr : ProgRoundTrips Print.printExpr illNested := progRoundTrips_of_B (by decide +kernel)
  have he : parseLines (renderB illNested) = .error .breakOutside := rfl
  exact parseScript_printLines_error _ _ (linesPrintable_of_prog hp hr) he

open SourceDemo in
/-- `source_then_run` on the demo program, for any host configuration, fuel and state -/
example {W : Type} (cfg : Config W) (base : Option String) (fuel : Nat) (st : State W) :
    ∃ P, parseScript [printScript Print.printExpr prog] = .ok P ∧
      execute₀ cfg fuel P base st =
        toRes (execTB cfg (callValue₀ cfg) (execIncludes₀ cfg) false prog 0 fuel none base { st with count := 0 }) :=
  source_then_run cfg base _ prog prog_structure.1 prog_structure.2.1 prog_structure.2.2 prog_noRaw prog_printable
    prog_roundTrips fuel st

end C01
