import BareModel.ExprParse
import BareProofs.C10Lemmas
import BareProofs.C02Lemmas

/-!
# C10 — white space and the expression parser: lemmas

The expression parser model (`ExprParse.parseUnary`, `chainLoop`, `argsLoop`, `binaryWith`, fuel-recursive) looks at the
text only through the ten token scanners of `BareModel/ExprScan.lean`.  This file proves

* `parseUnary_rel` / `parseBinary_rel` — a **simulation principle**: for every relation `R` on remaining texts that the
  scanners respect (`Respects R`: on related texts a scanner fails on both or returns the same token value and related
  rests), the parser returns related results on related texts (same tree and related rests, or the same error text and
  related error positions), at every fuel;
* `parseBinary_fuel` (in `C10Ws.lean`, with `C02.fuel_sufficient`) from `parseUnary_mono` … — more fuel than needed does
  not change the result, so texts of different lengths can be compared at a common fuel;
* two instances of `Respects`: `LeadR` (blanks in front of the whole text), and `GapR` (one blank run *outside string
  literals and bracketed names* replaced by another one; at the end of the text the run may be empty on either side),
  which covers trailing blanks and the stretching of an inter-token blank; `topLevelAt` is an executable test for
  such a position (`gap_of_topLevelAt`);
* the statement recognisers of `BareModel/Scan.lean` under trailing blanks (`assign?`, `funcBegin?`, `for?`, `label?`,
  `jump?`, `include?` — the others are in `C10Lemmas.lean`) and the cascade (`shapeS_append_ws`); the assignment pattern
  with another expression text (`assign?_replace`).
-/

namespace C10
open ExprScan ExprParse

/-! ## the simulation principle -/

section Sim

/-- scanner results (value, rest) agree up to `R` on the rests -/
def ORel {α : Type} (R : List Char → List Char → Prop) : Option (α × List Char) → Option (α × List Char) → Prop
  | none, none => True
  | some x, some y => x.1 = y.1 ∧ R x.2 y.2
  | _, _ => False

/-- the same for the scanners that return only the rest -/
def ORel1 (R : List Char → List Char → Prop) : Option (List Char) → Option (List Char) → Prop
  | none, none => True
  | some x, some y => R x y
  | _, _ => False

/-- parser results agree up to `R`: same tree (or argument list) and related rests, or the same error text and related
error positions (`error.line` of the Python: the remaining text the error was raised at) -/
def RRel {α : Type} (R : List Char → List Char → Prop) : Res (α × List Char) → Res (α × List Char) → Prop
  | .ok x, .ok y => x.1 = y.1 ∧ R x.2 y.2
  | .error x, .error y => x.1 = y.1 ∧ R x.2 y.2
  | _, _ => False

/-- every token scanner respects `R` -/
structure Respects (R : List Char → List Char → Prop) : Prop where
  binOp : ∀ {t t'}, R t t' → ORel R (scanBinOp t) (scanBinOp t')
  unOp : ∀ {t t'}, R t t' → ORel R (scanUnaryOp t) (scanUnaryOp t')
  groupOpen : ∀ {t t'}, R t t' → ORel1 R (scanGroupOpen t) (scanGroupOpen t')
  close : ∀ {t t'}, R t t' → ORel1 R (scanClose t) (scanClose t')
  comma : ∀ {t t'}, R t t' → ORel1 R (scanComma t) (scanComma t')
  funcOpen : ∀ {t t'}, R t t' → ORel R (scanFuncOpen t) (scanFuncOpen t')
  number : ∀ {t t'}, R t t' → ORel R (scanNumber t) (scanNumber t')
  strS : ∀ {t t'}, R t t' → ORel R (scanString '\'' t) (scanString '\'' t')
  strD : ∀ {t t'}, R t t' → ORel R (scanString '"' t) (scanString '"' t')
  var : ∀ {t t'}, R t t' → ORel R (scanVariable t) (scanVariable t')
  varEx : ∀ {t t'}, R t t' → ORel R (scanVariableEx t) (scanVariableEx t')

theorem ORel.isSome_eq {α : Type} {R} {a b : Option (α × List Char)} (h : ORel R a b) : a.isSome = b.isSome := by
  cases a <;> cases b <;> simp_all [ORel]

theorem ORel1.isSome_eq {R} {a b : Option (List Char)} (h : ORel1 R a b) : a.isSome = b.isSome := by
  cases a <;> cases b <;> simp_all [ORel1]

variable {R : List Char → List Char → Prop}

theorem chainLoop_rel (hR : Respects R) {pu : List Char → Res (Expr × List Char)}
    (hpu : ∀ t t', R t t' → RRel R (pu t) (pu t')) :
    ∀ (n : Nat) (l : Expr) (t t' : List Char), R t t' → RRel R (chainLoop pu n l t) (chainLoop pu n l t') := by
  intro n
  induction n with
  | zero =>
    intro l t t' h
    have hb := hR.binOp h
    simp only [chainLoop]
    cases h1 : scanBinOp t <;> cases h2 : scanBinOp t' <;> simp only [h1, h2, ORel] at hb ⊢
    · exact ⟨rfl, h⟩
    · exact ⟨rfl, h⟩
  | succ n ih =>
    intro l t t' h
    have hb := hR.binOp h
    simp only [chainLoop]
    cases h1 : scanBinOp t <;> cases h2 : scanBinOp t' <;> simp only [h1, h2, ORel] at hb ⊢
    · exact ⟨rfl, h⟩
    · rename_i x y
      obtain ⟨op, rt⟩ := x; obtain ⟨op', rt'⟩ := y
      obtain ⟨rfl, hrt⟩ : op = op' ∧ R rt rt' := hb
      have hp := hpu _ _ hrt
      cases h3 : pu rt <;> cases h4 : pu rt' <;> simp only [h3, h4, RRel] at hp ⊢
      · exact hp
      · rename_i a b
        obtain ⟨r, nt⟩ := a; obtain ⟨r', nt'⟩ := b
        obtain ⟨rfl, hnt⟩ : r = r' ∧ R nt nt' := hp
        exact ih _ _ _ hnt

theorem binaryWith_rel (hR : Respects R) {pu : List Char → Res (Expr × List Char)}
    (hpu : ∀ t t', R t t' → RRel R (pu t) (pu t')) (n : Nat) (t t' : List Char) (h : R t t') :
    RRel R (binaryWith pu n t) (binaryWith pu n t') := by
  have hp := hpu _ _ h
  simp only [binaryWith]
  cases h3 : pu t <;> cases h4 : pu t' <;> simp only [h3, h4, RRel] at hp ⊢
  · exact hp
  · rename_i a b
    obtain ⟨r, nt⟩ := a; obtain ⟨r', nt'⟩ := b
    obtain ⟨rfl, hnt⟩ : r = r' ∧ R nt nt' := hp
    exact chainLoop_rel hR hpu _ _ _ _ hnt

theorem argsLoop_rel (hR : Respects R) {pb : List Char → Res (Expr × List Char)}
    (hpb : ∀ t t', R t t' → RRel R (pb t) (pb t')) :
    ∀ (n : Nat) (args : List Expr) (t t' : List Char), R t t' →
      RRel R (argsLoop pb n args t) (argsLoop pb n args t') := by
  intro n
  induction n with
  | zero => intro args t t' h; exact ⟨rfl, h⟩
  | succ n ih =>
    intro args t t' h
    have hc := hR.close h
    simp only [argsLoop]
    cases h1 : scanClose t <;> cases h2 : scanClose t' <;> simp only [h1, h2, ORel1] at hc ⊢
    · -- no `)`: a separator (unless this is the first argument), then an argument
      have hsep : ORel1 R (if args.isEmpty then some t else scanComma t) (if args.isEmpty then some t' else scanComma t') := by
        by_cases ha : args.isEmpty = true
        · simpa [ha, ORel1] using h
        · simpa [ha] using hR.comma h
      cases h5 : (if args.isEmpty then some t else scanComma t) <;>
        cases h6 : (if args.isEmpty then some t' else scanComma t') <;> simp only [h5, h6, ORel1] at hsep ⊢
      · exact ⟨rfl, h⟩
      · rename_i t1 t1'
        have hp := hpb _ _ hsep
        cases h3 : pb t1 <;> cases h4 : pb t1' <;> simp only [h3, h4, RRel] at hp ⊢
        · exact hp
        · rename_i a b
          obtain ⟨r, nt⟩ := a; obtain ⟨r', nt'⟩ := b
          obtain ⟨rfl, hnt⟩ : r = r' ∧ R nt nt' := hp
          exact ih _ _ _ hnt
    · exact ⟨rfl, hc⟩

theorem parseAtom_rel (hR : Respects R) (t t' : List Char) (h : R t t') : RRel R (parseAtom t) (parseAtom t') := by
  have h1 := hR.number h
  have h2 := hR.strS h
  have h3 := hR.strD h
  have h4 := hR.var h
  have h5 := hR.varEx h
  unfold parseAtom
  cases e1 : scanNumber t <;> cases e1' : scanNumber t' <;> simp only [e1, e1', ORel] at h1 ⊢
  · cases e2 : scanString '\'' t <;> cases e2' : scanString '\'' t' <;> simp only [e2, e2', ORel] at h2 ⊢
    · cases e3 : scanString '"' t <;> cases e3' : scanString '"' t' <;> simp only [e3, e3', ORel] at h3 ⊢
      · cases e4 : scanVariable t <;> cases e4' : scanVariable t' <;> simp only [e4, e4', ORel] at h4 ⊢
        · cases e5 : scanVariableEx t <;> cases e5' : scanVariableEx t' <;> simp only [e5, e5', ORel] at h5 ⊢
          · exact ⟨rfl, h⟩
          · exact ⟨by rw [h5.1], h5.2⟩
        · exact ⟨by rw [h4.1], h4.2⟩
      · exact ⟨by rw [h3.1], h3.2⟩
    · exact ⟨by rw [h2.1], h2.2⟩
  · exact ⟨by rw [h1.1], h1.2⟩

/-- **Simulation**: related texts, same fuel ⇒ related results of `_parse_unary_expression` -/
theorem parseUnary_rel (hR : Respects R) :
    ∀ (fuel : Nat) (t t' : List Char), R t t' → RRel R (parseUnary fuel t) (parseUnary fuel t') := by
  intro fuel
  induction fuel with
  | zero =>
    intro t t' h
    simp only [parseUnary]
    rw [(hR.groupOpen h).isSome_eq, (hR.unOp h).isSome_eq, (hR.funcOpen h).isSome_eq]
    split
    · exact ⟨rfl, h⟩
    · exact parseAtom_rel hR t t' h
  | succ fuel ih =>
    intro t t' h
    have hg := hR.groupOpen h
    have hu := hR.unOp h
    have hf := hR.funcOpen h
    have hbin : ∀ x x', R x x' → RRel R (binaryWith (parseUnary fuel) fuel x) (binaryWith (parseUnary fuel) fuel x') :=
      fun x x' hx => binaryWith_rel hR ih fuel x x' hx
    simp only [parseUnary]
    cases e1 : scanGroupOpen t <;> cases e1' : scanGroupOpen t' <;> simp only [e1, e1', ORel1] at hg ⊢
    · cases e2 : scanUnaryOp t <;> cases e2' : scanUnaryOp t' <;> simp only [e2, e2', ORel] at hu ⊢
      · cases e3 : scanFuncOpen t <;> cases e3' : scanFuncOpen t' <;> simp only [e3, e3', ORel] at hf ⊢
        · exact parseAtom_rel hR t t' h
        · rename_i a b
          obtain ⟨name, at_⟩ := a; obtain ⟨name', at'⟩ := b
          obtain ⟨rfl, hat⟩ : name = name' ∧ R at_ at' := hf
          have ha := argsLoop_rel hR hbin fuel [] _ _ hat
          cases e4 : argsLoop (binaryWith (parseUnary fuel) fuel) fuel [] at_ <;>
            cases e4' : argsLoop (binaryWith (parseUnary fuel) fuel) fuel [] at' <;> simp only [e4, e4', RRel] at ha ⊢
          · exact ha
          · exact ⟨by rw [ha.1], ha.2⟩
      · rename_i a b
        obtain ⟨op, ut⟩ := a; obtain ⟨op', ut'⟩ := b
        obtain ⟨rfl, hut⟩ : op = op' ∧ R ut ut' := hu
        have hp := ih _ _ hut
        cases e4 : parseUnary fuel ut <;> cases e4' : parseUnary fuel ut' <;> simp only [e4, e4', RRel] at hp ⊢
        · exact hp
        · exact ⟨by rw [hp.1], hp.2⟩
    · rename_i gt gt'
      have hb := hbin _ _ hg
      cases e4 : binaryWith (parseUnary fuel) fuel gt <;> cases e4' : binaryWith (parseUnary fuel) fuel gt' <;>
        simp only [e4, e4', RRel] at hb ⊢
      · exact hb
      · rename_i a b
        obtain ⟨e, nt⟩ := a; obtain ⟨e', nt'⟩ := b
        obtain ⟨rfl, hnt⟩ : e = e' ∧ R nt nt' := hb
        have hc := hR.close hnt
        cases e5 : scanClose nt <;> cases e5' : scanClose nt' <;> simp only [e5, e5', ORel1] at hc ⊢
        · exact ⟨by trivial, h⟩
        · exact ⟨by trivial, hc⟩

/-- … and of `_parse_binary_expression` -/
theorem parseBinary_rel (hR : Respects R) (fuel : Nat) (t t' : List Char) (h : R t t') :
    RRel R (parseBinary fuel t) (parseBinary fuel t') :=
  binaryWith_rel hR (parseUnary_rel hR fuel) fuel t t' h

end Sim

/-! ## more fuel does not change a result that is not the fuel marker -/

/-- the result is not the out-of-fuel marker -/
def NoFuel {α : Type} (r : Res α) : Prop := ∀ l, r ≠ .error (fuelMsg, l)

theorem NoFuel.ok {α : Type} (x : α) : NoFuel (.ok x : Res α) := fun _ h => by cases h

theorem NoFuel.cast {α β : Type} {e : String × List Char} (h : NoFuel (.error e : Res α)) : NoFuel (.error e : Res β) :=
  fun l hl => h l (by cases hl; rfl)

theorem chainLoop_mono {pu pu' : List Char → Res (Expr × List Char)} (h : ∀ t, NoFuel (pu t) → pu' t = pu t) :
    ∀ (n n' : Nat) (l : Expr) (t : List Char), n ≤ n' → NoFuel (chainLoop pu n l t) →
      chainLoop pu' n' l t = chainLoop pu n l t := by
  intro n
  induction n with
  | zero =>
    intro n' l t _ hn
    simp only [chainLoop] at hn ⊢
    cases hb : scanBinOp t with
    | none => cases n' <;> simp [chainLoop, hb]
    | some x => simp only [hb] at hn; exact absurd rfl (hn t)
  | succ n ih =>
    intro n' l t hle hn
    obtain ⟨m, rfl⟩ : ∃ m, n' = m + 1 := ⟨n' - 1, by omega⟩
    simp only [chainLoop] at hn ⊢
    cases hb : scanBinOp t with
    | none => rfl
    | some x =>
      obtain ⟨op, rt⟩ := x
      simp only [hb] at hn ⊢
      cases hp : pu rt with
      | error e =>
        simp only [hp] at hn ⊢
        have : pu' rt = pu rt := h rt (by rw [hp]; exact hn)
        rw [this, hp]
      | ok x =>
        obtain ⟨r, nt⟩ := x
        simp only [hp] at hn ⊢
        have : pu' rt = pu rt := h rt (by rw [hp]; exact NoFuel.ok _)
        rw [this, hp]
        exact ih m _ _ (by omega) hn

theorem binaryWith_mono {pu pu' : List Char → Res (Expr × List Char)} (h : ∀ t, NoFuel (pu t) → pu' t = pu t)
    (n n' : Nat) (t : List Char) (hle : n ≤ n') (hn : NoFuel (binaryWith pu n t)) :
    binaryWith pu' n' t = binaryWith pu n t := by
  simp only [binaryWith] at hn ⊢
  cases hp : pu t with
  | error e =>
    simp only [hp] at hn ⊢
    have : pu' t = pu t := h t (by rw [hp]; exact hn)
    rw [this, hp]
  | ok x =>
    obtain ⟨r, nt⟩ := x
    simp only [hp] at hn ⊢
    have : pu' t = pu t := h t (by rw [hp]; exact NoFuel.ok _)
    rw [this, hp]
    exact chainLoop_mono h n n' _ _ hle hn

theorem argsLoop_mono {pb pb' : List Char → Res (Expr × List Char)} (h : ∀ t, NoFuel (pb t) → pb' t = pb t) :
    ∀ (n n' : Nat) (args : List Expr) (t : List Char), n ≤ n' → NoFuel (argsLoop pb n args t) →
      argsLoop pb' n' args t = argsLoop pb n args t := by
  intro n
  induction n with
  | zero => intro n' args t _ hn; exact absurd rfl (hn t)
  | succ n ih =>
    intro n' args t hle hn
    obtain ⟨m, rfl⟩ : ∃ m, n' = m + 1 := ⟨n' - 1, by omega⟩
    simp only [argsLoop] at hn ⊢
    cases hc : scanClose t with
    | some r => rfl
    | none =>
      simp only [hc] at hn ⊢
      cases hs : (if args.isEmpty then some t else scanComma t) with
      | none => rfl
      | some t1 =>
        simp only [hs] at hn ⊢
        cases hp : pb t1 with
        | error e =>
          simp only [hp] at hn ⊢
          have : pb' t1 = pb t1 := h t1 (by rw [hp]; exact hn.cast)
          rw [this, hp]
        | ok x =>
          obtain ⟨a, nt⟩ := x
          simp only [hp] at hn ⊢
          have : pb' t1 = pb t1 := h t1 (by rw [hp]; exact NoFuel.ok _)
          rw [this, hp]
          exact ih m _ _ (by omega) hn

/-- one more unit of fuel: same result, unless the result was the fuel marker -/
theorem parseUnary_step : ∀ (f : Nat) (t : List Char), NoFuel (parseUnary f t) → parseUnary (f + 1) t = parseUnary f t := by
  intro f
  induction f with
  | zero =>
    intro t hn
    simp only [parseUnary] at hn ⊢
    split at hn
    · exact absurd rfl (hn t)
    · rename_i hc
      simp only [Bool.or_eq_true, not_or, Bool.not_eq_true, Option.isSome_eq_false_iff, Option.isNone_iff_eq_none] at hc
      obtain ⟨⟨h1, h2⟩, h3⟩ := hc
      simp [h1, h2, h3]
  | succ f ih =>
    intro t hn
    have hbin : ∀ x, NoFuel (binaryWith (parseUnary f) f x) →
        binaryWith (parseUnary (f + 1)) (f + 1) x = binaryWith (parseUnary f) f x :=
      fun x hx => binaryWith_mono ih f (f + 1) x (by omega) hx
    rw [parseUnary]
    rw [parseUnary] at hn ⊢
    cases e1 : scanGroupOpen t with
    | some gt =>
      simp only [e1] at hn ⊢
      cases e4 : binaryWith (parseUnary f) f gt with
      | error e =>
        simp only [e4] at hn
        rw [hbin gt (by rw [e4]; exact hn), e4]
      | ok x =>
        rw [hbin gt (by rw [e4]; exact NoFuel.ok _), e4]
    | none =>
      simp only [e1] at hn ⊢
      cases e2 : scanUnaryOp t with
      | some x =>
        obtain ⟨op, ut⟩ := x
        simp only [e2] at hn ⊢
        cases e4 : parseUnary f ut with
        | error e =>
          simp only [e4] at hn
          rw [ih ut (by rw [e4]; exact hn), e4]
        | ok x => rw [ih ut (by rw [e4]; exact NoFuel.ok _), e4]
      | none =>
        simp only [e2] at hn ⊢
        cases e3 : scanFuncOpen t with
        | none => rfl
        | some x =>
          obtain ⟨name, at_⟩ := x
          simp only [e3] at hn ⊢
          cases e4 : argsLoop (binaryWith (parseUnary f) f) f [] at_ with
          | error e =>
            simp only [e4] at hn
            rw [argsLoop_mono hbin f (f + 1) [] at_ (by omega) (by rw [e4]; exact hn.cast), e4]
          | ok x => rw [argsLoop_mono hbin f (f + 1) [] at_ (by omega) (by rw [e4]; exact NoFuel.ok _), e4]

theorem parseBinary_step (f : Nat) (t : List Char) (hn : NoFuel (parseBinary f t)) :
    parseBinary (f + 1) t = parseBinary f t :=
  binaryWith_mono (parseUnary_step f) f (f + 1) t (by omega) hn

/-- any amount of extra fuel -/
theorem parseBinary_more (f k : Nat) (t : List Char) (hn : NoFuel (parseBinary f t)) :
    parseBinary (f + k) t = parseBinary f t := by
  induction k with
  | zero => rfl
  | succ k ih => rw [← Nat.add_assoc, parseBinary_step (f + k) t (by rw [ih]; exact hn), ih]


/-! ## blanks and the scanners -/

/-- a run of white space (`\s` of the token patterns) -/
def Blank (ws : List Char) : Prop := ∀ c ∈ ws, isPySpace c = true

/-- the white space of the line scanners (`Text.isSpace`) and of the token scanners (`ExprScan.isPySpace`) is the same
set of 29 code points -/
theorem isPySpace_eq_isSpace (c : Char) : isPySpace c = Text.isSpace c := rfl

theorem blank_of_allSpace {ws : List Char} (h : Text.allSpace ws = true) : Blank ws := by
  intro c hc
  simp only [Text.allSpace, List.all_eq_true] at h
  exact h c hc

theorem Blank.nil : Blank [] := fun _ h => by cases h

theorem Blank.append {a b : List Char} (ha : Blank a) (hb : Blank b) : Blank (a ++ b) := by
  intro c hc; rcases List.mem_append.mp hc with h | h
  · exact ha c h
  · exact hb c h

theorem blank_contains {ws : List Char} (h : Blank ws) {c : Char} (hc : isPySpace c = false) : ws.contains c = false := by
  cases hb : ws.contains c with
  | false => rfl
  | true =>
    have := h c (by simpa using hb)
    rw [hc] at this; cases this

theorem skipWs_blank_append {ws : List Char} (h : Blank ws) (t : List Char) : skipWs (ws ++ t) = skipWs t :=
  List.dropWhile_append_of_pos h

theorem skipWs_blank {ws : List Char} (h : Blank ws) : skipWs ws = [] := by
  have := skipWs_blank_append h []
  simpa [skipWs] using this

theorem skipWs_idem (t : List Char) : skipWs (skipWs t) = skipWs t := dropWhile_idem _ _

theorem skipWs_nonblank {d : Char} (r : List Char) (h : isPySpace d = false) : skipWs (d :: r) = d :: r := by
  simp [skipWs, h]

theorem skipWs_cons_blank {d : Char} (r : List Char) (h : isPySpace d = true) : skipWs (d :: r) = skipWs r := by
  simp [skipWs, h]

theorem skipWs_head {t r : List Char} {d : Char} (h : skipWs t = d :: r) : isPySpace d = false :=
  dropWhile_head_not _ h

theorem skipWs_length_le (t : List Char) : (skipWs t).length ≤ t.length :=
  (List.dropWhile_sublist _).length_le

/-- the scanner begins with `\s*` -/
def SkipsWs {β : Type} (sc : List Char → Option β) : Prop := ∀ t, sc t = sc (skipWs t)

/-- a successful scan consumes at least one character behind the leading white space -/
def Consumes {α : Type} (sc : List Char → Option (α × List Char)) : Prop :=
  ∀ t x r, sc t = some (x, r) → r.length < (skipWs t).length

/-- the rest-only scanners, as scanners with a trivial value -/
def unitSc (sc : List Char → Option (List Char)) (t : List Char) : Option (Unit × List Char) := (sc t).map (fun r => ((), r))

theorem ORel1_of_unit {R : List Char → List Char → Prop} {sc : List Char → Option (List Char)} {t t' : List Char}
    (h : ORel R (unitSc sc t) (unitSc sc t')) : ORel1 R (sc t) (sc t') := by
  unfold unitSc at h
  cases h1 : sc t <;> cases h2 : sc t' <;> simp_all [ORel, ORel1]

theorem ORel.mono {α : Type} {R S : List Char → List Char → Prop} (hRS : ∀ a b, R a b → S a b)
    {x y : Option (α × List Char)} (h : ORel R x y) : ORel S x y := by
  cases x <;> cases y <;> simp only [ORel] at h ⊢
  exact ⟨h.1, hRS _ _ h.2⟩

/-! ### each scanner begins with `\s*` and consumes something -/

theorem stripPrefix_length : ∀ (p t r : List Char), stripPrefix? p t = some r → r.length + p.length = t.length
  | [], t, r, h => by simp [stripPrefix?] at h; subst h; rfl
  | _ :: _, [], r, h => by simp [stripPrefix?] at h
  | a :: ps, c :: t, r, h => by
    simp only [stripPrefix?] at h
    split at h
    · have := stripPrefix_length ps t r h; simp; omega
    · cases h

theorem firstAlt_length {α : Type} : ∀ (alts : List (List Char × α)) (t : List Char) (a : α) (r : List Char),
    (∀ p ∈ alts, p.1 ≠ []) → firstAlt alts t = some (a, r) → r.length < t.length
  | [], _, _, _, _, h => by simp [firstAlt] at h
  | (p, b) :: rest, t, a, r, hne, h => by
    simp only [firstAlt] at h
    split at h
    · rename_i r' hs
      simp only [Option.some.injEq, Prod.mk.injEq] at h
      obtain ⟨_, rfl⟩ := h
      have := stripPrefix_length p t _ hs
      have hp : p ≠ [] := hne (p, b) (by simp)
      have : 0 < p.length := List.length_pos_iff.mpr hp
      omega
    · exact firstAlt_length rest t a r (fun q hq => hne q (List.mem_cons_of_mem _ hq)) h

theorem skips_binOp : SkipsWs scanBinOp := fun t => by simp only [scanBinOp, skipWs_idem]
theorem skips_unOp : SkipsWs scanUnaryOp := fun t => by simp only [scanUnaryOp, skipWs_idem]
theorem skips_char (c : Char) : SkipsWs (unitSc (scanChar c)) := fun t => by simp only [unitSc, scanChar, skipWs_idem]
theorem skips_funcOpen : SkipsWs scanFuncOpen := fun t => by simp only [scanFuncOpen, skipWs_idem]
theorem skips_number : SkipsWs scanNumber := fun t => by simp only [scanNumber, skipWs_idem]
theorem skips_string (q : Char) : SkipsWs (scanString q) := fun t => by simp only [scanString, skipWs_idem]
theorem skips_variable : SkipsWs scanVariable := fun t => by simp only [scanVariable, skipWs_idem]
theorem skips_variableEx : SkipsWs scanVariableEx := fun t => by simp only [scanVariableEx, skipWs_idem]

theorem consumes_binOp : Consumes scanBinOp := fun t x r h =>
  firstAlt_length binOpAlts _ x r (by decide) h

theorem consumes_unOp : Consumes scanUnaryOp := fun t x r h =>
  firstAlt_length unOpAlts _ x r (by decide) h

theorem consumes_char (c : Char) : Consumes (unitSc (scanChar c)) := by
  intro t x r h
  simp only [unitSc, scanChar] at h
  split at h
  · rename_i d r' hs
    rw [hs]
    split at h
    · simp at h; subst h; simp
    · simp at h
  · simp at h

theorem dropWhile_length_le {α : Type} (p : α → Bool) (l : List α) : (l.dropWhile p).length ≤ l.length :=
  (List.dropWhile_sublist _).length_le

theorem consumes_funcOpen : Consumes scanFuncOpen := by
  intro t x r h
  simp only [scanFuncOpen] at h
  split at h
  · rename_i c r' hs
    rw [hs]
    split at h
    · split at h
      · rename_i d r2 hs2
        split at h
        · simp only [Option.some.injEq, Prod.mk.injEq] at h
          obtain ⟨_, rfl⟩ := h
          have h1 := skipWs_length_le (List.dropWhile isWord r')
          have h2 := dropWhile_length_le isWord r'
          rw [hs2] at h1
          simp at h1 ⊢; omega
        · cases h
      · cases h
    · cases h
  · cases h

theorem consumes_variable : Consumes scanVariable := by
  intro t x r h
  simp only [scanVariable] at h
  split at h
  · rename_i c r' hs
    rw [hs]
    split at h
    · simp only [Option.some.injEq, Prod.mk.injEq] at h
      obtain ⟨_, rfl⟩ := h
      have h2 := dropWhile_length_le isWord r'
      simp; omega
    · cases h
  · cases h

theorem scanSign_length (t : List Char) : (scanSign t).2.length ≤ t.length := by
  cases t with
  | nil => simp [scanSign]
  | cons c r =>
    simp only [scanSign]
    split
    · simp
    · split <;> simp

theorem scanFrac_length (t : List Char) : (scanFrac t).2.length ≤ t.length := by
  cases t with
  | nil => simp [scanFrac]
  | cons c r =>
    simp only [scanFrac]; split
    · have := dropWhile_length_le isDigit r; simp; omega
    · simp

theorem scanExp_length (t : List Char) : (scanExp t).2.length ≤ t.length := by
  unfold scanExp
  split
  · rename_i c s r
    have := dropWhile_length_le isDigit r
    simp only []
    repeat' split
    all_goals simp
    all_goals omega
  · simp

theorem consumes_number : Consumes scanNumber := by
  intro t x r h
  simp only [scanNumber] at h
  split at h
  · cases h
  · rename_i hip
    simp only [Option.some.injEq, Prod.mk.injEq] at h
    obtain ⟨_, rfl⟩ := h
    have h1 := scanSign_length (skipWs t)
    have h2 : ((scanSign (skipWs t)).2.dropWhile isDigit).length < (scanSign (skipWs t)).2.length := by
      have := (List.takeWhile_append_dropWhile (p := isDigit) (l := (scanSign (skipWs t)).2))
      have hl := congrArg List.length this
      simp only [List.length_append] at hl
      have : 0 < ((scanSign (skipWs t)).2.takeWhile isDigit).length := by
        apply List.length_pos_iff.mpr
        intro h0; rw [h0] at hip; simp at hip
      omega
    have h3 := scanFrac_length ((scanSign (skipWs t)).2.dropWhile isDigit)
    have h4 := scanExp_length (scanFrac ((scanSign (skipWs t)).2.dropWhile isDigit)).2
    omega

/-! ### string literals and bracketed names: what they consume does not depend on what follows, except through
"is there another closing delimiter further on" (the engine's backtracking) -/

theorem strBody_q (q : Char) (t : List Char) : strBody q (q :: t) = some ([], t) := by
  rw [strBody.eq_def]; simp

theorem strBody_esc (q d : Char) (t' : List Char) (hne : ¬ '\\' = q) : strBody q ('\\' :: d :: t') =
    if (d = '\\' || d = q) && t'.contains q then (strBody q t').map (fun p => ('\\' :: d :: p.1, p.2))
    else (strBody q (d :: t')).map (fun p => ('\\' :: p.1, p.2)) := by
  rw [strBody.eq_def]; simp [hne]

theorem strBody_other (q c : Char) (t : List Char) (h1 : ¬ c = q) (h2 : ¬ c = '\\') :
    strBody q (c :: t) = (strBody q t).map (fun p => (c :: p.1, p.2)) := by
  rw [strBody.eq_def]; simp [h1, h2]

/-- a matched string body is `raw` followed by the closing quote, and the same body is matched in front of any other rest
that agrees on "contains another quote" -/
theorem strBody_local (q : Char) : ∀ (x raw rest : List Char), strBody q x = some (raw, rest) →
    x = raw ++ q :: rest ∧
      ∀ rest', rest'.contains q = rest.contains q → strBody q (raw ++ q :: rest') = some (raw, rest') := by
  intro x
  fun_induction strBody q x with
  | case1 => intro raw rest h; cases h
  | case2 t =>
    intro raw rest h
    simp only [Option.some.injEq, Prod.mk.injEq] at h
    obtain ⟨rfl, rfl⟩ := h
    exact ⟨rfl, fun rest' _ => strBody_q q rest'⟩
  | case3 d t' hcond hne ih =>
    intro raw rest h
    simp only [Option.map_eq_some_iff] at h
    obtain ⟨⟨raw1, rest1⟩, hp, heq⟩ := h
    simp only [Prod.mk.injEq] at heq
    obtain ⟨rfl, rfl⟩ := heq
    obtain ⟨ht, hl⟩ := ih raw1 rest1 hp
    refine ⟨by rw [ht]; rfl, fun rest' hc => ?_⟩
    have hc2 : (raw1 ++ q :: rest').contains q = true := by simp
    simp only [Bool.and_eq_true] at hcond
    have : ((decide (d = '\\') || decide (d = q)) && (raw1 ++ q :: rest').contains q) = true := by
      rw [hc2, hcond.1]; rfl
    simp only [List.cons_append]
    rw [strBody_esc q d _ hne, if_pos this, hl rest' hc]; rfl
  | case4 d r hcond hne ih =>
    intro raw rest h
    simp only [Option.map_eq_some_iff] at h
    obtain ⟨⟨raw1, rest1⟩, hp, heq⟩ := h
    simp only [Prod.mk.injEq] at heq
    obtain ⟨rfl, rfl⟩ := heq
    obtain ⟨ht, hl⟩ := ih raw1 rest1 hp
    refine ⟨by rw [ht]; rfl, fun rest' hc => ?_⟩
    cases raw1 with
    | nil =>
      simp only [List.nil_append, List.cons.injEq] at ht
      obtain ⟨rfl, rfl⟩ := ht
      have : ¬ ((decide (d = '\\') || decide (d = d)) && rest'.contains d) = true := by
        rw [hc]; exact hcond
      simp only [List.cons_append, List.nil_append]
      rw [strBody_esc d d _ hne, if_neg this, strBody_q]; rfl
    | cons a raw2 =>
      simp only [List.cons_append, List.cons.injEq] at ht
      obtain ⟨rfl, rfl⟩ := ht
      have hd : (decide (d = '\\') || decide (d = q)) = false := by
        cases hb : (decide (d = '\\') || decide (d = q)) with
        | false => rfl
        | true => exfalso; apply hcond; rw [hb]; simp
      have : ¬ ((decide (d = '\\') || decide (d = q)) && (raw2 ++ q :: rest').contains q) = true := by
        rw [hd]; simp
      have h2 := hl rest' hc
      simp only [List.cons_append] at h2 ⊢
      rw [strBody_esc q d _ hne, if_neg this, h2]; rfl
  | case5 => intro raw rest h; cases h
  | case6 c t hcq hcb ih =>
    intro raw rest h
    simp only [Option.map_eq_some_iff] at h
    obtain ⟨⟨raw1, rest1⟩, hp, heq⟩ := h
    simp only [Prod.mk.injEq] at heq
    obtain ⟨rfl, rfl⟩ := heq
    obtain ⟨ht, hl⟩ := ih raw1 rest1 hp
    refine ⟨by rw [ht]; rfl, fun rest' hc => ?_⟩
    simp only [List.cons_append]
    rw [strBody_other q c _ hcq hcb, hl rest' hc]; rfl

theorem bracketBody_close (t : List Char) : bracketBody (']' :: t) = some ([], t) := by
  rw [bracketBody.eq_def]; simp

theorem bracketBody_esc (d : Char) (t' : List Char) : bracketBody ('\\' :: d :: t') =
    if d = ']' && t'.contains ']' then (bracketBody t').map (fun p => ('\\' :: d :: p.1, p.2))
    else (bracketBody (d :: t')).map (fun p => ('\\' :: p.1, p.2)) := by
  rw [bracketBody.eq_def]; simp

theorem bracketBody_other (c : Char) (t : List Char) (h1 : ¬ c = ']') (h2 : ¬ c = '\\') :
    bracketBody (c :: t) = (bracketBody t).map (fun p => (c :: p.1, p.2)) := by
  rw [bracketBody.eq_def]; simp [h1, h2]

theorem bracketBody_local : ∀ (x raw rest : List Char), bracketBody x = some (raw, rest) →
    x = raw ++ ']' :: rest ∧
      ∀ rest', rest'.contains ']' = rest.contains ']' → bracketBody (raw ++ ']' :: rest') = some (raw, rest') := by
  intro x
  fun_induction bracketBody x with
  | case1 => intro raw rest h; cases h
  | case2 t =>
    intro raw rest h
    simp only [Option.some.injEq, Prod.mk.injEq] at h
    obtain ⟨rfl, rfl⟩ := h
    exact ⟨rfl, fun rest' _ => bracketBody_close rest'⟩
  | case3 d t' hcond _ ih =>
    intro raw rest h
    simp only [Option.map_eq_some_iff] at h
    obtain ⟨⟨raw1, rest1⟩, hp, heq⟩ := h
    simp only [Prod.mk.injEq] at heq
    obtain ⟨rfl, rfl⟩ := heq
    obtain ⟨ht, hl⟩ := ih raw1 rest1 hp
    refine ⟨by rw [ht]; rfl, fun rest' hc => ?_⟩
    have hc2 : (raw1 ++ ']' :: rest').contains ']' = true := by simp
    simp only [Bool.and_eq_true] at hcond
    have : (decide (d = ']') && (raw1 ++ ']' :: rest').contains ']') = true := by
      rw [hc2, hcond.1]; rfl
    simp only [List.cons_append]
    rw [bracketBody_esc d _, if_pos this, hl rest' hc]; rfl
  | case4 d r hcond _ ih =>
    intro raw rest h
    simp only [Option.map_eq_some_iff] at h
    obtain ⟨⟨raw1, rest1⟩, hp, heq⟩ := h
    simp only [Prod.mk.injEq] at heq
    obtain ⟨rfl, rfl⟩ := heq
    obtain ⟨ht, hl⟩ := ih raw1 rest1 hp
    refine ⟨by rw [ht]; rfl, fun rest' hc => ?_⟩
    cases raw1 with
    | nil =>
      simp only [List.nil_append, List.cons.injEq] at ht
      obtain ⟨rfl, rfl⟩ := ht
      have : ¬ (decide (']' = ']') && rest'.contains ']') = true := by
        rw [hc]; exact hcond
      simp only [List.cons_append, List.nil_append]
      rw [bracketBody_esc ']' _, if_neg this, bracketBody_close]; rfl
    | cons a raw2 =>
      simp only [List.cons_append, List.cons.injEq] at ht
      obtain ⟨rfl, rfl⟩ := ht
      have hd : decide (d = ']') = false := by
        cases hb : decide (d = ']') with
        | false => rfl
        | true => exfalso; apply hcond; rw [hb]; simp
      have : ¬ (decide (d = ']') && (raw2 ++ ']' :: rest').contains ']') = true := by
        rw [hd]; simp
      have h2 := hl rest' hc
      simp only [List.cons_append] at h2 ⊢
      rw [bracketBody_esc d _, if_neg this, h2]; rfl
  | case5 => intro raw rest h; cases h
  | case6 c t hcq hcb ih =>
    intro raw rest h
    simp only [Option.map_eq_some_iff] at h
    obtain ⟨⟨raw1, rest1⟩, hp, heq⟩ := h
    simp only [Prod.mk.injEq] at heq
    obtain ⟨rfl, rfl⟩ := heq
    obtain ⟨ht, hl⟩ := ih raw1 rest1 hp
    refine ⟨by rw [ht]; rfl, fun rest' hc => ?_⟩
    simp only [List.cons_append]
    rw [bracketBody_other c _ hcq hcb, hl rest' hc]; rfl

/-- `_R_EXPR_VARIABLE_EX` behind the opening bracket → (name, rest) -/
def brTail (r : List Char) : Option (List Char × List Char) :=
  match r.dropWhile isPySpace with
  | [] => none
  | d :: r2 =>
    if d = ']' then
      match (r.takeWhile isPySpace).getLast? with
      | some w => some ([w], r2)
      | none => none
    else (bracketBody (d :: r2)).map (fun p => (unescape ']' p.1, p.2))

theorem scanVariableEx_eq (t : List Char) :
    scanVariableEx t = match skipWs t with
      | c :: r => if c = '[' then brTail r else none
      | [] => none := rfl

theorem blank_takeWhile (t : List Char) : Blank (t.takeWhile isPySpace) := by
  intro c hc
  induction t with
  | nil => simp at hc
  | cons a as ih =>
    rw [List.takeWhile_cons] at hc
    split at hc
    · rcases List.mem_cons.mp hc with h | h
      · subst h; assumption
      · exact ih h
    · simp at hc

/-- what `brTail` consumed (`lit`, up to and including the closing bracket) is consumed in front of any other rest that
agrees on "contains another `]`" -/
theorem brTail_local (x n rest : List Char) (h : brTail x = some (n, rest)) :
    ∃ lit, lit ≠ [] ∧ x = lit ++ rest ∧
      ∀ rest', rest'.contains ']' = rest.contains ']' → brTail (lit ++ rest') = some (n, rest') := by
  have hsplit : x = x.takeWhile isPySpace ++ x.dropWhile isPySpace := List.takeWhile_append_dropWhile.symm
  have hbl := blank_takeWhile x
  unfold brTail at h
  split at h
  · cases h
  · rename_i d r2 hd
    have hdn : isPySpace d = false := dropWhile_head_not _ hd
    split at h
    · rename_i hdb
      subst hdb
      split at h
      · rename_i w hw
        simp only [Option.some.injEq, Prod.mk.injEq] at h
        obtain ⟨rfl, rfl⟩ := h
        refine ⟨x.takeWhile isPySpace ++ [']'], by simp, by rw [hd] at hsplit; simpa using hsplit, fun rest' _ => ?_⟩
        have e1 : List.dropWhile isPySpace (x.takeWhile isPySpace ++ [']'] ++ rest') = ']' :: rest' := by
          rw [List.append_assoc, List.dropWhile_append_of_pos hbl]; simp [hdn]
        have e2 : List.takeWhile isPySpace (x.takeWhile isPySpace ++ [']'] ++ rest') = x.takeWhile isPySpace := by
          rw [List.append_assoc, List.takeWhile_append_of_pos hbl]; simp [hdn]
        unfold brTail
        rw [e1]
        simp only [e2, hw, if_true]
      · cases h
    · rename_i hdb
      simp only [Option.map_eq_some_iff] at h
      obtain ⟨⟨raw, rest1⟩, hp, heq⟩ := h
      simp only [Prod.mk.injEq] at heq
      obtain ⟨rfl, rfl⟩ := heq
      obtain ⟨ht, hl⟩ := bracketBody_local _ _ _ hp
      have hraw : ∃ raw', raw ++ [']'] = d :: raw' := by
        cases raw with
        | nil => simp at ht; exact absurd ht.1 hdb
        | cons a raw' => simp at ht; exact ⟨raw' ++ [']'], by simp [ht.1]⟩
      obtain ⟨raw', hraw'⟩ := hraw
      refine ⟨x.takeWhile isPySpace ++ (raw ++ [']']), by simp, ?_, fun rest' hc => ?_⟩
      · rw [hd, ht] at hsplit; simpa using hsplit
      · have e1 : List.dropWhile isPySpace (x.takeWhile isPySpace ++ (raw ++ [']']) ++ rest') = d :: (raw' ++ rest') := by
          rw [List.append_assoc, List.dropWhile_append_of_pos hbl, hraw']; simp [hdn]
        have e3 : d :: (raw' ++ rest') = raw ++ ']' :: rest' := by
          rw [← List.cons_append, ← hraw']; simp
        unfold brTail
        rw [e1]
        simp only [hdb, if_false]
        rw [e3, hl rest' hc]; rfl

theorem beq_false_of_ne' {a b : Char} (h : ¬ b = a) : (a == b) = false := by
  rw [beq_eq_false_iff_ne]; exact fun e => h e.symm

/-- a string body fails to match exactly when no closing quote follows -/
theorem strBody_none_iff (q : Char) (x : List Char) : strBody q x = none ↔ x.contains q = false := by
  fun_induction strBody q x with
  | case1 => simp
  | case2 t => simp
  | case3 d t' hcond hne ih =>
    simp only [Option.map_eq_none_iff, ih, List.contains_cons]
    simp only [Bool.and_eq_true] at hcond
    have : (q == '\\') = false := beq_false_of_ne' hne
    rw [this, hcond.2]; simp
  | case4 d r hcond hne ih =>
    simp only [Option.map_eq_none_iff, ih]
    have : (q == '\\') = false := beq_false_of_ne' hne
    conv => rhs; rw [List.contains_cons, this, Bool.false_or]
  | case5 hne =>
    have : (q == '\\') = false := beq_false_of_ne' hne
    simp only [List.contains_cons, this, List.contains_nil, Bool.or_false]
  | case6 c t hcq hcb ih =>
    simp only [Option.map_eq_none_iff, ih]
    have : (q == c) = false := beq_false_of_ne' hcq
    conv => rhs; rw [List.contains_cons, this, Bool.false_or]

theorem bracketBody_none_iff (x : List Char) : bracketBody x = none ↔ x.contains ']' = false := by
  fun_induction bracketBody x with
  | case1 => simp
  | case2 t => simp
  | case3 d t' hcond hne ih =>
    simp only [Option.map_eq_none_iff, ih, List.contains_cons]
    simp only [Bool.and_eq_true] at hcond
    rw [hcond.2]; simp
  | case4 d r hcond hne ih =>
    simp only [Option.map_eq_none_iff, ih]
    have : (']' == '\\') = false := by decide
    conv => rhs; rw [List.contains_cons, this, Bool.false_or]
  | case5 hne => decide
  | case6 c t hcq hcb ih =>
    simp only [Option.map_eq_none_iff, ih]
    have : (']' == c) = false := beq_false_of_ne' hcq
    conv => rhs; rw [List.contains_cons, this, Bool.false_or]

theorem brTail_none_of_not_contains {t : List Char} (h : t.contains ']' = false) : brTail t = none := by
  have hsplit : t = t.takeWhile isPySpace ++ t.dropWhile isPySpace := List.takeWhile_append_dropWhile.symm
  unfold brTail
  split
  · rfl
  · rename_i d r2 hd
    have hc : (d :: r2).contains ']' = false := by
      rw [hsplit, List.contains_append, hd] at h
      simp only [Bool.or_eq_false_iff] at h; exact h.2
    have hd' : ¬ d = ']' := by
      intro e; subst e; simp at hc
    simp only [hd', if_false, (bracketBody_none_iff _).mpr hc, Option.map_none]

/-- `brTail` fails on a text that contains a `]` only for `[]…` -/
theorem brTail_none_contains {t : List Char} (h : brTail t = none) (hc : t.contains ']' = true) : ∃ r2, t = ']' :: r2 := by
  have hsplit : t = t.takeWhile isPySpace ++ t.dropWhile isPySpace := List.takeWhile_append_dropWhile.symm
  unfold brTail at h
  split at h
  · rename_i hd
    exfalso
    rw [hsplit, hd, List.append_nil] at hc
    rw [blank_contains (blank_takeWhile t) (by decide)] at hc; cases hc
  · rename_i d r2 hd
    split at h
    · rename_i hdb
      subst hdb
      split at h
      · cases h
      · rename_i hnone
        have : t.takeWhile isPySpace = [] := by
          cases hw : t.takeWhile isPySpace with
          | nil => rfl
          | cons a as =>
            exfalso; rw [hw] at hnone
            simp [List.getLast?_eq_some_getLast] at hnone
        rw [this, hd, List.nil_append] at hsplit
        exact ⟨r2, hsplit⟩
    · exfalso
      simp only [Option.map_eq_none_iff] at h
      have h2 := (bracketBody_none_iff _).mp h
      rw [hsplit, List.contains_append, hd, h2, blank_contains (blank_takeWhile t) (by decide)] at hc
      cases hc

theorem brTail_empty (r : List Char) : brTail (']' :: r) = none := by
  have h0 : isPySpace ']' = false := by decide
  have h1 : List.dropWhile isPySpace (']' :: r) = ']' :: r := by simp [h0]
  have h2 : List.takeWhile isPySpace (']' :: r) = [] := by simp [h0]
  unfold brTail
  rw [h1]; simp only [h2, if_true]; rfl

theorem consumes_string (q : Char) : Consumes (scanString q) := by
  intro t x r h
  simp only [scanString] at h
  split at h
  · rename_i c r' hs
    rw [hs]
    split at h
    · simp only [Option.map_eq_some_iff] at h
      obtain ⟨⟨raw, rest⟩, hp, heq⟩ := h
      simp only [Prod.mk.injEq] at heq
      obtain ⟨_, rfl⟩ := heq
      have := (strBody_local q _ _ _ hp).1
      rw [this]; simp; omega
    · cases h
  · cases h

theorem consumes_variableEx : Consumes scanVariableEx := by
  intro t x r h
  rw [scanVariableEx_eq] at h
  split at h
  · rename_i c r' hs
    rw [hs]
    split at h
    · obtain ⟨lit, _, hx, _⟩ := brTail_local _ _ _ h
      rw [hx]; simp; omega
    · cases h
  · cases h

/-! ## instance 1: blanks in front of the whole text -/

/-- `ws ++ s` against `s`: the two whole texts, or the same remaining text strictly inside -/
def LeadR (ws s : List Char) (t t' : List Char) : Prop := (t = s ∧ t' = ws ++ s) ∨ (t = t' ∧ t.length < s.length)

theorem lead_scanner {α : Type} {ws s : List Char} (hws : Blank ws) {sc : List Char → Option (α × List Char)}
    (h1 : SkipsWs sc) (h2 : Consumes sc) {t t' : List Char} (h : LeadR ws s t t') :
    ORel (LeadR ws s) (sc t) (sc t') := by
  have key : ∀ u, u.length ≤ s.length → ORel (LeadR ws s) (sc u) (sc u) := by
    intro u hu
    cases hsc : sc u with
    | none => trivial
    | some x =>
      obtain ⟨a, r⟩ := x
      have := h2 u a r hsc
      have := skipWs_length_le u
      exact ⟨rfl, Or.inr ⟨rfl, by simp only; omega⟩⟩
  rcases h with ⟨rfl, rfl⟩ | ⟨rfl, hl⟩
  · rw [h1 (ws ++ t), skipWs_blank_append hws, ← h1 t]
    exact key t (Nat.le_refl _)
  · exact key t (by omega)

theorem lead_respects {ws s : List Char} (hws : Blank ws) : Respects (LeadR ws s) where
  binOp h := lead_scanner hws skips_binOp consumes_binOp h
  unOp h := lead_scanner hws skips_unOp consumes_unOp h
  groupOpen h := ORel1_of_unit (lead_scanner hws (skips_char _) (consumes_char _) h)
  close h := ORel1_of_unit (lead_scanner hws (skips_char _) (consumes_char _) h)
  comma h := ORel1_of_unit (lead_scanner hws (skips_char _) (consumes_char _) h)
  funcOpen h := lead_scanner hws skips_funcOpen consumes_funcOpen h
  number h := lead_scanner hws skips_number consumes_number h
  strS h := lead_scanner hws (skips_string _) (consumes_string _) h
  strD h := lead_scanner hws (skips_string _) (consumes_string _) h
  var h := lead_scanner hws skips_variable consumes_variable h
  varEx h := lead_scanner hws skips_variableEx consumes_variableEx h

/-! ## instance 2: one blank run outside string literals and bracketed names replaced by another -/

/-- the characters that open a token inside which white space is significant -/
def special (c : Char) : Bool := c == '\'' || c == '"' || c == '['

/-- `Gap ws ws' q t t'`: `t = a ++ ws ++ q` and `t' = a ++ ws' ++ q` for a text `a` that — read from its start as a
sequence of ordinary characters, complete string literals (as `strBody` delimits them, in the context of the whole text)
and complete bracketed names (as `_R_EXPR_VARIABLE_EX` delimits them) — ends exactly in front of the site.  So the
site `ws`/`ws'` is not inside a string literal nor inside a bracketed name.  (`strFail`/`brFail`: a quote that no later
quote closes, a `[` that `_R_EXPR_VARIABLE_EX` does not match, open nothing — no token pattern matches there — and are
passed like ordinary characters.) -/
inductive Gap (ws ws' q : List Char) : List Char → List Char → Prop
  | site : Gap ws ws' q (ws ++ q) (ws' ++ q)
  | cons (c : Char) {t t' : List Char} : special c = false → Gap ws ws' q t t' → Gap ws ws' q (c :: t) (c :: t')
  | str (qc : Char) (raw : List Char) {t t' : List Char} : (qc = '\'' ∨ qc = '"') →
      strBody qc (raw ++ qc :: t) = some (raw, t) → Gap ws ws' q t t' →
      Gap ws ws' q (qc :: (raw ++ qc :: t)) (qc :: (raw ++ qc :: t'))
  | br (lit n : List Char) {t t' : List Char} : brTail (lit ++ t) = some (n, t) → Gap ws ws' q t t' →
      Gap ws ws' q ('[' :: (lit ++ t)) ('[' :: (lit ++ t'))
  | strFail (qc : Char) {t t' : List Char} : (qc = '\'' ∨ qc = '"') → t.contains qc = false → Gap ws ws' q t t' →
      Gap ws ws' q (qc :: t) (qc :: t')
  | brFail {t t' : List Char} : brTail t = none → Gap ws ws' q t t' → Gap ws ws' q ('[' :: t) ('[' :: t')

/-- the two runs are blank; both non-empty, unless the site is the end of the text -/
structure GapOK (ws ws' q : List Char) : Prop where
  blank : Blank ws
  blank' : Blank ws'
  ne : (ws ≠ [] ∧ ws' ≠ []) ∨ q = []

/-- before the site, or the same remaining text behind it -/
def GapR (ws ws' q : List Char) (t t' : List Char) : Prop := Gap ws ws' q t t' ∨ (t = t' ∧ t.length < q.length)

section GapSec
variable {ws ws' q : List Char}

theorem Gap.length {t t' : List Char} (h : Gap ws ws' q t t') :
    t.length + ws'.length = t'.length + ws.length ∧ ws.length + q.length ≤ t.length := by
  induction h with
  | site => simp; omega
  | cons c _ _ ih => simp; omega
  | str qc raw _ _ _ ih => simp; omega
  | br lit n _ _ ih => simp; omega
  | strFail qc _ _ _ ih => simp; omega
  | brFail _ _ ih => simp; omega

theorem Gap.contains (ok : GapOK ws ws' q) {t t' : List Char} (h : Gap ws ws' q t t') {c : Char} (hc : isPySpace c = false) :
    t.contains c = t'.contains c := by
  induction h with
  | site => simp only [List.contains_append, blank_contains ok.blank hc, blank_contains ok.blank' hc]
  | cons d _ _ ih => simp only [List.contains_cons, ih]
  | str qc raw _ _ _ ih => simp only [List.contains_cons, List.contains_append, ih]
  | br lit n _ _ ih => simp only [List.contains_cons, List.contains_append, ih]
  | strFail qc _ _ _ ih => simp only [List.contains_cons, ih]
  | brFail _ _ ih => simp only [List.contains_cons, ih]

/-- skipping leading white space: either the site is reached (same text behind it), or both texts continue with the same
non-blank character, still in front of the site -/
theorem Gap.skipWs (ok : GapOK ws ws' q) {t t' : List Char} (h : Gap ws ws' q t t') :
    (skipWs t = skipWs t' ∧ (skipWs t).length ≤ q.length) ∨
    (∃ d r r', isPySpace d = false ∧ skipWs t = d :: r ∧ skipWs t' = d :: r' ∧ Gap ws ws' q (d :: r) (d :: r')) := by
  induction h with
  | site =>
    left
    rw [skipWs_blank_append ok.blank, skipWs_blank_append ok.blank']
    exact ⟨rfl, skipWs_length_le q⟩
  | @cons c t t' hc hg ih =>
    by_cases hb : isPySpace c = true
    · rw [skipWs_cons_blank _ hb, skipWs_cons_blank _ hb]; exact ih
    · have hb' : isPySpace c = false := by simpa using hb
      right
      exact ⟨c, t, t', hb', skipWs_nonblank _ hb', skipWs_nonblank _ hb', Gap.cons c hc hg⟩
  | @str qc raw t t' hq hs hg ih =>
    have hb' : isPySpace qc = false := by rcases hq with rfl | rfl <;> decide
    right
    exact ⟨qc, _, _, hb', skipWs_nonblank _ hb', skipWs_nonblank _ hb', Gap.str qc raw hq hs hg⟩
  | @br lit n t t' hs hg ih =>
    right
    exact ⟨'[', _, _, by decide, skipWs_nonblank _ (by decide), skipWs_nonblank _ (by decide), Gap.br lit n hs hg⟩
  | @strFail qc t t' hq hs hg ih =>
    have hb' : isPySpace qc = false := by rcases hq with rfl | rfl <;> decide
    right
    exact ⟨qc, _, _, hb', skipWs_nonblank _ hb', skipWs_nonblank _ hb', Gap.strFail qc hq hs hg⟩
  | @brFail t t' hs hg ih =>
    right
    exact ⟨'[', _, _, by decide, skipWs_nonblank _ (by decide), skipWs_nonblank _ (by decide), Gap.brFail hs hg⟩

/-- a scanner that begins with `\s*`, consumes something, and respects `Gap` on texts that start with a non-blank
character, respects `GapR` -/
theorem gap_scanner (ok : GapOK ws ws' q) {α : Type} {sc : List Char → Option (α × List Char)}
    (h1 : SkipsWs sc) (h2 : Consumes sc)
    (hmain : ∀ d r r', isPySpace d = false → Gap ws ws' q (d :: r) (d :: r') →
      ORel (GapR ws ws' q) (sc (d :: r)) (sc (d :: r')))
    {t t' : List Char} (h : GapR ws ws' q t t') : ORel (GapR ws ws' q) (sc t) (sc t') := by
  have key : ∀ u, (skipWs u).length ≤ q.length → ORel (GapR ws ws' q) (sc u) (sc u) := by
    intro u hu
    cases hsc : sc u with
    | none => trivial
    | some x =>
      obtain ⟨a, r⟩ := x
      have := h2 u a r hsc
      exact ⟨rfl, Or.inr ⟨rfl, by simp only; omega⟩⟩
  rcases h with hg | ⟨rfl, hl⟩
  · rcases hg.skipWs ok with ⟨he, hl⟩ | ⟨d, r, r', hd, e1, e2, hg'⟩
    · rw [h1 t', ← he, ← h1 t]; exact key t hl
    · rw [h1 t, h1 t', e1, e2]; exact hmain d r r' hd hg'
  · exact key t (by have := skipWs_length_le t; omega)

/-- what a `Gap` pair looks like when the first text starts with a non-blank character -/
theorem Gap.inv (ok : GapOK ws ws' q) {d : Char} {r x' : List Char} (h : Gap ws ws' q (d :: r) x') (hd : isPySpace d = false) :
    (special d = false ∧ ∃ r', x' = d :: r' ∧ Gap ws ws' q r r') ∨
    ((d = '\'' ∨ d = '"') ∧ ∃ raw t1 t1', r = raw ++ d :: t1 ∧ x' = d :: (raw ++ d :: t1') ∧
        strBody d (raw ++ d :: t1) = some (raw, t1) ∧ Gap ws ws' q t1 t1') ∨
    (d = '[' ∧ ∃ lit n t1 t1', r = lit ++ t1 ∧ x' = '[' :: (lit ++ t1') ∧ brTail (lit ++ t1) = some (n, t1) ∧
        Gap ws ws' q t1 t1') ∨
    ((d = '\'' ∨ d = '"') ∧ r.contains d = false ∧ ∃ r', x' = d :: r' ∧ Gap ws ws' q r r') ∨
    (d = '[' ∧ brTail r = none ∧ ∃ r', x' = '[' :: r' ∧ Gap ws ws' q r r') := by
  generalize hx : d :: r = x at h
  cases h with
  | site =>
    exfalso
    cases hws : ws with
    | nil =>
      rcases ok.ne with ⟨h1, _⟩ | h2
      · exact h1 hws
      · rw [hws, h2] at hx; cases hx
    | cons w ws1 =>
      rw [hws] at hx
      simp only [List.cons_append, List.cons.injEq] at hx
      have := ok.blank w (by rw [hws]; simp)
      rw [← hx.1, hd] at this; cases this
  | @cons c t t' hc hg =>
    simp only [List.cons.injEq] at hx
    obtain ⟨rfl, rfl⟩ := hx
    exact Or.inl ⟨hc, t', rfl, hg⟩
  | @str qc raw t t' hq hs hg =>
    simp only [List.cons.injEq] at hx
    obtain ⟨rfl, rfl⟩ := hx
    exact Or.inr (Or.inl ⟨hq, raw, t, t', rfl, rfl, hs, hg⟩)
  | @br lit n t t' hs hg =>
    simp only [List.cons.injEq] at hx
    obtain ⟨rfl, rfl⟩ := hx
    exact Or.inr (Or.inr (Or.inl ⟨rfl, lit, n, t, t', rfl, rfl, hs, hg⟩))
  | @strFail qc t t' hq hs hg =>
    simp only [List.cons.injEq] at hx
    obtain ⟨rfl, rfl⟩ := hx
    exact Or.inr (Or.inr (Or.inr (Or.inl ⟨hq, hs, t', rfl, hg⟩)))
  | @brFail t t' hs hg =>
    simp only [List.cons.injEq] at hx
    obtain ⟨rfl, rfl⟩ := hx
    exact Or.inr (Or.inr (Or.inr (Or.inr ⟨rfl, hs, t', rfl, hg⟩)))

/-- an ordinary character: not white space, does not open a string literal or a bracketed name -/
def ord (c : Char) : Bool := !isPySpace c && !special c

/-- the text does not start with an ordinary character -/
def NoOrd (t : List Char) : Prop := ∀ c r, t = c :: r → ord c = false

theorem blank_noOrd {ws : List Char} (h : Blank ws) : NoOrd ws := by
  intro c r e
  have := h c (by rw [e]; simp)
  simp [ord, this]

/-- one step through a `Gap` pair: the same ordinary character in front of a `Gap` pair, or no ordinary character at the
start of either text -/
theorem Gap.step (ok : GapOK ws ws' q) {t t' : List Char} (h : Gap ws ws' q t t') :
    (∃ c t1 t1', ord c = true ∧ t = c :: t1 ∧ t' = c :: t1' ∧ Gap ws ws' q t1 t1') ∨ (NoOrd t ∧ NoOrd t') := by
  cases h with
  | site =>
    right
    rcases ok.ne with ⟨h1, h2⟩ | h3
    · constructor
      · intro c r e
        cases hws : ws with
        | nil => exact absurd hws h1
        | cons w ws1 =>
          rw [hws] at e; simp only [List.cons_append, List.cons.injEq] at e
          have := ok.blank w (by rw [hws]; simp)
          rw [← e.1]; simp [ord, this]
      · intro c r e
        cases hws : ws' with
        | nil => exact absurd hws h2
        | cons w ws1 =>
          rw [hws] at e; simp only [List.cons_append, List.cons.injEq] at e
          have := ok.blank' w (by rw [hws]; simp)
          rw [← e.1]; simp [ord, this]
    · subst h3
      simp only [List.append_nil]
      exact ⟨blank_noOrd ok.blank, blank_noOrd ok.blank'⟩
  | @cons c t t' hc hg =>
    by_cases ho : ord c = true
    · exact Or.inl ⟨c, t, t', ho, rfl, rfl, hg⟩
    · right
      have ho' : ord c = false := by simpa using ho
      exact ⟨fun c' r e => by cases e; exact ho', fun c' r e => by cases e; exact ho'⟩
  | @str qc raw t t' hq hs hg =>
    right
    have : ord qc = false := by rcases hq with rfl | rfl <;> decide
    exact ⟨fun c' r e => by cases e; exact this, fun c' r e => by cases e; exact this⟩
  | @br lit n t t' hs hg =>
    right
    exact ⟨fun c' r e => by cases e; decide, fun c' r e => by cases e; decide⟩
  | @strFail qc t t' hq hs hg =>
    right
    have : ord qc = false := by rcases hq with rfl | rfl <;> decide
    exact ⟨fun c' r e => by cases e; exact this, fun c' r e => by cases e; exact this⟩
  | @brFail t t' hs hg =>
    right
    exact ⟨fun c' r e => by cases e; decide, fun c' r e => by cases e; decide⟩

/-! ### the scanners on a `Gap` pair -/

theorem site_noOrd (ok : GapOK ws ws' q) : NoOrd (ws ++ q) ∧ NoOrd (ws' ++ q) := by
  rcases (Gap.site : Gap ws ws' q _ _).step ok with ⟨c, t1, t1', hc, e1, e2, _⟩ | h
  · exfalso
    cases hws : ws with
    | nil =>
      rcases ok.ne with ⟨h1, _⟩ | h2
      · exact h1 hws
      · rw [hws, h2] at e1; cases e1
    | cons w ws1 =>
      rw [hws] at e1
      simp only [List.cons_append, List.cons.injEq] at e1
      have := ok.blank w (by rw [hws]; simp)
      rw [e1.1] at this; simp [ord, this] at hc
  · exact h

theorem noOrd_takeWhile {p : Char → Bool} (hp : ∀ c, p c = true → ord c = true) {t : List Char} (h : NoOrd t) :
    t.takeWhile p = [] ∧ t.dropWhile p = t := by
  cases t with
  | nil => simp
  | cons c r =>
    have h1 := h c r rfl
    have : p c = false := by
      cases hpc : p c with
      | false => rfl
      | true => rw [hp c hpc] at h1; cases h1
    simp [this]

theorem Gap.takeWhile (ok : GapOK ws ws' q) {p : Char → Bool} (hp : ∀ c, p c = true → ord c = true)
    {t t' : List Char} (h : Gap ws ws' q t t') :
    t.takeWhile p = t'.takeWhile p ∧ Gap ws ws' q (t.dropWhile p) (t'.dropWhile p) := by
  induction h with
  | site =>
    obtain ⟨n1, n2⟩ := site_noOrd ok
    rw [(noOrd_takeWhile hp n1).1, (noOrd_takeWhile hp n1).2, (noOrd_takeWhile hp n2).1, (noOrd_takeWhile hp n2).2]
    exact ⟨rfl, Gap.site⟩
  | @cons c t t' hc hg ih =>
    by_cases hpc : p c = true
    · simp only [List.takeWhile_cons, List.dropWhile_cons, hpc, if_true]
      exact ⟨by rw [ih.1], ih.2⟩
    · simp only [List.takeWhile_cons, List.dropWhile_cons, hpc]
      exact ⟨rfl, Gap.cons c hc hg⟩
  | @str qc raw t t' hq hs hg ih =>
    have hpc : ¬ p qc = true := by
      intro h1; have := hp qc h1; rcases hq with rfl | rfl <;> simp [ord, special] at this
    simp only [List.takeWhile_cons, List.dropWhile_cons, hpc]
    exact ⟨rfl, Gap.str qc raw hq hs hg⟩
  | @br lit n t t' hs hg ih =>
    have hpc : ¬ p '[' = true := by
      intro h1; have := hp '[' h1; simp [ord, special] at this
    simp only [List.takeWhile_cons, List.dropWhile_cons, hpc]
    exact ⟨rfl, Gap.br lit n hs hg⟩
  | @strFail qc t t' hq hs hg ih =>
    have hpc : ¬ p qc = true := by
      intro h1; have := hp qc h1; rcases hq with rfl | rfl <;> simp [ord, special] at this
    simp only [List.takeWhile_cons, List.dropWhile_cons, hpc]
    exact ⟨rfl, Gap.strFail qc hq hs hg⟩
  | @brFail t t' hs hg ih =>
    have hpc : ¬ p '[' = true := by
      intro h1; have := hp '[' h1; simp [ord, special] at this
    simp only [List.takeWhile_cons, List.dropWhile_cons, hpc]
    exact ⟨rfl, Gap.brFail hs hg⟩

theorem noOrd_stripPrefix {x : Char} (xs : List Char) (hx : ord x = true) {t : List Char} (h : NoOrd t) :
    stripPrefix? (x :: xs) t = none := by
  cases t with
  | nil => rfl
  | cons c r =>
    have h1 := h c r rfl
    have : x ≠ c := by intro e; rw [e, h1] at hx; cases hx
    simp [stripPrefix?, this]

theorem Gap.stripPrefix (ok : GapOK ws ws' q) : ∀ (p : List Char), (∀ c ∈ p, ord c = true) → ∀ t t' : List Char,
    Gap ws ws' q t t' → ORel1 (Gap ws ws' q) (stripPrefix? p t) (stripPrefix? p t')
  | [], _, t, t', h => by simpa [stripPrefix?, ORel1] using h
  | x :: xs, hp, t, t', h => by
    rcases h.step ok with ⟨c, t1, t1', _, rfl, rfl, hg⟩ | ⟨n1, n2⟩
    · simp only [stripPrefix?]
      split
      · exact Gap.stripPrefix ok xs (fun c hc => hp c (List.mem_cons_of_mem _ hc)) t1 t1' hg
      · trivial
    · rw [noOrd_stripPrefix xs (hp x (by simp)) n1, noOrd_stripPrefix xs (hp x (by simp)) n2]; trivial

theorem Gap.firstAlt (ok : GapOK ws ws' q) {α : Type} : ∀ (alts : List (List Char × α)),
    (∀ p ∈ alts, ∀ c ∈ p.1, ord c = true) → ∀ t t' : List Char, Gap ws ws' q t t' →
    ORel (Gap ws ws' q) (firstAlt alts t) (firstAlt alts t')
  | [], _, _, _, _ => by simp [ExprScan.firstAlt, ORel]
  | (p, a) :: rest, hp, t, t', h => by
    have h1 := Gap.stripPrefix ok p (hp (p, a) (by simp)) t t' h
    simp only [ExprScan.firstAlt]
    cases e1 : stripPrefix? p t <;> cases e2 : stripPrefix? p t' <;> simp only [e1, e2, ORel1] at h1 ⊢
    · exact Gap.firstAlt ok rest (fun x hx => hp x (List.mem_cons_of_mem _ hx)) t t' h
    · exact ⟨rfl, h1⟩

theorem gapR_of_gap : ∀ a b, Gap ws ws' q a b → GapR ws ws' q a b := fun _ _ h => Or.inl h

theorem gap_binOp (ok : GapOK ws ws' q) {t t' : List Char} (h : GapR ws ws' q t t') :
    ORel (GapR ws ws' q) (scanBinOp t) (scanBinOp t') := by
  refine gap_scanner ok skips_binOp consumes_binOp (fun d r r' hd hg => ?_) h
  simp only [scanBinOp, skipWs_nonblank _ hd]
  exact (Gap.firstAlt ok binOpAlts (by decide) _ _ hg).mono gapR_of_gap

theorem gap_unOp (ok : GapOK ws ws' q) {t t' : List Char} (h : GapR ws ws' q t t') :
    ORel (GapR ws ws' q) (scanUnaryOp t) (scanUnaryOp t') := by
  refine gap_scanner ok skips_unOp consumes_unOp (fun d r r' hd hg => ?_) h
  simp only [scanUnaryOp, skipWs_nonblank _ hd]
  exact (Gap.firstAlt ok unOpAlts (by decide) _ _ hg).mono gapR_of_gap

theorem gap_char (ok : GapOK ws ws' q) (c : Char) (hc : ord c = true) {t t' : List Char} (h : GapR ws ws' q t t') :
    ORel (GapR ws ws' q) (unitSc (scanChar c) t) (unitSc (scanChar c) t') := by
  refine gap_scanner ok (skips_char c) (consumes_char c) (fun d r r' hd hg => ?_) h
  simp only [unitSc, scanChar, skipWs_nonblank _ hd]
  rcases hg.step ok with ⟨c0, t1, t1', _, e1, e2, hg1⟩ | ⟨n1, _⟩
  · simp only [List.cons.injEq] at e1 e2
    obtain ⟨rfl, rfl⟩ := e1
    obtain ⟨_, rfl⟩ := e2
    split
    · exact ⟨rfl, Or.inl hg1⟩
    · trivial
  · have : d ≠ c := by intro e; have := n1 d r rfl; rw [e, hc] at this; cases this
    simp [this, ORel]

theorem word_ord (c : Char) (h : isWord c = true) : ord c = true := by
  have hs : isPySpace c = false := C02.word_not_space h
  have hsp : special c = false := by
    cases hq : special c with
    | false => rfl
    | true =>
      exfalso
      simp only [special, Bool.or_eq_true, beq_iff_eq] at hq
      rcases hq with (rfl | rfl) | rfl <;> revert h <;> decide
  simp [ord, hs, hsp]

theorem idStart_ord (c : Char) (h : isIdStart c = true) : ord c = true :=
  word_ord c (C02.idStart_word h)

theorem digit_ord (c : Char) (h : isDigit c = true) : ord c = true :=
  word_ord c (C02.digit_word h)

theorem gap_variable (ok : GapOK ws ws' q) {t t' : List Char} (h : GapR ws ws' q t t') :
    ORel (GapR ws ws' q) (scanVariable t) (scanVariable t') := by
  refine gap_scanner ok skips_variable consumes_variable (fun d r r' hd hg => ?_) h
  simp only [scanVariable, skipWs_nonblank _ hd]
  by_cases hid : isIdStart d = true
  · rcases hg.step ok with ⟨c0, t1, t1', _, e1, e2, hg1⟩ | ⟨n1, _⟩
    · simp only [List.cons.injEq] at e1 e2
      obtain ⟨rfl, rfl⟩ := e1
      obtain ⟨_, rfl⟩ := e2
      obtain ⟨h1, h2⟩ := hg1.takeWhile ok word_ord
      simp only [hid, if_true]
      exact ⟨by simp only; rw [h1], Or.inl h2⟩
    · have := n1 d r rfl; rw [idStart_ord d hid] at this; cases this
  · simp [hid, ORel]

theorem scanFuncOpen_eq (t : List Char) :
    scanFuncOpen t = match skipWs t with
      | c :: r => if isIdStart c then (scanChar '(' (r.dropWhile isWord)).map (fun r2 => (c :: r.takeWhile isWord, r2)) else none
      | [] => none := by
  unfold scanFuncOpen scanChar
  cases skipWs t with
  | nil => rfl
  | cons c r =>
    simp only []
    split
    · cases skipWs (List.dropWhile isWord r) with
      | nil => rfl
      | cons d r2 => simp only []; split <;> rfl
    · rfl

theorem gap_funcOpen (ok : GapOK ws ws' q) {t t' : List Char} (h : GapR ws ws' q t t') :
    ORel (GapR ws ws' q) (scanFuncOpen t) (scanFuncOpen t') := by
  refine gap_scanner ok skips_funcOpen consumes_funcOpen (fun d r r' hd hg => ?_) h
  simp only [scanFuncOpen_eq, skipWs_nonblank _ hd]
  by_cases hid : isIdStart d = true
  · rcases hg.step ok with ⟨c0, t1, t1', _, e1, e2, hg1⟩ | ⟨n1, _⟩
    · simp only [List.cons.injEq] at e1 e2
      obtain ⟨rfl, rfl⟩ := e1
      obtain ⟨_, rfl⟩ := e2
      obtain ⟨h1, h2⟩ := hg1.takeWhile ok word_ord
      have h3 := gap_char ok '(' (by decide) (Or.inl h2)
      simp only [hid, if_true, h1]
      simp only [unitSc] at h3
      cases e3 : scanChar '(' (List.dropWhile isWord r) <;> cases e4 : scanChar '(' (List.dropWhile isWord r') <;>
        simp only [e3, e4, Option.map_some, Option.map_none, ORel] at h3 ⊢
      exact ⟨by trivial, h3.2⟩
    · have := n1 d r rfl; rw [idStart_ord d hid] at this; cases this
  · simp [hid, ORel]

/-! #### numbers -/

theorem noOrd_scanSign {t : List Char} (h : NoOrd t) : scanSign t = (false, t) := by
  cases t with
  | nil => rfl
  | cons c r =>
    have h0 := h c r rfl
    have h1 : c ≠ '+' := by intro e; subst e; revert h0; decide
    have h2 : c ≠ '-' := by intro e; subst e; revert h0; decide
    simp [scanSign, h1, h2]

theorem Gap.scanSign (ok : GapOK ws ws' q) {t t' : List Char} (h : Gap ws ws' q t t') :
    (scanSign t).1 = (scanSign t').1 ∧ Gap ws ws' q (scanSign t).2 (scanSign t').2 := by
  rcases h.step ok with ⟨c, t1, t1', _, rfl, rfl, hg⟩ | ⟨n1, n2⟩
  · simp only [ExprScan.scanSign]
    split
    · exact ⟨rfl, hg⟩
    · split
      · exact ⟨rfl, hg⟩
      · exact ⟨rfl, h⟩
  · rw [noOrd_scanSign n1, noOrd_scanSign n2]; exact ⟨rfl, h⟩

theorem noOrd_scanFrac {t : List Char} (h : NoOrd t) : scanFrac t = ([], t) := by
  cases t with
  | nil => rfl
  | cons c r =>
    have h0 := h c r rfl
    have h1 : c ≠ '.' := by intro e; subst e; revert h0; decide
    simp [scanFrac, h1]

theorem Gap.scanFrac (ok : GapOK ws ws' q) {t t' : List Char} (h : Gap ws ws' q t t') :
    (scanFrac t).1 = (scanFrac t').1 ∧ Gap ws ws' q (scanFrac t).2 (scanFrac t').2 := by
  rcases h.step ok with ⟨c, t1, t1', _, rfl, rfl, hg⟩ | ⟨n1, n2⟩
  · simp only [ExprScan.scanFrac]
    obtain ⟨h1, h2⟩ := hg.takeWhile ok digit_ord
    split
    · exact ⟨h1, h2⟩
    · exact ⟨rfl, h⟩
  · rw [noOrd_scanFrac n1, noOrd_scanFrac n2]; exact ⟨rfl, h⟩

theorem noOrd_scanExp {t : List Char} (h : NoOrd t) : scanExp t = (0, t) := by
  match t, h with
  | [], _ => rfl
  | [c], _ => rfl
  | c :: s :: r, h =>
    have h0 := h c _ rfl
    have h1 : c ≠ 'e' := by intro e; subst e; revert h0; decide
    simp [scanExp, h1]

theorem scanExp_not_e {c : Char} (t : List Char) (h : c ≠ 'e') : scanExp (c :: t) = (0, c :: t) := by
  cases t with
  | nil => rfl
  | cons s r => simp [scanExp, h]

theorem scanExp_e_noOrd {t : List Char} (h : NoOrd t) : scanExp ('e' :: t) = (0, 'e' :: t) := by
  cases t with
  | nil => rfl
  | cons s r =>
    have h0 := h s r rfl
    have h1 : s ≠ '+' := by intro e; subst e; revert h0; decide
    have h2 : s ≠ '-' := by intro e; subst e; revert h0; decide
    simp [scanExp, h1, h2]

theorem Gap.scanExp (ok : GapOK ws ws' q) {t t' : List Char} (h : Gap ws ws' q t t') :
    (scanExp t).1 = (scanExp t').1 ∧ Gap ws ws' q (scanExp t).2 (scanExp t').2 := by
  rcases h.step ok with ⟨c, t1, t1', _, rfl, rfl, hg⟩ | ⟨n1, n2⟩
  · by_cases hc : c = 'e'
    · subst hc
      rcases hg.step ok with ⟨s, t2, t2', _, rfl, rfl, hg2⟩ | ⟨m1, m2⟩
      · obtain ⟨h1, h2⟩ := hg2.takeWhile ok digit_ord
        simp only [ExprScan.scanExp, h1]
        split
        · split
          · exact ⟨rfl, h⟩
          · exact ⟨rfl, h2⟩
        · exact ⟨rfl, h⟩
      · rw [scanExp_e_noOrd m1, scanExp_e_noOrd m2]; exact ⟨rfl, h⟩
    · rw [scanExp_not_e _ hc, scanExp_not_e _ hc]; exact ⟨rfl, h⟩
  · rw [noOrd_scanExp n1, noOrd_scanExp n2]; exact ⟨rfl, h⟩

/-- `scanNumber` behind the leading white space -/
def numCore (x : List Char) : Option (Rat × List Char) :=
  let s := scanSign x
  let ip := s.2.takeWhile isDigit
  if ip.isEmpty then none
  else
    let f := scanFrac (s.2.dropWhile isDigit)
    let e := scanExp f.2
    some (decVal s.1 ip f.1 e.1, e.2)

theorem scanNumber_eq (t : List Char) : scanNumber t = numCore (skipWs t) := rfl

theorem gap_number (ok : GapOK ws ws' q) {t t' : List Char} (h : GapR ws ws' q t t') :
    ORel (GapR ws ws' q) (scanNumber t) (scanNumber t') := by
  refine gap_scanner ok skips_number consumes_number (fun d r r' hd hg => ?_) h
  simp only [scanNumber_eq, skipWs_nonblank _ hd, numCore]
  obtain ⟨s1, s2⟩ := hg.scanSign ok
  obtain ⟨i1, i2⟩ := s2.takeWhile ok digit_ord
  obtain ⟨f1, f2⟩ := i2.scanFrac ok
  obtain ⟨e1, e2⟩ := f2.scanExp ok
  rw [i1]
  split
  · trivial
  · exact ⟨by simp only; rw [s1, f1, e1], Or.inl e2⟩

/-! #### string literals and bracketed names -/

theorem brTail_none_gap (ok : GapOK ws ws' q) {t t' : List Char} (h : brTail t = none) (hg : Gap ws ws' q t t') :
    brTail t' = none := by
  cases hc : t.contains ']' with
  | false => exact brTail_none_of_not_contains (by rw [← hg.contains ok (c := ']') (by decide)]; exact hc)
  | true =>
    obtain ⟨r2, rfl⟩ := brTail_none_contains h hc
    rcases hg.step ok with ⟨c, t1, t1', _, e1, rfl, _⟩ | ⟨n1, _⟩
    · simp only [List.cons.injEq] at e1
      rw [← e1.1]; exact brTail_empty _
    · have h0 : ord ']' = true := by decide
      have := n1 ']' r2 rfl; rw [h0] at this; cases this

theorem gap_string (ok : GapOK ws ws' q) (qc : Char) (hq : qc = '\'' ∨ qc = '"') {t t' : List Char}
    (h : GapR ws ws' q t t') : ORel (GapR ws ws' q) (scanString qc t) (scanString qc t') := by
  refine gap_scanner ok (skips_string qc) (consumes_string qc) (fun d r r' hd hg => ?_) h
  simp only [scanString, skipWs_nonblank _ hd]
  by_cases hdq : d = qc
  · subst hdq
    have hsp : special d = true := by rcases hq with rfl | rfl <;> decide
    rcases hg.inv ok hd with ⟨h1, _⟩ | ⟨_, raw, t1, t1', rfl, e2, hs, hg1⟩ | ⟨h3, _⟩ | ⟨_, hnc, r1, e2, hg1⟩ | ⟨h3, _⟩
    · rw [hsp] at h1; cases h1
    · simp only [List.cons.injEq, true_and] at e2
      subst e2
      have hc := hg1.contains ok hd
      have hs' := (strBody_local d _ _ _ hs).2 t1' hc.symm
      simp only [if_true, hs, hs', Option.map_some]
      exact ⟨rfl, Or.inl hg1⟩
    · subst h3; rcases hq with h | h <;> cases h
    · simp only [List.cons.injEq, true_and] at e2
      subst e2
      have hc := hg1.contains ok hd
      simp only [if_true, (strBody_none_iff d r).mpr hnc, (strBody_none_iff d r').mpr (by rw [← hc]; exact hnc),
        Option.map_none]
      trivial
    · subst h3; rcases hq with h | h <;> cases h
  · simp [hdq, ORel]

theorem gap_variableEx (ok : GapOK ws ws' q) {t t' : List Char} (h : GapR ws ws' q t t') :
    ORel (GapR ws ws' q) (scanVariableEx t) (scanVariableEx t') := by
  refine gap_scanner ok skips_variableEx consumes_variableEx (fun d r r' hd hg => ?_) h
  simp only [scanVariableEx_eq, skipWs_nonblank _ hd]
  by_cases hdq : d = '['
  · subst hdq
    rcases hg.inv ok hd with ⟨h1, _⟩ | ⟨h2, _⟩ | ⟨_, lit, n, t1, t1', rfl, e2, hs, hg1⟩ | ⟨h2, _⟩ | ⟨_, hnone, r1, e2, hg1⟩
    · have h0 : special '[' = true := by decide
      rw [h0] at h1; cases h1
    · rcases h2 with h | h <;> cases h
    · simp only [List.cons.injEq, true_and] at e2
      subst e2
      have hc := hg1.contains ok (c := ']') (by decide)
      obtain ⟨lit0, _, hx, hl⟩ := brTail_local _ _ _ hs
      have : lit = lit0 := List.append_cancel_right hx
      subst this
      simp only [if_true, hs, hl t1' hc.symm]
      exact ⟨rfl, Or.inl hg1⟩
    · rcases h2 with h | h <;> cases h
    · simp only [List.cons.injEq, true_and] at e2
      subst e2
      simp only [if_true, hnone, brTail_none_gap ok hnone hg1]
      trivial
  · simp [hdq, ORel]

/-- every token scanner respects `GapR` -/
theorem gap_respects (ok : GapOK ws ws' q) : Respects (GapR ws ws' q) where
  binOp h := gap_binOp ok h
  unOp h := gap_unOp ok h
  groupOpen h := ORel1_of_unit (gap_char ok '(' (by decide) h)
  close h := ORel1_of_unit (gap_char ok ')' (by decide) h)
  comma h := ORel1_of_unit (gap_char ok ',' (by decide) h)
  funcOpen h := gap_funcOpen ok h
  number h := gap_number ok h
  strS h := gap_string ok '\'' (Or.inl rfl) h
  strD h := gap_string ok '"' (Or.inr rfl) h
  var h := gap_variable ok h
  varEx h := gap_variableEx ok h

end GapSec

end C10

namespace C10
open Text Scan

/-! ## trailing blanks and the statement recognisers -/

theorem takeDrop_append_of_ne {α : Type} (p : α → Bool) : ∀ (t ws : List α), t.dropWhile p ≠ [] →
    (t ++ ws).takeWhile p = t.takeWhile p ∧ (t ++ ws).dropWhile p = t.dropWhile p ++ ws
  | [], _, h => by simp at h
  | a :: as, ws, h => by
    by_cases ha : p a = true
    · have h' : as.dropWhile p ≠ [] := by simpa [ha] using h
      have := takeDrop_append_of_ne p as ws h'
      simp [ha, this.1, this.2]
    · simp [ha]

def forIdx (r : Chars) : Option Chars × Chars :=
  match lstripL r with
  | ',' :: r1 =>
    match ident? (lstripL r1) with
    | some (ix, r2) => (some ix, r2)
    | none => (none, r)
  | _ => (none, r)

def forTail (len : Nat) (value : Chars) (index : Option Chars) (r : Chars) : Option Shape :=
  (ws1? r).bind fun r => (keyword? "in" r).bind fun r =>
    (exprColon? r).map fun p => .forBegin value index (len - r.length + p.1) p.2

theorem for?_eq (s : Chars) : for? s = (keyword? "for" s).bind fun r => (ws1? r).bind fun r => (ident? r).bind fun p =>
    forTail s.length p.1 (forIdx p.2).1 (forIdx p.2).2 := by
  unfold for?
  cases keyword? "for" s with
  | none => rfl
  | some r =>
    dsimp only [Option.bind_some]
    cases ws1? r with
    | none => rfl
    | some r =>
      dsimp only [Option.bind_some]
      cases ident? r with
      | none => rfl
      | some p =>
        obtain ⟨value, r2⟩ := p
        dsimp only [Option.bind_some, forTail, forIdx]
        cases ws1? _ with
        | none => rfl
        | some r5 =>
          dsimp only [Option.bind_some]
          cases keyword? "in" r5 with
          | none => rfl
          | some r6 =>
            dsimp only [Option.bind_some]
            cases exprColon? r6 with
            | none => rfl
            | some p => rfl

def fnAsync (s : Chars) : Bool × Chars :=
  match keyword? "async" s with
  | some r => (true, lstripL r)
  | none => (false, s)

def fnOpen (r : Chars) : Option Chars :=
  match lstripL r with
  | '(' :: r => some (lstripL r)
  | _ => none

def fnArgs (r : Chars) : List Chars × Chars :=
  match ident? r with
  | some (a, r') => let (as, r'') := Scan.argsLoop r'.length r'; (a :: as, r'')
  | none => ([], r)

def fnDots (r : Chars) : Bool × Chars :=
  match keyword? "..." (lstripL r) with
  | some r' => (true, r')
  | none => (false, r)

def fnClose (name : Chars) (args : List Chars) (laa isAsync : Bool) (r : Chars) : Option Shape :=
  match lstripL r with
  | ')' :: r =>
    match lstripL r with
    | ':' :: r => if allSpace r then some (.funcBegin name args laa isAsync) else none
    | _ => none
  | _ => none

theorem funcBegin?_eq (s : Chars) : funcBegin? s =
    (keyword? "function" (fnAsync s).2).bind fun r => (ws1? r).bind fun r => (ident? r).bind fun p =>
      (fnOpen p.2).bind fun r =>
        fnClose p.1 (fnArgs r).1 (fnDots (fnArgs r).2).1 (fnAsync s).1 (fnDots (fnArgs r).2).2 := by
  unfold funcBegin?
  dsimp only [fnAsync]
  cases keyword? "function" _ with
  | none => rfl
  | some r =>
    dsimp only [Option.bind_some]
    cases ws1? r with
    | none => rfl
    | some r =>
      dsimp only [Option.bind_some]
      cases ident? r with
      | none => rfl
      | some p =>
        obtain ⟨name, r2⟩ := p
        dsimp only [Option.bind_some, fnOpen]
        cases h : lstripL r2 with
        | nil => rfl
        | cons c cs =>
          by_cases hc : c = '('
          · subst hc
            rfl
          · split
            · simp_all
            · split
              · simp_all
              · rfl

section Trail
variable {ws : Chars} (hws : allSpace ws = true)
include hws

theorem ws_head_space {w : Char} {ws1 : Chars} (e : ws = w :: ws1) : isSpace w = true := by
  subst e; simp [allSpace] at hws; exact hws.1

theorem ident?_append_ws (x : Chars) : ident? (x ++ ws) = (ident? x).map (fun p => (p.1, p.2 ++ ws)) := by
  cases x with
  | nil =>
    cases hw : ws with
    | nil => rfl
    | cons w ws1 =>
      have h1 := ws_head_space hws hw
      have : isIdStart w = false := by
        cases hi : isIdStart w with
        | false => rfl
        | true => have := space_not_word h1; rw [idStart_isWord hi] at this; cases this
      simp [ident?, this]
  | cons c cs =>
    obtain ⟨h1, h2⟩ := word_ws_split hws
    have key : ∀ l : Chars, List.takeWhile isWord (l ++ ws) = List.takeWhile isWord l ∧
        List.dropWhile isWord (l ++ ws) = List.dropWhile isWord l ++ ws := by
      intro l
      induction l with
      | nil => simp [h1, h2]
      | cons a as ih => by_cases ha : isWord a = true <;> simp [ha, ih]
    simp only [List.cons_append, ident?]
    split
    · simp [(key cs).1, (key cs).2]
    · rfl

/-- `\s+` then something that cannot start at the end of the text -/
theorem ws1?_bind_append {β : Type} (next : Chars → Option β) (hnil : next [] = none) (r : Chars) :
    (ws1? (r ++ ws)).bind next = (ws1? r).bind (fun x => if x = [] then none else next (x ++ ws)) := by
  cases r with
  | nil =>
    cases hw : ws with
    | nil => rfl
    | cons w ws1 =>
      have h1 := ws_head_space hws hw
      have h2 : lstripL ws1 = [] := lstrip_allSpace (by rw [hw] at hws; simp [allSpace] at hws ⊢; exact hws.2)
      simp [ws1?, h1, h2, hnil]
  | cons c cs =>
    simp only [List.cons_append, ws1?]
    split
    · simp only [Option.bind_some, lstrip_append_right cs ws hws]
      split
      · rename_i h0; simp [hnil]
      · simp
    · rfl

theorem label?_append_ws (s : Chars) : label? (s ++ ws) = label? s := by
  unfold label?
  rw [ident?_append_ws hws]
  cases ident? s with
  | none => rfl
  | some p =>
    obtain ⟨name, r⟩ := p
    simp only [Option.map_some, lstrip_append_right r ws hws]
    cases h : lstripL r with
    | nil => simp
    | cons c cs =>
      simp only [List.cons_append, reduceCtorEq, if_false]
      by_cases hc : c = ':'
      · subst hc; simp [allSpace_append, hws]
      · split <;> simp_all

theorem wsNameEnd?_append_ws (r : Chars) : wsNameEnd? (r ++ ws) = wsNameEnd? r := by
  have key : ∀ x, (match ident? (x ++ ws) with
      | some (name, r) => if allSpace r then some name else none
      | none => none) = (match ident? x with
      | some (name, r) => if allSpace r then some name else none
      | none => none) := by
    intro x
    rw [ident?_append_ws hws]
    cases ident? x with
    | none => rfl
    | some p => simp [allSpace_append, hws]
  have e : ∀ y, wsNameEnd? y = (ws1? y).bind (fun r => match ident? r with
      | some (name, r) => if allSpace r then some name else none
      | none => none) := by
    intro y; unfold wsNameEnd?; cases ws1? y <;> rfl
  rw [e, e, ws1?_bind_append hws _ (by simp [ident?])]
  cases ws1? r with
  | none => rfl
  | some x =>
    simp only [Option.bind_some]
    split
    · rename_i h0; subst h0; simp [ident?]
    · exact key x

theorem splitLastParen_append_ws (r : Chars) :
    splitLastParen (r ++ ws) = (splitLastParen r).map (fun p => (p.1, p.2 ++ ws)) := by
  have hnp : ∀ a ∈ ws.reverse, (a != ')') = true := by
    intro a ha
    have : isSpace a = true := by simp [allSpace] at hws; exact hws a (by simpa using ha)
    cases h : a != ')' with
    | true => rfl
    | false => simp at h; subst h; revert this; decide
  unfold splitLastParen
  simp only [List.reverse_append, List.dropWhile_append_of_pos hnp, List.takeWhile_append_of_pos hnp]
  cases List.dropWhile (fun x => x != ')') r.reverse with
  | nil => rfl
  | cons a as => simp

theorem jump?_append_ws (s : Chars) : jump? (s ++ ws) = jump? s := by
  unfold jump?
  rw [keyword?_append_ws "jump" s ws (by decide) hws]
  cases keyword? "jump" s with
  | none => rfl
  | some r =>
    simp only [Option.map_some, wsNameEnd?_append_ws hws]
    cases wsNameEnd? r with
    | some name => rfl
    | none =>
      simp only [keyword?_append_ws "if" r ws (by decide) hws]
      cases keyword? "if" r with
      | none => rfl
      | some r1 =>
        simp only [Option.map_some, lstrip_append_right r1 ws hws]
        cases h : lstripL r1 with
        | nil => simp
        | cons c cs =>
          simp only [List.cons_append, reduceCtorEq, if_false]
          by_cases hc : c = '('
          · subst hc
            simp only [splitLastParen_append_ws hws]
            cases splitLastParen cs with
            | none => rfl
            | some p =>
              obtain ⟨e, tail⟩ := p
              simp only [Option.map_some, wsNameEnd?_append_ws hws, List.length_append]
              have : s.length + ws.length - (cs.length + ws.length) = s.length - cs.length := by omega
              rw [this]
          · split <;> simp_all

theorem include?_append_ws (s : Chars) : include? (s ++ ws) = include? s := by
  have hng : ∀ a ∈ ws, (a != '>') = true := by
    intro a ha
    have : isSpace a = true := by simp [allSpace] at hws; exact hws a ha
    cases h : a != '>' with
    | true => rfl
    | false => simp at h; subst h; revert this; decide
  have hd : List.dropWhile (fun x => x != '>') ws = [] := by
    rw [dropWhile_eq_nil_iff']; exact hng
  unfold include?
  rw [keyword?_append_ws "include" s ws (by decide) hws]
  cases keyword? "include" s with
  | none => rfl
  | some r =>
    simp only [Option.map_some]
    cases r with
    | nil =>
      cases hw : ws with
      | nil => rfl
      | cons w ws1 =>
        have h1 := ws_head_space hws hw
        have h2 : lstripL ws1 = [] := lstrip_allSpace (by rw [hw] at hws; simp [allSpace] at hws ⊢; exact hws.2)
        simp [ws1?, h1, h2]
    | cons c cs =>
      simp only [List.cons_append, ws1?]
      by_cases hc : isSpace c = true
      · simp only [hc, if_true, lstrip_append_right cs ws hws]
        cases hl : lstripL cs with
        | nil => simp
        | cons d t =>
          simp only [List.cons_append, reduceCtorEq, if_false]
          by_cases h1 : d = '\''
          · subst h1
            simp only [rev_dropWhile_append_ws t ws hws]
          · by_cases h2 : d = '<'
            · subst h2
              cases hdt : List.dropWhile (fun x => x != '>') t with
              | nil => simp [List.dropWhile_append, hdt, hd]
              | cons a as =>
                obtain ⟨k1, k2⟩ := takeDrop_append_of_ne (fun x => x != '>') t ws (by rw [hdt]; simp)
                simp [k1, k2, hdt, allSpace_append, hws]
            · split
              · simp_all
              · simp_all
              · split <;> simp_all
      · simp [hc]

omit hws in
theorem ident?_decomp {s name r : Chars} (h : ident? s = some (name, r)) : s = name ++ r := by
  cases s with
  | nil => simp [ident?] at h
  | cons c cs =>
    simp only [ident?] at h
    split at h
    · simp only [Option.some.injEq, Prod.mk.injEq] at h
      obtain ⟨rfl, rfl⟩ := h
      simp [List.takeWhile_append_dropWhile]
    · cases h

omit hws in
theorem lastNS_eq_of_assign_blank {s name r1 r3 : Chars} (h1 : ident? s = some (name, r1))
    (h2 : lstripL r1 = '=' :: r3) (h3 : lstripL r3 = []) : lastNS s = some '=' := by
  obtain ⟨wsA, _, hA⟩ := lstrip_decomp r1
  have hr3 : allSpace r3 = true := by
    rw [← firstNS_none_iff]; simp [firstNS, h3]
  rw [ident?_decomp h1, hA, h2, lastNS_append, lastNS_append,
    show ('=' :: r3) = ['='] ++ r3 from rfl, lastNS_append, lastNS_allSpace hr3]
  simp [lastNS, isSpace, isSpaceN]

/-- append blanks to an expression text that runs to the end of the line (assignment, `return`) -/
def addTrailS (ws : Chars) : Shape → Shape
  | .assign n off e => .assign n off (e ++ ws)
  | .ret (some (off, e)) => .ret (some (off, e ++ ws))
  | s => s

theorem assign?_append_ws (s : Chars) (hne : lastNS s ≠ some '=') :
    assign? (s ++ ws) = (assign? s).map (addTrailS ws) := by
  unfold assign?
  rw [ident?_append_ws hws]
  cases hi : ident? s with
  | none => rfl
  | some p =>
    obtain ⟨name, r1⟩ := p
    simp only [Option.map_some, lstrip_append_right r1 ws hws]
    cases h : lstripL r1 with
    | nil => simp
    | cons c r3 =>
      simp only [List.cons_append, reduceCtorEq, if_false]
      by_cases hc : c = '='
      · subst hc
        simp only [lstrip_append_right r3 ws hws]
        cases h3 : lstripL r3 with
        | nil => exact absurd (lastNS_eq_of_assign_blank hi h h3) hne
        | cons d e =>
          simp only [List.cons_append, reduceCtorEq, if_false, Option.map_some, addTrailS, List.length_append,
            List.length_cons]
          congr 2; omega
      · split <;> simp_all

theorem return?_append_ws' (s : Chars) : return? (s ++ ws) = (return? s).map (addTrailS ws) := by
  rw [return?_append_ws s ws hws]
  unfold return?
  cases keyword? "return" s with
  | none => rfl
  | some r =>
    simp only
    split
    · rfl
    · split
      · split <;> rfl
      · rfl

theorem forIdx_append_ws (r : Chars) : forIdx (r ++ ws) = ((forIdx r).1, (forIdx r).2 ++ ws) := by
  unfold forIdx
  rw [lstrip_append_right r ws hws]
  cases h : lstripL r with
  | nil => simp
  | cons c cs =>
    simp only [List.cons_append, reduceCtorEq, if_false]
    by_cases hc : c = ','
    · subst hc
      simp only [lstrip_append_right cs ws hws]
      cases h2 : lstripL cs with
      | nil => simp [ident?]
      | cons d e =>
        simp only [reduceCtorEq, if_false, ident?_append_ws hws]
        cases ident? (d :: e) with
        | none => rfl
        | some p => rfl
    · split <;> simp_all

theorem forTail_append_ws (len : Nat) (value : Chars) (index : Option Chars) (r : Chars) :
    forTail (len + ws.length) value index (r ++ ws) = forTail len value index r := by
  unfold forTail
  rw [ws1?_bind_append hws _ (by simp [keyword?])]
  congr 1
  funext x
  by_cases hx : x = []
  · subst hx; simp [keyword?]
  · simp only [hx, if_false, keyword?_append_ws "in" x ws (by decide) hws]
    cases keyword? "in" x with
    | none => rfl
    | some r6 =>
      simp only [Option.map_some, Option.bind_some, exprColon?_append_ws r6 ws hws, List.length_append]
      have : len + ws.length - (r6.length + ws.length) = len - r6.length := by omega
      rw [this]

theorem for?_append_ws (s : Chars) : for? (s ++ ws) = for? s := by
  rw [for?_eq, for?_eq, keyword?_append_ws "for" s ws (by decide) hws]
  cases keyword? "for" s with
  | none => rfl
  | some r0 =>
    simp only [Option.map_some, Option.bind_some]
    rw [ws1?_bind_append hws _ (by simp [ident?])]
    congr 1
    funext x
    by_cases hx : x = []
    · subst hx; simp [ident?]
    · simp only [hx, if_false, ident?_append_ws hws]
      cases ident? x with
      | none => rfl
      | some p =>
        simp only [Option.map_some, Option.bind_some, forIdx_append_ws hws, List.length_append,
          forTail_append_ws hws]

omit hws in
theorem ident?_shorter {x name r : Chars} (h : ident? x = some (name, r)) : r.length < x.length := by
  cases x with
  | nil => simp [ident?] at h
  | cons c cs =>
    simp only [ident?] at h
    split at h
    · simp only [Option.some.injEq, Prod.mk.injEq] at h
      obtain ⟨_, rfl⟩ := h
      have := (List.dropWhile_sublist isWord (l := cs)).length_le
      simp; omega
    · cases h

omit hws in
/-- the argument loop of the `function` pattern never needs more fuel than the length of the text -/
theorem argsLoop_fuel_step : ∀ (n : Nat) (r : Chars), r.length ≤ n → Scan.argsLoop (n + 1) r = Scan.argsLoop n r := by
  intro n
  induction n with
  | zero =>
    intro r hr
    have : r = [] := List.length_eq_zero_iff.mp (by omega)
    subst this; simp [Scan.argsLoop, lstripL]
  | succ n ih =>
    intro r hr
    rw [Scan.argsLoop, Scan.argsLoop]
    cases h : lstripL r with
    | nil => rfl
    | cons c r1 =>
      have h1 : r1.length < r.length := by
        have := lstrip_length_le r; rw [h] at this; simp at this; omega
      by_cases hc : c = ','
      · subst hc
        simp only []
        cases h2 : ident? (lstripL r1) with
        | none => rfl
        | some p =>
          obtain ⟨a, r2⟩ := p
          have h3 := ident?_shorter h2
          have h4 := lstrip_length_le r1
          simp only [ih r2 (by omega)]
      · split
        · simp_all
        · rfl

omit hws in
theorem argsLoop_fuel (r : Chars) (k : Nat) : Scan.argsLoop (r.length + k) r = Scan.argsLoop r.length r := by
  induction k with
  | zero => rfl
  | succ k ih => rw [← Nat.add_assoc, argsLoop_fuel_step _ _ (by omega), ih]

theorem argsLoop_append_ws : ∀ (n : Nat) (r : Chars),
    Scan.argsLoop n (r ++ ws) = ((Scan.argsLoop n r).1, (Scan.argsLoop n r).2 ++ ws) := by
  intro n
  induction n with
  | zero => intro r; rfl
  | succ n ih =>
    intro r
    rw [Scan.argsLoop, Scan.argsLoop, lstrip_append_right r ws hws]
    cases h : lstripL r with
    | nil => simp
    | cons c r1 =>
      simp only [List.cons_append, reduceCtorEq, if_false]
      by_cases hc : c = ','
      · subst hc
        simp only [lstrip_append_right r1 ws hws]
        cases h2 : lstripL r1 with
        | nil => simp [ident?]
        | cons d e =>
          simp only [reduceCtorEq, if_false, ident?_append_ws hws]
          cases ident? (d :: e) with
          | none => rfl
          | some p => simp only [Option.map_some, ih]
      · split
        · simp_all
        · split
          · simp_all
          · rfl

theorem fnArgs_append_ws (x : Chars) : fnArgs (x ++ ws) = ((fnArgs x).1, (fnArgs x).2 ++ ws) := by
  unfold fnArgs
  rw [ident?_append_ws hws]
  cases ident? x with
  | none => rfl
  | some p =>
    obtain ⟨a, r'⟩ := p
    simp only [Option.map_some, List.length_append, argsLoop_append_ws hws, argsLoop_fuel]

theorem fnDots_append_ws (y : Chars) : fnDots (y ++ ws) = ((fnDots y).1, (fnDots y).2 ++ ws) := by
  unfold fnDots
  rw [lstrip_append_right y ws hws]
  cases h : lstripL y with
  | nil => simp [keyword?]
  | cons c cs =>
    simp only [reduceCtorEq, if_false, keyword?_append_ws "..." (c :: cs) ws (by decide) hws]
    cases keyword? "..." (c :: cs) with
    | none => rfl
    | some r' => rfl

theorem fnClose_append_ws (name : Chars) (args : List Chars) (laa isAsync : Bool) (z : Chars) :
    fnClose name args laa isAsync (z ++ ws) = fnClose name args laa isAsync z := by
  unfold fnClose
  rw [lstrip_append_right z ws hws]
  cases h : lstripL z with
  | nil => simp
  | cons c cs =>
    simp only [List.cons_append, reduceCtorEq, if_false]
    by_cases hc : c = ')'
    · subst hc
      simp only [lstrip_append_right cs ws hws]
      cases h2 : lstripL cs with
      | nil => simp
      | cons d e =>
        simp only [List.cons_append, reduceCtorEq, if_false]
        by_cases hd : d = ':'
        · subst hd; simp [allSpace_append, hws]
        · split <;> simp_all
    · split <;> simp_all

theorem fnAsync_append_ws (s : Chars) :
    (fnAsync (s ++ ws)).1 = (fnAsync s).1 ∧
    keyword? "function" (fnAsync (s ++ ws)).2 = (keyword? "function" (fnAsync s).2).map (· ++ ws) := by
  unfold fnAsync
  rw [keyword?_append_ws "async" s ws (by decide) hws]
  cases keyword? "async" s with
  | none => exact ⟨rfl, keyword?_append_ws "function" s ws (by decide) hws⟩
  | some r =>
    simp only [Option.map_some, lstrip_append_right r ws hws, true_and]
    cases h : lstripL r with
    | nil => simp [keyword?]
    | cons c cs =>
      simp only [reduceCtorEq, if_false]
      exact keyword?_append_ws "function" (c :: cs) ws (by decide) hws

theorem fnOpen_append_ws (r : Chars) : fnOpen (r ++ ws) = (fnOpen r).map (fun x => if x = [] then [] else x ++ ws) := by
  unfold fnOpen
  rw [lstrip_append_right r ws hws]
  cases h : lstripL r with
  | nil => simp
  | cons c cs =>
    simp only [List.cons_append, reduceCtorEq, if_false]
    by_cases hc : c = '('
    · subst hc; simp only [lstrip_append_right cs ws hws, Option.map_some]
    · split <;> simp_all

theorem funcBegin?_append_ws (s : Chars) : funcBegin? (s ++ ws) = funcBegin? s := by
  rw [funcBegin?_eq, funcBegin?_eq]
  obtain ⟨ha, hk⟩ := fnAsync_append_ws hws s
  rw [ha, hk]
  cases keyword? "function" (fnAsync s).2 with
  | none => rfl
  | some r0 =>
    simp only [Option.map_some, Option.bind_some]
    rw [ws1?_bind_append hws _ (by simp [ident?])]
    congr 1
    funext x
    by_cases hx : x = []
    · subst hx; simp [ident?]
    · simp only [hx, if_false, ident?_append_ws hws]
      cases ident? x with
      | none => rfl
      | some p =>
        simp only [Option.map_some, Option.bind_some, fnOpen_append_ws hws]
        cases fnOpen p.2 with
        | none => rfl
        | some y =>
          simp only [Option.map_some, Option.bind_some]
          by_cases hy : y = []
          · simp [hy]
          · simp only [hy, if_false, fnArgs_append_ws hws, fnDots_append_ws hws, fnClose_append_ws hws]

/-! ### the cascade -/

omit hws in
theorem map_of_plain {o o' : Option Shape} (h : o' = o) (hp : ∀ sh, o = some sh → addTrailS ws sh = sh) :
    o' = o.map (addTrailS ws) := by
  subst h
  cases o' with
  | none => rfl
  | some sh => simp [hp sh rfl]

omit hws in
theorem orElse_map (f : Shape → Shape) (a b : Option Shape) : (a.map f <|> b.map f) = (a <|> b).map f := by
  cases a <;> rfl

omit hws in
theorem kwOnly?_plain (kw : String) (sh0 : Shape) (hp : addTrailS ws sh0 = sh0) (s : Chars) :
    ∀ sh, kwOnly? kw sh0 s = some sh → addTrailS ws sh = sh := by
  intro sh h
  unfold kwOnly? at h
  split at h
  · split at h
    · cases h; exact hp
    · cases h
  · cases h

omit hws in
theorem kwExprColon?_plain (kw : String) (mk : Nat → Chars → Shape) (hp : ∀ n e, addTrailS ws (mk n e) = mk n e) (s : Chars) :
    ∀ sh, kwExprColon? kw mk s = some sh → addTrailS ws sh = sh := by
  intro sh h
  unfold kwExprColon? at h
  split at h
  · split at h
    · cases h; exact hp _ _
    · cases h
  · cases h

omit hws in
theorem else?_plain (s : Chars) : ∀ sh, else? s = some sh → addTrailS ws sh = sh := by
  intro sh h
  unfold else? at h
  split at h
  · split at h
    · split at h
      · cases h; rfl
      · cases h
    · cases h
  · cases h

omit hws in
theorem label?_plain (s : Chars) : ∀ sh, label? s = some sh → addTrailS ws sh = sh := by
  intro sh h
  unfold label? at h
  split at h
  · split at h
    · split at h
      · cases h; rfl
      · cases h
    · cases h
  · cases h

omit hws in
theorem for?_plain (s : Chars) : ∀ sh, for? s = some sh → addTrailS ws sh = sh := by
  intro sh h
  rw [for?_eq] at h
  simp only [Option.bind_eq_some_iff, forTail, Option.map_eq_some_iff] at h
  obtain ⟨_, _, _, _, _, _, _, _, _, _, _, _, rfl⟩ := h
  rfl

omit hws in
theorem funcBegin?_plain (s : Chars) : ∀ sh, funcBegin? s = some sh → addTrailS ws sh = sh := by
  intro sh h
  rw [funcBegin?_eq] at h
  simp only [Option.bind_eq_some_iff] at h
  obtain ⟨_, _, _, _, _, _, _, _, h⟩ := h
  unfold fnClose at h
  split at h
  · split at h
    · split at h
      · cases h; rfl
      · cases h
    · cases h
  · cases h

omit hws in
theorem jump?_plain (s : Chars) : ∀ sh, jump? s = some sh → addTrailS ws sh = sh := by
  intro sh h
  unfold jump? at h
  repeat' split at h
  all_goals first | cases h; rfl | cases h

omit hws in
theorem include?_plain (s : Chars) : ∀ sh, include? s = some sh → addTrailS ws sh = sh := by
  intro sh h
  unfold include? at h
  repeat' split at h
  all_goals try (simp only [] at h)
  all_goals try (split at h)
  all_goals first | (cases h; rfl) | cases h

/-- **The statement cascade and trailing blanks**: the same pattern matches with the same groups; an expression group that
runs to the end of the line (assignment, `return`) gets the blanks appended.  Excluded: a line that ends in `=`
(`a =` is an expression statement, `a = ` the assignment of the expression `' '`). -/
theorem shapeS_append_ws (s : Chars) (hne : lastNS s ≠ some '=') : shapeS (s ++ ws) = addTrailS ws (shapeS s) := by
  unfold shapeS
  rw [assign?_append_ws hws s hne,
    map_of_plain (ws := ws) (funcBegin?_append_ws hws s) (funcBegin?_plain s),
    map_of_plain (ws := ws) (kwOnly?_append_ws "endfunction" .funcEnd s ws (by decide) hws) (kwOnly?_plain _ _ rfl s),
    map_of_plain (ws := ws) (kwExprColon?_append_ws "if" .ifBegin s ws (by decide) hws) (kwExprColon?_plain _ _ (fun _ _ => rfl) s),
    map_of_plain (ws := ws) (kwExprColon?_append_ws "elif" .elif s ws (by decide) hws) (kwExprColon?_plain _ _ (fun _ _ => rfl) s),
    map_of_plain (ws := ws) (else?_append_ws s ws hws) (else?_plain s),
    map_of_plain (ws := ws) (kwOnly?_append_ws "endif" .endif s ws (by decide) hws) (kwOnly?_plain _ _ rfl s),
    map_of_plain (ws := ws) (kwExprColon?_append_ws "while" .whileBegin s ws (by decide) hws) (kwExprColon?_plain _ _ (fun _ _ => rfl) s),
    map_of_plain (ws := ws) (kwOnly?_append_ws "endwhile" .endwhile s ws (by decide) hws) (kwOnly?_plain _ _ rfl s),
    map_of_plain (ws := ws) (for?_append_ws hws s) (for?_plain s),
    map_of_plain (ws := ws) (kwOnly?_append_ws "endfor" .endfor s ws (by decide) hws) (kwOnly?_plain _ _ rfl s),
    map_of_plain (ws := ws) (kwOnly?_append_ws "break" .break_ s ws (by decide) hws) (kwOnly?_plain _ _ rfl s),
    map_of_plain (ws := ws) (kwOnly?_append_ws "continue" .continue_ s ws (by decide) hws) (kwOnly?_plain _ _ rfl s),
    map_of_plain (ws := ws) (label?_append_ws hws s) (label?_plain s),
    map_of_plain (ws := ws) (jump?_append_ws hws s) (jump?_plain s),
    return?_append_ws' hws s,
    map_of_plain (ws := ws) (include?_append_ws hws s) (include?_plain s)]
  simp only [orElse_map]
  cases (assign? s <|> funcBegin? s <|> kwOnly? "endfunction" .funcEnd s <|>
   kwExprColon? "if" .ifBegin s <|> kwExprColon? "elif" .elif s <|> else? s <|> kwOnly? "endif" .endif s <|>
   kwExprColon? "while" .whileBegin s <|> kwOnly? "endwhile" .endwhile s <|>
   for? s <|> kwOnly? "endfor" .endfor s <|> kwOnly? "break" .break_ s <|> kwOnly? "continue" .continue_ s <|>
   label? s <|> jump? s <|> return? s <|> include? s) <;> rfl

end Trail


/-! ## trailing blanks and the shape of a line; assignments -/


theorem addTrailS_shift (ws : Chars) (sh : Shape) (k : Nat) : (addTrailS ws sh).shift k = addTrailS ws (sh.shift k) := by
  cases sh with
  | jump n c => cases c with
    | none => rfl
    | some p => rfl
  | ret c => cases c with
    | none => rfl
    | some p => rfl
  | _ => rfl

/-! ### assignments: the pattern captures the same groups whatever the expression text is -/

theorem orElse_some {a b : Option Shape} {sh : Shape} (h : (a <|> b) = some sh) : a = some sh ∨ b = some sh := by
  cases a with
  | none => exact Or.inr h
  | some x => exact Or.inl h

theorem plain_not_assign {sh : Shape} (h : addTrailS [' '] sh = sh) (n : Chars) (o : Nat) (e : Chars) : sh ≠ .assign n o e := by
  intro hs; subst hs
  simp [addTrailS] at h

theorem shapeS_assign_inv {s name e : Chars} {off : Nat} (h : shapeS s = .assign name off e) :
    assign? s = some (.assign name off e) := by
  unfold shapeS at h
  cases ha : assign? s with
  | some sh => rw [ha] at h; simpa using h
  | none =>
    exfalso
    rw [ha] at h
    have hnone : ∀ X : Option Shape, ((none : Option Shape) <|> X) = X := fun X => rfl
    rw [hnone] at h
    have hx : ∀ {X : Option Shape}, X.getD .exprStmt = .assign name off e → X = some (.assign name off e) := by
      intro X hX; cases X with
      | none => cases hX
      | some y => simpa using hX
    have h' := hx h
    rcases orElse_some h' with h1 | h'
    · exact plain_not_assign (funcBegin?_plain (ws := [' ']) s _ h1) _ _ _ rfl
    rcases orElse_some h' with h1 | h'
    · exact plain_not_assign (kwOnly?_plain (ws := [' ']) _ _ rfl s _ h1) _ _ _ rfl
    rcases orElse_some h' with h1 | h'
    · exact plain_not_assign (kwExprColon?_plain (ws := [' ']) _ _ (fun _ _ => rfl) s _ h1) _ _ _ rfl
    rcases orElse_some h' with h1 | h'
    · exact plain_not_assign (kwExprColon?_plain (ws := [' ']) _ _ (fun _ _ => rfl) s _ h1) _ _ _ rfl
    rcases orElse_some h' with h1 | h'
    · exact plain_not_assign (else?_plain (ws := [' ']) s _ h1) _ _ _ rfl
    rcases orElse_some h' with h1 | h'
    · exact plain_not_assign (kwOnly?_plain (ws := [' ']) _ _ rfl s _ h1) _ _ _ rfl
    rcases orElse_some h' with h1 | h'
    · exact plain_not_assign (kwExprColon?_plain (ws := [' ']) _ _ (fun _ _ => rfl) s _ h1) _ _ _ rfl
    rcases orElse_some h' with h1 | h'
    · exact plain_not_assign (kwOnly?_plain (ws := [' ']) _ _ rfl s _ h1) _ _ _ rfl
    rcases orElse_some h' with h1 | h'
    · exact plain_not_assign (for?_plain (ws := [' ']) s _ h1) _ _ _ rfl
    rcases orElse_some h' with h1 | h'
    · exact plain_not_assign (kwOnly?_plain (ws := [' ']) _ _ rfl s _ h1) _ _ _ rfl
    rcases orElse_some h' with h1 | h'
    · exact plain_not_assign (kwOnly?_plain (ws := [' ']) _ _ rfl s _ h1) _ _ _ rfl
    rcases orElse_some h' with h1 | h'
    · exact plain_not_assign (kwOnly?_plain (ws := [' ']) _ _ rfl s _ h1) _ _ _ rfl
    rcases orElse_some h' with h1 | h'
    · exact plain_not_assign (label?_plain (ws := [' ']) s _ h1) _ _ _ rfl
    rcases orElse_some h' with h1 | h'
    · exact plain_not_assign (jump?_plain (ws := [' ']) s _ h1) _ _ _ rfl
    rcases orElse_some h' with h1 | h1
    · unfold return? at h1
      repeat' split at h1
      all_goals cases h1
    · exact plain_not_assign (include?_plain (ws := [' ']) s _ h1) _ _ _ rfl

theorem mem_takeWhile_true {α : Type} {p : α → Bool} : ∀ {l : List α} {x : α}, x ∈ l.takeWhile p → p x = true
  | [], _, h => by simp at h
  | a :: as, x, h => by
    by_cases ha : p a = true
    · simp only [List.takeWhile_cons, ha, if_true, List.mem_cons] at h
      rcases h with rfl | h
      · exact ha
      · exact mem_takeWhile_true h
    · simp [ha] at h

theorem lstrip_blank_append {b : Chars} (hb : allSpace b = true) (x : Chars) : lstripL (b ++ x) = lstripL x :=
  lstrip_append_ws x hb

theorem lstrip_self_head {e : Chars} (he : lstripL e = e) (hne : e ≠ []) : ∃ d e1, e = d :: e1 ∧ isSpace d = false := by
  cases e with
  | nil => exact absurd rfl hne
  | cons d e1 =>
    refine ⟨d, e1, rfl, ?_⟩
    cases hd : isSpace d with
    | false => rfl
    | true =>
      exfalso
      have h1 := lstrip_length_le e1
      have : (lstripL (d :: e1)).length = (d :: e1).length := by rw [he]
      simp [lstripL, hd] at this
      unfold lstripL at h1; omega

/-- the assignment pattern on a line without leading blanks: any other non-empty expression text that starts with a
non-blank is captured in the same way -/
theorem assign?_replace {s name e : Chars} {off : Nat} (h : assign? s = some (.assign name off e)) (he : lstripL e = e)
    (e' : Chars) (he' : lstripL e' = e') (hne' : e' ≠ []) :
    s = s.take off ++ e ∧ off + e.length = s.length ∧ assign? (s.take off ++ e') = some (.assign name off e') := by
  unfold assign? at h
  cases hi : ident? s with
  | none => rw [hi] at h; cases h
  | some p =>
    obtain ⟨nm, r1⟩ := p
    rw [hi] at h
    simp only at h
    obtain ⟨b1, hb1, hr1⟩ := lstrip_decomp r1
    cases h1 : lstripL r1 with
    | nil => rw [h1] at h; cases h
    | cons c r3 =>
      rw [h1] at h
      by_cases hc : c = '='
      · subst hc
        simp only at h
        obtain ⟨b2, hb2, hr3⟩ := lstrip_decomp r3
        cases h3 : lstripL r3 with
        | nil =>
          -- the degenerate expression `' '`: excluded by `he`
          exfalso
          rw [h3] at h
          have hr3b : allSpace r3 = true := by rw [← firstNS_none_iff]; simp [firstNS, h3]
          cases hg : r3.getLast? with
          | none => rw [hg] at h; cases h
          | some c =>
            rw [hg] at h
            simp only [Option.some.injEq, Shape.assign.injEq] at h
            obtain ⟨_, _, rfl⟩ := h
            have hcs : isSpace c = true := by
              have := List.mem_of_getLast? hg
              simp only [allSpace, List.all_eq_true] at hr3b; exact hr3b c this
            simp [lstripL, hcs] at he
        | cons d e0 =>
          rw [h3] at h
          simp only [Option.some.injEq, Shape.assign.injEq] at h
          obtain ⟨rfl, rfl, rfl⟩ := h
          -- the line is `name b1 = b2 e`
          have hs : s = nm ++ (b1 ++ '=' :: (b2 ++ d :: e0)) := by
            rw [ident?_decomp hi]; congr 1; rw [hr1, h1]; congr 2; rw [hr3, h3]
          have hlen : s.length - (d :: e0).length = (nm ++ (b1 ++ '=' :: b2)).length := by
            rw [hs]; simp; omega
          have htake : s.take (s.length - (d :: e0).length) = nm ++ (b1 ++ '=' :: b2) := by
            rw [hlen]; conv => lhs; rw [hs]
            rw [show nm ++ (b1 ++ '=' :: (b2 ++ d :: e0)) = (nm ++ (b1 ++ '=' :: b2)) ++ (d :: e0) by simp]
            exact List.take_left
          refine ⟨?_, ?_, ?_⟩
          · rw [htake]; conv => lhs; rw [hs]
            simp
          · rw [hlen, hs]; simp; omega
          · rw [htake]
            -- the identifier is found again
            have hid : ident? (nm ++ (b1 ++ '=' :: b2) ++ e') = some (nm, b1 ++ '=' :: (b2 ++ e')) := by
              cases s with
              | nil => simp [ident?] at hi
              | cons c0 cs =>
                simp only [ident?] at hi
                split at hi
                · rename_i hc0
                  simp only [Option.some.injEq, Prod.mk.injEq] at hi
                  obtain ⟨rfl, _⟩ := hi
                  have hw : ∀ x ∈ List.takeWhile isWord cs, isWord x = true := fun x hx => mem_takeWhile_true hx
                  have hnw : List.takeWhile isWord (b1 ++ '=' :: (b2 ++ e')) = [] ∧
                      List.dropWhile isWord (b1 ++ '=' :: (b2 ++ e')) = b1 ++ '=' :: (b2 ++ e') := by
                    cases b1 with
                    | nil =>
                      have : isWord '=' = false := by decide
                      simp [this]
                    | cons w b1' =>
                      have : isSpace w = true := by simp [allSpace] at hb1; exact hb1.1
                      simp [space_not_word this]
                  simp only [List.cons_append, List.append_assoc, ident?, hc0, if_true, Option.some.injEq, Prod.mk.injEq,
                    List.cons.injEq, true_and]
                  rw [List.takeWhile_append_of_pos hw, List.dropWhile_append_of_pos hw]
                  simp [hnw.1, hnw.2]
                · cases hi
            obtain ⟨d', e1', rfl, hd'⟩ := lstrip_self_head he' hne'
            unfold assign?
            rw [hid]
            have k1 : lstripL (b1 ++ '=' :: (b2 ++ d' :: e1')) = '=' :: (b2 ++ d' :: e1') := by
              rw [lstrip_blank_append hb1]; simp [lstripL, show isSpace '=' = false by decide]
            have k2 : lstripL (b2 ++ d' :: e1') = d' :: e1' := by
              rw [lstrip_blank_append hb2]; exact he'
            simp only [k1, k2, Option.some.injEq, Shape.assign.injEq, true_and, and_true]
            rw [hlen]; simp; omega
      · exfalso
        split at h
        · rename_i heq; simp only [List.cons.injEq] at heq; exact hc heq.1
        · cases h

theorem assign?_lstrip {x : Chars} {sh : Shape} (h : assign? x = some sh) : lstripL x = x := by
  unfold assign? at h
  cases x with
  | nil => simp [ident?] at h
  | cons c cs =>
    cases hc : isIdStart c with
    | false => simp [ident?, hc] at h
    | true =>
      have : isSpace c = false := by
        cases hs : isSpace c with
        | false => rfl
        | true => have := space_not_word hs; rw [idStart_isWord hc] at this; cases this
      simp [lstripL, this]

theorem shapeS_of_assign {x : Chars} {sh : Shape} (h : assign? x = some sh) : shapeS x = sh := by
  unfold shapeS; rw [h]; rfl

theorem shift_assign_inv {sh : Shape} {k off : Nat} {name e : Chars} (h : sh.shift k = .assign name off e) :
    ∃ off0, sh = .assign name off0 e ∧ off = off0 + k := by
  cases sh with
  | assign n o x => simp only [Shape.shift, Shape.assign.injEq] at h; obtain ⟨rfl, rfl, rfl⟩ := h; exact ⟨o, rfl, rfl⟩
  | jump n c => cases c with
    | none => cases h
    | some p => cases h
  | ret c => cases c with
    | none => cases h
    | some p => cases h
  | _ => cases h


end C10

namespace C10
open ExprScan ExprParse

/-! ## an executable test for "this position is outside string literals and bracketed names" -/

/-- `topLevelAt fuel k t`: reading `t` from its start — ordinary characters one by one, a string literal or a bracketed name
as a whole (as the token patterns delimit them) — position `k` is reached exactly (it is not inside a literal). -/
def topLevelAt : Nat → Nat → List Char → Bool
  | _, 0, _ => true
  | 0, _ + 1, _ => false
  | _ + 1, _ + 1, [] => false
  | f + 1, k + 1, c :: t =>
    if c = '\'' ∨ c = '"' then
      match strBody c t with
      | some (raw, rest) => decide (raw.length + 1 ≤ k) && topLevelAt f (k - (raw.length + 1)) rest
      | none => topLevelAt f k t
    else if c = '[' then
      match brTail t with
      | some (_, rest) => decide (t.length - rest.length ≤ k) && topLevelAt f (k - (t.length - rest.length)) rest
      | none => topLevelAt f k t
    else topLevelAt f k t

theorem split_prefix {α : Type} {a1 r L rest : List α} (h : a1 ++ r = L ++ rest) (hl : L.length ≤ a1.length) :
    ∃ a2, a1 = L ++ a2 ∧ rest = a2 ++ r := by
  rcases List.append_eq_append_iff.mp h with ⟨a', h1, h2⟩ | ⟨c', h1, h2⟩
  · have : a'.length = 0 := by have := congrArg List.length h1; simp at this; omega
    have : a' = [] := List.length_eq_zero_iff.mp this
    subst this
    exact ⟨[], by simpa using h1.symm, by simpa using h2.symm⟩
  · exact ⟨c', h1, h2⟩

/-- the test is sound: a position it accepts is a `Gap` site, for any blank runs put there -/
theorem gap_of_topLevelAt (ws ws' q : List Char) : ∀ (f k : Nat) (t a : List Char), topLevelAt f k t = true →
    t = a ++ (ws ++ q) → a.length = k → Gap ws ws' q t (a ++ (ws' ++ q)) := by
  intro f
  induction f with
  | zero =>
    intro k t a h ht hk
    cases k with
    | zero =>
      have : a = [] := List.length_eq_zero_iff.mp hk
      subst this; subst ht; exact Gap.site
    | succ k => simp [topLevelAt] at h
  | succ f ih =>
    intro k t a h ht hk
    cases k with
    | zero =>
      have : a = [] := List.length_eq_zero_iff.mp hk
      subst this; subst ht; exact Gap.site
    | succ k =>
      cases a with
      | nil => simp at hk
      | cons c a1 =>
        simp only [List.length_cons, Nat.add_right_cancel_iff] at hk
        subst ht
        simp only [List.cons_append, topLevelAt] at h ⊢
        split at h
        · rename_i hq
          split at h
          · rename_i raw rest hs
            simp only [Bool.and_eq_true, decide_eq_true_eq] at h
            have hx := (strBody_local c _ _ _ hs).1
            obtain ⟨a2, ha, hrest⟩ := split_prefix (L := raw ++ [c]) (rest := rest) (by simpa using hx) (by simp; omega)
            have hlen : a2.length = k - (raw.length + 1) := by
              have := congrArg List.length ha; simp at this; omega
            have := ih _ rest a2 h.2 hrest hlen
            have hs' : strBody c (raw ++ c :: rest) = some (raw, rest) := by rw [← hx]; exact hs
            have g := Gap.str c raw hq hs' this
            rw [ha]; rw [hrest] at g; simpa using g
          · rename_i hs
            exact Gap.strFail c hq ((strBody_none_iff c _).mp hs) (ih _ _ a1 h rfl hk)
        · rename_i hnq
          split at h
          · rename_i hb
            subst hb
            split at h
            · rename_i nm rest hs
              simp only [Bool.and_eq_true, decide_eq_true_eq] at h
              obtain ⟨lit, _, hx, _⟩ := brTail_local _ _ _ hs
              have hll : (a1 ++ (ws ++ q)).length - rest.length = lit.length := by
                have := congrArg List.length hx; simp at this ⊢; omega
              rw [hll] at h
              obtain ⟨a2, ha, hrest⟩ := split_prefix (L := lit) (rest := rest) hx (by omega)
              have hlen : a2.length = k - lit.length := by
                have := congrArg List.length ha; simp at this; omega
              have := ih _ rest a2 h.2 hrest hlen
              have hs' : brTail (lit ++ rest) = some (nm, rest) := by rw [← hx]; exact hs
              have g := Gap.br lit nm hs' this
              rw [ha]; rw [hrest] at g; simpa using g
            · rename_i hs
              exact Gap.brFail hs (ih _ _ a1 h rfl hk)
          · rename_i hnb
            have hsp : special c = false := by
              simp only [not_or] at hnq
              simp [special, hnq.1, hnq.2, hnb]
            exact Gap.cons c hsp (ih _ _ a1 h rfl hk)


end C10
