import BareModel.ExprParse
import BareProofs.C10Lemmas

/-!
# C10 — white space and the expression parser: lemmas

The expression parser model (`ExprParse.parseUnary`, `chainLoop`, `argsLoop`, `binaryWith`, fuel-recursive) looks at the
text only through the ten token scanners of `BareModel/ExprScan.lean`.  This file proves

* `parseUnary_rel` / `parseBinary_rel` — a **simulation principle**: for every relation `R` on remaining texts that the
  scanners respect (`Respects R`: on related texts a scanner fails on both or returns the same token value and related
  rests), the parser returns related results on related texts (same tree and related rests, or the same error text and
  related error positions), at every fuel;
* `parseBinary_fuel` (in `C10Ws.lean`, with `C02.fuel_sufficient`) from `parseUnary_mono` … — more fuel than needed does
  not change the result, so texts of different lengths can be compared at a common fuel;
* three instances of `Respects`: `Lead` (blanks in front of the whole text), and `GapR` (one blank run *outside string
  literals and bracketed names* replaced by another one; at the end of the text the run may be empty on either side),
  which covers trailing blanks and the stretching of an inter-token blank.
-/

namespace C10
open ExprScan ExprParse

/-! ## the simulation principle -/

section Sim

/-- scanner results (value, rest) agree up to `R` on the rests -/
def ORel {α : Type} (R : List Char → List Char → Prop) : Option (α × List Char) → Option (α × List Char) → Prop
  | none, none => True
  | some x, some y => x.1 = y.1 ∧ R x.2 y.2
  | _, _ => False

/-- the same for the scanners that return only the rest -/
def ORel1 (R : List Char → List Char → Prop) : Option (List Char) → Option (List Char) → Prop
  | none, none => True
  | some x, some y => R x y
  | _, _ => False

/-- parser results agree up to `R`: same tree (or argument list) and related rests, or the same error text and related
error positions (`error.line` of the Python: the remaining text the error was raised at) -/
def RRel {α : Type} (R : List Char → List Char → Prop) : Res (α × List Char) → Res (α × List Char) → Prop
  | .ok x, .ok y => x.1 = y.1 ∧ R x.2 y.2
  | .error x, .error y => x.1 = y.1 ∧ R x.2 y.2
  | _, _ => False

/-- every token scanner respects `R` -/
structure Respects (R : List Char → List Char → Prop) : Prop where
  binOp : ∀ {t t'}, R t t' → ORel R (scanBinOp t) (scanBinOp t')
  unOp : ∀ {t t'}, R t t' → ORel R (scanUnaryOp t) (scanUnaryOp t')
  groupOpen : ∀ {t t'}, R t t' → ORel1 R (scanGroupOpen t) (scanGroupOpen t')
  close : ∀ {t t'}, R t t' → ORel1 R (scanClose t) (scanClose t')
  comma : ∀ {t t'}, R t t' → ORel1 R (scanComma t) (scanComma t')
  funcOpen : ∀ {t t'}, R t t' → ORel R (scanFuncOpen t) (scanFuncOpen t')
  number : ∀ {t t'}, R t t' → ORel R (scanNumber t) (scanNumber t')
  strS : ∀ {t t'}, R t t' → ORel R (scanString '\'' t) (scanString '\'' t')
  strD : ∀ {t t'}, R t t' → ORel R (scanString '"' t) (scanString '"' t')
  var : ∀ {t t'}, R t t' → ORel R (scanVariable t) (scanVariable t')
  varEx : ∀ {t t'}, R t t' → ORel R (scanVariableEx t) (scanVariableEx t')

theorem ORel.isSome_eq {α : Type} {R} {a b : Option (α × List Char)} (h : ORel R a b) : a.isSome = b.isSome := by
  cases a <;> cases b <;> simp_all [ORel]

theorem ORel1.isSome_eq {R} {a b : Option (List Char)} (h : ORel1 R a b) : a.isSome = b.isSome := by
  cases a <;> cases b <;> simp_all [ORel1]

variable {R : List Char → List Char → Prop}

theorem chainLoop_rel (hR : Respects R) {pu : List Char → Res (Expr × List Char)}
    (hpu : ∀ t t', R t t' → RRel R (pu t) (pu t')) :
    ∀ (n : Nat) (l : Expr) (t t' : List Char), R t t' → RRel R (chainLoop pu n l t) (chainLoop pu n l t') := by
  intro n
  induction n with
  | zero =>
    intro l t t' h
    have hb := hR.binOp h
    simp only [chainLoop]
    cases h1 : scanBinOp t <;> cases h2 : scanBinOp t' <;> simp only [h1, h2, ORel] at hb ⊢
    · exact ⟨rfl, h⟩
    · exact ⟨rfl, h⟩
  | succ n ih =>
    intro l t t' h
    have hb := hR.binOp h
    simp only [chainLoop]
    cases h1 : scanBinOp t <;> cases h2 : scanBinOp t' <;> simp only [h1, h2, ORel] at hb ⊢
    · exact ⟨rfl, h⟩
    · rename_i x y
      obtain ⟨op, rt⟩ := x; obtain ⟨op', rt'⟩ := y
      obtain ⟨rfl, hrt⟩ : op = op' ∧ R rt rt' := hb
      have hp := hpu _ _ hrt
      cases h3 : pu rt <;> cases h4 : pu rt' <;> simp only [h3, h4, RRel] at hp ⊢
      · exact hp
      · rename_i a b
        obtain ⟨r, nt⟩ := a; obtain ⟨r', nt'⟩ := b
        obtain ⟨rfl, hnt⟩ : r = r' ∧ R nt nt' := hp
        exact ih _ _ _ hnt

theorem binaryWith_rel (hR : Respects R) {pu : List Char → Res (Expr × List Char)}
    (hpu : ∀ t t', R t t' → RRel R (pu t) (pu t')) (n : Nat) (t t' : List Char) (h : R t t') :
    RRel R (binaryWith pu n t) (binaryWith pu n t') := by
  have hp := hpu _ _ h
  simp only [binaryWith]
  cases h3 : pu t <;> cases h4 : pu t' <;> simp only [h3, h4, RRel] at hp ⊢
  · exact hp
  · rename_i a b
    obtain ⟨r, nt⟩ := a; obtain ⟨r', nt'⟩ := b
    obtain ⟨rfl, hnt⟩ : r = r' ∧ R nt nt' := hp
    exact chainLoop_rel hR hpu _ _ _ _ hnt

theorem argsLoop_rel (hR : Respects R) {pb : List Char → Res (Expr × List Char)}
    (hpb : ∀ t t', R t t' → RRel R (pb t) (pb t')) :
    ∀ (n : Nat) (args : List Expr) (t t' : List Char), R t t' →
      RRel R (argsLoop pb n args t) (argsLoop pb n args t') := by
  intro n
  induction n with
  | zero => intro args t t' h; exact ⟨rfl, h⟩
  | succ n ih =>
    intro args t t' h
    have hc := hR.close h
    simp only [argsLoop]
    cases h1 : scanClose t <;> cases h2 : scanClose t' <;> simp only [h1, h2, ORel1] at hc ⊢
    · -- no `)`: a separator (unless this is the first argument), then an argument
      have hsep : ORel1 R (if args.isEmpty then some t else scanComma t) (if args.isEmpty then some t' else scanComma t') := by
        by_cases ha : args.isEmpty = true
        · simpa [ha, ORel1] using h
        · simpa [ha] using hR.comma h
      cases h5 : (if args.isEmpty then some t else scanComma t) <;>
        cases h6 : (if args.isEmpty then some t' else scanComma t') <;> simp only [h5, h6, ORel1] at hsep ⊢
      · exact ⟨rfl, h⟩
      · rename_i t1 t1'
        have hp := hpb _ _ hsep
        cases h3 : pb t1 <;> cases h4 : pb t1' <;> simp only [h3, h4, RRel] at hp ⊢
        · exact hp
        · rename_i a b
          obtain ⟨r, nt⟩ := a; obtain ⟨r', nt'⟩ := b
          obtain ⟨rfl, hnt⟩ : r = r' ∧ R nt nt' := hp
          exact ih _ _ _ hnt
    · exact ⟨rfl, hc⟩

theorem parseAtom_rel (hR : Respects R) (t t' : List Char) (h : R t t') : RRel R (parseAtom t) (parseAtom t') := by
  have h1 := hR.number h
  have h2 := hR.strS h
  have h3 := hR.strD h
  have h4 := hR.var h
  have h5 := hR.varEx h
  unfold parseAtom
  cases e1 : scanNumber t <;> cases e1' : scanNumber t' <;> simp only [e1, e1', ORel] at h1 ⊢
  · cases e2 : scanString '\'' t <;> cases e2' : scanString '\'' t' <;> simp only [e2, e2', ORel] at h2 ⊢
    · cases e3 : scanString '"' t <;> cases e3' : scanString '"' t' <;> simp only [e3, e3', ORel] at h3 ⊢
      · cases e4 : scanVariable t <;> cases e4' : scanVariable t' <;> simp only [e4, e4', ORel] at h4 ⊢
        · cases e5 : scanVariableEx t <;> cases e5' : scanVariableEx t' <;> simp only [e5, e5', ORel] at h5 ⊢
          · exact ⟨rfl, h⟩
          · exact ⟨by rw [h5.1], h5.2⟩
        · exact ⟨by rw [h4.1], h4.2⟩
      · exact ⟨by rw [h3.1], h3.2⟩
    · exact ⟨by rw [h2.1], h2.2⟩
  · exact ⟨by rw [h1.1], h1.2⟩

/-- **Simulation**: related texts, same fuel ⇒ related results of `_parse_unary_expression` -/
theorem parseUnary_rel (hR : Respects R) :
    ∀ (fuel : Nat) (t t' : List Char), R t t' → RRel R (parseUnary fuel t) (parseUnary fuel t') := by
  intro fuel
  induction fuel with
  | zero =>
    intro t t' h
    simp only [parseUnary]
    rw [(hR.groupOpen h).isSome_eq, (hR.unOp h).isSome_eq, (hR.funcOpen h).isSome_eq]
    split
    · exact ⟨rfl, h⟩
    · exact parseAtom_rel hR t t' h
  | succ fuel ih =>
    intro t t' h
    have hg := hR.groupOpen h
    have hu := hR.unOp h
    have hf := hR.funcOpen h
    have hbin : ∀ x x', R x x' → RRel R (binaryWith (parseUnary fuel) fuel x) (binaryWith (parseUnary fuel) fuel x') :=
      fun x x' hx => binaryWith_rel hR ih fuel x x' hx
    simp only [parseUnary]
    cases e1 : scanGroupOpen t <;> cases e1' : scanGroupOpen t' <;> simp only [e1, e1', ORel1] at hg ⊢
    · cases e2 : scanUnaryOp t <;> cases e2' : scanUnaryOp t' <;> simp only [e2, e2', ORel] at hu ⊢
      · cases e3 : scanFuncOpen t <;> cases e3' : scanFuncOpen t' <;> simp only [e3, e3', ORel] at hf ⊢
        · exact parseAtom_rel hR t t' h
        · rename_i a b
          obtain ⟨name, at_⟩ := a; obtain ⟨name', at'⟩ := b
          obtain ⟨rfl, hat⟩ : name = name' ∧ R at_ at' := hf
          have ha := argsLoop_rel hR hbin fuel [] _ _ hat
          cases e4 : argsLoop (binaryWith (parseUnary fuel) fuel) fuel [] at_ <;>
            cases e4' : argsLoop (binaryWith (parseUnary fuel) fuel) fuel [] at' <;> simp only [e4, e4', RRel] at ha ⊢
          · exact ha
          · exact ⟨by rw [ha.1], ha.2⟩
      · rename_i a b
        obtain ⟨op, ut⟩ := a; obtain ⟨op', ut'⟩ := b
        obtain ⟨rfl, hut⟩ : op = op' ∧ R ut ut' := hu
        have hp := ih _ _ hut
        cases e4 : parseUnary fuel ut <;> cases e4' : parseUnary fuel ut' <;> simp only [e4, e4', RRel] at hp ⊢
        · exact hp
        · exact ⟨by rw [hp.1], hp.2⟩
    · rename_i gt gt'
      have hb := hbin _ _ hg
      cases e4 : binaryWith (parseUnary fuel) fuel gt <;> cases e4' : binaryWith (parseUnary fuel) fuel gt' <;>
        simp only [e4, e4', RRel] at hb ⊢
      · exact hb
      · rename_i a b
        obtain ⟨e, nt⟩ := a; obtain ⟨e', nt'⟩ := b
        obtain ⟨rfl, hnt⟩ : e = e' ∧ R nt nt' := hb
        have hc := hR.close hnt
        cases e5 : scanClose nt <;> cases e5' : scanClose nt' <;> simp only [e5, e5', ORel1] at hc ⊢
        · exact ⟨by trivial, h⟩
        · exact ⟨by trivial, hc⟩

/-- … and of `_parse_binary_expression` -/
theorem parseBinary_rel (hR : Respects R) (fuel : Nat) (t t' : List Char) (h : R t t') :
    RRel R (parseBinary fuel t) (parseBinary fuel t') :=
  binaryWith_rel hR (parseUnary_rel hR fuel) fuel t t' h

end Sim

/-! ## more fuel does not change a result that is not the fuel marker -/

/-- the result is not the out-of-fuel marker -/
def NoFuel {α : Type} (r : Res α) : Prop := ∀ l, r ≠ .error (fuelMsg, l)

theorem NoFuel.ok {α : Type} (x : α) : NoFuel (.ok x : Res α) := fun _ h => by cases h

theorem NoFuel.cast {α β : Type} {e : String × List Char} (h : NoFuel (.error e : Res α)) : NoFuel (.error e : Res β) :=
  fun l hl => h l (by cases hl; rfl)

theorem chainLoop_mono {pu pu' : List Char → Res (Expr × List Char)} (h : ∀ t, NoFuel (pu t) → pu' t = pu t) :
    ∀ (n n' : Nat) (l : Expr) (t : List Char), n ≤ n' → NoFuel (chainLoop pu n l t) →
      chainLoop pu' n' l t = chainLoop pu n l t := by
  intro n
  induction n with
  | zero =>
    intro n' l t _ hn
    simp only [chainLoop] at hn ⊢
    cases hb : scanBinOp t with
    | none => cases n' <;> simp [chainLoop, hb]
    | some x => simp only [hb] at hn; exact absurd rfl (hn t)
  | succ n ih =>
    intro n' l t hle hn
    obtain ⟨m, rfl⟩ : ∃ m, n' = m + 1 := ⟨n' - 1, by omega⟩
    simp only [chainLoop] at hn ⊢
    cases hb : scanBinOp t with
    | none => rfl
    | some x =>
      obtain ⟨op, rt⟩ := x
      simp only [hb] at hn ⊢
      cases hp : pu rt with
      | error e =>
        simp only [hp] at hn ⊢
        have : pu' rt = pu rt := h rt (by rw [hp]; exact hn)
        rw [this, hp]
      | ok x =>
        obtain ⟨r, nt⟩ := x
        simp only [hp] at hn ⊢
        have : pu' rt = pu rt := h rt (by rw [hp]; exact NoFuel.ok _)
        rw [this, hp]
        exact ih m _ _ (by omega) hn

theorem binaryWith_mono {pu pu' : List Char → Res (Expr × List Char)} (h : ∀ t, NoFuel (pu t) → pu' t = pu t)
    (n n' : Nat) (t : List Char) (hle : n ≤ n') (hn : NoFuel (binaryWith pu n t)) :
    binaryWith pu' n' t = binaryWith pu n t := by
  simp only [binaryWith] at hn ⊢
  cases hp : pu t with
  | error e =>
    simp only [hp] at hn ⊢
    have : pu' t = pu t := h t (by rw [hp]; exact hn)
    rw [this, hp]
  | ok x =>
    obtain ⟨r, nt⟩ := x
    simp only [hp] at hn ⊢
    have : pu' t = pu t := h t (by rw [hp]; exact NoFuel.ok _)
    rw [this, hp]
    exact chainLoop_mono h n n' _ _ hle hn

theorem argsLoop_mono {pb pb' : List Char → Res (Expr × List Char)} (h : ∀ t, NoFuel (pb t) → pb' t = pb t) :
    ∀ (n n' : Nat) (args : List Expr) (t : List Char), n ≤ n' → NoFuel (argsLoop pb n args t) →
      argsLoop pb' n' args t = argsLoop pb n args t := by
  intro n
  induction n with
  | zero => intro n' args t _ hn; exact absurd rfl (hn t)
  | succ n ih =>
    intro n' args t hle hn
    obtain ⟨m, rfl⟩ : ∃ m, n' = m + 1 := ⟨n' - 1, by omega⟩
    simp only [argsLoop] at hn ⊢
    cases hc : scanClose t with
    | some r => rfl
    | none =>
      simp only [hc] at hn ⊢
      cases hs : (if args.isEmpty then some t else scanComma t) with
      | none => rfl
      | some t1 =>
        simp only [hs] at hn ⊢
        cases hp : pb t1 with
        | error e =>
          simp only [hp] at hn ⊢
          have : pb' t1 = pb t1 := h t1 (by rw [hp]; exact hn.cast)
          rw [this, hp]
        | ok x =>
          obtain ⟨a, nt⟩ := x
          simp only [hp] at hn ⊢
          have : pb' t1 = pb t1 := h t1 (by rw [hp]; exact NoFuel.ok _)
          rw [this, hp]
          exact ih m _ _ (by omega) hn

/-- one more unit of fuel: same result, unless the result was the fuel marker -/
theorem parseUnary_step : ∀ (f : Nat) (t : List Char), NoFuel (parseUnary f t) → parseUnary (f + 1) t = parseUnary f t := by
  intro f
  induction f with
  | zero =>
    intro t hn
    simp only [parseUnary] at hn ⊢
    split at hn
    · exact absurd rfl (hn t)
    · rename_i hc
      simp only [Bool.or_eq_true, not_or, Bool.not_eq_true, Option.isSome_eq_false_iff, Option.isNone_iff_eq_none] at hc
      obtain ⟨⟨h1, h2⟩, h3⟩ := hc
      simp [h1, h2, h3]
  | succ f ih =>
    intro t hn
    have hbin : ∀ x, NoFuel (binaryWith (parseUnary f) f x) →
        binaryWith (parseUnary (f + 1)) (f + 1) x = binaryWith (parseUnary f) f x :=
      fun x hx => binaryWith_mono ih f (f + 1) x (by omega) hx
    rw [parseUnary]
    rw [parseUnary] at hn ⊢
    cases e1 : scanGroupOpen t with
    | some gt =>
      simp only [e1] at hn ⊢
      cases e4 : binaryWith (parseUnary f) f gt with
      | error e =>
        simp only [e4] at hn
        rw [hbin gt (by rw [e4]; exact hn), e4]
      | ok x =>
        rw [hbin gt (by rw [e4]; exact NoFuel.ok _), e4]
    | none =>
      simp only [e1] at hn ⊢
      cases e2 : scanUnaryOp t with
      | some x =>
        obtain ⟨op, ut⟩ := x
        simp only [e2] at hn ⊢
        cases e4 : parseUnary f ut with
        | error e =>
          simp only [e4] at hn
          rw [ih ut (by rw [e4]; exact hn), e4]
        | ok x => rw [ih ut (by rw [e4]; exact NoFuel.ok _), e4]
      | none =>
        simp only [e2] at hn ⊢
        cases e3 : scanFuncOpen t with
        | none => rfl
        | some x =>
          obtain ⟨name, at_⟩ := x
          simp only [e3] at hn ⊢
          cases e4 : argsLoop (binaryWith (parseUnary f) f) f [] at_ with
          | error e =>
            simp only [e4] at hn
            rw [argsLoop_mono hbin f (f + 1) [] at_ (by omega) (by rw [e4]; exact hn.cast), e4]
          | ok x => rw [argsLoop_mono hbin f (f + 1) [] at_ (by omega) (by rw [e4]; exact NoFuel.ok _), e4]

theorem parseBinary_step (f : Nat) (t : List Char) (hn : NoFuel (parseBinary f t)) :
    parseBinary (f + 1) t = parseBinary f t :=
  binaryWith_mono (parseUnary_step f) f (f + 1) t (by omega) hn

/-- any amount of extra fuel -/
theorem parseBinary_more (f k : Nat) (t : List Char) (hn : NoFuel (parseBinary f t)) :
    parseBinary (f + k) t = parseBinary f t := by
  induction k with
  | zero => rfl
  | succ k ih => rw [← Nat.add_assoc, parseBinary_step (f + k) t (by rw [ih]; exact hn), ih]

end C10
