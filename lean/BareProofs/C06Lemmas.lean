import BareModel.Parser
import BareProofs.C02
import BareProofs.C10

/-!
# C06 — helper lemmas

* `shape_offsets`: every expression group captured by the regex cascade (`Scan.shape`) lies inside the line:
  `match.start(group) + len(group) ≤ len(line)`.
* `classify_error_column`: hence (with `C02.reject_is_parser_error`) the re-based column of an expression error is
  inside the line for all eight statement kinds with an expression.
* `stepLine_defs_length`, `stepLine_effect`: case analysis of the lowering step.
* `Inv`: the position stack `Where` moves together with `PState.defs` / `PState.func` and only holds positions of
  earlier logical lines.
* `stepLogical_shift`: the parser commutes with a shift of the start line number.
* `Abs`, `astep`, `stepLine_abs`: the lowering step on the abstraction (function open?, stack floor, block kinds) that
  decides acceptance and error texts; `Sim0`: states with the same abstraction behave alike.
* `SimpleLine`, `stepAll_simple`, `scriptLines_prepend_simple`: simple valid statement lines put in front.
-/

namespace C06
open Text Scan Lower Parser

/-! ## offsets of the captured expression groups -/

/-- every captured expression group `(off, e)` of the shape satisfies `off + |e| ≤ n` -/
def Bounded (n : Nat) : Shape → Prop
  | .assign _ off e => off + e.length ≤ n
  | .ifBegin off e => off + e.length ≤ n
  | .elif off e => off + e.length ≤ n
  | .whileBegin off e => off + e.length ≤ n
  | .forBegin _ _ off e => off + e.length ≤ n
  | .jump _ (some (off, e)) => off + e.length ≤ n
  | .ret (some (off, e)) => off + e.length ≤ n
  | _ => True

theorem Bounded.shift {n k : Nat} : ∀ {sh : Shape}, Bounded n sh → Bounded (n + k) (sh.shift k)
  | .assign .., h | .ifBegin .., h | .elif .., h | .whileBegin .., h | .forBegin .., h => by
      simp only [Bounded, Shape.shift] at *; omega
  | .jump _ (some (_, _)), h | .ret (some (_, _)), h => by simp only [Bounded, Shape.shift] at *; omega
  | .jump _ none, _ | .ret none, _ => by simp [Bounded, Shape.shift]
  | .funcBegin .., _ | .funcEnd, _ | .else_, _ | .endif, _ | .endwhile, _ | .endfor, _ | .break_, _ | .continue_, _
  | .label _, _ | .include .., _ | .exprStmt, _ => by simp [Bounded, Shape.shift]

theorem dropWhile_length_le {α} (p : α → Bool) (l : List α) : (l.dropWhile p).length ≤ l.length :=
  (List.dropWhile_sublist p).length_le

theorem lstrip_le (l : Chars) : (lstripL l).length ≤ l.length := dropWhile_length_le _ _

theorem keyword?_length {kw : String} {l r : Chars} (h : keyword? kw l = some r) : kw.length + r.length = l.length := by
  unfold keyword? at h
  split at h
  · rename_i hp
    cases h
    have := (List.isPrefixOf_iff_prefix.mp hp).length_le
    have e : kw.toList.length = kw.length := String.length_toList
    simp only [List.length_drop]; omega
  · cases h

theorem ws1?_length {l r : Chars} (h : ws1? l = some r) : r.length < l.length := by
  unfold ws1? at h
  split at h
  · split at h
    · cases h
      have := lstrip_le ‹Chars›
      simp only [List.length_cons]; omega
    · cases h
  · cases h

theorem ident?_length {l n r : Chars} (h : ident? l = some (n, r)) : r.length < l.length := by
  unfold ident? at h
  split at h
  · split at h
    · simp only [Option.some.injEq, Prod.mk.injEq] at h
      obtain ⟨_, rfl⟩ := h
      have := dropWhile_length_le isWord ‹Chars›
      simp only [List.length_cons]; omega
    · cases h
  · cases h

theorem assign?_bounded {s : Chars} {sh : Shape} (h : assign? s = some sh) : Bounded s.length sh := by
  unfold assign? at h
  split at h
  · rename_i name r1 hid
    have h1 := ident?_length hid
    have h2 := lstrip_le r1
    split at h
    · rename_i r3 hr3
      rw [hr3] at h2
      simp only [List.length_cons] at h2
      have h3 := lstrip_le r3
      split at h
      · cases h; simp only [Bounded, List.length_cons, List.length_nil]; omega
      · cases h
      · cases h; simp only [Bounded]; omega
    · cases h
  · cases h

theorem exprColon?_bounded {r : Chars} {n : Nat} {e : Chars} (h : exprColon? r = some (n, e)) :
    n + e.length < r.length := by
  unfold exprColon? at h
  split at h
  · rename_i revBefore hrev
    have h1 := dropWhile_length_le isSpace r.reverse
    rw [hrev] at h1
    simp only [List.length_cons, List.length_reverse] at h1
    have h2 : (revBefore.reverse.takeWhile isSpace).length + (revBefore.reverse.dropWhile isSpace).length
        = revBefore.length := by
      rw [← List.length_append, List.takeWhile_append_dropWhile, List.length_reverse]
    simp only at h
    split at h
    · cases h
    · rename_i hd _
      split at h
      · simp only [Option.some.injEq, Prod.mk.injEq] at h
        obtain ⟨rfl, rfl⟩ := h
        rw [hd] at h2
        simp only [List.length_cons, List.length_nil] at *; omega
      · cases h
    · simp only [Option.some.injEq, Prod.mk.injEq] at h
      obtain ⟨rfl, rfl⟩ := h
      omega
  · cases h

theorem kwExprColon?_bounded {kw : String} {mk : Nat → Chars → Shape} {s : Chars} {sh : Shape}
    (hmk : ∀ off e, off + e.length ≤ s.length → Bounded s.length (mk off e))
    (h : kwExprColon? kw mk s = some sh) : Bounded s.length sh := by
  unfold kwExprColon? at h
  split at h
  · rename_i r hk
    have h1 := keyword?_length hk
    split at h
    · rename_i n e he
      have h2 := exprColon?_bounded he
      cases h
      apply hmk; omega
    · cases h
  · cases h

theorem kwOnly?_bounded {kw : String} {sh0 : Shape} {s : Chars} {sh : Shape} (h0 : ∀ n, Bounded n sh0)
    (h : kwOnly? kw sh0 s = some sh) : Bounded s.length sh := by
  unfold kwOnly? at h
  split at h
  · split at h
    · cases h; exact h0 _
    · cases h
  · cases h

/-- the optional `, index` group of the `for` pattern -/
def forIndex (r : Chars) : Option Chars × Chars :=
  match lstripL r with
  | ',' :: r1 =>
    match ident? (lstripL r1) with
    | some (ix, r2) => (some ix, r2)
    | none => (none, r)
  | _ => (none, r)

theorem forIndex_length (r : Chars) : (forIndex r).2.length ≤ r.length := by
  unfold forIndex
  split
  · rename_i r1 hl
    have h0 := lstrip_le r
    rw [hl] at h0
    simp only [List.length_cons] at h0
    split
    · rename_i ix r2 hid
      have := ident?_length hid
      have := lstrip_le r1
      simp only; omega
    · simp
  · simp

theorem for?_eq (s : Chars) : for? s =
    match keyword? "for" s with
    | none => none
    | some r =>
      match ws1? r with
      | none => none
      | some r =>
        match ident? r with
        | none => none
        | some (value, r) =>
          match ws1? (forIndex r).2 with
          | none => none
          | some r' =>
            match keyword? "in" r' with
            | none => none
            | some r' =>
              match exprColon? r' with
              | some (n, e) => some (.forBegin value (forIndex r).1 (s.length - r'.length + n) e)
              | none => none := rfl

theorem for?_bounded {s : Chars} {sh : Shape} (h : for? s = some sh) : Bounded s.length sh := by
  rw [for?_eq] at h
  split at h
  · cases h
  · rename_i r0 hk
    have l0 := keyword?_length hk
    split at h
    · cases h
    · rename_i r1 hw
      have l1 := ws1?_length hw
      split at h
      · cases h
      · rename_i value r2 hid
        have l2 := ident?_length hid
        have l2' := forIndex_length r2
        split at h
        · cases h
        · rename_i r3 hw3
          have l3 := ws1?_length hw3
          split at h
          · cases h
          · rename_i r4 hk4
            have l4 := keyword?_length hk4
            split at h
            · rename_i n e he
              have l5 := exprColon?_bounded he
              cases h
              simp only [Bounded]
              omega
            · cases h

theorem splitLastParen_length {r e tail : Chars} (h : splitLastParen r = some (e, tail)) : e.length < r.length := by
  unfold splitLastParen at h
  simp only at h
  split at h
  · rename_i beforeRev hrev
    simp only [Option.some.injEq, Prod.mk.injEq] at h
    obtain ⟨rfl, _⟩ := h
    have h1 := dropWhile_length_le (· != ')') r.reverse
    rw [hrev] at h1
    simp only [List.length_cons, List.length_reverse] at *; omega
  · cases h

theorem jump?_bounded {s : Chars} {sh : Shape} (h : jump? s = some sh) : Bounded s.length sh := by
  unfold jump? at h
  split at h
  · cases h
  · rename_i r hk
    have l0 := keyword?_length hk
    split at h
    · cases h; simp [Bounded]
    · split at h
      · cases h
      · rename_i r1 hk1
        have l1 := keyword?_length hk1
        have l2 := lstrip_le r1
        split at h
        · rename_i r2 hr2
          rw [hr2] at l2
          simp only [List.length_cons] at l2
          split at h
          · rename_i e tail hsp
            have l3 := splitLastParen_length hsp
            split at h
            · cases h
            · split at h
              · cases h; simp only [Bounded]; omega
              · cases h
          · cases h
        · cases h

theorem return?_bounded {s : Chars} {sh : Shape} (h : return? s = some sh) : Bounded s.length sh := by
  unfold return? at h
  split at h
  · cases h
  · rename_i r hk
    have l0 := keyword?_length hk
    split at h
    · cases h; simp [Bounded]
    · split at h
      · rename_i c cs _
        split at h
        · cases h
          have := lstrip_le (c :: cs)
          simp only [Bounded]; omega
        · cases h
      · cases h

theorem funcBegin?_bounded {s : Chars} {sh : Shape} (h : funcBegin? s = some sh) : Bounded s.length sh := by
  unfold funcBegin? at h
  simp only at h
  repeat' split at h
  all_goals first | cases h; simp [Bounded] | cases h

theorem else?_bounded {s : Chars} {sh : Shape} (h : else? s = some sh) : Bounded s.length sh := by
  unfold else? at h
  repeat' split at h
  all_goals first | cases h; simp [Bounded] | cases h

theorem label?_bounded {s : Chars} {sh : Shape} (h : label? s = some sh) : Bounded s.length sh := by
  unfold label? at h
  repeat' split at h
  all_goals first | cases h; simp [Bounded] | cases h

theorem include?_bounded {s : Chars} {sh : Shape} (h : include? s = some sh) : Bounded s.length sh := by
  unfold include? at h
  repeat' split at h
  all_goals first | cases h; simp [Bounded] | cases h | (simp only [Option.ite_none_right_eq_some, Option.some.injEq] at h; obtain ⟨_, rfl⟩ := h; simp [Bounded])

theorem orElse_bounded {n : Nat} {a b : Option Shape} (ha : ∀ sh, a = some sh → Bounded n sh)
    (hb : ∀ sh, b = some sh → Bounded n sh) : ∀ sh, (a <|> b) = some sh → Bounded n sh := by
  intro sh h
  cases a with
  | none => exact hb sh (by simpa using h)
  | some x => exact ha sh (by simpa using h)

theorem shapeS_bounded (s : Chars) : Bounded s.length (shapeS s) := by
  unfold shapeS
  have key : ∀ sh,
      (assign? s <|> funcBegin? s <|> kwOnly? "endfunction" .funcEnd s <|>
       kwExprColon? "if" .ifBegin s <|> kwExprColon? "elif" .elif s <|> else? s <|> kwOnly? "endif" .endif s <|>
       kwExprColon? "while" .whileBegin s <|> kwOnly? "endwhile" .endwhile s <|>
       for? s <|> kwOnly? "endfor" .endfor s <|> kwOnly? "break" .break_ s <|> kwOnly? "continue" .continue_ s <|>
       label? s <|> jump? s <|> return? s <|> include? s) = some sh → Bounded s.length sh := by
    refine orElse_bounded (fun _ => assign?_bounded) ?_
    refine orElse_bounded (fun _ => funcBegin?_bounded) ?_
    refine orElse_bounded (fun _ => kwOnly?_bounded (by simp [Bounded])) ?_
    refine orElse_bounded (fun _ => kwExprColon?_bounded (by simp [Bounded])) ?_
    refine orElse_bounded (fun _ => kwExprColon?_bounded (by simp [Bounded])) ?_
    refine orElse_bounded (fun _ => else?_bounded) ?_
    refine orElse_bounded (fun _ => kwOnly?_bounded (by simp [Bounded])) ?_
    refine orElse_bounded (fun _ => kwExprColon?_bounded (by simp [Bounded])) ?_
    refine orElse_bounded (fun _ => kwOnly?_bounded (by simp [Bounded])) ?_
    refine orElse_bounded (fun _ => for?_bounded) ?_
    refine orElse_bounded (fun _ => kwOnly?_bounded (by simp [Bounded])) ?_
    refine orElse_bounded (fun _ => kwOnly?_bounded (by simp [Bounded])) ?_
    refine orElse_bounded (fun _ => kwOnly?_bounded (by simp [Bounded])) ?_
    refine orElse_bounded (fun _ => label?_bounded) ?_
    refine orElse_bounded (fun _ => jump?_bounded) ?_
    refine orElse_bounded (fun _ => return?_bounded) ?_
    exact fun _ => include?_bounded
  generalize hq : (assign? s <|> funcBegin? s <|> kwOnly? "endfunction" .funcEnd s <|>
       kwExprColon? "if" .ifBegin s <|> kwExprColon? "elif" .elif s <|> else? s <|> kwOnly? "endif" .endif s <|>
       kwExprColon? "while" .whileBegin s <|> kwOnly? "endwhile" .endwhile s <|>
       for? s <|> kwOnly? "endfor" .endfor s <|> kwOnly? "break" .break_ s <|> kwOnly? "continue" .continue_ s <|>
       label? s <|> jump? s <|> return? s <|> include? s) = q at key
  cases q with
  | none => simp [Bounded]
  | some sh => exact key sh rfl

/-- **`shape_offsets`**: every expression group captured by the statement patterns is a piece of the line:
`match.start(group) + len(group) ≤ len(line)` -/
theorem shape_offsets (line : Chars) : Bounded line.length (shape line) := by
  unfold shape
  have h1 := shapeS_bounded (lstripL line)
  have h2 := lstrip_le line
  have := h1.shift (k := line.length - (lstripL line).length)
  have e : (lstripL line).length + (line.length - (lstripL line).length) = line.length := by omega
  rwa [e] at this

/-! ## the column of an expression error -/

def ExprMsg (m : String) : Prop := m = "Syntax error" ∨ m = "Unmatched parenthesis"

/-- what `C02.reject_is_parser_error` says about an expression parser -/
def GoodErrors (pexp : String → Except ParseErr Expr) : Prop :=
  ∀ s pe, pexp s = .error pe → ExprMsg pe.error ∧ 1 ≤ pe.column ∧ pe.column ≤ s.length + 1

theorem parseExpr_goodErrors : GoodErrors ExprParse.parseExpr := by
  intro s pe h
  have := C02.reject_is_parser_error s pe h
  exact ⟨this.1, this.2.2⟩

theorem ex_error {pexp : String → Except ParseErr Expr} (hg : GoodErrors pexp) {α : Type} {off : Nat} {e : Chars}
    {f : Expr → α} {pe : ParseErr} (h : (shiftErr off (pexp (String.ofList e))).map f = .error pe) :
    ExprMsg pe.error ∧ off + 1 ≤ pe.column ∧ pe.column ≤ off + e.length + 1 := by
  cases hp : pexp (String.ofList e) with
  | ok x => rw [hp] at h; cases h
  | error pe0 =>
    rw [hp] at h
    simp only [shiftErr, Except.map] at h
    cases h
    have := hg _ _ hp
    simp only [String.length_ofList] at this
    refine ⟨this.1, ?_, ?_⟩ <;> simp only <;> omega

theorem classifyL_error_column {pexp : String → Except ParseErr Expr} (hg : GoodErrors pexp) (line : Chars)
    (pe : ParseErr) (h : classifyL pexp line = .error pe) :
    ExprMsg pe.error ∧ 1 ≤ pe.column ∧ pe.column ≤ line.length + 1 := by
  have hb := shape_offsets line
  unfold classifyL at h
  simp only at h
  split at h
  all_goals first
    | (rename_i hs; rw [hs] at hb; simp only [Bounded] at hb
       have := ex_error hg h
       exact ⟨this.1, by omega, by omega⟩)
    | (cases h; done)
    | skip
  -- expression statement: the whole line
  cases hp : pexp (String.ofList line) with
  | ok x => rw [hp] at h; cases h
  | error pe0 =>
    rw [hp] at h
    simp only [Except.map] at h
    cases h
    have := hg _ _ hp
    simp only [String.length_ofList] at this
    exact this

/-- **`classify_error_column`**: an error of the line classifier (always an expression error) carries one of the two
expression error texts and a column inside the line (`len + 1` = end of line) — all eight statement kinds with an
expression. -/
theorem classify_error_column (line : String) (pe : ParseErr)
    (h : Scan.classify ExprParse.parseExpr line = .error pe) :
    ExprMsg pe.error ∧ 1 ≤ pe.column ∧ pe.column ≤ line.length + 1 := by
  have := classifyL_error_column parseExpr_goodErrors line.toList pe h
  simpa only [String.length_toList] using this

@[simp] theorem setCur_defs (s : PState) (ss : List Stmt) : (s.setCur ss).defs = s.defs := by
  unfold PState.setCur; split <;> rfl
@[simp] theorem setCur_cur (s : PState) (ss : List Stmt) : (s.setCur ss).cur = ss := by
  obtain ⟨a, f, c, d, e⟩ := s
  cases f <;> rfl
@[simp] theorem setCur_func_isSome (s : PState) (ss : List Stmt) : (s.setCur ss).func.isSome = s.func.isSome := by
  unfold PState.setCur; split <;> simp_all
theorem setCur_stmts {s : PState} (h : s.func.isSome = true) (ss : List Stmt) : (s.setCur ss).stmts = s.stmts := by
  obtain ⟨a, f, c, d, e⟩ := s
  cases f with
  | none => cases h
  | some f => rfl
theorem emit_stmts {s : PState} (h : s.func.isSome = true) (ss : List Stmt) : (s.emit ss).stmts = s.stmts :=
  setCur_stmts h _
@[simp] theorem emit_defs (s : PState) (ss : List Stmt) : (s.emit ss).defs = s.defs := by simp [PState.emit]
@[simp] theorem emit_cur (s : PState) (ss : List Stmt) : (s.emit ss).cur = s.cur ++ ss := by simp [PState.emit]
@[simp] theorem emit_func_isSome (s : PState) (ss : List Stmt) : (s.emit ss).func.isSome = s.func.isSome := by
  simp [PState.emit]

@[simp] theorem mk_cur (s1 : PState) (d : List LabelDef) (i n : Nat) :
    (PState.mk s1.stmts s1.func d i n).cur = s1.cur := rfl

theorem eq_dropLast_append {α} (l : List α) (a : α) (h : l.getLast? = some a) : l = l.dropLast ++ [a] := by
  rcases List.eq_nil_or_concat l with rfl | ⟨l', b, rfl⟩
  · simp at h
  · simp at h ⊢; exact h

theorem retarget_length (ss : List Stmt) (a : Nat) (l : Name) : (retarget ss a l).length = ss.length := by
  unfold retarget; split <;> simp

theorem findLoop_split : ∀ (ds : List LabelDef) {pre l post}, findLoop ds = some (pre, l, post) → ds = pre ++ l :: post
  | [], _, _, _, h => by simp [findLoop] at h
  | .whileD .. :: rest, _, _, _, h => by simp [findLoop] at h; obtain ⟨rfl, rfl, rfl⟩ := h; simp
  | .forD .. :: rest, _, _, _, h => by simp [findLoop] at h; obtain ⟨rfl, rfl, rfl⟩ := h; simp
  | .ifD a b c d :: rest, pre, l, post, h => by
      simp only [findLoop, Option.map_eq_some_iff] at h
      obtain ⟨⟨pre', l', post'⟩, h1, h2⟩ := h
      simp only [Prod.mk.injEq] at h2
      obtain ⟨rfl, rfl, rfl⟩ := h2
      have := findLoop_split rest h1
      simp [this]

theorem scopeDefs_prefix (s : PState) : ∃ t, s.defs = s.scopeDefs ++ t :=
  ⟨s.defs.drop (s.defs.length - s.floor), by simp [PState.scopeDefs]⟩

/-- how one line changes the block stack `label_defs` -/
def BlockChange (ps ps' : PState) : Line → Prop
  | .ifBegin _ | .whileBegin _ | .forBegin .. => ∃ d, ps'.defs = d :: ps.defs
  | .endif | .endwhile | .endfor => ∃ d, ps.defs = d :: ps'.defs
  | .elif _ | .else_ => ∃ d d' t, ps.defs = d :: t ∧ ps'.defs = d' :: t
  | .continue_ => ps'.defs.length = ps.defs.length
  | _ => ps'.defs = ps.defs

theorem stepLine_block {ps ps' : PState} {l : Line} (h : stepLine ps l = .ok ps') : BlockChange ps ps' l := by
  obtain ⟨t, ht⟩ := scopeDefs_prefix ps
  cases l <;> simp only [stepLine] at h
  all_goals repeat' split at h
  all_goals first | (cases h; done) | skip
  all_goals (simp only [Except.ok.injEq] at h; subst h)
  all_goals first | (simp [BlockChange]; done) | skip
  all_goals first
    | (rename_i heq _; rw [heq] at ht; simp [BlockChange, ht]; done)
    | (rename_i heq; rw [heq] at ht; simp [BlockChange, ht]; done)
    | skip
  -- `continue` inside a `for`: the entry is replaced in place
  rename_i heq
  have := findLoop_split _ heq
  rw [this] at ht
  simp [BlockChange, ht]

theorem stepLine_defs_length {ps ps' : PState} {l : Line} (h : stepLine ps l = .ok ps') :
    ps'.defs.length = ps.defs.length + 1 ∨ ps'.defs.length + 1 = ps.defs.length ∨ ps'.defs.length = ps.defs.length := by
  have := stepLine_block h
  cases l <;> simp only [BlockChange] at this
  all_goals first
    | (obtain ⟨d, hd⟩ := this; rw [hd]; simp; done)
    | (obtain ⟨d, d', t, h1, h2⟩ := this; rw [h1, h2]; simp; done)
    | (rw [this]; simp; done)
    | (simp [this]; done)

/-- the documented effects of one source line on the parser state -/
inductive LineEffect (ps ps' : PState) : Prop
  /-- at least one statement was appended to the current statement list (all block lines are of this kind) -/
  | grew (hf : ps'.func.isSome = ps.func.isSome) (hs : ps.func.isSome = true → ps'.stmts = ps.stmts)
      (h : ps.cur.length < ps'.cur.length)
  | funcOpened (h : ps.func = none) (h' : ps'.func.isSome = true) (hs : ps'.stmts = ps.stmts)
  | funcClosed (f : OpenFunc) (h : ps.func = some f) (h' : ps'.func = none)
      (hs : ps'.stmts = ps.stmts ++ [.function f.fid f.name f.args f.lastArgArray f.isAsync f.body])
  | includeMerged (pre : List Stmt) (incs : List IncludeScript) (inc : IncludeScript)
      (hf : ps'.func.isSome = ps.func.isSome) (hs : ps.func.isSome = true → ps'.stmts = ps.stmts)
      (h : ps.cur = pre ++ [.include incs]) (h' : ps'.cur = pre ++ [.include (incs ++ [inc])])

theorem stepLine_effect {ps ps' : PState} {l : Line} (h : stepLine ps l = .ok ps') : LineEffect ps ps' := by
  cases l <;> simp only [stepLine] at h
  all_goals repeat' split at h
  all_goals first | (cases h; done) | skip
  all_goals (simp only [Except.ok.injEq] at h; subst h)
  all_goals first
    | (apply LineEffect.grew
       · simp
       · intro hsome; simp [emit_stmts hsome, setCur_stmts hsome]
       · simp [retarget_length, forHeader, forFooter]
       done)
    | skip
  · rename_i heq; exact .funcOpened heq rfl rfl
  · rename_i f heq _; exact .funcClosed f heq rfl rfl
  · rename_i incs heq
    rename_i url sys _
    refine .includeMerged ps.cur.dropLast incs { url := url, system := sys } (by simp)
      (fun hsome => by simp [setCur_stmts hsome]) ?_ (by simp)
    exact eq_dropLast_append _ _ heq


/-! ## `stepLogical` restated with named pieces -/

/-- the `BareScriptParserError` of a block-structure error: `Missing end…` raised by `endfunction` reports the line
that opened the innermost open block, everything else the current line; always column 1 -/
def structural (wh : Where) (line : String) (ln : Nat) (e : LowerErr) : ParserError :=
  match e with
  | .missingEnd _ =>
      match wh.defs with
      | (dl, dn) :: _ => ⟨e.text, dl, 1, dn⟩
      | [] => ⟨e.text, line, 1, ln⟩
  | _ => ⟨e.text, line, 1, ln⟩

/-- the position stack after a successful lowering step `ps → ps'` of the line `(line, ln)` -/
def whereStep (ps ps' : PState) (wh : Where) (line : String) (ln : Nat) : Where :=
  { defs :=
      if ps'.defs.length = ps.defs.length + 1 then (line, ln) :: wh.defs
      else if ps'.defs.length + 1 = ps.defs.length then wh.defs.tail
      else wh.defs,
    func :=
      match ps.func, ps'.func with
      | none, some _ => some (line, ln)
      | _, none => none
      | some _, some _ => wh.func }

/-- the block-structure test an `elif` line undergoes before its expression is parsed -/
def preCheck (s : St) (line : String) (ln : Nat) : Except ParserError Unit :=
  match Scan.shape line.toList with
  | .elif _ _ =>
      match stepLine s.1 (.elif dummyExpr) with
      | .error e => .error (structural s.2 line ln e)
      | .ok _ => .ok ()
  | _ => .ok ()

theorem stepLogical_eq (start : Nat) (s : St) (ix : Nat) (line : String) :
    stepLogical start s ix line =
      match preCheck s line (start + ix) with
      | .error e => .error e
      | .ok () =>
        match Scan.classify ExprParse.parseExpr line with
        | .error pe => .error ⟨pe.error, line, pe.column, start + ix⟩
        | .ok cl =>
          match stepLine s.1 cl with
          | .error e => .error (structural s.2 line (start + ix) e)
          | .ok ps' => .ok (ps', whereStep s.1 ps' s.2 line (start + ix)) := rfl

/-- a successful step: the line was classified and lowered -/
theorem stepLogical_ok {start : Nat} {s s' : St} {ix : Nat} {line : String} (h : stepLogical start s ix line = .ok s') :
    ∃ cl, Scan.classify ExprParse.parseExpr line = .ok cl ∧ stepLine s.1 cl = .ok s'.1 ∧
      s'.2 = whereStep s.1 s'.1 s.2 line (start + ix) := by
  rw [stepLogical_eq] at h
  split at h
  · cases h
  · split at h
    · cases h
    · rename_i cl hcl
      split at h
      · cases h
      · rename_i ps' hps
        simp only [Except.ok.injEq] at h
        subst h
        exact ⟨cl, hcl, hps, rfl⟩

/-! ## the position stack moves together with the block stack -/

/-- a recorded position is that of a logical line of `ll` -/
def IsPos (start : Nat) (ll : List (Nat × String)) (x : String × Nat) : Prop :=
  ∃ ix line, (ix, line) ∈ ll ∧ x = (line, start + ix)

/-- the two stacks have the same height, a function position is recorded exactly when a function is open -/
structure Sync (s : St) : Prop where
  len : s.2.defs.length = s.1.defs.length
  fsome : s.2.func.isSome = s.1.func.isSome

/-- every recorded position is that of a logical line of `ll` -/
structure Pos (start : Nat) (ll : List (Nat × String)) (s : St) : Prop where
  defs : ∀ x ∈ s.2.defs, IsPos start ll x
  func : ∀ x, s.2.func = some x → IsPos start ll x

theorem sync_init : Sync (PState.init, {}) := ⟨rfl, rfl⟩
theorem pos_init (start : Nat) (ll : List (Nat × String)) : Pos start ll (PState.init, {}) :=
  ⟨fun x hx => (by cases hx), fun x hx => (by cases hx)⟩

theorem whereStep_sync {ps ps' : PState} {wh : Where} {cl : Line} (line : String) (ln : Nat)
    (hs : Sync (ps, wh)) (h : stepLine ps cl = .ok ps') : Sync (ps', whereStep ps ps' wh line ln) := by
  have hl := stepLine_defs_length h
  have h1 := hs.len
  have h2 := hs.fsome
  simp only at h1 h2
  constructor
  · simp only [whereStep]
    split
    · simp only [List.length_cons]; omega
    · split
      · simp only [List.length_tail]; omega
      · omega
  · simp only [whereStep]
    split <;> simp_all

theorem whereStep_pos {start : Nat} {ll : List (Nat × String)} {ps ps' : PState} {wh : Where} {ix : Nat} {line : String}
    (hmem : (ix, line) ∈ ll) (hp : Pos start ll (ps, wh)) : Pos start ll (ps', whereStep ps ps' wh line (start + ix)) := by
  have hcur : IsPos start ll (line, start + ix) := ⟨ix, line, hmem, rfl⟩
  constructor
  · intro x hx
    simp only [whereStep] at hx
    split at hx
    · rcases List.mem_cons.mp hx with rfl | hx
      · exact hcur
      · exact hp.defs x hx
    · split at hx
      · exact hp.defs x (List.mem_of_mem_tail hx)
      · exact hp.defs x hx
  · intro x hx
    simp only [whereStep] at hx
    split at hx
    · cases hx; exact hcur
    · cases hx
    · exact hp.func x hx

theorem stepLogical_sync {start : Nat} {s s' : St} {ix : Nat} {line : String} (hs : Sync s)
    (h : stepLogical start s ix line = .ok s') : Sync s' := by
  obtain ⟨cl, _, h2, h3⟩ := stepLogical_ok h
  obtain ⟨ps', wh'⟩ := s'
  simp only at h2 h3
  subst h3
  exact whereStep_sync line _ hs h2

theorem stepLogical_pos {start : Nat} {ll : List (Nat × String)} {s s' : St} {ix : Nat} {line : String}
    (hmem : (ix, line) ∈ ll) (hp : Pos start ll s) (h : stepLogical start s ix line = .ok s') : Pos start ll s' := by
  obtain ⟨cl, _, h2, h3⟩ := stepLogical_ok h
  obtain ⟨ps', wh'⟩ := s'
  simp only at h2 h3
  subst h3
  exact whereStep_pos hmem hp

/-! ## errors point into the source -/

/-- the error carries the number and text of a logical line of `ll` and a column inside it -/
def GoodPos (start : Nat) (ll : List (Nat × String)) (e : ParserError) : Prop :=
  ∃ ix line, (ix, line) ∈ ll ∧ e.lineNumber = start + ix ∧ e.line = line ∧ 1 ≤ e.column ∧ e.column ≤ line.length + 1

theorem structural_good {start : Nat} {ll : List (Nat × String)} {s : St} {ix : Nat} {line : String}
    (hmem : (ix, line) ∈ ll) (hp : Pos start ll s) (e : LowerErr) :
    GoodPos start ll (structural s.2 line (start + ix) e) ∧ (structural s.2 line (start + ix) e).column = 1 := by
  have hcur : ∀ t, GoodPos start ll ⟨t, line, 1, start + ix⟩ :=
    fun t => ⟨ix, line, hmem, rfl, rfl, Nat.le_refl 1, by simp⟩
  unfold structural
  split
  · split
    · rename_i dl dn rest hd
      obtain ⟨ix', line', hm', he⟩ := hp.defs (dl, dn) (by rw [hd]; simp)
      simp only [Prod.mk.injEq] at he
      obtain ⟨rfl, rfl⟩ := he
      exact ⟨⟨ix', dl, hm', rfl, rfl, Nat.le_refl 1, by simp⟩, rfl⟩
    · exact ⟨hcur _, rfl⟩
  · exact ⟨hcur _, rfl⟩

/-- **errors of one line**: the reported position is the current line or the recorded opening line of a block, the
column is inside that line -/
theorem stepLogical_error {start : Nat} {ll : List (Nat × String)} {s : St} {ix : Nat} {line : String} {e : ParserError}
    (hmem : (ix, line) ∈ ll) (hp : Pos start ll s) (h : stepLogical start s ix line = .error e) : GoodPos start ll e := by
  rw [stepLogical_eq] at h
  split at h
  · rename_i e' hpre
    cases h
    unfold preCheck at hpre
    split at hpre
    · split at hpre
      · cases hpre; exact (structural_good hmem hp _).1
      · cases hpre
    · cases hpre
  · split at h
    · rename_i pe hpe
      cases h
      have := classify_error_column line pe hpe
      exact ⟨ix, line, hmem, rfl, rfl, this.2.1, this.2.2⟩
    · split at h
      · cases h; exact (structural_good hmem hp _).1
      · cases h

/-- an error of one line is an expression error (one of the two texts of `parse_expression`) or a block-structure error
with column 1 -/
theorem stepLogical_error_kind {start : Nat} {s : St} {ix : Nat} {line : String} {e : ParserError}
    (h : stepLogical start s ix line = .error e) : ExprMsg e.error ∨ e.column = 1 := by
  have hcol : ∀ (err : LowerErr), (structural s.2 line (start + ix) err).column = 1 := by
    intro err
    unfold structural
    split
    · split <;> rfl
    · rfl
  rw [stepLogical_eq] at h
  split at h
  · rename_i e' hpre
    cases h
    unfold preCheck at hpre
    split at hpre
    · split at hpre
      · cases hpre; exact .inr (hcol _)
      · cases hpre
    · cases hpre
  · split at h
    · rename_i pe hpe
      cases h
      exact .inl (classify_error_column line pe hpe).1
    · split at h
      · cases h; exact .inr (hcol _)
      · cases h

/-! ## shifting the start line number -/

def shiftE (d : Nat) (e : ParserError) : ParserError := { e with lineNumber := e.lineNumber + d }

def shiftW (d : Nat) (wh : Where) : Where :=
  { defs := wh.defs.map (fun x => (x.1, x.2 + d)), func := wh.func.map (fun x => (x.1, x.2 + d)) }

/-- add `d` to the line number of an error result; a success is unchanged -/
def shiftR {α : Type} (d : Nat) : Except ParserError α → Except ParserError α
  | .ok a => .ok a
  | .error e => .error (shiftE d e)

def shiftS (d : Nat) : Except ParserError St → Except ParserError St
  | .ok s => .ok (s.1, shiftW d s.2)
  | .error e => .error (shiftE d e)

theorem structural_shift (d : Nat) (wh : Where) (line : String) (ln : Nat) (e : LowerErr) :
    structural (shiftW d wh) line (ln + d) e = shiftE d (structural wh line ln e) := by
  obtain ⟨defs, func⟩ := wh
  cases e <;> first | rfl | (cases defs <;> rfl)

theorem whereStep_shift (d : Nat) (ps ps' : PState) (wh : Where) (line : String) (ln : Nat) :
    whereStep ps ps' (shiftW d wh) line (ln + d) = shiftW d (whereStep ps ps' wh line ln) := by
  obtain ⟨defs, func⟩ := wh
  simp only [whereStep, shiftW]
  congr 1
  · split
    · simp
    · split
      · simp
      · rfl
  · split <;> simp

theorem preCheck_shift (d : Nat) (ps : PState) (wh : Where) (line : String) (ln : Nat) :
    preCheck (ps, shiftW d wh) line (ln + d) = shiftR d (preCheck (ps, wh) line ln) := by
  unfold preCheck
  split
  · simp only
    split
    · simp only [structural_shift, shiftR]
    · rfl
  · rfl

theorem stepLogical_shift (start d : Nat) (ps : PState) (wh : Where) (ix : Nat) (line : String) :
    stepLogical (start + d) (ps, shiftW d wh) ix line = shiftS d (stepLogical start (ps, wh) ix line) := by
  rw [stepLogical_eq, stepLogical_eq, Nat.add_right_comm start d ix, preCheck_shift]
  cases preCheck (ps, wh) line (start + ix) with
  | error e => rfl
  | ok u =>
    simp only [shiftR]
    cases Scan.classify ExprParse.parseExpr line with
    | error pe => rfl
    | ok cl =>
      simp only
      cases stepLine ps cl with
      | error e => simp only [structural_shift, shiftS]
      | ok ps' => simp only [whereStep_shift, shiftS]

theorem stepAll_shift (start d : Nat) : ∀ (ll : List (Nat × String)) (ps : PState) (wh : Where),
    stepAll (start + d) (ps, shiftW d wh) ll = shiftS d (stepAll start (ps, wh) ll)
  | [], _, _ => rfl
  | (ix, line) :: rest, ps, wh => by
      simp only [stepAll, stepLogical_shift]
      cases stepLogical start (ps, wh) ix line with
      | error e => rfl
      | ok s' =>
        obtain ⟨ps', wh'⟩ := s'
        simp only [shiftS]
        exact stepAll_shift start d rest ps' wh'

theorem finishAll_shift (start d : Nat) (ps : PState) (wh : Where) (dg : Option Text.LineErr) :
    finishAll (start + d) (ps, shiftW d wh) dg = shiftR d (finishAll start (ps, wh) dg) := by
  obtain ⟨wdefs, wfunc⟩ := wh
  cases dg with
  | some x => simp only [finishAll, shiftR, shiftE, Nat.add_right_comm start d]
  | none =>
    simp only [finishAll, shiftW]
    cases hd : ps.defs with
    | cons a as => cases wdefs <;> rfl
    | nil =>
      simp only
      cases hf : ps.func with
      | none => rfl
      | some f => cases wfunc <;> rfl

/-! ## re-indexing the logical lines = moving the start line number -/

def addIx (k : Nat) (e : Text.LineErr) : Text.LineErr := { e with ixLine := e.ixLine + k }

theorem stepLogical_reindex (start k : Nat) (s : St) (ix : Nat) (line : String) :
    stepLogical start s (ix + k) line = stepLogical (start + k) s ix line := by
  rw [stepLogical_eq, stepLogical_eq]
  have : start + (ix + k) = start + k + ix := by omega
  rw [this]

theorem stepAll_reindex (start k : Nat) : ∀ (ll : List (Nat × String)) (s : St),
    stepAll start s (ll.map (fun x => (x.1 + k, x.2))) = stepAll (start + k) s ll
  | [], _ => rfl
  | (ix, line) :: rest, s => by
      simp only [List.map_cons, stepAll, stepLogical_reindex]
      cases stepLogical (start + k) s ix line with
      | error e => rfl
      | ok s' => exact stepAll_reindex start k rest s'

theorem finishAll_reindex (start k : Nat) (s : St) (hs : Sync s) (dg : Option Text.LineErr) :
    finishAll start s (dg.map (addIx k)) = finishAll (start + k) s dg := by
  obtain ⟨ps, wdefs, wfunc⟩ := s
  have h1 := hs.len
  have h2 := hs.fsome
  simp only at h1 h2
  cases dg with
  | some x => simp only [finishAll, Option.map_some, addIx, Nat.add_assoc, Nat.add_comm k]
  | none =>
    simp only [finishAll, Option.map_none]
    cases hd : ps.defs with
    | cons a as =>
      cases wdefs with
      | nil => rw [hd] at h1; simp at h1
      | cons b bs => rfl
    | nil =>
      simp only
      cases hf : ps.func with
      | none => rfl
      | some f =>
        cases wfunc with
        | none => rw [hf] at h2; simp at h2
        | some g => rfl

theorem stepAll_sync (start : Nat) : ∀ (ll : List (Nat × String)) (s s' : St), Sync s →
    stepAll start s ll = .ok s' → Sync s'
  | [], s, s', hs, h => by simp only [stepAll, Except.ok.injEq] at h; subst h; exact hs
  | (ix, line) :: rest, s, s', hs, h => by
      simp only [stepAll] at h
      split at h
      · rename_i s1 h1
        exact stepAll_sync start rest s1 s' (stepLogical_sync hs h1) h
      · cases h

/-! ## comment / blank lines in front -/

theorem loopL_comments : ∀ (cs : List Chars) (i ix : Nat), (∀ c ∈ cs, isCommentL c = true) → loopL i cs [] ix = ([], none)
  | [], _, _, _ => rfl
  | c :: rest, i, ix, h => by
      have hc : isCommentL c = true := h c (by simp)
      simp only [loopL, hc, if_true]
      exact loopL_comments rest (i + 1) ix (fun c' hc' => h c' (List.mem_cons_of_mem _ hc'))

/-- physical lines that are all comments or blank, put in front of a text, move every logical line index by their
number and change nothing else -/
theorem logicalLinesCore_prepend (P L : List String) (hP : ∀ l ∈ P, Text.isComment l = true) :
    Text.logicalLinesCore (P ++ L) =
      ((Text.logicalLinesCore L).1.map (fun x => (x.1 + P.length, x.2)),
       (Text.logicalLinesCore L).2.map (addIx P.length)) := by
  have hP' : ∀ c ∈ P.map String.toList, isCommentL c = true := by
    intro c hc
    obtain ⟨l, hl, rfl⟩ := List.mem_map.mp hc
    exact hP l hl
  have h0 : logicalLinesL (P.map String.toList) = ([], none) := loopL_comments _ 0 0 hP'
  have hc := C10.logical_lines_compositional (P.map String.toList) (L.map String.toList) (by rw [h0])
  unfold Text.logicalLinesCore
  simp only [List.map_append, hc, h0, C10.reindex, List.nil_append, List.length_map, List.map_map, Option.map_map]
  refine Prod.ext ?_ ?_
  · simp only [Function.comp_def]
  · simp only
    congr 1

theorem scriptLines_prepend (pre lines : List String)
    (hpre : ∀ l ∈ pre.flatMap Text.splitLines, Text.isComment l = true) :
    Text.scriptLines (pre ++ lines) =
      ((Text.scriptLines lines).1.map (fun x => (x.1 + (pre.flatMap Text.splitLines).length, x.2)),
       (Text.scriptLines lines).2.map (addIx (pre.flatMap Text.splitLines).length)) := by
  unfold Text.scriptLines
  rw [List.flatMap_append]
  exact logicalLinesCore_prepend _ _ hpre

/-! ## what acceptance and error reporting depend on: an abstraction of the parser state

Used for `prepend_statements_shift`: statements put in front change the statement lists (and the jump positions recorded
in `if` entries) but not the abstraction, and two states with the same abstraction accept / reject the same lines with
the same errors. -/

/-- what the block-structure tests of the lowering look at in a stack entry -/
inductive Tag where
  | ifT (hasElse : Bool) | whileT | forT
deriving DecidableEq, Repr

def tag : LabelDef → Tag
  | .ifD _ _ _ h => .ifT h
  | .whileD .. => .whileT
  | .forD .. => .forT

def Tag.kind : Tag → String
  | .ifT _ => "if" | .whileT => "while" | .forT => "for"

theorem tag_kind (d : LabelDef) : (tag d).kind = d.kind := by cases d <;> rfl

/-- the part of the parser state that decides acceptance and the error text: is a function open, its stack floor, the
kinds of the open blocks -/
structure Abs where
  inFunc : Bool
  floor : Nat
  tags : List Tag
deriving DecidableEq, Repr

def abs (ps : PState) : Abs := ⟨ps.func.isSome, ps.floor, ps.defs.map tag⟩

def Abs.scope (a : Abs) : List Tag := a.tags.take (a.tags.length - a.floor)

def hasLoop : List Tag → Bool
  | [] => false
  | .ifT _ :: r => hasLoop r
  | _ :: _ => true

def headKind : List Tag → String
  | t :: _ => t.kind
  | [] => (default : LabelDef).kind

/-- the lowering step on the abstraction -/
def astep (a : Abs) : Line → Except LowerErr Abs
  | .assign .. | .exprStmt _ | .label _ | .jump .. | .ret _ | .include .. => .ok a
  | .funcBegin .. => if a.inFunc then .error .nestedFunction else .ok ⟨true, a.tags.length, a.tags⟩
  | .funcEnd =>
      if a.inFunc then
        if a.tags.length > a.floor then .error (.missingEnd (headKind a.tags)) else .ok ⟨false, 0, a.tags⟩
      else .error .noMatchingFunction
  | .ifBegin _ => .ok { a with tags := .ifT false :: a.tags }
  | .elif _ =>
      match a.scope with
      | .ifT h :: _ => if h then .error .elifAfterElse else .ok { a with tags := .ifT false :: a.tags.tail }
      | _ => .error .noMatchingIf
  | .else_ =>
      match a.scope with
      | .ifT h :: _ => if h then .error .multipleElse else .ok { a with tags := .ifT true :: a.tags.tail }
      | _ => .error .noMatchingIf
  | .endif =>
      match a.scope with
      | .ifT _ :: _ => .ok { a with tags := a.tags.tail }
      | _ => .error .noMatchingIf
  | .whileBegin _ => .ok { a with tags := .whileT :: a.tags }
  | .endwhile =>
      match a.scope with
      | .whileT :: _ => .ok { a with tags := a.tags.tail }
      | _ => .error .noMatchingWhile
  | .forBegin .. => .ok { a with tags := .forT :: a.tags }
  | .endfor =>
      match a.scope with
      | .forT :: _ => .ok { a with tags := a.tags.tail }
      | _ => .error .noMatchingFor
  | .break_ => if hasLoop a.scope then .ok a else .error .breakOutside
  | .continue_ => if hasLoop a.scope then .ok a else .error .continueOutside

theorem abs_scope (ps : PState) : (abs ps).scope = ps.scopeDefs.map tag := by
  simp [Abs.scope, abs, PState.scopeDefs, List.map_take]

@[simp] theorem setCur_floor (s : PState) (ss : List Stmt) : (s.setCur ss).floor = s.floor := by
  obtain ⟨a, f, c, d, e⟩ := s
  cases f <;> rfl
@[simp] theorem emit_floor (s : PState) (ss : List Stmt) : (s.emit ss).floor = s.floor := setCur_floor _ _

@[simp] theorem abs_setCur (s : PState) (ss : List Stmt) : abs (s.setCur ss) = abs s := by simp [abs]
@[simp] theorem abs_emit (s : PState) (ss : List Stmt) : abs (s.emit ss) = abs s := by simp [abs]

theorem abs_mk (s1 : PState) (d : List LabelDef) (i n : Nat) :
    abs (PState.mk s1.stmts s1.func d i n) = ⟨s1.func.isSome, s1.floor, d.map tag⟩ := rfl

theorem findLoop_hasLoop : ∀ ds : List LabelDef, (findLoop ds).isSome = hasLoop (ds.map tag)
  | [] => rfl
  | .ifD .. :: rest => by simp [findLoop, hasLoop, tag, findLoop_hasLoop rest]
  | .whileD .. :: rest => by simp [findLoop, hasLoop, tag]
  | .forD .. :: rest => by simp [findLoop, hasLoop, tag]

theorem abs_with (s1 : PState) (d : List LabelDef) (i n : Nat) :
    abs (PState.mk s1.stmts s1.func d i n) = ⟨(abs s1).inFunc, (abs s1).floor, d.map tag⟩ := rfl

theorem abs_tags (ps : PState) : (abs ps).tags = ps.defs.map tag := rfl

theorem headKind_map (ds : List LabelDef) : headKind (ds.map tag) = ds.head!.kind := by
  cases ds with
  | nil => rfl
  | cons d r => simp [headKind, tag_kind, List.head!]

theorem findLoop_not_if : ∀ (ds : List LabelDef) {pre a b c d post},
    findLoop ds ≠ some (pre, .ifD a b c d, post)
  | [], _, _, _, _, _, _ => by simp [findLoop]
  | .whileD .. :: rest, _, _, _, _, _, _ => by simp [findLoop]
  | .forD .. :: rest, _, _, _, _, _, _ => by simp [findLoop]
  | .ifD .. :: rest, pre, a, b, c, d, post => by
      intro h
      simp only [findLoop, Option.map_eq_some_iff] at h
      obtain ⟨⟨pre', l', post'⟩, h1, h2⟩ := h
      simp only [Prod.mk.injEq] at h2
      obtain ⟨_, rfl, _⟩ := h2
      exact findLoop_not_if rest h1

theorem stepLine_abs (ps : PState) (l : Line) : (stepLine ps l).map abs = astep (abs ps) l := by
  have hsc := abs_scope ps
  have hfl := findLoop_hasLoop ps.scopeDefs
  cases l <;> simp only [stepLine, astep]
  all_goals first | (simp [Except.map]; done) | skip
  case funcBegin =>
    cases hf : ps.func <;> simp [abs, hf, Except.map, PState.floor]
  case funcEnd =>
    cases hf : ps.func with
    | none => simp [abs, hf, Except.map]
    | some f =>
      have e1 : (abs ps).inFunc = true := by simp [abs, hf]
      have e2 : (abs ps).floor = f.floor := by simp [abs, PState.floor, hf]
      have e3 : (abs ps).tags.length = ps.defs.length := by simp [abs]
      simp only [e1, e2, e3, if_true]
      split
      · simp [Except.map, abs_tags, headKind_map]
      · simp [Except.map, abs, PState.floor]
  case ifBegin | whileBegin | forBegin =>
    simp [Except.map, abs_with, abs_tags, tag]
  case elif | else_ | endif | endwhile | endfor =>
    rw [hsc]
    cases hsd : ps.scopeDefs with
    | nil => simp [Except.map]
    | cons d r =>
      cases d <;> simp only [List.map_cons, tag]
      all_goals first
        | (simp [Except.map]; done)
        | (split <;> simp [Except.map, abs_with, abs_tags, tag])
        | (simp [Except.map, abs_with, abs_tags])
  case break_ | continue_ =>
    rw [hsc, ← hfl]
    cases hfind : findLoop ps.scopeDefs with
    | none => simp [Except.map]
    | some x =>
      obtain ⟨pre, d, post⟩ := x
      obtain ⟨t, ht⟩ := scopeDefs_prefix ps
      have hsplit := findLoop_split _ hfind
      cases d with
      | ifD a b c d => exact absurd hfind (findLoop_not_if _)
      | whileD => simp [Except.map]
      | forD i ixv hc =>
        simp only [Except.map, Option.isSome_some, if_true]
        first
          | (simp; done)
          | (rw [abs_with, abs_emit]
             congr 1
             simp only [abs, Abs.mk.injEq, true_and]
             rw [ht, hsplit]
             simp [tag])
  case «include» =>
    split <;> simp [Except.map]

/-! ### two states with the same abstraction behave alike -/

def errOf {α : Type} : Except ParserError α → Option ParserError
  | .error e => some e
  | .ok _ => none

theorem stepLine_abs_eq {ps1 ps2 : PState} (h : abs ps1 = abs ps2) (l : Line) :
    (stepLine ps1 l).map abs = (stepLine ps2 l).map abs := by
  rw [stepLine_abs, stepLine_abs, h]

theorem stepLine_abs_error {ps1 ps2 : PState} (h : abs ps1 = abs ps2) {l : Line} {e : LowerErr}
    (h1 : stepLine ps1 l = .error e) : stepLine ps2 l = .error e := by
  have := stepLine_abs_eq h l
  rw [h1] at this
  cases h2 : stepLine ps2 l with
  | error e2 => rw [h2] at this; simp only [Except.map, Except.error.injEq] at this; rw [this]
  | ok x => rw [h2] at this; simp [Except.map] at this

theorem stepLine_abs_ok {ps1 ps2 ps1' : PState} (h : abs ps1 = abs ps2) {l : Line}
    (h1 : stepLine ps1 l = .ok ps1') : ∃ ps2', stepLine ps2 l = .ok ps2' ∧ abs ps1' = abs ps2' := by
  have := stepLine_abs_eq h l
  rw [h1] at this
  cases h2 : stepLine ps2 l with
  | error e2 => rw [h2] at this; simp [Except.map] at this
  | ok x => rw [h2] at this; simp only [Except.map, Except.ok.injEq] at this; exact ⟨x, rfl, this⟩

theorem abs_defs_length {ps1 ps2 : PState} (h : abs ps1 = abs ps2) : ps1.defs.length = ps2.defs.length := by
  have := congrArg (fun a => a.tags.length) h
  simpa [abs] using this

theorem abs_func_isSome {ps1 ps2 : PState} (h : abs ps1 = abs ps2) : ps1.func.isSome = ps2.func.isSome :=
  congrArg Abs.inFunc h

theorem whereStep_abs {ps1 ps2 ps1' ps2' : PState} (h : abs ps1 = abs ps2) (h' : abs ps1' = abs ps2') (wh : Where)
    (line : String) (ln : Nat) : whereStep ps1 ps1' wh line ln = whereStep ps2 ps2' wh line ln := by
  have l1 := abs_defs_length h
  have l2 := abs_defs_length h'
  have f1 := abs_func_isSome h
  have f2 := abs_func_isSome h'
  simp only [whereStep, l1, l2]
  congr 1
  cases hf1 : ps1.func <;> cases hf2 : ps2.func <;> cases hf1' : ps1'.func <;> cases hf2' : ps2'.func <;>
    simp_all

/-- agreement of two results of the line loop: same error, or states with the same abstraction and the same recorded
positions -/
def Sim0 : Except ParserError St → Except ParserError St → Prop
  | .error e1, .error e2 => e1 = e2
  | .ok s1, .ok s2 => abs s1.1 = abs s2.1 ∧ s1.2 = s2.2
  | _, _ => False

theorem preCheck_abs {ps1 ps2 : PState} (h : abs ps1 = abs ps2) (wh : Where) (line : String) (ln : Nat) :
    preCheck (ps1, wh) line ln = preCheck (ps2, wh) line ln := by
  unfold preCheck
  split
  · simp only
    cases h1 : stepLine ps1 (.elif dummyExpr) with
    | error e => rw [stepLine_abs_error h h1]
    | ok x => obtain ⟨y, hy, _⟩ := stepLine_abs_ok h h1; rw [hy]
  · rfl

theorem stepLogical_sim0 {ps1 ps2 : PState} (h : abs ps1 = abs ps2) (start : Nat) (wh : Where) (ix : Nat) (line : String) :
    Sim0 (stepLogical start (ps1, wh) ix line) (stepLogical start (ps2, wh) ix line) := by
  rw [stepLogical_eq, stepLogical_eq, preCheck_abs h]
  cases preCheck (ps2, wh) line (start + ix) with
  | error e => simp [Sim0]
  | ok u =>
    simp only
    cases Scan.classify ExprParse.parseExpr line with
    | error pe => simp [Sim0]
    | ok cl =>
      simp only
      cases h1 : stepLine ps1 cl with
      | error e => rw [stepLine_abs_error h h1]; simp [Sim0]
      | ok x =>
        obtain ⟨y, hy, hxy⟩ := stepLine_abs_ok h h1
        rw [hy]
        exact ⟨hxy, whereStep_abs h hxy _ _ _⟩

theorem stepAll_sim0 (start : Nat) : ∀ (ll : List (Nat × String)) (s1 s2 : St), abs s1.1 = abs s2.1 → s1.2 = s2.2 →
    Sim0 (stepAll start s1 ll) (stepAll start s2 ll)
  | [], s1, s2, h, hw => ⟨h, hw⟩
  | (ix, line) :: rest, (ps1, wh1), (ps2, wh2), h, hw => by
      simp only at h hw
      subst hw
      have := stepLogical_sim0 h start wh1 ix line
      simp only [stepAll]
      cases h1 : stepLogical start (ps1, wh1) ix line with
      | error e1 =>
        cases h2 : stepLogical start (ps2, wh1) ix line with
        | error e2 => rw [h1, h2] at this; exact this
        | ok y => rw [h1, h2] at this; exact this.elim
      | ok x =>
        cases h2 : stepLogical start (ps2, wh1) ix line with
        | error e2 => rw [h1, h2] at this; exact this.elim
        | ok y =>
          rw [h1, h2] at this
          exact stepAll_sim0 start rest x y this.1 this.2

theorem finishAll_sim0 (start : Nat) (s1 s2 : St) (h : abs s1.1 = abs s2.1) (hw : s1.2 = s2.2) (dg : Option Text.LineErr) :
    errOf (finishAll start s1 dg) = errOf (finishAll start s2 dg) := by
  obtain ⟨ps1, wh⟩ := s1
  obtain ⟨ps2, wh2⟩ := s2
  simp only at h hw
  subst hw
  have ht : ps1.defs.map tag = ps2.defs.map tag := congrArg Abs.tags h
  have hf := abs_func_isSome h
  cases dg with
  | some d => rfl
  | none =>
    simp only [finishAll]
    cases hd1 : ps1.defs with
    | cons a as =>
      cases hd2 : ps2.defs with
      | nil => rw [hd1, hd2] at ht; simp at ht
      | cons b bs =>
        rw [hd1, hd2] at ht
        simp only [List.map_cons, List.cons.injEq] at ht
        have hk : a.kind = b.kind := by rw [← tag_kind, ← tag_kind, ht.1]
        cases wh.defs <;> simp [errOf, hk]
    | nil =>
      cases hd2 : ps2.defs with
      | cons b bs => rw [hd1, hd2] at ht; simp at ht
      | nil =>
        simp only
        cases hf1 : ps1.func <;> cases hf2 : ps2.func <;> simp_all [errOf]
        cases wh.func <;> rfl

/-- the parser started in an arbitrary state -/
def parseFrom (start : Nat) (s : St) (ll : List (Nat × String)) (dg : Option Text.LineErr) :
    Except ParserError (List Stmt) :=
  match stepAll start s ll with
  | .error e => .error e
  | .ok s' => finishAll start s' dg

theorem parseScript_eq_parseFrom (chunks : List String) (start : Nat) :
    parseScript chunks start = parseFrom start (PState.init, {}) (Text.scriptLines chunks).1 (Text.scriptLines chunks).2 := rfl

theorem parseFrom_sim0 (start : Nat) (s1 s2 : St) (h : abs s1.1 = abs s2.1) (hw : s1.2 = s2.2)
    (ll : List (Nat × String)) (dg : Option Text.LineErr) :
    errOf (parseFrom start s1 ll dg) = errOf (parseFrom start s2 ll dg) := by
  have := stepAll_sim0 start ll s1 s2 h hw
  unfold parseFrom
  cases h1 : stepAll start s1 ll with
  | error e1 =>
    cases h2 : stepAll start s2 ll with
    | error e2 => rw [h1, h2] at this; simp only [Sim0] at this; rw [this]
    | ok y => rw [h1, h2] at this; exact this.elim
  | ok x =>
    cases h2 : stepAll start s2 ll with
    | error e2 => rw [h1, h2] at this; exact this.elim
    | ok y =>
      rw [h1, h2] at this
      exact finishAll_sim0 start x y this.1 this.2 dg

/-! ### "simple valid statement" lines in front -/

/-- the statement kinds that only append one statement to the current list -/
def IsEmit : Line → Bool
  | .assign .. | .exprStmt _ | .label _ | .jump .. | .ret _ => true
  | _ => false

theorem stepLine_emit {cl : Line} (h : IsEmit cl = true) (ps : PState) : ∃ ss, stepLine ps cl = .ok (ps.emit ss) := by
  cases cl <;> simp [IsEmit] at h <;> exact ⟨_, rfl⟩

/-- a *simple valid statement* chunk: one physical line, not a comment, no continuation backslash, that classifies
(without error) as an assignment, expression statement, label, jump or return -/
structure SimpleLine (p : String) : Prop where
  notComment : Text.isComment p = false
  noCont : Text.contBody? p.toList = none
  noNl : '\n' ∉ p.toList
  emits : ∃ cl, Scan.classify ExprParse.parseExpr p = .ok cl ∧ IsEmit cl = true

theorem classifyL_emit_not_elif {pexp : String → Except ParseErr Expr} {line : Chars} {cl : Line}
    (h : classifyL pexp line = .ok cl) (he : IsEmit cl = true) (off : Nat) (e : Chars) : shape line ≠ .elif off e := by
  intro hs
  unfold classifyL at h
  simp only [hs] at h
  cases hp : pexp (String.ofList e) with
  | error x => rw [hp] at h; simp [shiftErr, Except.map] at h
  | ok x =>
    rw [hp] at h
    simp only [shiftErr, Except.map, Except.ok.injEq] at h
    subst h
    simp [IsEmit] at he

theorem preCheck_simple {p : String} {cl : Line} (hc : Scan.classify ExprParse.parseExpr p = .ok cl)
    (he : IsEmit cl = true) (s : St) (ln : Nat) : preCheck s p ln = .ok () := by
  unfold preCheck
  split
  · rename_i off e hs
    exact absurd hs (classifyL_emit_not_elif hc he off e)
  · rfl

theorem whereStep_emit {ps : PState} {wh : Where} (hs : Sync (ps, wh)) (ss : List Stmt) (line : String) (ln : Nat) :
    whereStep ps (ps.emit ss) wh line ln = wh := by
  obtain ⟨wdefs, wfunc⟩ := wh
  have h2 := hs.fsome
  simp only at h2
  simp only [whereStep, emit_defs]
  congr 1
  · simp
  · have := emit_func_isSome ps ss
    cases hf : ps.func <;> cases hf' : (ps.emit ss).func <;> simp_all

theorem stepLogical_simple {p : String} (hp : SimpleLine p) (start : Nat) (ps : PState) (wh : Where) (hs : Sync (ps, wh))
    (ix : Nat) : ∃ ss, stepLogical start (ps, wh) ix p = .ok (ps.emit ss, wh) := by
  obtain ⟨cl, hc, he⟩ := hp.emits
  obtain ⟨ss, hss⟩ := stepLine_emit he ps
  refine ⟨ss, ?_⟩
  rw [stepLogical_eq, preCheck_simple hc he, hc]
  simp only [hss, whereStep_emit hs]

theorem stepAll_simple (start : Nat) : ∀ (pl : List (Nat × String)) (ps : PState) (wh : Where),
    (∀ x ∈ pl, SimpleLine x.2) → Sync (ps, wh) →
    ∃ ps', stepAll start (ps, wh) pl = .ok (ps', wh) ∧ abs ps' = abs ps
  | [], ps, wh, _, _ => ⟨ps, rfl, rfl⟩
  | (ix, p) :: rest, ps, wh, h, hs => by
      obtain ⟨ss, hss⟩ := stepLogical_simple (h (ix, p) (by simp)) start ps wh hs ix
      have hs' : Sync (ps.emit ss, wh) := stepLogical_sync hs hss
      obtain ⟨ps', h1, h2⟩ := stepAll_simple start rest (ps.emit ss) wh (fun x hx => h x (List.mem_cons_of_mem _ hx)) hs'
      refine ⟨ps', ?_, by rw [h2, abs_emit]⟩
      simp only [stepAll, hss, h1]

theorem stepAll_append (start : Nat) : ∀ (a b : List (Nat × String)) (s : St),
    stepAll start s (a ++ b) = match stepAll start s a with
      | .ok s' => stepAll start s' b
      | .error e => .error e
  | [], _, _ => rfl
  | (ix, line) :: rest, b, s => by
      simp only [List.cons_append, stepAll]
      cases stepLogical start s ix line with
      | error e => rfl
      | ok s' => exact stepAll_append start rest b s'

/-- `(i, l₀), (i+1, l₁), …` -/
def numbered {α : Type} : Nat → List α → List (Nat × α)
  | _, [] => []
  | i, c :: r => (i, c) :: numbered (i + 1) r

theorem numbered_map {α β : Type} (f : α → β) : ∀ (i : Nat) (l : List α),
    (numbered i l).map (fun x => (x.1, f x.2)) = numbered i (l.map f)
  | _, [] => rfl
  | i, c :: r => by simp [numbered, numbered_map f (i + 1) r]

theorem numbered_mem {α : Type} : ∀ (i : Nat) (l : List α) (x : Nat × α), x ∈ numbered i l → x.2 ∈ l
  | _, [], _, h => by cases h
  | i, c :: r, x, h => by
      simp only [numbered, List.mem_cons] at h
      rcases h with rfl | h
      · simp
      · exact List.mem_cons_of_mem _ (numbered_mem (i + 1) r x h)

theorem loopL_plain : ∀ (cs : List Chars) (i ix : Nat), (∀ c ∈ cs, isCommentL c = false ∧ contBody? c = none) →
    loopL i cs [] ix = (numbered i cs, none)
  | [], _, _, _ => rfl
  | c :: rest, i, ix, h => by
      obtain ⟨h1, h2⟩ := h c (by simp)
      have ih := loopL_plain rest (i + 1) i (fun c' hc' => h c' (List.mem_cons_of_mem _ hc'))
      simp [loopL, h1, h2, ih, emit, numbered]

/-- simple-statement chunks in front: they are the first logical lines, one each; the rest is re-indexed -/
theorem scriptLines_prepend_simple (pre lines : List String) (hpre : ∀ p ∈ pre, SimpleLine p) :
    Text.scriptLines (pre ++ lines) =
      (numbered 0 pre ++ (Text.scriptLines lines).1.map (fun x => (x.1 + pre.length, x.2)),
       (Text.scriptLines lines).2.map (addIx pre.length)) := by
  have hsplit : pre.flatMap Text.splitLines = pre := by
    clear lines
    induction pre with
    | nil => rfl
    | cons p rest ih =>
      have h1 : Text.splitLines p = [p] := by
        unfold Text.splitLines
        rw [C10.split_no_nl (hpre p (by simp)).noNl]
        simp
      rw [List.flatMap_cons, h1, ih (fun l hl => hpre l (List.mem_cons_of_mem _ hl))]
      rfl
  have hP' : ∀ c ∈ pre.map String.toList, isCommentL c = false ∧ contBody? c = none := by
    intro c hc
    obtain ⟨l, hl, rfl⟩ := List.mem_map.mp hc
    exact ⟨(hpre l hl).notComment, (hpre l hl).noCont⟩
  have h0 : logicalLinesL (pre.map String.toList) = (numbered 0 (pre.map String.toList), none) :=
    loopL_plain _ 0 0 hP'
  have hc := C10.logical_lines_compositional (pre.map String.toList)
    ((lines.flatMap Text.splitLines).map String.toList) (by rw [h0])
  unfold Text.scriptLines
  rw [List.flatMap_append, hsplit]
  unfold Text.logicalLinesCore
  simp only [List.map_append, hc, h0, C10.reindex, List.length_map, List.map_map, Option.map_map]
  refine Prod.ext ?_ ?_
  · simp only [Function.comp_def]
    congr 1
    rw [numbered_map, List.map_map]
    simp [Function.comp_def]
  · simp only
    congr 1

end C06
