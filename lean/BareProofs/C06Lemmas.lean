import BareModel.Parser
import BareProofs.C02
import BareProofs.C10

/-!
# C06 — helper lemmas

* `shape_offsets`: every expression group captured by the regex cascade (`Scan.shape`) lies inside the line:
  `match.start(group) + len(group) ≤ len(line)`.
* `classify_error_column`: hence (with `C02.reject_is_parser_error`) the re-based column of an expression error is
  inside the line for all eight statement kinds with an expression.
* `stepLine_defs_length`, `stepLine_effect`: case analysis of the lowering step.
* `Inv`: the position stack `Where` moves together with `PState.defs` / `PState.func` and only holds positions of
  earlier logical lines.
* `stepLogical_shift`: the parser commutes with a shift of the start line number.
-/

namespace C06
open Text Scan Lower Parser

/-! ## offsets of the captured expression groups -/

/-- every captured expression group `(off, e)` of the shape satisfies `off + |e| ≤ n` -/
def Bounded (n : Nat) : Shape → Prop
  | .assign _ off e => off + e.length ≤ n
  | .ifBegin off e => off + e.length ≤ n
  | .elif off e => off + e.length ≤ n
  | .whileBegin off e => off + e.length ≤ n
  | .forBegin _ _ off e => off + e.length ≤ n
  | .jump _ (some (off, e)) => off + e.length ≤ n
  | .ret (some (off, e)) => off + e.length ≤ n
  | _ => True

theorem Bounded.shift {n k : Nat} : ∀ {sh : Shape}, Bounded n sh → Bounded (n + k) (sh.shift k)
  | .assign .., h | .ifBegin .., h | .elif .., h | .whileBegin .., h | .forBegin .., h => by
      simp only [Bounded, Shape.shift] at *; omega
  | .jump _ (some (_, _)), h | .ret (some (_, _)), h => by simp only [Bounded, Shape.shift] at *; omega
  | .jump _ none, _ | .ret none, _ => by simp [Bounded, Shape.shift]
  | .funcBegin .., _ | .funcEnd, _ | .else_, _ | .endif, _ | .endwhile, _ | .endfor, _ | .break_, _ | .continue_, _
  | .label _, _ | .include .., _ | .exprStmt, _ => by simp [Bounded, Shape.shift]

theorem dropWhile_length_le {α} (p : α → Bool) (l : List α) : (l.dropWhile p).length ≤ l.length :=
  (List.dropWhile_sublist p).length_le

theorem lstrip_le (l : Chars) : (lstripL l).length ≤ l.length := dropWhile_length_le _ _

theorem keyword?_length {kw : String} {l r : Chars} (h : keyword? kw l = some r) : kw.length + r.length = l.length := by
  unfold keyword? at h
  split at h
  · rename_i hp
    cases h
    have := (List.isPrefixOf_iff_prefix.mp hp).length_le
    have e : kw.toList.length = kw.length := String.length_toList
    simp only [List.length_drop]; omega
  · cases h

theorem ws1?_length {l r : Chars} (h : ws1? l = some r) : r.length < l.length := by
  unfold ws1? at h
  split at h
  · split at h
    · cases h
      have := lstrip_le ‹Chars›
      simp only [List.length_cons]; omega
    · cases h
  · cases h

theorem ident?_length {l n r : Chars} (h : ident? l = some (n, r)) : r.length < l.length := by
  unfold ident? at h
  split at h
  · split at h
    · simp only [Option.some.injEq, Prod.mk.injEq] at h
      obtain ⟨_, rfl⟩ := h
      have := dropWhile_length_le isWord ‹Chars›
      simp only [List.length_cons]; omega
    · cases h
  · cases h

theorem assign?_bounded {s : Chars} {sh : Shape} (h : assign? s = some sh) : Bounded s.length sh := by
  unfold assign? at h
  split at h
  · rename_i name r1 hid
    have h1 := ident?_length hid
    have h2 := lstrip_le r1
    split at h
    · rename_i r3 hr3
      rw [hr3] at h2
      simp only [List.length_cons] at h2
      have h3 := lstrip_le r3
      split at h
      · cases h; simp only [Bounded, List.length_cons, List.length_nil]; omega
      · cases h
      · cases h; simp only [Bounded]; omega
    · cases h
  · cases h

theorem exprColon?_bounded {r : Chars} {n : Nat} {e : Chars} (h : exprColon? r = some (n, e)) :
    n + e.length < r.length := by
  unfold exprColon? at h
  split at h
  · rename_i revBefore hrev
    have h1 := dropWhile_length_le isSpace r.reverse
    rw [hrev] at h1
    simp only [List.length_cons, List.length_reverse] at h1
    have h2 : (revBefore.reverse.takeWhile isSpace).length + (revBefore.reverse.dropWhile isSpace).length
        = revBefore.length := by
      rw [← List.length_append, List.takeWhile_append_dropWhile, List.length_reverse]
    simp only at h
    split at h
    · cases h
    · rename_i hd _
      split at h
      · simp only [Option.some.injEq, Prod.mk.injEq] at h
        obtain ⟨rfl, rfl⟩ := h
        rw [hd] at h2
        simp only [List.length_cons, List.length_nil] at *; omega
      · cases h
    · simp only [Option.some.injEq, Prod.mk.injEq] at h
      obtain ⟨rfl, rfl⟩ := h
      omega
  · cases h

theorem kwExprColon?_bounded {kw : String} {mk : Nat → Chars → Shape} {s : Chars} {sh : Shape}
    (hmk : ∀ off e, off + e.length ≤ s.length → Bounded s.length (mk off e))
    (h : kwExprColon? kw mk s = some sh) : Bounded s.length sh := by
  unfold kwExprColon? at h
  split at h
  · rename_i r hk
    have h1 := keyword?_length hk
    split at h
    · rename_i n e he
      have h2 := exprColon?_bounded he
      cases h
      apply hmk; omega
    · cases h
  · cases h

theorem kwOnly?_bounded {kw : String} {sh0 : Shape} {s : Chars} {sh : Shape} (h0 : ∀ n, Bounded n sh0)
    (h : kwOnly? kw sh0 s = some sh) : Bounded s.length sh := by
  unfold kwOnly? at h
  split at h
  · split at h
    · cases h; exact h0 _
    · cases h
  · cases h

/-- the optional `, index` group of the `for` pattern -/
def forIndex (r : Chars) : Option Chars × Chars :=
  match lstripL r with
  | ',' :: r1 =>
    match ident? (lstripL r1) with
    | some (ix, r2) => (some ix, r2)
    | none => (none, r)
  | _ => (none, r)

theorem forIndex_length (r : Chars) : (forIndex r).2.length ≤ r.length := by
  unfold forIndex
  split
  · rename_i r1 hl
    have h0 := lstrip_le r
    rw [hl] at h0
    simp only [List.length_cons] at h0
    split
    · rename_i ix r2 hid
      have := ident?_length hid
      have := lstrip_le r1
      simp only; omega
    · simp
  · simp

theorem for?_eq (s : Chars) : for? s =
    match keyword? "for" s with
    | none => none
    | some r =>
      match ws1? r with
      | none => none
      | some r =>
        match ident? r with
        | none => none
        | some (value, r) =>
          match ws1? (forIndex r).2 with
          | none => none
          | some r' =>
            match keyword? "in" r' with
            | none => none
            | some r' =>
              match exprColon? r' with
              | some (n, e) => some (.forBegin value (forIndex r).1 (s.length - r'.length + n) e)
              | none => none := rfl

theorem for?_bounded {s : Chars} {sh : Shape} (h : for? s = some sh) : Bounded s.length sh := by
  rw [for?_eq] at h
  split at h
  · cases h
  · rename_i r0 hk
    have l0 := keyword?_length hk
    split at h
    · cases h
    · rename_i r1 hw
      have l1 := ws1?_length hw
      split at h
      · cases h
      · rename_i value r2 hid
        have l2 := ident?_length hid
        have l2' := forIndex_length r2
        split at h
        · cases h
        · rename_i r3 hw3
          have l3 := ws1?_length hw3
          split at h
          · cases h
          · rename_i r4 hk4
            have l4 := keyword?_length hk4
            split at h
            · rename_i n e he
              have l5 := exprColon?_bounded he
              cases h
              simp only [Bounded]
              omega
            · cases h

theorem splitLastParen_length {r e tail : Chars} (h : splitLastParen r = some (e, tail)) : e.length < r.length := by
  unfold splitLastParen at h
  simp only at h
  split at h
  · rename_i beforeRev hrev
    simp only [Option.some.injEq, Prod.mk.injEq] at h
    obtain ⟨rfl, _⟩ := h
    have h1 := dropWhile_length_le (· != ')') r.reverse
    rw [hrev] at h1
    simp only [List.length_cons, List.length_reverse] at *; omega
  · cases h

theorem jump?_bounded {s : Chars} {sh : Shape} (h : jump? s = some sh) : Bounded s.length sh := by
  unfold jump? at h
  split at h
  · cases h
  · rename_i r hk
    have l0 := keyword?_length hk
    split at h
    · cases h; simp [Bounded]
    · split at h
      · cases h
      · rename_i r1 hk1
        have l1 := keyword?_length hk1
        have l2 := lstrip_le r1
        split at h
        · rename_i r2 hr2
          rw [hr2] at l2
          simp only [List.length_cons] at l2
          split at h
          · rename_i e tail hsp
            have l3 := splitLastParen_length hsp
            split at h
            · cases h
            · split at h
              · cases h; simp only [Bounded]; omega
              · cases h
          · cases h
        · cases h

theorem return?_bounded {s : Chars} {sh : Shape} (h : return? s = some sh) : Bounded s.length sh := by
  unfold return? at h
  split at h
  · cases h
  · rename_i r hk
    have l0 := keyword?_length hk
    split at h
    · cases h; simp [Bounded]
    · split at h
      · rename_i c cs _
        split at h
        · cases h
          have := lstrip_le (c :: cs)
          simp only [Bounded]; omega
        · cases h
      · cases h

theorem funcBegin?_bounded {s : Chars} {sh : Shape} (h : funcBegin? s = some sh) : Bounded s.length sh := by
  unfold funcBegin? at h
  simp only at h
  repeat' split at h
  all_goals first | cases h; simp [Bounded] | cases h

theorem else?_bounded {s : Chars} {sh : Shape} (h : else? s = some sh) : Bounded s.length sh := by
  unfold else? at h
  repeat' split at h
  all_goals first | cases h; simp [Bounded] | cases h

theorem label?_bounded {s : Chars} {sh : Shape} (h : label? s = some sh) : Bounded s.length sh := by
  unfold label? at h
  repeat' split at h
  all_goals first | cases h; simp [Bounded] | cases h

theorem include?_bounded {s : Chars} {sh : Shape} (h : include? s = some sh) : Bounded s.length sh := by
  unfold include? at h
  repeat' split at h
  all_goals first | cases h; simp [Bounded] | cases h | (simp only [Option.ite_none_right_eq_some, Option.some.injEq] at h; obtain ⟨_, rfl⟩ := h; simp [Bounded])

theorem orElse_bounded {n : Nat} {a b : Option Shape} (ha : ∀ sh, a = some sh → Bounded n sh)
    (hb : ∀ sh, b = some sh → Bounded n sh) : ∀ sh, (a <|> b) = some sh → Bounded n sh := by
  intro sh h
  cases a with
  | none => exact hb sh (by simpa using h)
  | some x => exact ha sh (by simpa using h)

theorem shapeS_bounded (s : Chars) : Bounded s.length (shapeS s) := by
  unfold shapeS
  have key : ∀ sh,
      (assign? s <|> funcBegin? s <|> kwOnly? "endfunction" .funcEnd s <|>
       kwExprColon? "if" .ifBegin s <|> kwExprColon? "elif" .elif s <|> else? s <|> kwOnly? "endif" .endif s <|>
       kwExprColon? "while" .whileBegin s <|> kwOnly? "endwhile" .endwhile s <|>
       for? s <|> kwOnly? "endfor" .endfor s <|> kwOnly? "break" .break_ s <|> kwOnly? "continue" .continue_ s <|>
       label? s <|> jump? s <|> return? s <|> include? s) = some sh → Bounded s.length sh := by
    refine orElse_bounded (fun _ => assign?_bounded) ?_
    refine orElse_bounded (fun _ => funcBegin?_bounded) ?_
    refine orElse_bounded (fun _ => kwOnly?_bounded (by simp [Bounded])) ?_
    refine orElse_bounded (fun _ => kwExprColon?_bounded (by simp [Bounded])) ?_
    refine orElse_bounded (fun _ => kwExprColon?_bounded (by simp [Bounded])) ?_
    refine orElse_bounded (fun _ => else?_bounded) ?_
    refine orElse_bounded (fun _ => kwOnly?_bounded (by simp [Bounded])) ?_
    refine orElse_bounded (fun _ => kwExprColon?_bounded (by simp [Bounded])) ?_
    refine orElse_bounded (fun _ => kwOnly?_bounded (by simp [Bounded])) ?_
    refine orElse_bounded (fun _ => for?_bounded) ?_
    refine orElse_bounded (fun _ => kwOnly?_bounded (by simp [Bounded])) ?_
    refine orElse_bounded (fun _ => kwOnly?_bounded (by simp [Bounded])) ?_
    refine orElse_bounded (fun _ => kwOnly?_bounded (by simp [Bounded])) ?_
    refine orElse_bounded (fun _ => label?_bounded) ?_
    refine orElse_bounded (fun _ => jump?_bounded) ?_
    refine orElse_bounded (fun _ => return?_bounded) ?_
    exact fun _ => include?_bounded
  generalize hq : (assign? s <|> funcBegin? s <|> kwOnly? "endfunction" .funcEnd s <|>
       kwExprColon? "if" .ifBegin s <|> kwExprColon? "elif" .elif s <|> else? s <|> kwOnly? "endif" .endif s <|>
       kwExprColon? "while" .whileBegin s <|> kwOnly? "endwhile" .endwhile s <|>
       for? s <|> kwOnly? "endfor" .endfor s <|> kwOnly? "break" .break_ s <|> kwOnly? "continue" .continue_ s <|>
       label? s <|> jump? s <|> return? s <|> include? s) = q at key
  cases q with
  | none => simp [Bounded]
  | some sh => exact key sh rfl

/-- **`shape_offsets`**: every expression group captured by the statement patterns is a piece of the line:
`match.start(group) + len(group) ≤ len(line)` -/
theorem shape_offsets (line : Chars) : Bounded line.length (shape line) := by
  unfold shape
  have h1 := shapeS_bounded (lstripL line)
  have h2 := lstrip_le line
  have := h1.shift (k := line.length - (lstripL line).length)
  have e : (lstripL line).length + (line.length - (lstripL line).length) = line.length := by omega
  rwa [e] at this

/-! ## the column of an expression error -/

def ExprMsg (m : String) : Prop := m = "Syntax error" ∨ m = "Unmatched parenthesis"

/-- what `C02.reject_is_parser_error` says about an expression parser -/
def GoodErrors (pexp : String → Except ParseErr Expr) : Prop :=
  ∀ s pe, pexp s = .error pe → ExprMsg pe.error ∧ 1 ≤ pe.column ∧ pe.column ≤ s.length + 1

theorem parseExpr_goodErrors : GoodErrors ExprParse.parseExpr := by
  intro s pe h
  have := C02.reject_is_parser_error s pe h
  exact ⟨this.1, this.2.2⟩

theorem ex_error {pexp : String → Except ParseErr Expr} (hg : GoodErrors pexp) {α : Type} {off : Nat} {e : Chars}
    {f : Expr → α} {pe : ParseErr} (h : (shiftErr off (pexp (String.ofList e))).map f = .error pe) :
    ExprMsg pe.error ∧ off + 1 ≤ pe.column ∧ pe.column ≤ off + e.length + 1 := by
  cases hp : pexp (String.ofList e) with
  | ok x => rw [hp] at h; cases h
  | error pe0 =>
    rw [hp] at h
    simp only [shiftErr, Except.map] at h
    cases h
    have := hg _ _ hp
    simp only [String.length_ofList] at this
    refine ⟨this.1, ?_, ?_⟩ <;> simp only <;> omega

theorem classifyL_error_column {pexp : String → Except ParseErr Expr} (hg : GoodErrors pexp) (line : Chars)
    (pe : ParseErr) (h : classifyL pexp line = .error pe) :
    ExprMsg pe.error ∧ 1 ≤ pe.column ∧ pe.column ≤ line.length + 1 := by
  have hb := shape_offsets line
  unfold classifyL at h
  simp only at h
  split at h
  all_goals first
    | (rename_i hs; rw [hs] at hb; simp only [Bounded] at hb
       have := ex_error hg h
       exact ⟨this.1, by omega, by omega⟩)
    | (cases h; done)
    | skip
  -- expression statement: the whole line
  cases hp : pexp (String.ofList line) with
  | ok x => rw [hp] at h; cases h
  | error pe0 =>
    rw [hp] at h
    simp only [Except.map] at h
    cases h
    have := hg _ _ hp
    simp only [String.length_ofList] at this
    exact this

/-- **`classify_error_column`**: an error of the line classifier (always an expression error) carries one of the two
expression error texts and a column inside the line (`len + 1` = end of line) — all eight statement kinds with an
expression. -/
theorem classify_error_column (line : String) (pe : ParseErr)
    (h : Scan.classify ExprParse.parseExpr line = .error pe) :
    ExprMsg pe.error ∧ 1 ≤ pe.column ∧ pe.column ≤ line.length + 1 := by
  have := classifyL_error_column parseExpr_goodErrors line.toList pe h
  simpa only [String.length_toList] using this

@[simp] theorem setCur_defs (s : PState) (ss : List Stmt) : (s.setCur ss).defs = s.defs := by
  unfold PState.setCur; split <;> rfl
@[simp] theorem setCur_cur (s : PState) (ss : List Stmt) : (s.setCur ss).cur = ss := by
  obtain ⟨a, f, c, d, e⟩ := s
  cases f <;> rfl
@[simp] theorem setCur_func_isSome (s : PState) (ss : List Stmt) : (s.setCur ss).func.isSome = s.func.isSome := by
  unfold PState.setCur; split <;> simp_all
theorem setCur_stmts {s : PState} (h : s.func.isSome = true) (ss : List Stmt) : (s.setCur ss).stmts = s.stmts := by
  obtain ⟨a, f, c, d, e⟩ := s
  cases f with
  | none => cases h
  | some f => rfl
theorem emit_stmts {s : PState} (h : s.func.isSome = true) (ss : List Stmt) : (s.emit ss).stmts = s.stmts :=
  setCur_stmts h _
@[simp] theorem emit_defs (s : PState) (ss : List Stmt) : (s.emit ss).defs = s.defs := by simp [PState.emit]
@[simp] theorem emit_cur (s : PState) (ss : List Stmt) : (s.emit ss).cur = s.cur ++ ss := by simp [PState.emit]
@[simp] theorem emit_func_isSome (s : PState) (ss : List Stmt) : (s.emit ss).func.isSome = s.func.isSome := by
  simp [PState.emit]

@[simp] theorem mk_cur (s1 : PState) (d : List LabelDef) (i n : Nat) :
    (PState.mk s1.stmts s1.func d i n).cur = s1.cur := rfl

theorem eq_dropLast_append {α} (l : List α) (a : α) (h : l.getLast? = some a) : l = l.dropLast ++ [a] := by
  rcases List.eq_nil_or_concat l with rfl | ⟨l', b, rfl⟩
  · simp at h
  · simp at h ⊢; exact h

theorem retarget_length (ss : List Stmt) (a : Nat) (l : Name) : (retarget ss a l).length = ss.length := by
  unfold retarget; split <;> simp

theorem findLoop_split : ∀ (ds : List LabelDef) {pre l post}, findLoop ds = some (pre, l, post) → ds = pre ++ l :: post
  | [], _, _, _, h => by simp [findLoop] at h
  | .whileD .. :: rest, _, _, _, h => by simp [findLoop] at h; obtain ⟨rfl, rfl, rfl⟩ := h; simp
  | .forD .. :: rest, _, _, _, h => by simp [findLoop] at h; obtain ⟨rfl, rfl, rfl⟩ := h; simp
  | .ifD a b c d :: rest, pre, l, post, h => by
      simp only [findLoop, Option.map_eq_some_iff] at h
      obtain ⟨⟨pre', l', post'⟩, h1, h2⟩ := h
      simp only [Prod.mk.injEq] at h2
      obtain ⟨rfl, rfl, rfl⟩ := h2
      have := findLoop_split rest h1
      simp [this]

theorem scopeDefs_prefix (s : PState) : ∃ t, s.defs = s.scopeDefs ++ t :=
  ⟨s.defs.drop (s.defs.length - s.floor), by simp [PState.scopeDefs]⟩

/-- how one line changes the block stack `label_defs` -/
def BlockChange (ps ps' : PState) : Line → Prop
  | .ifBegin _ | .whileBegin _ | .forBegin .. => ∃ d, ps'.defs = d :: ps.defs
  | .endif | .endwhile | .endfor => ∃ d, ps.defs = d :: ps'.defs
  | .elif _ | .else_ => ∃ d d' t, ps.defs = d :: t ∧ ps'.defs = d' :: t
  | .continue_ => ps'.defs.length = ps.defs.length
  | _ => ps'.defs = ps.defs

theorem stepLine_block {ps ps' : PState} {l : Line} (h : stepLine ps l = .ok ps') : BlockChange ps ps' l := by
  obtain ⟨t, ht⟩ := scopeDefs_prefix ps
  cases l <;> simp only [stepLine] at h
  all_goals repeat' split at h
  all_goals first | (cases h; done) | skip
  all_goals (simp only [Except.ok.injEq] at h; subst h)
  all_goals first | (simp [BlockChange]; done) | skip
  all_goals first
    | (rename_i heq _; rw [heq] at ht; simp [BlockChange, ht]; done)
    | (rename_i heq; rw [heq] at ht; simp [BlockChange, ht]; done)
    | skip
  -- `continue` inside a `for`: the entry is replaced in place
  rename_i heq
  have := findLoop_split _ heq
  rw [this] at ht
  simp [BlockChange, ht]

theorem stepLine_defs_length {ps ps' : PState} {l : Line} (h : stepLine ps l = .ok ps') :
    ps'.defs.length = ps.defs.length + 1 ∨ ps'.defs.length + 1 = ps.defs.length ∨ ps'.defs.length = ps.defs.length := by
  have := stepLine_block h
  cases l <;> simp only [BlockChange] at this
  all_goals first
    | (obtain ⟨d, hd⟩ := this; rw [hd]; simp; done)
    | (obtain ⟨d, d', t, h1, h2⟩ := this; rw [h1, h2]; simp; done)
    | (rw [this]; simp; done)
    | (simp [this]; done)

/-- the documented effects of one source line on the parser state -/
inductive LineEffect (ps ps' : PState) : Prop
  /-- at least one statement was appended to the current statement list (all block lines are of this kind) -/
  | grew (hf : ps'.func.isSome = ps.func.isSome) (hs : ps.func.isSome = true → ps'.stmts = ps.stmts)
      (h : ps.cur.length < ps'.cur.length)
  | funcOpened (h : ps.func = none) (h' : ps'.func.isSome = true) (hs : ps'.stmts = ps.stmts)
  | funcClosed (f : OpenFunc) (h : ps.func = some f) (h' : ps'.func = none)
      (hs : ps'.stmts = ps.stmts ++ [.function f.fid f.name f.args f.lastArgArray f.isAsync f.body])
  | includeMerged (pre : List Stmt) (incs : List IncludeScript) (inc : IncludeScript)
      (hf : ps'.func.isSome = ps.func.isSome) (hs : ps.func.isSome = true → ps'.stmts = ps.stmts)
      (h : ps.cur = pre ++ [.include incs]) (h' : ps'.cur = pre ++ [.include (incs ++ [inc])])

theorem stepLine_effect {ps ps' : PState} {l : Line} (h : stepLine ps l = .ok ps') : LineEffect ps ps' := by
  cases l <;> simp only [stepLine] at h
  all_goals repeat' split at h
  all_goals first | (cases h; done) | skip
  all_goals (simp only [Except.ok.injEq] at h; subst h)
  all_goals first
    | (apply LineEffect.grew
       · simp
       · intro hsome; simp [emit_stmts hsome, setCur_stmts hsome]
       · simp [retarget_length, forHeader, forFooter]
       done)
    | skip
  · rename_i heq; exact .funcOpened heq rfl rfl
  · rename_i f heq _; exact .funcClosed f heq rfl rfl
  · rename_i incs heq
    rename_i url sys _
    refine .includeMerged ps.cur.dropLast incs { url := url, system := sys } (by simp)
      (fun hsome => by simp [setCur_stmts hsome]) ?_ (by simp)
    exact eq_dropLast_append _ _ heq


/-! ## `stepLogical` restated with named pieces -/

/-- the `BareScriptParserError` of a block-structure error: `Missing end…` raised by `endfunction` reports the line
that opened the innermost open block, everything else the current line; always column 1 -/
def structural (wh : Where) (line : String) (ln : Nat) (e : LowerErr) : ParserError :=
  match e with
  | .missingEnd _ =>
      match wh.defs with
      | (dl, dn) :: _ => ⟨e.text, dl, 1, dn⟩
      | [] => ⟨e.text, line, 1, ln⟩
  | _ => ⟨e.text, line, 1, ln⟩

/-- the position stack after a successful lowering step `ps → ps'` of the line `(line, ln)` -/
def whereStep (ps ps' : PState) (wh : Where) (line : String) (ln : Nat) : Where :=
  { defs :=
      if ps'.defs.length = ps.defs.length + 1 then (line, ln) :: wh.defs
      else if ps'.defs.length + 1 = ps.defs.length then wh.defs.tail
      else wh.defs,
    func :=
      match ps.func, ps'.func with
      | none, some _ => some (line, ln)
      | _, none => none
      | some _, some _ => wh.func }

/-- the block-structure test an `elif` line undergoes before its expression is parsed -/
def preCheck (s : St) (line : String) (ln : Nat) : Except ParserError Unit :=
  match Scan.shape line.toList with
  | .elif _ _ =>
      match stepLine s.1 (.elif dummyExpr) with
      | .error e => .error (structural s.2 line ln e)
      | .ok _ => .ok ()
  | _ => .ok ()

theorem stepLogical_eq (start : Nat) (s : St) (ix : Nat) (line : String) :
    stepLogical start s ix line =
      match preCheck s line (start + ix) with
      | .error e => .error e
      | .ok () =>
        match Scan.classify ExprParse.parseExpr line with
        | .error pe => .error ⟨pe.error, line, pe.column, start + ix⟩
        | .ok cl =>
          match stepLine s.1 cl with
          | .error e => .error (structural s.2 line (start + ix) e)
          | .ok ps' => .ok (ps', whereStep s.1 ps' s.2 line (start + ix)) := rfl

/-- a successful step: the line was classified and lowered -/
theorem stepLogical_ok {start : Nat} {s s' : St} {ix : Nat} {line : String} (h : stepLogical start s ix line = .ok s') :
    ∃ cl, Scan.classify ExprParse.parseExpr line = .ok cl ∧ stepLine s.1 cl = .ok s'.1 ∧
      s'.2 = whereStep s.1 s'.1 s.2 line (start + ix) := by
  rw [stepLogical_eq] at h
  split at h
  · cases h
  · split at h
    · cases h
    · rename_i cl hcl
      split at h
      · cases h
      · rename_i ps' hps
        simp only [Except.ok.injEq] at h
        subst h
        exact ⟨cl, hcl, hps, rfl⟩

/-! ## the position stack moves together with the block stack -/

/-- a recorded position is that of a logical line of `ll` -/
def IsPos (start : Nat) (ll : List (Nat × String)) (x : String × Nat) : Prop :=
  ∃ ix line, (ix, line) ∈ ll ∧ x = (line, start + ix)

/-- the two stacks have the same height, a function position is recorded exactly when a function is open -/
structure Sync (s : St) : Prop where
  len : s.2.defs.length = s.1.defs.length
  fsome : s.2.func.isSome = s.1.func.isSome

/-- every recorded position is that of a logical line of `ll` -/
structure Pos (start : Nat) (ll : List (Nat × String)) (s : St) : Prop where
  defs : ∀ x ∈ s.2.defs, IsPos start ll x
  func : ∀ x, s.2.func = some x → IsPos start ll x

theorem sync_init : Sync (PState.init, {}) := ⟨rfl, rfl⟩
theorem pos_init (start : Nat) (ll : List (Nat × String)) : Pos start ll (PState.init, {}) :=
  ⟨fun x hx => (by cases hx), fun x hx => (by cases hx)⟩

theorem whereStep_sync {ps ps' : PState} {wh : Where} {cl : Line} (line : String) (ln : Nat)
    (hs : Sync (ps, wh)) (h : stepLine ps cl = .ok ps') : Sync (ps', whereStep ps ps' wh line ln) := by
  have hl := stepLine_defs_length h
  have h1 := hs.len
  have h2 := hs.fsome
  simp only at h1 h2
  constructor
  · simp only [whereStep]
    split
    · simp only [List.length_cons]; omega
    · split
      · simp only [List.length_tail]; omega
      · omega
  · simp only [whereStep]
    split <;> simp_all

theorem whereStep_pos {start : Nat} {ll : List (Nat × String)} {ps ps' : PState} {wh : Where} {ix : Nat} {line : String}
    (hmem : (ix, line) ∈ ll) (hp : Pos start ll (ps, wh)) : Pos start ll (ps', whereStep ps ps' wh line (start + ix)) := by
  have hcur : IsPos start ll (line, start + ix) := ⟨ix, line, hmem, rfl⟩
  constructor
  · intro x hx
    simp only [whereStep] at hx
    split at hx
    · rcases List.mem_cons.mp hx with rfl | hx
      · exact hcur
      · exact hp.defs x hx
    · split at hx
      · exact hp.defs x (List.mem_of_mem_tail hx)
      · exact hp.defs x hx
  · intro x hx
    simp only [whereStep] at hx
    split at hx
    · cases hx; exact hcur
    · cases hx
    · exact hp.func x hx

theorem stepLogical_sync {start : Nat} {s s' : St} {ix : Nat} {line : String} (hs : Sync s)
    (h : stepLogical start s ix line = .ok s') : Sync s' := by
  obtain ⟨cl, _, h2, h3⟩ := stepLogical_ok h
  obtain ⟨ps', wh'⟩ := s'
  simp only at h2 h3
  subst h3
  exact whereStep_sync line _ hs h2

theorem stepLogical_pos {start : Nat} {ll : List (Nat × String)} {s s' : St} {ix : Nat} {line : String}
    (hmem : (ix, line) ∈ ll) (hp : Pos start ll s) (h : stepLogical start s ix line = .ok s') : Pos start ll s' := by
  obtain ⟨cl, _, h2, h3⟩ := stepLogical_ok h
  obtain ⟨ps', wh'⟩ := s'
  simp only at h2 h3
  subst h3
  exact whereStep_pos hmem hp

/-! ## errors point into the source -/

/-- the error carries the number and text of a logical line of `ll` and a column inside it -/
def GoodPos (start : Nat) (ll : List (Nat × String)) (e : ParserError) : Prop :=
  ∃ ix line, (ix, line) ∈ ll ∧ e.lineNumber = start + ix ∧ e.line = line ∧ 1 ≤ e.column ∧ e.column ≤ line.length + 1

theorem structural_good {start : Nat} {ll : List (Nat × String)} {s : St} {ix : Nat} {line : String}
    (hmem : (ix, line) ∈ ll) (hp : Pos start ll s) (e : LowerErr) :
    GoodPos start ll (structural s.2 line (start + ix) e) ∧ (structural s.2 line (start + ix) e).column = 1 := by
  have hcur : ∀ t, GoodPos start ll ⟨t, line, 1, start + ix⟩ :=
    fun t => ⟨ix, line, hmem, rfl, rfl, Nat.le_refl 1, by simp⟩
  unfold structural
  split
  · split
    · rename_i dl dn rest hd
      obtain ⟨ix', line', hm', he⟩ := hp.defs (dl, dn) (by rw [hd]; simp)
      simp only [Prod.mk.injEq] at he
      obtain ⟨rfl, rfl⟩ := he
      exact ⟨⟨ix', dl, hm', rfl, rfl, Nat.le_refl 1, by simp⟩, rfl⟩
    · exact ⟨hcur _, rfl⟩
  · exact ⟨hcur _, rfl⟩

/-- **errors of one line**: the reported position is the current line or the recorded opening line of a block, the
column is inside that line -/
theorem stepLogical_error {start : Nat} {ll : List (Nat × String)} {s : St} {ix : Nat} {line : String} {e : ParserError}
    (hmem : (ix, line) ∈ ll) (hp : Pos start ll s) (h : stepLogical start s ix line = .error e) : GoodPos start ll e := by
  rw [stepLogical_eq] at h
  split at h
  · rename_i e' hpre
    cases h
    unfold preCheck at hpre
    split at hpre
    · split at hpre
      · cases hpre; exact (structural_good hmem hp _).1
      · cases hpre
    · cases hpre
  · split at h
    · rename_i pe hpe
      cases h
      have := classify_error_column line pe hpe
      exact ⟨ix, line, hmem, rfl, rfl, this.2.1, this.2.2⟩
    · split at h
      · cases h; exact (structural_good hmem hp _).1
      · cases h

/-! ## shifting the start line number -/

def shiftE (d : Nat) (e : ParserError) : ParserError := { e with lineNumber := e.lineNumber + d }

def shiftW (d : Nat) (wh : Where) : Where :=
  { defs := wh.defs.map (fun x => (x.1, x.2 + d)), func := wh.func.map (fun x => (x.1, x.2 + d)) }

/-- add `d` to the line number of an error result; a success is unchanged -/
def shiftR {α : Type} (d : Nat) : Except ParserError α → Except ParserError α
  | .ok a => .ok a
  | .error e => .error (shiftE d e)

def shiftS (d : Nat) : Except ParserError St → Except ParserError St
  | .ok s => .ok (s.1, shiftW d s.2)
  | .error e => .error (shiftE d e)

theorem structural_shift (d : Nat) (wh : Where) (line : String) (ln : Nat) (e : LowerErr) :
    structural (shiftW d wh) line (ln + d) e = shiftE d (structural wh line ln e) := by
  obtain ⟨defs, func⟩ := wh
  cases e <;> first | rfl | (cases defs <;> rfl)

theorem whereStep_shift (d : Nat) (ps ps' : PState) (wh : Where) (line : String) (ln : Nat) :
    whereStep ps ps' (shiftW d wh) line (ln + d) = shiftW d (whereStep ps ps' wh line ln) := by
  obtain ⟨defs, func⟩ := wh
  simp only [whereStep, shiftW]
  congr 1
  · split
    · simp
    · split
      · simp
      · rfl
  · split <;> simp

theorem preCheck_shift (d : Nat) (ps : PState) (wh : Where) (line : String) (ln : Nat) :
    preCheck (ps, shiftW d wh) line (ln + d) = shiftR d (preCheck (ps, wh) line ln) := by
  unfold preCheck
  split
  · simp only
    split
    · simp only [structural_shift, shiftR]
    · rfl
  · rfl

theorem stepLogical_shift (start d : Nat) (ps : PState) (wh : Where) (ix : Nat) (line : String) :
    stepLogical (start + d) (ps, shiftW d wh) ix line = shiftS d (stepLogical start (ps, wh) ix line) := by
  rw [stepLogical_eq, stepLogical_eq, Nat.add_right_comm start d ix, preCheck_shift]
  cases preCheck (ps, wh) line (start + ix) with
  | error e => rfl
  | ok u =>
    simp only [shiftR]
    cases Scan.classify ExprParse.parseExpr line with
    | error pe => rfl
    | ok cl =>
      simp only
      cases stepLine ps cl with
      | error e => simp only [structural_shift, shiftS]
      | ok ps' => simp only [whereStep_shift, shiftS]

theorem stepAll_shift (start d : Nat) : ∀ (ll : List (Nat × String)) (ps : PState) (wh : Where),
    stepAll (start + d) (ps, shiftW d wh) ll = shiftS d (stepAll start (ps, wh) ll)
  | [], _, _ => rfl
  | (ix, line) :: rest, ps, wh => by
      simp only [stepAll, stepLogical_shift]
      cases stepLogical start (ps, wh) ix line with
      | error e => rfl
      | ok s' =>
        obtain ⟨ps', wh'⟩ := s'
        simp only [shiftS]
        exact stepAll_shift start d rest ps' wh'

theorem finishAll_shift (start d : Nat) (ps : PState) (wh : Where) (dg : Option Text.LineErr) :
    finishAll (start + d) (ps, shiftW d wh) dg = shiftR d (finishAll start (ps, wh) dg) := by
  obtain ⟨wdefs, wfunc⟩ := wh
  cases dg with
  | some x => simp only [finishAll, shiftR, shiftE, Nat.add_right_comm start d]
  | none =>
    simp only [finishAll, shiftW]
    cases hd : ps.defs with
    | cons a as => cases wdefs <;> rfl
    | nil =>
      simp only
      cases hf : ps.func with
      | none => rfl
      | some f => cases wfunc <;> rfl

/-! ## re-indexing the logical lines = moving the start line number -/

def addIx (k : Nat) (e : Text.LineErr) : Text.LineErr := { e with ixLine := e.ixLine + k }

theorem stepLogical_reindex (start k : Nat) (s : St) (ix : Nat) (line : String) :
    stepLogical start s (ix + k) line = stepLogical (start + k) s ix line := by
  rw [stepLogical_eq, stepLogical_eq]
  have : start + (ix + k) = start + k + ix := by omega
  rw [this]

theorem stepAll_reindex (start k : Nat) : ∀ (ll : List (Nat × String)) (s : St),
    stepAll start s (ll.map (fun x => (x.1 + k, x.2))) = stepAll (start + k) s ll
  | [], _ => rfl
  | (ix, line) :: rest, s => by
      simp only [List.map_cons, stepAll, stepLogical_reindex]
      cases stepLogical (start + k) s ix line with
      | error e => rfl
      | ok s' => exact stepAll_reindex start k rest s'

theorem finishAll_reindex (start k : Nat) (s : St) (hs : Sync s) (dg : Option Text.LineErr) :
    finishAll start s (dg.map (addIx k)) = finishAll (start + k) s dg := by
  obtain ⟨ps, wdefs, wfunc⟩ := s
  have h1 := hs.len
  have h2 := hs.fsome
  simp only at h1 h2
  cases dg with
  | some x => simp only [finishAll, Option.map_some, addIx, Nat.add_assoc, Nat.add_comm k]
  | none =>
    simp only [finishAll, Option.map_none]
    cases hd : ps.defs with
    | cons a as =>
      cases wdefs with
      | nil => rw [hd] at h1; simp at h1
      | cons b bs => rfl
    | nil =>
      simp only
      cases hf : ps.func with
      | none => rfl
      | some f =>
        cases wfunc with
        | none => rw [hf] at h2; simp at h2
        | some g => rfl

theorem stepAll_sync (start : Nat) : ∀ (ll : List (Nat × String)) (s s' : St), Sync s →
    stepAll start s ll = .ok s' → Sync s'
  | [], s, s', hs, h => by simp only [stepAll, Except.ok.injEq] at h; subst h; exact hs
  | (ix, line) :: rest, s, s', hs, h => by
      simp only [stepAll] at h
      split at h
      · rename_i s1 h1
        exact stepAll_sync start rest s1 s' (stepLogical_sync hs h1) h
      · cases h

/-! ## comment / blank lines in front -/

theorem loopL_comments : ∀ (cs : List Chars) (i ix : Nat), (∀ c ∈ cs, isCommentL c = true) → loopL i cs [] ix = ([], none)
  | [], _, _, _ => rfl
  | c :: rest, i, ix, h => by
      have hc : isCommentL c = true := h c (by simp)
      simp only [loopL, hc, if_true]
      exact loopL_comments rest (i + 1) ix (fun c' hc' => h c' (List.mem_cons_of_mem _ hc'))

/-- physical lines that are all comments or blank, put in front of a text, move every logical line index by their
number and change nothing else -/
theorem logicalLinesCore_prepend (P L : List String) (hP : ∀ l ∈ P, Text.isComment l = true) :
    Text.logicalLinesCore (P ++ L) =
      ((Text.logicalLinesCore L).1.map (fun x => (x.1 + P.length, x.2)),
       (Text.logicalLinesCore L).2.map (addIx P.length)) := by
  have hP' : ∀ c ∈ P.map String.toList, isCommentL c = true := by
    intro c hc
    obtain ⟨l, hl, rfl⟩ := List.mem_map.mp hc
    exact hP l hl
  have h0 : logicalLinesL (P.map String.toList) = ([], none) := loopL_comments _ 0 0 hP'
  have hc := C10.logical_lines_compositional (P.map String.toList) (L.map String.toList) (by rw [h0])
  unfold Text.logicalLinesCore
  simp only [List.map_append, hc, h0, C10.reindex, List.nil_append, List.length_map, List.map_map, Option.map_map]
  refine Prod.ext ?_ ?_
  · simp only [Function.comp_def]
  · simp only
    congr 1

theorem scriptLines_prepend (pre lines : List String)
    (hpre : ∀ l ∈ pre.flatMap Text.splitLines, Text.isComment l = true) :
    Text.scriptLines (pre ++ lines) =
      ((Text.scriptLines lines).1.map (fun x => (x.1 + (pre.flatMap Text.splitLines).length, x.2)),
       (Text.scriptLines lines).2.map (addIx (pre.flatMap Text.splitLines).length)) := by
  unfold Text.scriptLines
  rw [List.flatMap_append]
  exact logicalLinesCore_prepend _ _ hpre

end C06
