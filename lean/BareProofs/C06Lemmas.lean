import BareModel.Parser
import BareProofs.C02
import BareProofs.C10

/-!
# C06 — helper lemmas

* `shape_offsets`: every expression group captured by the regex cascade (`Scan.shape`) lies inside the line:
  `match.start(group) + len(group) ≤ len(line)`.
* `classify_error_column`: hence (with `C02.reject_is_parser_error`) the re-based column of an expression error is
  inside the line for all eight statement kinds with an expression.
* `stepLine_defs_length`, `stepLine_effect`: case analysis of the lowering step.
* `Inv`: the position stack `Where` moves together with `PState.defs` / `PState.func` and only holds positions of
  earlier logical lines.
* `stepLogical_shift`: the parser commutes with a shift of the start line number.
-/

namespace C06
open Text Scan Lower Parser

/-! ## offsets of the captured expression groups -/

/-- every captured expression group `(off, e)` of the shape satisfies `off + |e| ≤ n` -/
def Bounded (n : Nat) : Shape → Prop
  | .assign _ off e => off + e.length ≤ n
  | .ifBegin off e => off + e.length ≤ n
  | .elif off e => off + e.length ≤ n
  | .whileBegin off e => off + e.length ≤ n
  | .forBegin _ _ off e => off + e.length ≤ n
  | .jump _ (some (off, e)) => off + e.length ≤ n
  | .ret (some (off, e)) => off + e.length ≤ n
  | _ => True

theorem Bounded.shift {n k : Nat} : ∀ {sh : Shape}, Bounded n sh → Bounded (n + k) (sh.shift k)
  | .assign .., h | .ifBegin .., h | .elif .., h | .whileBegin .., h | .forBegin .., h => by
      simp only [Bounded, Shape.shift] at *; omega
  | .jump _ (some (_, _)), h | .ret (some (_, _)), h => by simp only [Bounded, Shape.shift] at *; omega
  | .jump _ none, _ | .ret none, _ => by simp [Bounded, Shape.shift]
  | .funcBegin .., _ | .funcEnd, _ | .else_, _ | .endif, _ | .endwhile, _ | .endfor, _ | .break_, _ | .continue_, _
  | .label _, _ | .include .., _ | .exprStmt, _ => by simp [Bounded, Shape.shift]

theorem dropWhile_length_le {α} (p : α → Bool) (l : List α) : (l.dropWhile p).length ≤ l.length :=
  (List.dropWhile_sublist p).length_le

theorem lstrip_le (l : Chars) : (lstripL l).length ≤ l.length := dropWhile_length_le _ _

theorem keyword?_length {kw : String} {l r : Chars} (h : keyword? kw l = some r) : kw.length + r.length = l.length := by
  unfold keyword? at h
  split at h
  · rename_i hp
    cases h
    have := (List.isPrefixOf_iff_prefix.mp hp).length_le
    have e : kw.toList.length = kw.length := String.length_toList
    simp only [List.length_drop]; omega
  · cases h

theorem ws1?_length {l r : Chars} (h : ws1? l = some r) : r.length < l.length := by
  unfold ws1? at h
  split at h
  · split at h
    · cases h
      have := lstrip_le ‹Chars›
      simp only [List.length_cons]; omega
    · cases h
  · cases h

theorem ident?_length {l n r : Chars} (h : ident? l = some (n, r)) : r.length < l.length := by
  unfold ident? at h
  split at h
  · split at h
    · simp only [Option.some.injEq, Prod.mk.injEq] at h
      obtain ⟨_, rfl⟩ := h
      have := dropWhile_length_le isWord ‹Chars›
      simp only [List.length_cons]; omega
    · cases h
  · cases h

theorem assign?_bounded {s : Chars} {sh : Shape} (h : assign? s = some sh) : Bounded s.length sh := by
  unfold assign? at h
  split at h
  · rename_i name r1 hid
    have h1 := ident?_length hid
    have h2 := lstrip_le r1
    split at h
    · rename_i r3 hr3
      rw [hr3] at h2
      simp only [List.length_cons] at h2
      have h3 := lstrip_le r3
      split at h
      · cases h; simp only [Bounded, List.length_cons, List.length_nil]; omega
      · cases h
      · cases h; simp only [Bounded]; omega
    · cases h
  · cases h

theorem exprColon?_bounded {r : Chars} {n : Nat} {e : Chars} (h : exprColon? r = some (n, e)) :
    n + e.length < r.length := by
  unfold exprColon? at h
  split at h
  · rename_i revBefore hrev
    have h1 := dropWhile_length_le isSpace r.reverse
    rw [hrev] at h1
    simp only [List.length_cons, List.length_reverse] at h1
    have h2 : (revBefore.reverse.takeWhile isSpace).length + (revBefore.reverse.dropWhile isSpace).length
        = revBefore.length := by
      rw [← List.length_append, List.takeWhile_append_dropWhile, List.length_reverse]
    simp only at h
    split at h
    · cases h
    · rename_i hd _
      split at h
      · simp only [Option.some.injEq, Prod.mk.injEq] at h
        obtain ⟨rfl, rfl⟩ := h
        rw [hd] at h2
        simp only [List.length_cons, List.length_nil] at *; omega
      · cases h
    · simp only [Option.some.injEq, Prod.mk.injEq] at h
      obtain ⟨rfl, rfl⟩ := h
      omega
  · cases h

theorem kwExprColon?_bounded {kw : String} {mk : Nat → Chars → Shape} {s : Chars} {sh : Shape}
    (hmk : ∀ off e, off + e.length ≤ s.length → Bounded s.length (mk off e))
    (h : kwExprColon? kw mk s = some sh) : Bounded s.length sh := by
  unfold kwExprColon? at h
  split at h
  · rename_i r hk
    have h1 := keyword?_length hk
    split at h
    · rename_i n e he
      have h2 := exprColon?_bounded he
      cases h
      apply hmk; omega
    · cases h
  · cases h

theorem kwOnly?_bounded {kw : String} {sh0 : Shape} {s : Chars} {sh : Shape} (h0 : ∀ n, Bounded n sh0)
    (h : kwOnly? kw sh0 s = some sh) : Bounded s.length sh := by
  unfold kwOnly? at h
  split at h
  · split at h
    · cases h; exact h0 _
    · cases h
  · cases h

/-- the optional `, index` group of the `for` pattern -/
def forIndex (r : Chars) : Option Chars × Chars :=
  match lstripL r with
  | ',' :: r1 =>
    match ident? (lstripL r1) with
    | some (ix, r2) => (some ix, r2)
    | none => (none, r)
  | _ => (none, r)

theorem forIndex_length (r : Chars) : (forIndex r).2.length ≤ r.length := by
  unfold forIndex
  split
  · rename_i r1 hl
    have h0 := lstrip_le r
    rw [hl] at h0
    simp only [List.length_cons] at h0
    split
    · rename_i ix r2 hid
      have := ident?_length hid
      have := lstrip_le r1
      simp only; omega
    · simp
  · simp

theorem for?_eq (s : Chars) : for? s =
    match keyword? "for" s with
    | none => none
    | some r =>
      match ws1? r with
      | none => none
      | some r =>
        match ident? r with
        | none => none
        | some (value, r) =>
          match ws1? (forIndex r).2 with
          | none => none
          | some r' =>
            match keyword? "in" r' with
            | none => none
            | some r' =>
              match exprColon? r' with
              | some (n, e) => some (.forBegin value (forIndex r).1 (s.length - r'.length + n) e)
              | none => none := rfl

theorem for?_bounded {s : Chars} {sh : Shape} (h : for? s = some sh) : Bounded s.length sh := by
  rw [for?_eq] at h
  split at h
  · cases h
  · rename_i r0 hk
    have l0 := keyword?_length hk
    split at h
    · cases h
    · rename_i r1 hw
      have l1 := ws1?_length hw
      split at h
      · cases h
      · rename_i value r2 hid
        have l2 := ident?_length hid
        have l2' := forIndex_length r2
        split at h
        · cases h
        · rename_i r3 hw3
          have l3 := ws1?_length hw3
          split at h
          · cases h
          · rename_i r4 hk4
            have l4 := keyword?_length hk4
            split at h
            · rename_i n e he
              have l5 := exprColon?_bounded he
              cases h
              simp only [Bounded]
              omega
            · cases h

theorem splitLastParen_length {r e tail : Chars} (h : splitLastParen r = some (e, tail)) : e.length < r.length := by
  unfold splitLastParen at h
  simp only at h
  split at h
  · rename_i beforeRev hrev
    simp only [Option.some.injEq, Prod.mk.injEq] at h
    obtain ⟨rfl, _⟩ := h
    have h1 := dropWhile_length_le (· != ')') r.reverse
    rw [hrev] at h1
    simp only [List.length_cons, List.length_reverse] at *; omega
  · cases h

theorem jump?_bounded {s : Chars} {sh : Shape} (h : jump? s = some sh) : Bounded s.length sh := by
  unfold jump? at h
  split at h
  · cases h
  · rename_i r hk
    have l0 := keyword?_length hk
    split at h
    · cases h; simp [Bounded]
    · split at h
      · cases h
      · rename_i r1 hk1
        have l1 := keyword?_length hk1
        have l2 := lstrip_le r1
        split at h
        · rename_i r2 hr2
          rw [hr2] at l2
          simp only [List.length_cons] at l2
          split at h
          · rename_i e tail hsp
            have l3 := splitLastParen_length hsp
            split at h
            · cases h
            · split at h
              · cases h; simp only [Bounded]; omega
              · cases h
          · cases h
        · cases h

theorem return?_bounded {s : Chars} {sh : Shape} (h : return? s = some sh) : Bounded s.length sh := by
  unfold return? at h
  split at h
  · cases h
  · rename_i r hk
    have l0 := keyword?_length hk
    split at h
    · cases h; simp [Bounded]
    · split at h
      · rename_i c cs _
        split at h
        · cases h
          have := lstrip_le (c :: cs)
          simp only [Bounded]; omega
        · cases h
      · cases h

theorem funcBegin?_bounded {s : Chars} {sh : Shape} (h : funcBegin? s = some sh) : Bounded s.length sh := by
  unfold funcBegin? at h
  simp only at h
  repeat' split at h
  all_goals first | cases h; simp [Bounded] | cases h

theorem else?_bounded {s : Chars} {sh : Shape} (h : else? s = some sh) : Bounded s.length sh := by
  unfold else? at h
  repeat' split at h
  all_goals first | cases h; simp [Bounded] | cases h

theorem label?_bounded {s : Chars} {sh : Shape} (h : label? s = some sh) : Bounded s.length sh := by
  unfold label? at h
  repeat' split at h
  all_goals first | cases h; simp [Bounded] | cases h

theorem include?_bounded {s : Chars} {sh : Shape} (h : include? s = some sh) : Bounded s.length sh := by
  unfold include? at h
  repeat' split at h
  all_goals first | cases h; simp [Bounded] | cases h | (simp only [Option.ite_none_right_eq_some, Option.some.injEq] at h; obtain ⟨_, rfl⟩ := h; simp [Bounded])

theorem orElse_bounded {n : Nat} {a b : Option Shape} (ha : ∀ sh, a = some sh → Bounded n sh)
    (hb : ∀ sh, b = some sh → Bounded n sh) : ∀ sh, (a <|> b) = some sh → Bounded n sh := by
  intro sh h
  cases a with
  | none => exact hb sh (by simpa using h)
  | some x => exact ha sh (by simpa using h)

theorem shapeS_bounded (s : Chars) : Bounded s.length (shapeS s) := by
  unfold shapeS
  have key : ∀ sh,
      (assign? s <|> funcBegin? s <|> kwOnly? "endfunction" .funcEnd s <|>
       kwExprColon? "if" .ifBegin s <|> kwExprColon? "elif" .elif s <|> else? s <|> kwOnly? "endif" .endif s <|>
       kwExprColon? "while" .whileBegin s <|> kwOnly? "endwhile" .endwhile s <|>
       for? s <|> kwOnly? "endfor" .endfor s <|> kwOnly? "break" .break_ s <|> kwOnly? "continue" .continue_ s <|>
       label? s <|> jump? s <|> return? s <|> include? s) = some sh → Bounded s.length sh := by
    refine orElse_bounded (fun _ => assign?_bounded) ?_
    refine orElse_bounded (fun _ => funcBegin?_bounded) ?_
    refine orElse_bounded (fun _ => kwOnly?_bounded (by simp [Bounded])) ?_
    refine orElse_bounded (fun _ => kwExprColon?_bounded (by simp [Bounded])) ?_
    refine orElse_bounded (fun _ => kwExprColon?_bounded (by simp [Bounded])) ?_
    refine orElse_bounded (fun _ => else?_bounded) ?_
    refine orElse_bounded (fun _ => kwOnly?_bounded (by simp [Bounded])) ?_
    refine orElse_bounded (fun _ => kwExprColon?_bounded (by simp [Bounded])) ?_
    refine orElse_bounded (fun _ => kwOnly?_bounded (by simp [Bounded])) ?_
    refine orElse_bounded (fun _ => for?_bounded) ?_
    refine orElse_bounded (fun _ => kwOnly?_bounded (by simp [Bounded])) ?_
    refine orElse_bounded (fun _ => kwOnly?_bounded (by simp [Bounded])) ?_
    refine orElse_bounded (fun _ => kwOnly?_bounded (by simp [Bounded])) ?_
    refine orElse_bounded (fun _ => label?_bounded) ?_
    refine orElse_bounded (fun _ => jump?_bounded) ?_
    refine orElse_bounded (fun _ => return?_bounded) ?_
    exact fun _ => include?_bounded
  generalize hq : (assign? s <|> funcBegin? s <|> kwOnly? "endfunction" .funcEnd s <|>
       kwExprColon? "if" .ifBegin s <|> kwExprColon? "elif" .elif s <|> else? s <|> kwOnly? "endif" .endif s <|>
       kwExprColon? "while" .whileBegin s <|> kwOnly? "endwhile" .endwhile s <|>
       for? s <|> kwOnly? "endfor" .endfor s <|> kwOnly? "break" .break_ s <|> kwOnly? "continue" .continue_ s <|>
       label? s <|> jump? s <|> return? s <|> include? s) = q at key
  cases q with
  | none => simp [Bounded]
  | some sh => exact key sh rfl

/-- **`shape_offsets`**: every expression group captured by the statement patterns is a piece of the line:
`match.start(group) + len(group) ≤ len(line)` -/
theorem shape_offsets (line : Chars) : Bounded line.length (shape line) := by
  unfold shape
  have h1 := shapeS_bounded (lstripL line)
  have h2 := lstrip_le line
  have := h1.shift (k := line.length - (lstripL line).length)
  have e : (lstripL line).length + (line.length - (lstripL line).length) = line.length := by omega
  rwa [e] at this

/-! ## the column of an expression error -/

def ExprMsg (m : String) : Prop := m = "Syntax error" ∨ m = "Unmatched parenthesis"

/-- what `C02.reject_is_parser_error` says about an expression parser -/
def GoodErrors (pexp : String → Except ParseErr Expr) : Prop :=
  ∀ s pe, pexp s = .error pe → ExprMsg pe.error ∧ 1 ≤ pe.column ∧ pe.column ≤ s.length + 1

theorem parseExpr_goodErrors : GoodErrors ExprParse.parseExpr := by
  intro s pe h
  have := C02.reject_is_parser_error s pe h
  exact ⟨this.1, this.2.2⟩

theorem ex_error {pexp : String → Except ParseErr Expr} (hg : GoodErrors pexp) {α : Type} {off : Nat} {e : Chars}
    {f : Expr → α} {pe : ParseErr} (h : (shiftErr off (pexp (String.ofList e))).map f = .error pe) :
    ExprMsg pe.error ∧ off + 1 ≤ pe.column ∧ pe.column ≤ off + e.length + 1 := by
  cases hp : pexp (String.ofList e) with
  | ok x => rw [hp] at h; cases h
  | error pe0 =>
    rw [hp] at h
    simp only [shiftErr, Except.map] at h
    cases h
    have := hg _ _ hp
    simp only [String.length_ofList] at this
    refine ⟨this.1, ?_, ?_⟩ <;> simp only <;> omega

theorem classifyL_error_column {pexp : String → Except ParseErr Expr} (hg : GoodErrors pexp) (line : Chars)
    (pe : ParseErr) (h : classifyL pexp line = .error pe) :
    ExprMsg pe.error ∧ 1 ≤ pe.column ∧ pe.column ≤ line.length + 1 := by
  have hb := shape_offsets line
  unfold classifyL at h
  simp only at h
  split at h
  all_goals first
    | (rename_i hs; rw [hs] at hb; simp only [Bounded] at hb
       have := ex_error hg h
       exact ⟨this.1, by omega, by omega⟩)
    | (cases h; done)
    | skip
  -- expression statement: the whole line
  cases hp : pexp (String.ofList line) with
  | ok x => rw [hp] at h; cases h
  | error pe0 =>
    rw [hp] at h
    simp only [Except.map] at h
    cases h
    have := hg _ _ hp
    simp only [String.length_ofList] at this
    exact this

/-- **`classify_error_column`**: an error of the line classifier (always an expression error) carries one of the two
expression error texts and a column inside the line (`len + 1` = end of line) — all eight statement kinds with an
expression. -/
theorem classify_error_column (line : String) (pe : ParseErr)
    (h : Scan.classify ExprParse.parseExpr line = .error pe) :
    ExprMsg pe.error ∧ 1 ≤ pe.column ∧ pe.column ≤ line.length + 1 := by
  have := classifyL_error_column parseExpr_goodErrors line.toList pe h
  simpa only [String.length_toList] using this

end C06
