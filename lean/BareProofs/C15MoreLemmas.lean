import BareModel.LibMore
import BareProofs.C15

/-!
# C15More — supporting lemmas: the anatomy of `effMore`, the generated-table obligations of the three new functions,
effect shapes of the new bodies.
-/

namespace C15More
open Lib LibMore

/-! ## generated-table obligations for `arrayJoin`, `arraySort`, `stringNew` -/

def newNames : List String := ["arrayJoin", "arraySort", "stringNew"]

/-- **Generated table obligation.** The argument models of the three functions in the working tree are the documented signatures. -/
theorem sig_table_more : ∀ f ∈ newNames,
    (Gen.libFns.lookup f).bind (fun p => Gen.argModels.lookup p.1) = docSigMore.lookup f := by decide

/-- **Generated table obligation.** They validate against a model (are not raw-argument functions) and pass `null` as failure value. -/
theorem fail_table_more : ∀ f ∈ newNames,
    (Gen.libFns.lookup f).map Prod.snd = some "null" ∧ (Gen.libFns.lookup f).map Prod.fst ≠ some "" := by decide

theorem docFail_new : ∀ f ∈ newNames, ∀ args, Spec.docFail f args = .null := by
  intro f hf args
  simp only [newNames, List.mem_cons, List.not_mem_nil, or_false] at hf
  rcases hf with rfl | rfl | rfl <;> rfl

theorem moreBodies_lookup (T : TextFns) (f : String) :
    ((moreBodies T).lookup f = none ∧ f ∉ newNames) ∨
    (f = "arrayJoin" ∧ (moreBodies T).lookup f = some (arrayJoinM T)) ∨
    (f = "arraySort" ∧ (moreBodies T).lookup f = some arraySortM) ∨
    (f = "stringNew" ∧ (moreBodies T).lookup f = some (stringNewM T)) := by
  by_cases h1 : f = "arrayJoin"
  · subst h1; exact Or.inr (Or.inl ⟨rfl, rfl⟩)
  · by_cases h2 : f = "arraySort"
    · subst h2; exact Or.inr (Or.inr (Or.inl ⟨rfl, rfl⟩))
    · by_cases h3 : f = "stringNew"
      · subst h3; exact Or.inr (Or.inr (Or.inr ⟨rfl, rfl⟩))
      · refine Or.inl ⟨?_, ?_⟩
        · have e1 : (f == "arrayJoin") = false := by simpa using h1
          have e2 : (f == "arraySort") = false := by simpa using h2
          have e3 : (f == "stringNew") = false := by simpa using h3
          simp [moreBodies, List.lookup, e1, e2, e3]
        · simp [newNames, h1, h2, h3]

theorem moreBodies_some {T : TextFns} {f : String} {b} (hb : (moreBodies T).lookup f = some b) :
    f ∈ newNames ∧ (f, b) ∈ moreBodies T := by
  refine ⟨?_, C15.lookup_mem hb⟩
  rcases moreBodies_lookup T f with ⟨h, _⟩ | ⟨rfl, _⟩ | ⟨rfl, _⟩ | ⟨rfl, _⟩
  · rw [h] at hb; cases hb
  all_goals decide

theorem docSigMore_some {f : String} (hf : f ∈ newNames) : ∃ ms, docSigMore.lookup f = some ms := by
  simp only [newNames, List.mem_cons, List.not_mem_nil, or_false] at hf
  rcases hf with rfl | rfl | rfl <;> exact ⟨_, rfl⟩

/-- a new function: validate against the documented signature, fail with `null`, else the new body -/
theorem effMore_new (T : TextFns) {f : String} {b} (hb : (moreBodies T).lookup f = some b) {ms} (hms : docSigMore.lookup f = some ms)
    (args : List Value) (h : Heap) :
    effMore T f args h = match validate h ms args with
      | none => .fail .null
      | some va => b va h := by
  have hf := (moreBodies_some hb).1
  have hs := sig_table_more f hf
  obtain ⟨ht, hr⟩ := fail_table_more f hf
  unfold effMore
  rw [hb]
  cases hl : Gen.libFns.lookup f with
  | none => rw [hl] at ht; simp at ht
  | some p =>
    obtain ⟨mn, ft⟩ := p
    rw [hl] at hs ht
    simp only [Option.map_some, Option.some.injEq] at ht
    simp only [Option.bind_some, hms] at hs
    subst ht
    have hfv : failValue "null" args = some .null := rfl
    simp only [hs, hfv]
    rfl

/-- the same on the specification side -/
theorem specMore_new (T : TextFns) {f : String} {b} (hb : (moreBodies T).lookup f = some b) {ms} (hms : docSigMore.lookup f = some ms)
    (args : List Value) (h : Heap) :
    specMore T f args h = match validate h ms args with
      | none => .fail .null
      | some va => b va h := by
  unfold specMore
  rw [hb]
  simp only [hms, docFail_new f (moreBodies_some hb).1]
  rfl

theorem effMore_old (T : TextFns) {f : String} (hb : (moreBodies T).lookup f = none) (args : List Value) (h : Heap) :
    effMore T f args h = eff f args h := by
  unfold effMore; rw [hb]

theorem specMore_old (T : TextFns) {f : String} (hb : (moreBodies T).lookup f = none) (args : List Value) (h : Heap) :
    specMore T f args h = Spec.specEff f args h := by
  unfold specMore; rw [hb]

/-! ## what `Lib` says about the three names -/

theorem eff_arraySort (args : List Value) (h : Heap) : eff "arraySort" args h = .unmodelled := by
  have hl : Gen.libFns.lookup "arraySort" = some ("_ARRAY_SORT_ARGS", "null") := by decide
  have hb : bodies.lookup "arraySort" = none := by decide
  have hne : ("_ARRAY_SORT_ARGS" == "") = false := by decide
  unfold eff
  simp only [hl, hb, hne, Bool.false_eq_true, if_false]
  split <;> simp_all

theorem eff_stringNew (args : List Value) (h : Heap) : eff "stringNew" args h = .unmodelled := by
  have hl : Gen.libFns.lookup "stringNew" = some ("_STRING_NEW_ARGS", "null") := by decide
  have hb : bodies.lookup "stringNew" = none := by decide
  have hne : ("_STRING_NEW_ARGS" == "") = false := by decide
  unfold eff
  simp only [hl, hb, hne, Bool.false_eq_true, if_false]
  split <;> simp_all

theorem eff_arrayJoin (args : List Value) (h : Heap) :
    eff "arrayJoin" args h = match validate h [Spec.arrP "array", Spec.strP "separator"] args with
      | none => .fail .null
      | some va => arrayJoinB va h := by
  rw [C15.lib_spec_partial]
  rfl

/-! ## effect shapes of the new bodies -/

theorem textEff_pure (t : TRes String) : C15.PureLike (textEff t) := by
  cases t <;> simp [textEff, C15.PureLike]

theorem arrayJoinM_pure (T : TextFns) (va h) : C15.PureLike (arrayJoinM T va h) := by
  unfold arrayJoinM
  split
  · split
    · split
      · simp [C15.PureLike]
      · exact textEff_pure _
    · simp [C15.PureLike]
  · simp [C15.PureLike]

theorem stringNewM_pure (T : TextFns) (va h) : C15.PureLike (stringNewM T va h) := by
  unfold stringNewM
  split
  · exact textEff_pure _
  · simp [C15.PureLike]

theorem arraySortM_ok (va h) : C15.EffOK va (arraySortM va h) ∧ C15.NoAlloc (arraySortM va h) := by
  unfold arraySortM
  split
  · split
    · split <;> simp [C15.EffOK, C15.NoAlloc]
    · simp [C15.EffOK, C15.NoAlloc]
  · simp [C15.EffOK, C15.NoAlloc]

/-- the mutators of the extended model: `arraySort` sorts in place -/
def mutatorsMore : List String := C15.mutators ++ ["arraySort"]

theorem mem_mutatorsMore_of_old {f : String} (h : f ∈ C15.mutators) : f ∈ mutatorsMore :=
  List.mem_append_left _ h

/-- the new bodies: only `arraySort` stores (into the container passed first), none allocates -/
theorem moreBodies_shape (T : TextFns) : ∀ p ∈ moreBodies T, ∀ va h,
    C15.EffOK va (p.2 va h) ∧ C15.NoAlloc (p.2 va h) ∧ (p.1 ≠ "arraySort" → C15.PureLike (p.2 va h)) := by
  intro p hp va h
  simp only [moreBodies, List.mem_cons, List.not_mem_nil, or_false] at hp
  rcases hp with rfl | rfl | rfl
  · exact ⟨(arrayJoinM_pure T va h).noStore.effOK _, (arrayJoinM_pure T va h).noAlloc, fun _ => arrayJoinM_pure T va h⟩
  · exact ⟨(arraySortM_ok va h).1, (arraySortM_ok va h).2, fun hn => absurd rfl hn⟩
  · exact ⟨(stringNewM_pure T va h).noStore.effOK _, (stringNewM_pure T va h).noAlloc, fun _ => stringNewM_pure T va h⟩

/-- the anatomy of an extended call: an old call, or a new function failing validation with `null`, or a new body on validated
arguments -/
theorem effMore_cases (T : TextFns) (f : String) (args : List Value) (h : Heap) :
    ((moreBodies T).lookup f = none ∧ effMore T f args h = eff f args h) ∨
    (f ∈ newNames ∧ effMore T f args h = .fail .null) ∨
    (∃ b ms va, f ∈ newNames ∧ (f, b) ∈ moreBodies T ∧ validate h ms args = some va ∧ effMore T f args h = b va h) := by
  cases hb : (moreBodies T).lookup f with
  | none => exact Or.inl ⟨rfl, effMore_old T hb args h⟩
  | some b =>
    obtain ⟨hf, hmem⟩ := moreBodies_some hb
    obtain ⟨ms, hms⟩ := docSigMore_some hf
    have he := effMore_new T hb hms args h
    cases hv : validate h ms args with
    | none => rw [hv] at he; exact Or.inr (Or.inl ⟨hf, he⟩)
    | some va => rw [hv] at he; exact Or.inr (Or.inr ⟨b, ms, va, hf, hmem, hv, he⟩)

end C15More
