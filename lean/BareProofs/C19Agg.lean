import BareProofs.C19Lemmas

/-!
C19, dataAggregate: the two-pass mirror (`aggregateData`) computes the relational specification (`aggregateSpec`).
-/

namespace C19
open Compare Data

/-! ## the `Res` monad -/

@[simp] theorem Res.bind_ok {α β} (a : α) (f : α → Res β) : (Res.ok a).bind f = f a := rfl
@[simp] theorem Res.bind_raised {α β} (f : α → Res β) : (Res.raised : Res α).bind f = .raised := rfl
@[simp] theorem Res.bind_unmodelled {α β} (f : α → Res β) : (Res.unmodelled : Res α).bind f = .unmodelled := rfl
@[simp] theorem Res.map_ok {α β} (a : α) (f : α → β) : (Res.ok a).map f = .ok (f a) := rfl
@[simp] theorem Res.map_raised {α β} (f : α → β) : (Res.raised : Res α).map f = .raised := rfl
@[simp] theorem Res.map_unmodelled {α β} (f : α → β) : (Res.unmodelled : Res α).map f = .unmodelled := rfl

theorem Res.map_map {α β γ} (r : Res α) (f : α → β) (g : β → γ) : (r.map f).map g = r.map (g ∘ f) := by
  cases r <;> rfl

theorem Res.mapM_map {α β γ} (f : β → Res γ) (g : α → β) : ∀ l : List α, Res.mapM f (l.map g) = Res.mapM (fun a => f (g a)) l
  | [] => rfl
  | x :: xs => by simp [Res.mapM, Res.mapM_map f g xs]

theorem Res.mapM_congr {α β} (f g : α → Res β) : ∀ l : List α, (∀ a ∈ l, f a = g a) → Res.mapM f l = Res.mapM g l
  | [], _ => rfl
  | x :: xs, h => by
    simp [Res.mapM, h x (by simp), Res.mapM_congr f g xs (fun a ha => h a (by simp [ha]))]

theorem Res.mapM_length {α β} (f : α → Res β) : ∀ (l : List α) (out : List β), Res.mapM f l = .ok out → out.length = l.length
  | [], out, h => by simp [Res.mapM] at h; subst h; rfl
  | x :: xs, out, h => by
    simp only [Res.mapM] at h
    cases hx : f x with
    | ok y =>
      cases hxs : Res.mapM f xs with
      | ok ys =>
        simp [hx, hxs] at h; subst h
        simp [Res.mapM_length f xs ys hxs]
      | raised => simp [hx, hxs] at h
      | unmodelled => simp [hx, hxs] at h
    | raised => simp [hx] at h
    | unmodelled => simp [hx] at h

theorem Res.mapM_get {α β} (f : α → Res β) : ∀ (l : List α) (out : List β), Res.mapM f l = .ok out →
    ∀ (i : Nat) (a : α), l[i]? = some a → ∃ b, out[i]? = some b ∧ f a = .ok b
  | [], out, h, i, a, ha => by simp at ha
  | x :: xs, out, h, i, a, ha => by
    simp only [Res.mapM] at h
    cases hx : f x with
    | ok y =>
      cases hxs : Res.mapM f xs with
      | ok ys =>
        simp [hx, hxs] at h; subst h
        cases i with
        | zero => simp at ha; subst ha; exact ⟨y, rfl, hx⟩
        | succ i => simpa using Res.mapM_get f xs ys hxs i a (by simpa using ha)
      | raised => simp [hx, hxs] at h
      | unmodelled => simp [hx, hxs] at h
    | raised => simp [hx] at h
    | unmodelled => simp [hx] at h

/-- the cells computed for the measures carry the measures' output names, in order -/
theorem mapM_cells_names (c : Measure → Res PValue) : ∀ (ms : List Measure) (cs : Row),
    Res.mapM (fun m => (c m).map (fun v => (m.out, v))) ms = .ok cs → cs.map (·.1) = ms.map Measure.out
  | [], cs, h => by simp [Res.mapM] at h; subst h; rfl
  | m :: ms, cs, h => by
    simp only [Res.mapM] at h
    cases h1 : c m with
    | ok v =>
      cases h2 : Res.mapM (fun m => (c m).map (fun v => (m.out, v))) ms with
      | ok cs' =>
        rw [h1, h2] at h
        simp only [Res.map_ok, Res.bind_ok, Res.ok.injEq] at h
        subst h
        simp [mapM_cells_names c ms cs' h2]
      | raised => rw [h1, h2] at h; simp at h
      | unmodelled => rw [h1, h2] at h; simp at h
    | raised => rw [h1] at h; simp at h
    | unmodelled => rw [h1] at h; simp at h

/-! ## buckets with a per-key state -/

section Upsert
variable {κ α β : Type} [DecidableEq κ]

theorem bucketUpsert_miss (k : κ) (init b0 : β) (f : β → Res β) (g : κ → β) (hf : f init = .ok b0) : ∀ l : List κ, k ∉ l →
    bucketUpsert k init f (l.map (fun k' => (k', g k'))) = .ok (l.map (fun k' => (k', g k')) ++ [(k, b0)])
  | [], _ => by simp [bucketUpsert, hf]
  | a :: l, h => by
    have ha : a ≠ k := fun e => h (by simp [e])
    have hl : k ∉ l := fun e => h (by simp [e])
    simp [bucketUpsert, ha, bucketUpsert_miss k init b0 f g hf l hl]

theorem bucketUpsert_hit (k : κ) (init b1 : β) (f : β → Res β) (g : κ → β) (hf : f (g k) = .ok b1) : ∀ l : List κ, l.Nodup → k ∈ l →
    bucketUpsert k init f (l.map (fun k' => (k', g k'))) = .ok (l.map (fun k' => (k', if k' = k then b1 else g k')))
  | [], _, h => by simp at h
  | a :: l, hnd, h => by
    have ⟨ha, hl⟩ := List.nodup_cons.mp hnd
    by_cases hak : a = k
    · subst hak
      have : l.map (fun k' => (k', if k' = a then b1 else g k')) = l.map (fun k' => (k', g k')) := by
        refine List.map_congr_left (fun k' hk' => ?_)
        have : k' ≠ a := fun e => ha (e ▸ hk')
        simp [this]
      simp [bucketUpsert, hf, this]
    · have hkl : k ∈ l := by
        rcases List.mem_cons.mp h with e | e
        · exact absurd e.symm hak
        · exact e
      simp [bucketUpsert, hak, bucketUpsert_hit k init b1 f g hf l hl hkl]

/-- a fold that keeps one state per key, created by `init` at the first row of the key and advanced by `step` at every
row, ends with the states `h (rows of the key)` in first-appearance order -/
theorem foldlM_upsert_groupSpec (keyOf : α → κ) (init : α → β) (step : α → β → Res β) (h : List α → β)
    (hinit : ∀ r, step r (init r) = .ok (h [r]))
    (hstep : ∀ r xs, xs ≠ [] → step r (h xs) = .ok (h (xs ++ [r]))) :
    ∀ rows pre : List α,
      Res.foldlM (fun st r => bucketUpsert (keyOf r) (init r) (step r) st) ((groupSpec keyOf pre).map (fun g => (g.1, h g.2))) rows
        = .ok ((groupSpec keyOf (pre ++ rows)).map (fun g => (g.1, h g.2)))
  | [], pre => by simp [Res.foldlM]
  | r :: rows, pre => by
    have ih := foldlM_upsert_groupSpec keyOf init step h hinit hstep rows (pre ++ [r])
    have e1 : (groupSpec keyOf pre).map (fun g => (g.1, h g.2)) =
        (dedup (pre.map keyOf)).map (fun k' => (k', h (pre.filter (fun r' => keyOf r' = k')))) := by
      simp [groupSpec, Function.comp_def]
    have step1 : bucketUpsert (keyOf r) (init r) (step r) ((groupSpec keyOf pre).map (fun g => (g.1, h g.2))) =
        .ok ((groupSpec keyOf (pre ++ [r])).map (fun g => (g.1, h g.2))) := by
      rw [e1]
      have e2 : (groupSpec keyOf (pre ++ [r])).map (fun g => (g.1, h g.2)) =
          (dedup ((pre ++ [r]).map keyOf)).map (fun k' => (k', h ((pre ++ [r]).filter (fun r' => keyOf r' = k')))) := by
        simp [groupSpec, Function.comp_def]
      rw [e2]
      simp only [List.map_append, List.map_cons, List.map_nil, dedup_append_singleton]
      by_cases hk : keyOf r ∈ pre.map keyOf
      · have hne : pre.filter (fun r' => decide (keyOf r' = keyOf r)) ≠ [] := by
          obtain ⟨r', hr', he⟩ := List.mem_map.mp hk
          intro hnil
          have : r' ∈ pre.filter (fun r' => decide (keyOf r' = keyOf r)) := List.mem_filter.mpr ⟨hr', by simp [he]⟩
          rw [hnil] at this; simp at this
        rw [bucketUpsert_hit (keyOf r) (init r) _ (step r) _ (hstep r _ hne) _ (nodup_dedup _) ((mem_dedup _ _).mpr hk)]
        simp only [hk, if_true]
        congr 1
        refine List.map_congr_left (fun k' _ => ?_)
        by_cases e : k' = keyOf r
        · subst e; simp [List.filter_append]
        · have e' : ¬ keyOf r = k' := fun h => e h.symm
          simp [List.filter_append, e, e']
      · rw [bucketUpsert_miss (keyOf r) (init r) _ (step r) _ (hinit r) _ (fun hm => hk ((mem_dedup _ _).mp hm))]
        simp only [hk, if_false, List.map_append, List.map_cons, List.map_nil]
        have hnil : pre.filter (fun r' => decide (keyOf r' = keyOf r)) = [] := by
          refine List.filter_eq_nil_iff.mpr (fun r' hr' he => hk ?_)
          have : keyOf r' = keyOf r := by simpa using he
          exact this ▸ List.mem_map_of_mem hr'
        congr 2
        · refine List.map_congr_left (fun k' hk' => ?_)
          have e' : ¬ keyOf r = k' := fun h => hk (h ▸ (mem_dedup _ _).mp hk')
          simp [List.filter_append, e']
        · simp [List.filter_append, hnil]
    simp only [Res.foldlM, step1, Res.bind_ok]
    simpa [List.append_assoc] using ih

end Upsert

/-! ## the measure cells of an aggregate row -/

/-- the non-null values -/
def nonNull (vs : List PValue) : List PValue := vs.filter (fun v => v ≠ .null)

/-- `[v]` unless `v` is null -/
def nn (v : PValue) : List PValue := if v = .null then [] else [v]

theorem nonNull_append (a b : List PValue) : nonNull (a ++ b) = nonNull a ++ nonNull b := by simp [nonNull]

theorem nonNull_single (v : PValue) : nonNull [v] = nn v := by
  by_cases h : v = .null <;> simp [nonNull, nn, h]

/-- the list-valued cells pass 1 keeps under the measures' output names -/
def accCells (ms : List Measure) (vals : Measure → List PValue) : Row := ms.map (fun m => (m.out, .arr (vals m)))

def outNames (ms : List Measure) : List String := ms.map Measure.out

theorem accCells_keys (ms : List Measure) (vals : Measure → List PValue) : (accCells ms vals).map (·.1) = outNames ms := by
  simp [accCells, outNames, Function.comp_def]

/-- pass 1 on a fresh aggregate row: every measure gets its list, holding the row's value unless null -/
theorem foldlM_aggAppend_new (row : Row) : ∀ (todo : List Measure) (pre : Row),
    (outNames todo).Nodup → (∀ n ∈ outNames todo, n ∉ pre.map (·.1)) →
    Res.foldlM (aggAppend row) pre todo = .ok (pre ++ accCells todo (fun m => nn (rowGet m.field row)))
  | [], pre, _, _ => by simp [Res.foldlM, accCells]
  | m :: todo, pre, hnd, hpre => by
    have hnd0 : (m.out :: outNames todo).Nodup := hnd
    have ⟨hm, hnd'⟩ := List.nodup_cons.mp hnd0
    have hmp : m.out ∉ pre.map (·.1) := hpre m.out (by simp [outNames])
    have hhas : rowHas m.out pre = false := (rowHas_false_iff _ _).mpr hmp
    have hstep : aggAppend row pre m = .ok (pre ++ [(m.out, .arr (nn (rowGet m.field row)))]) := by
      unfold aggAppend
      simp only [hhas, Bool.false_eq_true, if_false, rowSet_new _ _ _ hmp]
      by_cases hv : rowGet m.field row = .null
      · simp [hv, nn]
      · have hg : rowGet m.out (pre ++ [(m.out, PValue.arr [])]) = .arr [] := by
          rw [rowGet_append _ _ _ hmp]; simp [rowGet]
        simp only [hv, if_false, hg, rowSet_append _ _ _ _ hmp, nn]
        simp [rowSet]
    have ih := foldlM_aggAppend_new row todo (pre ++ [(m.out, .arr (nn (rowGet m.field row)))]) hnd'
      (by
        intro n hn
        simp only [List.map_append, List.map_cons, List.map_nil, List.mem_append, List.mem_singleton, not_or]
        refine ⟨hpre n (List.mem_cons_of_mem _ hn), fun e => hm ?_⟩
        subst e; exact hn)
    simp only [Res.foldlM, hstep, Res.bind_ok, ih]
    simp [accCells]

/-- pass 1 on an existing aggregate row: every measure's list gets the row's value appended unless null -/
theorem foldlM_aggAppend_old (row : Row) (vals : Measure → List PValue) : ∀ (todo : List Measure) (pre : Row),
    (outNames todo).Nodup → (∀ n ∈ outNames todo, n ∉ pre.map (·.1)) →
    Res.foldlM (aggAppend row) (pre ++ accCells todo vals) todo =
      .ok (pre ++ accCells todo (fun m => vals m ++ nn (rowGet m.field row)))
  | [], pre, _, _ => by simp [Res.foldlM, accCells]
  | m :: todo, pre, hnd, hpre => by
    have hnd0 : (m.out :: outNames todo).Nodup := hnd
    have ⟨hm, hnd'⟩ := List.nodup_cons.mp hnd0
    have hmp : m.out ∉ pre.map (·.1) := hpre m.out (by simp [outNames])
    have hcur : pre ++ accCells (m :: todo) vals = pre ++ (m.out, .arr (vals m)) :: accCells todo vals := by simp [accCells]
    have hhas : rowHas m.out (pre ++ (m.out, .arr (vals m)) :: accCells todo vals) = true := by
      simp [rowHas]
    have hstep : aggAppend row (pre ++ accCells (m :: todo) vals) m =
        .ok ((pre ++ [(m.out, .arr (vals m ++ nn (rowGet m.field row)))]) ++ accCells todo vals) := by
      rw [hcur]
      unfold aggAppend
      simp only [hhas, if_true]
      by_cases hv : rowGet m.field row = .null
      · simp [hv, nn]
      · have hg : rowGet m.out (pre ++ (m.out, PValue.arr (vals m)) :: accCells todo vals) = .arr (vals m) := by
          rw [rowGet_append _ _ _ hmp]; simp [rowGet]
        simp only [hv, if_false, hg, rowSet_append _ _ _ _ hmp, nn]
        simp [rowSet]
    have ih := foldlM_aggAppend_old row vals todo (pre ++ [(m.out, .arr (vals m ++ nn (rowGet m.field row)))]) hnd'
      (by
        intro n hn
        simp only [List.map_append, List.map_cons, List.map_nil, List.mem_append, List.mem_singleton, not_or]
        refine ⟨hpre n (List.mem_cons_of_mem _ hn), fun e => hm ?_⟩
        subst e; exact hn)
    simp only [Res.foldlM, hstep, Res.bind_ok, ih]
    simp [accCells]

/-- SPEC: the cell of one measure -/
def cellOf (F : HostFloat) (vals : Measure → List PValue) (m : Measure) : Res (String × PValue) :=
  (aggCell F m.fn (vals m)).map (fun v => (m.out, v))

/-- pass 2 on one aggregate row: the lists are replaced, in measure order, by the cells; the first failure wins -/
theorem foldlM_aggFinish (F : HostFloat) (vals : Measure → List PValue) : ∀ (todo : List Measure) (pre : Row),
    (outNames todo).Nodup → (∀ n ∈ outNames todo, n ∉ pre.map (·.1)) →
    Res.foldlM (aggFinish F) (pre ++ accCells todo vals) todo = (Res.mapM (cellOf F vals) todo).map (fun cells => pre ++ cells)
  | [], pre, _, _ => by simp [Res.foldlM, Res.mapM, accCells]
  | m :: todo, pre, hnd, hpre => by
    have hnd0 : (m.out :: outNames todo).Nodup := hnd
    have ⟨hm, hnd'⟩ := List.nodup_cons.mp hnd0
    have hmp : m.out ∉ pre.map (·.1) := hpre m.out (by simp [outNames])
    have hcur : pre ++ accCells (m :: todo) vals = pre ++ (m.out, .arr (vals m)) :: accCells todo vals := by simp [accCells]
    have hg : rowGet m.out (pre ++ (m.out, PValue.arr (vals m)) :: accCells todo vals) = .arr (vals m) := by
      rw [rowGet_append _ _ _ hmp]; simp [rowGet]
    have hset : ∀ v, rowSet m.out v (pre ++ (m.out, PValue.arr (vals m)) :: accCells todo vals) = (pre ++ [(m.out, v)]) ++ accCells todo vals := by
      intro v; rw [rowSet_append _ _ _ _ hmp]; simp [rowSet]
    have hstep : aggFinish F (pre ++ accCells (m :: todo) vals) m =
        (aggCell F m.fn (vals m)).map (fun v => (pre ++ [(m.out, v)]) ++ accCells todo vals) := by
      rw [hcur]
      unfold aggFinish aggCell
      simp only [hg]
      by_cases he : (vals m).isEmpty = true
      · simp [he, hset]
      · simp only [he, Bool.false_eq_true, if_false]
        cases aggApply F m.fn (vals m) <;> simp [Res.map, Res.bind, hset]
    have ih := fun v => foldlM_aggFinish F vals todo (pre ++ [(m.out, v)]) hnd'
      (by
        intro n hn
        simp only [List.map_append, List.map_cons, List.map_nil, List.mem_append, List.mem_singleton, not_or]
        refine ⟨hpre n (List.mem_cons_of_mem _ hn), fun e => hm ?_⟩
        subst e; exact hn)
    simp only [Res.foldlM, hstep, Res.mapM, cellOf]
    cases aggCell F m.fn (vals m) with
    | ok v =>
      simp only [Res.map_ok, Res.bind_ok, ih v]
      cases Res.mapM (cellOf F vals) todo <;> simp [Res.map, Res.bind]
    | raised => simp
    | unmodelled => simp

/-! ## keys of a new aggregate row -/

theorem foldl_rowSet_keys (row : Row) : ∀ (cats : List String) (acc : Row) (S : List String),
    (∀ c ∈ cats, c ∈ S) → (∀ k ∈ acc.map (·.1), k ∈ S) →
    ∀ k ∈ (cats.foldl (fun r c => rowSet c (rowGet c row) r) acc).map (·.1), k ∈ S
  | [], acc, S, _, ha => by simpa using ha
  | c :: cats, acc, S, hc, ha => by
    refine foldl_rowSet_keys row cats _ S (fun c' hc' => hc c' (by simp [hc'])) (fun k hk => ?_)
    rw [rowSet_keys] at hk
    split at hk
    · exact ha k hk
    · rcases List.mem_append.mp hk with h | h
      · exact ha k h
      · have : k = c := by simpa using h
        subst this; exact hc k (by simp)

theorem aggNewRow_keys (cats : Option (List String)) (row : Row) : ∀ k ∈ (aggNewRow cats row).map (·.1), k ∈ cats.getD [] :=
  foldl_rowSet_keys row (cats.getD []) [] (cats.getD []) (fun _ h => h) (by simp)

/-! ## mirror = spec -/

/-- the aggregate row of a category after pass 1 -/
def accRow (agg : Aggregation) (rs : List Row) : Row :=
  aggNewRow agg.categories (rs.headD []) ++ accCells agg.measures (fun m => nonNull (rs.map (rowGet m.field)))

theorem wf_names (agg : Aggregation) (hwf : agg.WF = true) :
    (outNames agg.measures).Nodup ∧ ∀ row, ∀ n ∈ outNames agg.measures, n ∉ (aggNewRow agg.categories row).map (·.1) := by
  simp only [Aggregation.WF, Bool.and_eq_true, List.all_eq_true, Bool.not_eq_true', decide_eq_true_eq] at hwf
  refine ⟨hwf.1, fun row n hn hk => ?_⟩
  have h1 := aggNewRow_keys agg.categories row n hk
  have h2 := hwf.2 n hn
  simp only [List.contains_eq_mem, decide_eq_false_iff_not] at h2
  exact h2 h1

/-- pass 1 = grouping: after all rows, one aggregate row per category in first-appearance order, each holding the category
fields of the category's first row and, per measure, the list of its non-null values in row order -/
theorem pass1 (agg : Aggregation) (hwf : agg.WF = true) (data : Table) :
    Res.foldlM (aggStep agg) [] data =
      .ok ((groupSpec (catKey agg.categories) data).map (fun g => (g.1, accRow agg g.2))) := by
  obtain ⟨hnd, hcat⟩ := wf_names agg hwf
  have := foldlM_upsert_groupSpec (catKey agg.categories) (aggNewRow agg.categories)
    (fun row aggRow => Res.foldlM (aggAppend row) aggRow agg.measures) (accRow agg)
    (fun r => by
      rw [foldlM_aggAppend_new r agg.measures _ hnd (hcat r)]
      simp [accRow, nonNull_single])
    (fun r xs hxs => by
      unfold accRow
      rw [foldlM_aggAppend_old r _ agg.measures _ hnd (hcat _)]
      have hh : (xs ++ [r]).headD [] = xs.headD [] := by cases xs <;> simp at hxs ⊢
      rw [hh]
      simp [nonNull_append, nonNull_single])
    data []
  have hs : aggStep agg = fun st r => bucketUpsert (catKey agg.categories r) (aggNewRow agg.categories r)
      (fun aggRow => Res.foldlM (aggAppend r) aggRow agg.measures) st := by funext st r; rfl
  rw [hs]
  simpa [groupSpec, dedup] using this

/-- **mirror = spec** for every table and every aggregation with well-formed output names -/
theorem aggregateData_eq_spec (F : HostFloat) (data : Table) (agg : Aggregation) (hv : agg.valid = true) (hwf : agg.WF = true) :
    aggregateData F data agg = aggregateSpec F data agg := by
  obtain ⟨hnd, hcat⟩ := wf_names agg hwf
  unfold aggregateData aggregateSpec
  simp only [hv, hwf, Bool.not_true, Bool.false_eq_true, if_false, pass1 agg hwf data, Res.bind_ok, Res.mapM_map]
  refine Res.mapM_congr _ _ _ (fun g _ => ?_)
  have := foldlM_aggFinish F (fun m => nonNull (g.2.map (rowGet m.field))) agg.measures
    (aggNewRow agg.categories (g.2.headD [])) hnd (hcat _)
  simp only [accRow]
  rw [this]
  rfl

end C19
