import BareProofs.C10Ws

/-!
# C10 — the statement patterns on lines given by their tokens and blank runs (lemmas for `BareProofs/C10Break.lean`)

For every statement kind of the cascade `Scan.shapeS` a **build lemma**: the line written as its tokens with an arbitrary
blank run at every place where the pattern has `\s*` / `\s+` is recognised by exactly that pattern, the captured groups are
the tokens, and `match.start(expr)` is the length of what stands in front of the expression.  The expression text is a
free parameter (so: replacing it keeps the shape) and so is every blank run (so: the shape depends on the layout only
through the offset).
-/

namespace C10
open Text Scan

/-! ## small scanners on built texts -/

theorem keyword?_self (kw : String) (r : Chars) : keyword? kw (kw.toList ++ r) = some r := by
  unfold keyword?
  have h1 : kw.toList.isPrefixOf (kw.toList ++ r) = true := by
    rw [List.isPrefixOf_iff_prefix]; exact List.prefix_append _ _
  have h2 : kw.length = kw.toList.length := by rw [String.length_toList]
  rw [h1, h2]; simp

/-- an identifier `[A-Za-z_]\w*` -/
def isIdent : Chars → Bool
  | c :: cs => isIdStart c && cs.all isWord
  | [] => false

/-- the text does not start with a `\w` -/
def noWordHead : Chars → Bool
  | c :: _ => !isWord c
  | [] => true

theorem ident?_ident {nm r : Chars} (h : isIdent nm = true) (hr : noWordHead r = true) : ident? (nm ++ r) = some (nm, r) := by
  cases nm with
  | nil => simp [isIdent] at h
  | cons c cs =>
    simp only [isIdent, Bool.and_eq_true, List.all_eq_true] at h
    have h1 : (cs ++ r).takeWhile isWord = cs ∧ (cs ++ r).dropWhile isWord = r := by
      rw [List.takeWhile_append_of_pos h.2, List.dropWhile_append_of_pos h.2]
      cases r with
      | nil => simp
      | cons d r' => simp [noWordHead] at hr; simp [hr]
    simp [ident?, h.1, h1.1, h1.2]

theorem noWordHead_ws {w : Chars} (hw : allSpace w = true) (hne : w ≠ []) (r : Chars) : noWordHead (w ++ r) = true := by
  cases w with
  | nil => exact absurd rfl hne
  | cons c w' =>
    have : isSpace c = true := by simp [allSpace] at hw; exact hw.1
    simp [noWordHead, space_not_word this]

theorem noWordHead_ws_cons {w : Chars} (hw : allSpace w = true) {d : Char} (hd : isWord d = false) (r : Chars) :
    noWordHead (w ++ d :: r) = true := by
  cases w with
  | nil => simp [noWordHead, hd]
  | cons c w' => exact noWordHead_ws hw (by simp) _

theorem lstripL_ws_cons {w : Chars} (hw : allSpace w = true) {d : Char} (hd : isSpace d = false) (r : Chars) :
    lstripL (w ++ d :: r) = d :: r := by
  rw [lstrip_append_ws _ hw]; simp [lstripL, hd]

theorem lstripL_cons_ns {d : Char} (hd : isSpace d = false) (r : Chars) : lstripL (d :: r) = d :: r := by
  simp [lstripL, hd]

theorem ws1?_ws {w : Chars} (hw : allSpace w = true) (hne : w ≠ []) (x : Chars) : ws1? (w ++ x) = some (lstripL x) := by
  cases w with
  | nil => exact absurd rfl hne
  | cons c w' =>
    have h : isSpace c = true ∧ allSpace w' = true := by simpa [allSpace] using hw
    simp [ws1?, h.1, lstrip_append_ws x h.2]

theorem isIdent_head_ns {nm : Chars} (h : isIdent nm = true) : ∃ c cs, nm = c :: cs ∧ isSpace c = false ∧ isIdStart c = true := by
  cases nm with
  | nil => simp [isIdent] at h
  | cons c cs =>
    simp only [isIdent, Bool.and_eq_true] at h
    refine ⟨c, cs, rfl, ?_, h.1⟩
    cases hs : isSpace c with
    | false => rfl
    | true => have := space_not_word hs; rw [idStart_isWord h.1] at this; cases this

/-- `\s+(?P<expr>.+)\s*:\s*$` on blanks, an expression text that starts with a non-blank, a colon, blanks -/
theorem exprColon?_build {w1 w3 : Chars} (d : Char) (e1 : Chars) (hw1 : allSpace w1 = true) (hne : w1 ≠ [])
    (hd : isSpace d = false) (hw3 : allSpace w3 = true) :
    exprColon? (w1 ++ d :: e1 ++ ':' :: w3) = some (w1.length, d :: e1) := by
  unfold exprColon?
  have hrev : (w1 ++ d :: e1 ++ ':' :: w3).reverse = w3.reverse ++ ':' :: (w1 ++ d :: e1).reverse := by simp
  have hw3r : ∀ a ∈ w3.reverse, isSpace a = true := by
    intro a ha; simp [allSpace] at hw3; exact hw3 a (by simpa using ha)
  rw [hrev, List.dropWhile_append_of_pos hw3r]
  have hw1a : ∀ a ∈ w1, isSpace a = true := by simpa [allSpace] using hw1
  have ht : (w1 ++ d :: e1).takeWhile isSpace = w1 := by
    rw [List.takeWhile_append_of_pos hw1a]; simp [hd]
  have hdr : (w1 ++ d :: e1).dropWhile isSpace = d :: e1 := by
    rw [List.dropWhile_append_of_pos hw1a]; simp [hd]
  have hl : ∃ c, w1.getLast? = some c := by
    cases h : w1.getLast? with
    | none => simp at h; exact absurd h hne
    | some c => exact ⟨c, rfl⟩
  obtain ⟨c, hc⟩ := hl
  simp [show isSpace ':' = false by decide, ht, hdr, hc]

theorem kwExprColon?_build (kw : String) (mk : Nat → Chars → Shape) {w1 w3 : Chars} (d : Char) (e1 : Chars)
    (hw1 : allSpace w1 = true) (hne : w1 ≠ []) (hd : isSpace d = false) (hw3 : allSpace w3 = true) :
    kwExprColon? kw mk (kw.toList ++ (w1 ++ d :: e1 ++ ':' :: w3)) = some (mk (kw.length + w1.length) (d :: e1)) := by
  unfold kwExprColon?
  simp only [keyword?_self, exprColon?_build d e1 hw1 hne hd hw3]

/-- the assignment pattern fails on `name blanks d…` when `d` is not `=` (and does not continue the name) -/
theorem assign?_none_of {nm w : Chars} (hid : isIdent nm = true) (hw : allSpace w = true) {d : Char}
    (hd : isSpace d = false) (hde : d ≠ '=') (hnw : w ≠ [] ∨ isWord d = false) (r : Chars) :
    assign? (nm ++ (w ++ d :: r)) = none := by
  have hn : noWordHead (w ++ d :: r) = true := by
    rcases hnw with h | h
    · exact noWordHead_ws hw h _
    · exact noWordHead_ws_cons hw h _
  unfold assign?
  rw [ident?_ident hid hn]
  simp only [lstripL_ws_cons hw hd]
  split
  · rename_i heq; simp only [List.cons.injEq] at heq; exact absurd heq.1 hde
  · rfl

theorem label?_none_of {nm w : Chars} (hid : isIdent nm = true) (hw : allSpace w = true) {d : Char}
    (hd : isSpace d = false) (hde : d ≠ ':') (hnw : w ≠ [] ∨ isWord d = false) (r : Chars) :
    label? (nm ++ (w ++ d :: r)) = none := by
  have hn : noWordHead (w ++ d :: r) = true := by
    rcases hnw with h | h
    · exact noWordHead_ws hw h _
    · exact noWordHead_ws_cons hw h _
  unfold label?
  rw [ident?_ident hid hn]
  simp only [lstripL_ws_cons hw hd]
  split
  · rename_i heq; simp only [List.cons.injEq] at heq; exact absurd heq.1 hde
  · rfl

theorem shape_of_shapeS {s : Chars} (hs : lstripL s = s) (ind : Chars) (hi : allSpace ind = true) :
    shape (ind ++ s) = (shapeS s).shift ind.length := by
  rw [shape_leading_ws _ hi]
  unfold shape
  simp only [hs, Nat.sub_self]
  rw [Shape.shift_shift]; simp

/-! ## `if` / `elif` / `while` -/

theorem shapeS_if {w1 w3 : Chars} (d : Char) (e1 : Chars) (hw1 : allSpace w1 = true) (hne : w1 ≠ [])
    (hd : isSpace d = false) (hde : d ≠ '=') (hw3 : allSpace w3 = true) :
    shapeS ("if".toList ++ (w1 ++ d :: e1 ++ ':' :: w3)) = .ifBegin (2 + w1.length) (d :: e1) := by
  have A : assign? ("if".toList ++ (w1 ++ d :: e1 ++ ':' :: w3)) = none := by
    rw [List.append_assoc]; exact assign?_none_of (by decide) hw1 hd hde (Or.inl hne) _
  have K := kwExprColon?_build "if" .ifBegin d e1 hw1 hne hd hw3
  unfold shapeS
  rw [A, K]
  simp [funcBegin?, kwOnly?, keyword?, show "if".length = 2 from rfl]

theorem shapeS_elif {w1 w3 : Chars} (d : Char) (e1 : Chars) (hw1 : allSpace w1 = true) (hne : w1 ≠ [])
    (hd : isSpace d = false) (hde : d ≠ '=') (hw3 : allSpace w3 = true) :
    shapeS ("elif".toList ++ (w1 ++ d :: e1 ++ ':' :: w3)) = .elif (4 + w1.length) (d :: e1) := by
  have A : assign? ("elif".toList ++ (w1 ++ d :: e1 ++ ':' :: w3)) = none := by
    rw [List.append_assoc]; exact assign?_none_of (by decide) hw1 hd hde (Or.inl hne) _
  have K := kwExprColon?_build "elif" .elif d e1 hw1 hne hd hw3
  unfold shapeS
  rw [A, K]
  simp [funcBegin?, kwOnly?, kwExprColon?, keyword?, show "elif".length = 4 from rfl]

theorem shapeS_while {w1 w3 : Chars} (d : Char) (e1 : Chars) (hw1 : allSpace w1 = true) (hne : w1 ≠ [])
    (hd : isSpace d = false) (hde : d ≠ '=') (hw3 : allSpace w3 = true) :
    shapeS ("while".toList ++ (w1 ++ d :: e1 ++ ':' :: w3)) = .whileBegin (5 + w1.length) (d :: e1) := by
  have A : assign? ("while".toList ++ (w1 ++ d :: e1 ++ ':' :: w3)) = none := by
    rw [List.append_assoc]; exact assign?_none_of (by decide) hw1 hd hde (Or.inl hne) _
  have K := kwExprColon?_build "while" .whileBegin d e1 hw1 hne hd hw3
  unfold shapeS
  rw [A, K]
  simp [funcBegin?, kwOnly?, kwExprColon?, else?, keyword?, show "while".length = 5 from rfl]

/-! ## `return` -/

theorem idStart_ne {c : Char} (h : isIdStart c = true) {x : Char} (hx : isWord x = false) : c ≠ x := by
  intro e; subst e; rw [idStart_isWord h] at hx; cases hx

theorem noWordHead_allSpace {w : Chars} (hw : allSpace w = true) : noWordHead w = true := by
  cases w with
  | nil => rfl
  | cons c w' => have := noWordHead_ws hw (by simp) []; simpa using this

/-- the label pattern fails on `name blanks d r` unless `d r` is a colon and blanks -/
theorem label?_none_of' {nm w : Chars} (hid : isIdent nm = true) (hw : allSpace w = true) {d : Char}
    (hd : isSpace d = false) (r : Chars) (hde : d = ':' → allSpace r = false) (hnw : w ≠ [] ∨ isWord d = false) :
    label? (nm ++ (w ++ d :: r)) = none := by
  have hn : noWordHead (w ++ d :: r) = true := by
    rcases hnw with h | h
    · exact noWordHead_ws hw h _
    · exact noWordHead_ws_cons hw h _
  unfold label?
  rw [ident?_ident hid hn]
  simp only [lstripL_ws_cons hw hd]
  split
  · rename_i heq; simp only [List.cons.injEq] at heq
    obtain ⟨h1, h2⟩ := heq; subst h2
    simp [hde h1]
  · rfl

theorem shapeS_return {w1 : Chars} (d : Char) (e1 : Chars) (hw1 : allSpace w1 = true) (hne : w1 ≠ [])
    (hd : isSpace d = false) (hde : d ≠ '=') (hlab : d = ':' → allSpace e1 = false) :
    shapeS ("return".toList ++ (w1 ++ d :: e1)) = .ret (some (6 + w1.length, d :: e1)) := by
  have A : assign? ("return".toList ++ (w1 ++ d :: e1)) = none :=
    assign?_none_of (by decide) hw1 hd hde (Or.inl hne) _
  have L : label? ("return".toList ++ (w1 ++ d :: e1)) = none :=
    label?_none_of' (by decide) hw1 hd e1 hlab (Or.inl hne)
  have R : return? ("return".toList ++ (w1 ++ d :: e1)) = some (.ret (some (6 + w1.length, d :: e1))) := by
    unfold return?
    simp only [keyword?_self]
    have h1 : allSpace (w1 ++ d :: e1) = false := by simp [allSpace, hd]
    cases w1 with
    | nil => exact absurd rfl hne
    | cons c w' =>
      have hc : isSpace c = true ∧ allSpace w' = true := by simpa [allSpace] using hw1
      rw [h1]
      simp only [List.cons_append, hc.1, if_true, Bool.false_eq_true, if_false]
      have : lstripL (c :: (w' ++ d :: e1)) = d :: e1 := by
        rw [← List.cons_append]; exact lstripL_ws_cons hw1 hd _
      rw [this]
      simp; omega
  unfold shapeS
  rw [A, L, R]
  simp [funcBegin?, kwOnly?, kwExprColon?, else?, for?, jump?, keyword?]

/-! ## `jump` / `jumpif` -/

theorem wsNameEnd?_build {w1 nm w2 : Chars} (hw1 : allSpace w1 = true) (hne : w1 ≠ []) (hid : isIdent nm = true)
    (hw2 : allSpace w2 = true) : wsNameEnd? (w1 ++ (nm ++ w2)) = some nm := by
  obtain ⟨c, cs, rfl, hc, _⟩ := isIdent_head_ns hid
  unfold wsNameEnd?
  rw [ws1?_ws hw1 hne]
  have : lstripL (c :: cs ++ w2) = c :: cs ++ w2 := lstripL_cons_ns hc _
  simp only [this, ident?_ident hid (noWordHead_allSpace hw2), hw2, if_true]

theorem shapeS_jump {w1 nm w2 : Chars} (hw1 : allSpace w1 = true) (hne : w1 ≠ []) (hid : isIdent nm = true)
    (hw2 : allSpace w2 = true) : shapeS ("jump".toList ++ (w1 ++ (nm ++ w2))) = .jump nm none := by
  obtain ⟨c, cs, rfl, hc, hcs⟩ := isIdent_head_ns hid
  have A : assign? ("jump".toList ++ (w1 ++ (c :: cs ++ w2))) = none :=
    assign?_none_of (by decide) hw1 hc (idStart_ne hcs (by decide)) (Or.inl hne) _
  have L : label? ("jump".toList ++ (w1 ++ (c :: cs ++ w2))) = none :=
    label?_none_of (by decide) hw1 hc (idStart_ne hcs (by decide)) (Or.inl hne) _
  have J : jump? ("jump".toList ++ (w1 ++ (c :: cs ++ w2))) = some (.jump (c :: cs) none) := by
    unfold jump?
    simp only [keyword?_self, wsNameEnd?_build hw1 hne hid hw2]
  unfold shapeS
  rw [A, L, J]
  simp [funcBegin?, kwOnly?, kwExprColon?, else?, for?, keyword?]

theorem splitLastParen_build (e tail : Chars) (ht : ∀ a ∈ tail, a ≠ ')') :
    splitLastParen (e ++ ')' :: tail) = some (e, tail) := by
  unfold splitLastParen
  have hrev : (e ++ ')' :: tail).reverse = tail.reverse ++ ')' :: e.reverse := by simp
  have hp : ∀ a ∈ tail.reverse, (a != ')') = true := by
    intro a ha; simpa using ht a (by simpa using ha)
  simp only [hrev, List.dropWhile_append_of_pos hp, List.takeWhile_append_of_pos hp]
  simp

theorem tail_no_paren {w1 nm w2 : Chars} (hw1 : allSpace w1 = true) (hid : isIdent nm = true) (hw2 : allSpace w2 = true) :
    ∀ a ∈ w1 ++ (nm ++ w2), a ≠ ')' := by
  intro a ha e
  subst e
  simp only [List.mem_append] at ha
  have hs : ∀ w : Chars, allSpace w = true → ')' ∈ w → False := by
    intro w hw hm
    have := (List.all_eq_true.mp hw) _ hm
    revert this; decide
  rcases ha with h | h | h
  · exact hs _ hw1 h
  · cases nm with
    | nil => simp at h
    | cons c cs =>
      simp only [isIdent, Bool.and_eq_true, List.all_eq_true] at hid
      simp only [List.mem_cons] at h
      rcases h with h | h
      · rw [← h] at hid; have := hid.1; revert this; decide
      · have := hid.2 _ h; revert this; decide
  · exact hs _ hw2 h

theorem shapeS_jumpif {w0 w1 nm w2 : Chars} (e : Chars) (hw0 : allSpace w0 = true) (hee : e ≠ [])
    (hw1 : allSpace w1 = true) (hne : w1 ≠ []) (hid : isIdent nm = true) (hw2 : allSpace w2 = true) :
    shapeS ("jumpif".toList ++ (w0 ++ '(' :: (e ++ ')' :: (w1 ++ (nm ++ w2))))) =
      .jump nm (some (6 + w0.length + 1, e)) := by
  have hp : isSpace '(' = false := by decide
  have A : assign? ("jumpif".toList ++ (w0 ++ '(' :: (e ++ ')' :: (w1 ++ (nm ++ w2))))) = none :=
    assign?_none_of (by decide) hw0 hp (by decide) (Or.inr (by decide)) _
  have L : label? ("jumpif".toList ++ (w0 ++ '(' :: (e ++ ')' :: (w1 ++ (nm ++ w2))))) = none :=
    label?_none_of (by decide) hw0 hp (by decide) (Or.inr (by decide)) _
  have J : jump? ("jumpif".toList ++ (w0 ++ '(' :: (e ++ ')' :: (w1 ++ (nm ++ w2))))) =
      some (.jump nm (some (6 + w0.length + 1, e))) := by
    have e1 : "jumpif".toList ++ (w0 ++ '(' :: (e ++ ')' :: (w1 ++ (nm ++ w2)))) =
        "jump".toList ++ ("if".toList ++ (w0 ++ '(' :: (e ++ ')' :: (w1 ++ (nm ++ w2))))) := by simp
    have hW : wsNameEnd? ("if".toList ++ (w0 ++ '(' :: (e ++ ')' :: (w1 ++ (nm ++ w2))))) = none := by
      simp [wsNameEnd?, ws1?, show isSpace 'i' = false by decide]
    have hem : e.isEmpty = false := by cases e with
      | nil => exact absurd rfl hee
      | cons _ _ => rfl
    unfold jump?
    rw [e1]
    simp only [keyword?_self, hW, lstripL_ws_cons hw0 hp,
      splitLastParen_build e _ (tail_no_paren hw1 hid hw2), hem, wsNameEnd?_build hw1 hne hid hw2]
    simp; omega
  unfold shapeS
  rw [A, L, J]
  simp [funcBegin?, kwOnly?, kwExprColon?, else?, for?, keyword?]

/-! ## `for` -/

/-- the optional index group of a `for` header: nothing, or `blanks , blanks name` -/
def forMid : Option (Chars × Chars × Chars) → Chars
  | none => []
  | some (w2, w3, ix) => w2 ++ ',' :: (w3 ++ ix)

def forMidOK : Option (Chars × Chars × Chars) → Bool
  | none => true
  | some (w2, w3, ix) => allSpace w2 && allSpace w3 && isIdent ix

theorem forIdx_build (mid : Option (Chars × Chars × Chars)) (hm : forMidOK mid = true) {w4 : Chars}
    (hw4 : allSpace w4 = true) (hne4 : w4 ≠ []) (X : Chars) :
    forIdx (forMid mid ++ (w4 ++ ("in".toList ++ X))) = (mid.map (fun m => m.2.2), w4 ++ ("in".toList ++ X)) := by
  cases mid with
  | none =>
    simp only [forMid, List.nil_append, Option.map_none]
    unfold forIdx
    have : lstripL (w4 ++ ("in".toList ++ X)) = 'i' :: 'n' :: X := lstripL_ws_cons hw4 (by decide) _
    rw [this]
    split
    · rename_i heq; simp at heq
    · rfl
  | some m =>
    obtain ⟨w2, w3, ix⟩ := m
    simp only [forMidOK, Bool.and_eq_true] at hm
    obtain ⟨⟨h2, h3⟩, hix⟩ := hm
    obtain ⟨c, cs, rfl, hc, _⟩ := isIdent_head_ns hix
    simp only [forMid, Option.map_some]
    unfold forIdx
    have e1 : (w2 ++ ',' :: (w3 ++ c :: cs)) ++ (w4 ++ ("in".toList ++ X)) =
        w2 ++ ',' :: (w3 ++ c :: (cs ++ (w4 ++ ("in".toList ++ X)))) := by simp
    rw [e1, lstripL_ws_cons h2 (by decide)]
    simp only [lstripL_ws_cons h3 hc]
    have := ident?_ident (r := w4 ++ ("in".toList ++ X)) hix (noWordHead_ws hw4 hne4 _)
    simp only [List.cons_append] at this
    rw [this]

theorem for_pre_length (w1 v : Chars) (mid : Option (Chars × Chars × Chars)) (w4 w5 R : Chars) :
    ("for".toList ++ (w1 ++ (v ++ (forMid mid ++ (w4 ++ ("in".toList ++ (w5 ++ R))))))).length - (w5 ++ R).length + w5.length =
      ("for".toList ++ (w1 ++ (v ++ (forMid mid ++ (w4 ++ ("in".toList ++ w5)))))).length := by
  simp only [List.length_append]; omega

theorem shapeS_for {w1 v w4 w5 w6 : Chars} (mid : Option (Chars × Chars × Chars)) (d : Char) (e1 : Chars)
    (hw1 : allSpace w1 = true) (hne1 : w1 ≠ []) (hv : isIdent v = true) (hm : forMidOK mid = true)
    (hw4 : allSpace w4 = true) (hne4 : w4 ≠ []) (hw5 : allSpace w5 = true) (hne5 : w5 ≠ [])
    (hd : isSpace d = false) (hw6 : allSpace w6 = true) :
    shapeS ("for".toList ++ (w1 ++ (v ++ (forMid mid ++ (w4 ++ ("in".toList ++ (w5 ++ d :: e1 ++ ':' :: w6))))))) =
      .forBegin v (mid.map (fun m => m.2.2))
        ("for".toList ++ (w1 ++ (v ++ (forMid mid ++ (w4 ++ ("in".toList ++ w5)))))).length (d :: e1) := by
  obtain ⟨c, cs, rfl, hc, hcs⟩ := isIdent_head_ns hv
  have A : assign? ("for".toList ++ (w1 ++ (c :: cs ++ (forMid mid ++ (w4 ++ ("in".toList ++ (w5 ++ d :: e1 ++ ':' :: w6))))))) = none :=
    assign?_none_of (by decide) hw1 hc (idStart_ne hcs (by decide)) (Or.inl hne1) _
  have hnw : noWordHead (forMid mid ++ (w4 ++ ("in".toList ++ (w5 ++ d :: e1 ++ ':' :: w6)))) = true := by
    cases mid with
    | none => exact noWordHead_ws hw4 hne4 _
    | some m =>
      obtain ⟨w2, w3, ix⟩ := m
      simp only [forMidOK, Bool.and_eq_true] at hm
      simp only [forMid, List.append_assoc, List.cons_append]
      exact noWordHead_ws_cons hm.1.1 (by decide) _
  have F : for? ("for".toList ++ (w1 ++ (c :: cs ++ (forMid mid ++ (w4 ++ ("in".toList ++ (w5 ++ d :: e1 ++ ':' :: w6))))))) =
      some (.forBegin (c :: cs) (mid.map (fun m => m.2.2))
        ("for".toList ++ (w1 ++ (c :: cs ++ (forMid mid ++ (w4 ++ ("in".toList ++ w5)))))).length (d :: e1)) := by
    rw [for?_eq]
    simp only [keyword?_self, Option.bind_some, ws1?_ws hw1 hne1]
    have h1 : lstripL (c :: cs ++ (forMid mid ++ (w4 ++ ("in".toList ++ (w5 ++ d :: e1 ++ ':' :: w6))))) =
        c :: cs ++ (forMid mid ++ (w4 ++ ("in".toList ++ (w5 ++ d :: e1 ++ ':' :: w6)))) := lstripL_cons_ns hc _
    rw [h1, ident?_ident hv hnw]
    simp only [Option.bind_some, forIdx_build mid hm hw4 hne4]
    unfold forTail
    have h2 : lstripL ("in".toList ++ (w5 ++ d :: e1 ++ ':' :: w6)) = "in".toList ++ (w5 ++ d :: e1 ++ ':' :: w6) :=
      lstripL_cons_ns (by decide) _
    simp only [ws1?_ws hw4 hne4, Option.bind_some, h2, keyword?_self, exprColon?_build d e1 hw5 hne5 hd hw6,
      Option.map_some]
    have := for_pre_length w1 (c :: cs) mid w4 w5 (d :: e1 ++ ':' :: w6)
    simp only [List.append_assoc] at this ⊢
    rw [this]
  unfold shapeS
  rw [A, F]
  simp [funcBegin?, kwOnly?, kwExprColon?, else?, keyword?]

/-! ## assignment -/

theorem shapeS_assign {nm w1 w2 : Chars} (d : Char) (e1 : Chars) (hid : isIdent nm = true) (hw1 : allSpace w1 = true)
    (hw2 : allSpace w2 = true) (hd : isSpace d = false) :
    shapeS (nm ++ (w1 ++ '=' :: (w2 ++ d :: e1))) = .assign nm (nm ++ (w1 ++ '=' :: w2)).length (d :: e1) := by
  have hn : noWordHead (w1 ++ '=' :: (w2 ++ d :: e1)) = true := noWordHead_ws_cons hw1 (by decide) _
  have A : assign? (nm ++ (w1 ++ '=' :: (w2 ++ d :: e1))) = some (.assign nm (nm ++ (w1 ++ '=' :: w2)).length (d :: e1)) := by
    unfold assign?
    rw [ident?_ident hid hn]
    simp only [lstripL_ws_cons hw1 (show isSpace '=' = false by decide), lstripL_ws_cons hw2 hd]
    simp; omega
  unfold shapeS
  rw [A]; rfl

/-! ## `else` -/

theorem shapeS_else {w1 w2 : Chars} (hw1 : allSpace w1 = true) (hw2 : allSpace w2 = true) :
    shapeS ("else".toList ++ (w1 ++ ':' :: w2)) = .else_ := by
  have A : assign? ("else".toList ++ (w1 ++ ':' :: w2)) = none :=
    assign?_none_of (by decide) hw1 (by decide) (by decide) (Or.inr (by decide)) _
  have E : else? ("else".toList ++ (w1 ++ ':' :: w2)) = some .else_ := by
    unfold else?
    simp only [keyword?_self, lstripL_ws_cons hw1 (show isSpace ':' = false by decide), hw2, if_true]
  unfold shapeS
  rw [A, E]
  simp [funcBegin?, kwOnly?, kwExprColon?, keyword?]

/-! ## `include` -/

theorem shapeS_include {w1 w2 : Chars} (body : Chars) (hw1 : allSpace w1 = true) (hne : w1 ≠ [])
    (hq : quotesEscaped body = true) (hw2 : allSpace w2 = true) :
    shapeS ("include".toList ++ (w1 ++ '\'' :: (body ++ '\'' :: w2))) = .include (unescapeQuote body) false := by
  have hs : isSpace '\'' = false := by decide
  have A : assign? ("include".toList ++ (w1 ++ '\'' :: (body ++ '\'' :: w2))) = none :=
    assign?_none_of (by decide) hw1 hs (by decide) (Or.inl hne) _
  have L : label? ("include".toList ++ (w1 ++ '\'' :: (body ++ '\'' :: w2))) = none :=
    label?_none_of (by decide) hw1 hs (by decide) (Or.inl hne) _
  have I : include? ("include".toList ++ (w1 ++ '\'' :: (body ++ '\'' :: w2))) = some (.include (unescapeQuote body) false) := by
    unfold include?
    have hrev : (body ++ '\'' :: w2).reverse = w2.reverse ++ '\'' :: body.reverse := by simp
    have hw2r : ∀ a ∈ w2.reverse, isSpace a = true := by
      intro a ha; simp [allSpace] at hw2; exact hw2 a (by simpa using ha)
    simp only [keyword?_self, ws1?_ws hw1 hne, lstripL_cons_ns hs, hrev, List.dropWhile_append_of_pos hw2r]
    simp [hs, hq]
  unfold shapeS
  rw [A, L, I]
  simp [funcBegin?, kwOnly?, kwExprColon?, else?, for?, jump?, return?, keyword?]

theorem shapeS_include_system {w1 w2 : Chars} (url : Chars) (hw1 : allSpace w1 = true) (hne : w1 ≠ [])
    (hu : ∀ a ∈ url, a ≠ '>') (hw2 : allSpace w2 = true) :
    shapeS ("include".toList ++ (w1 ++ '<' :: (url ++ '>' :: w2))) = .include url true := by
  have hs : isSpace '<' = false := by decide
  have A : assign? ("include".toList ++ (w1 ++ '<' :: (url ++ '>' :: w2))) = none :=
    assign?_none_of (by decide) hw1 hs (by decide) (Or.inl hne) _
  have L : label? ("include".toList ++ (w1 ++ '<' :: (url ++ '>' :: w2))) = none :=
    label?_none_of (by decide) hw1 hs (by decide) (Or.inl hne) _
  have I : include? ("include".toList ++ (w1 ++ '<' :: (url ++ '>' :: w2))) = some (.include url true) := by
    unfold include?
    have hp : ∀ a ∈ url, (a != '>') = true := by intro a ha; simpa using hu a ha
    simp only [keyword?_self, ws1?_ws hw1 hne, lstripL_cons_ns hs, List.dropWhile_append_of_pos hp,
      List.takeWhile_append_of_pos hp]
    simp [hw2]
  unfold shapeS
  rw [A, L, I]
  simp [funcBegin?, kwOnly?, kwExprColon?, else?, for?, jump?, return?, keyword?]

/-! ## expression statements (the fallback of the cascade) -/

/-- the statement keywords (every pattern of the cascade except assignment and label starts with one of them) -/
def stmtKeywords : List String :=
  ["async", "function", "endfunction", "if", "elif", "else", "endif", "while", "endwhile", "for", "endfor", "break",
   "continue", "jump", "return", "include"]

/-- no statement keyword is a prefix of the text -/
def noKeywordPrefix (nm : Chars) : Bool := stmtKeywords.all (fun kw => !kw.toList.isPrefixOf nm)

theorem isPrefixOf_ident_paren : ∀ (kw nm : Chars) (x : Chars), (∀ c ∈ kw, c ≠ '(') →
    kw.isPrefixOf (nm ++ '(' :: x) = kw.isPrefixOf nm
  | [], _, _, _ => by simp
  | k :: ks, [], x, h => by
    have : k ≠ '(' := h k (by simp)
    simp [List.isPrefixOf, this]
  | k :: ks, c :: cs, x, h => by
    simp only [List.cons_append, List.isPrefixOf]
    rw [isPrefixOf_ident_paren ks cs x (fun c hc => h c (by simp [hc]))]

theorem shapeS_exprStmt_of_noKeyword (s : Chars) (hk : ∀ kw ∈ stmtKeywords, keyword? kw s = none)
    (ha : assign? s = none) (hl : label? s = none) : shapeS s = .exprStmt := by
  have k := fun kw (h : kw ∈ stmtKeywords) => hk kw h
  unfold shapeS
  simp [ha, hl, funcBegin?, kwOnly?, kwExprColon?, else?, for?, jump?, return?, include?,
    k "async" (by decide), k "function" (by decide), k "endfunction" (by decide), k "if" (by decide),
    k "elif" (by decide), k "else" (by decide), k "endif" (by decide), k "while" (by decide), k "endwhile" (by decide),
    k "for" (by decide), k "endfor" (by decide), k "break" (by decide), k "continue" (by decide), k "jump" (by decide),
    k "return" (by decide), k "include" (by decide)]

/-- a call `name(…` whose name does not begin with a statement keyword is an expression statement, whatever follows -/
theorem shapeS_call {nm : Chars} (x : Chars) (hid : isIdent nm = true) (hk : noKeywordPrefix nm = true) :
    shapeS (nm ++ '(' :: x) = .exprStmt := by
  have hp : isSpace '(' = false := by decide
  apply shapeS_exprStmt_of_noKeyword
  · intro kw hkw
    have h1 : kw.toList.isPrefixOf nm = false := by
      have := (List.all_eq_true.mp hk) kw hkw; simpa using this
    have h2 : ∀ c ∈ kw.toList, c ≠ '(' := by
      have : ∀ kw ∈ stmtKeywords, ∀ c ∈ kw.toList, c ≠ '(' := by decide
      exact this kw hkw
    unfold keyword?
    rw [isPrefixOf_ident_paren _ _ _ h2, h1]; rfl
  · exact assign?_none_of (w := []) hid rfl hp (by decide) (Or.inr (by decide)) _
  · exact label?_none_of (w := []) hid rfl hp (by decide) (Or.inr (by decide)) _

/-- a line that does not start with a letter or `_` is an expression statement -/
theorem shapeS_nonident (d : Char) (x : Chars) (hd : isIdStart d = false) : shapeS (d :: x) = .exprStmt := by
  apply shapeS_exprStmt_of_noKeyword
  · intro kw hkw
    have : ∃ k, kw.toList.head? = some k ∧ isIdStart k = true := by
      have : ∀ kw ∈ stmtKeywords, ∃ k, kw.toList.head? = some k ∧ isIdStart k = true := by decide
      exact this kw hkw
    obtain ⟨k, h1, h2⟩ := this
    exact keyword?_head_ne kw k d x h1 (by intro e; subst e; rw [h2] at hd; cases hd)
  · simp [assign?, ident?, hd]
  · simp [label?, ident?, hd]

/-! ## `function` headers -/

/-- `, name` items after the first parameter: (blanks before the comma, blanks after it, the name) -/
def renderItems : List (Chars × Chars × Chars) → Chars
  | [] => []
  | (wa, wb, a) :: t => wa ++ ',' :: (wb ++ (a ++ renderItems t))

def itemsOK : List (Chars × Chars × Chars) → Bool
  | [] => true
  | (wa, wb, a) :: t => allSpace wa && allSpace wb && isIdent a && itemsOK t

/-- the parameter list: nothing, or a first name and more items -/
def renderArgs : Option (Chars × List (Chars × Chars × Chars)) → Chars
  | none => []
  | some (a0, items) => a0 ++ renderItems items

def argsOK : Option (Chars × List (Chars × Chars × Chars)) → Bool
  | none => true
  | some (a0, items) => isIdent a0 && itemsOK items

def argNames : Option (Chars × List (Chars × Chars × Chars)) → List Chars
  | none => []
  | some (a0, items) => a0 :: items.map (fun m => m.2.2)

def dotsText (dots : Bool) : Chars := if dots then "...".toList else []

def asyncText : Option Chars → Chars
  | none => []
  | some w0 => "async".toList ++ w0

theorem renderItems_length (items : List (Chars × Chars × Chars)) : items.length ≤ (renderItems items).length := by
  induction items with
  | nil => simp
  | cons m t ih => obtain ⟨wa, wb, a⟩ := m; simp [renderItems]; omega

theorem noWordHead_renderItems (items : List (Chars × Chars × Chars)) (h : itemsOK items = true) {R : Chars}
    (hR : noWordHead R = true) : noWordHead (renderItems items ++ R) = true := by
  cases items with
  | nil => simpa [renderItems] using hR
  | cons m t =>
    obtain ⟨wa, wb, a⟩ := m
    simp only [itemsOK, Bool.and_eq_true] at h
    simp only [renderItems, List.append_assoc, List.cons_append]
    exact noWordHead_ws_cons h.1.1.1 (by decide) _

theorem argsLoop_build : ∀ (items : List (Chars × Chars × Chars)) (n : Nat) (R : Chars), items.length ≤ n →
    itemsOK items = true → noWordHead R = true → (∀ r, lstripL R ≠ ',' :: r) →
    Scan.argsLoop n (renderItems items ++ R) = (items.map (fun m => m.2.2), R)
  | [], 0, R, _, _, _, _ => by simp [Scan.argsLoop, renderItems]
  | [], n + 1, R, _, _, _, hc => by
    simp only [renderItems, List.nil_append, Scan.argsLoop, List.map_nil]
  | m :: t, 0, R, hl, _, _, _ => by simp at hl
  | (wa, wb, a) :: t, n + 1, R, hl, hok, hR, hc => by
    simp only [itemsOK, Bool.and_eq_true] at hok
    obtain ⟨⟨⟨ha, hb⟩, hid⟩, ht⟩ := hok
    obtain ⟨c, cs, rfl, hcn, _⟩ := isIdent_head_ns hid
    have e1 : renderItems ((wa, wb, c :: cs) :: t) ++ R = wa ++ ',' :: (wb ++ c :: (cs ++ (renderItems t ++ R))) := by
      simp [renderItems]
    have ih := argsLoop_build t n R (by simpa using hl) ht hR hc
    have hi := ident?_ident (r := renderItems t ++ R) hid (noWordHead_renderItems t ht hR)
    simp only [List.cons_append] at hi
    rw [e1]
    simp only [Scan.argsLoop, lstripL_ws_cons ha (show isSpace ',' = false by decide), lstripL_ws_cons hb hcn, hi, ih,
      List.map_cons]

/-- what stands after the parameter names: `blanks [...] blanks ) blanks : blanks` -/
def fnTail (w6 w7 : Chars) : Chars := ')' :: (w6 ++ ':' :: w7)

theorem fnDots_build {Z w5 w6 w7 : Chars} (dots : Bool) (hw5 : allSpace w5 = true)
    (hZ : lstripL Z = dotsText dots ++ (if dots then w5 ++ fnTail w6 w7 else fnTail w6 w7)) :
    (fnDots Z).1 = dots ∧ lstripL (fnDots Z).2 = fnTail w6 w7 := by
  unfold fnDots
  rw [hZ]
  cases dots with
  | true =>
    simp only [dotsText, if_true, keyword?_self]
    exact ⟨trivial, lstripL_ws_cons hw5 (by decide) _⟩
  | false =>
    simp only [dotsText, Bool.false_eq_true, if_false, List.nil_append]
    have : keyword? "..." (fnTail w6 w7) = none := by simp [fnTail, keyword?]
    rw [this]
    exact ⟨rfl, hZ.trans (by simp [dotsText])⟩

theorem fnClose_build {Z w6 w7 : Chars} (name : Chars) (args : List Chars) (laa isAsync : Bool)
    (hw6 : allSpace w6 = true) (hw7 : allSpace w7 = true) (hZ : lstripL Z = fnTail w6 w7) :
    fnClose name args laa isAsync Z = some (.funcBegin name args laa isAsync) := by
  unfold fnClose
  rw [hZ]
  simp only [fnTail, lstripL_ws_cons hw6 (show isSpace ':' = false by decide), hw7, if_true]

/-- the text of a `function` header after the name -/
def fnRest (w2 w3 : Chars) (args : Option (Chars × List (Chars × Chars × Chars))) (w4 : Chars) (dots : Bool)
    (w5 w6 w7 : Chars) : Chars :=
  w2 ++ '(' :: (w3 ++ (renderArgs args ++ (w4 ++ (dotsText dots ++ (w5 ++ fnTail w6 w7)))))

theorem lstripL_dots {w4 w5 w6 w7 : Chars} (dots : Bool) (hw4 : allSpace w4 = true) (hw5 : allSpace w5 = true) :
    lstripL (w4 ++ (dotsText dots ++ (w5 ++ fnTail w6 w7))) =
      dotsText dots ++ (if dots then w5 ++ fnTail w6 w7 else fnTail w6 w7) := by
  cases dots with
  | true => simp only [dotsText, if_true]; exact lstripL_ws_cons hw4 (by decide) _
  | false =>
    simp only [dotsText, Bool.false_eq_true, if_false, List.nil_append]
    rw [lstrip_append_ws _ hw4]; exact lstripL_ws_cons hw5 (by decide) _

theorem fnAfterName_build {w2 w3 w4 w5 w6 w7 : Chars} (name : Chars) (args : Option (Chars × List (Chars × Chars × Chars)))
    (dots isAsync : Bool) (hw2 : allSpace w2 = true) (hw3 : allSpace w3 = true) (ha : argsOK args = true)
    (hw4 : allSpace w4 = true) (hw5 : allSpace w5 = true) (hw6 : allSpace w6 = true) (hw7 : allSpace w7 = true) :
    ((fnOpen (fnRest w2 w3 args w4 dots w5 w6 w7)).bind fun r =>
      fnClose name (fnArgs r).1 (fnDots (fnArgs r).2).1 isAsync (fnDots (fnArgs r).2).2) =
      some (.funcBegin name (argNames args) dots isAsync) := by
  have hO : fnOpen (fnRest w2 w3 args w4 dots w5 w6 w7) =
      some (lstripL (renderArgs args ++ (w4 ++ (dotsText dots ++ (w5 ++ fnTail w6 w7))))) := by
    unfold fnOpen fnRest
    simp only [lstripL_ws_cons hw2 (show isSpace '(' = false by decide), lstrip_append_ws _ hw3]
  rw [hO]
  simp only [Option.bind_some]
  have hD := lstripL_dots (w6 := w6) (w7 := w7) dots hw4 hw5
  cases args with
  | none =>
    simp only [renderArgs, List.nil_append, argNames]
    generalize hy : lstripL (w4 ++ (dotsText dots ++ (w5 ++ fnTail w6 w7))) = y at hD ⊢
    have hyy : lstripL y = y := by rw [← hy]; exact dropWhile_idem _ _
    have hA : fnArgs y = ([], y) := by
      unfold fnArgs
      have : ident? y = none := by
        rw [hD]; cases dots <;> simp [dotsText, fnTail, ident?, isIdStart]
      rw [this]
    rw [hA]
    obtain ⟨d1, d2⟩ := fnDots_build (Z := y) (w6 := w6) (w7 := w7) dots hw5 (hyy.trans hD)
    simp only [d1]
    exact fnClose_build name [] dots isAsync hw6 hw7 d2
  | some p =>
    obtain ⟨a0, items⟩ := p
    simp only [argsOK, Bool.and_eq_true] at ha
    obtain ⟨c, cs, rfl, hcn, _⟩ := isIdent_head_ns ha.1
    simp only [renderArgs, argNames, List.append_assoc]
    have hR : noWordHead (w4 ++ (dotsText dots ++ (w5 ++ fnTail w6 w7))) = true := by
      cases w4 with
      | cons x xs => exact noWordHead_ws hw4 (by simp) _
      | nil =>
        cases dots with
        | true => simp [dotsText, noWordHead, isWord, isWordN]
        | false =>
          simp only [dotsText, Bool.false_eq_true, if_false, List.nil_append]
          exact noWordHead_ws_cons hw5 (by decide) _
    have hcomma : ∀ r, lstripL (w4 ++ (dotsText dots ++ (w5 ++ fnTail w6 w7))) ≠ ',' :: r := by
      intro r; rw [hD]; cases dots <;> simp [dotsText, fnTail]
    have hstrip : lstripL (c :: cs ++ (renderItems items ++ (w4 ++ (dotsText dots ++ (w5 ++ fnTail w6 w7))))) =
        c :: cs ++ (renderItems items ++ (w4 ++ (dotsText dots ++ (w5 ++ fnTail w6 w7)))) := lstripL_cons_ns hcn _
    rw [hstrip]
    have hA : fnArgs (c :: cs ++ (renderItems items ++ (w4 ++ (dotsText dots ++ (w5 ++ fnTail w6 w7))))) =
        ((c :: cs) :: items.map (fun m => m.2.2), w4 ++ (dotsText dots ++ (w5 ++ fnTail w6 w7))) := by
      unfold fnArgs
      rw [ident?_ident ha.1 (noWordHead_renderItems items ha.2 hR)]
      simp only
      rw [argsLoop_build items _ _ (by have := renderItems_length items; simp only [List.length_append]; omega) ha.2 hR hcomma]
    rw [hA]
    obtain ⟨d1, d2⟩ := fnDots_build (Z := w4 ++ (dotsText dots ++ (w5 ++ fnTail w6 w7))) (w6 := w6) (w7 := w7) dots hw5 hD
    simp only [d1]
    exact fnClose_build _ _ dots isAsync hw6 hw7 d2

/-- the function-header pattern on `[async blanks] function blanks name blanks ( blanks params blanks [...] blanks ) blanks : blanks` -/
theorem shapeS_function {w1 nm w2 w3 w4 w5 w6 w7 : Chars} (asy : Option Chars)
    (args : Option (Chars × List (Chars × Chars × Chars))) (dots : Bool)
    (hasy : ∀ w0, asy = some w0 → allSpace w0 = true) (hw1 : allSpace w1 = true) (hne1 : w1 ≠ [])
    (hid : isIdent nm = true) (hw2 : allSpace w2 = true) (hw3 : allSpace w3 = true) (ha : argsOK args = true)
    (hw4 : allSpace w4 = true) (hw5 : allSpace w5 = true) (hw6 : allSpace w6 = true) (hw7 : allSpace w7 = true) :
    shapeS (asyncText asy ++ ("function".toList ++ (w1 ++ (nm ++ fnRest w2 w3 args w4 dots w5 w6 w7)))) =
      .funcBegin nm (argNames args) dots asy.isSome := by
  obtain ⟨c, cs, rfl, hcn, hcs⟩ := isIdent_head_ns hid
  have hnw : noWordHead (fnRest w2 w3 args w4 dots w5 w6 w7) = true := by
    unfold fnRest; exact noWordHead_ws_cons hw2 (by decide) _
  have hstrip : ∀ X, lstripL (c :: cs ++ X) = c :: cs ++ X := fun X => lstripL_cons_ns hcn _
  have core : ∀ isAsync, ((keyword? "function" ("function".toList ++ (w1 ++ (c :: cs ++ fnRest w2 w3 args w4 dots w5 w6 w7)))).bind
      fun r => (ws1? r).bind fun r => (ident? r).bind fun p => (fnOpen p.2).bind fun r =>
        fnClose p.1 (fnArgs r).1 (fnDots (fnArgs r).2).1 isAsync (fnDots (fnArgs r).2).2) =
      some (.funcBegin (c :: cs) (argNames args) dots isAsync) := by
    intro isAsync
    simp only [keyword?_self, Option.bind_some, ws1?_ws hw1 hne1, hstrip, ident?_ident hid hnw]
    exact fnAfterName_build (c :: cs) args dots isAsync hw2 hw3 ha hw4 hw5 hw6 hw7
  cases asy with
  | none =>
    have A : assign? ("function".toList ++ (w1 ++ (c :: cs ++ fnRest w2 w3 args w4 dots w5 w6 w7))) = none :=
      assign?_none_of (by decide) hw1 hcn (idStart_ne hcs (by decide)) (Or.inl hne1) _
    have F : funcBegin? ("function".toList ++ (w1 ++ (c :: cs ++ fnRest w2 w3 args w4 dots w5 w6 w7))) =
        some (.funcBegin (c :: cs) (argNames args) dots false) := by
      rw [funcBegin?_eq]
      have : fnAsync ("function".toList ++ (w1 ++ (c :: cs ++ fnRest w2 w3 args w4 dots w5 w6 w7))) =
          (false, "function".toList ++ (w1 ++ (c :: cs ++ fnRest w2 w3 args w4 dots w5 w6 w7))) := by
        simp [fnAsync, keyword?]
      rw [this]
      exact core false
    simp only [asyncText, List.nil_append, Option.isSome_none]
    unfold shapeS
    rw [A, F]; rfl
  | some w0 =>
    have hw0 := hasy w0 rfl
    have A : assign? ("async".toList ++ w0 ++ ("function".toList ++ (w1 ++ (c :: cs ++ fnRest w2 w3 args w4 dots w5 w6 w7)))) = none := by
      cases w0 with
      | nil =>
        have : "async".toList ++ [] ++ ("function".toList ++ (w1 ++ (c :: cs ++ fnRest w2 w3 args w4 dots w5 w6 w7))) =
            "asyncfunction".toList ++ (w1 ++ (c :: cs ++ fnRest w2 w3 args w4 dots w5 w6 w7)) := by simp
        rw [this]
        exact assign?_none_of (by decide) hw1 hcn (idStart_ne hcs (by decide)) (Or.inl hne1) _
      | cons x xs =>
        rw [List.append_assoc]
        exact assign?_none_of (d := 'f') (by decide) hw0 (by decide) (by decide) (Or.inl (by simp)) _
    have F : funcBegin? ("async".toList ++ w0 ++ ("function".toList ++ (w1 ++ (c :: cs ++ fnRest w2 w3 args w4 dots w5 w6 w7)))) =
        some (.funcBegin (c :: cs) (argNames args) dots true) := by
      rw [funcBegin?_eq]
      have : fnAsync ("async".toList ++ w0 ++ ("function".toList ++ (w1 ++ (c :: cs ++ fnRest w2 w3 args w4 dots w5 w6 w7)))) =
          (true, "function".toList ++ (w1 ++ (c :: cs ++ fnRest w2 w3 args w4 dots w5 w6 w7))) := by
        unfold fnAsync
        rw [List.append_assoc, keyword?_self]
        simp only [Prod.mk.injEq, true_and]
        exact lstripL_ws_cons hw0 (by decide) _
      rw [this]
      exact core true
    simp only [asyncText, Option.isSome_some]
    unfold shapeS
    rw [A, F]; rfl

end C10
