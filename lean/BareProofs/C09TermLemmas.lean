import BareProofs.C09Good
import BareProofs.C09Fuel

/-!
# C09Term, lemma file — well-founded hosts: the invariant and the termination induction

`HostWF host` is the explicit hypothesis under which "no script can run forever" is a theorem of the model:

* a predicate `ok w v` ("value `v` is admissible in world `w`") that is monotone along a preorder `E` on worlds, a world
  invariant `okW`, and a rank `rank w f args : Nat` of every *call* of a host callable;
* every host operation preserves the invariant and returns admissible values (`TreeWF`, the `newArray`/`binop`/… laws);
* every call-back node `.call f' args' w' k` of the interaction tree of a call `f(args)` started in world `w` calls back
  a script function, a non-callable, or a host callable with `rank w' f' args' < rank w f args`.

Part 1 (`presM`): the machine preserves the invariant (for every fuel).  Part 2 (`termM`): with a positive statement
limit every run from an admissible state ends with some fuel — outer induction on the remaining budget
`maxStatements - count`, then on the rank of a call, then on the structure of the interaction tree / the expression.
Everything on the cache-free machine (`execM₀`); `C09Term` transfers to `execM`/`execute`.
-/

open Machine
namespace C09
variable {W : Type}

/-! ## the hypothesis -/

/-- rank of a call as seen from a call-back node: host callables count `rank + 1`, everything else (script functions,
non-callables) `0` — so `callRank … ≤ r` says "script function, non-callable, or host callable of rank `< r + 1`" -/
def callRank (rank : W → FnVal → List Value → Nat) (w : W) (f : Value) (args : List Value) : Nat :=
  match f with
  | .fn (.lib n) => rank w (.lib n) args + 1
  | .fn (.other k) => rank w (.other k) args + 1
  | _ => 0

/-- the value a library outcome hands to the script, if any -/
def _root_.Machine.LibOut.val? : LibOut → Option Value
  | .ok v => some v
  | .fail v => some v
  | .rt _ => none

/-- the data of a well-foundedness argument for a host -/
structure WFData (W : Type) where
  /-- how worlds evolve (admissible values stay admissible along it) -/
  E : Ext W
  /-- `v` is admissible in world `w` -/
  ok : W → Value → Prop
  /-- world invariant -/
  okW : W → Prop
  /-- rank of the call `f(args)` of a host callable `f` in world `w` -/
  rank : W → FnVal → List Value → Nat

/-- an interaction tree started in (a world extending) `w0` keeps the invariant, hands out admissible values only, and
every call-back it issues has call rank `≤ r` -/
inductive TreeWF (D : WFData W) (r : Nat) : W → LibTree W → Prop where
  | ret {w0 w out} : D.E.le w0 w → D.okW w → (∀ v, out.val? = some v → D.ok w v) → TreeWF D r w0 (.ret out w)
  | call {w0 w f args k} : D.E.le w0 w → D.okW w → D.ok w f → (∀ a ∈ args, D.ok w a) →
      callRank D.rank w f args ≤ r →
      (∀ v w1, D.E.le w w1 → D.okW w1 → D.ok w1 v → TreeWF D r w1 (k v w1)) → TreeWF D r w0 (.call f args w k)
  | globalGet {w0 w n k} : D.E.le w0 w → D.okW w →
      (∀ (v : Option Value) w1, D.E.le w w1 → D.okW w1 → (∀ x, v = some x → D.ok w1 x) → TreeWF D r w1 (k v w1)) →
      TreeWF D r w0 (.globalGet n w k)
  | globalSet {w0 w n v k} : D.E.le w0 w → D.okW w → D.ok w v →
      (∀ w1, D.E.le w w1 → D.okW w1 → TreeWF D r w1 (k w1)) → TreeWF D r w0 (.globalSet n v w k)

/-- **HostWF.** The host's call-backs are well-founded on the admissible part of the state space. -/
structure HostWF (host : Host W) extends WFData W where
  ok_mono : ∀ {w w' v}, E.le w w' → ok w v → ok w' v
  ok_null : ∀ w, ok w .null
  ok_bool : ∀ w b, ok w (.bool b)
  ok_num : ∀ w q, ok w (.num q)
  ok_str : ∀ w s, ok w (.str s)
  ok_script : ∀ w id, ok w (.fn (.script id))
  ok_builtin : ∀ w n f, host.builtin n = some f → ok w (.fn f)
  binop_ok : ∀ op a b w, okW w → ok w a → ok w b → ok w (host.binop op a b w)
  neg_ok : ∀ v w, ok w v → ok w (host.neg v)
  notCallable_ok : ∀ v w, okW w → E.le w (host.notCallable v w) ∧ okW (host.notCallable v w)
  logFailure_ok : ∀ w, okW w → E.le w (host.logFailure w) ∧ okW (host.logFailure w)
  newArray_ok : ∀ xs w, okW w → (∀ x ∈ xs, ok w x) →
      E.le w (host.newArray xs w).2 ∧ okW (host.newArray xs w).2 ∧ ok (host.newArray xs w).2 (host.newArray xs w).1
  /-- the tree of an *admissible* library function called with admissible arguments -/
  lib_wf : ∀ name args w, okW w → ok w (.fn (.lib name)) → (∀ a ∈ args, ok w a) →
      TreeWF toWFData (rank w (.lib name) args) w (host.lib name args w)
  /-- the tree of an *admissible* other host callable called with admissible arguments -/
  other_wf : ∀ k args w, okW w → ok w (.fn (.other k)) → (∀ a ∈ args, ok w a) →
      TreeWF toWFData (rank w (.other k) args) w (host.other k args w)

/-! ## environments -/

theorem Env.mem_set {e : Env} {n : Name} {v : Value} {p : Name × Value} (h : p ∈ Env.set e n v) : p.2 = v ∨ p ∈ e := by
  induction e with
  | nil => simp only [Env.set, List.mem_singleton] at h; left; rw [h]
  | cons x rest ih =>
    obtain ⟨k, x⟩ := x
    simp only [Env.set] at h
    split at h
    · rcases List.mem_cons.1 h with h | h
      · left; rw [h]
      · right; exact List.mem_cons_of_mem _ h
    · rcases List.mem_cons.1 h with h | h
      · right; rw [h]; exact List.mem_cons_self
      · rcases ih h with h | h
        · left; exact h
        · right; exact List.mem_cons_of_mem _ h

theorem Env.get?_mem {e : Env} {n : Name} {v : Value} (h : Env.get? e n = some v) : ∃ p ∈ e, p.2 = v := by
  unfold Env.get? at h
  cases hf : e.find? (·.1 == n) with
  | none => rw [hf] at h; cases h
  | some p =>
    rw [hf] at h
    simp only [Option.map_some, Option.some.injEq] at h
    exact ⟨p, List.mem_of_find?_eq_some hf, h⟩

/-! ## Part 1: the machine preserves the invariant -/

section PresDefs
variable {host : Host W} (H : HostWF host)

/-- the state is admissible: world invariant, and every global holds an admissible value -/
def SOK (st : State W) : Prop := H.okW st.world ∧ ∀ p ∈ st.globals, H.ok st.world p.2

/-- the locals (if any) hold admissible values -/
def LOK (w : W) (locals : Option Env) : Prop := ∀ l, locals = some l → ∀ p ∈ l, H.ok w p.2

/-- `st'` is a later admissible state: counter not decreased, world extended -/
def Adv (st st' : State W) : Prop := st.count ≤ st'.count ∧ H.E.le st.world st'.world ∧ SOK H st'

theorem Adv.refl {st : State W} (h : SOK H st) : Adv H st st := ⟨Nat.le_refl _, H.E.refl _, h⟩
theorem Adv.trans {a b c : State W} (h1 : Adv H a b) (h2 : Adv H b c) : Adv H a c :=
  ⟨Nat.le_trans h1.1 h2.1, H.E.trans h1.2.1 h2.2.1, h2.2.2⟩

theorem LOK.mono {w w' : W} {locals : Option Env} (h : LOK H w locals) (hle : H.E.le w w') : LOK H w' locals :=
  fun l hl p hp => H.ok_mono hle (h l hl p hp)

def OutOK (st : State W) : Out W → Prop
  | .ok v st' => Adv H st st' ∧ H.ok st'.world v
  | _ => True

def ArgsAdm (st : State W) : ArgsOut W → Prop
  | .ok vs st' => Adv H st st' ∧ ∀ v ∈ vs, H.ok st'.world v
  | _ => True

def ResOK (st : State W) : Res W → Prop
  | .done st' => Adv H st st'
  | .ret v st' => Adv H st st' ∧ H.ok st'.world v
  | _ => True

theorem OutOK.trans {a b : State W} {o : Out W} (h1 : Adv H a b) (h2 : OutOK H b o) : OutOK H a o := by
  cases o with
  | ok v s => exact ⟨h1.trans H h2.1, h2.2⟩
  | err e s => trivial
  | oof => trivial

theorem ResOK.trans {a b : State W} {o : Res W} (h1 : Adv H a b) (h2 : ResOK H b o) : ResOK H a o := by
  cases o with
  | done s => exact h1.trans H h2
  | ret v s => exact ⟨h1.trans H h2.1, h2.2⟩
  | err e s => trivial
  | oof => trivial

/-- calls from admissible states with admissible function value and arguments give admissible results -/
def CallPres (call : CallFn W) : Prop :=
  ∀ f args st, SOK H st → H.ok st.world f → (∀ a ∈ args, H.ok st.world a) → OutOK H st (call f args st)

/-- an admissible state stays admissible when the world is replaced by an extension that satisfies the invariant -/
theorem SOK.setWorld {st : State W} (hs : SOK H st) {w : W} (hle : H.E.le st.world w) (hw : H.okW w) :
    SOK H { st with world := w } := ⟨hw, fun p hp => H.ok_mono hle (hs.2 p hp)⟩

end PresDefs

section Pres
variable {cfg : Config W} (H : HostWF cfg.host)

theorem lookupVar_ok {locals : Option Env} {st : State W} (hs : SOK H st) (hl : LOK H st.world locals) (n : Name) :
    H.ok st.world (lookupVar locals st.globals n) := by
  have hg : H.ok st.world ((Env.get? st.globals n).getD .null) := by
    cases h : Env.get? st.globals n with
    | none => exact H.ok_null _
    | some v => obtain ⟨p, hp, rfl⟩ := Env.get?_mem h; exact hs.2 p hp
  unfold lookupVar
  cases locals with
  | none => exact hg
  | some l =>
    simp only
    split
    · cases h : Env.get? l n with
      | none => exact H.ok_null _
      | some v => obtain ⟨p, hp, rfl⟩ := Env.get?_mem h; exact hl l rfl p hp
    · exact hg

theorem lookupFunc_ok {locals : Option Env} {st : State W} (hs : SOK H st) (hl : LOK H st.world locals) (n : Name)
    (fv : Value) (h : lookupFunc cfg locals st.globals n = some fv) : H.ok st.world fv := by
  have hg : ∀ fv, (if Env.contains st.globals n then Env.get? st.globals n
      else if cfg.builtins then (cfg.host.builtin n).map Value.fn else none) = some fv → H.ok st.world fv := by
    intro fv h
    split at h
    · obtain ⟨p, hp, rfl⟩ := Env.get?_mem h; exact hs.2 p hp
    · split at h
      · cases hb : cfg.host.builtin n with
        | none => rw [hb] at h; cases h
        | some f =>
          rw [hb] at h
          simp only [Option.map_some, Option.some.injEq] at h
          rw [← h]; exact H.ok_builtin _ n f hb
      · cases h
  unfold lookupFunc at h
  cases locals with
  | none => exact hg fv h
  | some l =>
    simp only at h
    split at h
    · obtain ⟨p, hp, rfl⟩ := Env.get?_mem h; exact hl l rfl p hp
    · exact hg fv h

section Eval
set_option linter.unusedSectionVars false
variable (call : CallFn W) (hc : CallPres H call) (locals : Option Env)
include hc

mutual
theorem evalExpr_pres : ∀ (e : Expr) (st : State W), SOK H st → LOK H st.world locals →
    OutOK H st (evalExpr cfg call locals e st)
  | .number q, st, hs, _ => by simp only [evalExpr]; exact ⟨Adv.refl H hs, H.ok_num _ _⟩
  | .string s, st, hs, _ => by simp only [evalExpr]; exact ⟨Adv.refl H hs, H.ok_str _ _⟩
  | .variable n, st, hs, hl => by
      simp only [evalExpr]
      split
      · exact ⟨Adv.refl H hs, H.ok_null _⟩
      · split
        · exact ⟨Adv.refl H hs, H.ok_bool _ _⟩
        · split
          · exact ⟨Adv.refl H hs, H.ok_bool _ _⟩
          · exact ⟨Adv.refl H hs, lookupVar_ok H hs hl n⟩
  | .function n args, st, hs, hl => by
      simp only [evalExpr]
      split
      · exact evalIf_pres args st hs hl
      · have ih := evalArgs_pres args st hs hl
        generalize evalArgs cfg call locals args st = r at ih
        cases r with
        | err e st1 => trivial
        | oof => trivial
        | ok vs st1 =>
          simp only
          split
          · trivial
          · next fv _ hfv =>
            exact OutOK.trans H ih.1
              (hc _ _ _ ih.1.2.2 (lookupFunc_ok H ih.1.2.2 (hl.mono H ih.1.2.1) n _ hfv) ih.2)
          · trivial
  | .binary op l r, st, hs, hl => by
      have ih1 := evalExpr_pres l st hs hl
      cases op <;> simp only [evalExpr] <;> generalize evalExpr cfg call locals l st = r1 at ih1 <;>
        cases r1 with
        | err e st1 => trivial
        | oof => trivial
        | ok lv st1 =>
          simp only
          have ih2 := evalExpr_pres r st1 ih1.1.2.2 (hl.mono H ih1.1.2.1)
          first
          | (split
             · exact OutOK.trans H ih1.1 ih2
             · exact ih1)
          | (split
             · exact ih1
             · exact OutOK.trans H ih1.1 ih2)
          | (generalize evalExpr cfg call locals r st1 = r2 at ih2
             cases r2 with
             | err e st2 => trivial
             | oof => trivial
             | ok rv st2 =>
               exact ⟨ih1.1.trans H ih2.1, H.binop_ok _ _ _ _ ih2.1.2.2.1 (H.ok_mono ih2.1.2.1 ih1.2) ih2.2⟩)
  | .unary op e, st, hs, hl => by
      have ih := evalExpr_pres e st hs hl
      cases op <;> simp only [evalExpr] <;> generalize evalExpr cfg call locals e st = r at ih <;>
        cases r with
        | err e st1 => trivial
        | oof => trivial
        | ok v st1 => first | exact ⟨ih.1, H.ok_bool _ _⟩ | exact ⟨ih.1, H.neg_ok _ _ ih.2⟩
  | .group e, st, hs, hl => by simp only [evalExpr]; exact evalExpr_pres e st hs hl

theorem evalArgs_pres : ∀ (es : List Expr) (st : State W), SOK H st → LOK H st.world locals →
    ArgsAdm H st (evalArgs cfg call locals es st)
  | [], st, hs, _ => by simp only [evalArgs]; exact ⟨Adv.refl H hs, fun _ h => by cases h⟩
  | a :: as, st, hs, hl => by
      simp only [evalArgs]
      have ih1 := evalExpr_pres a st hs hl
      generalize evalExpr cfg call locals a st = r1 at ih1
      cases r1 with
      | err e st1 => trivial
      | oof => trivial
      | ok v st1 =>
        simp only
        have ih2 := evalArgs_pres as st1 ih1.1.2.2 (hl.mono H ih1.1.2.1)
        generalize evalArgs cfg call locals as st1 = r2 at ih2
        cases r2 with
        | err e st2 => trivial
        | oof => trivial
        | ok vs st2 =>
          refine ⟨ih1.1.trans H ih2.1, fun x hx => ?_⟩
          rcases List.mem_cons.1 hx with rfl | hx
          · exact H.ok_mono ih2.1.2.1 ih1.2
          · exact ih2.2 x hx

theorem evalIf_pres : ∀ (es : List Expr) (st : State W), SOK H st → LOK H st.world locals →
    OutOK H st (evalIf cfg call locals es st)
  | [], st, hs, _ => by simp only [evalIf]; exact ⟨Adv.refl H hs, H.ok_null _⟩
  | [c], st, hs, hl => by
      simp only [evalIf]
      have ih1 := evalExpr_pres c st hs hl
      generalize evalExpr cfg call locals c st = r1 at ih1
      cases r1 with
      | err e st1 => trivial
      | oof => trivial
      | ok v st1 => exact ⟨ih1.1, H.ok_null _⟩
  | [c, t], st, hs, hl => by
      simp only [evalIf]
      have ih1 := evalExpr_pres c st hs hl
      generalize evalExpr cfg call locals c st = r1 at ih1
      cases r1 with
      | err e st1 => trivial
      | oof => trivial
      | ok v st1 =>
        simp only
        split
        · exact OutOK.trans H ih1.1 (evalExpr_pres t st1 ih1.1.2.2 (hl.mono H ih1.1.2.1))
        · exact ⟨ih1.1, H.ok_null _⟩
  | c :: t :: f :: _, st, hs, hl => by
      simp only [evalIf]
      have ih1 := evalExpr_pres c st hs hl
      generalize evalExpr cfg call locals c st = r1 at ih1
      cases r1 with
      | err e st1 => trivial
      | oof => trivial
      | ok v st1 =>
        simp only
        split
        · exact OutOK.trans H ih1.1 (evalExpr_pres t st1 ih1.1.2.2 (hl.mono H ih1.1.2.1))
        · exact OutOK.trans H ih1.1 (evalExpr_pres f st1 ih1.1.2.2 (hl.mono H ih1.1.2.1))
end

theorem runTree_pres {r : Nat} : ∀ (t : LibTree W) (st : State W), SOK H st → TreeWF H.toWFData r st.world t →
    OutOK H st (runTree cfg call t st)
  | .ret (.ok v) w, st, hs, h => by
      cases h with | ret hle hw hv =>
      simp only [runTree]
      exact ⟨⟨Nat.le_refl _, hle, hs.setWorld H hle hw⟩, hv v rfl⟩
  | .ret (.fail v) w, st, hs, h => by
      cases h with | ret hle hw hv =>
      simp only [runTree]
      split
      · have hlf := H.logFailure_ok w hw
        exact ⟨⟨Nat.le_refl _, H.E.trans hle hlf.1, hs.setWorld H (H.E.trans hle hlf.1) hlf.2⟩, H.ok_mono hlf.1 (hv v rfl)⟩
      · exact ⟨⟨Nat.le_refl _, hle, hs.setWorld H hle hw⟩, hv v rfl⟩
  | .ret (.rt msg) w, st, hs, h => by simp only [runTree]; trivial
  | .call f args w k, st, hs, h => by
      cases h with | call hle hw hf ha _ hk =>
      simp only [runTree]
      have h0 : Adv H st { st with world := w } := ⟨Nat.le_refl _, hle, hs.setWorld H hle hw⟩
      have h1 := hc f args { st with world := w } h0.2.2 hf ha
      generalize call f args { st with world := w } = r1 at h1
      cases r1 with
      | err e st1 => trivial
      | oof => trivial
      | ok v st1 =>
        simp only
        exact OutOK.trans H (h0.trans H h1.1)
          (runTree_pres (k v st1.world) st1 h1.1.2.2 (hk v st1.world h1.1.2.1 h1.1.2.2.1 h1.2))
  | .globalGet n w k, st, hs, h => by
      cases h with | globalGet hle hw hk =>
      simp only [runTree]
      have h0 : Adv H st { st with world := w } := ⟨Nat.le_refl _, hle, hs.setWorld H hle hw⟩
      refine OutOK.trans H h0 (runTree_pres (k (Env.get? st.globals n) w) { st with world := w } h0.2.2
        (hk _ w (H.E.refl w) hw ?_))
      intro x hx
      obtain ⟨p, hp, rfl⟩ := Env.get?_mem hx
      exact H.ok_mono hle (hs.2 p hp)
  | .globalSet n v w k, st, hs, h => by
      cases h with | globalSet hle hw hv hk =>
      simp only [runTree]
      have hs' : SOK H { st with globals := Env.set st.globals n v, world := w } := by
        refine ⟨hw, fun p hp => ?_⟩
        rcases Env.mem_set hp with h | h
        · rw [h]; exact hv
        · exact H.ok_mono hle (hs.2 p h)
      have h0 : Adv H st { st with globals := Env.set st.globals n v, world := w } := ⟨Nat.le_refl _, hle, hs'⟩
      exact OutOK.trans H h0 (runTree_pres (k w) _ hs' (hk w (H.E.refl w) hw))
end Eval

theorem bindArgs_pres (laa : Bool) : ∀ (ps : List Name) (as : List Value) (env : Env) (w : W),
    H.okW w → (∀ a ∈ as, H.ok w a) → (∀ p ∈ env, H.ok w p.2) →
    H.E.le w (bindArgs cfg.host laa ps as env w).2 ∧ H.okW (bindArgs cfg.host laa ps as env w).2 ∧
      ∀ p ∈ (bindArgs cfg.host laa ps as env w).1, H.ok (bindArgs cfg.host laa ps as env w).2 p.2
  | [], _, env, w, hw, _, he => by simp only [bindArgs]; exact ⟨H.E.refl _, hw, he⟩
  | [p], as, env, w, hw, ha, he => by
      simp only [bindArgs]
      split
      · have hn := H.newArray_ok as w hw ha
        refine ⟨hn.1, hn.2.1, fun q hq => ?_⟩
        rcases Env.mem_set hq with h | h
        · rw [h]; exact hn.2.2
        · exact H.ok_mono hn.1 (he q h)
      · refine ⟨H.E.refl _, hw, fun q hq => ?_⟩
        rcases Env.mem_set hq with h | h
        · rw [h]
          cases as with
          | nil => exact H.ok_null _
          | cons a _ => exact ha a List.mem_cons_self
        · exact he q h
  | p :: q :: ps, as, env, w, hw, ha, he => by
      simp only [bindArgs]
      refine bindArgs_pres laa (q :: ps) as.tail _ w hw (fun a h => ha a (List.mem_of_mem_tail h)) (fun x hx => ?_)
      rcases Env.mem_set hx with h | h
      · rw [h]
        cases as with
        | nil => exact H.ok_null _
        | cons a _ => exact ha a List.mem_cons_self
      · exact he x h

/-- the invariant is preserved by calls, statement lists and includes, for this fuel -/
def PresM (fuel : Nat) : Prop :=
  CallPres H (callValue₀ cfg fuel) ∧
  (∀ P locals base pc st, SOK H st → LOK H st.world locals → ResOK H st (execM₀ cfg fuel P locals base pc st)) ∧
  (∀ base incs st, SOK H st → ResOK H st (execIncludes₀ cfg fuel base incs st))

theorem presM : ∀ fuel, PresM H fuel
  | 0 => by
    refine ⟨?_, ?_, ?_⟩
    · intro f a s _ _ _; rw [callValue₀.eq_1]; trivial
    · intro P locals base pc st hs _
      rw [execM₀.eq_1]
      cases P[pc]? with
      | none => exact Adv.refl H hs
      | some s => trivial
    · intro base incs st hs
      cases incs with
      | nil => rw [execIncludes₀.eq_1]; exact Adv.refl H hs
      | cons i r =>
        rw [execIncludes₀.eq_2]
        cases cfg.fetch (cfg.resolve base i) <;> trivial
  | fuel+1 => by
    obtain ⟨ihC, ihE, ihI⟩ := presM fuel
    refine ⟨?_, ?_, ?_⟩
    · intro f a s hs hf ha
      rw [callValue₀.eq_def]
      simp only
      split
      · split
        · next fd _ =>
          have hb := bindArgs_pres H fd.lastArgArray fd.args a [] s.world hs.1 ha (fun _ h => by cases h)
          generalize bindArgs cfg.host fd.lastArgArray fd.args a [] s.world = bw at hb
          obtain ⟨loc, w1⟩ := bw
          simp only at hb ⊢
          have h0 : Adv H s { s with world := w1 } := ⟨Nat.le_refl _, hb.1, hs.setWorld H hb.1 hb.2.1⟩
          have h1 := ihE fd.body (some loc) none 0 { s with world := w1 } h0.2.2
            (fun l hl p hp => by cases hl; exact hb.2.2 p hp)
          generalize execM₀ cfg fuel fd.body (some loc) none 0 { s with world := w1 } = r at h1
          cases r with
          | done st' => exact ⟨h0.trans H h1, H.ok_null _⟩
          | ret v st' => exact ⟨h0.trans H h1.1, h1.2⟩
          | err e st' => trivial
          | oof => trivial
        · exact ⟨⟨Nat.le_refl _, (H.notCallable_ok _ s.world hs.1).1,
            hs.setWorld H (H.notCallable_ok _ s.world hs.1).1 (H.notCallable_ok _ s.world hs.1).2⟩, H.ok_null _⟩
      · exact runTree_pres H _ ihC _ s hs (H.lib_wf _ _ _ hs.1 hf ha)
      · exact runTree_pres H _ ihC _ s hs (H.other_wf _ _ _ hs.1 hf ha)
      · exact ⟨⟨Nat.le_refl _, (H.notCallable_ok _ s.world hs.1).1,
          hs.setWorld H (H.notCallable_ok _ s.world hs.1).1 (H.notCallable_ok _ s.world hs.1).2⟩, H.ok_null _⟩
    · intro P locals base pc st hs hl
      rw [execM₀.eq_1]
      cases P[pc]? with
      | none => exact Adv.refl H hs
      | some s =>
        simp only
        split
        · trivial
        · have hs1 : SOK H { st with count := st.count + 1 } := hs
          have h0 : Adv H st { st with count := st.count + 1 } := ⟨Nat.le_succ _, H.E.refl _, hs1⟩
          cases s with
          | expr name e =>
            simp only
            have h1 := evalExpr_pres H _ ihC locals e { st with count := st.count + 1 } hs1 hl
            generalize evalExpr cfg _ locals e _ = r at h1
            cases r with
            | err e st2 => trivial
            | oof => trivial
            | ok v st2 =>
              have hl2 := hl.mono H h1.1.2.1
              cases name <;> cases locals <;> simp only
              · exact ResOK.trans H (h0.trans H h1.1) (ihE _ _ _ _ _ h1.1.2.2 hl2)
              · exact ResOK.trans H (h0.trans H h1.1) (ihE _ _ _ _ _ h1.1.2.2 hl2)
              · rename_i n
                have hs3 : SOK H { st2 with globals := Env.set st2.globals n v } := by
                  refine ⟨h1.1.2.2.1, fun p hp => ?_⟩
                  rcases Env.mem_set hp with h | h
                  · rw [h]; exact h1.2
                  · exact h1.1.2.2.2 p h
                have h3 : Adv H st2 { st2 with globals := Env.set st2.globals n v } := ⟨Nat.le_refl _, H.E.refl _, hs3⟩
                exact ResOK.trans H ((h0.trans H h1.1).trans H h3) (ihE _ _ _ _ _ hs3 hl2)
              · next n l =>
                refine ResOK.trans H (h0.trans H h1.1) (ihE _ _ _ _ _ h1.1.2.2 ?_)
                intro l' hl' p hp
                cases hl'
                rcases Env.mem_set hp with h | h
                · rw [h]; exact h1.2
                · exact hl2 l rfl p h
          | jump l c =>
            cases c with
            | none =>
              simp only
              cases findLabel P l with
              | none => trivial
              | some i => exact ResOK.trans H h0 (ihE _ _ _ _ _ hs1 hl)
            | some c =>
              simp only
              have h1 := evalExpr_pres H _ ihC locals c { st with count := st.count + 1 } hs1 hl
              generalize evalExpr cfg _ locals c _ = r at h1
              cases r with
              | err e st2 => trivial
              | oof => trivial
              | ok v st2 =>
                have hl2 := hl.mono H h1.1.2.1
                simp only
                split
                · cases findLabel P l with
                  | none => trivial
                  | some i => exact ResOK.trans H (h0.trans H h1.1) (ihE _ _ _ _ _ h1.1.2.2 hl2)
                · exact ResOK.trans H (h0.trans H h1.1) (ihE _ _ _ _ _ h1.1.2.2 hl2)
          | ret e =>
            cases e with
            | none => exact ⟨h0, H.ok_null _⟩
            | some e =>
              simp only
              have h1 := evalExpr_pres H _ ihC locals e { st with count := st.count + 1 } hs1 hl
              generalize evalExpr cfg _ locals e _ = r at h1
              cases r with
              | err e st2 => trivial
              | oof => trivial
              | ok v st2 => exact ⟨h0.trans H h1.1, h1.2⟩
          | label l => exact ResOK.trans H h0 (ihE _ _ _ _ _ hs1 hl)
          | function fid name args laa isAsync body =>
            have hs3 : SOK H { st with globals := Env.set st.globals name (.fn (.script fid)), count := st.count + 1 } := by
              refine ⟨hs.1, fun p hp => ?_⟩
              rcases Env.mem_set hp with h | h
              · rw [h]; exact H.ok_script _ _
              · exact hs.2 p h
            have h3 : Adv H st { st with globals := Env.set st.globals name (.fn (.script fid)), count := st.count + 1 } :=
              ⟨Nat.le_succ _, H.E.refl _, hs3⟩
            exact ResOK.trans H h3 (ihE _ _ _ _ _ hs3 hl)
          | «include» incs =>
            simp only
            have h1 := ihI base incs { st with count := st.count + 1 } hs1
            generalize execIncludes₀ cfg fuel base incs _ = r at h1
            cases r with
            | done st2 => exact ResOK.trans H (h0.trans H h1) (ihE _ _ _ _ _ h1.2.2 (hl.mono H h1.2.1))
            | ret v st2 => exact ⟨h0.trans H h1.1, h1.2⟩
            | err e st2 => trivial
            | oof => trivial
    · intro base incs st hs
      cases incs with
      | nil => rw [execIncludes₀.eq_1]; exact Adv.refl H hs
      | cons i r =>
        rw [execIncludes₀.eq_2]
        simp only
        cases cfg.fetch (cfg.resolve base i) with
        | missing => trivial
        | broken => trivial
        | script ss =>
          simp only
          have h1 := ihE ss none (some (cfg.resolve base i)) 0 st hs (fun _ h => by cases h)
          generalize execM₀ cfg fuel ss none _ 0 st = r at h1
          cases r with
          | done st2 => exact ResOK.trans H h1 (ihI _ _ _ h1.2.2)
          | ret v st2 => exact ResOK.trans H h1.1 (ihI _ _ _ h1.1.2.2)
          | err e st2 => trivial
          | oof => trivial

end Pres

/-! ## fuel monotonicity in the form used below -/

section Up
variable (cfg : Config W)

theorem callValue_up {f f' : Nat} (h : f ≤ f') {g : Value} {a : List Value} {s : State W}
    (hne : callValue₀ cfg f g a s ≠ .oof) : callValue₀ cfg f' g a s = callValue₀ cfg f g a s :=
  ((fuelMono cfg f f' h).1 g a s).resolve_left hne

theorem execM_up {f f' : Nat} (h : f ≤ f') {P : List Stmt} {locals : Option Env} {base : Option String} {pc : Nat}
    {s : State W} (hne : execM₀ cfg f P locals base pc s ≠ .oof) :
    execM₀ cfg f' P locals base pc s = execM₀ cfg f P locals base pc s :=
  ((fuelMono cfg f f' h).2.1 P locals base pc s).resolve_left hne

theorem execIncludes_up {f f' : Nat} (h : f ≤ f') {base : Option String} {incs : List IncludeScript} {s : State W}
    (hne : execIncludes₀ cfg f base incs s ≠ .oof) :
    execIncludes₀ cfg f' base incs s = execIncludes₀ cfg f base incs s :=
  ((fuelMono cfg f f' h).2.2 base incs s).resolve_left hne

theorem evalExpr_up {f f' : Nat} (h : f ≤ f') {locals : Option Env} {e : Expr} {s : State W}
    (hne : evalExpr cfg (callValue₀ cfg f) locals e s ≠ .oof) :
    evalExpr cfg (callValue₀ cfg f') locals e s = evalExpr cfg (callValue₀ cfg f) locals e s :=
  (evalExpr_fm cfg _ _ (fuelMono cfg f f' h).1 locals e s).resolve_left hne

theorem evalArgs_up {f f' : Nat} (h : f ≤ f') {locals : Option Env} {es : List Expr} {s : State W}
    (hne : evalArgs cfg (callValue₀ cfg f) locals es s ≠ .oof) :
    evalArgs cfg (callValue₀ cfg f') locals es s = evalArgs cfg (callValue₀ cfg f) locals es s :=
  (evalArgs_fm cfg _ _ (fuelMono cfg f f' h).1 locals es s).resolve_left hne

theorem evalIf_up {f f' : Nat} (h : f ≤ f') {locals : Option Env} {es : List Expr} {s : State W}
    (hne : evalIf cfg (callValue₀ cfg f) locals es s ≠ .oof) :
    evalIf cfg (callValue₀ cfg f') locals es s = evalIf cfg (callValue₀ cfg f) locals es s :=
  (evalIf_fm cfg _ _ (fuelMono cfg f f' h).1 locals es s).resolve_left hne

theorem runTree_up {f f' : Nat} (h : f ≤ f') {t : LibTree W} {s : State W}
    (hne : runTree cfg (callValue₀ cfg f) t s ≠ .oof) :
    runTree cfg (callValue₀ cfg f') t s = runTree cfg (callValue₀ cfg f) t s :=
  (runTree_fm cfg _ _ (fuelMono cfg f f' h).1 t s).resolve_left hne
end Up

/-! ## Part 2: termination under a positive statement limit -/

section Term
variable {cfg : Config W} (H : HostWF cfg.host)

/-- admissible state with remaining budget at most `b` -/
def Sb (b : Nat) (st : State W) : Prop := cfg.maxStatements - st.count ≤ b ∧ SOK H st

theorem Sb.adv {b : Nat} {st st' : State W} (h : Sb H b st) (ha : Adv H st st') : Sb H b st' :=
  ⟨by have := ha.1; have := h.1; omega, ha.2.2⟩

def CallT (b : Nat) : Prop := ∀ st, Sb H b st → ∀ f args, H.ok st.world f → (∀ a ∈ args, H.ok st.world a) →
  ∃ fuel, callValue₀ cfg fuel f args st ≠ .oof
def EvalT (b : Nat) : Prop := ∀ st, Sb H b st → ∀ locals, LOK H st.world locals → ∀ e,
  ∃ fuel, evalExpr cfg (callValue₀ cfg fuel) locals e st ≠ .oof
def ExecT (b : Nat) : Prop := ∀ st, Sb H b st → ∀ P locals base pc, LOK H st.world locals →
  ∃ fuel, execM₀ cfg fuel P locals base pc st ≠ .oof
def IncT (b : Nat) : Prop := ∀ st, Sb H b st → ∀ base incs, ∃ fuel, execIncludes₀ cfg fuel base incs st ≠ .oof

section EvalTerm
set_option linter.unusedSectionVars false
variable (b : Nat) (hc : CallT H b) (locals : Option Env)
include hc

mutual
theorem evalExpr_term : ∀ (e : Expr) (st : State W), Sb H b st → LOK H st.world locals →
    ∃ fuel, evalExpr cfg (callValue₀ cfg fuel) locals e st ≠ .oof
  | .number q, st, _, _ => ⟨0, by simp only [evalExpr]; nofun⟩
  | .string s, st, _, _ => ⟨0, by simp only [evalExpr]; nofun⟩
  | .variable n, st, _, _ => ⟨0, by simp only [evalExpr]; (repeat' split) <;> nofun⟩
  | .function n args, st, hs, hl => by
      by_cases hn : n = kwIf
      · obtain ⟨f1, h1⟩ := evalIf_term args st hs hl
        exact ⟨f1, by simp only [evalExpr]; rw [if_pos hn]; exact h1⟩
      · obtain ⟨f1, h1⟩ := evalArgs_term args st hs hl
        cases hr : evalArgs cfg (callValue₀ cfg f1) locals args st with
        | oof => exact absurd hr h1
        | err e st1 => exact ⟨f1, by simp only [evalExpr]; rw [if_neg hn, hr]; nofun⟩
        | ok vs st1 =>
          have hp := evalArgs_pres H _ (presM H f1).1 locals args st hs.2 hl
          rw [hr] at hp
          cases hlk : lookupFunc cfg locals st1.globals n with
          | none => exact ⟨f1, by simp only [evalExpr]; rw [if_neg hn, hr]; simp only [hlk]; nofun⟩
          | some fv =>
            obtain ⟨f2, h2⟩ := hc st1 (hs.adv H hp.1) fv vs
              (lookupFunc_ok H hp.1.2.2 (hl.mono H hp.1.2.1) n fv hlk) hp.2
            refine ⟨max f1 f2, ?_⟩
            simp only [evalExpr]
            rw [if_neg hn, evalArgs_up cfg (Nat.le_max_left f1 f2) h1, hr]
            simp only [hlk]
            split
            · nofun
            · next fv' _ heq =>
              cases heq
              rw [callValue_up cfg (Nat.le_max_right f1 f2) h2]; exact h2
            · nofun
  | .binary op l r, st, hs, hl => by
      obtain ⟨f1, h1⟩ := evalExpr_term l st hs hl
      cases hr : evalExpr cfg (callValue₀ cfg f1) locals l st with
      | oof => exact absurd hr h1
      | err e st1 => exact ⟨f1, by cases op <;> simp only [evalExpr] <;> rw [hr] <;> nofun⟩
      | ok lv st1 =>
        have hp := evalExpr_pres H _ (presM H f1).1 locals l st hs.2 hl
        rw [hr] at hp
        obtain ⟨f2, h2⟩ := evalExpr_term r st1 (hs.adv H hp.1) (hl.mono H hp.1.2.1)
        refine ⟨max f1 f2, ?_⟩
        have e1 := evalExpr_up cfg (Nat.le_max_left f1 f2) h1
        have e2 := evalExpr_up cfg (Nat.le_max_right f1 f2) h2
        cases op <;> simp only [evalExpr] <;> rw [e1, hr] <;> simp only <;>
          first
          | (split
             · rw [e2]; exact h2
             · nofun)
          | (split
             · nofun
             · rw [e2]; exact h2)
          | (rw [e2]
             cases hr2 : evalExpr cfg (callValue₀ cfg f2) locals r st1 with
             | oof => exact absurd hr2 h2
             | err e st2 => nofun
             | ok rv st2 => nofun)
  | .unary op e, st, hs, hl => by
      obtain ⟨f1, h1⟩ := evalExpr_term e st hs hl
      refine ⟨f1, ?_⟩
      cases hr : evalExpr cfg (callValue₀ cfg f1) locals e st with
      | oof => exact absurd hr h1
      | err e st1 => cases op <;> simp only [evalExpr] <;> rw [hr] <;> nofun
      | ok v st1 => cases op <;> simp only [evalExpr] <;> rw [hr] <;> nofun
  | .group e, st, hs, hl => by
      obtain ⟨f1, h1⟩ := evalExpr_term e st hs hl
      exact ⟨f1, by simp only [evalExpr]; exact h1⟩

theorem evalArgs_term : ∀ (es : List Expr) (st : State W), Sb H b st → LOK H st.world locals →
    ∃ fuel, evalArgs cfg (callValue₀ cfg fuel) locals es st ≠ .oof
  | [], st, _, _ => ⟨0, by simp only [evalArgs]; nofun⟩
  | a :: as, st, hs, hl => by
      obtain ⟨f1, h1⟩ := evalExpr_term a st hs hl
      cases hr : evalExpr cfg (callValue₀ cfg f1) locals a st with
      | oof => exact absurd hr h1
      | err e st1 => exact ⟨f1, by simp only [evalArgs]; rw [hr]; nofun⟩
      | ok v st1 =>
        have hp := evalExpr_pres H _ (presM H f1).1 locals a st hs.2 hl
        rw [hr] at hp
        obtain ⟨f2, h2⟩ := evalArgs_term as st1 (hs.adv H hp.1) (hl.mono H hp.1.2.1)
        refine ⟨max f1 f2, ?_⟩
        simp only [evalArgs]
        rw [evalExpr_up cfg (Nat.le_max_left f1 f2) h1, hr]
        simp only
        rw [evalArgs_up cfg (Nat.le_max_right f1 f2) h2]
        cases hr2 : evalArgs cfg (callValue₀ cfg f2) locals as st1 with
        | oof => exact absurd hr2 h2
        | err e st2 => nofun
        | ok vs st2 => nofun

theorem evalIf_term : ∀ (es : List Expr) (st : State W), Sb H b st → LOK H st.world locals →
    ∃ fuel, evalIf cfg (callValue₀ cfg fuel) locals es st ≠ .oof
  | [], st, _, _ => ⟨0, by simp only [evalIf]; nofun⟩
  | [c], st, hs, hl => by
      obtain ⟨f1, h1⟩ := evalExpr_term c st hs hl
      refine ⟨f1, ?_⟩
      simp only [evalIf]
      cases hr : evalExpr cfg (callValue₀ cfg f1) locals c st with
      | oof => exact absurd hr h1
      | err e st1 => nofun
      | ok v st1 => nofun
  | [c, t], st, hs, hl => by
      obtain ⟨f1, h1⟩ := evalExpr_term c st hs hl
      cases hr : evalExpr cfg (callValue₀ cfg f1) locals c st with
      | oof => exact absurd hr h1
      | err e st1 => exact ⟨f1, by simp only [evalIf]; rw [hr]; nofun⟩
      | ok v st1 =>
        have hp := evalExpr_pres H _ (presM H f1).1 locals c st hs.2 hl
        rw [hr] at hp
        obtain ⟨f2, h2⟩ := evalExpr_term t st1 (hs.adv H hp.1) (hl.mono H hp.1.2.1)
        refine ⟨max f1 f2, ?_⟩
        simp only [evalIf]
        rw [evalExpr_up cfg (Nat.le_max_left f1 f2) h1, hr]
        simp only
        split
        · rw [evalExpr_up cfg (Nat.le_max_right f1 f2) h2]; exact h2
        · nofun
  | c :: t :: f :: _, st, hs, hl => by
      obtain ⟨f1, h1⟩ := evalExpr_term c st hs hl
      cases hr : evalExpr cfg (callValue₀ cfg f1) locals c st with
      | oof => exact absurd hr h1
      | err e st1 => exact ⟨f1, by simp only [evalIf]; rw [hr]; nofun⟩
      | ok v st1 =>
        have hp := evalExpr_pres H _ (presM H f1).1 locals c st hs.2 hl
        rw [hr] at hp
        obtain ⟨f2, h2⟩ := evalExpr_term t st1 (hs.adv H hp.1) (hl.mono H hp.1.2.1)
        obtain ⟨f3, h3⟩ := evalExpr_term f st1 (hs.adv H hp.1) (hl.mono H hp.1.2.1)
        refine ⟨max f1 (max f2 f3), ?_⟩
        simp only [evalIf]
        rw [evalExpr_up cfg (Nat.le_max_left f1 _) h1, hr]
        simp only
        split
        · rw [evalExpr_up cfg (Nat.le_trans (Nat.le_max_left f2 f3) (Nat.le_max_right f1 _)) h2]; exact h2
        · rw [evalExpr_up cfg (Nat.le_trans (Nat.le_max_right f2 f3) (Nat.le_max_right f1 _)) h3]; exact h3
end
end EvalTerm

theorem evalT_of_callT (b : Nat) (hc : CallT H b) : EvalT H b :=
  fun st hs locals hl e => evalExpr_term H b hc locals e st hs hl

/-- an interaction tree all of whose call-backs terminate (call rank `≤ r`) terminates: induction on the tree, following
the one path the run takes -/
theorem runTree_term (b r : Nat)
    (hcb : ∀ st f args, Sb H b st → H.ok st.world f → (∀ a ∈ args, H.ok st.world a) →
      callRank H.rank st.world f args ≤ r → ∃ fuel, callValue₀ cfg fuel f args st ≠ .oof) :
    ∀ (t : LibTree W) (st : State W), Sb H b st → TreeWF H.toWFData r st.world t →
      ∃ fuel, runTree cfg (callValue₀ cfg fuel) t st ≠ .oof
  | .ret (.ok v) w, st, _, _ => ⟨0, by simp only [runTree]; nofun⟩
  | .ret (.fail v) w, st, _, _ => ⟨0, by simp only [runTree]; nofun⟩
  | .ret (.rt msg) w, st, _, _ => ⟨0, by simp only [runTree]; nofun⟩
  | .call f args w k, st, hs, h => by
      cases h with | call hle hw hf ha hr hk =>
      have hs0 : Sb H b { st with world := w } := ⟨hs.1, hs.2.setWorld H hle hw⟩
      obtain ⟨f1, h1⟩ := hcb _ f args hs0 hf ha hr
      cases hres : callValue₀ cfg f1 f args { st with world := w } with
      | oof => exact absurd hres h1
      | err e s1 => exact ⟨f1, by simp only [runTree]; rw [hres]; nofun⟩
      | ok v s1 =>
        have hp := (presM H f1).1 f args _ hs0.2 hf ha
        rw [hres] at hp
        obtain ⟨f2, h2⟩ := runTree_term b r hcb (k v s1.world) s1 (hs0.adv H hp.1)
          (hk v s1.world hp.1.2.1 hp.1.2.2.1 hp.2)
        refine ⟨max f1 f2, ?_⟩
        simp only [runTree]
        rw [callValue_up cfg (Nat.le_max_left f1 f2) h1, hres]
        simp only
        rw [runTree_up cfg (Nat.le_max_right f1 f2) h2]; exact h2
  | .globalGet n w k, st, hs, h => by
      cases h with | globalGet hle hw hk =>
      have hs0 : Sb H b { st with world := w } := ⟨hs.1, hs.2.setWorld H hle hw⟩
      obtain ⟨f1, h1⟩ := runTree_term b r hcb (k (Env.get? st.globals n) w) { st with world := w } hs0
        (hk _ w (H.E.refl w) hw (by
        intro x hx
        obtain ⟨p, hp, rfl⟩ := Env.get?_mem hx
        exact H.ok_mono hle (hs.2.2 p hp)))
      exact ⟨f1, by simp only [runTree]; exact h1⟩
  | .globalSet n v w k, st, hs, h => by
      cases h with | globalSet hle hw hv hk =>
      have hs0 : Sb H b { st with globals := Env.set st.globals n v, world := w } := by
        refine ⟨hs.1, hw, fun p hp => ?_⟩
        rcases Env.mem_set hp with h | h
        · rw [h]; exact hv
        · exact H.ok_mono hle (hs.2.2 p h)
      obtain ⟨f1, h1⟩ := runTree_term b r hcb (k w) _ hs0 (hk w (H.E.refl w) hw)
      exact ⟨f1, by simp only [runTree]; exact h1⟩

/-- calls at budget `b` terminate once statement lists at budget `b` do: induction on the call rank -/
theorem callT_aux (b : Nat) (hX : ExecT H b) : ∀ n st f args, Sb H b st → H.ok st.world f →
    (∀ a ∈ args, H.ok st.world a) → callRank H.rank st.world f args ≤ n →
    ∃ fuel, callValue₀ cfg fuel f args st ≠ .oof := by
  intro n
  induction n with
  | zero =>
    intro st f args hs hf ha hr
    cases f with
    | fn fv =>
      cases fv with
      | script id =>
        cases hfd : cfg.funs id with
        | none => exact ⟨1, by rw [callValue₀.eq_def]; simp only [hfd]; nofun⟩
        | some fd =>
          have hb := bindArgs_pres H fd.lastArgArray fd.args args [] st.world hs.2.1 ha (fun _ h => by cases h)
          obtain ⟨f1, h1⟩ := hX { st with world := (bindArgs cfg.host fd.lastArgArray fd.args args [] st.world).2 }
            ⟨hs.1, hs.2.setWorld H hb.1 hb.2.1⟩ fd.body
            (some (bindArgs cfg.host fd.lastArgArray fd.args args [] st.world).1) none 0
            (fun l hl p hp => by cases hl; exact hb.2.2 p hp)
          refine ⟨f1 + 1, ?_⟩
          rw [callValue₀.eq_def]
          simp only [hfd]
          revert h1
          generalize execM₀ cfg f1 fd.body _ none 0 _ = r
          intro h1
          cases r with
          | oof => exact absurd rfl h1
          | done s' => nofun
          | ret v s' => nofun
          | err e s' => nofun
      | lib name => simp only [callRank] at hr; omega
      | other k => simp only [callRank] at hr; omega
    | null => exact ⟨1, by rw [callValue₀.eq_def]; nofun⟩
    | bool _ => exact ⟨1, by rw [callValue₀.eq_def]; nofun⟩
    | num _ => exact ⟨1, by rw [callValue₀.eq_def]; nofun⟩
    | str _ => exact ⟨1, by rw [callValue₀.eq_def]; nofun⟩
    | dt _ => exact ⟨1, by rw [callValue₀.eq_def]; nofun⟩
    | arr _ => exact ⟨1, by rw [callValue₀.eq_def]; nofun⟩
    | obj _ => exact ⟨1, by rw [callValue₀.eq_def]; nofun⟩
    | regex _ => exact ⟨1, by rw [callValue₀.eq_def]; nofun⟩
  | succ n ih =>
    intro st f args hs hf ha hr
    by_cases h0 : callRank H.rank st.world f args ≤ n
    · exact ih st f args hs hf ha h0
    · cases f with
      | fn fv =>
        cases fv with
        | script id => simp only [callRank] at h0; omega
        | lib name =>
          simp only [callRank] at hr
          obtain ⟨f1, h1⟩ := runTree_term H b (H.rank st.world (.lib name) args)
            (fun st' f' args' hs' hf' ha' hr' => ih st' f' args' hs' hf' ha' (by omega))
            (cfg.host.lib name args st.world) st hs (H.lib_wf name args st.world hs.2.1 hf ha)
          exact ⟨f1 + 1, by rw [callValue₀.eq_def]; exact h1⟩
        | other k =>
          simp only [callRank] at hr
          obtain ⟨f1, h1⟩ := runTree_term H b (H.rank st.world (.other k) args)
            (fun st' f' args' hs' hf' ha' hr' => ih st' f' args' hs' hf' ha' (by omega))
            (cfg.host.other k args st.world) st hs (H.other_wf k args st.world hs.2.1 hf ha)
          exact ⟨f1 + 1, by rw [callValue₀.eq_def]; exact h1⟩
      | null => simp only [callRank] at h0; omega
      | bool _ => simp only [callRank] at h0; omega
      | num _ => simp only [callRank] at h0; omega
      | str _ => simp only [callRank] at h0; omega
      | dt _ => simp only [callRank] at h0; omega
      | arr _ => simp only [callRank] at h0; omega
      | obj _ => simp only [callRank] at h0; omega
      | regex _ => simp only [callRank] at h0; omega

theorem callT_of_execT (b : Nat) (hX : ExecT H b) : CallT H b :=
  fun st hs f args hf ha => callT_aux H b hX _ st f args hs hf ha (Nat.le_refl _)

theorem incT_of_execT (b : Nat) (hX : ExecT H b) : IncT H b := by
  intro st hs base incs
  induction incs generalizing st with
  | nil => exact ⟨0, by rw [execIncludes₀.eq_1]; nofun⟩
  | cons i rest ih =>
    cases hf : cfg.fetch (cfg.resolve base i) with
    | missing => exact ⟨0, by rw [execIncludes₀.eq_2]; simp only [hf]; nofun⟩
    | broken => exact ⟨0, by rw [execIncludes₀.eq_2]; simp only [hf]; nofun⟩
    | script ss =>
      obtain ⟨f1, h1⟩ := hX st hs ss none (some (cfg.resolve base i)) 0 (fun _ h => by cases h)
      have hp := (presM H f1).2.1 ss none (some (cfg.resolve base i)) 0 st hs.2 (fun _ h => by cases h)
      cases hr : execM₀ cfg f1 ss none (some (cfg.resolve base i)) 0 st with
      | oof => exact absurd hr h1
      | err e s1 => exact ⟨f1 + 1, by rw [execIncludes₀.eq_2]; simp only [hf]; rw [hr]; nofun⟩
      | done s1 =>
        rw [hr] at hp
        obtain ⟨f2, h2⟩ := ih s1 (hs.adv H hp)
        refine ⟨max f1 f2 + 1, ?_⟩
        rw [execIncludes₀.eq_2]
        simp only [hf]
        rw [execM_up cfg (Nat.le_max_left f1 f2) h1, hr]
        simp only
        rw [execIncludes_up cfg (Nat.le_max_right f1 f2) h2]; exact h2
      | ret v s1 =>
        rw [hr] at hp
        obtain ⟨f2, h2⟩ := ih s1 (hs.adv H hp.1)
        refine ⟨max f1 f2 + 1, ?_⟩
        rw [execIncludes₀.eq_2]
        simp only [hf]
        rw [execM_up cfg (Nat.le_max_left f1 f2) h1, hr]
        simp only
        rw [execIncludes_up cfg (Nat.le_max_right f1 f2) h2]; exact h2

/-- one statement: if everything terminates at every smaller budget, a statement list terminates at budget `b` — the
statement that starts either is statement `L+1` (budget error) or leaves a strictly smaller budget -/
theorem execT_step (hL : 0 < cfg.maxStatements) (b : Nat) (hE : ∀ b', b' < b → EvalT H b')
    (hX : ∀ b', b' < b → ExecT H b') (hI : ∀ b', b' < b → IncT H b') : ExecT H b := by
  intro st hs P locals base pc hl
  cases hP : P[pc]? with
  | none => exact ⟨0, by rw [execM₀.eq_1, hP]; nofun⟩
  | some s =>
    by_cases hex : (decide (cfg.maxStatements > 0) && decide (st.count + 1 > cfg.maxStatements)) = true
    · exact ⟨1, by rw [execM₀.eq_1, hP]; simp only; rw [if_pos hex]; nofun⟩
    · have hlt : b - 1 < b ∧ cfg.maxStatements - (st.count + 1) ≤ b - 1 := by
        simp only [Bool.and_eq_true, decide_eq_true_eq, not_and, Nat.not_lt] at hex
        have := hex hL; have := hs.1; omega
      have hs1 : Sb H (b - 1) { st with count := st.count + 1 } := ⟨hlt.2, hs.2⟩
      have hE := hE _ hlt.1
      have hX := hX _ hlt.1
      have hI := hI _ hlt.1
      cases s with
      | expr name e =>
        obtain ⟨f1, h1⟩ := hE _ hs1 locals hl e
        cases hr : evalExpr cfg (callValue₀ cfg f1) locals e { st with count := st.count + 1 } with
        | oof => exact absurd hr h1
        | err e st2 => exact ⟨f1 + 1, by (rw [execM₀.eq_1, hP]; simp only; rw [if_neg hex]); rw [hr]; nofun⟩
        | ok v st2 =>
          have hp := evalExpr_pres H _ (presM H f1).1 locals e _ hs1.2 hl
          rw [hr] at hp
          have hs2 := hs1.adv H hp.1
          have hl2 := hl.mono H hp.1.2.1
          have e1 : ∀ f2, evalExpr cfg (callValue₀ cfg (max f1 f2)) locals e { st with count := st.count + 1 }
              = .ok v st2 := fun f2 => by rw [evalExpr_up cfg (Nat.le_max_left f1 f2) h1, hr]
          cases name with
          | none =>
            obtain ⟨f2, h2⟩ := hX _ hs2 P locals base (pc+1) hl2
            refine ⟨max f1 f2 + 1, ?_⟩
            (rw [execM₀.eq_1, hP]; simp only; rw [if_neg hex]); rw [e1]; simp only
            rw [execM_up cfg (Nat.le_max_right f1 f2) h2]; exact h2
          | some n =>
            cases locals with
            | none =>
              obtain ⟨f2, h2⟩ := hX { st2 with globals := st2.globals.set n v }
                ⟨hs2.1, hs2.2.1, fun p hp' => by
                  rcases Env.mem_set hp' with h | h
                  · rw [h]; exact hp.2
                  · exact hs2.2.2 p h⟩ P none base (pc+1) hl2
              refine ⟨max f1 f2 + 1, ?_⟩
              (rw [execM₀.eq_1, hP]; simp only; rw [if_neg hex]); rw [e1]; simp only
              rw [execM_up cfg (Nat.le_max_right f1 f2) h2]; exact h2
            | some l =>
              obtain ⟨f2, h2⟩ := hX _ hs2 P (some (l.set n v)) base (pc+1) (fun l' hl' p hp' => by
                cases hl'
                rcases Env.mem_set hp' with h | h
                · rw [h]; exact hp.2
                · exact hl2 l rfl p h)
              refine ⟨max f1 f2 + 1, ?_⟩
              (rw [execM₀.eq_1, hP]; simp only; rw [if_neg hex]); rw [e1]; simp only
              rw [execM_up cfg (Nat.le_max_right f1 f2) h2]; exact h2
      | jump l c =>
        cases c with
        | none =>
          cases hf : findLabel P l with
          | none => exact ⟨1, by (rw [execM₀.eq_1, hP]; simp only; rw [if_neg hex]); simp only [hf]; nofun⟩
          | some i =>
            obtain ⟨f2, h2⟩ := hX _ hs1 P locals base (i+1) hl
            exact ⟨f2 + 1, by (rw [execM₀.eq_1, hP]; simp only; rw [if_neg hex]); simp only [hf]; exact h2⟩
        | some c =>
          obtain ⟨f1, h1⟩ := hE _ hs1 locals hl c
          cases hr : evalExpr cfg (callValue₀ cfg f1) locals c { st with count := st.count + 1 } with
          | oof => exact absurd hr h1
          | err e st2 => exact ⟨f1 + 1, by (rw [execM₀.eq_1, hP]; simp only; rw [if_neg hex]); rw [hr]; nofun⟩
          | ok v st2 =>
            have hp := evalExpr_pres H _ (presM H f1).1 locals c _ hs1.2 hl
            rw [hr] at hp
            have hs2 := hs1.adv H hp.1
            have hl2 := hl.mono H hp.1.2.1
            have e1 : ∀ f2, evalExpr cfg (callValue₀ cfg (max f1 f2)) locals c { st with count := st.count + 1 }
                = .ok v st2 := fun f2 => by rw [evalExpr_up cfg (Nat.le_max_left f1 f2) h1, hr]
            by_cases ht : cfg.host.truthy v st2.world = true
            · cases hf : findLabel P l with
              | none => exact ⟨max f1 0 + 1, by (rw [execM₀.eq_1, hP]; simp only; rw [if_neg hex]); rw [e1]; simp only [ht, hf]; nofun⟩
              | some i =>
                obtain ⟨f2, h2⟩ := hX _ hs2 P locals base (i+1) hl2
                refine ⟨max f1 f2 + 1, ?_⟩
                (rw [execM₀.eq_1, hP]; simp only; rw [if_neg hex]); rw [e1]; simp only [ht, hf, if_true]
                rw [execM_up cfg (Nat.le_max_right f1 f2) h2]; exact h2
            · obtain ⟨f2, h2⟩ := hX _ hs2 P locals base (pc+1) hl2
              refine ⟨max f1 f2 + 1, ?_⟩
              (rw [execM₀.eq_1, hP]; simp only; rw [if_neg hex]); rw [e1]; simp only [ht]
              rw [execM_up cfg (Nat.le_max_right f1 f2) h2]; exact h2
      | ret e =>
        cases e with
        | none => exact ⟨1, by (rw [execM₀.eq_1, hP]; simp only; rw [if_neg hex]); nofun⟩
        | some e =>
          obtain ⟨f1, h1⟩ := hE _ hs1 locals hl e
          refine ⟨f1 + 1, ?_⟩
          (rw [execM₀.eq_1, hP]; simp only; rw [if_neg hex])
          cases hr : evalExpr cfg (callValue₀ cfg f1) locals e { st with count := st.count + 1 } with
          | oof => exact absurd hr h1
          | err e st2 => nofun
          | ok v st2 => nofun
      | label l =>
        obtain ⟨f2, h2⟩ := hX _ hs1 P locals base (pc+1) hl
        exact ⟨f2 + 1, by (rw [execM₀.eq_1, hP]; simp only; rw [if_neg hex]); exact h2⟩
      | function fid name args laa isAsync body =>
        obtain ⟨f2, h2⟩ := hX { st with count := st.count + 1, globals := st.globals.set name (.fn (.script fid)) }
          ⟨hs1.1, hs.2.1, fun p hp' => by
            rcases Env.mem_set hp' with h | h
            · rw [h]; exact H.ok_script _ _
            · exact hs.2.2 p h⟩ P locals base (pc+1) hl
        exact ⟨f2 + 1, by (rw [execM₀.eq_1, hP]; simp only; rw [if_neg hex]); exact h2⟩
      | «include» incs =>
        obtain ⟨f1, h1⟩ := hI _ hs1 base incs
        have hp := (presM H f1).2.2 base incs _ hs1.2
        cases hr : execIncludes₀ cfg f1 base incs { st with count := st.count + 1 } with
        | oof => exact absurd hr h1
        | err e st2 => exact ⟨f1 + 1, by (rw [execM₀.eq_1, hP]; simp only; rw [if_neg hex]); rw [hr]; nofun⟩
        | ret v st2 => exact ⟨f1 + 1, by (rw [execM₀.eq_1, hP]; simp only; rw [if_neg hex]); rw [hr]; nofun⟩
        | done st2 =>
          rw [hr] at hp
          obtain ⟨f2, h2⟩ := hX _ (hs1.adv H hp) P locals base (pc+1) (hl.mono H hp.2.1)
          refine ⟨max f1 f2 + 1, ?_⟩
          (rw [execM₀.eq_1, hP]; simp only; rw [if_neg hex])
          rw [execIncludes_up cfg (Nat.le_max_left f1 f2) h1, hr]
          simp only
          rw [execM_up cfg (Nat.le_max_right f1 f2) h2]; exact h2

/-- **termM.** Under a positive statement limit, from every admissible state: expression evaluation, statement lists
(from any index, with any locals), include statements and calls of any admissible value all end with some fuel. -/
theorem termM (hL : 0 < cfg.maxStatements) : ∀ b, EvalT H b ∧ ExecT H b ∧ IncT H b ∧ CallT H b := by
  intro b
  induction b using Nat.strongRecOn with
  | _ b ih =>
    have hX : ExecT H b := execT_step H hL b (fun b' h => (ih b' h).1) (fun b' h => (ih b' h).2.1)
      (fun b' h => (ih b' h).2.2.1)
    have hC := callT_of_execT H b hX
    exact ⟨evalT_of_callT H b hC, hX, incT_of_execT H b hX, hC⟩

end Term

end C09
