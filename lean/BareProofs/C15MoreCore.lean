import BareProofs.C15MoreStill
import BareProofs.C15MoreAcyclic

/-!
# C15More — on heaps a script can build, what is still unmodelled is only: call-backs, non-ASCII case mapping, surrogates, oracle gaps

`StillUnmodelled` (C15MoreStill) is exact for *every* heap, including ill-formed ones (dangling references, cycles).  On a heap that
is `Ranked` (acyclic, no dangling references) with unique object keys, and for arguments whose references are allocated — the states
reachable from a script that never stores a container into itself — the classes "dangling container" and "comparison cannot be
evaluated" are empty:

* `still_core`   `StillUnmodelled T f args h = StillCore T f args h`, where `StillCore` keeps only
  - a name outside the 42 functions,
  - the match-function form of `arrayIndexOf` / `arrayLastIndexOf` (start index in range) and `arraySort` with a compare function,
  - `stringLower` / `stringUpper` on non-ASCII text,
  - `stringFromCharCode` of a surrogate,
  - `arrayJoin` / `stringNew` meeting a number / datetime whose text the oracle does not know.
-/

namespace C15More
open Lib LibMore Lib.Spec

/-! ## container arguments survive validation unchanged (any position) -/

theorem validate_refs (h : Heap) : ∀ (ms : List Gen.ArgModel) (args : List Value) (va : List VArg),
    validate h ms args = some va → ∀ v, VArg.one v ∈ va → C15.IsRef v → v ∈ args
  | [], [], va, hv, v, hm, _ => by simp only [validate, Option.some.injEq] at hv; subst hv; simp at hm
  | [], _ :: _, va, hv, _, _, _ => by simp [validate] at hv
  | m :: ms, [], va, hv, v, hm, hr => by
    simp only [validate] at hv
    split at hv
    · cases hv
    · rename_i x hx
      cases hrest : validate h ms [] with
      | none => simp [hrest] at hv
      | some rest =>
        simp only [hrest, Option.map_some, Option.some.injEq] at hv
        subst hv
        rcases List.mem_cons.mp hm with he | hm'
        · subst he
          exact absurd hr (C15.missingArg_not_ref m v hx)
        · exact validate_refs h ms [] rest hrest v hm' hr
  | m :: ms, a :: as, va, hv, v, hm, hr => by
    simp only [validate] at hv
    split at hv
    · cases hrest : validate h ms [] with
      | none => simp [hrest] at hv
      | some rest =>
        simp only [hrest, Option.map_some, Option.some.injEq] at hv
        subst hv
        rcases List.mem_cons.mp hm with he | hm'
        · cases he
        · have := validate_refs h ms [] rest hrest v hm' hr
          simp at this
    · split at hv
      · cases hv
      · rename_i w hc
        cases hrest : validate h ms as with
        | none => simp [hrest] at hv
        | some rest =>
          simp only [hrest, Option.map_some, Option.some.injEq] at hv
          subst hv
          rcases List.mem_cons.mp hm with he | hm'
          · simp only [VArg.one.injEq] at he
            subst he
            rw [C15.checkArg_ref h m a v hc hr]
            simp
          · exact List.mem_cons_of_mem _ (validate_refs h ms as rest hrest v hm' hr)

theorem topOK_of_not_ref {h : Heap} {v : Value} (hn : ¬ C15.IsRef v) : TopOK h v := by
  cases v <;> simp [C15.IsRef] at hn <;> trivial

/-- every single validated argument is allocated if every actual argument is -/
theorem validated_topOK {h : Heap} {ms args va} (hv : validate h ms args = some va) (hargs : ∀ a ∈ args, TopOK h a) :
    ∀ v, VArg.one v ∈ va → TopOK h v := by
  intro v hm
  by_cases hr : C15.IsRef v
  · exact hargs v (validate_refs h ms args va hv v hm hr)
  · exact topOK_of_not_ref hr

/-! ## the reduced class per function -/

def cIndexOf : List VArg → Heap → Bool
  | [.one (.arr r), .one v, .one (.num q)], h =>
    (match getArr h r with
    | none => false
    | some xs => decide (nat q < xs.length) && isFn v)
  | _, _ => false

def cLastIndexOf : List VArg → Heap → Bool
  | [.one (.arr r), .one v, .one ix], h =>
    (match getArr h r with
    | none => false
    | some xs =>
      match lastStart xs.length ix with
      | none => false
      | some none => isFn v
      | some (some i) => decide (i < xs.length) && isFn v)
  | _, _ => false

def cSort : List VArg → Heap → Bool
  | [.one (.arr _), .one (.fn _)], _ => true
  | _, _ => false

def coreBodies (T : TextFns) : List (String × (List VArg → Heap → Bool)) := [
  ("arrayIndexOf", cIndexOf), ("arrayLastIndexOf", cLastIndexOf), ("arraySort", cSort),
  ("stringLower", uCase), ("stringUpper", uCase), ("arrayJoin", uJoin T), ("stringNew", uNew T)]

/-- what remains unmodelled on well-formed acyclic heaps -/
def StillCore (T : TextFns) (f : String) (args : List Value) (h : Heap) : Bool :=
  if f == "arrayNew" || f == "objectNew" then false
  else if f == "stringFromCharCode" then surrogateOnly args
  else
    match docSigAll.lookup f, (stillBodies T).lookup f with
    | some ms, some _ =>
      (match validate h ms args with
      | none => false
      | some va => (((coreBodies T).lookup f).getD uNever) va h)
    | _, _ => true

/-! ## the dangling / incomparable classes are empty -/

section
variable {h : Heap} {ρ : Nat → Nat} (hρ : Ranked h ρ) (hk : KeysUnique h)

theorem dangA_false {r : Nat} (ht : TopOK h (.arr r)) : dangA h r = false := by
  simp only [TopOK] at ht
  simp only [dangA]
  cases hg : getArr h r <;> simp_all

theorem dangO_false {r : Nat} (ht : TopOK h (.obj r)) : dangO h r = false := by
  simp only [TopOK] at ht
  simp only [dangO]
  cases hg : getObj h r <;> simp_all

theorem uA_core {va : List VArg} (ht : ∀ v, VArg.one v ∈ va → TopOK h v) : uA va h = uNever va h := by
  unfold uA uNever
  split
  · exact dangA_false (ht _ (by simp))
  · rfl

theorem uO_core {va : List VArg} (ht : ∀ v, VArg.one v ∈ va → TopOK h v) : uO va h = uNever va h := by
  unfold uO uNever
  split
  · exact dangO_false (ht _ (by simp))
  · rfl

theorem uAA_core {va : List VArg} (ht : ∀ v, VArg.one v ∈ va → TopOK h v) : uAA va h = uNever va h := by
  unfold uAA uNever
  split
  · rw [dangA_false (ht _ (by simp)), dangA_false (ht _ (by simp))]; rfl
  · rfl

theorem uOO_core {va : List VArg} (ht : ∀ v, VArg.one v ∈ va → TopOK h v) : uOO va h = uNever va h := by
  unfold uOO uNever
  split
  · rw [dangO_false (ht _ (by simp)), dangO_false (ht _ (by simp))]; rfl
  · rfl

include hρ hk in
theorem indexOfN_defined (v : Value) (hv : TopOK h v) : ∀ (xs : List Value) (i : Nat), (∀ x ∈ xs, Readable h x = true) →
    (indexOfN h v xs i).isNone = false
  | [], _, _ => rfl
  | x :: xs, i, hx => by
    have hrv := readable_of_ranked h ρ hρ hk v hv
    simp only [indexOfN, valueCompare_tree h x v (hx x (by simp)) hrv]
    split
    · rfl
    · exact indexOfN_defined v hv xs (i + 1) (fun z hz => hx z (by simp [hz]))

include hρ hk in
theorem lastIndexOfN_defined (v : Value) (hv : TopOK h v) (xs : List Value) (hx : ∀ x ∈ xs, Readable h x = true) :
    ∀ n, n ≤ xs.length → (lastIndexOfN h v xs n).isNone = false
  | 0, _ => rfl
  | n + 1, hn => by
    have hrv := readable_of_ranked h ρ hρ hk v hv
    have hlt : n < xs.length := by omega
    simp only [lastIndexOfN, List.getElem?_eq_getElem hlt, valueCompare_tree h xs[n] v (hx _ (List.getElem_mem _)) hrv]
    split
    · rfl
    · exact lastIndexOfN_defined v hv xs hx n (by omega)

include hρ hk in
theorem uIndexOf_core {va : List VArg} (ht : ∀ v, VArg.one v ∈ va → TopOK h v) : uIndexOf va h = cIndexOf va h := by
  unfold uIndexOf cIndexOf
  split
  · rename_i r v q
    have h1 := ht (.arr r) (by simp)
    have h2 := ht v (by simp)
    show _ = (match getArr h r with
      | none => false
      | some xs => decide (nat q < xs.length) && isFn v)
    cases hx : getArr h r with
    | none => simp only [TopOK] at h1; simp [hx] at h1
    | some xs =>
      simp only
      have hrd := elements_readable h ρ hρ hk r xs hx
      rw [indexOfN_defined hρ hk v h2 _ _ (fun x hxm => hrd x (List.mem_of_mem_drop hxm))]
      simp
  · split
    · simp_all
    · rfl

include hρ hk in
theorem uLastIndexOf_core {va : List VArg} (ht : ∀ v, VArg.one v ∈ va → TopOK h v) : uLastIndexOf va h = cLastIndexOf va h := by
  unfold uLastIndexOf cLastIndexOf
  split
  · rename_i r v ix
    have h1 := ht (.arr r) (by simp)
    have h2 := ht v (by simp)
    show _ = (match getArr h r with
      | none => false
      | some xs =>
        match lastStart xs.length ix with
        | none => false
        | some none => isFn v
        | some (some i) => decide (i < xs.length) && isFn v)
    cases hx : getArr h r with
    | none => simp only [TopOK] at h1; simp [hx] at h1
    | some xs =>
      simp only
      have hrd := elements_readable h ρ hρ hk r xs hx
      cases hl : lastStart xs.length ix with
      | none => rfl
      | some o =>
        cases o with
        | none => rfl
        | some i =>
          simp only
          by_cases hi : i < xs.length
          · rw [lastIndexOfN_defined hρ hk v h2 xs hrd (i + 1) (by omega)]
            simp
          · simp [hi]
  · split
    · simp_all
    · rfl

include hρ hk in
theorem uSort_core {va : List VArg} (ht : ∀ v, VArg.one v ∈ va → TopOK h v) : uSort va h = cSort va h := by
  unfold uSort cSort
  split
  · rename_i r
    have h1 := ht (.arr r) (by simp)
    show _ = false
    cases hx : getArr h r with
    | none => simp only [TopOK] at h1; simp [hx] at h1
    | some xs =>
      simp only
      rw [comparable_of_readable h xs (elements_readable h ρ hρ hk r xs hx)]
      rfl
  · rfl
  · split
    · simp_all
    · rfl

end

/-! ## assembling -/

theorem core_of_body {h : Heap} {ms : List Gen.ArgModel} {U U' : List VArg → Heap → Bool} {args : List Value}
    (hargs : ∀ a ∈ args, TopOK h a) (hU : ∀ va, (∀ v, VArg.one v ∈ va → TopOK h v) → U va h = U' va h) :
    (match validate h ms args with
      | none => false
      | some va => U va h) =
    (match validate h ms args with
      | none => false
      | some va => U' va h) := by
  cases hv : validate h ms args with
  | none => rfl
  | some va => exact hU va (validated_topOK hv hargs)

/-- **still_core.** On an acyclic heap without dangling references and with unique object keys, for arguments whose references are
allocated: the extended model is `unmodelled` exactly on `StillCore` — call-backs, non-ASCII case mapping, surrogates, oracle gaps,
and names outside the 42 functions. -/
theorem still_core (T : TextFns) (h : Heap) (ρ : Nat → Nat) (hρ : Ranked h ρ) (hk : KeysUnique h) (f : String) (args : List Value)
    (hargs : ∀ a ∈ args, TopOK h a) : StillUnmodelled T f args h = StillCore T f args h := by
  by_cases hm : f ∈ tableNames
  · simp only [tableNames, stillBodies, List.map_cons, List.map_nil, List.mem_cons, List.not_mem_nil, or_false] at hm
    rcases hm with rfl | rfl | rfl | rfl | rfl | rfl | rfl | rfl | rfl | rfl | rfl | rfl | rfl | rfl | rfl | rfl | rfl | rfl | rfl | rfl |
      rfl | rfl | rfl | rfl | rfl | rfl | rfl | rfl | rfl | rfl | rfl | rfl | rfl | rfl | rfl | rfl | rfl | rfl | rfl
    · exact core_of_body (ms := [arrP "array"]) hargs (fun va ht => uA_core ht)
    · exact core_of_body (ms := [arrP "array", idxP "index"]) hargs (fun va ht => uA_core ht)
    · exact core_of_body (ms := [arrP "array", arrP "array2"]) hargs (fun va ht => uAA_core ht)
    · exact core_of_body (ms := [arrP "array", idxP "index"]) hargs (fun va ht => uA_core ht)
    · exact core_of_body (ms := [arrP "array", anyP "value", idx0P "index"]) hargs (fun va ht => uIndexOf_core hρ hk ht)
    · rfl
    · exact core_of_body (ms := [arrP "array", anyP "value", idxEndP "index"]) hargs (fun va ht => uLastIndexOf_core hρ hk ht)
    · exact core_of_body (ms := [arrP "array"]) hargs (fun va ht => uA_core ht)
    · rfl
    · exact core_of_body (ms := [arrP "array"]) hargs (fun va ht => uA_core ht)
    · exact core_of_body (ms := [arrP "array", { anyP "values" with lastArgArray := true }]) hargs (fun va ht => uA_core ht)
    · exact core_of_body (ms := [arrP "array", idxP "index", anyP "value"]) hargs (fun va ht => uA_core ht)
    · exact core_of_body (ms := [arrP "array"]) hargs (fun va ht => uA_core ht)
    · exact core_of_body (ms := [arrP "array", idx0P "start", idxEndP "end"]) hargs (fun va ht => uA_core ht)
    · exact core_of_body (ms := [arrP "array", { P "compareFn" (some "function") with nullable := true }]) hargs
        (fun va ht => uSort_core hρ hk ht)
    · exact core_of_body (ms := [objP "object", objP "object2"]) hargs (fun va ht => uOO_core ht)
    · exact core_of_body (ms := [objP "object"]) hargs (fun va ht => uO_core ht)
    · exact core_of_body (ms := [objP "object", strP "key"]) hargs (fun va ht => uO_core ht)
    · exact core_of_body (ms := [objP "object", strP "key", anyP "defaultValue"]) hargs (fun va ht => uO_core ht)
    · exact core_of_body (ms := [objP "object", strP "key"]) hargs (fun va ht => uO_core ht)
    · exact core_of_body (ms := [objP "object"]) hargs (fun va ht => uO_core ht)
    · exact core_of_body (ms := [objP "object", strP "key", anyP "value"]) hargs (fun va ht => uO_core ht)
    all_goals rfl
  · -- raw-argument functions and names outside the table: the two predicates are the same expression
    have hsb : (stillBodies T).lookup f = none := by
      apply C15.lookup_none_of_not_mem
      rw [stillBodies_names]; exact hm
    unfold StillUnmodelled StillCore
    simp only [hsb]
    split
    · rfl
    · split
      · rfl
      · cases docSigAll.lookup f <;> rfl

/-- non-vacuity: the hypotheses hold for a heap with nesting and an object (`Ranked`: see the example in C15MoreAcyclic, same heap) -/
example : KeysUnique [.arr [.obj 1, .arr 2], .obj [("k", .arr 2)], .arr [numN 1]] ∧
    (∀ a ∈ [Value.arr 0, Value.arr 2], TopOK [.arr [.obj 1, .arr 2], .obj [("k", .arr 2)], .arr [numN 1]] a) := by
  refine ⟨fun r kvs hr => ?_, fun a ha => ?_⟩
  · match r, hr with
    | 0, hr => simp [getObj] at hr
    | 1, hr => simp [getObj] at hr; subst hr; decide
    | 2, hr => simp [getObj] at hr
    | n + 3, hr => simp [getObj] at hr
  · simp at ha
    rcases ha with rfl | rfl <;> simp [TopOK, getArr]

/-- … and on it a search through nested containers is modelled -/
example : StillCore TextFns.none "arrayIndexOf" [.arr 0, .arr 2] [.arr [.obj 1, .arr 2], .obj [("k", .arr 2)], .arr [numN 1]] = false := by
  decide

end C15More
