import BareModel.LibCb
import BareProofs.C11Lemmas

/-!
# C15Cb — lemmas: the sorting computation `LibCb.pySort` (CPython's `count_run` + `binarysort`) run purely

* `eval_bind`, `questions_bind`     the `Ask` monad
* `bsearch_eval`                    binary search on a list split into "not below the pivot" / "below the pivot" finds the split point
* `insertBy_split`                  … which is where the linear stable insertion `Compare.insertBy` inserts
* `binarySort_eval`                 binary insertion sort = `foldl insertBy` on an ordered prefix
* `extendRun_eval`                  `count_run` returns a run that is ordered (non-descending) / strictly descending
* `pySort_eval`                     **for every comparator that is a total preorder, `pySort` returns `Compare.sortBy`** — the stable
                                    insertion sort of C11, hence (`C11.sortBy_spec`) the unique ordered stable permutation
* `AllPerm`, `pySort_allPerm`       every list `pySort` ever holds (the `cur` of every question, the result) is a permutation of the
                                    input, whatever the answers are
-/

namespace C15Cb
open LibCb Compare C11

variable {α β γ : Type}

/-! ## the `Ask` monad -/

theorem eval_bind (lt : α → α → Bool) (a : Ask α β) (f : β → Ask α γ) :
    (a.bind f).eval lt = (f (a.eval lt)).eval lt := by
  induction a with
  | done b => rfl
  | ask cur x y k ih => simp only [Ask.bind, Ask.eval, ih]

theorem questions_bind (lt : α → α → Bool) (a : Ask α β) (f : β → Ask α γ) :
    (a.bind f).questions lt = a.questions lt ++ (f (a.eval lt)).questions lt := by
  induction a with
  | done b => rfl
  | ask cur x y k ih => simp only [Ask.bind, Ask.eval, Ask.questions, ih, List.cons_append]

/-! ## binary search = linear stable insertion on a split list -/

/-- `A` = the elements the pivot is NOT below, `B` = the elements it is below -/
theorem bsearch_eval (lt : α → α → Bool) (cur : List α) (x : α) (A B : List α)
    (hA : ∀ y ∈ A, lt x y = false) (hB : ∀ y ∈ B, lt x y = true) :
    ∀ (fuel l r : Nat), l ≤ A.length → A.length ≤ r → r ≤ (A ++ B).length → r - l < fuel →
      (bsearch cur x (A ++ B) fuel l r).eval lt = A.length := by
  intro fuel
  induction fuel with
  | zero => intro l r _ _ _ h; omega
  | succ fuel ih =>
    intro l r hl hr hlen hf
    unfold bsearch
    by_cases hlr : l < r
    · simp only [hlr, if_true]
      have hp : l + (r - l) / 2 < (A ++ B).length := by omega
      rw [List.getElem?_eq_getElem hp]
      simp only [Ask.eval]
      by_cases hpa : l + (r - l) / 2 < A.length
      · have hy : lt x (A ++ B)[l + (r - l) / 2] = false := by
          rw [List.getElem_append_left hpa]; exact hA _ (List.getElem_mem _)
        rw [hy]
        simp only [Bool.false_eq_true, if_false]
        exact ih _ _ (by omega) hr hlen (by omega)
      · have hy : lt x (A ++ B)[l + (r - l) / 2] = true := by
          rw [List.getElem_append_right (by omega)]; exact hB _ (List.getElem_mem _)
        rw [hy]
        simp only [if_true]
        exact ih _ _ hl (by omega) (by omega) (by omega)
    · simp only [hlr, if_false, Ask.eval]; omega

theorem insertBy_split (lt : α → α → Bool) (x : α) : ∀ (A B : List α),
    (∀ y ∈ A, lt x y = false) → (∀ y ∈ B, lt x y = true) → insertBy lt x (A ++ B) = A ++ x :: B
  | [], [], _, _ => rfl
  | [], b :: B, _, hB => by simp [insertBy, hB b (by simp)]
  | a :: A, B, hA, hB => by
    have := insertBy_split lt x A B (fun y hy => hA y (by simp [hy])) hB
    simp [insertBy, hA a (by simp), this]

theorem insertAt_split (x : α) (A B : List α) : insertAt (A ++ B) A.length x = A ++ x :: B := by
  simp [insertAt]

section Pre
variable {c : α → α → Int}

/-- an ordered list splits at the pivot -/
theorem sorted_split (h : IsPre c) (x : α) : ∀ l : List α, Sorted c l →
    ∃ A B, l = A ++ B ∧ (∀ y ∈ A, ltOf c x y = false) ∧ (∀ y ∈ B, ltOf c x y = true)
  | [], _ => ⟨[], [], rfl, by simp, by simp⟩
  | y :: ys, hs => by
    have ⟨hy, hys⟩ := List.pairwise_cons.mp hs
    by_cases hxy : c x y < 0
    · refine ⟨[], y :: ys, rfl, by simp, fun z hz => ?_⟩
      rcases List.mem_cons.mp hz with rfl | hz
      · simp [ltOf, hxy]
      · have := h.lt_le hxy (hy z hz); simp [ltOf, this]
    · obtain ⟨A, B, e, hA, hB⟩ := sorted_split h x ys hys
      refine ⟨y :: A, B, by simp [e], fun z hz => ?_, hB⟩
      rcases List.mem_cons.mp hz with rfl | hz
      · simp [ltOf, hxy]
      · exact hA z hz

theorem binarySort_eval (h : IsPre c) : ∀ (rest sorted : List α), Sorted c sorted →
    (binarySort sorted rest).eval (ltOf c) = rest.foldl (fun acc x => insertBy (ltOf c) x acc) sorted
  | [], _, _ => rfl
  | x :: rest, sorted, hs => by
    obtain ⟨A, B, e, hA, hB⟩ := sorted_split h x sorted hs
    have hb := bsearch_eval (ltOf c) (sorted ++ x :: rest) x A B hA hB ((A ++ B).length + 1) 0 (A ++ B).length
      (by omega) (by simp) (by omega) (by omega)
    unfold binarySort
    rw [eval_bind]
    subst e
    rw [hb, insertAt_split, List.foldl_cons, insertBy_split (ltOf c) x A B hA hB]
    have hs' := insertBy_sorted h x (A ++ B) hs
    rw [insertBy_split (ltOf c) x A B hA hB] at hs'
    exact binarySort_eval h rest _ hs'

/-! ## `count_run` -/

/-- what `count_run` keeps between neighbours of the (reversed) run: strictly below for a descending run, not above otherwise -/
def RunRel (c : α → α → Int) (d : Bool) (a b : α) : Prop := if d then c a b < 0 else c b a ≤ 0

theorem runRel_iff (h : IsPre c) (d : Bool) (x p : α) : ((ltOf c x p == d) = true) ↔ RunRel c d x p := by
  have := h.antisymm x p
  cases d <;> simp [RunRel, ltOf] <;> omega

theorem runRel_trans (h : IsPre c) (d : Bool) {x p z : α} (h1 : RunRel c d x p) (h2 : RunRel c d p z) : RunRel c d x z := by
  cases d
  · simp only [RunRel, Bool.false_eq_true, if_false] at *; exact h.trans _ _ _ h2 h1
  · simp only [RunRel, if_true] at *; exact h.lt_le h1 (Int.le_of_lt h2)

theorem extendRun_eval (h : IsPre c) (cur : List α) (d : Bool) : ∀ (rest rrun : List α), rrun ≠ [] →
    rrun.Pairwise (RunRel c d) →
    ((extendRun cur d rrun rest).eval (ltOf c)).1.Pairwise (RunRel c d) ∧
    ((extendRun cur d rrun rest).eval (ltOf c)).1.reverse ++ ((extendRun cur d rrun rest).eval (ltOf c)).2 = rrun.reverse ++ rest
  | [], rrun, _, hp => by cases rrun <;> simp [extendRun, Ask.eval, hp]
  | x :: rest, [], hne, _ => absurd rfl hne
  | x :: rest, prev :: rr, _, hp => by
    unfold extendRun
    simp only [Ask.eval]
    by_cases hb : (ltOf c x prev == d) = true
    · simp only [hb, if_true]
      have hr : RunRel c d x prev := (runRel_iff h d x prev).mp hb
      have hp' : (x :: prev :: rr).Pairwise (RunRel c d) := by
        refine List.pairwise_cons.mpr ⟨fun z hz => ?_, hp⟩
        rcases List.mem_cons.mp hz with rfl | hz
        · exact hr
        · exact runRel_trans h d hr ((List.pairwise_cons.mp hp).1 z hz)
      have := extendRun_eval h cur d rest (x :: prev :: rr) (by simp) hp'
      refine ⟨this.1, ?_⟩
      rw [this.2]; simp
    · simp only [hb, Bool.false_eq_true, if_false, Ask.eval]
      first | exact ⟨hp, rfl⟩ | exact ⟨hp, trivial⟩

/-! ## the whole sort -/

theorem sortBy_of_sorted (h : IsPre c) (l : List α) (hs : Sorted c l) : sortBy (ltOf c) l = l :=
  (sorted_stable_unique h l _ hs (sortBy_sorted h l) (fun a => (sortBy_stable h l a).symm)).symm

/-- a strictly ordered list has at most one element in every equivalence class -/
theorem filter_strict (h : IsPre c) (a : α) : ∀ l : List α, l.Pairwise (fun x y => c x y < 0) → (l.filter (eqv c a)).length ≤ 1
  | [], _ => by simp
  | x :: l, hp => by
    have ⟨hx, hl⟩ := List.pairwise_cons.mp hp
    by_cases hxa : c x a = 0
    · have hnil : l.filter (eqv c a) = [] := by
        refine List.filter_eq_nil_iff.mpr (fun z hz hza => ?_)
        have hza : c z a = 0 := by simpa [eqv] using hza
        have haz : c a z = 0 := by have := h.antisymm a z; omega
        have := h.eq_eq hxa haz
        have := hx z hz
        omega
      simp [eqv, hxa, hnil]
    · have := filter_strict h a l hl
      simp [eqv, hxa, this]

theorem reverse_of_length_le_one : ∀ l : List α, l.length ≤ 1 → l.reverse = l
  | [], _ => rfl
  | [_], _ => rfl
  | _ :: _ :: _, h => by simp at h

theorem sortBy_reverse_strict (h : IsPre c) (l : List α) (hs : l.Pairwise (fun x y => c x y < 0)) :
    sortBy (ltOf c) l.reverse = l := by
  have hsorted : Sorted c l := hs.imp (fun hab => Int.le_of_lt hab)
  refine (sorted_stable_unique h l _ hsorted (sortBy_sorted h _) (fun a => ?_)).symm
  rw [sortBy_stable h l.reverse a, List.filter_reverse, reverse_of_length_le_one _ (filter_strict h a l hs)]

/-- **The CPython algorithm computes the stable insertion sort.**  For every comparator that is a total preorder (reflexive,
antisymmetric in sign, transitive), `count_run` + `binarysort` run with `x < y := c x y < 0` return `Compare.sortBy`, i.e.
(`C11.sortBy_spec`) the unique ordered permutation in which equal elements keep their order. -/
theorem pySort_eval (h : IsPre c) : ∀ xs : List α, (pySort xs).eval (ltOf c) = sortBy (ltOf c) xs
  | [] => rfl
  | [x] => rfl
  | x0 :: x1 :: tl => by
    unfold pySort
    simp only [Ask.eval]
    rw [eval_bind]
    generalize hd : ltOf c x1 x0 = d
    have hinit : [x1, x0].Pairwise (RunRel c d) := by
      refine List.pairwise_cons.mpr ⟨fun z hz => ?_, by simp⟩
      have hz : z = x0 := by simpa using hz
      subst hz
      exact (runRel_iff h d x1 z).mp (by simp [hd])
    obtain ⟨hp, he⟩ := extendRun_eval h (x0 :: x1 :: tl) d tl [x1, x0] (by simp) hinit
    generalize (extendRun (x0 :: x1 :: tl) d [x1, x0] tl).eval (ltOf c) = p at hp he
    have hxs : x0 :: x1 :: tl = p.1.reverse ++ p.2 := by rw [he]; simp
    rw [hxs]
    cases d
    · -- non-descending run
      have hs : Sorted c p.1.reverse :=
        List.pairwise_reverse.mpr (hp.imp (fun hab => by simpa [RunRel] using hab))
      simp only [Bool.false_eq_true, if_false]
      rw [binarySort_eval h p.2 _ hs, sortBy, List.foldl_append]
      have := sortBy_of_sorted h _ hs
      rw [sortBy] at this
      rw [this]
    · -- strictly descending run, reversed
      have hs' : p.1.Pairwise (fun x y => c x y < 0) := hp.imp (fun hab => by simpa [RunRel] using hab)
      have hs : Sorted c p.1 := hs'.imp (fun hab => Int.le_of_lt hab)
      simp only [if_true]
      rw [binarySort_eval h p.2 _ hs, sortBy, List.foldl_append]
      have := sortBy_reverse_strict h _ hs'
      rw [sortBy] at this
      rw [this]

end Pre

/-! ## every list the algorithm holds is a permutation of the input (any answers) -/

/-- every `cur` of every question and every result satisfies `P` -/
inductive AllP (P : List α → Prop) : Ask α (List α) → Prop where
  | done {ys : List α} : P ys → AllP P (.done ys)
  | ask {cur : List α} {x y : α} {k : Bool → Ask α (List α)} : P cur → (∀ b, AllP P (k b)) → AllP P (.ask cur x y k)

/-- the questions of `a` all carry a `cur` satisfying `P`, and every possible result satisfies `Q` -/
inductive CurP {β : Type} (P : List α → Prop) (Q : β → Prop) : Ask α β → Prop where
  | done {b : β} : Q b → CurP P Q (.done b)
  | ask {cur : List α} {x y : α} {k : Bool → Ask α β} : P cur → (∀ b, CurP P Q (k b)) → CurP P Q (.ask cur x y k)

theorem allP_bind {β : Type} (P : List α → Prop) (Q : β → Prop) (a : Ask α β) (f : β → Ask α (List α)) (ha : CurP P Q a)
    (hf : ∀ b, Q b → AllP P (f b)) : AllP P (a.bind f) := by
  induction a with
  | done b =>
    cases ha with
    | done hq => exact hf b hq
  | ask cur x y k ih =>
    cases ha with
    | ask hc hk => exact .ask hc (fun b => ih b (hk b))

theorem bsearch_curP (P : List α → Prop) (cur : List α) (hc : P cur) (x : α) (sorted : List α) :
    ∀ fuel l r, CurP P (fun _ => True) (bsearch cur x sorted fuel l r) := by
  intro fuel
  induction fuel with
  | zero => intro l r; exact .done trivial
  | succ fuel ih =>
    intro l r
    unfold bsearch
    dsimp only
    split
    · split
      · exact .ask hc (fun b => by cases b <;> simp [ih])
      · exact .done trivial
    · exact .done trivial

theorem insertAt_perm (l : List α) (i : Nat) (x : α) : (insertAt l i x).Perm (x :: l) := by
  unfold insertAt
  have h1 : (l.take i ++ x :: l.drop i).Perm (x :: (l.take i ++ l.drop i)) := List.perm_middle
  rwa [List.take_append_drop] at h1

theorem binarySort_allPerm (xs : List α) : ∀ (rest sorted : List α), (sorted ++ rest).Perm xs →
    AllP (fun l => l.Perm xs) (binarySort sorted rest)
  | [], sorted, hp => .done (by simpa using hp)
  | x :: rest, sorted, hp => by
    unfold binarySort
    refine allP_bind _ _ _ _ (bsearch_curP (fun l => l.Perm xs) _ hp _ _ _ _ _) (fun l _ => ?_)
    refine binarySort_allPerm xs rest _ ?_
    refine List.Perm.trans ?_ hp
    have := (insertAt_perm sorted l x).append_right rest
    refine this.trans ?_
    simpa using (List.perm_middle (l₁ := sorted) (l₂ := rest) (a := x)).symm

/-- the pair `count_run` returns re-assembles to its input, whatever the answers -/
theorem extendRun_curP (P : List α → Prop) (cur : List α) (hc : P cur) (d : Bool) (whole : List α) :
    ∀ (rest rrun : List α), rrun.reverse ++ rest = whole →
      CurP P (fun p : List α × List α => p.1.reverse ++ p.2 = whole) (extendRun cur d rrun rest)
  | [], rrun, he => by cases rrun <;> exact .done he
  | x :: rest, [], he => .done he
  | x :: rest, prev :: rr, he => by
    unfold extendRun
    refine .ask hc (fun b => ?_)
    split
    · exact extendRun_curP P cur hc d whole rest _ (by rw [← he]; simp)
    · exact .done he

/-- **whatever the comparator answers** (inconsistent, effectful, …), every list CPython would put back into the array when a
comparison raises, and the final result, is a permutation of the original contents -/
theorem pySort_allPerm : ∀ xs : List α, AllP (fun l => l.Perm xs) (pySort xs)
  | [] => .done (List.Perm.refl _)
  | [x] => .done (List.Perm.refl _)
  | x0 :: x1 :: tl => by
    unfold pySort
    refine .ask (List.Perm.refl _) (fun d => ?_)
    refine allP_bind _ _ _ _ (extendRun_curP (fun l => l.Perm (x0 :: x1 :: tl)) _ (List.Perm.refl _) d (x0 :: x1 :: tl) tl [x1, x0] (by simp)) (fun p hp => ?_)
    cases d
    · simp only [Bool.false_eq_true, if_false]
      exact binarySort_allPerm _ _ _ (by rw [hp])
    · simp only [if_true]
      refine binarySort_allPerm _ _ _ ?_
      rw [← hp]
      exact (List.reverse_perm p.1).symm.append_right p.2

end C15Cb
