import BareModel.Lib

/-!
# C15 — contracts of the string primitives: `find` is the least match, `split` and `join` are inverse,
`replace` is `split` + `join`
-/

namespace C15
open Lib

/-- `sep.join(parts)` -/
def joinWith (sep : List Char) : List (List Char) → List Char
  | [] => []
  | [x] => x
  | x :: y :: rest => x ++ sep ++ joinWith sep (y :: rest)

theorem prefix_split {sub s : List Char} (h : sub.isPrefixOf s = true) : s = sub ++ s.drop sub.length := by
  have := List.isPrefixOf_iff_prefix.mp h
  exact (List.prefix_iff_eq_append.mp this).symm

theorem splitAux_ne_nil (sep : List Char) : ∀ (s : List Char) (skip : Nat) (cur : List Char), splitAux sep s skip cur ≠ []
  | [], _, _ => by simp [splitAux]
  | _ :: cs, skip + 1, cur => by simp only [splitAux]; exact splitAux_ne_nil sep cs skip cur
  | c :: cs, 0, cur => by
    simp only [splitAux]
    split
    · simp
    · exact splitAux_ne_nil sep cs 0 (c :: cur)

theorem joinWith_cons (sep x : List Char) (l : List (List Char)) (hl : l ≠ []) :
    joinWith sep (x :: l) = x ++ sep ++ joinWith sep l := by
  cases l with
  | nil => exact absurd rfl hl
  | cons y r => rfl

/-- invariant of the splitting loop: joining what it produces gives back the text read so far plus the unread rest -/
theorem splitAux_join (sep : List Char) (hsep : sep ≠ []) : ∀ (s : List Char) (skip : Nat) (cur : List Char),
    joinWith sep (splitAux sep s skip cur) = cur.reverse ++ s.drop skip
  | [], skip, cur => by simp [splitAux, joinWith]
  | c :: cs, skip + 1, cur => by
    simp only [splitAux, List.drop_succ_cons]
    exact splitAux_join sep hsep cs skip cur
  | c :: cs, 0, cur => by
    simp only [splitAux, List.drop_zero]
    split
    · rename_i hp
      rw [joinWith_cons _ _ _ (splitAux_ne_nil sep cs _ _), splitAux_join sep hsep cs (sep.length - 1) []]
      have hlen : sep.length ≥ 1 := by
        cases sep with
        | nil => exact absurd rfl hsep
        | cons a t => simp
      have hd : (c :: cs).drop sep.length = cs.drop (sep.length - 1) := by
        have : sep.length = (sep.length - 1) + 1 := by omega
        rw [this, List.drop_succ_cons]
        simp
      have := prefix_split hp
      rw [hd] at this
      simp only [List.reverse_nil, List.nil_append, List.append_assoc]
      rw [← this]
    · rw [splitAux_join sep hsep cs 0 (c :: cur)]
      simp

/-- **split / join.** For a non-empty separator, joining the pieces of `s.split(sep)` with `sep` gives back `s`
(`stringSplit` followed by `arrayJoin` with the same separator is the identity). -/
theorem split_join (s sep : List Char) (hsep : sep ≠ []) : joinWith sep (pySplit s sep) = s := by
  unfold pySplit
  rw [splitAux_join sep hsep s 0 []]
  simp

/-- **replace = split + join.** For a non-empty `old`, `s.replace(old, new) = new.join(s.split(old))`. -/
theorem replaceAux_split (old new : List Char) : ∀ (s : List Char) (skip : Nat) (cur : List Char),
    joinWith new (splitAux old s skip cur) = cur.reverse ++ replaceAux old new s skip
  | [], skip, cur => by simp [splitAux, joinWith, replaceAux]
  | c :: cs, skip + 1, cur => by
    simp only [splitAux, replaceAux]
    exact replaceAux_split old new cs skip cur
  | c :: cs, 0, cur => by
    simp only [splitAux, replaceAux]
    split
    · rw [joinWith_cons _ _ _ (splitAux_ne_nil old cs _ _), replaceAux_split old new cs (old.length - 1) []]
      simp
    · rw [replaceAux_split old new cs 0 (c :: cur)]
      simp

theorem replace_split_join (s old new : List Char) (hold : old ≠ []) :
    pyReplace s old new = joinWith new (pySplit s old) := by
  unfold pyReplace pySplit
  have : old.isEmpty = false := by cases old <;> simp_all
  rw [this, replaceAux_split old new s 0 []]
  simp

/-! ## `find` -/

/-- **find is the least match.** If `findFrom sub s i = some j` then `j = i + k` where `k` is the least offset at which `sub`
occurs in `s`; if it is `none`, `sub` occurs at no offset. (`stringIndexOf` calls it on `s.drop start` with `i = start`.) -/
theorem findFrom_spec (sub : List Char) : ∀ (s : List Char) (i : Nat),
    (∀ j, findFrom sub s i = some j → ∃ k, j = i + k ∧ k ≤ s.length ∧ sub.isPrefixOf (s.drop k) = true ∧
        ∀ k', k' < k → sub.isPrefixOf (s.drop k') = false) ∧
    (findFrom sub s i = none → ∀ k, k ≤ s.length → sub.isPrefixOf (s.drop k) = false)
  | [], i => by
    refine ⟨fun j hj => ?_, fun hn k hk => ?_⟩
    · simp only [findFrom] at hj
      split at hj
      · rename_i he
        simp only [Option.some.injEq] at hj
        refine ⟨0, by omega, Nat.le_refl _, ?_, fun k' hk' => absurd hk' (Nat.not_lt_zero _)⟩
        cases sub <;> simp_all
      · simp at hj
    · simp only [findFrom] at hn
      split at hn
      · simp at hn
      · rename_i he
        have : k = 0 := by simpa using hk
        subst this
        cases sub <;> simp_all
  | c :: cs, i => by
    obtain ⟨ih1, ih2⟩ := findFrom_spec sub cs (i + 1)
    refine ⟨fun j hj => ?_, fun hn k hk => ?_⟩
    · simp only [findFrom] at hj
      split at hj
      · rename_i hp
        simp only [Option.some.injEq] at hj
        exact ⟨0, by omega, Nat.zero_le _, by simpa using hp, fun k' hk' => absurd hk' (Nat.not_lt_zero _)⟩
      · rename_i hp
        obtain ⟨k, hk1, hk2, hk3, hk4⟩ := ih1 j hj
        refine ⟨k + 1, by omega, by simp; omega, by simpa using hk3, fun k' hk' => ?_⟩
        cases k' with
        | zero => exact Bool.eq_false_iff.mpr hp
        | succ k' => simpa using hk4 k' (by omega)
    · simp only [findFrom] at hn
      split at hn
      · simp at hn
      · rename_i hp
        cases k with
        | zero => exact Bool.eq_false_iff.mpr hp
        | succ k => simpa using ih2 hn k (by simpa using hk)

/-- **rfind is the greatest match.** -/
theorem lastMatch_spec (sub : List Char) : ∀ (s : List Char) (i : Nat),
    (∀ j, lastMatch sub s i = some j → ∃ k, j = i + k ∧ k ≤ s.length ∧ sub.isPrefixOf (s.drop k) = true ∧
        ∀ k', k < k' → k' ≤ s.length → sub.isPrefixOf (s.drop k') = false) ∧
    (lastMatch sub s i = none → ∀ k, k ≤ s.length → sub.isPrefixOf (s.drop k) = false)
  | [], i => by
    refine ⟨fun j hj => ?_, fun hn k hk => ?_⟩
    · simp only [lastMatch] at hj
      split at hj
      · simp only [Option.some.injEq] at hj
        refine ⟨0, by omega, Nat.le_refl _, ?_, fun k' hk' hk'' => ?_⟩
        · cases sub <;> simp_all
        · simp at hk''; omega
      · simp at hj
    · simp only [lastMatch] at hn
      split at hn
      · simp at hn
      · have : k = 0 := by simpa using hk
        subst this
        cases sub <;> simp_all
  | c :: cs, i => by
    obtain ⟨ih1, ih2⟩ := lastMatch_spec sub cs (i + 1)
    refine ⟨fun j hj => ?_, fun hn k hk => ?_⟩
    · simp only [lastMatch] at hj
      split at hj
      · rename_i j' hj'
        simp only [Option.some.injEq] at hj
        subst hj
        obtain ⟨k, hk1, hk2, hk3, hk4⟩ := ih1 j' hj'
        refine ⟨k + 1, by omega, by simp; omega, by simpa using hk3, fun k' hk' hk'' => ?_⟩
        cases k' with
        | zero => omega
        | succ k' => simpa using hk4 k' (by omega) (by simpa using hk'')
      · rename_i hnone
        split at hj
        · rename_i hp
          simp only [Option.some.injEq] at hj
          refine ⟨0, by omega, Nat.zero_le _, by simpa using hp, fun k' hk' hk'' => ?_⟩
          cases k' with
          | zero => omega
          | succ k' => simpa using ih2 hnone k' (by simpa using hk'')
        · simp at hj
    · simp only [lastMatch] at hn
      split at hn
      · simp at hn
      · rename_i hnone
        split at hn
        · simp at hn
        · rename_i hp
          cases k with
          | zero => exact Bool.eq_false_iff.mpr hp
          | succ k => simpa using ih2 hnone k (by simpa using hk)

/-! ### non-vacuity -/
example : pySplit ['a', ',', 'b', ',', ',', 'c'] [','] = [['a'], ['b'], [], ['c']] := by decide
example : joinWith [','] (pySplit ['a', ',', 'b', ',', ',', 'c'] [',']) = ['a', ',', 'b', ',', ',', 'c'] := by decide
example : pyReplace ['a', 'b', 'a', 'b', 'a'] ['a', 'b'] ['x'] = ['x', 'x', 'a'] := by decide
example : findFrom ['b', 'c'] ['a', 'b', 'c', 'b', 'c'] 0 = some 1 := by decide
example : lastMatch ['b', 'c'] ['a', 'b', 'c', 'b', 'c'] 0 = some 3 := by decide

end C15
