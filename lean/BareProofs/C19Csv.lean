import BareProofs.C19Lemmas
import BareProofs.C13
import BareProofs.C16

/-!
C19, CSV typing: a column of cell texts gets the type of its first determinable cell; canonical texts of typed values
parse back to the values (numbers via C13, datetimes via C16).
-/

namespace C19
open Compare Data

/-! ## one column through `validate_data(csv=True)` -/

/-- the type of the first cell that determines one (a cell that is neither `""` nor `"null"`) -/
def firstType (offU : Int → Int) : List String → Option FieldType
  | [] => none
  | c :: cs =>
    match detectType true offU (.str c) with
    | some (some t) => some t
    | _ => firstType offU cs

/-- the column type: string when no cell determines one -/
def colType (offU : Int → Int) (cells : List String) : FieldType := (firstType offU cells).getD .string

theorem detectType_str (offU : Int → Int) (c : String) : ∃ x, detectType true offU (.str c) = some x := by
  unfold detectType
  simp only [Bool.not_true, Bool.false_eq_true, if_false]
  split
  · exact ⟨_, rfl⟩
  · split
    · exact ⟨_, rfl⟩
    · split
      · exact ⟨_, rfl⟩
      · split <;> exact ⟨_, rfl⟩

theorem firstType_append (offU : Int → Int) (c : String) : ∀ pre : List String,
    firstType offU (pre ++ [c]) = match firstType offU pre with
      | some t => some t
      | none => (detectType true offU (.str c)).join
  | [] => by
    obtain ⟨x, hx⟩ := detectType_str offU c
    cases x <;> simp [firstType, hx]
  | p :: pre => by
    obtain ⟨x, hx⟩ := detectType_str offU p
    cases x with
    | none => simp [firstType, hx, firstType_append offU c pre]
    | some t => simp [firstType, hx]

/-- the `types` dict after the first pass over a prefix of the column -/
def typesAfter (offU : Int → Int) (f : String) (pre : List String) : List (String × Option FieldType) :=
  if pre = [] then [] else [(f, firstType offU pre)]

theorem detect_fold (offU : Int → Int) (f : String) : ∀ (cells pre : List String),
    (cells.map (fun c => [(f, PValue.str c)])).foldl (fun types row => row.foldl (detectCell true offU) types) (typesAfter offU f pre) =
      typesAfter offU f (pre ++ cells)
  | [], pre => by simp
  | c :: cells, pre => by
    have ih := detect_fold offU f cells (pre ++ [c])
    simp only [List.map_cons, List.foldl_cons, List.foldl_nil]
    have step : detectCell true offU (typesAfter offU f pre) (f, .str c) = typesAfter offU f (pre ++ [c]) := by
      obtain ⟨x, hx⟩ := detectType_str offU c
      unfold typesAfter
      by_cases hp : pre = []
      · subst hp
        cases x <;> simp [detectCell, typesGet, bucketLookup, hx, typesSet, firstType]
      · have hne : pre ++ [c] ≠ [] := by simp
        simp only [hp, hne, if_false, firstType_append]
        cases hft : firstType offU pre with
        | some t => simp [detectCell, typesGet, bucketLookup]
        | none => simp [detectCell, typesGet, bucketLookup, hx, typesSet]
    rw [step]
    simpa using ih

theorem detectTypes_column (offU : Int → Int) (f : String) (cells : List String) :
    detectTypes true offU (cells.map (fun c => [(f, PValue.str c)])) = if cells = [] then [] else [(f, colType offU cells)] := by
  have := detect_fold offU f cells []
  simp only [typesAfter, if_true, List.nil_append] at this
  unfold detectTypes
  rw [this]
  split <;> simp [colType]

theorem convertRows_column (offU : Int → Int) (f : String) (t : FieldType) (v : String → PValue) : ∀ cells : List String,
    (∀ c ∈ cells, convertCell true offU f t (.str c) = .ok (v c)) →
    convertRows true offU [(f, t)] (cells.map (fun c => [(f, PValue.str c)])) = .ok (cells.map (fun c => [(f, v c)]))
  | [], _ => rfl
  | c :: cells, h => by
    have hc := h c (by simp)
    have ih := convertRows_column offU f t v cells (fun c' hc' => h c' (by simp [hc']))
    simp [convertRows, convertRow, bucketLookup, hc, ih, Except.map]

/-- **one column**: if every cell converts under the type of the first determinable cell, `validate_data` returns the
converted column (otherwise it raises: `convertCell` names the offending cell) -/
theorem validate_column_eq (offU : Int → Int) (f : String) (cells : List String) (v : String → PValue)
    (hconv : ∀ c ∈ cells, convertCell true offU f (colType offU cells) (.str c) = .ok (v c)) :
    validateData true offU (cells.map (fun c => [(f, PValue.str c)])) = .ok (cells.map (fun c => [(f, v c)])) := by
  unfold validateData
  rw [detectTypes_column]
  by_cases hc : cells = []
  · subst hc; rfl
  · simp only [hc, if_false]
    exact convertRows_column offU f _ v cells hconv

/-! ## the text parsers on canonical texts -/

theorem isoParse_nil (offU : Int → Int) : Datetime.isoParse offU [] = none := rfl

theorem parseDatetime_empty (offU : Int → Int) : parseDatetime offU "" = none := rfl

theorem parseDatetime_null (offU : Int → Int) : parseDatetime offU "null" = none := by
  simp [parseDatetime, Datetime.isoParse, Datetime.scanDate, Datetime.scanDateTime]

theorem parseDatetime_true (offU : Int → Int) : parseDatetime offU "true" = none := by
  simp [parseDatetime, Datetime.isoParse, Datetime.scanDate, Datetime.scanDateTime]

theorem parseDatetime_false (offU : Int → Int) : parseDatetime offU "false" = none := by
  simp [parseDatetime, Datetime.isoParse, Datetime.scanDate, Datetime.scanDateTime]

/-- C16's ISO round trip, for the text `value_string`/`datetimeISOFormat` produce (no sub-millisecond part) -/
theorem iso_roundtrip (offL offU : Int → Int) (t : Datetime.DT) (hv : t.Valid)
    (hmin : offL (Datetime.toLocalMs t) % 60 = 0) (hlo : -86400 < offL (Datetime.toLocalMs t)) (hhi : offL (Datetime.toLocalMs t) < 86400)
    (hexists : offU (Datetime.toLocalMs t - offL (Datetime.toLocalMs t) * 1000) = offL (Datetime.toLocalMs t))
    (hutc : (Datetime.ofLocalMs (Datetime.toLocalMs t - offL (Datetime.toLocalMs t) * 1000)).isSome = true) :
    Datetime.isoParse offU (Datetime.isoFormat offL t) = some t :=
  C16.iso_roundtrip_partial offL offU t 0 hv hmin hlo hhi hexists hutc

open NumText in
/-- `value_parse_number(str(n))` for a Python `int` inside the double range -/
theorem parseNumber_int (z : Int) (hlo : -overflowBound < (z : Rat)) (hhi : (z : Rat) < overflowBound) :
    parseNumber (valueStringNum (.int z)) = some (.num z) := by
  have hasc := C13.ascii_natStr z.natAbs
  have key : ∀ (sg : Sign), (valueStringNum (.int z)).toList = Tok.text ⟨sg, natStr z.natAbs, none, none⟩ →
      parseNumber (valueStringNum (.int z)) = some (.num z) := by
    intro sg htext
    have hw : C13.TokWF false ⟨sg, natStr z.natAbs, none, none⟩ :=
      ⟨C13.digs_of_ascii hasc, by simp, Or.inl (C13.natStr_ne_nil _), by simp⟩
    have ha : C13.TokAscii ⟨sg, natStr z.natAbs, none, none⟩ := ⟨hasc, by simp, by simp⟩
    have hs : valueStringNum (.int z) = String.ofList (Tok.text ⟨sg, natStr z.natAbs, none, none⟩) := by
      rw [← htext]; simp
    have hval : (Tok.val ⟨sg, natStr z.natAbs, none, none⟩) = (z : Rat) := by
      have h1 := C13.int_text_roundtrip z
      simp only [decVal, htext, C13.decValL_text hw, Option.some.injEq] at h1
      exact h1
    have hft := C13.floatText_text hw hw ha
    have hno : ¬ (overflowBound ≤ (z : Rat) ∨ (z : Rat) ≤ -overflowBound) := by
      rintro (h1 | h1)
      · exact absurd hhi (Rat.not_lt.mpr h1)
      · exact absurd hlo (Rat.not_lt.mpr h1)
    simp [parseNumber, numberParseFloat, hs, hft, hval, hno]
  by_cases hn : z < 0
  · exact key .minus (by simp [valueStringNum, intStr, intStrL, hn, String.toList_ofList, Tok.text, Sign.text, fracText, expText])
  · exact key .none (by simp [valueStringNum, intStr, intStrL, hn, String.toList_ofList, Tok.text, Sign.text, fracText, expText])

open NumText in
/-- `value_parse_number(value_string(x))` for a finite `float` whose `repr` text is given (assumptions A1/A2 of C13) -/
theorem parseNumber_float (r : String) (q : Rat) (hr : IsRepr r) (hq : decVal r = some q)
    (hlo : -overflowBound < q) (hhi : q < overflowBound) :
    parseNumber (valueStringNum (.float r)) = some (.num q) := by
  simp [parseNumber, valueStringNum, C13.numberParseFloat_strip_repr r hr q hq hlo hhi]

end C19
