import BareProofs.C06Regex8Lemmas

/-!
# C06Regex9Lemmas — `_R_EXPR_NUMBER`: closed forms in front of an always-accepting continuation; re-scanning the captured text
-/

namespace C06Regex
open Rx Text RxPatterns

/-! ## the optional pieces in front of a total continuation (greedy never backs off: the rest accepts anything) -/

theorem isDigit_test : Atom.digit.test = ExprScan.isDigit := rfl

theorem st_fix (st : St) : (⟨st.pos + (st.rest.length - st.rest.length), st.rest, st.caps⟩ : St) = st := by
  cases st; simp

/-- `\d+` in front of a total continuation: all digits -/
theorem digits_plus_total (st : St) (k : K) (hk : Total k) :
    (Rx.plus (.one .digit)).m st k =
      if (st.rest.takeWhile ExprScan.isDigit).isEmpty then none
      else k ⟨st.pos + (st.rest.takeWhile ExprScan.isDigit).length, st.rest.dropWhile ExprScan.isDigit, st.caps⟩ := by
  rw [plus_m, one_m']
  unfold step
  cases hr : st.rest with
  | nil => rfl
  | cons d r =>
    simp only [isDigit_test]
    by_cases hd : ExprScan.isDigit d = true
    · simp only [hd, if_true, List.takeWhile_cons, List.dropWhile_cons, List.isEmpty_cons, Bool.false_eq_true, if_false,
        List.length_cons]
      rw [digits_first _ _ hk]
      simp only [Nat.add_assoc, Nat.add_comm 1]
    · simp [hd, List.takeWhile_cons]

/-- `(?:\.\d*)?` in front of a total continuation = `ExprScan.scanFrac` -/
theorem optFrac_total (st : St) (k : K) (hk : Total k) :
    (Rx.opt (.ncg (elit '.' ⬝ .star (.one .digit)))).m st k =
      k ⟨st.pos + (st.rest.length - (ExprScan.scanFrac st.rest).2.length), (ExprScan.scanFrac st.rest).2, st.caps⟩ := by
  rw [opt_m, ncg_m, seq_m]
  unfold elit
  rw [one_m', step_lit]
  cases hr : st.rest with
  | nil =>
    have := st_fix st; rw [hr] at this
    simp only [ExprScan.scanFrac, none_orElse_st]
    rw [this]
  | cons c r =>
    by_cases hc : c = '.'
    · subst hc
      simp only [if_true, ExprScan.scanFrac]
      rw [digits_first _ _ hk]
      obtain ⟨v, hv⟩ := total_some_of hk ⟨st.pos + 1 + (r.takeWhile ExprScan.isDigit).length, r.dropWhile ExprScan.isDigit, st.caps⟩
      have hl : (r.takeWhile ExprScan.isDigit).length + (r.dropWhile ExprScan.isDigit).length = r.length := by
        have := congrArg List.length (List.takeWhile_append_dropWhile (p := ExprScan.isDigit) (l := r))
        rwa [List.length_append] at this
      rw [show st.pos + (('.' :: r).length - (r.dropWhile ExprScan.isDigit).length) =
        st.pos + 1 + (r.takeWhile ExprScan.isDigit).length from by simp only [List.length_cons]; omega]
      rw [hv]; rfl
    · have := st_fix st; rw [hr] at this
      simp only [hc, if_false, ExprScan.scanFrac, none_orElse_st]
      rw [this]

/-- when the exponent is taken -/
def expTaken (c s : Char) (r : Chars) : Prop :=
  c = 'e' ∧ (s = '+' ∨ s = '-') ∧ (r.takeWhile ExprScan.isDigit).isEmpty = false

instance (c s : Char) (r : Chars) : Decidable (expTaken c s r) := by unfold expTaken; exact inferInstance

theorem scanExp_cons2 (c s : Char) (r : Chars) :
    ExprScan.scanExp (c :: s :: r) =
      if expTaken c s r then
        (if s = '-' then -((ExprScan.digitsVal (r.takeWhile ExprScan.isDigit) : Nat) : Int)
          else ((ExprScan.digitsVal (r.takeWhile ExprScan.isDigit) : Nat) : Int), r.dropWhile ExprScan.isDigit)
      else (0, c :: s :: r) := by
  unfold expTaken
  by_cases hc : c = 'e'
  · by_cases hs : s = '+' ∨ s = '-'
    · have hb : (decide (s = '+') || decide (s = '-')) = true := by simpa using hs
      by_cases he : (r.takeWhile ExprScan.isDigit).isEmpty = true
      · simp [ExprScan.scanExp, hc, hb, he, hs]
      · have he' : (r.takeWhile ExprScan.isDigit).isEmpty = false := by simpa using he
        simp [ExprScan.scanExp, hc, hb, he', hs]
    · have hb : (decide (s = '+') || decide (s = '-')) = false := by simpa using hs
      simp [ExprScan.scanExp, hc, hb, hs]
  · simp [ExprScan.scanExp, hc]

theorem scanExp_short (x : Chars) (h : x.length < 2) : ExprScan.scanExp x = (0, x) := by
  cases x with
  | nil => rfl
  | cons c t =>
    cases t with
    | nil => rfl
    | cons s r => simp at h; omega

/-- `(?:e[+-]\d+)?` in front of a total continuation = `ExprScan.scanExp` -/
theorem optExp_total (st : St) (k : K) (hk : Total k) :
    (Rx.opt (.ncg (lit 'e' ⬝ signCls ⬝ digits1))).m st k =
      k ⟨st.pos + (st.rest.length - (ExprScan.scanExp st.rest).2.length), (ExprScan.scanExp st.rest).2, st.caps⟩ := by
  have hfix := st_fix st
  rw [opt_m, ncg_m]
  simp only [seq_m]
  unfold lit signCls digits1
  rw [one_m', step_lit]
  cases hr : st.rest with
  | nil => rw [hr] at hfix; rw [scanExp_short [] (by simp)]; simp only [none_orElse_st]; rw [hfix]
  | cons c t =>
    rw [hr] at hfix
    cases t with
    | nil =>
      rw [scanExp_short [c] (by simp)]
      by_cases hc : c = 'e'
      · simp only [hc, if_true, one_m', step, none_orElse_st]; rw [← hc, hfix]
      · simp only [hc, if_false, none_orElse_st]; rw [hfix]
    | cons s r =>
      rw [scanExp_cons2]
      by_cases ht : expTaken c s r
      · obtain ⟨hce, hs, he⟩ := ht
        have hsb : (s == '+' || s == '-') = true := by simpa using hs
        subst hce
        simp only [if_true, one_m', step, sign_test, hsb]
        rw [digits_plus_total _ _ hk]
        simp only [he, Bool.false_eq_true, if_false, if_pos (show expTaken 'e' s r from ⟨rfl, hs, he⟩)]
        obtain ⟨v, hv⟩ := total_some_of hk ⟨st.pos + 1 + 1 + (r.takeWhile ExprScan.isDigit).length, r.dropWhile ExprScan.isDigit, st.caps⟩
        have hl : (r.takeWhile ExprScan.isDigit).length + (r.dropWhile ExprScan.isDigit).length = r.length := by
          have := congrArg List.length (List.takeWhile_append_dropWhile (p := ExprScan.isDigit) (l := r))
          rwa [List.length_append] at this
        rw [show st.pos + (('e' :: s :: r).length - (r.dropWhile ExprScan.isDigit).length) =
          st.pos + 1 + 1 + (r.takeWhile ExprScan.isDigit).length from by simp only [List.length_cons]; omega]
        rw [hv]; rfl
      · simp only [if_neg ht]
        rw [hfix]
        by_cases hc : c = 'e'
        · subst hc
          simp only [if_true, one_m', step, sign_test]
          by_cases hsb : (s == '+' || s == '-') = true
          · have hs : s = '+' ∨ s = '-' := by simpa using hsb
            simp only [hsb, if_true]
            rw [digits_plus_total _ _ hk]
            have he : (r.takeWhile ExprScan.isDigit).isEmpty = true := by
              cases h : (r.takeWhile ExprScan.isDigit).isEmpty with
              | true => rfl
              | false => exact absurd ⟨rfl, hs, h⟩ ht
            simp [he]
          · simp [hsb]
        · simp [hc]

/-! ## lengths, totality of the composed continuations -/

theorem scanExp_len (x : Chars) : (ExprScan.scanExp x).2.length ≤ x.length := by
  cases x with
  | nil => simp [scanExp_short]
  | cons c t =>
    cases t with
    | nil => simp [scanExp_short]
    | cons s r =>
      rw [scanExp_cons2]
      split
      · simp only [List.length_cons]
        exact Nat.le_succ_of_le (Nat.le_succ_of_le (List.dropWhile_sublist _).length_le)
      · exact Nat.le_refl _

theorem total_optExp (k : K) (hk : Total k) : Total (fun st => (Rx.opt (.ncg (lit 'e' ⬝ signCls ⬝ digits1))).m st k) := by
  intro st; show ((Rx.opt _).m st k).isSome = true
  rw [optExp_total _ _ hk]; exact hk _

theorem total_optFrac (k : K) (hk : Total k) : Total (fun st => (Rx.opt (.ncg (elit '.' ⬝ .star (.one .digit)))).m st k) := by
  intro st; show ((Rx.opt _).m st k).isSome = true
  rw [optFrac_total _ _ hk]; exact hk _

theorem digits1_total (st : St) (k : K) (hk : Total k) :
    digits1.m st k =
      if (st.rest.takeWhile ExprScan.isDigit).isEmpty then none
      else k ⟨st.pos + (st.rest.takeWhile ExprScan.isDigit).length, st.rest.dropWhile ExprScan.isDigit, st.caps⟩ :=
  digits_plus_total st k hk

theorem signCls_m (st : St) (k : K) :
    signCls.m st k = match st.rest with
      | c :: r => if (c == '+' || c == '-') = true then k ⟨st.pos + 1, r, st.caps⟩ else none
      | [] => none := by
  unfold signCls
  rw [one_m']
  unfold step
  cases st.rest with
  | nil => rfl
  | cons c r => simp only [sign_test]

/-- what is left behind a number literal whose digits start the text -/
def numTail (x : Chars) : Chars := (ExprScan.scanExp (ExprScan.scanFrac (x.dropWhile ExprScan.isDigit)).2).2

/-- `\d+(?:\.\d*)?(?:e[+-]\d+)?` in front of a total continuation -/
theorem digitsTail_total (st : St) (k : K) (hk : Total k) :
    (digits1 ⬝ Rx.opt (.ncg (elit '.' ⬝ .star (.one .digit))) ⬝ Rx.opt (.ncg (lit 'e' ⬝ signCls ⬝ digits1))).m st k =
      if (st.rest.takeWhile ExprScan.isDigit).isEmpty then none
      else k ⟨st.pos + (st.rest.length - (numTail st.rest).length), numTail st.rest, st.caps⟩ := by
  rw [seq_m]
  have hT : Total (fun st' => (Rx.opt (.ncg (elit '.' ⬝ .star (.one .digit))) ⬝ Rx.opt (.ncg (lit 'e' ⬝ signCls ⬝ digits1))).m st' k) := by
    intro st'
    show ((_ ⬝ _).m st' k).isSome = true
    rw [seq_m]; exact total_optFrac _ (total_optExp k hk) st'
  rw [digits1_total _ _ hT]
  by_cases he : (st.rest.takeWhile ExprScan.isDigit).isEmpty = true
  · simp [he]
  · simp only [he, Bool.false_eq_true, if_false]
    rw [seq_m, optFrac_total _ _ (total_optExp k hk), optExp_total _ _ hk]
    simp only [numTail]
    have hl : (st.rest.takeWhile ExprScan.isDigit).length + (st.rest.dropWhile ExprScan.isDigit).length = st.rest.length := by
      have := congrArg List.length (List.takeWhile_append_dropWhile (p := ExprScan.isDigit) (l := st.rest))
      rwa [List.length_append] at this
    have h1 := scanFrac_len (st.rest.dropWhile ExprScan.isDigit)
    have h2 := scanExp_len (ExprScan.scanFrac (st.rest.dropWhile ExprScan.isDigit)).2
    congr 2
    omega

theorem scanSign_cons (c : Char) (r : Chars) :
    ExprScan.scanSign (c :: r) = if c = '+' then (false, r) else if c = '-' then (true, r) else (false, c :: r) := rfl

/-- the whole number body `[+-]?\d+(?:\.\d*)?(?:e[+-]\d+)?` in front of a total continuation -/
theorem numBody_total (st : St) (k : K) (hk : Total k) :
    (Rx.opt signCls ⬝ digits1 ⬝ Rx.opt (.ncg (elit '.' ⬝ .star (.one .digit))) ⬝ Rx.opt (.ncg (lit 'e' ⬝ signCls ⬝ digits1))).m st k =
      if ((ExprScan.scanSign st.rest).2.takeWhile ExprScan.isDigit).isEmpty then none
      else k ⟨st.pos + (st.rest.length - (numTail (ExprScan.scanSign st.rest).2).length), numTail (ExprScan.scanSign st.rest).2, st.caps⟩ := by
  rw [seq_m, opt_m, signCls_m]
  simp only [digitsTail_total _ _ hk]
  cases hr : st.rest with
  | nil => simp [ExprScan.scanSign]
  | cons c r =>
    rw [scanSign_cons]
    have hnt : ∀ x : Chars, (numTail x).length ≤ x.length := by
      intro x
      have h0 : (x.dropWhile ExprScan.isDigit).length ≤ x.length := (List.dropWhile_sublist _).length_le
      have h1 := scanFrac_len (x.dropWhile ExprScan.isDigit)
      have h2 := scanExp_len (ExprScan.scanFrac (x.dropWhile ExprScan.isDigit)).2
      simp only [numTail]; omega
    by_cases h1 : c = '+'
    · subst h1
      have : ExprScan.isDigit '+' = false := by decide
      simp only [show (('+' : Char) == '+' || ('+' : Char) == '-') = true from by decide, if_true, List.takeWhile_cons, this,
        Bool.false_eq_true, if_false, List.isEmpty_nil, orElse_none']
      by_cases he : (r.takeWhile ExprScan.isDigit).isEmpty = true
      · simp [he]
      · simp only [he, Bool.false_eq_true, if_false]
        congr 2
        have := hnt r
        simp only [List.length_cons]; omega
    · by_cases h2 : c = '-'
      · subst h2
        have : ExprScan.isDigit '-' = false := by decide
        simp only [show (('-' : Char) == '+' || ('-' : Char) == '-') = true from by decide, if_true, List.takeWhile_cons, this,
          Bool.false_eq_true, if_false, List.isEmpty_nil, orElse_none', h1]
        by_cases he : (r.takeWhile ExprScan.isDigit).isEmpty = true
        · simp [he]
        · simp only [he, Bool.false_eq_true, if_false]
          congr 2
          have := hnt r
          simp only [List.length_cons]; omega
      · have hb : (c == '+' || c == '-') = false := by simp [h1, h2]
        simp only [hb, Bool.false_eq_true, if_false, h1, h2, none_orElse_st]

/-! ## re-scanning the captured text gives the same pieces -/

theorem takeWhile_app_nondigit : ∀ (ip y : Chars), (∀ c ∈ ip, ExprScan.isDigit c = true) →
    (∀ c r, y = c :: r → ExprScan.isDigit c = false) →
    (ip ++ y).takeWhile ExprScan.isDigit = ip ∧ (ip ++ y).dropWhile ExprScan.isDigit = y
  | [], y, _, hy => by
    cases y with
    | nil => simp
    | cons c r => simp [List.takeWhile_cons, List.dropWhile_cons, hy c r rfl]
  | d :: ip, y, hip, hy => by
    have hd := hip d (by simp)
    have ih := takeWhile_app_nondigit ip y (fun c hc => hip c (List.mem_cons_of_mem _ hc)) hy
    simp [List.takeWhile_cons, List.dropWhile_cons, hd, ih.1, ih.2]

theorem takeWhile_all_digit (r : Chars) : ∀ c ∈ r.takeWhile ExprScan.isDigit, ExprScan.isDigit c = true :=
  fun c hc => mem_takeWhile_p _ _ _ hc

theorem take_of_append (a b : Chars) : (a ++ b).take ((a ++ b).length - b.length) = a := by
  simp

/-- the exponent part, re-scanned alone -/
theorem scanExp_rescan (x : Chars) :
    ∃ e, x = e ++ (ExprScan.scanExp x).2 ∧ ExprScan.scanExp e = ((ExprScan.scanExp x).1, []) ∧ (∀ c r, e = c :: r → c = 'e') := by
  cases x with
  | nil => exact ⟨[], by simp [scanExp_short], by simp [scanExp_short], by simp⟩
  | cons c t =>
    cases t with
    | nil => exact ⟨[], by simp [scanExp_short], by simp [scanExp_short], by simp⟩
    | cons s r =>
      rw [scanExp_cons2]
      by_cases ht : expTaken c s r
      · obtain ⟨hce, hs, he⟩ := ht
        refine ⟨c :: s :: r.takeWhile ExprScan.isDigit, ?_, ?_, ?_⟩
        · simp [if_pos (show expTaken c s r from ⟨hce, hs, he⟩)]
        · have h1 := takeWhile_app_nondigit (r.takeWhile ExprScan.isDigit) [] (takeWhile_all_digit r) (by simp)
          simp only [List.append_nil] at h1
          have ht2 : expTaken c s (r.takeWhile ExprScan.isDigit) := ⟨hce, hs, by rw [h1.1]; exact he⟩
          rw [scanExp_cons2, if_pos ht2, if_pos (show expTaken c s r from ⟨hce, hs, he⟩), h1.1, h1.2]
        · intro c' r' h; exact (List.cons.inj h).1 ▸ hce
      · exact ⟨[], by simp [if_neg ht], by simp [if_neg ht, scanExp_short], by simp⟩

/-- the fraction part, re-scanned in front of an exponent part -/
theorem scanFrac_rescan (x e : Chars) (he : ∀ c r, e = c :: r → c = 'e') :
    ∃ f, x = f ++ (ExprScan.scanFrac x).2 ∧ ExprScan.scanFrac (f ++ e) = ((ExprScan.scanFrac x).1, e) ∧
      (∀ c r, f ++ e = c :: r → ExprScan.isDigit c = false) := by
  have hend : ∀ c r, e = c :: r → ExprScan.isDigit c = false := fun c r h => by rw [he c r h]; decide
  have hnodot : ∀ c r, e = c :: r → ¬ c = '.' := fun c r h hc => by rw [he c r h] at hc; exact absurd hc (by decide)
  have hbase : ExprScan.scanFrac e = ([], e) := by
    cases e with
    | nil => rfl
    | cons c r => simp [ExprScan.scanFrac, hnodot c r rfl]
  cases x with
  | nil => exact ⟨[], by simp [ExprScan.scanFrac], by simpa [ExprScan.scanFrac] using hbase, by simpa using hend⟩
  | cons c r =>
    by_cases hc : c = '.'
    · subst hc
      refine ⟨'.' :: r.takeWhile ExprScan.isDigit, by simp [ExprScan.scanFrac], ?_, ?_⟩
      · have h1 := takeWhile_app_nondigit (r.takeWhile ExprScan.isDigit) e (takeWhile_all_digit r) hend
        simp [ExprScan.scanFrac, h1.1, h1.2]
      · intro c' r' h; simp at h; rw [← h.1]; decide
    · exact ⟨[], by simp [ExprScan.scanFrac, hc], by simpa [ExprScan.scanFrac, hc] using hbase, by simpa using hend⟩

/-- integer digits, fraction digits, exponent of a text that starts with its digits -/
def numCore (x : Chars) : Chars × Chars × Int :=
  (x.takeWhile ExprScan.isDigit, (ExprScan.scanFrac (x.dropWhile ExprScan.isDigit)).1,
    (ExprScan.scanExp (ExprScan.scanFrac (x.dropWhile ExprScan.isDigit)).2).1)

/-- **prefix stability**: re-scanning exactly the text a number literal consumed gives the same digits and exponent -/
theorem numCore_rescan (x : Chars) : numCore (x.take (x.length - (numTail x).length)) = numCore x := by
  obtain ⟨e, he1, he2, he3⟩ := scanExp_rescan (ExprScan.scanFrac (x.dropWhile ExprScan.isDigit)).2
  obtain ⟨f, hf1, hf2, hf3⟩ := scanFrac_rescan (x.dropWhile ExprScan.isDigit) e he3
  have hx : x = (x.takeWhile ExprScan.isDigit ++ (f ++ e)) ++ numTail x := by
    have h0 := (List.takeWhile_append_dropWhile (p := ExprScan.isDigit) (l := x)).symm
    simp only [numTail, List.append_assoc]
    rw [← he1, ← hf1]; exact h0
  have htake : x.take (x.length - (numTail x).length) = x.takeWhile ExprScan.isDigit ++ (f ++ e) := by
    conv => lhs; arg 2; rw [hx]
    conv => lhs; arg 1; arg 1; rw [hx]
    exact take_of_append _ _
  rw [htake]
  have h1 := takeWhile_app_nondigit (x.takeWhile ExprScan.isDigit) (f ++ e) (takeWhile_all_digit x) hf3
  simp only [numCore, h1.1, h1.2, hf2, he2]

end C06Regex
