import BareModel.ExprParse

/-!
# C02 — text level: tokens, spellings and the scanner lemmas

Specification-side vocabulary for the text-level theorems of `BareProofs/C02.lean`:

* `Tok`, `toks e` — the in-order token sequence of a tree (operands, operators, parentheses, `name(`, commas);
* `Spell tok body` — `body` is a spelling of `tok`: it belongs to the regular language of the token's pattern and denotes
  the token's value (declarative: no priorities, no backtracking);
* `Seg pre ts` — `pre` is the concatenation of `whitespace* spelling` for the tokens `ts`, in order;
* `Lexes text ts` — `text` is `Seg` followed by trailing whitespace.

Scanner lemmas: whenever a scanner of `BareModel/ExprScan.lean` succeeds, what it consumed is whitespace followed by a
spelling of the token it returned, and the rest is returned unchanged.
-/

namespace C02
open ExprParse ExprScan

/-! ## the character classes `\s`, `\d`, `\w`, `[A-Za-z_]` (Unicode tables) against each other -/

theorem isPySpace_eq (c : Char) : isPySpace c = Text.isSpace c := by
  simp only [isPySpace, Text.isSpace, Text.isSpaceN]

def spaceCodes : List Nat :=
  [9, 10, 11, 12, 13, 0x1c, 0x1d, 0x1e, 0x1f, 0x20, 0x85, 0xa0, 0x1680, 0x2000, 0x2001, 0x2002, 0x2003, 0x2004, 0x2005,
   0x2006, 0x2007, 0x2008, 0x2009, 0x200a, 0x2028, 0x2029, 0x202f, 0x205f, 0x3000]

theorem isPySpace_mem {c : Char} (h : isPySpace c = true) : c.toNat ∈ spaceCodes := by
  simp only [isPySpace, Bool.or_eq_true, Bool.and_eq_true, decide_eq_true_eq, beq_iff_eq] at h
  simp only [spaceCodes, List.mem_cons, List.not_mem_nil, or_false]
  omega

theorem spaceCodes_not_word : ∀ n ∈ spaceCodes, Text.isWordN n = false := by decide +kernel

/-- `\s` and `\w` are disjoint -/
theorem space_not_word {c : Char} (h : isPySpace c = true) : isWord c = false :=
  spaceCodes_not_word _ (isPySpace_mem h)

theorem word_not_space {c : Char} (h : isWord c = true) : isPySpace c = false := by
  cases hs : isPySpace c with
  | false => rfl
  | true => rw [space_not_word hs] at h; cases h

/-- `[A-Za-z_]` is part of `\w` -/
theorem idStart_word {c : Char} (h : isIdStart c = true) : isWord c = true := by
  revert h; unfold isIdStart isWord Text.isWord Text.isWordN
  simp only [Bool.or_eq_true, Bool.and_eq_true, decide_eq_true_eq, beq_iff_eq]
  intro h
  have hlt : c.toNat < 128 := by
    rcases h with (h | h) | h
    · omega
    · omega
    · subst h; decide
  simp only [hlt, if_true, Bool.or_eq_true, Bool.and_eq_true, decide_eq_true_eq, beq_iff_eq]
  rcases h with (h | h) | h
  · omega
  · omega
  · subst h; decide

theorem isDigit_iff {c : Char} : isDigit c = true ↔ ∃ r ∈ Rx.digitRanges, r.1 ≤ c.toNat ∧ c.toNat ≤ r.2 := by
  simp only [isDigit, Rx.isDigitU, Rx.isDigitN, List.any_eq_true, Bool.and_eq_true, decide_eq_true_eq]

example : isDigit '٣' = true ∧ digitVal '٣' = 3 ∧ digitVal '𝟡' = 9 ∧ isDigit '²' = false ∧ isWord '²' = true ∧ isWord 'é' = true ∧
    isIdStart 'é' = false ∧ isWord '€' = false := by decide +kernel

/-- every run of `\d` is the ASCII run `0..9` or lies, above ASCII, inside one run of `\w` (finite table fact) -/
theorem digitRanges_word :
    Rx.digitRanges.all (fun r => (r.1 == 48 && r.2 == 57) ||
      (decide (128 ≤ r.1) && Text.wordRanges.any (fun w => decide (w.1 ≤ r.1) && decide (r.2 ≤ w.2)))) = true := by
  decide +kernel

/-- `\d` is part of `\w` -/
theorem digit_word {c : Char} (h : isDigit c = true) : isWord c = true := by
  obtain ⟨r, hr, h1, h2⟩ := isDigit_iff.mp h
  have := List.all_eq_true.mp digitRanges_word r hr
  simp only [Bool.or_eq_true, Bool.and_eq_true, beq_iff_eq, decide_eq_true_eq, List.any_eq_true] at this
  unfold isWord Text.isWord Text.isWordN
  rcases this with ⟨e1, e2⟩ | ⟨e1, w, hw, e2, e3⟩
  · have hlt : c.toNat < 128 := by omega
    simp only [hlt, if_true, Bool.or_eq_true, Bool.and_eq_true, decide_eq_true_eq, beq_iff_eq]
    omega
  · have hlt : ¬ c.toNat < 128 := by omega
    simp only [hlt, if_false, List.any_eq_true, Bool.and_eq_true, decide_eq_true_eq]
    exact ⟨w, hw, by omega, by omega⟩

theorem digit_not_space {c : Char} (h : isDigit c = true) : isPySpace c = false := word_not_space (digit_word h)

/-- no run of `\d` meets `[A-Za-z_]` (finite table fact) -/
theorem digitRanges_not_idStart :
    Rx.digitRanges.all (fun r => decide (r.2 < 65) || decide (122 < r.1)) = true := by decide +kernel

theorem digit_not_idStart {c : Char} (h : isDigit c = true) : isIdStart c = false := by
  obtain ⟨r, hr, h1, h2⟩ := isDigit_iff.mp h
  have := List.all_eq_true.mp digitRanges_not_idStart r hr
  simp only [Bool.or_eq_true, decide_eq_true_eq] at this
  cases hi : isIdStart c with
  | false => rfl
  | true =>
    exfalso
    simp only [isIdStart, Bool.or_eq_true, Bool.and_eq_true, decide_eq_true_eq, beq_iff_eq] at hi
    rcases hi with (hi | hi) | hi
    · omega
    · omega
    · subst hi; revert h1 h2; simp only [show ('_' : Char).toNat = 95 from rfl]; omega

theorem idStart_not_digit {c : Char} (h : isIdStart c = true) : isDigit c = false := by
  cases hd : isDigit c with
  | false => rfl
  | true => rw [digit_not_idStart hd] at h; cases h

/-- a character of the ASCII run `0..9` is a `\d` with its ASCII value -/
theorem isDigit_ascii {c : Char} (h1 : 48 ≤ c.toNat) (h2 : c.toNat ≤ 57) : isDigit c = true ∧ digitVal c = c.toNat - 48 := by
  constructor
  · exact isDigit_iff.mpr ⟨(48, 57), by simp [Rx.digitRanges], h1, h2⟩
  · have : Rx.digitRanges.find? (fun r => decide (r.1 ≤ c.toNat) && decide (c.toNat ≤ r.2)) = some (48, 57) := by
      unfold Rx.digitRanges
      rw [List.find?_cons_of_pos]
      simp [h1, h2]
    simp only [digitVal, this]
    omega

/-! ## tokens of a tree -/

inductive Tok where
  | num (q : Rat)
  | str (s : String)
  | var (n : Name)
  | call (n : Name)      -- `name(`
  | comma
  | lparen
  | rparen
  | un (o : UnOp)
  | bin (o : BinOp)

mutual
/-- the in-order token sequence of a tree -/
def toks : Expr → List Tok
  | .number q => [.num q]
  | .string s => [.str s]
  | .variable n => [.var n]
  | .function n args => .call n :: (toksArgs args ++ [.rparen])
  | .binary op l r => toks l ++ .bin op :: toks r
  | .unary op e => .un op :: toks e
  | .group e => .lparen :: (toks e ++ [.rparen])
/-- arguments: the first one bare … -/
def toksArgs : List Expr → List Tok
  | [] => []
  | a :: rest => toks a ++ toksMore rest
/-- … every further one behind a comma -/
def toksMore : List Expr → List Tok
  | [] => []
  | a :: rest => .comma :: (toks a ++ toksMore rest)
end

/-! ## spellings -/

def AllSpace (ws : List Char) : Prop := ∀ c ∈ ws, isPySpace c = true
def AllDigits (ds : List Char) : Prop := ∀ c ∈ ds, isDigit c = true

/-- `[A-Za-z_]\w*` -/
def IdentShape (id : List Char) : Prop := ∃ c w, id = c :: w ∧ isIdStart c = true ∧ ∀ d ∈ w, isWord d = true

/-- the language `(?:\\\\|\\q|[^q])*` -/
inductive StrTiles (q : Char) : List Char → Prop
  | nil : StrTiles q []
  | esc (d : Char) (t : List Char) : (d = '\\' ∨ d = q) → StrTiles q t → StrTiles q ('\\' :: d :: t)
  | other (c : Char) (t : List Char) : c ≠ q → StrTiles q t → StrTiles q (c :: t)

/-- the language `(?:\\\]|[^\]])*` (the pattern's `+` is the extra `raw ≠ []` of `Spell.varEx`) -/
inductive BrTiles : List Char → Prop
  | nil : BrTiles []
  | esc (t : List Char) : BrTiles t → BrTiles ('\\' :: ']' :: t)
  | other (c : Char) (t : List Char) : c ≠ ']' → BrTiles t → BrTiles (c :: t)

/-- `[+-]?` -/
inductive SignShape : List Char → Bool → Prop
  | none : SignShape [] false
  | plus : SignShape ['+'] false
  | minus : SignShape ['-'] true

/-- `(?:\.\d*)?` -/
inductive FracShape : List Char → List Char → Prop
  | none : FracShape [] []
  | some (fp : List Char) : AllDigits fp → FracShape ('.' :: fp) fp

/-- `(?:e[+-]\d+)?` -/
inductive ExpShape : List Char → Int → Prop
  | none : ExpShape [] 0
  | pos (ed : List Char) : ed ≠ [] → AllDigits ed → ExpShape ('e' :: '+' :: ed) ((digitsVal ed : Nat) : Int)
  | neg (ed : List Char) : ed ≠ [] → AllDigits ed → ExpShape ('e' :: '-' :: ed) (-((digitsVal ed : Nat) : Int))

/-- `[+-]?\d+(?:\.\d*)?(?:e[+-]\d+)?` denoting `q` -/
def NumShape (body : List Char) (q : Rat) : Prop :=
  ∃ sg neg ip frac fp exp ex, body = sg ++ (ip ++ (frac ++ exp)) ∧ SignShape sg neg ∧ ip ≠ [] ∧ AllDigits ip ∧
    FracShape frac fp ∧ ExpShape exp ex ∧ q = decVal neg ip fp ex

/-- `body` spells the token: membership in the token pattern's language + the value it denotes.  A number token is never
spelled with a leading `-` (the pattern allows it, but `_parse_unary_expression` tries the unary operator first, so a
`-` in operand position is always the operator token: `-5` is `[un neg, num 5]`). -/
inductive Spell : Tok → List Char → Prop
  | bin (p : List Char) (o : BinOp) : (p, o) ∈ binOpAlts → Spell (.bin o) p
  | un (p : List Char) (o : UnOp) : (p, o) ∈ unOpAlts → Spell (.un o) p
  | lparen : Spell .lparen ['(']
  | rparen : Spell .rparen [')']
  | comma : Spell .comma [',']
  | call (id ws : List Char) : IdentShape id → 1 ≤ id.length → AllSpace ws →
      Spell (.call (Name.ofString (String.ofList id))) (id ++ (ws ++ ['(']))
  | var (id : List Char) : IdentShape id → Spell (.var (Name.ofString (String.ofList id))) id
  | varEx (ws raw : List Char) : AllSpace ws → raw ≠ [] → BrTiles raw →
      Spell (.var (Name.ofString (String.ofList (unescape ']' raw)))) ('[' :: (ws ++ (raw ++ [']'])))
  | num (body : List Char) (q : Rat) : NumShape body q → body.head? ≠ some '-' → Spell (.num q) body
  | str (q : Char) (raw : List Char) : (q = '\'' ∨ q = '"') → StrTiles q raw →
      Spell (.str (String.ofList (unescape q raw))) (q :: (raw ++ [q]))

/-- `pre` is `(whitespace* spelling)*` for the tokens `ts` -/
inductive Seg : List Char → List Tok → Prop
  | nil : Seg [] []
  | cons (ws body more : List Char) (tok : Tok) (ts : List Tok) :
      AllSpace ws → Spell tok body → Seg more ts → Seg (ws ++ (body ++ more)) (tok :: ts)

/-- the whole text is the token sequence `ts`, tokens separated by optional whitespace, optional whitespace at the end -/
def Lexes (text : List Char) (ts : List Tok) : Prop := ∃ pre ws, text = pre ++ ws ∧ Seg pre ts ∧ AllSpace ws

theorem Spell.ne_nil {tok : Tok} {body : List Char} (h : Spell tok body) : body ≠ [] := by
  cases h with
  | bin p o hm => simp [binOpAlts] at hm; rcases hm with h | h | h | h | h | h | h | h | h | h | h | h | h | h <;> simp [h.1]
  | un p o hm => simp [unOpAlts] at hm; rcases hm with h | h <;> simp [h.1]
  | call id ws hid => obtain ⟨c, w, rfl, _⟩ := hid; simp
  | var id hid => obtain ⟨c, w, rfl, _⟩ := hid; simp
  | num body q hn _ =>
    obtain ⟨sg, neg, ip, frac, fp, exp, ex, rfl, _, hip, _⟩ := hn
    cases ip with
    | nil => exact absurd rfl hip
    | cons a as => simp
  | _ => simp

theorem Seg.append {a b : List Char} {ts us : List Tok} (ha : Seg a ts) (hb : Seg b us) : Seg (a ++ b) (ts ++ us) := by
  induction ha with
  | nil => simpa using hb
  | cons ws body more tok ts hws hsp _ ih =>
    have : ws ++ (body ++ more) ++ b = ws ++ (body ++ (more ++ b)) := by simp
    rw [this]; exact Seg.cons ws body (more ++ b) tok (ts ++ us) hws hsp ih

theorem Seg.single {ws body : List Char} {tok : Tok} (hws : AllSpace ws) (hsp : Spell tok body) :
    Seg (ws ++ body) [tok] := by
  have := Seg.cons ws body [] tok [] hws hsp Seg.nil
  simpa using this

/-- a non-empty token sequence has a non-empty text -/
theorem Seg.ne_nil {pre : List Char} {tok : Tok} {ts : List Tok} (h : Seg pre (tok :: ts)) : pre ≠ [] := by
  cases h with
  | cons ws body more _ _ hws hsp _ =>
    have := hsp.ne_nil
    cases body with
    | nil => exact absurd rfl this
    | cons b bs => simp

/-! ## whitespace -/

theorem allSpace_takeWhile (t : List Char) : AllSpace (t.takeWhile isPySpace) := by
  intro c hc
  induction t with
  | nil => simp at hc
  | cons a as ih =>
    rw [List.takeWhile_cons] at hc
    split at hc
    · rcases List.mem_cons.mp hc with h | h
      · subst h; assumption
      · exact ih h
    · simp at hc

theorem allDigits_takeWhile (t : List Char) : AllDigits (t.takeWhile isDigit) := by
  intro c hc
  induction t with
  | nil => simp at hc
  | cons a as ih =>
    rw [List.takeWhile_cons] at hc
    split at hc
    · rcases List.mem_cons.mp hc with h | h
      · subst h; assumption
      · exact ih h
    · simp at hc

theorem allWord_takeWhile (t : List Char) : ∀ c ∈ t.takeWhile isWord, isWord c = true := by
  intro c hc
  induction t with
  | nil => simp at hc
  | cons a as ih =>
    rw [List.takeWhile_cons] at hc
    split at hc
    · rcases List.mem_cons.mp hc with h | h
      · subst h; assumption
      · exact ih h
    · simp at hc

/-- `t = whitespace ++ skipWs t` -/
theorem skipWs_split (t : List Char) : ∃ ws, t = ws ++ skipWs t ∧ AllSpace ws :=
  ⟨t.takeWhile isPySpace, (List.takeWhile_append_dropWhile).symm, allSpace_takeWhile t⟩

theorem AllSpace.append {a b : List Char} (ha : AllSpace a) (hb : AllSpace b) : AllSpace (a ++ b) := by
  intro c hc; rcases List.mem_append.mp hc with h | h
  · exact ha c h
  · exact hb c h

/-! ## literal alternatives -/

theorem stripPrefix_spec : ∀ (p t r : List Char), stripPrefix? p t = some r → t = p ++ r
  | [], t, r, h => by simp [stripPrefix?] at h; simp [h]
  | _ :: _, [], r, h => by simp [stripPrefix?] at h
  | a :: ps, c :: t, r, h => by
    simp only [stripPrefix?] at h
    split at h
    · rename_i hac; subst hac; simp [stripPrefix_spec ps t r h]
    · cases h

theorem firstAlt_spec {α : Type} : ∀ (alts : List (List Char × α)) (t : List Char) (a : α) (r : List Char),
    firstAlt alts t = some (a, r) → ∃ p, (p, a) ∈ alts ∧ t = p ++ r
  | [], t, a, r, h => by simp [firstAlt] at h
  | (p, b) :: rest, t, a, r, h => by
    simp only [firstAlt] at h
    split at h
    · rename_i r' hr'
      simp only [Option.some.injEq, Prod.mk.injEq] at h
      obtain ⟨rfl, rfl⟩ := h
      exact ⟨p, List.mem_cons_self .., stripPrefix_spec p t r' hr'⟩
    · obtain ⟨p', hm, ht⟩ := firstAlt_spec rest t a r h
      exact ⟨p', List.mem_cons_of_mem _ hm, ht⟩

theorem scanBinOp_spec {t r : List Char} {op : BinOp} (h : scanBinOp t = some (op, r)) :
    ∃ ws body, t = ws ++ (body ++ r) ∧ AllSpace ws ∧ Spell (.bin op) body := by
  obtain ⟨ws, hws, hsp⟩ := skipWs_split t
  obtain ⟨p, hm, hp⟩ := firstAlt_spec _ _ _ _ h
  exact ⟨ws, p, by rw [← hp]; exact hws, hsp, Spell.bin p op hm⟩

theorem scanUnaryOp_spec {t r : List Char} {op : UnOp} (h : scanUnaryOp t = some (op, r)) :
    ∃ ws body, t = ws ++ (body ++ r) ∧ AllSpace ws ∧ Spell (.un op) body := by
  obtain ⟨ws, hws, hsp⟩ := skipWs_split t
  obtain ⟨p, hm, hp⟩ := firstAlt_spec _ _ _ _ h
  exact ⟨ws, p, by rw [← hp]; exact hws, hsp, Spell.un p op hm⟩

theorem scanChar_spec {c : Char} {t r : List Char} (h : scanChar c t = some r) :
    ∃ ws, t = ws ++ (c :: r) ∧ AllSpace ws := by
  obtain ⟨ws, hws, hsp⟩ := skipWs_split t
  unfold scanChar at h
  split at h
  · rename_i d r' heq
    split at h
    · rename_i hdc; cases h; subst hdc; exact ⟨ws, by rw [← heq]; exact hws, hsp⟩
    · cases h
  · cases h

theorem scanGroupOpen_spec {t r : List Char} (h : scanGroupOpen t = some r) :
    ∃ ws body, t = ws ++ (body ++ r) ∧ AllSpace ws ∧ Spell .lparen body := by
  obtain ⟨ws, ht, hws⟩ := scanChar_spec h
  exact ⟨ws, ['('], ht, hws, Spell.lparen⟩

theorem scanClose_spec {t r : List Char} (h : scanClose t = some r) :
    ∃ ws body, t = ws ++ (body ++ r) ∧ AllSpace ws ∧ Spell .rparen body := by
  obtain ⟨ws, ht, hws⟩ := scanChar_spec h
  exact ⟨ws, [')'], ht, hws, Spell.rparen⟩

theorem scanComma_spec {t r : List Char} (h : scanComma t = some r) :
    ∃ ws body, t = ws ++ (body ++ r) ∧ AllSpace ws ∧ Spell .comma body := by
  obtain ⟨ws, ht, hws⟩ := scanChar_spec h
  exact ⟨ws, [','], ht, hws, Spell.comma⟩

/-! ## identifiers -/

theorem scanVariable_spec {t r n : List Char} (h : scanVariable t = some (n, r)) :
    ∃ ws, t = ws ++ (n ++ r) ∧ AllSpace ws ∧ IdentShape n := by
  obtain ⟨ws, hws, hsp⟩ := skipWs_split t
  unfold scanVariable at h
  split at h
  · rename_i c r' heq
    split at h
    · rename_i hc
      simp only [Option.some.injEq, Prod.mk.injEq] at h
      obtain ⟨rfl, rfl⟩ := h
      refine ⟨ws, ?_, hsp, c, _, rfl, hc, allWord_takeWhile r'⟩
      rw [hws, heq]; simp [List.takeWhile_append_dropWhile]
    · cases h
  · cases h

theorem scanFuncOpen_spec {t r n : List Char} (h : scanFuncOpen t = some (n, r)) :
    ∃ ws ws2, t = ws ++ ((n ++ (ws2 ++ ['('])) ++ r) ∧ AllSpace ws ∧ AllSpace ws2 ∧ IdentShape n ∧ 1 ≤ n.length := by
  obtain ⟨ws, hws, hsp⟩ := skipWs_split t
  unfold scanFuncOpen at h
  split at h
  · rename_i c r' heq
    split at h
    · rename_i hc
      simp only at h
      split at h
      · rename_i d r2 heq2
        split at h
        · rename_i hd
          simp only [Option.some.injEq, Prod.mk.injEq] at h
          obtain ⟨rfl, rfl⟩ := h
          subst hd
          obtain ⟨ws2, hws2, hsp2⟩ := skipWs_split (r'.dropWhile isWord)
          refine ⟨ws, ws2, ?_, hsp, hsp2, ⟨c, _, rfl, hc, allWord_takeWhile r'⟩, ?_⟩
          · rw [hws, heq]
            have h1 : r' = r'.takeWhile isWord ++ r'.dropWhile isWord := (List.takeWhile_append_dropWhile).symm
            rw [heq2] at hws2
            conv => lhs; rw [h1, hws2]
            simp
          · exact Nat.succ_le_succ (Nat.zero_le _)
        · cases h
      · cases h
    · cases h
  · cases h

/-! ## numbers -/

theorem scanSign_spec (t : List Char) : ∃ sg, t = sg ++ (scanSign t).2 ∧ SignShape sg (scanSign t).1 := by
  cases t with
  | nil => exact ⟨[], rfl, SignShape.none⟩
  | cons c r =>
    simp only [scanSign]
    split
    · rename_i h; subst h; exact ⟨['+'], rfl, SignShape.plus⟩
    · split
      · rename_i h; subst h; exact ⟨['-'], rfl, SignShape.minus⟩
      · exact ⟨[], rfl, SignShape.none⟩

theorem scanFrac_spec (t : List Char) : ∃ frac, t = frac ++ (scanFrac t).2 ∧ FracShape frac (scanFrac t).1 := by
  cases t with
  | nil => exact ⟨[], rfl, FracShape.none⟩
  | cons c r =>
    simp only [scanFrac]
    split
    · rename_i h; subst h
      exact ⟨'.' :: r.takeWhile isDigit, by simp [List.takeWhile_append_dropWhile], FracShape.some _ (allDigits_takeWhile r)⟩
    · exact ⟨[], rfl, FracShape.none⟩

theorem scanExp_spec (t : List Char) : ∃ exp, t = exp ++ (scanExp t).2 ∧ ExpShape exp (scanExp t).1 := by
  match t with
  | [] => exact ⟨[], rfl, ExpShape.none⟩
  | [c] => exact ⟨[], rfl, ExpShape.none⟩
  | c :: s :: r =>
    simp only [scanExp]
    split
    · rename_i hcs
      simp only [Bool.and_eq_true, decide_eq_true_eq, Bool.or_eq_true] at hcs
      obtain ⟨hc, hs⟩ := hcs
      subst hc
      split
      · exact ⟨[], rfl, ExpShape.none⟩
      · rename_i hed
        have hne : r.takeWhile isDigit ≠ [] := by
          intro h0; rw [h0] at hed; simp at hed
        split
        · rename_i hm; subst hm
          exact ⟨'e' :: '-' :: r.takeWhile isDigit, by simp [List.takeWhile_append_dropWhile],
            ExpShape.neg _ hne (allDigits_takeWhile r)⟩
        · rename_i hm
          have hp : s = '+' := by rcases hs with h | h; exact h; exact absurd h hm
          subst hp
          exact ⟨'e' :: '+' :: r.takeWhile isDigit, by simp [List.takeWhile_append_dropWhile],
            ExpShape.pos _ hne (allDigits_takeWhile r)⟩
    · exact ⟨[], rfl, ExpShape.none⟩

theorem scanNumber_spec {t r : List Char} {q : Rat} (hun : scanUnaryOp t = none) (h : scanNumber t = some (q, r)) :
    ∃ ws body, t = ws ++ (body ++ r) ∧ AllSpace ws ∧ Spell (.num q) body := by
  obtain ⟨ws, hws, hsp⟩ := skipWs_split t
  unfold scanNumber at h
  obtain ⟨sg, hsg, hsgs⟩ := scanSign_spec (skipWs t)
  generalize scanSign (skipWs t) = sr at h hsg hsgs
  obtain ⟨neg, t1⟩ := sr
  simp only at h hsg hsgs
  split at h
  · cases h
  · rename_i hip
    obtain ⟨frac, hfr, hfrs⟩ := scanFrac_spec (t1.dropWhile isDigit)
    generalize scanFrac (t1.dropWhile isDigit) = fr at h hfr hfrs
    obtain ⟨fp, t3⟩ := fr
    simp only at h hfr hfrs
    obtain ⟨exp, hex, hexs⟩ := scanExp_spec t3
    generalize scanExp t3 = er at h hex hexs
    obtain ⟨ex, t4⟩ := er
    simp only [Option.some.injEq, Prod.mk.injEq] at h hex hexs
    obtain ⟨rfl, rfl⟩ := h
    have hne : t1.takeWhile isDigit ≠ [] := by
      intro h0; rw [h0] at hip; simp at hip
    have h1 : t1 = t1.takeWhile isDigit ++ t1.dropWhile isDigit := (List.takeWhile_append_dropWhile).symm
    have hbody : skipWs t = (sg ++ (t1.takeWhile isDigit ++ (frac ++ exp))) ++ t4 := by
      rw [hsg]
      conv => lhs; rw [h1, hfr, hex]
      simp
    refine ⟨ws, sg ++ (t1.takeWhile isDigit ++ (frac ++ exp)), ?_, hsp,
      Spell.num _ _ ⟨sg, neg, _, frac, fp, exp, ex, rfl, hsgs, hne, allDigits_takeWhile t1, hfrs, hexs, rfl⟩ ?_⟩
    · rw [hws]; congr 1
    · intro hhead
      cases hb : sg ++ (t1.takeWhile isDigit ++ (frac ++ exp)) with
      | nil => rw [hb] at hhead; simp at hhead
      | cons b bs =>
        rw [hb] at hhead hbody
        simp only [List.head?_cons, Option.some.injEq] at hhead
        subst hhead
        simp [scanUnaryOp, hbody, firstAlt, unOpAlts, stripPrefix?] at hun

/-! ## strings and bracketed names -/

theorem strBody_spec (q : Char) : ∀ (t raw rest : List Char), strBody q t = some (raw, rest) →
    t = raw ++ q :: rest ∧ StrTiles q raw := by
  intro t
  fun_induction strBody q t with
  | case1 => intro raw rest h; cases h
  | case2 t =>
    intro raw rest h
    simp only [Option.some.injEq, Prod.mk.injEq] at h
    obtain ⟨rfl, rfl⟩ := h
    exact ⟨rfl, StrTiles.nil⟩
  | case3 d t' hcond hne ih =>
    intro raw rest h
    simp only [Option.map_eq_some_iff] at h
    obtain ⟨⟨raw', rest'⟩, hp, heq⟩ := h
    simp only [Prod.mk.injEq] at heq
    obtain ⟨rfl, rfl⟩ := heq
    obtain ⟨ht, htl⟩ := ih raw' rest' hp
    simp only [Bool.and_eq_true, Bool.or_eq_true, decide_eq_true_eq] at hcond
    exact ⟨by simp [ht], StrTiles.esc d raw' hcond.1 htl⟩
  | case4 d t' hcond hne ih =>
    intro raw rest h
    simp only [Option.map_eq_some_iff] at h
    obtain ⟨⟨raw', rest'⟩, hp, heq⟩ := h
    simp only [Prod.mk.injEq] at heq
    obtain ⟨rfl, rfl⟩ := heq
    obtain ⟨ht, htl⟩ := ih raw' rest' hp
    exact ⟨by simp [ht], StrTiles.other _ raw' hne htl⟩
  | case5 hne => intro raw rest h; cases h
  | case6 c t hc hb ih =>
    intro raw rest h
    simp only [Option.map_eq_some_iff] at h
    obtain ⟨⟨raw', rest'⟩, hp, heq⟩ := h
    simp only [Prod.mk.injEq] at heq
    obtain ⟨rfl, rfl⟩ := heq
    obtain ⟨ht, htl⟩ := ih raw' rest' hp
    exact ⟨by simp [ht], StrTiles.other c raw' hc htl⟩

theorem scanString_spec {q : Char} (hq : q = '\'' ∨ q = '"') {t r s : List Char} (h : scanString q t = some (s, r)) :
    ∃ ws body, t = ws ++ (body ++ r) ∧ AllSpace ws ∧ Spell (.str (String.ofList s)) body := by
  obtain ⟨ws, hws, hsp⟩ := skipWs_split t
  unfold scanString at h
  split at h
  · rename_i c r' heq
    split at h
    · rename_i hc
      simp only [Option.map_eq_some_iff] at h
      obtain ⟨⟨raw, rest⟩, hp, hpe⟩ := h
      simp only [Prod.mk.injEq] at hpe
      obtain ⟨rfl, rfl⟩ := hpe
      obtain ⟨ht, htl⟩ := strBody_spec q r' raw rest hp
      subst hc
      refine ⟨ws, c :: (raw ++ [c]), ?_, hsp, Spell.str c raw hq htl⟩
      rw [hws, heq, ht]; simp
    · cases h
  · cases h

theorem bracketBody_spec : ∀ (t raw rest : List Char), bracketBody t = some (raw, rest) →
    t = raw ++ ']' :: rest ∧ BrTiles raw := by
  intro t
  fun_induction bracketBody t with
  | case1 => intro raw rest h; cases h
  | case2 t =>
    intro raw rest h
    simp only [Option.some.injEq, Prod.mk.injEq] at h
    obtain ⟨rfl, rfl⟩ := h
    exact ⟨rfl, BrTiles.nil⟩
  | case3 d t' hcond hne ih =>
    intro raw rest h
    simp only [Option.map_eq_some_iff] at h
    obtain ⟨⟨raw', rest'⟩, hp, heq⟩ := h
    simp only [Prod.mk.injEq] at heq
    obtain ⟨rfl, rfl⟩ := heq
    obtain ⟨ht, htl⟩ := ih raw' rest' hp
    simp only [Bool.and_eq_true, decide_eq_true_eq] at hcond
    obtain ⟨hd, _⟩ := hcond
    subst hd
    exact ⟨by simp [ht], BrTiles.esc raw' htl⟩
  | case4 d t' hcond hne ih =>
    intro raw rest h
    simp only [Option.map_eq_some_iff] at h
    obtain ⟨⟨raw', rest'⟩, hp, heq⟩ := h
    simp only [Prod.mk.injEq] at heq
    obtain ⟨rfl, rfl⟩ := heq
    obtain ⟨ht, htl⟩ := ih raw' rest' hp
    exact ⟨by simp [ht], BrTiles.other _ raw' hne htl⟩
  | case5 hne => intro raw rest h; cases h
  | case6 c t hc hb ih =>
    intro raw rest h
    simp only [Option.map_eq_some_iff] at h
    obtain ⟨⟨raw', rest'⟩, hp, heq⟩ := h
    simp only [Prod.mk.injEq] at heq
    obtain ⟨rfl, rfl⟩ := heq
    obtain ⟨ht, htl⟩ := ih raw' rest' hp
    exact ⟨by simp [ht], BrTiles.other c raw' hc htl⟩

theorem unescape_single (q w : Char) : unescape q [w] = [w] := by
  simp only [unescape]; split <;> rfl

theorem scanVariableEx_spec {t r n : List Char} (h : scanVariableEx t = some (n, r)) :
    ∃ ws body, t = ws ++ (body ++ r) ∧ AllSpace ws ∧ Spell (.var (Name.ofString (String.ofList n))) body := by
  obtain ⟨ws, hws, hsp⟩ := skipWs_split t
  unfold scanVariableEx at h
  split at h
  · rename_i c r' heq
    split at h
    · rename_i hc
      subst hc
      have hr' : r' = r'.takeWhile isPySpace ++ r'.dropWhile isPySpace := (List.takeWhile_append_dropWhile).symm
      split at h
      · cases h
      · rename_i d r2 heq2
        split at h
        · rename_i hd
          subst hd
          split at h
          · rename_i w hw
            simp only [Option.some.injEq, Prod.mk.injEq] at h
            obtain ⟨rfl, rfl⟩ := h
            obtain ⟨ys, hys⟩ := List.getLast?_eq_some_iff.mp hw
            have hall := allSpace_takeWhile r'
            rw [hys] at hall
            have hwsp : isPySpace w = true := hall w (by simp)
            have hwne : w ≠ ']' := by
              intro h0; rw [h0] at hwsp; revert hwsp; decide
            have := Spell.varEx ys [w] (fun c hc => hall c (by simp [hc])) (by simp) (BrTiles.other w [] hwne BrTiles.nil)
            rw [unescape_single] at this
            refine ⟨ws, _, ?_, hsp, this⟩
            rw [hws, heq]; congr 1
            conv => lhs; rw [hr', hys, heq2]
            simp
          · cases h
        · rename_i hd
          simp only [Option.map_eq_some_iff] at h
          obtain ⟨⟨raw, rest⟩, hp, hpe⟩ := h
          simp only [Prod.mk.injEq] at hpe
          obtain ⟨rfl, rfl⟩ := hpe
          obtain ⟨ht, htl⟩ := bracketBody_spec _ raw rest hp
          have hraw : raw ≠ [] := by
            intro h0; subst h0; simp at ht; exact hd ht.1
          refine ⟨ws, _, ?_, hsp, Spell.varEx (r'.takeWhile isPySpace) raw (allSpace_takeWhile r') hraw htl⟩
          rw [hws, heq]; congr 1
          conv => lhs; rw [hr', heq2, ht]
          simp
    · cases h
  · cases h

end C02
