import BareModel.EvalSpec
import BareProofs.C03Lemmas

/-!
# C03 — expression evaluation follows the typed operator semantics

Model: `Machine.evalExpr` (mirror of runtime.py `evaluate_expression`, polymorphic in the world, the host operators and
the call-back), `HostImpl.binop / neg / truthy / compare` (the concrete operators of the correspondence driver),
`BareModel/Gen/Alias.lean` (regenerated from `library.EXPRESSION_FUNCTION_MAP` on every run).
Specification: `EvalSpec.valueOf / traceOf` (compositional: the trace of an expression is the concatenation, in source
order, of the traces of the sub-expressions the laziness rules select).

Property theorems

* `once_left_to_right`      evaluator = specification: every selected sub-expression and argument contributes its calls
                            exactly once, in source order, after everything that was recorded before (any depth)
* `and_or_lazy`             `&&` / `||` yield the VALUE of the left or of the right operand; the right operand's calls are
                            absent exactly when the left decides   (+ `and_or_operand` for every world and call-back)
* `if_lazy`                 `if(c, t, f)`: condition, then only the selected branch; a missing branch is null; extra arguments
                            are never evaluated
* `args_before_lookup`      arguments are evaluated (left to right) before the function is looked up, in the state they leave
                            behind; `undefined_keeps_effects`: `Undefined function` keeps the arguments' effects
* `binop_table`             closed description of the 12 strict operators by operand types (exact results for `+ - *`,
                            comparisons, concatenation, datetime offsets); `binop_numeric_partial` the `/ % **` rows
* `unsupported_is_null`     every (operator, type, type) combination outside the table yields null — all 12 × 9 × 9
* `relops_are_sign_tests`   the six comparisons are the sign tests of the one value order `HostImpl.compare`
* `bool_is_not_number`      booleans are not numbers in `+ - * / % **` and unary `-` (F13)
* `neg_table`, `truthy_table`
* `alias_table_documented`  the generated alias map is the documented 46-entry table, every alias IS its target function
* `alias_resolves_to_target`, `binding_wins_over_builtin`
* `keywords_win`            `null` / `true` / `false` are constants and `if` is the lazy built-in whatever is bound to these names

`binop_numeric_partial`: the model computes `/ % **` in exact rational arithmetic; the real code rounds to IEEE doubles.
The full statement "the result is the correctly rounded double of the rational result" is not expressible in this model
(no floating point, DESIGN §6); the correspondence keeps arithmetic exactly representable.
-/

namespace C03
open Machine EvalSpec

/-! ## evaluation order and laziness (TRACE instance) -/

/-- **once, left to right.**  In the TRACE instance (world = the sequence of calls made so far, a call records itself and
returns `result f args`, the host operators do not look at the trace) evaluating *any* expression `e` from *any* state
returns the specification value and appends exactly `traceOf e` to the trace: the concatenation, in source order, of the
traces of the sub-expressions selected by the laziness rules — nothing recorded earlier is lost or re-ordered, every
selected sub-expression contributes once.  Globals and the statement counter are untouched.  The same for argument lists. -/
theorem once_left_to_right (cfg : Config Trace) (hb : Blind cfg.host) (result : Value → List Value → Value)
    (locals : Option Env) (st : State Trace) :
    (∀ e : Expr, evalExpr cfg (traceCall result) locals e st =
        embed (valueOf (ctxOf cfg result locals st.globals) e) (traceOf (ctxOf cfg result locals st.globals) e) st) ∧
    (∀ as : List Expr, evalArgs cfg (traceCall result) locals as st =
        embedArgs (valuesOf (ctxOf cfg result locals st.globals) as) (tracesOf (ctxOf cfg result locals st.globals) as) st) :=
  ⟨fun e => eval_spec cfg hb result locals e st, fun as => args_spec cfg hb result locals as st⟩

/-- what the specification says about composite expressions, spelled out (each line is the definition of `traceOf`):
strict operators: left then right; unary / group: the operand; call: the arguments left to right, then the call itself. -/
theorem traceOf_shape (c : Ctx) :
    (∀ op l r lv, op ≠ .and → op ≠ .or → valueOf c l = .ok lv →
        traceOf c (.binary op l r) = traceOf c l ++ traceOf c r) ∧
    (∀ op e, traceOf c (.unary op e) = traceOf c e) ∧
    (∀ e, traceOf c (.group e) = traceOf c e) ∧
    (∀ a as v, valueOf c a = .ok v → tracesOf c (a :: as) = traceOf c a ++ tracesOf c as) ∧
    (∀ n args vs fv, n ≠ kwIf → valuesOf c args = .ok vs → callee c n = some fv →
        traceOf c (.function n args) = tracesOf c args ++ [(fv, vs)]) := by
  refine ⟨?_, ?_, ?_, ?_, ?_⟩
  · intro op l r lv h1 h2 hl
    rw [traceOf, hl]
    cases op <;> first | exact absurd rfl h1 | exact absurd rfl h2 | rfl
  · intro op e; rw [traceOf]
  · intro e; rw [traceOf]
  · intro a as v h; rw [tracesOf, h]
  · intro n args vs fv hn hv hc
    rw [traceOf]; simp [hn, hv, callTrace, hc]

/-- **`&&` and `||` are lazy and return an operand.**  If the left operand evaluates to `lv`:
`l && r` is `lv` itself with only the calls of `l` when `lv` is falsy, otherwise the outcome of `r` (its value, not a
boolean) with the calls of `l` followed by the calls of `r`; `l || r` the other way round.  So the right operand's trace
is absent exactly when the left decides. -/
theorem and_or_lazy (cfg : Config Trace) (hb : Blind cfg.host) (result : Value → List Value → Value)
    (locals : Option Env) (l r : Expr) (st : State Trace) (lv : Value)
    (hl : valueOf (ctxOf cfg result locals st.globals) l = .ok lv) :
    (evalExpr cfg (traceCall result) locals (.binary .and l r) st =
      if cfg.host.truthy lv [] then
        embed (valueOf (ctxOf cfg result locals st.globals) r)
          (traceOf (ctxOf cfg result locals st.globals) l ++ traceOf (ctxOf cfg result locals st.globals) r) st
      else .ok lv { st with world := st.world ++ traceOf (ctxOf cfg result locals st.globals) l }) ∧
    (evalExpr cfg (traceCall result) locals (.binary .or l r) st =
      if cfg.host.truthy lv [] then .ok lv { st with world := st.world ++ traceOf (ctxOf cfg result locals st.globals) l }
      else
        embed (valueOf (ctxOf cfg result locals st.globals) r)
          (traceOf (ctxOf cfg result locals st.globals) l ++ traceOf (ctxOf cfg result locals st.globals) r) st) := by
  constructor
  · rw [eval_spec cfg hb result locals, valueOf, traceOf, hl]
    simp only [rightSelected, ctx_truthy]
    by_cases ht : cfg.host.truthy lv [] = true <;> simp [ht]
  · rw [eval_spec cfg hb result locals, valueOf, traceOf, hl]
    simp only [rightSelected, ctx_truthy]
    by_cases ht : cfg.host.truthy lv [] = true <;> simp [ht]

/-- the same fact for **every** world, host and call-back (in particular the real `callValue`): a successful `l && r`
(`l || r`) returns either the value of `l` in the state `l` left behind — `r` not evaluated at all — or whatever `r`
returns when evaluated after `l`; which one is decided by the truthiness of the left value alone. -/
theorem and_or_operand {W : Type} (cfg : Config W) (call : CallFn W) (locals : Option Env) (l r : Expr)
    (st st' : State W) (v : Value) :
    (evalExpr cfg call locals (.binary .and l r) st = .ok v st' →
      ∃ lv st1, evalExpr cfg call locals l st = .ok lv st1 ∧
        ((cfg.host.truthy lv st1.world = false ∧ v = lv ∧ st' = st1) ∨
         (cfg.host.truthy lv st1.world = true ∧ evalExpr cfg call locals r st1 = .ok v st'))) ∧
    (evalExpr cfg call locals (.binary .or l r) st = .ok v st' →
      ∃ lv st1, evalExpr cfg call locals l st = .ok lv st1 ∧
        ((cfg.host.truthy lv st1.world = true ∧ v = lv ∧ st' = st1) ∨
         (cfg.host.truthy lv st1.world = false ∧ evalExpr cfg call locals r st1 = .ok v st'))) := by
  constructor
  · intro h
    rw [evalExpr] at h
    cases hl : evalExpr cfg call locals l st with
    | ok lv st1 =>
      rw [hl] at h; simp only at h
      refine ⟨lv, st1, rfl, ?_⟩
      by_cases ht : cfg.host.truthy lv st1.world = true
      · simp only [ht, if_true] at h; exact Or.inr ⟨ht, h⟩
      · simp only [ht] at h
        injection h with h1 h2
        exact Or.inl ⟨by simpa using ht, h1.symm, h2.symm⟩
    | err e s => rw [hl] at h; cases h
    | oof => rw [hl] at h; cases h
  · intro h
    rw [evalExpr] at h
    cases hl : evalExpr cfg call locals l st with
    | ok lv st1 =>
      rw [hl] at h; simp only at h
      refine ⟨lv, st1, rfl, ?_⟩
      by_cases ht : cfg.host.truthy lv st1.world = true
      · simp only [ht, if_true] at h
        injection h with h1 h2
        exact Or.inl ⟨ht, h1.symm, h2.symm⟩
      · simp only [ht] at h; exact Or.inr ⟨by simpa using ht, h⟩
    | err e s => rw [hl] at h; cases h
    | oof => rw [hl] at h; cases h

/-- **`if` evaluates only the selected branch.**  With the condition evaluating to `cv`: `if(c, t, f, …)` is the outcome of
`t` (calls of `c` then of `t`) when `cv` is truthy, otherwise the outcome of `f` (calls of `c` then of `f`); arguments
after the third are never evaluated; `if(c, t)` with a falsy condition is null with the calls of `c` only; `if(c)` is
null after evaluating `c`; `if()` is null. -/
theorem if_lazy (cfg : Config Trace) (hb : Blind cfg.host) (result : Value → List Value → Value)
    (locals : Option Env) (c t f : Expr) (rest : List Expr) (st : State Trace) (cv : Value)
    (hc : valueOf (ctxOf cfg result locals st.globals) c = .ok cv) :
    (evalExpr cfg (traceCall result) locals (.function kwIf (c :: t :: f :: rest)) st =
      if cfg.host.truthy cv [] then
        embed (valueOf (ctxOf cfg result locals st.globals) t)
          (traceOf (ctxOf cfg result locals st.globals) c ++ traceOf (ctxOf cfg result locals st.globals) t) st
      else
        embed (valueOf (ctxOf cfg result locals st.globals) f)
          (traceOf (ctxOf cfg result locals st.globals) c ++ traceOf (ctxOf cfg result locals st.globals) f) st) ∧
    (evalExpr cfg (traceCall result) locals (.function kwIf [c, t]) st =
      if cfg.host.truthy cv [] then
        embed (valueOf (ctxOf cfg result locals st.globals) t)
          (traceOf (ctxOf cfg result locals st.globals) c ++ traceOf (ctxOf cfg result locals st.globals) t) st
      else .ok .null { st with world := st.world ++ traceOf (ctxOf cfg result locals st.globals) c }) ∧
    (evalExpr cfg (traceCall result) locals (.function kwIf [c]) st =
      .ok .null { st with world := st.world ++ traceOf (ctxOf cfg result locals st.globals) c }) ∧
    (evalExpr cfg (traceCall result) locals (.function kwIf []) st = .ok .null st) := by
  refine ⟨?_, ?_, ?_, ?_⟩
  · rw [eval_spec cfg hb result locals, valueOf, traceOf]
    simp only [if_true, ifValue, ifTrace, hc, ctx_truthy]
    by_cases ht : cfg.host.truthy cv [] = true <;> simp [ht]
  · rw [eval_spec cfg hb result locals, valueOf, traceOf]
    simp only [if_true, ifValue, ifTrace, hc, ctx_truthy]
    by_cases ht : cfg.host.truthy cv [] = true <;> simp [ht]
  · rw [eval_spec cfg hb result locals, valueOf, traceOf]
    simp [ifValue, ifTrace, hc]
  · rw [eval_spec cfg hb result locals, valueOf, traceOf]
    simp [ifValue, ifTrace]

/-- **arguments before lookup** — for every world, host and call-back: the arguments of a call (other than `if`) are
evaluated first; the function name is looked up in the globals *they leave behind*; an unbound name, or a name bound to
null, raises `Undefined function` in that state (the arguments' effects stay); an error in an argument is the result. -/
theorem args_before_lookup {W : Type} (cfg : Config W) (call : CallFn W) (locals : Option Env) (n : Name)
    (args : List Expr) (st : State W) (hn : n ≠ kwIf) :
    (∀ vs st1, evalArgs cfg call locals args st = .ok vs st1 →
      (lookupFunc cfg locals st1.globals n = none →
        evalExpr cfg call locals (.function n args) st = .err (.undefinedFunction n) st1) ∧
      (lookupFunc cfg locals st1.globals n = some .null →
        evalExpr cfg call locals (.function n args) st = .err (.undefinedFunction n) st1) ∧
      (∀ fv, lookupFunc cfg locals st1.globals n = some fv → fv ≠ .null →
        evalExpr cfg call locals (.function n args) st = call fv vs st1)) ∧
    (∀ e st1, evalArgs cfg call locals args st = .err e st1 →
      evalExpr cfg call locals (.function n args) st = .err e st1) := by
  constructor
  · intro vs st1 h
    refine ⟨?_, ?_, ?_⟩
    · intro hf; rw [evalExpr]; simp only [hn, if_false, h, hf]
    · intro hf; rw [evalExpr]; simp only [hn, if_false, h, hf]
    · intro fv hf hnn; rw [evalExpr]; simp only [hn, if_false, h, hf]
  · intro e st1 h
    rw [evalExpr]; simp only [hn, if_false, h]

/-- TRACE instance: a call of an undefined function (unbound, or bound to null) still evaluates its arguments, in order,
and the error keeps their effects; no call record is added for the undefined function itself. -/
theorem undefined_keeps_effects (cfg : Config Trace) (hb : Blind cfg.host) (result : Value → List Value → Value)
    (locals : Option Env) (n : Name) (args : List Expr) (st : State Trace) (vs : List Value) (hn : n ≠ kwIf)
    (hv : valuesOf (ctxOf cfg result locals st.globals) args = .ok vs)
    (hu : lookupFunc cfg locals st.globals n = none ∨ lookupFunc cfg locals st.globals n = some .null) :
    evalExpr cfg (traceCall result) locals (.function n args) st =
      .err (.undefinedFunction n) { st with world := st.world ++ tracesOf (ctxOf cfg result locals st.globals) args } := by
  rw [eval_spec cfg hb result locals, valueOf, traceOf]
  simp only [hn, if_false, hv, callTrace, callee, ctx_func]
  rcases hu with h | h <;> simp [h]

/-! ## keywords -/

/-- **keywords win** — for every world, host, call-back and environment: `null`, `false`, `true` evaluate to the
constants without consulting locals or globals, and a call of `if` is the lazy built-in without any function lookup. -/
theorem keywords_win {W : Type} (cfg : Config W) (call : CallFn W) (locals : Option Env) (st : State W) :
    evalExpr cfg call locals (.variable (.user "null")) st = .ok .null st ∧
    evalExpr cfg call locals (.variable (.user "false")) st = .ok (.bool false) st ∧
    evalExpr cfg call locals (.variable (.user "true")) st = .ok (.bool true) st ∧
    (∀ args, evalExpr cfg call locals (.function (.user "if") args) st = evalIf cfg call locals args st) := by
  refine ⟨?_, ?_, ?_, ?_⟩
  · rw [evalExpr]; simp [kwNull]
  · rw [evalExpr]; simp [kwNull, kwFalse]
  · rw [evalExpr]; simp [kwNull, kwFalse, kwTrue]
  · intro args; rw [evalExpr]; simp [kwIf]

/-! ## the typed operator table (concrete host) -/

open HostImpl in
/-- **operator table** (rows with exact results): `+` adds numbers, concatenates when either side is a string
(stringifying the other with `valueString?`; a value that cannot be stringified — a self-containing container, known
finding F18, null after fix F25 — gives null) and offsets a datetime by (integral) milliseconds from either side; `-`
subtracts numbers and gives the millisecond difference of two datetimes; `*` multiplies numbers. -/
theorem binop_table (w : World) :
    (∀ x y, binop .add (.num x) (.num y) w = .num (x + y)) ∧
    (∀ x y, binop .add (.str x) (.str y) w = .str (x ++ y)) ∧
    (∀ x b, binop .add (.str x) b w = match valueString? w b with | some s => .str (x ++ s) | none => .null) ∧
    (∀ a y, binop .add a (.str y) w = match valueString? w a with | some s => .str (s ++ y) | none => .null) ∧
    (∀ x y, y.den = 1 → binop .add (.dt x) (.num y) w = .dt (x + y.num)) ∧
    (∀ x y, x.den = 1 → binop .add (.num x) (.dt y) w = .dt (y + x.num)) ∧
    (∀ x y, binop .sub (.num x) (.num y) w = .num (x - y)) ∧
    (∀ x y, binop .sub (.dt x) (.dt y) w = .num ((x - y : Int) : Rat)) ∧
    (∀ x y, binop .mul (.num x) (.num y) w = .num (x * y)) := by
  refine ⟨fun _ _ => rfl, fun _ _ => rfl, ?_, ?_, ?_, ?_, fun _ _ => rfl, fun _ _ => rfl, fun _ _ => rfl⟩
  · intro x b; cases b <;> rfl
  · intro a y; cases a <;> rfl
  · intro x y h; simp [binop, h]
  · intro x y h; simp [binop, h]

open HostImpl in
/-- every value that is not a container stringifies (so concatenation with it is never null), with the documented text
for null and booleans, the value itself for a string -/
theorem stringify_scalars (w : World) :
    valueString? w .null = some "null" ∧ valueString? w (.bool true) = some "true" ∧
    valueString? w (.bool false) = some "false" ∧ (∀ s, valueString? w (.str s) = some s) ∧
    (∀ q, valueString? w (.num q) = some (ratText q)) ∧ (∀ f, valueString? w (.fn f) = some "<function>") ∧
    (∀ r, valueString? w (.regex r) = some "<regex>") :=
  ⟨rfl, rfl, rfl, fun _ => rfl, fun _ => rfl, fun _ => rfl, fun _ => rfl⟩

open HostImpl in
/-- **operator table, `/ % **` rows** (`_partial`: exact rational results; the real code rounds them to IEEE doubles):
division and modulo by zero, and `0 ** negative`, are null (F4); `%` takes the sign of the divisor; an integral exponent
is repeated multiplication, a negative one its reciprocal. -/
theorem binop_numeric_partial (w : World) :
    (∀ x y, y ≠ 0 → binop .div (.num x) (.num y) w = .num (x / y)) ∧
    (∀ x, binop .div (.num x) (.num 0) w = .null) ∧
    (∀ x y, y ≠ 0 → binop .mod (.num x) (.num y) w = .num (x - y * ((x / y).floor : Rat))) ∧
    (∀ x, binop .mod (.num x) (.num 0) w = .null) ∧
    (∀ x y, y.den = 1 → 0 ≤ y.num → binop .pow (.num x) (.num y) w = .num (ratPowNat x y.num.toNat)) ∧
    (∀ x y, y.den = 1 → y.num < 0 → x ≠ 0 → binop .pow (.num x) (.num y) w = .num (1 / ratPowNat x y.num.natAbs)) ∧
    (∀ y, y.den = 1 → y.num < 0 → binop .pow (.num 0) (.num y) w = .null) := by
  refine ⟨?_, ?_, ?_, ?_, ?_, ?_, ?_⟩
  · intro x y h; simp [binop, h]
  · intro x; simp [binop]
  · intro x y h; simp [binop, h, pyMod, ratFloor]
  · intro x; simp [binop]
  · intro x y h1 h2; simp [binop, h1, h2]
  · intro x y h1 h2 h3
    have : ¬ (0 ≤ y.num) := by omega
    simp [binop, h1, this, h3]
  · intro y h1 h2
    have : ¬ (0 ≤ y.num) := by omega
    simp [binop, h1, this]

/-- repeated multiplication is the power -/
theorem ratPowNat_eq (x : Rat) (n : Nat) : HostImpl.ratPowNat x n = x ^ n := by
  induction n with
  | zero => simp [HostImpl.ratPowNat]
  | succ k ih => rw [HostImpl.ratPowNat, ih, Rat.pow_succ, Rat.mul_comm]

open HostImpl in
/-- **comparisons are sign tests** of the single value order `compare?` (total preorder: property C11): when the
comparison of the two values terminates with `c`, the six operators are the six sign tests of `c`; when it does not (a pair
of self-containing containers: known finding F18, null after fix F25) all six are null. -/
theorem relops_are_sign_tests (w : World) (a b : Value) :
    (∀ c, compare? w a b = some c →
      binop .eq a b w = .bool (c == 0) ∧ binop .ne a b w = .bool (c != 0) ∧
      binop .le a b w = .bool (decide (c ≤ 0)) ∧ binop .lt a b w = .bool (decide (c < 0)) ∧
      binop .ge a b w = .bool (decide (c ≥ 0)) ∧ binop .gt a b w = .bool (decide (c > 0))) ∧
    (compare? w a b = none →
      ∀ op, isCompare op = true → binop op a b w = .null) := by
  constructor
  · intro c h; simp [binop, h]
  · intro h op hop
    cases op <;> simp [isCompare] at hop <;> simp [binop, h]

open HostImpl in
/-- hence the six comparisons are mutually consistent on every pair of values (of any types) whose comparison terminates -/
theorem relops_consistent (w : World) (a b : Value) (c : Int) (h : compare? w a b = some c) :
    ∃ eq lt : Bool, (eq && lt) = false ∧
      binop .eq a b w = .bool eq ∧ binop .ne a b w = .bool (!eq) ∧ binop .lt a b w = .bool lt ∧
      binop .le a b w = .bool (lt || eq) ∧ binop .ge a b w = .bool (!lt) ∧ binop .gt a b w = .bool (!lt && !eq) := by
  obtain ⟨h1, h2, h3, h4, h5, h6⟩ := (relops_are_sign_tests w a b).1 c h
  refine ⟨c == 0, decide (c < 0), ?_, h1, ?_, h4, ?_, ?_, ?_⟩
  · by_cases hc : c = 0 <;> simp [hc]
  · rw [h2]; simp [bne]
  · rw [h3]; congr 1; rw [Bool.eq_iff_iff]; simp; omega
  · rw [h5]; congr 1; rw [Bool.eq_iff_iff]; simp
  · rw [h6]; congr 1; rw [Bool.eq_iff_iff]; simp; omega

open HostImpl in
/-- values of different types (neither null) compare by type name, null is below everything else, and the comparison of
two scalars always terminates — so the sign-test reading applies to every pair of non-container values -/
theorem compare_scalars (w : World) :
    (∀ b, b ≠ .null → compare? w .null b = some (-1)) ∧ (∀ a, a ≠ .null → compare? w a .null = some 1) ∧
    compare? w .null .null = some 0 ∧
    (∀ x y : Rat, compare? w (.num x) (.num y) = some (if x < y then -1 else if x = y then 0 else 1)) ∧
    (∀ x y : String, compare? w (.str x) (.str y) = some (cmpOrd x y)) ∧
    (∀ (x : Bool) (y : Rat), compare? w (.bool x) (.num y) = some (cmpOrd "boolean" "number")) := by
  refine ⟨?_, ?_, ?_, ?_, ?_, ?_⟩
  · intro b hb; cases b <;> first | exact absurd rfl hb | simp [compare?, valueCompare]
  · intro a ha; cases a <;> first | exact absurd rfl ha | simp [compare?, valueCompare]
  · simp [compare?, valueCompare]
  · intro x y; simp [compare?, valueCompare]
  · intro x y; simp [compare?, valueCompare]
  · intro x y; simp [compare?, valueCompare, typeName]

/-- every value has one of the nine type names -/
theorem typeName_mem (v : Value) : HostImpl.typeName v ∈ typeNames := by
  cases v <;> simp [HostImpl.typeName, typeNames]

open HostImpl in
/-- **unsupported operand types yield null**: for every operator and ALL 9 × 9 pairs of operand types, a combination
outside the table `supported` evaluates to null (whatever the values and the heap). -/
theorem unsupported_is_null (op : BinOp) (a b : Value) (w : World)
    (h : supported op (typeName a) (typeName b) = false) : binop op a b w = .null := by
  cases op <;> cases a <;> cases b <;> first | rfl | (simp [supported, typeName] at h)

/-- the table is neither empty nor everything: of the 12 × 81 (strict operator, type, type) triples 460 are unsupported -/
theorem unsupported_count :
    ((strictOps.flatMap fun op => typeNames.flatMap fun ta => typeNames.map fun tb => supported op ta tb).count false) = 460 ∧
    ((strictOps.flatMap fun op => typeNames.flatMap fun ta => typeNames.map fun tb => supported op ta tb).length) = 972 := by
  decide +kernel

open HostImpl in
/-- **booleans are not numbers** (F13): arithmetic on a boolean operand, on either side, and unary minus of a boolean,
are null — `true + 1` is not 2. -/
theorem bool_is_not_number (b : Bool) (x : Rat) (w : World) :
    (∀ op, op ∈ [BinOp.add, .sub, .mul, .div, .mod, .pow] →
      binop op (.bool b) (.num x) w = .null ∧ binop op (.num x) (.bool b) w = .null ∧
      binop op (.bool b) (.bool b) w = .null) ∧
    neg (.bool b) = .null := by
  refine ⟨?_, rfl⟩
  intro op hop
  simp only [List.mem_cons, List.not_mem_nil, or_false] at hop
  rcases hop with h | h | h | h | h | h <;> subst h <;> exact ⟨rfl, rfl, rfl⟩

open HostImpl in
/-- unary minus: numbers only -/
theorem neg_table : (∀ x, neg (.num x) = .num (-x)) ∧ (∀ v, typeName v ≠ "number" → neg v = .null) := by
  refine ⟨fun _ => rfl, ?_⟩
  intro v h; cases v <;> first | rfl | exact absurd rfl h

open HostImpl in
/-- truthiness (what decides `&&`, `||`, `!`, `if`): null, false, 0, '' and the empty array are falsy, all else truthy -/
theorem truthy_table (w : World) :
    truthy .null w = false ∧ (∀ b, truthy (.bool b) w = b) ∧ (∀ x, truthy (.num x) w = (x != 0)) ∧
    (∀ s, truthy (.str s) w = (s != "")) ∧ (∀ d, truthy (.dt d) w = true) ∧
    (∀ r, truthy (.arr r) w = (((w.arr? r).getD []).length != 0)) ∧
    (∀ r, truthy (.obj r) w = true) ∧ (∀ f, truthy (.fn f) w = true) ∧ (∀ r, truthy (.regex r) w = true) :=
  ⟨rfl, fun _ => rfl, fun _ => rfl, fun _ => rfl, fun _ => rfl, fun _ => rfl, fun _ => rfl, fun _ => rfl, fun _ => rfl⟩

/-! ## the built-in expression functions -/

/-- **the alias table is the documented one**: the table generated from `library.EXPRESSION_FUNCTION_MAP` of the working
tree equals the documented 46-entry list, for every alias `EXPRESSION_FUNCTIONS[alias] is SCRIPT_FUNCTIONS[target]` (the
same function object — "behaves exactly as" is identity, not a sampled claim), and `EXPRESSION_FUNCTIONS` has no other key. -/
theorem alias_table_documented :
    (Gen.aliases.map fun t => (t.1, t.2.1)) = documentedAliases ∧
    Gen.aliases.all (fun t => t.2.2) = true ∧
    Gen.aliasExtra = [] ∧
    documentedAliases.length = 46 ∧ (documentedAliases.map (·.1)).Nodup := by
  decide

/-- every documented built-in resolves to the library function it is documented to alias, and nothing else is a built-in -/
theorem alias_resolves_to_target :
    (∀ p ∈ documentedAliases, builtinOf (.user p.1) = some (.lib p.2)) ∧
    (∀ s, s ∉ documentedAliases.map (·.1) → builtinOf (.user s) = none) ∧ (∀ k n, builtinOf (.gen k n) = none) := by
  refine ⟨by decide, ?_, fun _ _ => rfl⟩
  intro s hs
  have h46 := alias_table_documented.1
  simp only [builtinOf, Option.map_eq_none_iff, List.find?_eq_none]
  intro t ht heq
  apply hs
  have : (t.1, t.2.1) ∈ documentedAliases := by rw [← h46]; exact List.mem_map.mpr ⟨t, ht, rfl⟩
  have hs' : t.1 = s := by simpa using heq
  exact List.mem_map.mpr ⟨(t.1, t.2.1), this, hs'⟩

/-- expression mode (`builtins`): an alias that is bound neither in the locals nor in the globals is looked up as the
library function it aliases — the call that follows is the very call a script makes through the target's own name. -/
theorem alias_lookup {W : Type} (cfg : Config W) (hbi : cfg.builtins = true) (hh : cfg.host.builtin = builtinOf)
    (locals : Option Env) (g : Env) (p : String × String) (hp : p ∈ documentedAliases)
    (hl : ∀ l, locals = some l → l.contains (.user p.1) = false) (hg : g.contains (.user p.1) = false) :
    lookupFunc cfg locals g (.user p.1) = some (.fn (.lib p.2)) := by
  have hb := alias_resolves_to_target.1 p hp
  cases locals with
  | none => simp [lookupFunc, hg, hbi, hh, hb]
  | some l => simp [lookupFunc, hg, hbi, hh, hb, hl l rfl]

/-- **a binding wins over the built-in** (and locals win over globals): the built-ins are consulted only for a name that
neither the locals nor the globals bind — even a binding to null shadows the built-in (the call is then undefined). -/
theorem binding_wins_over_builtin {W : Type} (cfg : Config W) (g : Env) (n : Name) :
    (∀ l : Env, l.contains n = true → lookupFunc cfg (some l) g n = l.get? n) ∧
    (∀ locals : Option Env, (∀ l, locals = some l → l.contains n = false) → g.contains n = true →
      lookupFunc cfg locals g n = g.get? n) ∧
    (cfg.builtins = false → ∀ locals : Option Env, (∀ l, locals = some l → l.contains n = false) → g.contains n = false →
      lookupFunc cfg locals g n = none) := by
  refine ⟨?_, ?_, ?_⟩
  · intro l h; simp [lookupFunc, h]
  · intro locals hl hg
    cases locals with
    | none => simp [lookupFunc, hg]
    | some l => simp [lookupFunc, hg, hl l rfl]
  · intro hb locals hl hg
    cases locals with
    | none => simp [lookupFunc, hg, hb]
    | some l => simp [lookupFunc, hg, hb, hl l rfl]

/-! ## non-vacuity: the hypotheses are inhabited and the statements say something on concrete expressions -/

section Examples

/-- a blind host: the concrete operators of `HostImpl` on the empty heap -/
def exHost : Host Trace where
  truthy := fun v _ => HostImpl.truthy v {}
  binop := fun op a b _ => HostImpl.binop op a b {}
  neg := HostImpl.neg
  lib := fun _ _ w => .ret (.ok .null) w
  other := fun _ _ w => .ret (.ok .null) w
  notCallable := fun _ w => w
  logFailure := fun w => w
  newArray := fun _ w => (.null, w)
  builtin := builtinOf

theorem exBlind : Blind exHost := ⟨fun _ _ _ => rfl, fun _ _ _ _ _ => rfl⟩

def exCfg : Config Trace := { host := exHost, funs := fun _ => none, maxStatements := 0, builtins := true }

/-- every function returns its second argument (`tr(tag, x)` is the logging identity) -/
def exResult : Value → List Value → Value
  | _, [_, x] => x
  | _, _ => .null

def tr (tag : String) (e : Expr) : Expr := .function (.user "tr") [.string tag, e]
def trV : Value := .fn (.lib "tr")

/-- globals that bind `tr`, and also the keywords `null` and `if` -/
def exGlobals : Env := [(.user "tr", trV), (.user "null", .num 5), (.user "if", trV), (.user "len", .null)]
def exState : State Trace := { globals := exGlobals, world := [(trV, [.str "earlier"])], count := 7 }

/-- value and complete trace, or the error and the trace -/
def run (e : Expr) : Sum (Value × Trace) (RtErr × Trace) :=
  match evalExpr exCfg (traceCall exResult) none e exState with
  | .ok v st => .inl (v, st.world)
  | .err e st => .inr (e, st.world)
  | .oof => .inr (.host "oof", [])

/-- `tr('a', 0) && tr('b', 1)` is the left operand's value 0 (not `false`); `b` is never called -/
example : run (.binary .and (tr "a" (.number 0)) (tr "b" (.number 1)))
    = .inl (.num 0, [(trV, [.str "earlier"]), (trV, [.str "a", .num 0])]) := by decide

/-- `tr('a', 2) && tr('b', 3)` is the right operand's value 3 (not `true`); a then b -/
example : run (.binary .and (tr "a" (.number 2)) (tr "b" (.number 3)))
    = .inl (.num 3, [(trV, [.str "earlier"]), (trV, [.str "a", .num 2]), (trV, [.str "b", .num 3])]) := by decide

/-- `tr('a', 's') || tr('b', 3)` is 's'; b is never called; `tr('a', '') || tr('b', 3)` is 3 -/
example : run (.binary .or (tr "a" (.string "s")) (tr "b" (.number 3)))
    = .inl (.str "s", [(trV, [.str "earlier"]), (trV, [.str "a", .str "s"])]) := by decide
example : run (.binary .or (tr "a" (.string "")) (tr "b" (.number 3)))
    = .inl (.num 3, [(trV, [.str "earlier"]), (trV, [.str "a", .str ""]), (trV, [.str "b", .num 3])]) := by decide

/-- `tr('a', 1) + tr('b', 2) * tr('c', 3)` = 7, calls in source order a, b, c (not in order of operator application) -/
example : run (.binary .add (tr "a" (.number 1)) (.binary .mul (tr "b" (.number 2)) (tr "c" (.number 3))))
    = .inl (.num 7, [(trV, [.str "earlier"]), (trV, [.str "a", .num 1]), (trV, [.str "b", .num 2]), (trV, [.str "c", .num 3])]) := by
  decide +kernel

/-- `if(tr('c', 0), tr('t', 1), tr('f', 2), tr('x', 3))` = 2 with calls c, f only — although a function is bound to the name `if` -/
example : run (.function (.user "if") [tr "c" (.number 0), tr "t" (.number 1), tr "f" (.number 2), tr "x" (.number 3)])
    = .inl (.num 2, [(trV, [.str "earlier"]), (trV, [.str "c", .num 0]), (trV, [.str "f", .num 2])]) := by decide

/-- `nope(tr('a', 1), tr('b', 2))`: Undefined function, after both arguments were evaluated in order -/
example : run (.function (.user "nope") [tr "a" (.number 1), tr "b" (.number 2)])
    = .inr (.undefinedFunction (.user "nope"), [(trV, [.str "earlier"]), (trV, [.str "a", .num 1]), (trV, [.str "b", .num 2])]) := by
  decide

/-- `null` is the constant although a global of that name is 5; `'x' + null` stringifies it -/
example : run (.binary .add (.string "x") (.variable (.user "null"))) = .inl (.str "xnull", [(trV, [.str "earlier"])]) := by decide

/-- expression mode: `abs` resolves to `mathAbs`; `len` is bound (to null) in the globals, which wins: undefined -/
example : lookupFunc exCfg none exGlobals (.user "abs") = some (.fn (.lib "mathAbs")) := by decide
example : run (.function (.user "abs") [.number 1]) = .inl (.null, [(trV, [.str "earlier"]), (.fn (.lib "mathAbs"), [.num 1])]) := by
  decide
example : run (.function (.user "len") [tr "a" (.string "s")])
    = .inr (.undefinedFunction (.user "len"), [(trV, [.str "earlier"]), (trV, [.str "a", .str "s"])]) := by decide

/-- the hypotheses of `and_or_lazy` / `if_lazy` / `undefined_keeps_effects` / `alias_lookup` hold on these instances -/
example : valueOf (ctxOf exCfg exResult none exGlobals) (tr "a" (.number 0)) = .ok (.num 0) := by decide
example : valuesOf (ctxOf exCfg exResult none exGlobals) [tr "a" (.number 1), tr "b" (.number 2)] = .ok [.num 1, .num 2] := by decide
example : lookupFunc exCfg none exGlobals (.user "nope") = none := by decide
example : exGlobals.contains (.user "abs") = false ∧ ("abs", "mathAbs") ∈ documentedAliases := by decide

/-- the operator table on concrete values: `'n=' + 2.5`, `true + 1` (null), `[] < 0` by type name ('array' < 'number') -/
example : HostImpl.binop .add (.str "n=") (.num (5/2)) {} = .str "n=2.5" := by decide +kernel
example : HostImpl.binop .add (.bool true) (.num 1) {} = .null := by decide
example : HostImpl.binop .lt (.arr 0) (.num 0) {} = .bool true := by
  simp [HostImpl.binop, HostImpl.compare?, HostImpl.valueCompare, HostImpl.cmpOrd, HostImpl.typeName]
example : HostImpl.compare? {} .null (.num 2) = some (-1) := by
  simp [HostImpl.compare?, HostImpl.valueCompare]
example : supported .sub "datetime" "number" = false ∧ supported .add "datetime" "number" = true := by decide

end Examples

end C03
