import BareProofs.C01HostLemmas
import BareModel.HostLib
import BareProofs.HostLibBridge
import Std.Data.String.ToNat

/-!
# C01 on the concrete hosts

`C01.ticked_erasure` / `C01.parse_exec_structured` (`C01Erase.lean`) assume the host law `HostNoReserved`: no library
interaction tree requests a parser-generated global.  The hosts the drivers run and that are compared with the real
library — `HostImpl.host` and `HostLib.hostLib` — expose `systemGlobalGet` / `systemGlobalSet`, so
`systemGlobalGet('__bareScriptValues0')` reads a hidden `for` variable and the law fails for them.  The property itself
only speaks about code that does not use the reserved names.  This file makes the theorems apply to the concrete hosts:

1. `sanitize h` (`C01HostLemmas`): reserved reads answered `none`, reserved writes dropped.  `hostNoReserved_sanitize`,
   `truthyBool_sanitize`, `sanitize_truthy`, … : it satisfies the law, for every `h`, and changes nothing but `lib` / `other`.
2. `hostImpl_lib_treeOK`, `hostImpl_other_treeOK`, `hostLib_lib_treeOK`, `hostLib_other_treeOK`: the trees of the concrete
   hosts are `TreeOK` *unless* the call is `systemGlobalGet` / `systemGlobalSet` with a first argument that is a string
   spelling a generated name (`namesReserved`); `sanitize_hostImpl_lib`, `sanitize_hostLib_lib`: on every other call the
   sanitised host has literally the same tree.
3. **The run-level theorem.**  `guard h` is the instrumented host: a request for a reserved global ends the library call
   with the runtime error `reservedMsg`; no construct of the machine catches a runtime error, so the *whole run* ends with
   it (`touchesReserved r = true`).  `guard_execM₀` (and `_callValue₀`, `_execute₀`, `_execute`, `_runT₀`, `_runS`): the
   guarded run **equals** the real run **and** the sanitised run unless it ends with that error — so
   `touchesReserved (guarded run) = false` is the semantic statement "no library call of this run names a reserved global",
   and under it `real_eq_sanitized_execute`: the run with `h` equals the run with `sanitize h`.  The side condition is on
   the run, is decidable (evaluate the guarded run), and is necessary (`touching_program_differs` below).
   Syntactic sufficient condition, simplest form: the host does not expose the two functions.  `withoutGlobals h`
   answers `fail null` for them; `hostImpl_withoutGlobals_noReserved`, `hostLib_withoutGlobals_noReserved`: the law holds
   outright, so `parse_exec_structured_hostImpl_noGlobals` needs no condition on the run.
4. `parse_exec_structured_guarded`, `ticked_erasure_guarded`, `parse_exec_structured_budget_guarded`: the C01 end-to-end
   statements for **every** host with `TruthyBool` — `HostNoReserved` is gone; each direction asks that the (guarded) run
   it starts from touches no reserved global, and concludes about the **real** host on both sides.
   `parse_exec_structured_hostImpl`, `…_hostLib`, `ticked_erasure_hostImpl`, `…_hostLib`: instances, with examples that
   push a program (`for` with index at global scope, a function with a `for`, `systemLog`, `systemGlobalSet/Get` of an
   ordinary name) through the theorem on the concrete host.
5. Why: `hostImpl_not_noReserved`, `hostLib_not_noReserved` (the concrete hosts really violate the law), and
   `Demo.touching_program_differs`: a `ProgOK` program that peeks at `__bareScriptIndex0` through `systemGlobalGet` logs `0 1`
   on the machine and `null null` in the source-level reading (real host), is reported by the guard, and agrees again on the
   sanitised host.

The concrete runs in the examples are evaluated by the kernel (`decide +kernel`) on `HostK.hostK` / `HostK.hostLibK`, copies of
the two hosts with `value_compare` by structural recursion, proved equal to them (`HostK.host_eq`, `HostK.hostLib_eq`).

Not proved (`_partial` would be the name): a *syntactic* condition on the program text (e.g. "never mentions
`systemGlobalGet` / `systemGlobalSet` and the initial globals bind those two names only") implying the run-level condition
for the full concrete hosts.  It needs a value-flow invariant through the heap, the partial-application table and all 18 / 40
library functions (a function value stored in an array can be fetched and called later); nothing in this file depends on it.
-/

set_option linter.unusedSimpArgs false
set_option linter.unusedSectionVars false
set_option linter.unusedVariables false

namespace C01
open StructuredS Machine Lower Structured

variable {W : Type}

/-! ## 1. `sanitize` (and `guard`) satisfy the host laws and change nothing else -/

/-- **`sanitize h` satisfies `HostNoReserved`, whatever `h` is** -/
theorem hostNoReserved_sanitize (h : Host W) : HostNoReserved (sanitize h) :=
  ⟨fun _ _ _ => treeOK_sanT _, fun _ _ _ => treeOK_sanT _⟩

theorem hostNoReserved_guard (h : Host W) : HostNoReserved (guard h) :=
  ⟨fun _ _ _ => treeOK_guardT _, fun _ _ _ => treeOK_guardT _⟩

theorem truthyBool_sanitize (h : Host W) : TruthyBool (sanitize h) ↔ TruthyBool h := Iff.rfl
theorem truthyBool_guard (h : Host W) : TruthyBool (guard h) ↔ TruthyBool h := Iff.rfl

theorem sanitize_truthy (h : Host W) : (sanitize h).truthy = h.truthy := rfl
theorem sanitize_binop (h : Host W) : (sanitize h).binop = h.binop := rfl
theorem sanitize_neg (h : Host W) : (sanitize h).neg = h.neg := rfl
theorem sanitize_notCallable (h : Host W) : (sanitize h).notCallable = h.notCallable := rfl
theorem sanitize_logFailure (h : Host W) : (sanitize h).logFailure = h.logFailure := rfl
theorem sanitize_newArray (h : Host W) : (sanitize h).newArray = h.newArray := rfl
theorem sanitize_builtin (h : Host W) : (sanitize h).builtin = h.builtin := rfl
theorem sanitize_lib (h : Host W) (name : String) (args : List Value) (w : W) :
    (sanitize h).lib name args w = sanT (h.lib name args w) := rfl
theorem sanitize_other (h : Host W) (k : Nat) (args : List Value) (w : W) :
    (sanitize h).other k args w = sanT (h.other k args w) := rfl

/-- a host that already satisfies the law is a fixed point -/
theorem sanitize_of_noReserved (h : Host W) (hh : HostNoReserved h) : sanitize h = h := by
  cases h
  simp only [sanitize, Host.mk.injEq, true_and, and_true]
  exact ⟨funext fun n => funext fun a => funext fun w => sanT_of_treeOK (hh.1 n a w),
    funext fun n => funext fun a => funext fun w => sanT_of_treeOK (hh.2 n a w)⟩

/-! ## 3. the run-level theorem -/

/-- the configuration with the guarded / sanitised host -/
def guardCfg (cfg : Config W) : Config W := { cfg with host := guard cfg.host }
def sanCfg (cfg : Config W) : Config W := { cfg with host := sanitize cfg.host }
def guardS (scfg : SConfig W) : SConfig W := { scfg with host := guard scfg.host }
def sanS (scfg : SConfig W) : SConfig W := { scfg with host := sanitize scfg.host }

theorem cfgSim_guard_self (cfg : Config W) : CfgSim (guardCfg cfg) cfg := ⟨hostSim_guard_self _, rfl, rfl, rfl, rfl, rfl, rfl⟩
theorem cfgSim_guard_san (cfg : Config W) : CfgSim (guardCfg cfg) (sanCfg cfg) := ⟨hostSim_guard_san _, rfl, rfl, rfl, rfl, rfl, rfl⟩
theorem scfgSim_guard_self (scfg : SConfig W) : SCfgSim (guardS scfg) scfg := ⟨hostSim_guard_self _, rfl, rfl, rfl⟩
theorem scfgSim_guard_san (scfg : SConfig W) : SCfgSim (guardS scfg) (sanS scfg) := ⟨hostSim_guard_san _, rfl, rfl, rfl⟩

/-- **the run named a reserved global**: the (guarded) run ended with the guard's runtime error -/
def touchesReserved : Res W → Bool
  | .err (.host m) _ => m == reservedMsg
  | _ => false

/-- the same for the result of a call -/
def touchesReservedO : Out W → Bool
  | .err (.host m) _ => m == reservedMsg
  | _ => false

theorem ResG.eq_of_untouched {rg r : Res W} (h : ResG rg r) (hu : touchesReserved rg = false) : r = rg := by
  rcases h with rfl | ⟨s, rfl⟩
  · rfl
  · simp [touchesReserved] at hu

theorem OutG.eq_of_untouched {og o : Out W} (h : OutG og o) (hu : touchesReservedO og = false) : o = og := by
  rcases h with rfl | ⟨s, rfl⟩
  · rfl
  · simp [touchesReservedO] at hu

theorem toResS_g {og o : SOut W} (h : SOutG og o) : ResG (toResS og) (toResS o) := by
  rcases h with rfl | ⟨s, rfl⟩
  · exact Or.inl rfl
  · exact Or.inr ⟨s, rfl⟩

/-- `ResRel` relates an error only to the same error -/
theorem ResRel.touches {r r' : Res W} (h : ResRel r r') : touchesReserved r' = touchesReserved r := by
  cases r <;> cases r' <;> simp only [ResRel] at h <;> try (first | rfl | exact h.elim)
  rename_i e _ e' _
  obtain ⟨rfl, _⟩ := h
  cases e <;> rfl

section Run
variable (cfg : Config W)

/-- **Main theorem, statement level.**  For every host, fuel, statement list, locals, include base, program counter and
state: if the run with the guarded host does not end with the guard's error — no library call of this run names a reserved
global — then the run with the real host and the run with the sanitised host are both *equal* to it (same result, same
final globals, world and statement counter, same out-of-fuel behaviour). -/
theorem guard_execM₀ (fuel : Nat) (P : List Stmt) (l : Option Env) (base : Option String) (pc : Nat) (st : State W)
    (hu : touchesReserved (execM₀ (guardCfg cfg) fuel P l base pc st) = false) :
    execM₀ cfg fuel P l base pc st = execM₀ (guardCfg cfg) fuel P l base pc st ∧
    execM₀ (sanCfg cfg) fuel P l base pc st = execM₀ (guardCfg cfg) fuel P l base pc st :=
  ⟨((machine_g (cfgSim_guard_self cfg) fuel).2.1 P l base pc st).eq_of_untouched hu,
   ((machine_g (cfgSim_guard_san cfg) fuel).2.1 P l base pc st).eq_of_untouched hu⟩

/-- the same for one call of a function value (script function, library function, partial application) -/
theorem guard_callValue₀ (fuel : Nat) (f : Value) (args : List Value) (st : State W)
    (hu : touchesReservedO (callValue₀ (guardCfg cfg) fuel f args st) = false) :
    callValue₀ cfg fuel f args st = callValue₀ (guardCfg cfg) fuel f args st ∧
    callValue₀ (sanCfg cfg) fuel f args st = callValue₀ (guardCfg cfg) fuel f args st :=
  ⟨((machine_g (cfgSim_guard_self cfg) fuel).1 f args st).eq_of_untouched hu,
   ((machine_g (cfgSim_guard_san cfg) fuel).1 f args st).eq_of_untouched hu⟩

/-- `execute_script` on the cache-free machine -/
theorem guard_execute₀ (fuel : Nat) (P : List Stmt) (base : Option String) (st : State W)
    (hu : touchesReserved (execute₀ (guardCfg cfg) fuel P base st) = false) :
    execute₀ cfg fuel P base st = execute₀ (guardCfg cfg) fuel P base st ∧
    execute₀ (sanCfg cfg) fuel P base st = execute₀ (guardCfg cfg) fuel P base st :=
  guard_execM₀ cfg fuel P none base 0 _ hu

/-- `execute_script` on the real, label-caching machine -/
theorem guard_execute (fuel : Nat) (P : List Stmt) (base : Option String) (st : State W)
    (hu : touchesReserved (execute (guardCfg cfg) fuel P base st) = false) :
    execute cfg fuel P base st = execute (guardCfg cfg) fuel P base st ∧
    execute (sanCfg cfg) fuel P base st = execute (guardCfg cfg) fuel P base st := by
  simp only [C08.execute_eq] at hu ⊢
  exact guard_execute₀ cfg fuel P base st hu

/-- **a run with the real host equals the run with `sanitize h` as long as no library call names a reserved global** -/
theorem real_eq_sanitized_execute (fuel : Nat) (P : List Stmt) (base : Option String) (st : State W)
    (hu : touchesReserved (execute (guardCfg cfg) fuel P base st) = false) :
    execute cfg fuel P base st = execute (sanCfg cfg) fuel P base st := by
  obtain ⟨h1, h2⟩ := guard_execute cfg fuel P base st hu
  rw [h1, h2]

theorem real_eq_sanitized_execM₀ (fuel : Nat) (P : List Stmt) (l : Option Env) (base : Option String) (pc : Nat) (st : State W)
    (hu : touchesReserved (execM₀ (guardCfg cfg) fuel P l base pc st) = false) :
    execM₀ cfg fuel P l base pc st = execM₀ (sanCfg cfg) fuel P l base pc st := by
  obtain ⟨h1, h2⟩ := guard_execM₀ cfg fuel P l base pc st hu
  rw [h1, h2]

/-- without the side condition: the guarded run is the real run, or the guard's error -/
theorem guard_execute_dichotomy (fuel : Nat) (P : List Stmt) (base : Option String) (st : State W) :
    execute (guardCfg cfg) fuel P base st = execute cfg fuel P base st ∨
    touchesReserved (execute (guardCfg cfg) fuel P base st) = true := by
  simp only [C08.execute_eq]
  rcases (machine_g (cfgSim_guard_self cfg) fuel).2.1 P none base 0 { st with count := 0 } with h | ⟨s, h⟩
  · exact Or.inl h
  · refine Or.inr ?_
    show touchesReserved (execM₀ (guardCfg cfg) fuel P none base 0 { st with count := 0 }) = true
    rw [h]; simp [touchesReserved]

/-- the ticked structured reading of a program without raw labels / jumps (through T2) -/
theorem guard_runT₀ (B : List SStmt) (hraw : NoRawB B) (fuel : Nat) (base : Option String) (st : State W)
    (hu : touchesReserved (runT₀ (guardCfg cfg) fuel B base st) = false) :
    runT₀ cfg fuel B base st = runT₀ (guardCfg cfg) fuel B base st ∧
    runT₀ (sanCfg cfg) fuel B base st = runT₀ (guardCfg cfg) fuel B base st := by
  have e : ∀ c : Config W, runT₀ c fuel B base st = execM₀ c fuel (lowerB none B 0).1 none base 0 st :=
    fun c => (run_body_eq c base B 0 hraw fuel none st).symm
  simp only [e] at hu ⊢
  exact guard_execM₀ cfg fuel _ none base 0 st hu

end Run

/-- the pure source-level reading -/
theorem guard_runS (scfg : SConfig W) (k : Nat) (B : List SStmt) (st : State W)
    (hu : touchesReserved (runS (guardS scfg) k B st) = false) :
    runS scfg k B st = runS (guardS scfg) k B st ∧ runS (sanS scfg) k B st = runS (guardS scfg) k B st := by
  simp only [runS_eq] at hu ⊢
  exact ⟨(toResS_g ((pure_g (scfgSim_guard_self scfg) k).2.2.1 B none st)).eq_of_untouched hu,
    (toResS_g ((pure_g (scfgSim_guard_san scfg) k).2.2.1 B none st)).eq_of_untouched hu⟩

/-! ## 4. the C01 theorems for every host with `TruthyBool`, under the run-level condition -/

section Guarded
variable {cfg : Config W} {scfg : SConfig W} {start : FnId → Nat} (ag : Agree cfg scfg start)
  (htb : TruthyBool cfg.host) (htab : TablesOK scfg)

theorem agree_guard (ag : Agree cfg scfg start) : Agree (guardCfg cfg) (guardS scfg) start :=
  ⟨congrArg guard ag.host, ag.builtins, ag.debug, ag.funs⟩

include ag htb htab

/-- **T3 `ticked_erasure` without `HostNoReserved`** (unlimited budget).  For every host with `TruthyBool`:
* if the guarded ticked run terminates without touching a reserved global, it *is* the real ticked run, and the pure run
  — with the **real** host — terminates for every sufficiently large fuel with the same kind of outcome, the same value /
  error, the same world and user-visible globals;
* if the guarded pure run terminates without touching a reserved global, it *is* the real pure run, and the real ticked run
  terminates for every sufficiently large fuel with such a result. -/
theorem ticked_erasure_guarded (hmax : cfg.maxStatements = 0) (B : List SStmt) (hB : ProgOK B) (base : Option String)
    (st st' : State W) (hs : StRel st st') :
    (∀ fuel, runT₀ (guardCfg cfg) fuel B base st ≠ .oof → touchesReserved (runT₀ (guardCfg cfg) fuel B base st) = false →
      runT₀ cfg fuel B base st = runT₀ (guardCfg cfg) fuel B base st ∧
      ∃ r', ResRel (runT₀ cfg fuel B base st) r' ∧ ∃ N, ∀ k, N ≤ k → runS scfg k B st' = r') ∧
    (∀ k, runS (guardS scfg) k B st' ≠ .oof → touchesReserved (runS (guardS scfg) k B st') = false →
      runS scfg k B st' = runS (guardS scfg) k B st' ∧
      ∃ r, ResRel r (runS scfg k B st') ∧ ∃ N, ∀ f, N ≤ f → runT₀ cfg f B base st = r) := by
  have h := ticked_erasure (agree_guard ag) ((truthyBool_guard _).2 htb) (hostNoReserved_guard _) (scfg := guardS scfg) htab
    hmax B hB base st st' hs
  refine ⟨fun fuel hne hu => ?_, fun k hne hu => ?_⟩
  · have e := (guard_runT₀ cfg B hB.noRaw fuel base st hu).1
    obtain ⟨r', hr, N, hN⟩ := h.1 fuel hne
    have hu' : touchesReserved r' = false := by rw [hr.touches]; exact hu
    refine ⟨e, r', by rw [e]; exact hr, N, fun k hk => ?_⟩
    have hk' := hN k hk
    rw [(guard_runS scfg k B st' (by rw [hk']; exact hu')).1, hk']
  · have e := (guard_runS scfg k B st' hu).1
    obtain ⟨r, hr, N, hN⟩ := h.2 k hne
    have hu' : touchesReserved r = false := by rw [← hr.touches]; exact hu
    refine ⟨e, r, by rw [e]; exact hr, N, fun f hf => ?_⟩
    have hf' := hN f hf
    rw [(guard_runT₀ cfg B hB.noRaw f base st (by rw [hf']; exact hu')).1, hf']

/-- **T4 `parse_exec_structured` without `HostNoReserved`** (unlimited budget).  For every host with `TruthyBool` and every
structured program `B` with `ProgOK`: the lines a user writes for `B` parse to a statement list `P`, and
* whenever `execute_script` with the guarded host terminates on `P` without touching a reserved global, that run *is* the
  run with the real host, and the pure source-level reading `execS B` **with the real host** terminates (every sufficiently
  large fuel) with the same kind of outcome, the same returned value / runtime error, the same world (log, heap, …) and the
  same user-visible globals;
* conversely, whenever the guarded pure run terminates without touching a reserved global, it is the real pure run and the
  real machine terminates (every sufficiently large fuel) with such a result. -/
theorem parse_exec_structured_guarded (hmax : cfg.maxStatements = 0) (B : List SStmt) (hB : ProgOK B) (hfid : FidsInOrder B)
    (base : Option String) (st st' : State W) (hs : StRel st st') :
    ∃ P, parseLines (renderB B) = .ok P ∧
      (∀ fuel, execute (guardCfg cfg) fuel P base st ≠ .oof → touchesReserved (execute (guardCfg cfg) fuel P base st) = false →
        execute cfg fuel P base st = execute (guardCfg cfg) fuel P base st ∧
        ∃ r', ResRel (execute cfg fuel P base st) r' ∧ ∃ N, ∀ k, N ≤ k → runS scfg k B st' = r') ∧
      (∀ k, runS (guardS scfg) k B st' ≠ .oof → touchesReserved (runS (guardS scfg) k B st') = false →
        runS scfg k B st' = runS (guardS scfg) k B st' ∧
        ∃ r, ResRel r (runS scfg k B st') ∧ ∃ N, ∀ f, N ≤ f → execute cfg f P base st = r) := by
  have hP := parseLines_render B hB.wellNested hfid (incB_of_noInclude B hB.noInclude)
  have hE : ∀ (c : Config W) fuel, execute c fuel (lowerProgram B) base st = runT₀ c fuel B base { st with count := 0 } := by
    intro c fuel; rw [C08.execute_eq, execute₀_lowered c base B hB.noRaw]
  have h := ticked_erasure_guarded ag htb htab hmax B hB base { st with count := 0 } st' hs
  refine ⟨lowerProgram B, hP, fun fuel hne hu => ?_, fun k hne hu => ?_⟩
  · simp only [hE] at hne hu ⊢
    exact h.1 fuel hne hu
  · obtain ⟨e, r, hr, N, hN⟩ := h.2 k hne hu
    exact ⟨e, r, hr, N, fun f hf => by rw [hE]; exact hN f hf⟩

/-- **T4 with a statement budget, without `HostNoReserved`**: as long as the guarded machine run is neither stopped by the
budget nor touches a reserved global -/
theorem parse_exec_structured_budget_guarded (B : List SStmt) (hB : ProgOK B) (hfid : FidsInOrder B)
    (fuel : Nat) (base : Option String) (st st' : State W) (hs : StRel st st') :
    ∃ P, parseLines (renderB B) = .ok P ∧
      (execute (guardCfg cfg) fuel P base st ≠ .oof → (∀ m s, execute (guardCfg cfg) fuel P base st ≠ .err (.exceeded m) s) →
        touchesReserved (execute (guardCfg cfg) fuel P base st) = false →
        execute cfg fuel P base st = execute (guardCfg cfg) fuel P base st ∧
        ∃ r', ResRel (execute cfg fuel P base st) r' ∧ ∃ N, ∀ k, N ≤ k → runS scfg k B st' = r') := by
  obtain ⟨P, hP, h⟩ := parse_exec_structured_budget (agree_guard ag) ((truthyBool_guard _).2 htb) (hostNoReserved_guard _)
    (scfg := guardS scfg) htab B hB hfid fuel base st st' hs
  refine ⟨P, hP, fun hne hbud hu => ?_⟩
  have e := (guard_execute cfg fuel P base st hu).1
  obtain ⟨r', hr, N, hN⟩ := h hne hbud
  have hu' : touchesReserved r' = false := by rw [hr.touches]; exact hu
  refine ⟨e, r', by rw [e]; exact hr, N, fun k hk => ?_⟩
  have hk' := hN k hk
  rw [(guard_runS scfg k B st' (by rw [hk']; exact hu')).1, hk']

end Guarded

end C01

/-! ## 2. the concrete hosts: which calls name a reserved global -/

namespace C01
open StructuredS Machine Lower Structured

/-- the call is `systemGlobalGet` / `systemGlobalSet` and its first argument is a string that spells a parser-generated
name (`__bareScriptValues0`, …) -/
def namesReserved (name : String) (args : List Value) : Bool :=
  (name == "systemGlobalGet" || name == "systemGlobalSet") &&
    match args with
    | .str s :: _ => isGen (Name.ofString s)
    | _ => false

theorem treeOK_indexOfFn (f : Value) : ∀ (xs : List Value) (i : Nat) (w : HostImpl.World), TreeOK (HostImpl.indexOfFn f xs i w)
  | [], i, w => TreeOK.ret _ _
  | x :: xs, i, w => by
      unfold HostImpl.indexOfFn
      refine TreeOK.call _ _ _ _ ?_
      intro r w1
      split
      · exact TreeOK.ret _ _
      · exact treeOK_indexOfFn f xs (i+1) w1

/-- **`HostImpl`: every library tree is `TreeOK` unless the call names a reserved global** -/
theorem hostImpl_lib_treeOK (name : String) (args : List Value) (w : HostImpl.World) (h : namesReserved name args = false) :
    TreeOK (HostImpl.host.lib name args w) := by
  show TreeOK (HostImpl.lib name args w)
  unfold HostImpl.lib
  simp -failIfUnchanged only []
  repeat' split
  all_goals first
    | exact TreeOK.ret _ _
    | exact treeOK_indexOfFn _ _ _ _
    | exact TreeOK.globalGet _ _ _ (by simpa [namesReserved] using h) (fun _ _ => TreeOK.ret _ _)
    | exact TreeOK.globalSet _ _ _ _ (by simpa [namesReserved] using h) (fun _ => TreeOK.ret _ _)

/-- partial applications never touch a global themselves -/
theorem hostImpl_other_treeOK (k : Nat) (args : List Value) (w : HostImpl.World) : TreeOK (HostImpl.host.other k args w) := by
  show TreeOK (HostImpl.other k args w)
  unfold HostImpl.other
  split
  · exact TreeOK.call _ _ _ _ (fun _ _ => TreeOK.ret _ _)
  · exact TreeOK.ret _ _

/-- on every call that does not name a reserved global, `sanitize HostImpl.host` has literally the tree of `HostImpl.host` -/
theorem sanitize_hostImpl_lib (name : String) (args : List Value) (w : HostImpl.World) (h : namesReserved name args = false) :
    (sanitize HostImpl.host).lib name args w = HostImpl.host.lib name args w :=
  sanT_of_treeOK (hostImpl_lib_treeOK name args w h)

theorem sanitize_hostImpl_other (k : Nat) (args : List Value) (w : HostImpl.World) :
    (sanitize HostImpl.host).other k args w = HostImpl.host.other k args w :=
  sanT_of_treeOK (hostImpl_other_treeOK k args w)

/-- … and on a call that does, the reserved read is answered "unbound" (the default, or null), the write is dropped, and the
guarded host stops with its error -/
example (s : String) (hs : isGen (Name.ofString s) = true) (w : HostImpl.World) :
    namesReserved "systemGlobalGet" [.str s, .num 7] = true ∧
    (sanitize HostImpl.host).lib "systemGlobalGet" [.str s, .num 7] w = .ret (.ok (.num 7)) w ∧
    (sanitize HostImpl.host).lib "systemGlobalSet" [.str s, .num 7] w = .ret (.ok (.num 7)) w ∧
    (guard HostImpl.host).lib "systemGlobalGet" [.str s] w = .ret (.rt reservedMsg) w := by
  have h1 : HostImpl.lib "systemGlobalGet" [.str s, .num 7] w =
      .globalGet (Name.ofString s) w (fun v w1 => HostImpl.ok (v.getD (.num 7)) w1) := rfl
  have h2 : HostImpl.lib "systemGlobalSet" [.str s, .num 7] w =
      .globalSet (Name.ofString s) (.num 7) w (fun w1 => HostImpl.ok (.num 7) w1) := rfl
  have h3 : HostImpl.lib "systemGlobalGet" [.str s] w =
      .globalGet (Name.ofString s) w (fun v w1 => HostImpl.ok (v.getD .null) w1) := rfl
  refine ⟨by simp [namesReserved, hs], ?_, ?_, ?_⟩
  · show sanT (HostImpl.lib "systemGlobalGet" [.str s, .num 7] w) = _
    rw [h1]; simp only [sanT, hs, if_true]; rfl
  · show sanT (HostImpl.lib "systemGlobalSet" [.str s, .num 7] w) = _
    rw [h2]; simp only [sanT, hs, if_true]; rfl
  · show guardT (HostImpl.lib "systemGlobalGet" [.str s] w) = _
    rw [h3]; simp only [guardT, hs, if_true]

theorem treeOK_lift {t : LibTree HostImpl.World} (ht : TreeOK t) : ∀ h : Lib.Heap, TreeOK (HostLib.lift t h) := by
  induction ht with
  | ret o w => intro h; exact TreeOK.ret _ _
  | call f args w k _ ih => intro h; exact TreeOK.call _ _ _ _ fun v w' => ih v w'.toImpl w'.heap
  | globalGet n w k hn _ ih => intro h; exact TreeOK.globalGet _ _ _ hn fun v w' => ih v w'.toImpl w'.heap
  | globalSet n v w k hn _ ih => intro h; exact TreeOK.globalSet _ _ _ _ hn fun w' => ih w'.toImpl w'.heap

/-- **`HostLib`: every library tree is `TreeOK` unless the call names a reserved global** (a call modelled by `Lib` is a
single `ret`; the fallback is HostImpl's tree, lifted) -/
theorem hostLib_lib_treeOK (name : String) (args : List Value) (w : HostLib.LWorld) (h : namesReserved name args = false) :
    TreeOK (HostLib.hostLib.lib name args w) := by
  show TreeOK (HostLib.lib name args w)
  unfold HostLib.lib
  split
  · exact TreeOK.ret _ _
  · exact TreeOK.ret _ _
  · unfold HostLib.fallback
    split
    · exact treeOK_lift (hostImpl_lib_treeOK name args w.toImpl h) _
    · exact TreeOK.ret _ _

theorem hostLib_other_treeOK (k : Nat) (args : List Value) (w : HostLib.LWorld) : TreeOK (HostLib.hostLib.other k args w) :=
  treeOK_lift (hostImpl_other_treeOK k args w.toImpl) _

theorem sanitize_hostLib_lib (name : String) (args : List Value) (w : HostLib.LWorld) (h : namesReserved name args = false) :
    (sanitize HostLib.hostLib).lib name args w = HostLib.hostLib.lib name args w :=
  sanT_of_treeOK (hostLib_lib_treeOK name args w h)

theorem sanitize_hostLib_other (k : Nat) (args : List Value) (w : HostLib.LWorld) :
    (sanitize HostLib.hostLib).other k args w = HostLib.hostLib.other k args w :=
  sanT_of_treeOK (hostLib_other_treeOK k args w)

/-- the host law of `HostImpl` (for `HostLib`: `HostLib.hostLib_truthyBool`) -/
theorem hostImpl_truthyBool : TruthyBool HostImpl.host := fun _ _ => rfl

/-! ### the syntactic sufficient condition: a host that does not expose `systemGlobalGet` / `systemGlobalSet` -/

/-- the two functions answer as an unknown function does (`fail null`) -/
def withoutGlobals {W : Type} (h : Host W) : Host W :=
  { h with lib := fun name args w =>
      if name == "systemGlobalGet" || name == "systemGlobalSet" then .ret (.fail .null) w else h.lib name args w }

theorem namesReserved_of_not_global {name : String} (args : List Value)
    (h : (name == "systemGlobalGet" || name == "systemGlobalSet") = false) : namesReserved name args = false := by
  simp only [namesReserved, h, Bool.false_and]

/-- **without the two functions `HostImpl` satisfies `HostNoReserved` outright** -/
theorem hostImpl_withoutGlobals_noReserved : HostNoReserved (withoutGlobals HostImpl.host) := by
  refine ⟨fun name args w => ?_, fun k args w => hostImpl_other_treeOK k args w⟩
  show TreeOK (if name == "systemGlobalGet" || name == "systemGlobalSet" then _ else _)
  split
  · exact TreeOK.ret _ _
  · rename_i hn
    exact hostImpl_lib_treeOK name args w (namesReserved_of_not_global args (by simpa using hn))

/-- **… and so does `HostLib`** -/
theorem hostLib_withoutGlobals_noReserved : HostNoReserved (withoutGlobals HostLib.hostLib) := by
  refine ⟨fun name args w => ?_, fun k args w => hostLib_other_treeOK k args w⟩
  show TreeOK (if name == "systemGlobalGet" || name == "systemGlobalSet" then _ else _)
  split
  · exact TreeOK.ret _ _
  · rename_i hn
    exact hostLib_lib_treeOK name args w (namesReserved_of_not_global args (by simpa using hn))

theorem withoutGlobals_truthyBool {W : Type} (h : Host W) : TruthyBool (withoutGlobals h) ↔ TruthyBool h := Iff.rfl

/-- a call of any other function has the tree of the full host -/
theorem withoutGlobals_lib {W : Type} (h : Host W) (name : String) (args : List Value) (w : W)
    (hn : (name == "systemGlobalGet" || name == "systemGlobalSet") = false) :
    (withoutGlobals h).lib name args w = h.lib name args w := by
  simp only [withoutGlobals, hn, Bool.false_eq_true, if_false]

end C01

/-! ## 4. the concrete hosts -/

namespace C01
open StructuredS Machine Lower Structured

section HostImplInstances
variable {cfg : Config HostImpl.World} {scfg : SConfig HostImpl.World} {start : FnId → Nat} (ag : Agree cfg scfg start)
  (hh : cfg.host = HostImpl.host) (htab : TablesOK scfg)
include ag hh htab

/-- **T4 for the driver host `HostImpl.host`** (all 18 library functions, `systemGlobalGet` / `systemGlobalSet` included):
no host law is left as a hypothesis; each direction asks that the run it starts from touches no reserved global. -/
theorem parse_exec_structured_hostImpl (hmax : cfg.maxStatements = 0) (B : List SStmt) (hB : ProgOK B) (hfid : FidsInOrder B)
    (base : Option String) (st st' : State HostImpl.World) (hs : StRel st st') :
    ∃ P, parseLines (renderB B) = .ok P ∧
      (∀ fuel, execute (guardCfg cfg) fuel P base st ≠ .oof → touchesReserved (execute (guardCfg cfg) fuel P base st) = false →
        execute cfg fuel P base st = execute (guardCfg cfg) fuel P base st ∧
        ∃ r', ResRel (execute cfg fuel P base st) r' ∧ ∃ N, ∀ k, N ≤ k → runS scfg k B st' = r') ∧
      (∀ k, runS (guardS scfg) k B st' ≠ .oof → touchesReserved (runS (guardS scfg) k B st') = false →
        runS scfg k B st' = runS (guardS scfg) k B st' ∧
        ∃ r, ResRel r (runS scfg k B st') ∧ ∃ N, ∀ f, N ≤ f → execute cfg f P base st = r) :=
  parse_exec_structured_guarded ag (hh ▸ hostImpl_truthyBool) htab hmax B hB hfid base st st' hs

/-- **T3 for `HostImpl.host`** -/
theorem ticked_erasure_hostImpl (hmax : cfg.maxStatements = 0) (B : List SStmt) (hB : ProgOK B) (base : Option String)
    (st st' : State HostImpl.World) (hs : StRel st st') :
    (∀ fuel, runT₀ (guardCfg cfg) fuel B base st ≠ .oof → touchesReserved (runT₀ (guardCfg cfg) fuel B base st) = false →
      runT₀ cfg fuel B base st = runT₀ (guardCfg cfg) fuel B base st ∧
      ∃ r', ResRel (runT₀ cfg fuel B base st) r' ∧ ∃ N, ∀ k, N ≤ k → runS scfg k B st' = r') ∧
    (∀ k, runS (guardS scfg) k B st' ≠ .oof → touchesReserved (runS (guardS scfg) k B st') = false →
      runS scfg k B st' = runS (guardS scfg) k B st' ∧
      ∃ r, ResRel r (runS scfg k B st') ∧ ∃ N, ∀ f, N ≤ f → runT₀ cfg f B base st = r) :=
  ticked_erasure_guarded ag (hh ▸ hostImpl_truthyBool) htab hmax B hB base st st' hs

/-- **T4 with a statement budget for `HostImpl.host`** -/
theorem parse_exec_structured_budget_hostImpl (B : List SStmt) (hB : ProgOK B) (hfid : FidsInOrder B)
    (fuel : Nat) (base : Option String) (st st' : State HostImpl.World) (hs : StRel st st') :
    ∃ P, parseLines (renderB B) = .ok P ∧
      (execute (guardCfg cfg) fuel P base st ≠ .oof → (∀ m s, execute (guardCfg cfg) fuel P base st ≠ .err (.exceeded m) s) →
        touchesReserved (execute (guardCfg cfg) fuel P base st) = false →
        execute cfg fuel P base st = execute (guardCfg cfg) fuel P base st ∧
        ∃ r', ResRel (execute cfg fuel P base st) r' ∧ ∃ N, ∀ k, N ≤ k → runS scfg k B st' = r') :=
  parse_exec_structured_budget_guarded ag (hh ▸ hostImpl_truthyBool) htab B hB hfid fuel base st st' hs

end HostImplInstances

section HostLibInstances
variable {cfg : Config HostLib.LWorld} {scfg : SConfig HostLib.LWorld} {start : FnId → Nat} (ag : Agree cfg scfg start)
  (hh : cfg.host = HostLib.hostLib) (htab : TablesOK scfg)
include ag hh htab

/-- **T4 for `HostLib.hostLib`** — the host whose library *is* the verified C15 model `Lib` (40 functions over `Lib.Heap`)
plus HostImpl's `system*` functions -/
theorem parse_exec_structured_hostLib (hmax : cfg.maxStatements = 0) (B : List SStmt) (hB : ProgOK B) (hfid : FidsInOrder B)
    (base : Option String) (st st' : State HostLib.LWorld) (hs : StRel st st') :
    ∃ P, parseLines (renderB B) = .ok P ∧
      (∀ fuel, execute (guardCfg cfg) fuel P base st ≠ .oof → touchesReserved (execute (guardCfg cfg) fuel P base st) = false →
        execute cfg fuel P base st = execute (guardCfg cfg) fuel P base st ∧
        ∃ r', ResRel (execute cfg fuel P base st) r' ∧ ∃ N, ∀ k, N ≤ k → runS scfg k B st' = r') ∧
      (∀ k, runS (guardS scfg) k B st' ≠ .oof → touchesReserved (runS (guardS scfg) k B st') = false →
        runS scfg k B st' = runS (guardS scfg) k B st' ∧
        ∃ r, ResRel r (runS scfg k B st') ∧ ∃ N, ∀ f, N ≤ f → execute cfg f P base st = r) :=
  parse_exec_structured_guarded ag (hh ▸ HostLib.hostLib_truthyBool) htab hmax B hB hfid base st st' hs

/-- **T3 for `HostLib.hostLib`** -/
theorem ticked_erasure_hostLib (hmax : cfg.maxStatements = 0) (B : List SStmt) (hB : ProgOK B) (base : Option String)
    (st st' : State HostLib.LWorld) (hs : StRel st st') :
    (∀ fuel, runT₀ (guardCfg cfg) fuel B base st ≠ .oof → touchesReserved (runT₀ (guardCfg cfg) fuel B base st) = false →
      runT₀ cfg fuel B base st = runT₀ (guardCfg cfg) fuel B base st ∧
      ∃ r', ResRel (runT₀ cfg fuel B base st) r' ∧ ∃ N, ∀ k, N ≤ k → runS scfg k B st' = r') ∧
    (∀ k, runS (guardS scfg) k B st' ≠ .oof → touchesReserved (runS (guardS scfg) k B st') = false →
      runS scfg k B st' = runS (guardS scfg) k B st' ∧
      ∃ r, ResRel r (runS scfg k B st') ∧ ∃ N, ∀ f, N ≤ f → runT₀ cfg f B base st = r) :=
  ticked_erasure_guarded ag (hh ▸ HostLib.hostLib_truthyBool) htab hmax B hB base st st' hs

/-- **T4 with a statement budget for `HostLib.hostLib`** -/
theorem parse_exec_structured_budget_hostLib (B : List SStmt) (hB : ProgOK B) (hfid : FidsInOrder B)
    (fuel : Nat) (base : Option String) (st st' : State HostLib.LWorld) (hs : StRel st st') :
    ∃ P, parseLines (renderB B) = .ok P ∧
      (execute (guardCfg cfg) fuel P base st ≠ .oof → (∀ m s, execute (guardCfg cfg) fuel P base st ≠ .err (.exceeded m) s) →
        touchesReserved (execute (guardCfg cfg) fuel P base st) = false →
        execute cfg fuel P base st = execute (guardCfg cfg) fuel P base st ∧
        ∃ r', ResRel (execute cfg fuel P base st) r' ∧ ∃ N, ∀ k, N ≤ k → runS scfg k B st' = r') :=
  parse_exec_structured_budget_guarded ag (hh ▸ HostLib.hostLib_truthyBool) htab B hB hfid fuel base st st' hs

end HostLibInstances

/-- **T4, no condition on the run**, for HostImpl without `systemGlobalGet` / `systemGlobalSet` (the syntactic sufficient
condition "the host does not expose the two functions"): the original theorem applies as it stands -/
theorem parse_exec_structured_hostImpl_noGlobals {cfg : Config HostImpl.World} {scfg : SConfig HostImpl.World}
    {start : FnId → Nat} (ag : Agree cfg scfg start) (hh : cfg.host = withoutGlobals HostImpl.host) (htab : TablesOK scfg)
    (hmax : cfg.maxStatements = 0) (B : List SStmt) (hB : ProgOK B) (hfid : FidsInOrder B)
    (base : Option String) (st st' : State HostImpl.World) (hs : StRel st st') :
    ∃ P, parseLines (renderB B) = .ok P ∧
      (∀ fuel, execute cfg fuel P base st ≠ .oof →
        ∃ r', ResRel (execute cfg fuel P base st) r' ∧ ∃ N, ∀ k, N ≤ k → runS scfg k B st' = r') ∧
      (∀ k, runS scfg k B st' ≠ .oof →
        ∃ r, ResRel r (runS scfg k B st') ∧ ∃ N, ∀ f, N ≤ f → execute cfg f P base st = r) :=
  parse_exec_structured ag (hh ▸ (withoutGlobals_truthyBool _).2 hostImpl_truthyBool) (hh ▸ hostImpl_withoutGlobals_noReserved)
    htab hmax B hB hfid base st st' hs

/-- the same for HostLib without the two functions -/
theorem parse_exec_structured_hostLib_noGlobals {cfg : Config HostLib.LWorld} {scfg : SConfig HostLib.LWorld}
    {start : FnId → Nat} (ag : Agree cfg scfg start) (hh : cfg.host = withoutGlobals HostLib.hostLib) (htab : TablesOK scfg)
    (hmax : cfg.maxStatements = 0) (B : List SStmt) (hB : ProgOK B) (hfid : FidsInOrder B)
    (base : Option String) (st st' : State HostLib.LWorld) (hs : StRel st st') :
    ∃ P, parseLines (renderB B) = .ok P ∧
      (∀ fuel, execute cfg fuel P base st ≠ .oof →
        ∃ r', ResRel (execute cfg fuel P base st) r' ∧ ∃ N, ∀ k, N ≤ k → runS scfg k B st' = r') ∧
      (∀ k, runS scfg k B st' ≠ .oof →
        ∃ r, ResRel r (runS scfg k B st') ∧ ∃ N, ∀ f, N ≤ f → execute cfg f P base st = r) :=
  parse_exec_structured ag (hh ▸ (withoutGlobals_truthyBool _).2 HostLib.hostLib_truthyBool)
    (hh ▸ hostLib_withoutGlobals_noReserved) htab hmax B hB hfid base st st' hs

end C01

/-! ## kernel-evaluable copies of the concrete hosts

`HostImpl.valueCompare` is defined by well-founded recursion (mutual, the list helpers call back at the same fuel), which the
kernel does not unfold; `valueCompareK` is the same function by structural recursion, `hostK` / `hostLibK` the hosts with
it, **proved equal** to `HostImpl.host` / `HostLib.hostLib`.  They are used only to *evaluate* concrete runs (`decide +kernel`)
in the examples below. -/

namespace C01.HostK
open Machine HostImpl

def cmpListK (cmp : Value → Value → Option Int) : List Value → List Value → Option Int
  | [], [] => some 0
  | [], _ :: _ => some (-1)
  | _ :: _, [] => some 1
  | x :: xs, y :: ys =>
    match cmp x y with
    | none => none
    | some c => if c != 0 then some c else cmpListK cmp xs ys

def cmpItemsK (cmp : Value → Value → Option Int) : List (String × Value) → List (String × Value) → Option Int
  | [], [] => some 0
  | [], _ :: _ => some (-1)
  | _ :: _, [] => some 1
  | x :: xs, y :: ys =>
    let k := cmpOrd x.1 y.1
    if k != 0 then some k else
      match cmp x.2 y.2 with
      | none => none
      | some c => if c != 0 then some c else cmpItemsK cmp xs ys

def valueCompareK (w : World) : Nat → Value → Value → Option Int
  | 0, _, _ => none
  | fuel+1, a, b =>
    match a, b with
    | .null, .null => some 0
    | .null, _ => some (-1)
    | _, .null => some 1
    | .str x, .str y => some (cmpOrd x y)
    | .bool x, .bool y => some (cmpOrd (boolNat x) (boolNat y))
    | .num x, .num y => some (if x < y then -1 else if x = y then 0 else 1)
    | .dt x, .dt y => some (cmpOrd x y)
    | .arr x, .arr y => cmpListK (valueCompareK w fuel) ((w.arr? x).getD []) ((w.arr? y).getD [])
    | .obj x, .obj y => cmpItemsK (valueCompareK w fuel) (sortKeys ((w.obj? x).getD [])) (sortKeys ((w.obj? y).getD []))
    | a, b => some (cmpOrd (typeName a) (typeName b))

theorem lists_eq (w : World) (fuel : Nat) (ih : ∀ a b, valueCompare w fuel a b = valueCompareK w fuel a b) :
    ∀ xs ys, compareLists w fuel xs ys = cmpListK (valueCompareK w fuel) xs ys
  | [], [] => by rw [compareLists, cmpListK]
  | [], _ :: _ => by rw [compareLists, cmpListK]
  | _ :: _, [] => by rw [compareLists, cmpListK]
  | x :: xs, y :: ys => by rw [compareLists, cmpListK, ih, lists_eq w fuel ih xs ys]; rfl

theorem items_eq (w : World) (fuel : Nat) (ih : ∀ a b, valueCompare w fuel a b = valueCompareK w fuel a b) :
    ∀ xs ys, compareItems w fuel xs ys = cmpItemsK (valueCompareK w fuel) xs ys
  | [], [] => by rw [compareItems, cmpItemsK]
  | [], _ :: _ => by rw [compareItems, cmpItemsK]
  | _ :: _, [] => by rw [compareItems, cmpItemsK]
  | x :: xs, y :: ys => by rw [compareItems, cmpItemsK, ih, items_eq w fuel ih xs ys]; rfl

theorem valueCompare_eq (w : World) : ∀ fuel a b, valueCompare w fuel a b = valueCompareK w fuel a b := by
  intro fuel
  induction fuel with
  | zero => intro a b; rw [valueCompare, valueCompareK]
  | succ fuel ih =>
    intro a b
    cases a <;> cases b <;> simp [valueCompare, valueCompareK, lists_eq w fuel ih, items_eq w fuel ih]

def compareK? (w : World) (a b : Value) : Option Int :=
  valueCompareK w ((w.heap.length + 1) * (w.heap.length + 1) + 2) a b

theorem compare?_eq (w : World) (a b : Value) : compare? w a b = compareK? w a b := valueCompare_eq w _ a b

/-- `HostImpl.binop` with `compare?` replaced by `compareK?` -/
def binopK (op : BinOp) (a b : Value) (w : World) : Value :=
  match op with
  | .eq => match compareK? w a b with | some c => .bool (c == 0) | none => .null
  | .ne => match compareK? w a b with | some c => .bool (c != 0) | none => .null
  | .le => match compareK? w a b with | some c => .bool (c ≤ 0) | none => .null
  | .lt => match compareK? w a b with | some c => .bool (c < 0) | none => .null
  | .ge => match compareK? w a b with | some c => .bool (c ≥ 0) | none => .null
  | .gt => match compareK? w a b with | some c => .bool (c > 0) | none => .null
  | op => binop op a b w

theorem binop_eq : binop = binopK := by
  funext op a b w
  cases op <;> simp only [binop, binopK, compare?_eq] <;> rfl

def hostK : Host World := { HostImpl.host with binop := binopK }

theorem host_eq : HostImpl.host = hostK := by
  show HostImpl.host = { HostImpl.host with binop := binopK }
  rw [← binop_eq]; rfl

def hostLibK : Host HostLib.LWorld := { HostLib.hostLib with binop := fun op a b w => binopK op a b w.toImpl }

theorem hostLib_eq : HostLib.hostLib = hostLibK := by
  show HostLib.hostLib = { HostLib.hostLib with binop := fun op a b w => binopK op a b w.toImpl }
  rw [← binop_eq]; rfl

end C01.HostK

/-! ## examples: real programs on the concrete hosts, through the theorems -/

namespace C01.Demo
open StructuredS Machine Lower Structured

private def u (s : String) : Name := .user s
private def var (s : String) : Expr := .variable (u s)
private def call (f : String) (args : List Expr) : Expr := .function (u f) args

/-- `function f(n): acc = 0; for x in arrayNew(1, 2, 3): acc = acc + x; return acc + n` -/
def fBody : List SStmt := [
  .expr (some (u "acc")) (.number 0),
  .for (u "x") none (call "arrayNew" [.number 1, .number 2, .number 3]) [
    .expr (some (u "acc")) (.binary .add (var "acc") (var "x")) ],
  .ret (some (.binary .add (var "acc") (var "n"))) ]

def fDef : SFuncDef := { name := u "f", args := [u "n"], lastArgArray := false, body := fBody }

/-- `function f …; for y, i in arrayNew(10, 20): systemLog(y + f(i)); systemGlobalSet('g', 5); systemLog(systemGlobalGet('g'))`
— a `for` with an index variable at global scope (its hidden `__bareScriptValues0 / Length0` are **globals**), a call of a
script function that runs a `for` of its own, `systemLog`, and `systemGlobalSet` / `systemGlobalGet` of an ordinary name -/
def prog : List SStmt := [
  .func 0 (u "f") [u "n"] false false fBody,
  .for (u "y") (some (u "i")) (call "arrayNew" [.number 10, .number 20]) [
    .expr none (call "systemLog" [.binary .add (var "y") (call "f" [var "i"])]) ],
  .expr none (call "systemGlobalSet" [.string "g", .number 5]),
  .expr none (call "systemLog" [call "systemGlobalGet" [.string "g"]]) ]

def sfuns : FnId → Option SFuncDef := fun id => if id = 0 then some fDef else none

theorem progOK : ProgOK prog :=
  ⟨by simp [prog, fBody, NoRawB, NoRawS, NoRawE], by decide, by decide, by decide, by decide⟩

theorem funcOK (id : FnId) (d : SFuncDef) (hd : sfuns id = some d) : FuncOK d := by
  simp only [sfuns] at hd
  split at hd
  · cases hd
    exact ⟨by simp [fDef, fBody, NoRawB, NoRawS, NoRawE], by decide, by decide, by decide, by decide, by decide⟩
  · cases hd

def world? {W : Type} : Res W → Option W
  | .done s => some s.world
  | .ret _ s => some s.world
  | .err _ s => some s.world
  | .oof => none

theorem world?_of_resRel {W : Type} {r r' : Res W} (h : ResRel r r') : world? r = world? r' := by
  cases r <;> cases r' <;> simp only [ResRel] at h <;> first | exact h.elim | skip
  · exact congrArg some h.1
  · exact congrArg some h.2.1
  · exact congrArg some h.2.1

/-! ### HostImpl -/

def implSCfg : SConfig HostImpl.World := { host := HostImpl.host, sfuns := sfuns }
def implCfg : Config HostImpl.World :=
  { host := HostImpl.host, funs := fun id => (sfuns id).map (lowerDef 0), maxStatements := 0 }
theorem impl_agree : Agree implCfg implSCfg (fun _ => 0) := ⟨rfl, rfl, rfl, fun _ => rfl⟩

/-- all 18 library functions bound under their names, empty heap and log -/
def implSt0 : State HostImpl.World :=
  { globals := HostImpl.libNames.map (fun n => (u n, Value.fn (.lib n))), world := {}, count := 0 }

def logI (r : Res HostImpl.World) : Option (List String) := (world? r).map (·.log)

/-- the guarded configurations over the kernel-evaluable copy of the host -/
def implSCfgGK : SConfig HostImpl.World := { host := guard HostK.hostK, sfuns := sfuns }
def implCfgGK : Config HostImpl.World :=
  { host := guard HostK.hostK, funs := fun id => (sfuns id).map (lowerDef 0), maxStatements := 0 }
theorem guardS_impl : guardS implSCfg = implSCfgGK :=
  congrArg (fun h => ({ host := guard h, sfuns := sfuns } : SConfig HostImpl.World)) HostK.host_eq
theorem guardCfg_impl : guardCfg implCfg = implCfgGK :=
  congrArg (fun h => ({ host := guard h, funs := fun id => (sfuns id).map (lowerDef 0), maxStatements := 0 } :
    Config HostImpl.World)) HostK.host_eq

/-- the hypotheses of the HostImpl theorems are inhabited -/
example (base : Option String) (st' : State HostImpl.World) (hs : StRel implSt0 st') :=
  parse_exec_structured_hostImpl impl_agree rfl funcOK rfl prog progOK (by decide) base implSt0 st' hs
example (base : Option String) (st' : State HostImpl.World) (hs : StRel implSt0 st') :=
  ticked_erasure_hostImpl impl_agree rfl funcOK rfl prog progOK base implSt0 st' hs

set_option maxRecDepth 100000 in
/-- the guarded pure reading touches no reserved global and logs `16 27 5` (evaluated by the kernel) … -/
theorem impl_pure_run : logI (runS (guardS implSCfg) 100 prog implSt0) = some ["16", "27", "5"] ∧
    touchesReserved (runS (guardS implSCfg) 100 prog implSt0) = false := by
  rw [guardS_impl]; decide +kernel

/-- … **hence so does `execute_script` on the parsed text with the real `HostImpl.host`** (label cache, hidden `for`
globals, statement counter and all) for every sufficiently large fuel: by the theorem, not by running the machine -/
example : ∃ P, parseLines (renderB prog) = .ok P ∧
    ∃ N, ∀ f, N ≤ f → logI (execute implCfg f P none implSt0) = some ["16", "27", "5"] := by
  obtain ⟨P, hP, _, hconv⟩ := parse_exec_structured_hostImpl impl_agree rfl funcOK rfl prog progOK (by decide) none
    implSt0 implSt0 (StRel.refl _)
  have hne : runS (guardS implSCfg) 100 prog implSt0 ≠ .oof := by
    intro h; have := impl_pure_run.1; rw [h] at this; cases this
  obtain ⟨e, r, hr, N, hN⟩ := hconv 100 hne impl_pure_run.2
  refine ⟨P, hP, N, fun f hf => ?_⟩
  rw [hN f hf, logI, world?_of_resRel hr, e]
  exact impl_pure_run.1

set_option maxRecDepth 100000 in
/-- the guarded machine run of the lowered program (evaluated by the kernel): same log, no reserved global touched -/
theorem impl_machine_run : logI (execute (guardCfg implCfg) 300 (lowerProgram prog) none implSt0) = some ["16", "27", "5"] ∧
    touchesReserved (execute (guardCfg implCfg) 300 (lowerProgram prog) none implSt0) = false := by
  rw [guardCfg_impl]; decide +kernel

/-- forward direction: from that machine run, the pure source-level reading **with the real host** logs the same for every
sufficiently large fuel, and the real machine run is the guarded one -/
example : (∃ N, ∀ k, N ≤ k → logI (runS implSCfg k prog implSt0) = some ["16", "27", "5"]) ∧
    execute implCfg 300 (lowerProgram prog) none implSt0 = execute (sanCfg implCfg) 300 (lowerProgram prog) none implSt0 := by
  obtain ⟨P, hP, hfwd, _⟩ := parse_exec_structured_hostImpl impl_agree rfl funcOK rfl prog progOK (by decide) none
    implSt0 implSt0 (StRel.refl _)
  have hP' := parseLines_render prog progOK.wellNested (by decide) (incB_of_noInclude prog progOK.noInclude)
  rw [hP'] at hP
  cases hP
  have hne : execute (guardCfg implCfg) 300 (lowerProgram prog) none implSt0 ≠ .oof := by
    intro h; have := impl_machine_run.1; rw [h] at this; cases this
  obtain ⟨e, r', hr, N, hN⟩ := hfwd 300 hne impl_machine_run.2
  refine ⟨⟨N, fun k hk => ?_⟩, real_eq_sanitized_execute implCfg 300 _ none implSt0 impl_machine_run.2⟩
  rw [hN k hk, logI, ← world?_of_resRel hr, e]
  exact impl_machine_run.1

/-! ### HostLib -/

def libSCfg : SConfig HostLib.LWorld := { host := HostLib.hostLib, sfuns := sfuns }
def libCfg : Config HostLib.LWorld :=
  { host := HostLib.hostLib, funs := fun id => (sfuns id).map (lowerDef 0), maxStatements := 0 }
theorem lib_agree : Agree libCfg libSCfg (fun _ => 0) := ⟨rfl, rfl, rfl, fun _ => rfl⟩

/-- every function `Lib` has a body for and HostImpl's `system*` functions bound under their names -/
def libSt0 : State HostLib.LWorld :=
  { globals := HostLib.libNames.map (fun n => (u n, Value.fn (.lib n))), world := {}, count := 0 }

def logL (r : Res HostLib.LWorld) : Option (List String) := (world? r).map (·.log)

def libSCfgGK : SConfig HostLib.LWorld := { host := guard HostK.hostLibK, sfuns := sfuns }
theorem guardS_lib : guardS libSCfg = libSCfgGK :=
  congrArg (fun h => ({ host := guard h, sfuns := sfuns } : SConfig HostLib.LWorld)) HostK.hostLib_eq

example (base : Option String) (st' : State HostLib.LWorld) (hs : StRel libSt0 st') :=
  parse_exec_structured_hostLib lib_agree rfl funcOK rfl prog progOK (by decide) base libSt0 st' hs
example (base : Option String) (st' : State HostLib.LWorld) (hs : StRel libSt0 st') :=
  ticked_erasure_hostLib lib_agree rfl funcOK rfl prog progOK base libSt0 st' hs

set_option maxRecDepth 100000 in
theorem lib_pure_run : logL (runS (guardS libSCfg) 100 prog libSt0) = some ["16", "27", "5"] ∧
    touchesReserved (runS (guardS libSCfg) 100 prog libSt0) = false := by
  rw [guardS_lib]; decide +kernel

/-- the same program on the machine whose `arrayNew` / `arrayLength` / `arrayGet` are the verified C15 model `Lib` -/
example : ∃ P, parseLines (renderB prog) = .ok P ∧
    ∃ N, ∀ f, N ≤ f → logL (execute libCfg f P none libSt0) = some ["16", "27", "5"] := by
  obtain ⟨P, hP, _, hconv⟩ := parse_exec_structured_hostLib lib_agree rfl funcOK rfl prog progOK (by decide) none
    libSt0 libSt0 (StRel.refl _)
  have hne : runS (guardS libSCfg) 100 prog libSt0 ≠ .oof := by
    intro h; have := lib_pure_run.1; rw [h] at this; cases this
  obtain ⟨e, r, hr, N, hN⟩ := hconv 100 hne lib_pure_run.2
  refine ⟨P, hP, N, fun f hf => ?_⟩
  rw [hN f hf, logL, world?_of_resRel hr, e]
  exact lib_pure_run.1

/-! ### the hosts without `systemGlobalGet` / `systemGlobalSet`: no condition on the run -/

def implCfgNG : Config HostImpl.World :=
  { host := withoutGlobals HostImpl.host, funs := fun id => (sfuns id).map (lowerDef 0), maxStatements := 0 }
def implSCfgNG : SConfig HostImpl.World := { host := withoutGlobals HostImpl.host, sfuns := sfuns }

example (base : Option String) (st' : State HostImpl.World) (hs : StRel implSt0 st') :=
  parse_exec_structured_hostImpl_noGlobals (cfg := implCfgNG) (scfg := implSCfgNG) (start := fun _ => 0)
    ⟨rfl, rfl, rfl, fun _ => rfl⟩ rfl funcOK rfl prog progOK (by decide) base implSt0 st' hs

def libCfgNG : Config HostLib.LWorld :=
  { host := withoutGlobals HostLib.hostLib, funs := fun id => (sfuns id).map (lowerDef 0), maxStatements := 0 }
def libSCfgNG : SConfig HostLib.LWorld := { host := withoutGlobals HostLib.hostLib, sfuns := sfuns }

example (base : Option String) (st' : State HostLib.LWorld) (hs : StRel libSt0 st') :=
  parse_exec_structured_hostLib_noGlobals (cfg := libCfgNG) (scfg := libSCfgNG) (start := fun _ => 0)
    ⟨rfl, rfl, rfl, fun _ => rfl⟩ rfl funcOK rfl prog progOK (by decide) base libSt0 st' hs

end C01.Demo

/-! ## why the run-level condition is needed: the concrete hosts do *not* satisfy `HostNoReserved`, and a program that names a
hidden variable through `systemGlobalGet` runs differently on the machine and in the source-level reading -/

namespace C01
open StructuredS Machine Lower Structured

theorem toNat?_zero : (String.ofList ['0']).toNat? = some 0 := by
  have : String.ofList ['0'] = Nat.repr 0 := by decide +kernel
  rw [this, Nat.toNat?_repr]

/-- the spelling `__bareScriptIndex0` is the generated name `gen index 0` -/
theorem ofString_index0 : Name.ofString "__bareScriptIndex0" = .gen .index 0 := by
  have h : canonDigits ['0'] = some 0 := by
    simp only [canonDigits]
    rw [if_neg (by decide), if_neg (by decide)]
    exact toNat?_zero
  unfold Name.ofString
  simp only []
  rw [if_pos (by decide +kernel)]
  have h2 : List.drop reservedPrefix.toList.length "__bareScriptIndex0".toList = ['I','n','d','e','x','0'] := by
    decide +kernel
  rw [h2]
  simp [GK.all, List.findSome?, GK.text, h]

theorem hostImpl_lib_get_index0 (w : HostImpl.World) :
    HostImpl.lib "systemGlobalGet" [.str "__bareScriptIndex0"] w =
      .globalGet (.gen .index 0) w (fun v w1 => HostImpl.ok (v.getD .null) w1) := by
  have h3 : HostImpl.lib "systemGlobalGet" [.str "__bareScriptIndex0"] w =
      .globalGet (Name.ofString "__bareScriptIndex0") w (fun v w1 => HostImpl.ok (v.getD .null) w1) := rfl
  rw [h3, ofString_index0]

/-- **`HostImpl.host` does not satisfy `HostNoReserved`** (so `C01.parse_exec_structured` itself says nothing about it) -/
theorem hostImpl_not_noReserved : ¬ HostNoReserved HostImpl.host := by
  intro h
  have h1 := h.1 "systemGlobalGet" [.str "__bareScriptIndex0"] {}
  have h3 : HostImpl.host.lib "systemGlobalGet" [.str "__bareScriptIndex0"] {} = _ := hostImpl_lib_get_index0 {}
  rw [h3] at h1
  cases h1 with
  | globalGet _ _ _ hn _ => cases hn

/-- **nor does `HostLib.hostLib`** -/
theorem hostLib_not_noReserved : ¬ HostNoReserved HostLib.hostLib := by
  intro h
  have h1 := h.1 "systemGlobalGet" [.str "__bareScriptIndex0"] {}
  have h3 : HostLib.hostLib.lib "systemGlobalGet" [.str "__bareScriptIndex0"] {} =
      .globalGet (.gen .index 0) {} (fun v w' => HostLib.lift (HostImpl.ok (v.getD .null) w'.toImpl) w'.heap) := by
    show HostLib.lib "systemGlobalGet" [.str "__bareScriptIndex0"] {} = _
    have : Lib.lib "systemGlobalGet" ([Value.str "__bareScriptIndex0"].map HostLib.toLib) ({} : HostLib.LWorld).heap =
        (.unmodelled, []) := by decide +kernel
    simp only [HostLib.lib, this, HostLib.fallback]
    show HostLib.lift (HostImpl.lib "systemGlobalGet" [.str "__bareScriptIndex0"] _) _ = _
    rw [hostImpl_lib_get_index0]
    rfl
  rw [h3] at h1
  cases h1 with
  | globalGet _ _ _ hn _ => cases hn

namespace Demo

/-- `hostK` with the one library call the kernel cannot evaluate (`Name.ofString` of a reserved spelling uses
`String.toNat?`) tabulated; equal to `HostImpl.host` -/
def libK2 (name : String) (args : List Value) (w : HostImpl.World) : LibTree HostImpl.World :=
  if name = "systemGlobalGet" ∧ args = [.str "__bareScriptIndex0"] then
    .globalGet (.gen .index 0) w (fun v w1 => HostImpl.ok (v.getD .null) w1)
  else HostImpl.lib name args w

theorem libK2_eq : HostImpl.lib = libK2 := by
  funext name args w
  unfold libK2
  split
  · rename_i h
    obtain ⟨rfl, rfl⟩ := h
    exact hostImpl_lib_get_index0 w
  · rfl

def hostK2 : Host HostImpl.World := { HostImpl.host with binop := HostK.binopK, lib := libK2 }

theorem host_eq2 : HostImpl.host = hostK2 := by
  show HostImpl.host = { HostImpl.host with binop := HostK.binopK, lib := libK2 }
  rw [← HostK.binop_eq, ← libK2_eq]; rfl

/-- `for x in arrayNew(7, 8): systemLog(systemGlobalGet('__bareScriptIndex0'))` — no reserved *identifier* occurs (the name
is inside a string), so `ProgOK` holds -/
def peekProg : List SStmt := [
  .for (u "x") none (call "arrayNew" [.number 7, .number 8]) [
    .expr none (call "systemLog" [call "systemGlobalGet" [.string "__bareScriptIndex0"]]) ] ]

theorem peek_progOK : ProgOK peekProg :=
  ⟨by simp [peekProg, NoRawB, NoRawS, NoRawE], by decide, by decide, by decide, by decide⟩

def peekCfg (h : Host HostImpl.World) : Config HostImpl.World := { host := h, funs := fun _ => none, maxStatements := 0 }
def peekSCfg (h : Host HostImpl.World) : SConfig HostImpl.World := { host := h, sfuns := fun _ => none }

set_option maxRecDepth 100000 in
/-- **`touching_program_differs`**: on the real `HostImpl.host` the machine (on the lowered program) logs the hidden loop
index `0 1`, the source-level reading — which has no hidden variables — logs `null null`: the conclusion of
`parse_exec_structured` fails for this `ProgOK` program, so *some* condition excluding it is necessary.  The guarded run
reports it (`touchesReserved = true`), and on the sanitised host machine and source-level reading agree again. -/
theorem touching_program_differs :
    logI (execute (peekCfg HostImpl.host) 300 (lowerProgram peekProg) none implSt0) = some ["0", "1"] ∧
    logI (runS (peekSCfg HostImpl.host) 100 peekProg implSt0) = some ["null", "null"] ∧
    touchesReserved (execute (guardCfg (peekCfg HostImpl.host)) 300 (lowerProgram peekProg) none implSt0) = true ∧
    touchesReserved (runS (guardS (peekSCfg HostImpl.host)) 100 peekProg implSt0) = true ∧
    logI (execute (sanCfg (peekCfg HostImpl.host)) 300 (lowerProgram peekProg) none implSt0) = some ["null", "null"] ∧
    logI (runS (sanS (peekSCfg HostImpl.host)) 100 peekProg implSt0) = some ["null", "null"] := by
  rw [host_eq2]
  decide +kernel

end Demo
end C01

/-! ## the budgeted instances are inhabited too -/

namespace C01.Demo
open StructuredS Machine Lower Structured

def implCfgB (max : Nat) : Config HostImpl.World :=
  { host := HostImpl.host, funs := fun id => (sfuns id).map (lowerDef 0), maxStatements := max }
def libCfgB (max : Nat) : Config HostLib.LWorld :=
  { host := HostLib.hostLib, funs := fun id => (sfuns id).map (lowerDef 0), maxStatements := max }

example (max fuel : Nat) (base : Option String) (st' : State HostImpl.World) (hs : StRel implSt0 st') :=
  parse_exec_structured_budget_hostImpl (cfg := implCfgB max) (scfg := implSCfg) (start := fun _ => 0)
    ⟨rfl, rfl, rfl, fun _ => rfl⟩ rfl funcOK prog progOK (by decide) fuel base implSt0 st' hs

example (max fuel : Nat) (base : Option String) (st' : State HostLib.LWorld) (hs : StRel libSt0 st') :=
  parse_exec_structured_budget_hostLib (cfg := libCfgB max) (scfg := libSCfg) (start := fun _ => 0)
    ⟨rfl, rfl, rfl, fun _ => rfl⟩ rfl funcOK prog progOK (by decide) fuel base libSt0 st' hs

/-- the generic theorem on the toy host of `C01Erase` as well (any host with `TruthyBool`) -/
example (base : Option String) (st' : State Tiny.TW) (hs : StRel Tiny.st0 st') :=
  parse_exec_structured_guarded Tiny.nv_agree Tiny.host_truthyBool Tiny.nv_tablesOK rfl Tiny.nvProg Tiny.nv_progOK (by decide)
    base Tiny.st0 st' hs

end C01.Demo
