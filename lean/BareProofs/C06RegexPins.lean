import BareModel.RxPatterns
import BareModel.Gen.Regex

/-!
# C06RegexPins — the regex ASTs of `RxPatterns` ARE the patterns of parser.py in the working tree

Kept in its own module: when a pattern in parser.py changes, exactly these obligations break (and name the tie that is lost),
while the theorems of `BareProofs/C06Regex.lean` about the ASTs keep checking; the streams of `harness/props/c06x.py` then
show on which texts the new pattern and the AST differ.
-/

namespace C06Regex
open Rx RxPatterns

/-! ## the tie to the pattern sources -/

/-- every pattern AST renders, character for character, to the source regenerated from the working tree (flags 32) -/
theorem sources_pinned : patterns.all (fun p => Gen.regexes.lookup p.1 == some (p.2.source, 32)) = true := by decide +kernel

/-- every module-level pattern of parser.py has an AST -/
theorem patterns_cover_parser :
    (Gen.regexes.filter (fun e => e.1.startsWith "parser.")).map (·.1) = patterns.map (·.1) := by decide +kernel

/-- no star over a nullable body; groups numbered as `re` numbers them -/
theorem patterns_wellformed : patterns.all (fun p => p.2.starsOK && p.2.numbered) = true := by decide +kernel

end C06Regex
