import BareProofs.C15CbLemmas
import BareProofs.HostLibBridge
import BareProofs.C11

/-!
# C15Cb — the call-back forms of `arrayIndexOf` / `arrayLastIndexOf` / `arraySort` (model: `BareModel/LibCb.lean`)

All theorems are about `Machine.runTree cfg call tree st` for an ARBITRARY call-back runner `call : Machine.CallFn LWorld` (the machine
instantiates it with `Machine.callValue cfg fuel`), so they speak about library calls issued by running scripts.  The call-back is a script
function value `.fn (.script id)` (what `function f(x): … endfunction` binds); library functions as call-backs: `cb_failure_lib`.

* `search_refines`     (stateful call-backs that leave the searched array alone) the live-heap index loop = the reference scan over the
                       ELEMENTS of the array, threading the machine state through the predicate calls in order
* `indexOf_cb_spec`    (pure call-backs) result = the first index in scan order (`upFrom start len` ascending / `downFrom start` descending)
                       whose element satisfies the predicate, `-1` if none; state unchanged; the call-backs made are exactly the elements from
                       the start to the hit (all of them if none), each once, in order   [`lastIndexOf_cb_spec` = the same for `downFrom`]
* `cb_frame`           whatever the call-backs preserve, a search preserves: the search itself changes nothing
* `sort_frame`         the same for `arraySort`, for invariants that do not look at the sorted array's cell
* `cb_failure_script`  a call-back ending in a runtime error ends the search with that error, nothing further is called
* `cb_failure_lib`     (finding F38, current behaviour) a LIBRARY function as match function whose own call fails: the search ends at once
                       with the inner failure value
* `cb_failure_shrunk`  the array lost the element the loop is about to read: failure value `null`
* `sort_cb_pure`       with a pure comparator the sort tree computes `Ask.eval` of `pySort` and stores it into the array
* `sort_cb_contract`   comparator = a total preorder (`C11.IsPre`): the call returns the array, which now holds the ordered stable
                       permutation (unique), everything else unchanged
* `sort_cb_perm_always` (failure) however the comparator behaves — inconsistent, returning non-numbers at any point, with effects — when the
                       call returns (the array or `null`), the array holds a permutation of its original contents
* `sort_cb_nonnumber`  a first answer that is not a number / boolean: result `null`, array contents exactly as before
* `lib_arraySort_cb`, `lib_arrayIndexOf_cb`, `lib_arrayLastIndexOf_cb`   the dispatch of `LibCb.lib` (argument models regenerated from
                       library.py) to these trees

Not proved here (full statements, for the next round):
* `sort_cb_eq_nocb`: `∀ call answering systemCompare (call f [x, y] st = .ok (num (cmpD st.world.heap x y)) st) and every element of xs
  Readable, runTree (sortCb f r xs w) st = .ok (.arr r) {st with world := setArr w r (LibMore.sortV w.heap xs)}` — i.e. the call-back sort
  with `systemCompare` stores what `LibMore.arraySortM` stores.  `sort_cb_contract` gives it for comparators that are total preorders on
  ALL values; `cmpD h` is one only on the readable values, so what is missing is the on-elements version of `pySort_eval` (parametricity of
  `pySort` under `Subtype.val`, as `C15More.sortBy_map_on` does for `sortBy`).  The stream checks it on every run (`cmpSys`, `systemCompare`).
* `history_refines_cb`: `Lib.runHistory` has no place for call-backs (a step is `Heap → Res × Heap`); the history level for these calls is
  the machine itself (`Machine.execute` over `LibCb.host`), tied by the `cb-scripts` stream.
-/

namespace C15Cb
open Machine HostLib LibCb Compare C11

abbrev St := State LWorld

/-! ## plumbing -/

theorem resolve_script (n : Nat) (w : LWorld) (id : Nat) (a : List Value) :
    resolve n w (.fn (.script id)) a = (.fn (.script id), a) := by
  cases n <;> simp [resolve]

theorem cbCall_script (id : Nat) (args : List Value) (w : LWorld) (k : Value → LWorld → Tree) (e : Value → LWorld → Tree) :
    cbCall (.fn (.script id)) args w k e = .call (.fn (.script id)) args w k := by
  unfold cbCall; rw [resolve_script]

theorem resolve_lib (n : Nat) (w : LWorld) (name : String) (a : List Value) :
    resolve n w (.fn (.lib name)) a = (.fn (.lib name), a) := by
  cases n <;> simp [resolve]

variable (cfg : Config LWorld) (call : CallFn LWorld)

theorem runTree_ret_ok (v : Value) (st : St) : runTree cfg call (.ret (.ok v) st.world) st = .ok v st := rfl

theorem runTree_call (f : Value) (args : List Value) (w : LWorld) (k : Value → LWorld → Tree) (st : St) :
    runTree cfg call (.call f args w k) st =
      match call f args { st with world := w } with
      | .ok v st1 => runTree cfg call (k v st1.world) st1
      | o => o := by
  cases h : call f args { st with world := w } <;> simp [runTree, h]

/-- a tree carries its own world: the world component of the state it is run in is irrelevant -/
theorem runTree_world (t : Tree) (st : St) (w' : LWorld) :
    runTree cfg call t { st with world := w' } = runTree cfg call t st := by
  cases t with
  | ret o w => cases o <;> simp [runTree]
  | call f a w k => simp [runTree]
  | globalGet n w k => simp [runTree]
  | globalSet n v w k => simp [runTree]

/-- the call-backs a tree makes, in order -/
def callsOf : Tree → St → List (Value × List Value)
  | .ret _ _, _ => []
  | .call f a w k, st =>
    (f, a) :: match call f a { st with world := w } with
      | .ok v st1 => callsOf (k v st1.world) st1
      | _ => []
  | .globalGet n w k, st => callsOf (k (st.globals.get? n) w) { st with world := w }
  | .globalSet n v w k, st => callsOf (k w) { st with globals := st.globals.set n v, world := w }

/-! ## the index searches -/

/-- reference: scan the elements (with their indices) in order, threading the state through the predicate calls -/
def scanSpec (f : Value) : List (Nat × Lib.Value) → St → Out LWorld
  | [], st => .ok (numV (-1)) st
  | (i, x) :: rest, st =>
    match call f [ofLib x] st with
    | .ok v st1 => if Lib.truthy st1.world.heap (toLib v) then .ok (numV i) st1 else scanSpec f rest st1
    | o => o

theorem getArr_bind {h : Lib.Heap} {r : Nat} {xs : List Lib.Value} (hx : Lib.getArr h r = some xs) {i : Nat} (hi : i < xs.length) :
    (Lib.getArr h r).bind (·[i]?) = some ((xs[i]?).getD .null) := by
  rw [hx]; simp [List.getElem?_eq_getElem hi]

/-- **search_refines.**  If the call-backs never change the contents of the searched array, the index loop over the LIVE array is the
scan over the elements the array had at the start. -/
theorem search_refines (id r : Nat) (xs : List Lib.Value)
    (hkeep : ∀ x st v st1, call (.fn (.script id)) [ofLib x] st = .ok v st1 →
      Lib.getArr st1.world.heap r = Lib.getArr st.world.heap r) :
    ∀ (is : List Nat) (st : St), Lib.getArr st.world.heap r = some xs → (∀ i ∈ is, i < xs.length) →
      runTree cfg call (searchCb (.fn (.script id)) r is st.world) st =
        scanSpec call (.fn (.script id)) (is.map fun i => (i, (xs[i]?).getD .null)) st
  | [], st, _, _ => rfl
  | i :: is, st, hx, hin => by
    unfold searchCb
    rw [getArr_bind hx (hin i (by simp))]
    simp only [cbCall_script, runTree_call, List.map_cons, scanSpec]
    cases hc : call (.fn (.script id)) [ofLib ((xs[i]?).getD .null)] st with
    | ok v st1 =>
      simp only
      by_cases ht : Lib.truthy st1.world.heap (toLib v) = true
      · simp only [ht, if_true]; rfl
      · simp only [ht, Bool.false_eq_true, if_false]
        exact search_refines id r xs hkeep is st1 ((hkeep _ _ _ _ hc).trans hx) (fun j hj => hin j (by simp [hj]))
    | err e st1 => rfl
    | oof => rfl

example : upFrom 2 5 = [2, 3, 4] ∧ downFrom 3 = [3, 2, 1, 0] ∧ downFrom (-1) = [] := by decide

/-- the indices visited: up to and including the first hit -/
def scanned (p : Nat → Bool) : List Nat → List Nat
  | [] => []
  | i :: is => i :: if p i then [] else scanned p is

/-- **indexOf_cb_spec** (also `arrayLastIndexOf`: `is` is the index list the function computed once, `upFrom start len` resp.
`downFrom start`).  With a call-back that has no effects, the result is the FIRST index in scan order whose element satisfies the
predicate (`-1` if none), the state is unchanged, and the call-backs made are exactly `fn(element)` for the elements from the start to the
hit, each once, in order. -/
theorem indexOf_cb_spec (id r : Nat) (xs : List Lib.Value) (ans : Lib.Value → Value)
    (hpure : ∀ x st, call (.fn (.script id)) [ofLib x] st = .ok (ans x) st)
    (st : St) (hx : Lib.getArr st.world.heap r = some xs) :
    ∀ (is : List Nat), (∀ i ∈ is, i < xs.length) →
      runTree cfg call (searchCb (.fn (.script id)) r is st.world) st =
        .ok (match is.find? (fun i => Lib.truthy st.world.heap (toLib (ans ((xs[i]?).getD .null)))) with
             | some i => numV i
             | none => numV (-1)) st ∧
      callsOf call (searchCb (.fn (.script id)) r is st.world) st =
        (scanned (fun i => Lib.truthy st.world.heap (toLib (ans ((xs[i]?).getD .null)))) is).map
          fun i => (.fn (.script id), [ofLib ((xs[i]?).getD .null)])
  | [], _ => ⟨rfl, rfl⟩
  | i :: is, hin => by
    have ih := indexOf_cb_spec id r xs ans hpure st hx is (fun j hj => hin j (by simp [hj]))
    unfold searchCb
    rw [getArr_bind hx (hin i (by simp))]
    simp only [cbCall_script, runTree_call, callsOf, hpure, List.find?_cons, scanned, List.map_cons]
    by_cases ht : Lib.truthy st.world.heap (toLib (ans ((xs[i]?).getD .null))) = true
    · simp only [ht, if_true]
      exact ⟨rfl, by simp [callsOf]⟩
    · simp only [ht, Bool.false_eq_true, if_false]
      exact ⟨ih.1, by rw [ih.2]⟩

/-- `arrayLastIndexOf(array, fn [, index])`: `indexOf_cb_spec` read for the descending index list -/
theorem lastIndexOf_cb_spec (id r : Nat) (xs : List Lib.Value) (ans : Lib.Value → Value)
    (hpure : ∀ x st, call (.fn (.script id)) [ofLib x] st = .ok (ans x) st)
    (st : St) (hx : Lib.getArr st.world.heap r = some xs) (start : Int) (hs : start < xs.length) :
    runTree cfg call (searchCb (.fn (.script id)) r (downFrom start) st.world) st =
      .ok (match (downFrom start).find? (fun i => Lib.truthy st.world.heap (toLib (ans ((xs[i]?).getD .null)))) with
           | some i => numV i
           | none => numV (-1)) st :=
  (indexOf_cb_spec cfg call id r xs ans hpure st hx (downFrom start) (fun i hi => by
    simp only [downFrom, List.mem_reverse, List.mem_range] at hi; omega)).1

/-- non-vacuity of the pure hypotheses: the predicate "is the number 2" as a call-back runner; the found index and the trace -/
example :
    let call : CallFn LWorld := fun _ a st => .ok (.bool (a == [Value.str "b"])) st
    let st : St := { globals := [], world := { heap := [.arr [.str "a", .str "b", .str "c", .str "b"]] }, count := 0 }
    runTree { host := host, funs := fun _ => none, maxStatements := 0 } call (searchCb (.fn (.script 0)) 0 (upFrom 0 4) st.world) st
      = .ok (numV 1) st ∧
    callsOf call (searchCb (.fn (.script 0)) 0 (upFrom 0 4) st.world) st
      = [(.fn (.script 0), [.str "a"]), (.fn (.script 0), [.str "b"])] ∧
    runTree { host := host, funs := fun _ => none, maxStatements := 0 } call (searchCb (.fn (.script 0)) 0 (downFrom 3) st.world) st
      = .ok (numV 3) st := by
  intro call st
  exact ⟨rfl, rfl, rfl⟩

/-- outcome predicate used by the frame theorems -/
def OutInv (Inv : St → Prop) : Out LWorld → Prop
  | .ok _ st => Inv st
  | .err _ st => Inv st
  | .oof => True

/-- **cb_frame.**  A search changes nothing by itself: every property of the machine state that the call-backs preserve holds after the
search (for the host of this model the debug log line of a swallowed failure is the identity: `hlog`). -/
theorem cb_frame (id r : Nat) (Inv : St → Prop) (hlog : ∀ w, cfg.host.logFailure w = w)
    (hpres : ∀ a st, Inv st → OutInv Inv (call (.fn (.script id)) a st)) :
    ∀ (is : List Nat) (st : St), Inv st → OutInv Inv (runTree cfg call (searchCb (.fn (.script id)) r is st.world) st)
  | [], st, hi => hi
  | i :: is, st, hi => by
    unfold searchCb
    cases hb : (Lib.getArr st.world.heap r).bind (·[i]?) with
    | none =>
      simp only [runTree, hlog, ite_self]
      exact hi
    | some x =>
      simp only [cbCall_script, runTree_call]
      have hp := hpres [ofLib x] st hi
      cases hc : call (.fn (.script id)) [ofLib x] st with
      | ok v st1 =>
        rw [hc] at hp
        simp only
        by_cases ht : Lib.truthy st1.world.heap (toLib v) = true
        · simp only [ht, if_true]; exact hp
        · simp only [ht, Bool.false_eq_true, if_false]
          exact cb_frame id r Inv hlog hpres is st1 hp
      | err e st1 => rw [hc] at hp; exact hp
      | oof => trivial

example : ∀ w, (host : Host LWorld).logFailure w = w := fun _ => rfl

/-- **cb_failure_script.**  A call-back that ends with a runtime error (statement budget, unknown label, undefined function) ends the
search with that error in the state the call-back left; no further element is visited. -/
theorem cb_failure_script (id r i : Nat) (is : List Nat) (x : Lib.Value) (st st1 : St) (e : RtErr)
    (hb : (Lib.getArr st.world.heap r).bind (·[i]?) = some x)
    (hc : call (.fn (.script id)) [ofLib x] st = .err e st1) :
    runTree cfg call (searchCb (.fn (.script id)) r (i :: is) st.world) st = .err e st1 ∧
    callsOf call (searchCb (.fn (.script id)) r (i :: is) st.world) st = [(.fn (.script id), [ofLib x])] := by
  unfold searchCb
  rw [hb]
  simp [cbCall_script, runTree_call, callsOf, hc]

/-- **cb_failure_lib** (finding F38, the current behaviour of library.py): a LIBRARY function as match function whose own call fails
(argument validation or any other exception): the exception leaves `arrayIndexOf` / `arrayLastIndexOf`, the call wrapper returns the
INNER function's failure value; no call-back node, nothing further visited. -/
theorem cb_failure_lib (name : String) (r i : Nat) (is : List Nat) (x : Lib.Value) (w : LWorld) (v : Lib.Value) (h : Lib.Heap)
    (hb : (Lib.getArr w.heap r).bind (·[i]?) = some x)
    (hf : base name [ofLib x] w = (.fail v, h)) :
    searchCb (.fn (.lib name)) r (i :: is) w = .ret (.fail (ofLib v)) { w with heap := h } := by
  unfold searchCb
  rw [hb]
  simp only [cbCall, resolve_lib, hf]

/-- `arrayIndexOf(arrayNew(arrayNew(1), 1), arrayLength)`: the second element is not an array, `arrayLength` fails with ITS failure
value `0`, which becomes the result of `arrayIndexOf` (not `-1`, not an index) -/
example : searchCb (.fn (.lib "arrayLength")) 0 [1] { heap := [.arr [.arr 1, .num 1], .arr [.num 1]] } =
    .ret (.fail (.num 0)) { heap := [.arr [.arr 1, .num 1], .arr [.num 1]] } := by
  rfl

/-- **cb_failure_shrunk.**  The element the loop is about to read is gone (an earlier call-back shortened the array): `IndexError`,
the wrapper's `null`. -/
theorem cb_failure_shrunk (f : Value) (r i : Nat) (is : List Nat) (w : LWorld)
    (hb : (Lib.getArr w.heap r).bind (·[i]?) = none) :
    searchCb f r (i :: is) w = .ret (.fail .null) w := by
  unfold searchCb; rw [hb]

/-! ## arraySort with a compare function -/

theorem getArr_setArr (w : LWorld) (r : Nat) (ys : List Lib.Value) (hr : r < w.heap.length) :
    Lib.getArr (setArr w r ys).heap r = some ys := by
  simp [Lib.getArr, setArr, hr]

theorem setArr_setArr (w : LWorld) (r : Nat) (xs ys : List Lib.Value) : setArr (setArr w r xs) r ys = setArr w r ys := by
  simp [setArr]

theorem lt_of_getArr {h : Lib.Heap} {r : Nat} {xs : List Lib.Value} (hx : Lib.getArr h r = some xs) : r < h.length := by
  unfold Lib.getArr at hx
  by_cases hr : r < h.length
  · exact hr
  · rw [List.getElem?_eq_none (by omega)] at hx; simp at hx

theorem setArr_self {w : LWorld} {r : Nat} {xs : List Lib.Value} (hx : Lib.getArr w.heap r = some xs) : setArr w r xs = w := by
  have hr := lt_of_getArr hx
  unfold Lib.getArr at hx
  rw [List.getElem?_eq_getElem hr] at hx
  have hc : w.heap[r] = .arr xs := by
    split at hx
    · rename_i ys heq; simp at hx; subst hx; simpa using heq
    · simp at hx
  unfold setArr
  rw [← hc, List.set_getElem_self]

/-- **sort_cb_pure.**  With a comparator that has no effects and always answers a number or a boolean, running the sort tree is
evaluating the sorting computation with `x < y := compare_fn(x, y) < 0` and storing the result. -/
theorem sort_cb_pure (id r : Nat) (ans : Lib.Value → Lib.Value → Value) (lt : Lib.Value → Lib.Value → Bool)
    (hpure : ∀ x y st, call (.fn (.script id)) [ofLib x, ofLib y] st = .ok (ans x y) st)
    (hlt : ∀ x y, ltZero (toLib (ans x y)) = some (lt x y)) :
    ∀ (a : Ask Lib.Value (List Lib.Value)) (w : LWorld) (st : St),
      runTree cfg call (sortTree (.fn (.script id)) r a w) st =
        runTree cfg call (finishSort r (a.eval lt) w) st := by
  intro a
  induction a with
  | done ys => intro w st; rfl
  | ask cur x y k ih =>
    intro w st
    unfold sortTree
    simp only [cbCall_script, runTree_call, hpure, hlt, Ask.eval]
    rw [ih (lt x y) w { st with world := w }, runTree_world]

/-- **sort_cb_contract.**  `arraySort(array, compareFn)` with a comparator that has no effects and is a total preorder (`C11.IsPre`:
`c a a = 0`, `c a b = -c b a`, transitive `≤`; `c` = the sign the comparator's answers have): the call returns the array it was given; the
array now holds `ys`, a permutation of its old contents, ordered w.r.t. the comparator, in which elements the comparator calls equal keep
their order — and `ys` is the only such list; nothing else in the state changes. -/
theorem sort_cb_contract (id r : Nat) (xs : List Lib.Value) (c : Lib.Value → Lib.Value → Int) (hc : IsPre c)
    (ans : Lib.Value → Lib.Value → Value)
    (hpure : ∀ x y st, call (.fn (.script id)) [ofLib x, ofLib y] st = .ok (ans x y) st)
    (hlt : ∀ x y, ltZero (toLib (ans x y)) = some (decide (c x y < 0)))
    (st : St) (hx : Lib.getArr st.world.heap r = some xs) :
    runTree cfg call (sortCb (.fn (.script id)) r xs st.world) st =
      .ok (.arr r) { st with world := setArr st.world r (sortBy (ltOf c) xs) } ∧
    (sortBy (ltOf c) xs).Perm xs ∧ Sorted c (sortBy (ltOf c) xs) ∧
    (∀ a, (sortBy (ltOf c) xs).filter (eqv c a) = xs.filter (eqv c a)) ∧
    (∀ ys, Sorted c ys → (∀ a, ys.filter (eqv c a) = xs.filter (eqv c a)) → ys = sortBy (ltOf c) xs) := by
  obtain ⟨h1, h2, h3, h4⟩ := sortBy_spec hc xs
  refine ⟨?_, h2, h1, h3, h4⟩
  have hr := lt_of_getArr hx
  unfold sortCb
  by_cases hlen : xs.length < 2
  · simp only [hlen, if_true]
    have hs : sortBy (ltOf c) xs = xs := by
      match xs, hlen with
      | [], _ => rfl
      | [_], _ => rfl
    rw [hs, setArr_self hx]
    rfl
  · simp only [hlen, if_false]
    have := sort_cb_pure cfg call id r ans (ltOf c) hpure hlt (pySort xs) (setArr st.world r []) st
    rw [pySort_eval hc] at this
    rw [this]
    unfold finishSort
    simp only [getArr_setArr st.world r [] hr, beq_self_eq_true, if_true, setArr_setArr]
    rfl

/-- non-vacuity: "ascending by integer key" `c x y = key x - key y` (a script comparator `return x - y` on integers) is a total
preorder, and its answers have the right sign -/
example :
    let key : Lib.Value → Int := fun v => match v with | .num q => q.floor | _ => 0
    IsPre (fun x y => key x - key y) ∧
    ∀ x y, ltZero (toLib (numV (key x - key y))) = some (decide (key x - key y < 0)) := by
  refine ⟨⟨fun _ => by simp, fun _ _ => by omega, fun _ _ _ _ _ => by omega⟩, fun x y => ?_⟩
  simp only [numV, toLib, ltZero]
  rfl

/-- **sort_cb_perm_always** (the failure clause for `arraySort`).  However the comparator behaves — inconsistent answers, an answer that
is not a number at ANY point of the sort (`TypeError`, the call returns `null`), effects on other containers, appending to the array being
sorted (`ValueError`, `null`) — whenever the call returns, the array holds a permutation of its original contents: nothing is lost or
duplicated.  (`hlen`: call-backs only allocate, a heap never shrinks.) -/
theorem sort_cb_perm_always (id r : Nat) (xs : List Lib.Value) (hlog : ∀ w, cfg.host.logFailure w = w)
    (hlen : ∀ a st v st1, call (.fn (.script id)) a st = .ok v st1 → st.world.heap.length ≤ st1.world.heap.length) :
    ∀ (a : Ask Lib.Value (List Lib.Value)), AllP (fun l => l.Perm xs) a → ∀ (w : LWorld) (st : St), r < w.heap.length →
      ∀ v st', runTree cfg call (sortTree (.fn (.script id)) r a w) st = .ok v st' →
        ∃ ys, Lib.getArr st'.world.heap r = some ys ∧ ys.Perm xs := by
  intro a
  induction a with
  | done ys =>
    intro hall w st hr v st' hrun
    cases hall with
    | done hp =>
      refine ⟨ys, ?_, hp⟩
      unfold sortTree finishSort at hrun
      split at hrun
      · simp only [runTree] at hrun
        injection hrun with _ hst; subst hst
        exact getArr_setArr w r ys hr
      · simp only [runTree, hlog, ite_self] at hrun
        injection hrun with _ hst; subst hst
        exact getArr_setArr w r ys hr
  | ask cur x y k ih =>
    intro hall w st hr v st' hrun
    cases hall with
    | ask hcur hk =>
      unfold sortTree at hrun
      simp only [cbCall_script, runTree_call] at hrun
      cases hc : call (.fn (.script id)) [ofLib x, ofLib y] { st with world := w } with
      | ok res st1 =>
        rw [hc] at hrun
        simp only at hrun
        have hr1 : r < st1.world.heap.length := Nat.lt_of_lt_of_le hr (hlen _ _ _ _ hc)
        cases hz : ltZero (toLib res) with
        | some b =>
          rw [hz] at hrun
          exact ih b (hk b) st1.world st1 hr1 v st' hrun
        | none =>
          rw [hz] at hrun
          simp only [runTree, hlog, ite_self] at hrun
          injection hrun with _ hst; subst hst
          exact ⟨cur, getArr_setArr st1.world r cur hr1, hcur⟩
      | err e st1 => rw [hc] at hrun; simp at hrun
      | oof => rw [hc] at hrun; simp at hrun

/-- `sort_cb_perm_always` for the call itself -/
theorem arraySort_cb_perm (id r : Nat) (xs : List Lib.Value) (hlog : ∀ w, cfg.host.logFailure w = w)
    (hlen : ∀ a st v st1, call (.fn (.script id)) a st = .ok v st1 → st.world.heap.length ≤ st1.world.heap.length)
    (st : St) (hx : Lib.getArr st.world.heap r = some xs) (v : Value) (st' : St)
    (hrun : runTree cfg call (sortCb (.fn (.script id)) r xs st.world) st = .ok v st') :
    ∃ ys, Lib.getArr st'.world.heap r = some ys ∧ ys.Perm xs := by
  have hr := lt_of_getArr hx
  unfold sortCb at hrun
  by_cases hl : xs.length < 2
  · simp only [hl, if_true, runTree] at hrun
    injection hrun with _ hst; subst hst
    exact ⟨xs, hx, List.Perm.refl _⟩
  · simp only [hl, if_false] at hrun
    exact sort_cb_perm_always cfg call id r xs hlog hlen (pySort xs) (pySort_allPerm xs)
      (setArr st.world r []) st (by simpa [setArr] using hr) v st' hrun

/-- **sort_cb_nonnumber.**  The first answer of the comparator is neither a number nor a boolean (`null`, a string, an array, …):
`TypeError` inside `list.sort`; the call returns `null` and the array has exactly its old contents, in the old order. -/
theorem sort_cb_nonnumber (id r : Nat) (x0 x1 : Lib.Value) (tl : List Lib.Value) (hlog : ∀ w, cfg.host.logFailure w = w)
    (st st1 : St) (res : Value)
    (hc : call (.fn (.script id)) [ofLib x1, ofLib x0] { st with world := setArr st.world r [] } = .ok res st1)
    (hz : ltZero (toLib res) = none) :
    runTree cfg call (sortCb (.fn (.script id)) r (x0 :: x1 :: tl) st.world) st =
      .ok .null { st1 with world := setArr st1.world r (x0 :: x1 :: tl) } := by
  unfold sortCb
  have : ¬ (x0 :: x1 :: tl).length < 2 := by simp
  simp only [this, if_false, pySort]
  unfold sortTree
  simp only [cbCall_script, runTree_call, hc, hz, runTree, hlog, ite_self]

/-! ## the dispatch: the calls a script writes ARE these trees -/

/-- `value_args_validate` with the regenerated argument models (`Gen.argModels`) accepts the call-back forms and fills the defaults -/
theorem validated_sort (h : Lib.Heap) (r g : Nat) :
    validated "arraySort" [.arr r, .fn g] h = some (some [.one (.arr r), .one (.fn g)]) := by rfl

theorem validated_indexOf (h : Lib.Heap) (r g : Nat) :
    validated "arrayIndexOf" [.arr r, .fn g] h = some (some [.one (.arr r), .one (.fn g), .one (Lib.numN 0)]) := by rfl

theorem validated_lastIndexOf (h : Lib.Heap) (r g : Nat) :
    validated "arrayLastIndexOf" [.arr r, .fn g] h = some (some [.one (.arr r), .one (.fn g), .one .null]) := by rfl

/-- **dispatch.**  `arraySort(array, f)` / `arrayIndexOf(array, f)` / `arrayLastIndexOf(array, f)` with a script function `f`, as the machine
host `LibCb.host` answers them, are exactly `sortCb` / `searchCb` over `range(0, len)` / `range(len-1, -1, -1)`: the theorems above
are theorems about these library calls (rewrite with these equations). -/
theorem lib_arraySort_cb (w : LWorld) (r id : Nat) (xs : List Lib.Value) (hx : Lib.getArr w.heap r = some xs) :
    LibCb.lib "arraySort" [.arr r, .fn (.script id)] w = sortCb (.fn (.script id)) r xs w := by
  have hv := validated_sort w.heap r (encFn (.script id))
  have ho : ofLib (.fn (encFn (.script id))) = .fn (.script id) := ofLib_toLib (.fn (.script id))
  simp [LibCb.lib, cbForm, toLib, hv, hx, ho]

theorem lib_arrayIndexOf_cb (w : LWorld) (r id : Nat) (xs : List Lib.Value) (hx : Lib.getArr w.heap r = some xs) (hne : 0 < xs.length) :
    LibCb.lib "arrayIndexOf" [.arr r, .fn (.script id)] w = searchCb (.fn (.script id)) r (upFrom 0 xs.length) w := by
  have hv := validated_indexOf w.heap r (encFn (.script id))
  have ho : ofLib (.fn (encFn (.script id))) = .fn (.script id) := ofLib_toLib (.fn (.script id))
  have hr : Lib.rle (Lib.ofNat xs.length) (Rat.ofInt 0) = false := by
    have e1 : (Lib.ofNat xs.length).num = xs.length := rfl
    have e2 : (Lib.ofNat xs.length).den = 1 := rfl
    have e3 : (Rat.ofInt 0).num = 0 := rfl
    have e4 : (Rat.ofInt 0).den = 1 := rfl
    simp only [Lib.rle, e1, e2, e3, e4, decide_eq_false_iff_not]; omega
  have hp : (Lib.pyInt (Rat.ofInt 0)).toNat = 0 := by decide
  simp [LibCb.lib, cbForm, toLib, hv, hx, ho, Lib.numN, hr, hp]

theorem lib_arrayLastIndexOf_cb (w : LWorld) (r id : Nat) (xs : List Lib.Value) (hx : Lib.getArr w.heap r = some xs) :
    LibCb.lib "arrayLastIndexOf" [.arr r, .fn (.script id)] w = searchCb (.fn (.script id)) r (downFrom ((xs.length : Int) - 1)) w := by
  have hv := validated_lastIndexOf w.heap r (encFn (.script id))
  have ho : ofLib (.fn (encFn (.script id))) = .fn (.script id) := ofLib_toLib (.fn (.script id))
  have hr : Lib.rle (Lib.ofNat xs.length) (Rat.ofInt ((xs.length : Int) - 1)) = false := by
    have e1 : (Lib.ofNat xs.length).num = xs.length := rfl
    have e2 : (Lib.ofNat xs.length).den = 1 := rfl
    have e3 : (Rat.ofInt ((xs.length : Int) - 1)).num = (xs.length : Int) - 1 := rfl
    have e4 : (Rat.ofInt ((xs.length : Int) - 1)).den = 1 := rfl
    simp only [Lib.rle, e1, e2, e3, e4, decide_eq_false_iff_not]; omega
  have hp : Lib.pyInt (Rat.ofInt ((xs.length : Int) - 1)) = (xs.length : Int) - 1 := by
    have e3 : (Rat.ofInt ((xs.length : Int) - 1)).num = (xs.length : Int) - 1 := rfl
    have e4 : (Rat.ofInt ((xs.length : Int) - 1)).den = 1 := rfl
    simp only [Lib.pyInt, e3, e4]; simp
  simp [LibCb.lib, cbForm, toLib, hv, hx, ho, Lib.idxOr, hr, hp]

end C15Cb
