import BareModel.NumText

/-!
# C13 — helper lemmas (numbers as text)

List scanning, the clean-up `\.0*$`, soundness/completeness of the literal scanner (`scanTok_sound`, `scanTok_text`), values,
`float()` on clean ASCII literal text, the anatomy of `repr`-shaped literals (`strip_tok`), `str(int)`, the digit loop of `int()`.
The property theorems are in `BareProofs/C13.lean`.
-/
set_option linter.unusedSimpArgs false
set_option linter.unusedVariables false

namespace C13
open NumText

/-! ### list scanning -/

/-- the list is empty or starts with a character on which `p` fails -/
def Stops (p : Char → Bool) (b : List Char) : Prop := ∀ c, b.head? = some c → p c = false

theorem stops_nil (p) : Stops p [] := by intro c h; simp at h
theorem stops_cons {p} {c : Char} {t} (h : p c = false) : Stops p (c :: t) := by
  intro d hd; simp at hd; subst hd; exact h

theorem takeWhile_append_stop {p : Char → Bool} {a b : List Char} (ha : ∀ c ∈ a, p c = true) (hb : Stops p b) :
    (a ++ b).takeWhile p = a := by
  induction a with
  | nil =>
    cases b with
    | nil => rfl
    | cons c t => simp [List.takeWhile, hb c rfl]
  | cons x xs ih =>
    have hx := ha x (by simp)
    simp [List.takeWhile, hx, ih (fun c hc => ha c (by simp [hc]))]

theorem dropWhile_append_stop {p : Char → Bool} {a b : List Char} (ha : ∀ c ∈ a, p c = true) (hb : Stops p b) :
    (a ++ b).dropWhile p = b := by
  induction a with
  | nil =>
    cases b with
    | nil => rfl
    | cons c t => simp [List.dropWhile, hb c rfl]
  | cons x xs ih =>
    have hx := ha x (by simp)
    simp [List.dropWhile, hx, ih (fun c hc => ha c (by simp [hc]))]

theorem takeWhile_all {p : Char → Bool} {a : List Char} (ha : ∀ c ∈ a, p c = true) : a.takeWhile p = a := by
  have := takeWhile_append_stop (b := []) ha (stops_nil p); simpa using this

theorem dropWhile_all {p : Char → Bool} {a : List Char} (ha : ∀ c ∈ a, p c = true) : a.dropWhile p = [] := by
  have := dropWhile_append_stop (b := []) ha (stops_nil p); simpa using this

theorem dropWhile_none {p : Char → Bool} {a : List Char} (ha : ∀ c ∈ a, p c = false) : a.dropWhile p = a := by
  cases a with
  | nil => rfl
  | cons x xs => simp [List.dropWhile, ha x (by simp)]

theorem mem_takeWhile_imp {p : Char → Bool} {l : List Char} : ∀ c ∈ l.takeWhile p, p c = true := by
  induction l with
  | nil => simp
  | cons x xs ih =>
    intro c hc
    by_cases hx : p x = true
    · simp [List.takeWhile_cons, hx] at hc
      rcases hc with hc | hc
      · subst hc; exact hx
      · exact ih c hc
    · simp [List.takeWhile_cons, hx] at hc

/-! ### `re.sub(r'\.0*$', '', s)` -/

theorem zerosEnd_replicate (k : Nat) : zerosEnd (List.replicate k '0') = some [] := by
  induction k with
  | zero => rfl
  | succ k ih => simp [List.replicate_succ, zerosEnd, ih]

theorem zerosEnd_replicate_nl (k : Nat) : zerosEnd (List.replicate k '0' ++ ['\n']) = some ['\n'] := by
  induction k with
  | zero => simp [zerosEnd]
  | succ k ih => simp [List.replicate_succ, zerosEnd, ih]

theorem zerosEnd_some {l r : List Char} (h : zerosEnd l = some r) :
    ∃ k, l = List.replicate k '0' ++ r ∧ (r = [] ∨ r = ['\n']) := by
  induction l with
  | nil => simp [zerosEnd] at h; subst h; exact ⟨0, by simp⟩
  | cons c cs ih =>
    unfold zerosEnd at h
    by_cases hc : c = '0'
    · simp [hc] at h
      obtain ⟨k, hk, hr⟩ := ih h
      exact ⟨k + 1, by rw [hk, hc]; simp [List.replicate_succ], hr⟩
    · simp [hc] at h
      obtain ⟨⟨h1, h2⟩, h3⟩ := h
      subst h1 h2
      exact ⟨0, by simp [← h3], Or.inr h3.symm⟩

/-- a character other than `0` and newline after the point: no match there -/
theorem zerosEnd_none_of_bad {l : List Char} (h : ∃ c ∈ l, c ≠ '0' ∧ c ≠ '\n') : zerosEnd l = none := by
  induction l with
  | nil => simp at h
  | cons c cs ih =>
    unfold zerosEnd
    by_cases hc : c = '0'
    · simp only [hc, if_true]
      apply ih
      obtain ⟨d, hd, hd0, hdn⟩ := h
      simp at hd
      rcases hd with hd | hd
      · exact absurd (hd.trans hc) hd0
      · exact ⟨d, hd, hd0, hdn⟩
    · simp only [hc, if_false]
      by_cases hn : c = '\n' ∧ cs = []
      · obtain ⟨d, hd, hd0, hdn⟩ := h
        simp [hn.2] at hd
        exact absurd (hd.trans hn.1) hdn
      · simp [hn]

theorem stripL_no_dot {l : List Char} (h : '.' ∉ l) : stripL l = l := by
  induction l with
  | nil => rfl
  | cons c cs ih =>
    simp at h
    have hc : c ≠ '.' := fun e => h.1 e.symm
    simp [stripL, hc, ih h.2]

theorem stripL_append_no_dot {a b : List Char} (h : '.' ∉ a) : stripL (a ++ b) = a ++ stripL b := by
  induction a with
  | nil => rfl
  | cons c cs ih =>
    simp at h
    have hc : c ≠ '.' := fun e => h.1 e.symm
    simp [stripL, hc, ih h.2]

theorem stripL_dot_zeros (k : Nat) : stripL ('.' :: List.replicate k '0') = [] := by
  simp [stripL, zerosEnd_replicate]

/-- `p.000` ↦ `p` when `p` has no point -/
theorem stripL_trailing_zeros {p : List Char} (h : '.' ∉ p) (k : Nat) : stripL (p ++ '.' :: List.replicate k '0') = p := by
  rw [stripL_append_no_dot h, stripL_dot_zeros]; simp

/-- after the last point there is a character other than `0`/newline: nothing is removed -/
theorem stripL_noop {pre post : List Char} {c : Char} (h0 : c ≠ '0') (hn : c ≠ '\n') (hd : c ≠ '.') (hp : '.' ∉ post) :
    stripL (pre ++ c :: post) = pre ++ c :: post := by
  induction pre with
  | nil => simp [stripL, hd, stripL_no_dot hp]
  | cons x xs ih =>
    by_cases hx : x = '.'
    · have : zerosEnd (xs ++ c :: post) = none := zerosEnd_none_of_bad ⟨c, by simp, h0, hn⟩
      simp [stripL, hx, this]
      simpa using ih
    · simp [stripL, hx]
      simpa using ih

/-- the general no-op statement: the text does not end in `.` `0`* (optionally followed by one final newline) -/
theorem stripL_noop_general {l : List Char}
    (h : ∀ p k, l ≠ p ++ '.' :: List.replicate k '0' ∧ l ≠ p ++ '.' :: (List.replicate k '0' ++ ['\n'])) : stripL l = l := by
  induction l with
  | nil => rfl
  | cons c cs ih =>
    have ihh : stripL cs = cs := by
      apply ih
      intro p k
      have := h (c :: p) k
      simpa using this
    by_cases hc : c = '.'
    · cases hz : zerosEnd cs with
      | none => simp [stripL, hc, hz, ihh]
      | some r =>
        obtain ⟨k, hk, hr⟩ := zerosEnd_some hz
        have := h [] k
        rcases hr with hr | hr
        · subst hr; simp [hc, hk] at this
        · subst hr; simp [hc, hk] at this
    · simp [stripL, hc, ihh]


/-! ### well-formed literals; scanners are sound and re-scan their own output -/

def Digs (l : List Char) : Prop := ∀ c ∈ l, isDig c = true

structure ExpWF (strict : Bool) (e : ExpPart) : Prop where
  digs : Digs e.digits
  ne : e.digits ≠ []
  strictE : strict = true → e.upper = false ∧ e.sign ≠ .none

/-- `t` is a literal of the grammar: `strict = true` the source-literal regex, `strict = false` the `strtod` decimal grammar -/
structure TokWF (strict : Bool) (t : Tok) : Prop where
  ip : Digs t.ip
  fp : ∀ fp, t.frac = some fp → Digs fp
  someDigit : t.ip ≠ [] ∨ (strict = false ∧ ∃ fp, t.frac = some fp ∧ fp ≠ [])
  exp : ∀ e, t.exp = some e → ExpWF strict e

theorem isDig_plus : isDig '+' = false := by decide
theorem isDig_minus : isDig '-' = false := by decide
theorem isDig_dot : isDig '.' = false := by decide
theorem isDig_e : isDig 'e' = false := by decide
theorem isDig_E : isDig 'E' = false := by decide

/-- the list does not start with a sign character -/
def NoSignHead (l : List Char) : Prop := ∀ c, l.head? = some c → c ≠ '+' ∧ c ≠ '-'

theorem scanSign_sound {l r : List Char} {s : Sign} (h : scanSign l = (s, r)) : l = s.text ++ r := by
  cases l with
  | nil => simp [scanSign] at h; obtain ⟨h1, h2⟩ := h; subst h1 h2; rfl
  | cons c cs =>
    unfold scanSign at h
    by_cases h1 : c = '+'
    · simp [h1] at h; obtain ⟨h2, h3⟩ := h; subst h2 h3; simp [Sign.text, h1]
    · by_cases h2 : c = '-'
      · simp [h1, h2] at h; obtain ⟨h3, h4⟩ := h; subst h3 h4; simp [Sign.text, h2]
      · simp [h1, h2] at h; obtain ⟨h3, h4⟩ := h; subst h3 h4; simp [Sign.text]

theorem scanSign_text (s : Sign) {rest : List Char} (h : NoSignHead rest) : scanSign (s.text ++ rest) = (s, rest) := by
  cases s with
  | plus => simp [Sign.text, scanSign]
  | minus => simp [Sign.text, scanSign]
  | none =>
    cases rest with
    | nil => simp [Sign.text, scanSign]
    | cons c t =>
      obtain ⟨h1, h2⟩ := h c rfl
      simp [Sign.text, scanSign, h1, h2]

theorem noSignHead_of_dig {c : Char} {t : List Char} (h : isDig c = true) : NoSignHead (c :: t) := by
  intro d hd; simp at hd; subst hd
  constructor
  · intro e; subst e; simp [isDig_plus] at h
  · intro e; subst e; simp [isDig_minus] at h

theorem noSignHead_nil : NoSignHead [] := by intro c h; simp at h

theorem noSignHead_digs_append {a b : List Char} (ha : Digs a) (hne : a ≠ []) : NoSignHead (a ++ b) := by
  cases a with
  | nil => exact absurd rfl hne
  | cons c t => exact noSignHead_of_dig (ha c (by simp))

/-! #### exponent -/

theorem scanExp_sound {strict : Bool} {l r : List Char} {e : Option ExpPart} (h : scanExp strict l = (e, r)) :
    l = expText e ++ r ∧ ∀ e', e = some e' → ExpWF strict e' := by
  cases l with
  | nil => simp [scanExp] at h; obtain ⟨h1, h2⟩ := h; subst h1 h2; simp [expText]
  | cons c cs =>
    unfold scanExp at h
    by_cases hc : c = 'e' ∨ (c = 'E' ∧ strict = false)
    · simp only [hc, if_true] at h
      generalize hsr : scanSign cs = sr at h
      obtain ⟨sg, r0⟩ := sr
      have hs := scanSign_sound hsr
      dsimp only at h
      by_cases hok : (r0.takeWhile isDig ≠ [] ∧ (strict = true → sg ≠ .none))
      · rw [if_pos hok] at h
        simp at h
        obtain ⟨h1, h2⟩ := h
        subst h1 h2
        constructor
        · simp only [expText, ExpPart.text]
          have hE : (if decide (c = 'E') = true then 'E' else 'e') = c := by
            rcases hc with hc | hc
            · subst hc; decide
            · rw [hc.1]; decide
          rw [hE, hs]
          simp [List.takeWhile_append_dropWhile]
        · intro e' he'
          simp at he'
          subst he'
          refine ⟨fun c hc => mem_takeWhile_imp c hc, hok.1, ?_⟩
          intro hst
          refine ⟨?_, hok.2 hst⟩
          rcases hc with hc | hc
          · subst hc; simp
          · rw [hst] at hc; simp at hc
      · rw [if_neg hok] at h
        simp at h
        obtain ⟨h1, h2⟩ := h
        subst h1 h2
        simp [expText]
    · simp only [hc, if_false] at h
      simp at h
      obtain ⟨h1, h2⟩ := h
      subst h1 h2
      simp [expText]

theorem scanExp_nil (strict : Bool) : scanExp strict [] = (none, []) := rfl

theorem scanExp_text {strict : Bool} {e : ExpPart} (h : ExpWF strict e) : scanExp strict e.text = (some e, []) := by
  obtain ⟨upper, sign, digits⟩ := e
  obtain ⟨hd, hne, hst⟩ := h
  simp only at hd hne hst
  have hsign : scanSign (sign.text ++ digits) = (sign, digits) := by
    have := scanSign_text sign (rest := digits ++ []) (noSignHead_digs_append hd hne)
    simpa using this
  have htw : digits.takeWhile isDig = digits := takeWhile_all hd
  have hdw : digits.dropWhile isDig = [] := dropWhile_all hd
  unfold scanExp ExpPart.text
  cases upper with
  | true =>
    have hs : strict = false := by
      cases strict with
      | false => rfl
      | true => have := (hst rfl).1; simp at this
    simp [hs, hsign, htw, hdw, hne]
  | false =>
    simp [hsign, htw, hdw, hne]
    intro hs
    exact (hst hs).2

/-! #### fraction -/

theorem scanFrac_sound {l r : List Char} {f : Option (List Char)} (h : scanFrac l = (f, r)) :
    l = fracText f ++ r ∧ ∀ fp, f = some fp → Digs fp := by
  cases l with
  | nil => simp [scanFrac] at h; obtain ⟨h1, h2⟩ := h; subst h1 h2; simp [fracText]
  | cons c cs =>
    unfold scanFrac at h
    by_cases hc : c = '.'
    · simp [hc] at h
      obtain ⟨h1, h2⟩ := h
      subst h1 h2
      refine ⟨by simp [fracText, hc, List.takeWhile_append_dropWhile], ?_⟩
      intro fp hfp; simp at hfp; subst hfp
      exact fun c hc => mem_takeWhile_imp c hc
    · simp [hc] at h
      obtain ⟨h1, h2⟩ := h
      subst h1 h2
      simp [fracText]

theorem stops_expText (e : Option ExpPart) : Stops isDig (expText e) := by
  cases e with
  | none => exact stops_nil _
  | some e =>
    simp only [expText, ExpPart.text]
    cases e.upper with
    | true => exact stops_cons isDig_E
    | false => exact stops_cons isDig_e

theorem scanFrac_text {f : Option (List Char)} (hf : ∀ fp, f = some fp → Digs fp) (e : Option ExpPart) :
    scanFrac (fracText f ++ expText e) = (f, expText e) := by
  cases f with
  | some fp =>
    have hd := hf fp rfl
    simp [fracText, scanFrac, takeWhile_append_stop hd (stops_expText e), dropWhile_append_stop hd (stops_expText e)]
  | none =>
    cases e with
    | none => simp [fracText, expText, scanFrac]
    | some e =>
      simp only [fracText, expText, ExpPart.text, List.nil_append]
      cases e.upper with
      | true => simp [scanFrac]
      | false => simp [scanFrac]

theorem stops_frac_exp (f : Option (List Char)) (e : Option ExpPart) : Stops isDig (fracText f ++ expText e) := by
  cases f with
  | some fp => simp only [fracText]; exact stops_cons isDig_dot
  | none => simpa [fracText] using stops_expText e

/-! #### whole literal -/

theorem scanTok_sound {strict : Bool} {l r : List Char} {t : Tok} (h : scanTok strict l = some (t, r)) :
    l = t.text ++ r ∧ TokWF strict t := by
  unfold scanTok at h
  generalize hsr : scanSign l = sr at h
  obtain ⟨sg, r0⟩ := sr
  have hs := scanSign_sound hsr
  simp only at h
  generalize hfr : scanFrac (r0.dropWhile isDig) = fr at h
  obtain ⟨f, r1⟩ := fr
  obtain ⟨hf1, hf2⟩ := scanFrac_sound hfr
  simp only at h
  by_cases hbad : r0.takeWhile isDig = [] ∧ (strict = true ∨ f.getD [] = [])
  · simp [hbad] at h
  · simp only [hbad, if_false] at h
    generalize her : scanExp strict r1 = er at h
    obtain ⟨e, r2⟩ := er
    obtain ⟨he1, he2⟩ := scanExp_sound her
    simp at h
    obtain ⟨h1, h2⟩ := h
    subst h1 h2
    constructor
    · simp only [Tok.text]
      have e1 : r0 = r0.takeWhile isDig ++ (fracText f ++ (expText e ++ r2)) := by
        conv => lhs; rw [← List.takeWhile_append_dropWhile (p := isDig) (l := r0)]
        rw [hf1, he1]
      rw [hs]
      conv => lhs; rw [e1]
      simp [List.append_assoc]
    · refine ⟨fun c hc => mem_takeWhile_imp c hc, hf2, ?_, he2⟩
      by_cases hip : r0.takeWhile isDig = []
      · right
        have hb : ¬ (strict = true ∨ f.getD [] = []) := fun hh => hbad ⟨hip, hh⟩
        have hst : strict = false := by
          cases strict with
          | false => rfl
          | true => exact absurd (Or.inl rfl) hb
        refine ⟨hst, ?_⟩
        cases f with
        | none => exact absurd (Or.inr rfl) hb
        | some fp => exact ⟨fp, rfl, fun hfp => hb (Or.inr (by simp [hfp]))⟩
      · exact Or.inl hip

theorem noSignHead_body {strict : Bool} {t : Tok} (h : TokWF strict t) :
    NoSignHead (t.ip ++ (fracText t.frac ++ expText t.exp)) := by
  rcases h.someDigit with hip | ⟨_, fp, hfp, _⟩
  · exact noSignHead_digs_append h.ip hip
  · cases hi : t.ip with
    | cons c r => exact noSignHead_digs_append (hi ▸ h.ip) (by simp [hi])
    | nil =>
      simp only [hfp, fracText, List.nil_append]
      intro d hd; simp at hd; subst hd; decide

/-- a well-formed literal is exactly what the scanner reads back from its text -/
theorem scanTok_text {strict : Bool} {t : Tok} (h : TokWF strict t) : scanTok strict t.text = some (t, []) := by
  obtain ⟨sign, ip, frac, exp⟩ := t
  have hsign := scanSign_text sign (noSignHead_body h)
  have hip : Digs ip := h.ip
  have htw := takeWhile_append_stop hip (stops_frac_exp frac exp)
  have hdw := dropWhile_append_stop hip (stops_frac_exp frac exp)
  have hfr := scanFrac_text h.fp exp
  have hex : scanExp strict (expText exp) = (exp, []) := by
    cases exp with
    | none => rfl
    | some e => simpa [expText] using scanExp_text (h.exp e rfl)
  unfold scanTok Tok.text
  simp only at hsign htw hdw hfr ⊢
  rw [hsign]
  simp only [htw, hdw, hfr, hex]
  have hgood : ¬ (ip = [] ∧ (strict = true ∨ frac.getD [] = [])) := by
    rintro ⟨h1, h2⟩
    rcases h.someDigit with hh | ⟨hs, fp, hfp, hne⟩
    · exact hh h1
    · rcases h2 with h2 | h2
      · simp [hs] at h2
      · simp only at hfp; subst hfp; exact hne (by simpa using h2)
  simp [hgood]


/-! ### values -/

theorem digVal_zero : digVal '0' = 0 := by decide

theorem foldl_zeros (k a : Nat) : (List.replicate k '0').foldl (fun a c => a * 10 + digVal c) a = a * 10 ^ k := by
  induction k generalizing a with
  | zero => simp
  | succ k ih => simp [List.replicate_succ, ih, digVal_zero, Nat.pow_succ, Nat.mul_assoc, Nat.mul_comm 10]

theorem natOf_zeros (k : Nat) : natOf (List.replicate k '0') = 0 := by
  simp [natOf, foldl_zeros]

theorem fracVal_zeros (k : Nat) : fracVal (some (List.replicate k '0')) = 0 := by
  simp only [fracVal, natOf_zeros]
  grind

theorem fracVal_none : fracVal none = 0 := rfl

/-- dropping an all-zero fraction does not change the value -/
theorem val_drop_zero_frac (sign : Sign) (ip : List Char) (k : Nat) (exp : Option ExpPart) :
    Tok.val ⟨sign, ip, some (List.replicate k '0'), exp⟩ = Tok.val ⟨sign, ip, none, exp⟩ := by
  simp only [Tok.val, fracVal_zeros, fracVal_none]

/-! ### ASCII shape of a literal's text -/

/-- characters a decimal literal with ASCII digits is made of -/
def numChar (c : Char) : Bool := isAsciiDigit c || c == '+' || c == '-' || c == '.' || c == 'e' || c == 'E'

def AsciiDigs (l : List Char) : Prop := ∀ c ∈ l, isAsciiDigit c = true

structure TokAscii (t : Tok) : Prop where
  ip : AsciiDigs t.ip
  fp : ∀ fp, t.frac = some fp → AsciiDigs fp
  ex : ∀ e, t.exp = some e → AsciiDigs e.digits

theorem isDig_of_ascii {c : Char} (h : isAsciiDigit c = true) : isDig c = true := by
  simp [isDig, decDigit?, h]

theorem ascii_of_isDig {c : Char} (h : isDig c = true) (ha : c.toNat < 128) : isAsciiDigit c = true := by
  unfold isDig decDigit? at h
  by_cases h1 : isAsciiDigit c = true
  · exact h1
  · simp [h1, ha] at h

theorem digs_of_ascii {l : List Char} (h : AsciiDigs l) : Digs l := fun c hc => isDig_of_ascii (h c hc)

theorem numChar_of_ascii {c : Char} (h : isAsciiDigit c = true) : numChar c = true := by simp [numChar, h]

theorem numChar_lt {c : Char} (h : numChar c = true) : c.toNat < 128 := by
  simp only [numChar, Bool.or_eq_true, beq_iff_eq] at h
  rcases h with ((((h | h) | h) | h) | h) | h
  · simp [isAsciiDigit] at h; omega
  all_goals (subst h; decide)

theorem numChar_not_space {c : Char} (h : numChar c = true) : isPySpace c = false := by
  simp only [numChar, Bool.or_eq_true, beq_iff_eq] at h
  rcases h with ((((h | h) | h) | h) | h) | h
  · simp [isAsciiDigit] at h; simp [isPySpace]; omega
  all_goals (subst h; decide)

theorem numChar_not_us {c : Char} (h : numChar c = true) : c ≠ '_' := by
  intro e; subst e; revert h; decide

theorem numChars_sign (s : Sign) : ∀ c ∈ s.text, numChar c = true := by
  cases s <;> simp [Sign.text] <;> decide

theorem numChars_text {t : Tok} (h : TokAscii t) : ∀ c ∈ t.text, numChar c = true := by
  obtain ⟨sign, ip, frac, exp⟩ := t
  intro c hc
  simp only [Tok.text, List.mem_append] at hc
  rcases hc with hc | hc | hc | hc
  · exact numChars_sign _ c hc
  · exact numChar_of_ascii (h.ip c hc)
  · cases frac with
    | none => simp [fracText] at hc
    | some fp =>
      simp [fracText] at hc
      rcases hc with hc | hc
      · subst hc; decide
      · exact numChar_of_ascii (h.fp fp rfl c hc)
  · cases exp with
    | none => simp [expText] at hc
    | some e =>
      simp [expText, ExpPart.text] at hc
      rcases hc with hc | hc | hc
      · subst hc; cases e.upper <;> decide
      · exact numChars_sign _ c hc
      · exact numChar_of_ascii (h.ex e rfl c hc)

/-! ### `float()` on clean ASCII literal text -/

theorem pyTransform_ascii {l : List Char} (h : ∀ c ∈ l, c.toNat < 128) : pyTransform l = some l := by
  induction l with
  | nil => rfl
  | cons c cs ih =>
    have hc := h c (by simp)
    simp [pyTransform, hc, ih (fun d hd => h d (by simp [hd]))]

theorem trimPy_no_space {l : List Char} (h : ∀ c ∈ l, isPySpace c = false) : trimPy l = l := by
  unfold trimPy
  rw [dropWhile_none h, dropWhile_none (fun c hc => h c (by simpa using hc))]
  simp

theorem dropUnderscores_none {l : List Char} (h : ∀ c ∈ l, c ≠ '_') (prev : Char) (hp : prev ≠ '_') :
    dropUnderscores prev l = some l := by
  induction l generalizing prev with
  | nil => simp [dropUnderscores, hp]
  | cons c cs ih =>
    have hc := h c (by simp)
    simp [dropUnderscores, hc, hp, ih (fun d hd => h d (by simp [hd])) c hc]

theorem lowerAscii_of_numChar {c : Char} (h : isDig c = true ∨ c = '.') : lowerAscii c ≠ 'i' ∧ lowerAscii c ≠ 'n' := by
  have hlow : lowerAscii c = c := by
    unfold lowerAscii
    by_cases hu : 65 ≤ c.toNat ∧ c.toNat ≤ 90
    · exfalso
      rcases h with h | h
      · have := ascii_of_isDig h (by omega)
        simp [isAsciiDigit] at this; omega
      · subst h; revert hu; decide
    · simp [hu]
  rw [hlow]
  constructor
  · intro e; subst e; revert h; decide
  · intro e; subst e; revert h; decide

theorem parseInfNan_text {strict : Bool} {t : Tok} (h : TokWF strict t) : parseInfNan t.text = none := by
  have hsign := scanSign_text t.sign (noSignHead_body h)
  unfold parseInfNan
  simp only [Tok.text, hsign]
  -- the word after the sign starts with a digit or a point
  have hhead : ∃ c r, t.ip ++ (fracText t.frac ++ expText t.exp) = c :: r ∧ (isDig c = true ∨ c = '.') := by
    rcases h.someDigit with hip | ⟨_, fp, hfp, _⟩
    · cases hi : t.ip with
      | nil => exact absurd hi hip
      | cons c r => exact ⟨c, r ++ (fracText t.frac ++ expText t.exp), by simp, Or.inl (h.ip c (by simp [hi]))⟩
    · cases hi : t.ip with
      | cons c r => exact ⟨c, r ++ (fracText t.frac ++ expText t.exp), by simp, Or.inl (h.ip c (by simp [hi]))⟩
      | nil => exact ⟨'.', fp ++ expText t.exp, by simp [hfp, fracText], Or.inr rfl⟩
  obtain ⟨c, r, hcr, hc⟩ := hhead
  obtain ⟨hi, hn⟩ := lowerAscii_of_numChar hc
  rw [hcr]
  simp [hi, hn]

/-- On the text of a literal with ASCII digits `float()` sees exactly that literal. -/
theorem floatText_text {strict : Bool} {t : Tok} (h : TokWF strict t) (hs : TokWF false t) (ha : TokAscii t) :
    floatText (String.ofList t.text) = some (.fin t.val) := by
  have hn := numChars_text ha
  have h1 : pyTransform t.text = some t.text := pyTransform_ascii (fun c hc => numChar_lt (hn c hc))
  have h2 : trimPy t.text = t.text := trimPy_no_space (fun c hc => numChar_not_space (hn c hc))
  have h3 : dropUnderscores (Char.ofNat 0) t.text = some t.text :=
    dropUnderscores_none (fun c hc => numChar_not_us (hn c hc)) _ (by decide)
  simp [floatText, floatBody, String.toList_ofList, h1, h2, h3, floatLitOfBody, parseInfNan_text hs, scanTok_text hs]

theorem tokWF_weaken {t : Tok} (h : TokWF true t) : TokWF false t := by
  refine ⟨h.ip, h.fp, ?_, ?_⟩
  · rcases h.someDigit with hh | ⟨hh, _⟩
    · exact Or.inl hh
    · simp at hh
  · intro e he
    have := h.exp e he
    exact ⟨this.digs, this.ne, by simp⟩

theorem decValL_text {t : Tok} (h : TokWF false t) : decValL t.text = some t.val := by
  simp [decValL, scanTok_text h]



/-! ### what `IsRepr` says -/

theorem repr_tok {l : List Char} (h : isReprL l = true) : ∃ t, l = t.text ∧ TokWF false t ∧ t.reprShape = true := by
  unfold isReprL at h
  cases hs : scanTok false l with
  | none => simp [hs] at h
  | some p =>
    obtain ⟨t, r⟩ := p
    cases r with
    | cons c cs => simp [hs] at h
    | nil =>
      simp [hs] at h
      obtain ⟨h1, h2⟩ := scanTok_sound hs
      exact ⟨t, by simpa using h1, h2, h⟩

theorem allAscii_iff {l : List Char} : allAscii l = true ↔ AsciiDigs l := by
  simp [allAscii, AsciiDigs, List.all_eq_true]

structure ReprFacts (t : Tok) : Prop where
  noPlus : t.sign ≠ .plus
  ip : AsciiDigs t.ip
  ipNe : t.ip ≠ []
  fp : ∀ fp, t.frac = some fp → AsciiDigs fp ∧ fp ≠ []
  fixed : t.exp = none → t.frac ≠ none
  sci : ∀ e, t.exp = some e → t.ip.length = 1 ∧ e.upper = false ∧ e.sign ≠ .none ∧ AsciiDigs e.digits ∧ 2 ≤ e.digits.length

theorem reprFacts {t : Tok} (h : t.reprShape = true) : ReprFacts t := by
  obtain ⟨sign, ip, frac, exp⟩ := t
  simp only [Tok.reprShape, Bool.and_eq_true, bne_iff_ne, ne_eq, allAscii_iff] at h
  obtain ⟨⟨⟨⟨h1, h2⟩, h3⟩, h4⟩, h5⟩ := h
  refine ⟨h1, h2, h3, ?_, ?_, ?_⟩
  · intro fp hfp
    simp only at hfp; subst hfp
    simpa [allAscii_iff] using h4
  · intro he; simp only at he; subst he; simpa using h5
  · intro e he
    simp only at he; subst he
    simpa [allAscii_iff, and_assoc] using h5

theorem dot_not_ascii {l : List Char} (h : AsciiDigs l) : '.' ∉ l := by
  intro hm; have := h _ hm; revert this; decide

theorem dot_not_sign (s : Sign) : '.' ∉ s.text := by cases s <;> simp [Sign.text]

theorem ascii_ne {c : Char} (h : isAsciiDigit c = true) : c ≠ '\n' ∧ c ≠ '.' := by
  constructor <;> (intro e; subst e; revert h; decide)

theorem tokAscii_of_repr {t : Tok} (f : ReprFacts t) : TokAscii t :=
  ⟨f.ip, fun fp h => (f.fp fp h).1, fun e h => (f.sci e h).2.2.2.1⟩

/-- The clean-up on a `repr`-shaped literal: the result is again a literal, with the same value; it is either the same literal
or (no exponent, all-zero fraction) the literal without its fraction. -/
theorem strip_tok {t : Tok} (hw : TokWF false t) (hr : t.reprShape = true) :
    ∃ t', stripL t.text = t'.text ∧ TokWF true t' ∧ TokAscii t' ∧ t'.val = t.val ∧ t'.sign = t.sign ∧
      (t' = t ∨ (t.exp = none ∧ t'.frac = none ∧ ∃ k, t.frac = some (List.replicate k '0'))) := by
  have f := reprFacts hr
  obtain ⟨sign, ip, frac, exp⟩ := t
  have hip : Digs ip := digs_of_ascii f.ip
  cases exp with
  | some e =>
    obtain ⟨_, hup, hsg, hed, hel⟩ := f.sci e rfl
    refine ⟨⟨sign, ip, frac, some e⟩, ?_, ?_, tokAscii_of_repr f, rfl, rfl, Or.inl rfl⟩
    · have htext : Tok.text ⟨sign, ip, frac, some e⟩ = (sign.text ++ (ip ++ fracText frac)) ++ 'e' :: (e.sign.text ++ e.digits) := by
        simp [Tok.text, expText, ExpPart.text, hup]
      rw [htext]
      apply stripL_noop (by decide) (by decide) (by decide)
      simp only [List.mem_append, not_or]
      exact ⟨dot_not_sign _, dot_not_ascii hed⟩
    · refine ⟨hip, fun fp h => digs_of_ascii (f.fp fp h).1, Or.inl f.ipNe, ?_⟩
      intro e' he'
      simp only [Option.some.injEq] at he'; subst he'
      exact ⟨digs_of_ascii hed, by intro h0; simp [h0] at hel, fun _ => ⟨hup, hsg⟩⟩
  | none =>
    cases frac with
    | none => exact absurd rfl (f.fixed rfl)
    | some fp =>
      obtain ⟨hfa, hfne⟩ := f.fp fp rfl
      by_cases hz : ∀ c ∈ fp, c = '0'
      · have hrep : fp = List.replicate fp.length '0' := List.eq_replicate_iff.mpr ⟨rfl, hz⟩
        refine ⟨⟨sign, ip, none, none⟩, ?_, ?_, ⟨f.ip, by simp, by simp⟩, ?_, rfl, Or.inr ⟨rfl, rfl, fp.length, by rw [← hrep]⟩⟩
        · have htext : Tok.text ⟨sign, ip, some fp, none⟩ = (sign.text ++ ip) ++ '.' :: List.replicate fp.length '0' := by
            rw [← hrep]; simp [Tok.text, expText, fracText]
          rw [htext, stripL_trailing_zeros]
          · simp [Tok.text, expText, fracText]
          · simp only [List.mem_append, not_or]; exact ⟨dot_not_sign _, dot_not_ascii f.ip⟩
        · exact ⟨hip, by simp, Or.inl f.ipNe, by simp⟩
        · rw [hrep]; exact (val_drop_zero_frac sign ip fp.length none).symm
      · have : ∃ c ∈ fp, c ≠ '0' := by
          apply Classical.byContradiction
          intro hno
          apply hz
          intro c hc
          apply Classical.byContradiction
          intro hc0
          exact hno ⟨c, hc, hc0⟩
        obtain ⟨c, hc, hc0⟩ := this
        obtain ⟨a, b, hab⟩ := List.append_of_mem hc
        refine ⟨⟨sign, ip, some fp, none⟩, ?_, ?_, tokAscii_of_repr f, rfl, rfl, Or.inl rfl⟩
        · have htext : Tok.text ⟨sign, ip, some fp, none⟩ = (sign.text ++ (ip ++ '.' :: a)) ++ c :: b := by
            simp [Tok.text, expText, fracText, hab]
          rw [htext]
          have hca := hfa c hc
          apply stripL_noop hc0 (ascii_ne hca).1 (ascii_ne hca).2
          apply dot_not_ascii
          intro d hd; exact hfa d (by simp [hab, hd])
        · exact ⟨hip, fun fp' h => by simp at h; subst h; exact digs_of_ascii hfa, Or.inl f.ipNe, by simp⟩



/-! ### `str(int)` -/

theorem natOf_foldl (l : List Char) (x : Nat) :
    l.foldl (fun a c => a * 10 + digVal c) x = x * 10 ^ l.length + natOf l := by
  induction l generalizing x with
  | nil => simp [natOf]
  | cons c cs ih =>
    simp only [List.foldl_cons, natOf, List.length_cons]
    rw [ih, ih (0 * 10 + digVal c)]
    simp [Nat.pow_succ]
    grind

theorem natOf_cons (c : Char) (l : List Char) : natOf (c :: l) = digVal c * 10 ^ l.length + natOf l := by
  simp only [natOf, List.foldl_cons]
  rw [natOf_foldl]
  simp [natOf]

theorem digVal_digitChar : ∀ d, d < 10 → digVal (Char.ofNat (48 + d)) = d := by decide

theorem ascii_digitChar : ∀ d, d < 10 → isAsciiDigit (Char.ofNat (48 + d)) = true := by decide

theorem natOf_natStrAux (fuel : Nat) : ∀ n acc, n < fuel →
    natOf (natStrAux fuel n acc) = n * 10 ^ acc.length + natOf acc := by
  induction fuel with
  | zero => intro n acc h; omega
  | succ f ih =>
    intro n acc h
    unfold natStrAux
    simp only
    have hd : digVal (Char.ofNat (48 + n % 10)) = n % 10 := digVal_digitChar _ (Nat.mod_lt _ (by decide))
    by_cases hn : n < 10
    · simp only [hn, if_true]
      rw [natOf_cons, hd, Nat.mod_eq_of_lt hn]
    · simp only [hn, if_false]
      rw [ih (n / 10) _ (by omega), natOf_cons, hd]
      simp only [List.length_cons, Nat.pow_succ]
      have := Nat.div_add_mod n 10
      generalize 10 ^ acc.length = P at *
      generalize n / 10 = a at *
      generalize n % 10 = b at *
      subst this
      grind

theorem natOf_natStr (n : Nat) : natOf (natStr n) = n := by
  have := natOf_natStrAux (n + 1) n [] (by omega)
  simpa [natStr, natOf] using this

theorem ascii_natStrAux (fuel : Nat) : ∀ n acc, AsciiDigs acc → AsciiDigs (natStrAux fuel n acc) := by
  induction fuel with
  | zero => intro n acc h; exact h
  | succ f ih =>
    intro n acc h
    unfold natStrAux
    simp only
    have hacc : AsciiDigs (Char.ofNat (48 + n % 10) :: acc) := by
      intro c hc
      simp at hc
      rcases hc with hc | hc
      · subst hc; exact ascii_digitChar _ (Nat.mod_lt _ (by decide))
      · exact h c hc
    by_cases hn : n < 10
    · simpa [hn] using hacc
    · simp only [hn, if_false]; exact ih _ _ hacc

theorem ascii_natStr (n : Nat) : AsciiDigs (natStr n) := ascii_natStrAux _ _ _ (by intro c hc; simp at hc)

theorem natStrAux_ne_nil (fuel n : Nat) (acc : List Char) (h : 0 < fuel) : natStrAux fuel n acc ≠ [] := by
  induction fuel generalizing n acc with
  | zero => omega
  | succ f ih =>
    unfold natStrAux
    simp only
    by_cases hn : n < 10
    · simp [hn]
    · simp only [hn, if_false]
      cases f with
      | zero => simp [natStrAux]
      | succ f' => exact ih _ _ (by omega)

theorem natStr_ne_nil (n : Nat) : natStr n ≠ [] := natStrAux_ne_nil _ _ _ (by omega)

/-! ### `int(text, base)`: what the digit loop accepts -/

/-- digits below the base, single underscores allowed between two digits -/
inductive IntBody (base : Nat) : List Char → List Nat → Prop
  | one (c : Char) (d : Nat) : intDigit? c = some d → d < base → IntBody base [c] [d]
  | dig (c : Char) (d : Nat) (rest : List Char) (ds : List Nat) :
      intDigit? c = some d → d < base → IntBody base rest ds → IntBody base (c :: rest) (d :: ds)
  | sep (c : Char) (d : Nat) (rest : List Char) (ds : List Nat) :
      intDigit? c = some d → d < base → IntBody base rest ds → IntBody base (c :: '_' :: rest) (d :: ds)

theorem intDigit_us : intDigit? '_' = none := by decide

theorem intScan_sound (base : Nat) : ∀ (l : List Char) (prev : Char) (ds : List Nat), intScan base prev l = some ds →
    (if l.head? = some '_' then prev ≠ '_' ∧ IntBody base l.tail ds
     else (l = [] ∧ ds = [] ∧ prev ≠ '_') ∨ IntBody base l ds) := by
  intro l
  induction l with
  | nil =>
    intro prev ds h
    simp [intScan] at h
    simp [h.1, h.2]
  | cons c cs ih =>
    intro prev ds h
    unfold intScan at h
    by_cases hc : c = '_'
    · subst hc
      simp only [if_true] at h
      by_cases hp : prev = '_'
      · simp [hp] at h
      · simp only [hp, if_false] at h
        have := ih '_' ds h
        simp only [List.head?_cons, if_true, List.tail_cons]
        refine ⟨hp, ?_⟩
        by_cases hh : cs.head? = some '_'
        · simp [hh] at this
        · simp only [hh, if_false] at this
          rcases this with ⟨_, _, h3⟩ | h3
          · exact absurd rfl h3
          · exact h3
    · simp only [hc, if_false] at h
      have hhead : ¬ ((c :: cs).head? = some '_') := by simp [hc]
      simp only [hhead, if_false]
      right
      cases hd : intDigit? c with
      | none => simp [hd] at h
      | some d =>
        simp only [hd] at h
        by_cases hlt : d < base
        · simp only [hlt, if_true] at h
          cases hr : intScan base c cs with
          | none => simp [hr] at h
          | some ds' =>
            simp [hr] at h
            subst h
            have := ih c ds' hr
            by_cases hh : cs.head? = some '_'
            · simp only [hh, if_true] at this
              cases cs with
              | nil => simp at hh
              | cons x xs =>
                simp at hh; subst hh
                exact IntBody.sep c d xs ds' hd hlt this.2
            · simp only [hh, if_false] at this
              rcases this with ⟨h1, h2, _⟩ | h3
              · subst h1 h2; exact IntBody.one c d hd hlt
              · exact IntBody.dig c d cs ds' hd hlt h3
        · simp [hlt] at h

end C13
