import BareModel.LibMore
import BareProofs.C11

/-!
# C15More — bridge between the heap comparison `Lib.vcmp` and the tree comparison `Compare.valueCompare` of C11

`reify n h v` reads a heap value back as a closed tree value (`Compare.PValue`), `none` when a reference is dangling, an object has
a duplicate key, or the nesting exceeds `n`.  `vcmp_reify`: on values that read back, the heap comparison with the same fuel *is*
the C11 comparison of the trees.  All order laws of C11 (`valueCompare_isPre`) therefore hold for the heap comparison on such
values.  Also: generic facts about `Compare.sortBy` under a map.
-/

namespace C15More
open Lib LibMore Compare

/-! ## reading a heap value back as a tree -/

def reify : Nat → Heap → Value → Option PValue
  | 0, _, _ => none
  | n + 1, h, v =>
    match v with
    | .null => some .null
    | .bool b => some (.bool b)
    | .num q => some (.num q)
    | .str s => some (.str s)
    | .dt ms => some (.dt ms)
    | .fn i => some (.fn i)
    | .regex i => some (.regex i)
    | .arr r =>
      (match getArr h r with
      | some xs => (xs.mapM (reify n h)).map .arr
      | none => none)
    | .obj r =>
      (match getObj h r with
      | some kvs =>
        if (kvs.map (·.1)).Nodup then (kvs.mapM (fun p => (reify n h p.2).map (fun t => (p.1, t)))).map .obj else none
      | none => none)

/-! ## primitive comparisons agree -/

theorem strCmp_codeCmp : ∀ a b : List Char, strCmp a b = codeCmp (a.map Char.toNat) (b.map Char.toNat)
  | [], [] => rfl
  | [], _ :: _ => rfl
  | _ :: _, [] => rfl
  | a :: as, b :: bs => by
    simp only [strCmp, List.map_cons, codeCmp, strCmp_codeCmp as bs]
    by_cases h1 : a.toNat < b.toNat
    · simp [h1]
    · by_cases h2 : b.toNat < a.toNat
      · have : ¬ a.toNat = b.toNat := by omega
        simp [h1, h2, this]
      · have : a.toNat = b.toNat := by omega
        simp [this]

theorem strCmp_strCompare (s t : String) : strCmp s.toList t.toList = strCompare s t := by
  simp [strCompare, codes, strCmp_codeCmp]

theorem rcmp_tri (x y : Rat) : rcmp x y = tri (x < y) (x = y) := by
  have e1 : rlt x y = decide (x < y) := by simp [rlt, Rat.lt_iff]
  have e2 : rlt y x = decide (y < x) := by simp [rlt, Rat.lt_iff]
  simp only [rcmp, e1, e2, tri, decide_eq_true_eq]
  by_cases h1 : x < y <;> by_cases h2 : y < x <;> by_cases h3 : x = y <;> simp only [h1, h2, h3, if_true, if_false] <;> grind

theorem boolCmp_tri (x y : Bool) : (if x = y then (0 : Int) else if x = true then 1 else -1) = tri (!x && y) (x == y) := by
  cases x <;> cases y <;> decide

theorem dtCmp_tri (x y : Int) : (if x < y then (-1 : Int) else if x = y then 0 else 1) = tri (x < y) (x = y) := by
  simp only [tri, decide_eq_true_eq]

/-! ## the two lexicographic loops agree, given agreement on the elements -/

theorem lcmpWith_cmpList (c : Value → Value → Option Int) :
    ∀ (xs ys : List Value) (pxs pys : List PValue), xs.length = pxs.length → ys.length = pys.length →
      (∀ i j (hi : i < xs.length) (hj : j < ys.length) (hi' : i < pxs.length) (hj' : j < pys.length),
        c xs[i] ys[j] = some (valueCompare pxs[i] pys[j])) →
      lcmpWith c xs ys = some (cmpList pxs pys)
  | [], [], [], [], _, _, _ => by simp [lcmpWith, cmpList]
  | [], _ :: _, [], _ :: _, _, _, _ => by simp [lcmpWith, cmpList]
  | _ :: _, [], _ :: _, [], _, _, _ => by simp [lcmpWith, cmpList]
  | x :: xs, y :: ys, px :: pxs, py :: pys, hx, hy, hc => by
    have h0 := hc 0 0 (by simp) (by simp) (by simp) (by simp)
    simp only [List.getElem_cons_zero] at h0
    simp only [lcmpWith, h0, cmpList]
    have ih := lcmpWith_cmpList c xs ys pxs pys (by simpa using hx) (by simpa using hy) (fun i j hi hj hi' hj' => by
      have := hc (i + 1) (j + 1) (by simp; omega) (by simp; omega) (by simp; omega) (by simp; omega)
      simpa using this)
    by_cases hz : valueCompare px py = 0
    · simp [hz, ih]
    · simp [hz]
  | [], _, _ :: _, _, hx, _, _ => by simp at hx
  | _ :: _, _, [], _, hx, _, _ => by simp at hx
  | _, [], _, _ :: _, _, hy, _ => by simp at hy
  | _, _ :: _, _, [], _, hy, _ => by simp at hy

theorem ocmpWith_cmpItems (c : Value → Value → Option Int) :
    ∀ (xs ys : List (String × Value)) (pxs pys : List (String × PValue)), xs.map (·.1) = pxs.map (·.1) → ys.map (·.1) = pys.map (·.1) →
      (∀ i j (hi : i < xs.length) (hj : j < ys.length) (hi' : i < pxs.length) (hj' : j < pys.length),
        c xs[i].2 ys[j].2 = some (valueCompare pxs[i].2 pys[j].2)) →
      ocmpWith c xs ys = some (cmpItems pxs pys)
  | [], [], [], [], _, _, _ => by simp [ocmpWith, cmpItems]
  | [], _ :: _, [], _ :: _, _, _, _ => by simp [ocmpWith, cmpItems]
  | _ :: _, [], _ :: _, [], _, _, _ => by simp [ocmpWith, cmpItems]
  | (k1, v1) :: xs, (k2, v2) :: ys, (k1', p1) :: pxs, (k2', p2) :: pys, hx, hy, hc => by
    simp only [List.map_cons, List.cons.injEq] at hx hy
    obtain ⟨rfl, hx⟩ := hx
    obtain ⟨rfl, hy⟩ := hy
    have h0 := hc 0 0 (by simp) (by simp) (by simp) (by simp)
    simp only [List.getElem_cons_zero] at h0
    simp only [ocmpWith, cmpItems, strCmp_strCompare]
    by_cases hk : strCompare k1 k2 = 0
    · simp only [hk, bne_self_eq_false, Bool.false_eq_true, if_false, h0]
      have ih := ocmpWith_cmpItems c xs ys pxs pys hx hy (fun i j hi hj hi' hj' => by
        have := hc (i + 1) (j + 1) (by simp; omega) (by simp; omega) (by simp; omega) (by simp; omega)
        simpa using this)
      by_cases hz : valueCompare p1 p2 = 0
      · simp [hz, ih]
      · simp [hz]
    · simp [hk]
  | [], _, _ :: _, _, hx, _, _ => by simp at hx
  | _ :: _, _, [], _, hx, _, _ => by simp at hx
  | _, [], _, _ :: _, _, hy, _ => by simp at hy
  | _, _ :: _, _, [], _, hy, _ => by simp at hy

/-! ## `mapM` facts -/

theorem mapM_some_length {α β} (f : α → Option β) : ∀ (xs : List α) (ys : List β), xs.mapM f = some ys → xs.length = ys.length
  | [], ys, h => by simp at h; subst h; rfl
  | x :: xs, ys, h => by
    rw [List.mapM_cons] at h
    cases hx : f x with
    | none => simp [hx] at h
    | some y =>
      cases hr : xs.mapM f with
      | none => simp [hx, hr] at h
      | some r =>
        simp [hx, hr] at h
        subst h
        simp [mapM_some_length f xs r hr]

theorem mapM_some_get {α β} (f : α → Option β) : ∀ (xs : List α) (ys : List β), xs.mapM f = some ys →
    ∀ i (hi : i < xs.length) (hi' : i < ys.length), f xs[i] = some ys[i]
  | [], ys, h, i, hi, _ => by simp at hi
  | x :: xs, ys, h, i, hi, hi' => by
    rw [List.mapM_cons] at h
    cases hx : f x with
    | none => simp [hx] at h
    | some y =>
      cases hr : xs.mapM f with
      | none => simp [hx, hr] at h
      | some r =>
        simp [hx, hr] at h
        subst h
        cases i with
        | zero => simpa using hx
        | succ i => simpa using mapM_some_get f xs r hr i (by simpa using hi) (by simpa using hi')

/-! ## the two key sorts agree (unique keys) -/

/-- `Lib.insertKV` is the generic insertion of `Compare.sortBy` for the key order -/
theorem insertKV_eq (kv : String × Value) (l : List (String × Value)) :
    insertKV kv l = insertBy (fun p q => decide (strCompare p.1 q.1 < 0)) kv l := by
  induction l with
  | nil => rfl
  | cons x xs ih =>
    simp only [insertKV, insertBy, strCmp_strCompare, ih, decide_eq_true_eq]

theorem insertBy_map_key {α β} (g : String × α → String × β) (hg : ∀ p, (g p).1 = p.1) (x : String × α) (ys : List (String × α)) :
    (insertBy (fun p q => decide (strCompare p.1 q.1 < 0)) x ys).map g =
      insertBy (fun p q => decide (strCompare p.1 q.1 < 0)) (g x) (ys.map g) := by
  induction ys with
  | nil => rfl
  | cons y ys ih =>
    simp only [insertBy, List.map_cons, hg]
    split
    · rfl
    · simp [ih]

theorem foldl_insertBy_eq_foldr {α} (lt : α → α → Bool) (xs : List α) :
    xs.foldl (fun acc x => insertBy lt x acc) [] = xs.reverse.foldr (fun x acc => insertBy lt x acc) [] := by
  rw [List.foldr_reverse]

/-- with pairwise different keys, `sorted(d.items())` of the tree model is the image of `Lib.sortKV` -/
theorem sortItems_map_sortKV (g : String × Value → String × PValue) (hg : ∀ p, (g p).1 = p.1) (kvs : List (String × Value))
    (hk : (kvs.map (·.1)).Nodup) : sortItems (kvs.map g) = (sortKV kvs).map g := by
  have hk' : ((kvs.map g).map (·.1)).Nodup := by
    rw [List.map_map]
    have : ((fun x : String × PValue => x.1) ∘ g) = (fun x : String × Value => x.1) := by funext p; exact hg p
    rw [this]; exact hk
  rw [C11.sortItems_canonical (kvs.map g) (kvs.map g).reverse (List.reverse_perm _).symm hk']
  unfold sortItems sortBy
  rw [foldl_insertBy_eq_foldr, List.reverse_reverse]
  unfold sortKV
  induction kvs with
  | nil => rfl
  | cons p ps ih =>
    have hk2 : (ps.map (·.1)).Nodup := by
      simp only [List.map_cons] at hk
      exact (List.nodup_cons.mp hk).2
    have hk2' : ((ps.map g).map (·.1)).Nodup := by
      rw [List.map_map]
      have : ((fun x : String × PValue => x.1) ∘ g) = (fun x : String × Value => x.1) := by funext p; exact hg p
      rw [this]; exact hk2
    simp only [List.map_cons, List.foldr_cons]
    rw [ih hk2 hk2', insertKV_eq, insertBy_map_key g hg]

theorem sortKV_perm (kvs : List (String × Value)) : (sortKV kvs).Perm kvs := by
  unfold sortKV
  induction kvs with
  | nil => exact .refl _
  | cons p ps ih =>
    simp only [List.foldr_cons]
    rw [insertKV_eq]
    exact (insertBy_perm _ _ _).trans (List.Perm.cons p ih)

/-! ## the bridge -/

/-- the tree a value reads back as has the constructor of the value -/
def Shape : Value → PValue → Prop
  | .null, p => p = .null
  | .bool b, p => p = .bool b
  | .num q, p => p = .num q
  | .str s, p => p = .str s
  | .dt ms, p => p = .dt ms
  | .fn i, p => p = .fn i
  | .regex i, p => p = .regex i
  | .arr _, p => ∃ l, p = .arr l
  | .obj _, p => ∃ l, p = .obj l

theorem reify_shape {n h v p} (hv : reify n h v = some p) : Shape v p := by
  cases n with
  | zero => simp [reify] at hv
  | succ n =>
    cases v <;> simp only [reify] at hv
    case null => cases hv; rfl
    case bool => cases hv; rfl
    case num => cases hv; rfl
    case str => cases hv; rfl
    case dt => cases hv; rfl
    case fn => cases hv; rfl
    case regex => cases hv; rfl
    case arr r =>
      split at hv
      · obtain ⟨ys, _, rfl⟩ := Option.map_eq_some_iff.mp hv; exact ⟨ys, rfl⟩
      · cases hv
    case obj r =>
      split at hv
      · split at hv
        · obtain ⟨ys, _, rfl⟩ := Option.map_eq_some_iff.mp hv; exact ⟨ys, rfl⟩
        · cases hv
      · cases hv

/-- the key-preserving total version of the reading-back of one item -/
def gItem (n : Nat) (h : Heap) (p : String × Value) : String × PValue := (p.1, (reify n h p.2).getD .null)

/-- **Bridge.** If both values read back from the heap as trees (within nesting depth `n`), the heap comparison with fuel `n` is
defined and is the C11 comparison of the trees. -/
theorem vcmp_reify : ∀ (n : Nat) (h : Heap) (a b : Value) (pa pb : PValue),
    reify n h a = some pa → reify n h b = some pb → vcmp n h a b = some (valueCompare pa pb)
  | 0, _, _, _, _, _, ha, _ => by simp [reify] at ha
  | n + 1, h, a, b, pa, pb, ha, hb => by
    have sa := reify_shape ha
    have sb := reify_shape hb
    cases a <;> cases b <;> simp only [Shape] at sa sb
    -- 81 pairs: first the ones with a container on both sides, then everything else by computation
    case arr.arr r1 r2 =>
      clear sa sb
      simp only [reify] at ha hb
      cases hx : getArr h r1 with
      | none => simp [hx] at ha
      | some xs =>
        cases hy : getArr h r2 with
        | none => simp [hy] at hb
        | some ys =>
          simp only [hx, hy] at ha hb
          cases hmx : xs.mapM (reify n h) with
          | none => simp [hmx] at ha
          | some pxs =>
            cases hmy : ys.mapM (reify n h) with
            | none => simp [hmy] at hb
            | some pys =>
              simp only [hmx, hmy, Option.map_some, Option.some.injEq] at ha hb
              subst ha hb
              simp only [vcmp, hx, hy, Compare.valueCompare]
              exact lcmpWith_cmpList _ xs ys pxs pys (mapM_some_length _ _ _ hmx) (mapM_some_length _ _ _ hmy)
                (fun i j hi hj hi' hj' =>
                  vcmp_reify n h _ _ _ _ (mapM_some_get _ _ _ hmx i hi hi') (mapM_some_get _ _ _ hmy j hj hj'))
    case obj.obj r1 r2 =>
      clear sa sb
      simp only [reify] at ha hb
      cases hx : getObj h r1 with
      | none => simp [hx] at ha
      | some xs =>
        cases hy : getObj h r2 with
        | none => simp [hy] at hb
        | some ys =>
          simp only [hx, hy] at ha hb
          split at ha
          · rename_i hkx
            split at hb
            · rename_i hky
              cases hmx : xs.mapM (fun p => (reify n h p.2).map (fun t => (p.1, t))) with
              | none => simp [hmx] at ha
              | some pxs =>
                cases hmy : ys.mapM (fun p => (reify n h p.2).map (fun t => (p.1, t))) with
                | none => simp [hmy] at hb
                | some pys =>
                  simp only [hmx, hmy, Option.map_some, Option.some.injEq] at ha hb
                  subst ha hb
                  -- the item lists are images under the total map `gItem`
                  have himg : ∀ (l : List (String × Value)) (pl : List (String × PValue)),
                      l.mapM (fun p => (reify n h p.2).map (fun t => (p.1, t))) = some pl →
                      pl = l.map (gItem n h) ∧ ∀ p ∈ l, reify n h p.2 = some (gItem n h p).2 := by
                    intro l
                    induction l with
                    | nil => intro pl hm; simp at hm; subst hm; exact ⟨rfl, by simp⟩
                    | cons p l ih =>
                      intro pl hm
                      rw [List.mapM_cons] at hm
                      cases hp : reify n h p.2 with
                      | none => simp [hp] at hm
                      | some t =>
                        cases hr : l.mapM (fun p => (reify n h p.2).map (fun t => (p.1, t))) with
                        | none => simp [hp, hr] at hm
                        | some r =>
                          simp [hp, hr] at hm
                          subst hm
                          obtain ⟨e1, e2⟩ := ih r hr
                          refine ⟨by simp [gItem, hp, e1], ?_⟩
                          intro q hq
                          rcases List.mem_cons.mp hq with rfl | hq
                          · simp [gItem, hp]
                          · exact e2 q hq
                  obtain ⟨ex, hxall⟩ := himg xs pxs hmx
                  obtain ⟨ey, hyall⟩ := himg ys pys hmy
                  subst ex ey
                  simp only [vcmp, hx, hy, Compare.valueCompare]
                  rw [sortItems_map_sortKV (gItem n h) (fun _ => rfl) xs hkx,
                    sortItems_map_sortKV (gItem n h) (fun _ => rfl) ys hky]
                  refine ocmpWith_cmpItems _ _ _ _ _ (by simp [List.map_map, Function.comp_def, gItem])
                    (by simp [List.map_map, Function.comp_def, gItem]) (fun i j hi hj hi' hj' => ?_)
                  simp only [List.getElem_map]
                  have hmi : (sortKV xs)[i] ∈ xs := (sortKV_perm xs).mem_iff.mp (List.getElem_mem _)
                  have hmj : (sortKV ys)[j] ∈ ys := (sortKV_perm ys).mem_iff.mp (List.getElem_mem _)
                  exact vcmp_reify n h _ _ _ _ (hxall _ hmi) (hyall _ hmj)
            · cases hb
          · cases ha
    all_goals
      (first | subst sa | (obtain ⟨la, rfl⟩ := sa)) <;> (first | subst sb | (obtain ⟨lb, rfl⟩ := sb)) <;>
        simp [vcmp, Compare.valueCompare, strCmp_strCompare, rcmp_tri, boolCmp_tri, dtCmp_tri, Lib.typeName, Compare.typeName] <;>
        decide

/-- non-vacuity: an array holding an object and an array reads back, and the bridge computes the comparison -/
example : reify 3 [.arr [.obj 1, .arr 2], .obj [("k", numN 1)], .arr []] (.arr 0) =
    some (.arr [.obj [("k", .num 1)], .arr []]) := by rfl

/-! ## `Compare.sortBy` under a map -/

theorem insertBy_map_on {α β} (g : α → β) (lt : α → α → Bool) (lt' : β → β → Bool) (x : α) (ys : List α)
    (hlt : ∀ y ∈ ys, lt' (g x) (g y) = lt x y) : (insertBy lt x ys).map g = insertBy lt' (g x) (ys.map g) := by
  induction ys with
  | nil => rfl
  | cons y ys ih =>
    simp only [insertBy, List.map_cons, hlt y (by simp)]
    split
    · rfl
    · simp [ih (fun z hz => hlt z (by simp [hz]))]

theorem foldl_insertBy_map_on {α β} (g : α → β) (lt : α → α → Bool) (lt' : β → β → Bool) :
    ∀ (xs acc : List α), (∀ a ∈ xs ++ acc, ∀ b ∈ xs ++ acc, lt' (g a) (g b) = lt a b) →
      (xs.foldl (fun acc x => insertBy lt x acc) acc).map g = (xs.map g).foldl (fun acc x => insertBy lt' x acc) (acc.map g)
  | [], acc, _ => rfl
  | x :: xs, acc, hlt => by
    simp only [List.foldl_cons, List.map_cons]
    rw [foldl_insertBy_map_on g lt lt' xs (insertBy lt x acc)]
    · rw [insertBy_map_on g lt lt' x acc (fun y hy => hlt x (by simp) y (by simp [hy]))]
    · intro a ha b hb
      have mem : ∀ z, z ∈ xs ++ insertBy lt x acc → z ∈ x :: xs ++ acc := by
        intro z hz
        rcases List.mem_append.mp hz with hz | hz
        · simp [hz]
        · have := (insertBy_perm lt x acc).mem_iff.mp hz
          rcases List.mem_cons.mp this with rfl | h'
          · simp
          · simp [h']
      exact hlt a (mem a ha) b (mem b hb)

theorem sortBy_map_on {α β} (g : α → β) (lt : α → α → Bool) (lt' : β → β → Bool) (xs : List α)
    (hlt : ∀ a ∈ xs, ∀ b ∈ xs, lt' (g a) (g b) = lt a b) : (sortBy lt xs).map g = sortBy lt' (xs.map g) := by
  unfold sortBy
  simpa using foldl_insertBy_map_on g lt lt' xs [] (by simpa using hlt)

end C15More
