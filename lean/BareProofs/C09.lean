import BareProofs.C08
import BareProofs.C09Good
import BareProofs.C09Fuel
import BareProofs.C09Sim
import BareModel.HostImpl

/-!
# C09 — the statement budget is exact, complete and monotone

The counter `State.count` is incremented and tested at the head of every statement of `execM` exactly like
runtime.py:59-62; the top-level script, script functions however they are invoked (direct calls, call-backs from
library interaction trees) and included scripts all run through `execM` on the one shared `State`.  The theorems
hold for ALL configurations, hosts (library = arbitrary interaction trees), programs, states and fuel.

Lemma files: `C09Good` (progress + bound, one invariant `Good`), `C09Fuel` (fuel monotonicity), `C09Sim` (the limited
run against the unlimited run).  Everything is proved on the cache-free machine `execM₀` and transferred to the mirror
`execM`/`execute` with `C08.cache_transparent`.

* `count_monotone`, `count_monotone_call` — the counter never decreases;
* `started_statement_counts` — a statement that starts within the budget makes the final counter strictly larger;
* `count_le_limit` — with limit `L > 0`: normal end and every error other than the budget error happen with
  `count ≤ L`; the budget error has `count = L + 1` and carries `L` ("aborted exactly when statement L+1 would start");
* `limit_monotone`, `limit_small_aborts`, `exceeded_iff`, `abort_exact` — against the unlimited run (`maxStatements = 0`)
  that completes after `N` statements: `L = 0 ∨ N ≤ L` ⇒ identical outcome; `0 < L < N` ⇒ `Exceeded (L)` at `count = L+1`;
* `limit_prefix` — observable effects of the limited run are a prefix of the unlimited run's: for ANY preorder `E` on
  worlds that the host respects (`HostExt E`), and `limit_prefix_log` for the log of the concrete driver host;
* `own_budget`, `own_budget_states`, `own_budget_session` — `execute` starts the counter itself: a run does not depend on
  the counter an earlier run (or the host) left in the state, so the theorems hold for every run of a session separately;
* `fuel_mono` — fuel is only a termination device: a result reached with fuel `f` is the result for every `f' ≥ f`;
* `no_infinite_run_partial` — see the comment there for what "no script can run forever" means in the model.
-/

open Machine
namespace C09
variable {W : Type}

/-- `cfg` with another statement limit (`options['maxStatements']`) -/
def withMax (cfg : Config W) (m : Nat) : Config W := { cfg with maxStatements := m }

theorem sameBut_withMax (cfg : Config W) (L : Nat) (hL : 0 < L) : SameBut (withMax cfg 0) (withMax cfg L) L :=
  ⟨rfl, rfl, hL, rfl, rfl, rfl, rfl, rfl, rfl⟩

/-- the counter of a final state, if there is one -/
def Res.count? : Res W → Option Nat
  | .done s => some s.count
  | .ret _ s => some s.count
  | .err _ s => some s.count
  | .oof => none

/-! ## the counter never decreases -/

/-- **count_monotone.** Along any run — top level, function body or included script, from any statement index, with
any (valid) label cache — the statement counter of the final state is at least the initial one. -/
theorem count_monotone (cfg : Config W) (fuel : Nat) (P : List Stmt) (locals : Option Env) (base : Option String)
    (cache : Cache) (pc : Nat) (st : State W) (hc : C08.CacheValid P cache) :
    match execM cfg fuel P locals base cache pc st with
    | .done s' => st.count ≤ s'.count
    | .ret _ s' => st.count ≤ s'.count
    | .err _ s' => st.count ≤ s'.count
    | .oof => True := by
  rw [C08.cache_transparent cfg fuel P locals base cache pc st hc]
  have h := (goodM (Ext.triv W) cfg (hostExt_triv _) fuel).2.1 P locals base pc st
  generalize execM₀ cfg fuel P locals base pc st = r at h
  cases r <;> first | exact h.1.1 | trivial

/-- the same for a call of any function value (script function, library function with call-backs, host callable) and
for an include statement -/
theorem count_monotone_call (cfg : Config W) (fuel : Nat) (f : Value) (args : List Value) (st : State W) :
    match callValue cfg fuel f args st with
    | .ok _ s' => st.count ≤ s'.count
    | .err _ s' => st.count ≤ s'.count
    | .oof => True := by
  rw [C08.callValue_eq]
  have h := (goodM (Ext.triv W) cfg (hostExt_triv _) fuel).1 f args st
  generalize callValue₀ cfg fuel f args st = r at h
  cases r <;> first | exact h.1.1 | trivial

theorem count_monotone_include (cfg : Config W) (fuel : Nat) (base : Option String) (incs : List IncludeScript)
    (st : State W) :
    match execIncludes cfg fuel base incs st with
    | .done s' => st.count ≤ s'.count
    | .ret _ s' => st.count ≤ s'.count
    | .err _ s' => st.count ≤ s'.count
    | .oof => True := by
  rw [C08.execIncludes_eq]
  have h := (goodM (Ext.triv W) cfg (hostExt_triv _) fuel).2.2 base incs st
  generalize execIncludes₀ cfg fuel base incs st = r at h
  cases r <;> first | exact h.1.1 | trivial

/-- **started_statement_counts.** A statement that starts within the budget is counted: whatever happens afterwards,
the final counter is at least `count + 1`.  (Along any chain of statement executions the counter strictly increases.) -/
theorem started_statement_counts (cfg : Config W) (fuel : Nat) (P : List Stmt) (locals : Option Env)
    (base : Option String) (pc : Nat) (st : State W) (s : Stmt) (hs : P[pc]? = some s) (hb : C08.BudgetOk cfg st) :
    match execM₀ cfg fuel P locals base pc st with
    | .done s' => st.count + 1 ≤ s'.count
    | .ret _ s' => st.count + 1 ≤ s'.count
    | .err _ s' => st.count + 1 ≤ s'.count
    | .oof => True := by
  have hb' : ¬ ((decide (cfg.maxStatements > 0) && decide (st.count + 1 > cfg.maxStatements)) = true) := by
    unfold C08.BudgetOk at hb; rw [hb]; exact Bool.false_ne_true
  have h := execM₀_tick_good (Ext.triv W) cfg (hostExt_triv _) fuel P locals base pc st s hs hb'
  generalize execM₀ cfg fuel P locals base pc st = r at h
  cases r <;> first | exact h.1.1 | trivial

/-! ## the bound -/

/-- **count_le_limit.** With a positive limit `L`, started from a counter within the budget: a run that ends normally,
or with any error other than the budget error, ends with `count ≤ L` — at most `L` statements started and ran; the
budget error carries `L` and is raised with `count = L + 1`, i.e. exactly when statement `L + 1` would start. -/
theorem count_le_limit (cfg : Config W) (L : Nat) (hL : 0 < L) (hcfg : cfg.maxStatements = L) (fuel : Nat)
    (P : List Stmt) (locals : Option Env) (base : Option String) (cache : Cache) (pc : Nat) (st : State W)
    (hc : C08.CacheValid P cache) (hst : st.count ≤ L) :
    match execM cfg fuel P locals base cache pc st with
    | .done s' => s'.count ≤ L
    | .ret _ s' => s'.count ≤ L
    | .err (.exceeded m) s' => m = L ∧ s'.count = L + 1
    | .err _ s' => s'.count ≤ L
    | .oof => True := by
  rw [C08.cache_transparent cfg fuel P locals base cache pc st hc]
  have h := (goodM (Ext.triv W) cfg (hostExt_triv _) fuel).2.1 P locals base pc st
  rw [hcfg] at h
  generalize execM₀ cfg fuel P locals base pc st = r at h
  cases r with
  | done s' => exact h.2 (fun _ => hst) hL
  | ret v s' => exact h.2 (fun _ => hst) hL
  | oof => trivial
  | err e s' =>
    have := h.2 (fun _ => hst)
    cases e <;> first | exact this hL | exact ⟨this.2.1, this.2.2⟩

/-- the same for `execute_script` (which resets the counter to 0) -/
theorem count_le_limit_execute (cfg : Config W) (L : Nat) (hL : 0 < L) (hcfg : cfg.maxStatements = L) (fuel : Nat)
    (P : List Stmt) (base : Option String) (st : State W) :
    match execute cfg fuel P base st with
    | .done s' => s'.count ≤ L
    | .ret _ s' => s'.count ≤ L
    | .err (.exceeded m) s' => m = L ∧ s'.count = L + 1
    | .err _ s' => s'.count ≤ L
    | .oof => True :=
  count_le_limit cfg L hL hcfg fuel P none base [] 0 { st with count := 0 } (C08.cacheValid_nil P) (Nat.zero_le _)

/-- without a limit (`maxStatements = 0`) the budget error never occurs -/
theorem unlimited_never_exceeds (cfg : Config W) (hcfg : cfg.maxStatements = 0) (fuel : Nat) (P : List Stmt)
    (locals : Option Env) (base : Option String) (pc : Nat) (st s' : State W) (m : Nat) :
    execM₀ cfg fuel P locals base pc st ≠ .err (.exceeded m) s' := by
  intro heq
  have h := (goodM (Ext.triv W) cfg (hostExt_triv _) fuel).2.1 P locals base pc st
  rw [hcfg, heq] at h
  exact absurd (h.2 (fun h0 => absurd h0 (Nat.lt_irrefl 0))).1 (Nat.lt_irrefl 0)

/-! ## limited against unlimited -/

/-- the relation `C09Sim` proves, for `execute_script`: `r0` under no limit, `rL` under `L > 0`, same everything else -/
theorem execute_sim (E : Ext W) (cfg : Config W) (hE : HostExt E cfg.host) (L : Nat) (hL : 0 < L) (fuel : Nat)
    (P : List Stmt) (base : Option String) (st : State W) :
    SimR E L (execute (withMax cfg 0) fuel P base st) (execute (withMax cfg L) fuel P base st) := by
  rw [C08.execute_eq, C08.execute_eq]
  exact (simM E L (withMax cfg 0) (withMax cfg L) hE (sameBut_withMax cfg L hL) fuel).2.1 P none base 0 _ (Nat.zero_le _)

/-- **limit_monotone.** If the unlimited run completes (normally or with an error) after `N` statements, the run
under every limit `L ≥ N` — and under `L = 0` — is identical: same result, same final globals, world and counter. -/
theorem limit_monotone (cfg : Config W) (L : Nat) (fuel : Nat) (P : List Stmt) (base : Option String) (st : State W)
    (N : Nat) (hN : Res.count? (execute (withMax cfg 0) fuel P base st) = some N) (hLN : L = 0 ∨ N ≤ L) :
    execute (withMax cfg L) fuel P base st = execute (withMax cfg 0) fuel P base st := by
  rcases Nat.eq_zero_or_pos L with h0 | hL
  · rw [h0]
  · have hNL : N ≤ L := by rcases hLN with h | h; omega; exact h
    rcases execute_sim (Ext.triv W) cfg (hostExt_triv _) L hL fuel P base st with ⟨heq, _⟩ | ⟨s', _, _, hbey⟩
    · exact heq
    · exfalso
      generalize execute (withMax cfg 0) fuel P base st = r0 at hN hbey
      cases r0 <;> simp only [Res.count?, Option.some.injEq, reduceCtorEq] at hN <;>
        (have := hbey.1; omega)

/-- **limit_small_aborts.** If the unlimited run completes after `N` statements and `0 < L < N`, the run under limit
`L` is aborted with the budget error for `L`, raised with the counter at exactly `L + 1`. -/
theorem limit_small_aborts (cfg : Config W) (L : Nat) (hL : 0 < L) (fuel : Nat) (P : List Stmt) (base : Option String)
    (st : State W) (N : Nat) (hN : Res.count? (execute (withMax cfg 0) fuel P base st) = some N) (hLN : L < N) :
    ∃ s', execute (withMax cfg L) fuel P base st = .err (.exceeded L) s' ∧ s'.count = L + 1 := by
  rcases execute_sim (Ext.triv W) cfg (hostExt_triv _) L hL fuel P base st with ⟨_, hle⟩ | ⟨s', hb, hcnt, _⟩
  · exfalso
    generalize execute (withMax cfg 0) fuel P base st = r0 at hN hle
    cases r0 <;> simp only [Res.count?, Option.some.injEq, reduceCtorEq] at hN <;>
      (have : _ ≤ L := hle; omega)
  · exact ⟨s', Res.eq_of_fin_err hb, hcnt⟩

/-- **exceeded_iff.** For a program whose unlimited run completes after `N` statements: the run under `L > 0` ends with
the budget error iff `N > L`. -/
theorem exceeded_iff (cfg : Config W) (L : Nat) (hL : 0 < L) (fuel : Nat) (P : List Stmt) (base : Option String)
    (st : State W) (N : Nat) (hN : Res.count? (execute (withMax cfg 0) fuel P base st) = some N) :
    (∃ m s', execute (withMax cfg L) fuel P base st = .err (.exceeded m) s') ↔ L < N := by
  constructor
  · rintro ⟨m, s', h⟩
    rcases Nat.lt_or_ge L N with hlt | hge
    · exact hlt
    · exfalso
      rw [limit_monotone cfg L fuel P base st N hN (.inr hge), C08.execute_eq] at h
      exact unlimited_never_exceeds (withMax cfg 0) rfl fuel P none base 0 _ s' m h
  · intro hlt
    obtain ⟨s', h, _⟩ := limit_small_aborts cfg L hL fuel P base st N hN hlt
    exact ⟨L, s', h⟩

/-- **abort_exact.** Both directions in one statement: under limit `L > 0` the outcome is the unlimited outcome if it
needs at most `L` statements, and otherwise the budget error for `L` with the counter at `L + 1`. -/
theorem abort_exact (cfg : Config W) (L : Nat) (hL : 0 < L) (fuel : Nat) (P : List Stmt) (base : Option String)
    (st : State W) (N : Nat) (hN : Res.count? (execute (withMax cfg 0) fuel P base st) = some N) :
    (N ≤ L ∧ execute (withMax cfg L) fuel P base st = execute (withMax cfg 0) fuel P base st) ∨
    (L < N ∧ ∃ s', execute (withMax cfg L) fuel P base st = .err (.exceeded L) s' ∧ s'.count = L + 1) := by
  rcases Nat.lt_or_ge L N with hlt | hge
  · exact .inr ⟨hlt, limit_small_aborts cfg L hL fuel P base st N hN hlt⟩
  · exact .inl ⟨hge, limit_monotone cfg L fuel P base st N hN (.inr hge)⟩

/-- the final world of a run, if there is one -/
def Res.world? : Res W → Option W
  | .done s => some s.world
  | .ret _ s => some s.world
  | .err _ s => some s.world
  | .oof => none

/-- **limit_prefix.** Observable effects of the limited run are a prefix of the unlimited run's.  "Observable effects"
over the abstract world are formulated as ANY preorder `E` on worlds that every host operation only extends
(`HostExt E cfg.host`: the library's interaction trees, `notCallable`, `logFailure`, `newArray`) — e.g. "the log of `w`
is a prefix of the log of `w'`" (`limit_prefix_log` below), "the fetch trace is a prefix", …  For every such `E`: when the
unlimited run completes and the limited run is aborted, the world at the abort is `E`-below the unlimited final world.
(Global writes are not in the world: that the globals at the abort are the unlimited run's globals at that point is
checked on the implementation by harness/props/C09.py, oracle `prefix`.) -/
theorem limit_prefix (E : Ext W) (cfg : Config W) (hE : HostExt E cfg.host) (L : Nat) (hL : 0 < L) (fuel : Nat)
    (P : List Stmt) (base : Option String) (st : State W) (w0 : W)
    (h0 : Res.world? (execute (withMax cfg 0) fuel P base st) = some w0) :
    execute (withMax cfg L) fuel P base st = execute (withMax cfg 0) fuel P base st ∨
    ∃ s', execute (withMax cfg L) fuel P base st = .err (.exceeded L) s' ∧ s'.count = L + 1 ∧ E.le s'.world w0 := by
  rcases execute_sim E cfg hE L hL fuel P base st with ⟨heq, _⟩ | ⟨s', hb, hcnt, hbey⟩
  · exact .inl heq
  · refine .inr ⟨s', Res.eq_of_fin_err hb, hcnt, ?_⟩
    generalize execute (withMax cfg 0) fuel P base st = r0 at h0 hbey
    cases r0 <;> simp only [Res.world?, Option.some.injEq, reduceCtorEq] at h0 <;>
      (rw [← h0]; exact hbey.2)

/-! ## fuel is only a termination device -/

/-- **fuel_mono.** If a run with fuel `f` does not run out of fuel, every larger fuel gives the same result. -/
theorem fuel_mono (cfg : Config W) (f f' : Nat) (hff : f ≤ f') (P : List Stmt) (base : Option String) (st : State W)
    (h : execute cfg f P base st ≠ .oof) : execute cfg f' P base st = execute cfg f P base st := by
  rw [C08.execute_eq, C08.execute_eq] at *
  rcases (fuelMono cfg f f' hff).2.1 P none base 0 { st with count := 0 } with h1 | h1
  · exact absurd h1 h
  · exact h1

theorem fuel_mono_execM (cfg : Config W) (f f' : Nat) (hff : f ≤ f') (P : List Stmt) (locals : Option Env)
    (base : Option String) (pc : Nat) (st : State W) (h : execM₀ cfg f P locals base pc st ≠ .oof) :
    execM₀ cfg f' P locals base pc st = execM₀ cfg f P locals base pc st := by
  rcases (fuelMono cfg f f' hff).2.1 P locals base pc st with h1 | h1
  · exact absurd h1 h
  · exact h1

/-- the limited run never needs more fuel than the unlimited run -/
theorem limited_needs_no_more_fuel (cfg : Config W) (L : Nat) (fuel : Nat) (P : List Stmt) (base : Option String)
    (st : State W) (h : execute (withMax cfg 0) fuel P base st ≠ .oof) :
    execute (withMax cfg L) fuel P base st ≠ .oof := by
  rcases Nat.eq_zero_or_pos L with h0 | hL
  · rw [h0]; exact h
  · rcases execute_sim (Ext.triv W) cfg (hostExt_triv _) L hL fuel P base st with ⟨heq, _⟩ | ⟨s', hb, _, _⟩
    · rw [heq]; exact h
    · rw [Res.eq_of_fin_err hb]; intro h'; cases h'

/-- **no_infinite_run_partial.**
Full statement wanted: for `L > 0`, `∃ fuel, execute (withMax cfg L) fuel P base st ≠ .oof` ("no script can run forever").
This is NOT provable for an arbitrary abstract host: fuel is also consumed by call nesting that starts no statement
(one unit per call level), and a host is free to supply `lib "f" args w = .call (.fn (.lib "f")) args w k` — a library
function whose interaction tree calls the same library function back for ever; no statement ever starts, the counter
never moves, and only the fuel ends that recursion.  (The Python library has no such function; excluding it needs a
well-foundedness hypothesis on the host's trees that the control-flow model deliberately does not have.)
What IS proved, for all hosts: (1) statement starts are bounded — the counter strictly increases over every started
statement (`started_statement_counts`) and a run started within the budget never gets beyond `L + 1`
(`count_le_limit`); in particular a loop can go round at most `L` times; (2) whenever the unlimited run terminates with
some fuel, the limited run terminates with the same fuel (`limited_needs_no_more_fuel`), and more fuel never changes a
result (`fuel_mono`).  This theorem packages (1): every final state of a limited run has `count ≤ L + 1`. -/
theorem no_infinite_run_partial (cfg : Config W) (L : Nat) (hL : 0 < L) (fuel : Nat) (P : List Stmt)
    (base : Option String) (st : State W) (n : Nat)
    (hn : Res.count? (execute (withMax cfg L) fuel P base st) = some n) : n ≤ L + 1 := by
  have h := count_le_limit_execute (withMax cfg L) L hL rfl fuel P base st
  generalize execute (withMax cfg L) fuel P base st = r at h hn
  cases r with
  | done s' => simp only [Res.count?, Option.some.injEq] at hn; simp only at h; omega
  | ret v s' => simp only [Res.count?, Option.some.injEq] at hn; simp only at h; omega
  | oof => simp only [Res.count?, reduceCtorEq] at hn
  | err e s' =>
    simp only [Res.count?, Option.some.injEq] at hn
    cases e <;> simp only at h <;> omega

/-- **unknown_label_exact** (C08 ∩ C09): a taken jump ends the run with `Unknown jump label` *at that statement* — the
error state is the ticked state — iff the list has no such label.  (With the label present, anything that fails later has
started at least one more statement, so its counter is larger.) -/
theorem unknown_label_exact (cfg : Config W) (fuel : Nat) (P : List Stmt) (locals : Option Env) (base : Option String)
    (pc : Nat) (st : State W) (l : Name) (h : P[pc]? = some (.jump l none)) (hb : C08.BudgetOk cfg st) :
    execM₀ cfg (fuel+1) P locals base pc st = .err (.unknownLabel l) (C08.tick st) ↔ ∀ s ∈ P, isLabel l s = false := by
  constructor
  · intro heq
    rw [← C08.unknown_label_iff]
    cases hf : findLabel P l with
    | none => rfl
    | some i =>
      exfalso
      rw [C08.jump_taken cfg fuel P locals base pc st l h hb, hf] at heq
      simp only at heq
      cases hs : P[i+1]? with
      | none => rw [C08.step_end cfg fuel P locals base (i+1) _ hs] at heq; cases heq
      | some s2 =>
        by_cases hb2 : C08.BudgetOk cfg (C08.tick st)
        · have := started_statement_counts cfg fuel P locals base (i+1) (C08.tick st) s2 hs hb2
          rw [heq] at this
          simp only [C08.tick] at this
          omega
        · cases fuel with
          | zero => rw [execM₀.eq_1, hs] at heq; cases heq
          | succ f =>
            rw [C08.step_exceeded cfg f P locals base (i+1) _ s2 hs hb2] at heq
            cases heq
  · intro hno
    exact C08.jump_unknown cfg fuel P locals base pc st l h hb hno

/-! ## every run has its own budget -/

/-- **own_budget.** `execute_script` starts the counter itself (runtime.py:43, `options['statementCount'] = 0`): the run
does not depend on the counter value the state it is given holds — the `statementCount` an earlier run left in the
host's options object, or a value the host put there.  All theorems above are stated for an arbitrary start state, so
they apply to every run of a host session separately. -/
theorem own_budget (cfg : Config W) (fuel : Nat) (P : List Stmt) (base : Option String) (st : State W) (c : Nat) :
    execute cfg fuel P base { st with count := c } = execute cfg fuel P base st := rfl

/-- … so two start states with the same globals and the same world give the same run -/
theorem own_budget_states (cfg : Config W) (fuel : Nat) (P : List Stmt) (base : Option String) (st st' : State W)
    (hg : st.globals = st'.globals) (hw : st.world = st'.world) :
    execute cfg fuel P base st = execute cfg fuel P base st' := by
  cases st; cases st'
  simp only at hg hw
  subst hg hw
  rfl

/-- **own_budget_session.** A run started on what ANY earlier run left behind (`s₁` with its counter — the final state of
a completed, aborted or failed run of another program under another limit) or on a state whose counter the host set to
`c`: if without a limit it completes after `N` statements (counted from 0, whatever `s₁.count` is), then under `L > 0` it
is the unlimited outcome when `N ≤ L` and otherwise the budget error for `L` with the counter at `L + 1`. -/
theorem own_budget_session (cfg : Config W) (L : Nat) (hL : 0 < L) (fuel : Nat) (P : List Stmt) (base : Option String)
    (s₁ : State W) (c : Nat) (N : Nat)
    (hN : Res.count? (execute (withMax cfg 0) fuel P base { s₁ with count := 0 }) = some N) :
    (N ≤ L ∧ execute (withMax cfg L) fuel P base { s₁ with count := c }
        = execute (withMax cfg 0) fuel P base { s₁ with count := 0 }) ∨
    (L < N ∧ ∃ s', execute (withMax cfg L) fuel P base { s₁ with count := c } = .err (.exceeded L) s' ∧
        s'.count = L + 1) :=
  abort_exact cfg L hL fuel P base { s₁ with count := 0 } N hN

/-! ## the concrete host: the log only grows -/

section ConcreteHost
open HostImpl

/-- "the log of `w` is a prefix of the log of `w'`" -/
def logExt : Ext World := ⟨fun w w' => w.log <+: w'.log, fun _ => List.prefix_refl _, fun h1 h2 => List.IsPrefix.trans h1 h2⟩

theorem indexOfFn_ext (f : Value) : ∀ (xs : List Value) (i : Nat) (w : World), TreeExt logExt w (indexOfFn f xs i w)
  | [], _, w => .ret (List.prefix_refl _)
  | x :: xs, i, w => by
      unfold indexOfFn
      refine .call (List.prefix_refl _) fun v w1 _ => ?_
      split
      · exact .ret (List.prefix_refl _)
      · exact indexOfFn_ext f xs (i+1) w1

theorem lib_ext (name : String) (args : List Value) (w : World) : TreeExt logExt w (lib name args w) := by
  unfold lib
  simp only [HostImpl.ok, HostImpl.fail, World.alloc]
  repeat' split
  all_goals first
    | exact indexOfFn_ext _ _ _ _
    | exact .globalGet (logExt.refl _) fun _ => .ret (logExt.refl _)
    | exact .globalSet (logExt.refl _) (.ret (logExt.refl _))
    | (refine .ret ?_; show World.log _ <+: World.log _; simp [World.setCell])

theorem other_ext (k : Nat) (args : List Value) (w : World) : TreeExt logExt w (HostImpl.other k args w) := by
  unfold HostImpl.other
  split
  · exact .call (logExt.refl _) fun _ w1 _ => .ret (logExt.refl w1)
  · exact .ret (logExt.refl _)

/-- the concrete host of the driver only ever appends to the log -/
theorem hostExt_log : HostExt logExt HostImpl.host :=
  ⟨lib_ext, other_ext, fun _ w => logExt.refl w, fun w => logExt.refl w, fun _ w => List.prefix_refl w.log⟩

/-- **limit_prefix_log.** On the concrete host of the driver (`HostImpl`: heap + log + partials): if the unlimited run
completes with log `ℓ`, the run under any limit `L > 0` either is that same run or is aborted at `count = L + 1` with a
log that is a PREFIX of `ℓ`. -/
theorem limit_prefix_log (cfg : Config World) (hhost : cfg.host = HostImpl.host) (L : Nat) (hL : 0 < L) (fuel : Nat)
    (P : List Stmt) (base : Option String) (st : State World) (w0 : World)
    (h0 : Res.world? (execute (withMax cfg 0) fuel P base st) = some w0) :
    execute (withMax cfg L) fuel P base st = execute (withMax cfg 0) fuel P base st ∨
    ∃ s', execute (withMax cfg L) fuel P base st = .err (.exceeded L) s' ∧ s'.count = L + 1 ∧
      s'.world.log <+: w0.log :=
  limit_prefix logExt cfg (by rw [hhost]; exact hostExt_log) L hL fuel P base st w0 h0

/-! ## non-vacuity: concrete programs on the concrete host -/

section Examples
open C08 (Obs obs)

def libG : Env := ["systemLog", "arrayNew", "arrayIndexOf"].map fun n => (Name.user n, Value.fn (.lib n))
def s0 : State World := { globals := libG, world := {}, count := 0 }
def logS (s : String) : Stmt := .expr none (.function (.user "systemLog") [.string s])
def LL : Name := .user "L"

def xcfg (funs : List (Nat × FuncDef)) (files : List (String × List Stmt)) : Config World :=
  { host := host, funs := fun id => (funs.find? (·.1 == id)).map (·.2), maxStatements := 0,
    fetch := fun u => match files.find? (·.1 == u) with | some f => .script f.2 | none => .missing }

/-- an endless loop `L: systemLog('x'); jump L` under L = 5: aborted exactly when statement 6 would start -/
def loopP : List Stmt := [.label LL, logS "x", .jump LL none]

example : obs (execute (withMax (xcfg [] []) 5) 100 loopP none s0)
    = ⟨"err", some (.exceeded 5), none, 6, ["x", "x"], libG⟩ := by decide +kernel

/-- … and the unlimited run only ever ends by running out of (model) fuel -/
example : (obs (execute (withMax (xcfg [] []) 0) 100 loopP none s0)).kind = "oof" := by decide +kernel

/-- nested includes share the one counter: main → 'a' → 'b'; 6 statements in total -/
def files : List (String × List Stmt) :=
  [("a", [.include [⟨"b", false⟩], logS "a"]), ("b", [logS "b1", logS "b2"])]
def mainP : List Stmt := [.include [⟨"a", false⟩], logS "m"]

example : obs (execute (withMax (xcfg [] files) 0) 100 mainP none s0)
    = ⟨"done", none, none, 6, ["b1", "b2", "a", "m"], libG⟩ := by decide +kernel
example : obs (execute (withMax (xcfg [] files) 6) 100 mainP none s0)
    = ⟨"done", none, none, 6, ["b1", "b2", "a", "m"], libG⟩ := by decide +kernel
/-- L = 4: statement 5 (`systemLog('a')` in the outer include) does not start; the log is a prefix -/
example : obs (execute (withMax (xcfg [] files) 4) 100 mainP none s0)
    = ⟨"err", some (.exceeded 4), none, 5, ["b1", "b2"], libG⟩ := by decide +kernel

/-- call-backs from a library function are counted: `arrayIndexOf(arrayNew(0,0,0), p)` runs the 2-statement body of
`p` three times; 1 (function) + 1 (expr) + 3·2 = 8 statements -/
def pBody : List Stmt := [logS "p", .ret (some (.variable (.user "v")))]
def pDef : FuncDef := { name := .user "p", args := [.user "v"], lastArgArray := false, body := pBody }
def cbP : List Stmt :=
  [.function 0 (.user "p") [.user "v"] false false pBody,
   .expr (some (.user "r")) (.function (.user "arrayIndexOf")
     [.function (.user "arrayNew") [.number 0, .number 0, .number 0], .variable (.user "p")])]

example : (obs (execute (withMax (xcfg [(0, pDef)] []) 0) 100 cbP none s0)).count = 8 := by decide +kernel
example : (obs (execute (withMax (xcfg [(0, pDef)] []) 0) 100 cbP none s0)).log = ["p", "p", "p"] := by decide +kernel
example : obs (execute (withMax (xcfg [(0, pDef)] []) 5) 100 cbP none s0)
    = ⟨"err", some (.exceeded 5), none, 6, ["p", "p"], libG ++ [(.user "p", .fn (.script 0))]⟩ := by decide +kernel

/-- the theorems applied to these programs (their hypotheses are inhabited) -/
example : ∃ s', execute (withMax (xcfg [] files) 4) 100 mainP none s0 = .err (.exceeded 4) s' ∧ s'.count = 5 :=
  limit_small_aborts (xcfg [] files) 4 (by decide +kernel) 100 mainP none s0 6 (by decide +kernel) (by decide +kernel)

example : execute (withMax (xcfg [] files) 9) 100 mainP none s0 = execute (withMax (xcfg [] files) 0) 100 mainP none s0 :=
  limit_monotone (xcfg [] files) 9 100 mainP none s0 6 (by decide +kernel) (.inr (by decide +kernel))

example : (∃ m s', execute (withMax (xcfg [(0, pDef)] []) 7) 100 cbP none s0 = .err (.exceeded m) s') ↔ 7 < 8 :=
  exceeded_iff (xcfg [(0, pDef)] []) 7 (by decide +kernel) 100 cbP none s0 8 (by decide +kernel)

/-- recursion: `function f(): f() endfunction; f()` under L = 4 is aborted at count 5 (with enough fuel) -/
def recBody : List Stmt := [.expr none (.function (.user "f") [])]
def recP : List Stmt := [.function 0 (.user "f") [] false false recBody, .expr none (.function (.user "f") [])]
example : obs (execute (withMax (xcfg [(0, { name := .user "f", args := [], lastArgArray := false, body := recBody })] []) 4)
      100 recP none s0)
    = ⟨"err", some (.exceeded 4), none, 5, [], libG ++ [(.user "f", .fn (.script 0))]⟩ := by decide +kernel

/-- a session on one state: the endless loop under L = 5 leaves the counter at 6; the next run (nested includes, 6
statements) under L = 6 on that state completes and is the run from a fresh state; under L = 4 it is aborted at 5 -/
def s1 : State World := { s0 with count := 6 }
example : (obs (execute (withMax (xcfg [] []) 5) 100 loopP none s0)).count = s1.count := by decide +kernel
example : execute (withMax (xcfg [] files) 6) 100 mainP none s1 = execute (withMax (xcfg [] files) 6) 100 mainP none s0 :=
  own_budget _ _ _ _ s0 6
example : obs (execute (withMax (xcfg [] files) 6) 100 mainP none s1)
    = ⟨"done", none, none, 6, ["b1", "b2", "a", "m"], libG⟩ := by decide +kernel
example : ∃ s', execute (withMax (xcfg [] files) 4) 100 mainP none { s0 with count := 1000000000 }
      = .err (.exceeded 4) s' ∧ s'.count = 5 := by
  rcases own_budget_session (xcfg [] files) 4 (by decide) 100 mainP none s0 1000000000 6 (by decide +kernel) with h | h
  · exact absurd h.1 (by decide)
  · exact h.2

end Examples

end ConcreteHost

end C09
