import BareModel.HostDiff

/-!
# C20Prog — the statement list of `diffLines`, position by position

`Gen.diffBare` is regenerated from the working tree on every check run (`harness/extract.py: gen_diffbare`): it is what the real
`parse_script` returns for the shipped `include/diff.bare`.  This file pins down, statement index by statement index, the lowered
body of `diffLines` the program-level proof (`BareProofs/C20Prog.lean`) was written against — every lemma is `rfl` against the
generated term, and the label positions are computed by `Machine.findLabel` itself — so any change of the parsed program (other
than comments and layout, which are not part of the model) makes this module fail to compile, and the property check then falls
back to searching for a concrete failing input.
-/

namespace C20Prog
open Machine HostDiff

/-- the body of the first function statement of a list -/
def bodyOf : List Stmt → List Stmt
  | .function _ _ _ _ _ b :: _ => b
  | _ :: r => bodyOf r
  | [] => []

/-- the lowered body of `diffLines` as the real parser produced it -/
def B : List Stmt := bodyOf Gen.diffBare

/-- the `FuncDef` the machine's function table holds for it -/
def diffFD : FuncDef := { name := .user "diffLines", args := [.user "left", .user "right"], lastArgArray := false, body := B }

theorem diffCfg_funs : diffCfg.funs 0 = some diffFD := rfl

theorem B_length : B.length = 105 := by decide +kernel

/-! ## the top-level statements -/

theorem T_length : Gen.diffBare.length = 7 := by decide +kernel
theorem T0 : Gen.diffBare[0]? = some (.jump (.gen .done 0)
    (some (.unary .not (.function (.user "systemGlobalGet") [(.string "diffSentinel")])))) := rfl
theorem T1 : Gen.diffBare[1]? = some (.ret none) := rfl
theorem T2 : Gen.diffBare[2]? = some (.label (.gen .done 0)) := rfl
theorem T3 : Gen.diffBare[3]? = some (.expr (some (.user "diffSentinel")) (.variable (.user "true"))) := rfl
/-- all expressions of the list are string literals -/
def allStrings : List Expr → Bool
  | [] => true
  | .string _ :: r => allStrings r
  | _ :: _ => false

/-- statement 4 is `diffTypes = schemaParse('…', …)`, all arguments string literals (the documentation model of the result type;
`schemaParse` is not modelled: the call evaluates to null) -/
theorem T4 : ∃ args, Gen.diffBare[4]? = some (.expr (some (.user "diffTypes")) (.function (.user "schemaParse") args)) ∧
    allStrings args = true :=
  ⟨_, rfl, rfl⟩
theorem T5 : Gen.diffBare[5]? = some (.function 0 (.user "diffLines") [.user "left", .user "right"] false false B) := rfl
theorem T6 : Gen.diffBare[6]? = some (.expr (some (.user "diffRegexLineSplit")) (.function (.user "regexNew")
    [(.binary .add (.binary .add (.function (.user "stringFromCharCode") [(.number (13 : Rat))]) (.string "?"))
      (.function (.user "stringFromCharCode") [(.number (10 : Rat))]))])) := rfl
theorem labDone0 : findLabel Gen.diffBare (.gen .done 0) = some 2 := by decide +kernel

/-! ## the body of `diffLines`, statement by statement -/

theorem B0 : B[0]? = some (.expr (some (.user "diffs")) (.function (.user "arrayNew") [])) := rfl
theorem B1 : B[1]? = some (.jump (.gen .ifL 1) (some (.unary .not (.binary .eq (.function (.user "systemType") [(.variable (.user "left"))]) (.string "array"))))) := rfl
theorem B2 : B[2]? = some (.expr (some (.user "leftLines")) (.function (.user "arrayNew") [])) := rfl
theorem B3 : B[3]? = some (.expr (some (.gen .values 2)) (.variable (.user "left"))) := rfl
theorem B4 : B[4]? = some (.expr (some (.gen .length 2)) (.function (.user "arrayLength") [(.variable (.gen .values 2))])) := rfl
theorem B5 : B[5]? = some (.jump (.gen .done 2) (some (.unary .not (.variable (.gen .length 2))))) := rfl
theorem B6 : B[6]? = some (.expr (some (.gen .index 2)) (.number (0 : Rat))) := rfl
theorem B7 : B[7]? = some (.label (.gen .loop 2)) := rfl
theorem B8 : B[8]? = some (.expr (some (.user "leftPart")) (.function (.user "arrayGet") [(.variable (.gen .values 2)), (.variable (.gen .index 2))])) := rfl
theorem B9 : B[9]? = some (.expr none (.function (.user "arrayExtend") [(.variable (.user "leftLines")), (.function (.user "regexSplit") [(.variable (.user "diffRegexLineSplit")), (.variable (.user "leftPart"))])])) := rfl
theorem B10 : B[10]? = some (.expr (some (.gen .index 2)) (.binary .add (.variable (.gen .index 2)) (.number (1 : Rat)))) := rfl
theorem B11 : B[11]? = some (.jump (.gen .loop 2) (some (.binary .lt (.variable (.gen .index 2)) (.variable (.gen .length 2))))) := rfl
theorem B12 : B[12]? = some (.label (.gen .done 2)) := rfl
theorem B13 : B[13]? = some (.jump (.gen .done 1) none) := rfl
theorem B14 : B[14]? = some (.label (.gen .ifL 1)) := rfl
theorem B15 : B[15]? = some (.expr (some (.user "leftLines")) (.function (.user "regexSplit") [(.variable (.user "diffRegexLineSplit")), (.variable (.user "left"))])) := rfl
theorem B16 : B[16]? = some (.label (.gen .done 1)) := rfl
theorem B17 : B[17]? = some (.jump (.gen .ifL 3) (some (.unary .not (.binary .eq (.function (.user "systemType") [(.variable (.user "right"))]) (.string "array"))))) := rfl
theorem B18 : B[18]? = some (.expr (some (.user "rightLines")) (.function (.user "arrayNew") [])) := rfl
theorem B19 : B[19]? = some (.expr (some (.gen .values 4)) (.variable (.user "right"))) := rfl
theorem B20 : B[20]? = some (.expr (some (.gen .length 4)) (.function (.user "arrayLength") [(.variable (.gen .values 4))])) := rfl
theorem B21 : B[21]? = some (.jump (.gen .done 4) (some (.unary .not (.variable (.gen .length 4))))) := rfl
theorem B22 : B[22]? = some (.expr (some (.gen .index 4)) (.number (0 : Rat))) := rfl
theorem B23 : B[23]? = some (.label (.gen .loop 4)) := rfl
theorem B24 : B[24]? = some (.expr (some (.user "rightPart")) (.function (.user "arrayGet") [(.variable (.gen .values 4)), (.variable (.gen .index 4))])) := rfl
theorem B25 : B[25]? = some (.expr none (.function (.user "arrayExtend") [(.variable (.user "rightLines")), (.function (.user "regexSplit") [(.variable (.user "diffRegexLineSplit")), (.variable (.user "rightPart"))])])) := rfl
theorem B26 : B[26]? = some (.expr (some (.gen .index 4)) (.binary .add (.variable (.gen .index 4)) (.number (1 : Rat)))) := rfl
theorem B27 : B[27]? = some (.jump (.gen .loop 4) (some (.binary .lt (.variable (.gen .index 4)) (.variable (.gen .length 4))))) := rfl
theorem B28 : B[28]? = some (.label (.gen .done 4)) := rfl
theorem B29 : B[29]? = some (.jump (.gen .done 3) none) := rfl
theorem B30 : B[30]? = some (.label (.gen .ifL 3)) := rfl
theorem B31 : B[31]? = some (.expr (some (.user "rightLines")) (.function (.user "regexSplit") [(.variable (.user "diffRegexLineSplit")), (.variable (.user "right"))])) := rfl
theorem B32 : B[32]? = some (.label (.gen .done 3)) := rfl
theorem B33 : B[33]? = some (.expr (some (.user "ixLeft")) (.number (0 : Rat))) := rfl
theorem B34 : B[34]? = some (.expr (some (.user "ixRight")) (.number (0 : Rat))) := rfl
theorem B35 : B[35]? = some (.expr (some (.user "leftLength")) (.function (.user "arrayLength") [(.variable (.user "leftLines"))])) := rfl
theorem B36 : B[36]? = some (.expr (some (.user "rightLength")) (.function (.user "arrayLength") [(.variable (.user "rightLines"))])) := rfl
theorem B37 : B[37]? = some (.jump (.gen .done 5) (some (.unary .not (.binary .or (.binary .lt (.variable (.user "ixLeft")) (.variable (.user "leftLength"))) (.binary .lt (.variable (.user "ixRight")) (.variable (.user "rightLength"))))))) := rfl
theorem B38 : B[38]? = some (.label (.gen .loop 5)) := rfl
theorem B39 : B[39]? = some (.jump (.gen .done 6) (some (.unary .not (.binary .ge (.variable (.user "ixLeft")) (.variable (.user "leftLength")))))) := rfl
theorem B40 : B[40]? = some (.jump (.gen .done 7) (some (.unary .not (.binary .lt (.variable (.user "ixRight")) (.variable (.user "rightLength")))))) := rfl
theorem B41 : B[41]? = some (.expr none (.function (.user "arrayPush") [(.variable (.user "diffs")), (.function (.user "objectNew") [(.string "type"), (.string "Add"), (.string "lines"), (.function (.user "arraySlice") [(.variable (.user "rightLines")), (.variable (.user "ixRight"))])])])) := rfl
theorem B42 : B[42]? = some (.label (.gen .done 7)) := rfl
theorem B43 : B[43]? = some (.jump (.gen .done 5) none) := rfl
theorem B44 : B[44]? = some (.label (.gen .done 6)) := rfl
theorem B45 : B[45]? = some (.jump (.gen .done 8) (some (.unary .not (.binary .ge (.variable (.user "ixRight")) (.variable (.user "rightLength")))))) := rfl
theorem B46 : B[46]? = some (.jump (.gen .done 9) (some (.unary .not (.binary .lt (.variable (.user "ixLeft")) (.variable (.user "leftLength")))))) := rfl
theorem B47 : B[47]? = some (.expr none (.function (.user "arrayPush") [(.variable (.user "diffs")), (.function (.user "objectNew") [(.string "type"), (.string "Remove"), (.string "lines"), (.function (.user "arraySlice") [(.variable (.user "leftLines")), (.variable (.user "ixLeft"))])])])) := rfl
theorem B48 : B[48]? = some (.label (.gen .done 9)) := rfl
theorem B49 : B[49]? = some (.jump (.gen .done 5) none) := rfl
theorem B50 : B[50]? = some (.label (.gen .done 8)) := rfl
theorem B51 : B[51]? = some (.expr (some (.user "identicalLines")) (.function (.user "arrayNew") [])) := rfl
theorem B52 : B[52]? = some (.jump (.gen .done 10) (some (.unary .not (.binary .and (.binary .and (.binary .lt (.variable (.user "ixLeft")) (.variable (.user "leftLength"))) (.binary .lt (.variable (.user "ixRight")) (.variable (.user "rightLength")))) (.binary .eq (.function (.user "arrayGet") [(.variable (.user "leftLines")), (.variable (.user "ixLeft"))]) (.function (.user "arrayGet") [(.variable (.user "rightLines")), (.variable (.user "ixRight"))])))))) := rfl
theorem B53 : B[53]? = some (.label (.gen .loop 10)) := rfl
theorem B54 : B[54]? = some (.expr none (.function (.user "arrayPush") [(.variable (.user "identicalLines")), (.function (.user "arrayGet") [(.variable (.user "leftLines")), (.variable (.user "ixLeft"))])])) := rfl
theorem B55 : B[55]? = some (.expr (some (.user "ixLeft")) (.binary .add (.variable (.user "ixLeft")) (.number (1 : Rat)))) := rfl
theorem B56 : B[56]? = some (.expr (some (.user "ixRight")) (.binary .add (.variable (.user "ixRight")) (.number (1 : Rat)))) := rfl
theorem B57 : B[57]? = some (.jump (.gen .loop 10) (some (.binary .and (.binary .and (.binary .lt (.variable (.user "ixLeft")) (.variable (.user "leftLength"))) (.binary .lt (.variable (.user "ixRight")) (.variable (.user "rightLength")))) (.binary .eq (.function (.user "arrayGet") [(.variable (.user "leftLines")), (.variable (.user "ixLeft"))]) (.function (.user "arrayGet") [(.variable (.user "rightLines")), (.variable (.user "ixRight"))]))))) := rfl
theorem B58 : B[58]? = some (.label (.gen .done 10)) := rfl
theorem B59 : B[59]? = some (.jump (.gen .done 11) (some (.unary .not (.variable (.user "identicalLines"))))) := rfl
theorem B60 : B[60]? = some (.expr none (.function (.user "arrayPush") [(.variable (.user "diffs")), (.function (.user "objectNew") [(.string "type"), (.string "Identical"), (.string "lines"), (.variable (.user "identicalLines"))])])) := rfl
theorem B61 : B[61]? = some (.jump (.gen .loop 5) none) := rfl
theorem B62 : B[62]? = some (.label (.gen .done 11)) := rfl
theorem B63 : B[63]? = some (.expr (some (.user "foundMatch")) (.variable (.user "False"))) := rfl
theorem B64 : B[64]? = some (.expr (some (.user "ixLeftTmp")) (.variable (.user "ixLeft"))) := rfl
theorem B65 : B[65]? = some (.jump (.gen .done 12) (some (.unary .not (.binary .lt (.variable (.user "ixLeftTmp")) (.variable (.user "leftLength")))))) := rfl
theorem B66 : B[66]? = some (.label (.gen .loop 12)) := rfl
theorem B67 : B[67]? = some (.expr (some (.user "ixRightTmp")) (.variable (.user "ixRight"))) := rfl
theorem B68 : B[68]? = some (.jump (.gen .done 13) (some (.unary .not (.binary .lt (.variable (.user "ixRightTmp")) (.variable (.user "rightLength")))))) := rfl
theorem B69 : B[69]? = some (.label (.gen .loop 13)) := rfl
theorem B70 : B[70]? = some (.jump (.gen .done 14) (some (.unary .not (.binary .eq (.function (.user "arrayGet") [(.variable (.user "leftLines")), (.variable (.user "ixLeftTmp"))]) (.function (.user "arrayGet") [(.variable (.user "rightLines")), (.variable (.user "ixRightTmp"))]))))) := rfl
theorem B71 : B[71]? = some (.expr (some (.user "foundMatch")) (.variable (.user "true"))) := rfl
theorem B72 : B[72]? = some (.jump (.gen .done 13) none) := rfl
theorem B73 : B[73]? = some (.label (.gen .done 14)) := rfl
theorem B74 : B[74]? = some (.expr (some (.user "ixRightTmp")) (.binary .add (.variable (.user "ixRightTmp")) (.number (1 : Rat)))) := rfl
theorem B75 : B[75]? = some (.jump (.gen .loop 13) (some (.binary .lt (.variable (.user "ixRightTmp")) (.variable (.user "rightLength"))))) := rfl
theorem B76 : B[76]? = some (.label (.gen .done 13)) := rfl
theorem B77 : B[77]? = some (.jump (.gen .done 15) (some (.unary .not (.variable (.user "foundMatch"))))) := rfl
theorem B78 : B[78]? = some (.jump (.gen .done 12) none) := rfl
theorem B79 : B[79]? = some (.label (.gen .done 15)) := rfl
theorem B80 : B[80]? = some (.expr (some (.user "ixLeftTmp")) (.binary .add (.variable (.user "ixLeftTmp")) (.number (1 : Rat)))) := rfl
theorem B81 : B[81]? = some (.jump (.gen .loop 12) (some (.binary .lt (.variable (.user "ixLeftTmp")) (.variable (.user "leftLength"))))) := rfl
theorem B82 : B[82]? = some (.label (.gen .done 12)) := rfl
theorem B83 : B[83]? = some (.jump (.gen .done 16) (some (.unary .not (.unary .not (.variable (.user "foundMatch")))))) := rfl
theorem B84 : B[84]? = some (.jump (.gen .done 17) (some (.unary .not (.binary .lt (.variable (.user "ixLeft")) (.variable (.user "leftLength")))))) := rfl
theorem B85 : B[85]? = some (.expr none (.function (.user "arrayPush") [(.variable (.user "diffs")), (.function (.user "objectNew") [(.string "type"), (.string "Remove"), (.string "lines"), (.function (.user "arraySlice") [(.variable (.user "leftLines")), (.variable (.user "ixLeft"))])])])) := rfl
theorem B86 : B[86]? = some (.expr (some (.user "ixLeft")) (.variable (.user "leftLength"))) := rfl
theorem B87 : B[87]? = some (.label (.gen .done 17)) := rfl
theorem B88 : B[88]? = some (.jump (.gen .done 18) (some (.unary .not (.binary .lt (.variable (.user "ixRight")) (.variable (.user "rightLength")))))) := rfl
theorem B89 : B[89]? = some (.expr none (.function (.user "arrayPush") [(.variable (.user "diffs")), (.function (.user "objectNew") [(.string "type"), (.string "Add"), (.string "lines"), (.function (.user "arraySlice") [(.variable (.user "rightLines")), (.variable (.user "ixRight"))])])])) := rfl
theorem B90 : B[90]? = some (.expr (some (.user "ixRight")) (.variable (.user "rightLength"))) := rfl
theorem B91 : B[91]? = some (.label (.gen .done 18)) := rfl
theorem B92 : B[92]? = some (.jump (.gen .loop 5) none) := rfl
theorem B93 : B[93]? = some (.label (.gen .done 16)) := rfl
theorem B94 : B[94]? = some (.jump (.gen .done 19) (some (.unary .not (.binary .gt (.variable (.user "ixLeftTmp")) (.variable (.user "ixLeft")))))) := rfl
theorem B95 : B[95]? = some (.expr none (.function (.user "arrayPush") [(.variable (.user "diffs")), (.function (.user "objectNew") [(.string "type"), (.string "Remove"), (.string "lines"), (.function (.user "arraySlice") [(.variable (.user "leftLines")), (.variable (.user "ixLeft")), (.variable (.user "ixLeftTmp"))])])])) := rfl
theorem B96 : B[96]? = some (.expr (some (.user "ixLeft")) (.variable (.user "ixLeftTmp"))) := rfl
theorem B97 : B[97]? = some (.label (.gen .done 19)) := rfl
theorem B98 : B[98]? = some (.jump (.gen .done 20) (some (.unary .not (.binary .gt (.variable (.user "ixRightTmp")) (.variable (.user "ixRight")))))) := rfl
theorem B99 : B[99]? = some (.expr none (.function (.user "arrayPush") [(.variable (.user "diffs")), (.function (.user "objectNew") [(.string "type"), (.string "Add"), (.string "lines"), (.function (.user "arraySlice") [(.variable (.user "rightLines")), (.variable (.user "ixRight")), (.variable (.user "ixRightTmp"))])])])) := rfl
theorem B100 : B[100]? = some (.expr (some (.user "ixRight")) (.variable (.user "ixRightTmp"))) := rfl
theorem B101 : B[101]? = some (.label (.gen .done 20)) := rfl
theorem B102 : B[102]? = some (.jump (.gen .loop 5) (some (.binary .or (.binary .lt (.variable (.user "ixLeft")) (.variable (.user "leftLength"))) (.binary .lt (.variable (.user "ixRight")) (.variable (.user "rightLength")))))) := rfl
theorem B103 : B[103]? = some (.label (.gen .done 5)) := rfl
theorem B104 : B[104]? = some (.ret (some (.variable (.user "diffs")))) := rfl

/-! ## label positions (`findLabel` = first label of that name) -/

theorem labLoop2 : findLabel B (.gen .loop 2) = some 7 := by decide +kernel
theorem labDone2 : findLabel B (.gen .done 2) = some 12 := by decide +kernel
theorem labIf1 : findLabel B (.gen .ifL 1) = some 14 := by decide +kernel
theorem labDone1 : findLabel B (.gen .done 1) = some 16 := by decide +kernel
theorem labLoop4 : findLabel B (.gen .loop 4) = some 23 := by decide +kernel
theorem labDone4 : findLabel B (.gen .done 4) = some 28 := by decide +kernel
theorem labIf3 : findLabel B (.gen .ifL 3) = some 30 := by decide +kernel
theorem labDone3 : findLabel B (.gen .done 3) = some 32 := by decide +kernel
theorem labLoop5 : findLabel B (.gen .loop 5) = some 38 := by decide +kernel
theorem labDone7 : findLabel B (.gen .done 7) = some 42 := by decide +kernel
theorem labDone6 : findLabel B (.gen .done 6) = some 44 := by decide +kernel
theorem labDone9 : findLabel B (.gen .done 9) = some 48 := by decide +kernel
theorem labDone8 : findLabel B (.gen .done 8) = some 50 := by decide +kernel
theorem labLoop10 : findLabel B (.gen .loop 10) = some 53 := by decide +kernel
theorem labDone10 : findLabel B (.gen .done 10) = some 58 := by decide +kernel
theorem labDone11 : findLabel B (.gen .done 11) = some 62 := by decide +kernel
theorem labLoop12 : findLabel B (.gen .loop 12) = some 66 := by decide +kernel
theorem labLoop13 : findLabel B (.gen .loop 13) = some 69 := by decide +kernel
theorem labDone14 : findLabel B (.gen .done 14) = some 73 := by decide +kernel
theorem labDone13 : findLabel B (.gen .done 13) = some 76 := by decide +kernel
theorem labDone15 : findLabel B (.gen .done 15) = some 79 := by decide +kernel
theorem labDone12 : findLabel B (.gen .done 12) = some 82 := by decide +kernel
theorem labDone17 : findLabel B (.gen .done 17) = some 87 := by decide +kernel
theorem labDone18 : findLabel B (.gen .done 18) = some 91 := by decide +kernel
theorem labDone16 : findLabel B (.gen .done 16) = some 93 := by decide +kernel
theorem labDone19 : findLabel B (.gen .done 19) = some 97 := by decide +kernel
theorem labDone20 : findLabel B (.gen .done 20) = some 101 := by decide +kernel
theorem labDone5 : findLabel B (.gen .done 5) = some 103 := by decide +kernel

end C20Prog
