import BareModel.Lower
import BareModel.Machine

/-!
# C07 — lemmas: the lowering emits well-formed code (labels and jumps per scope)

Everything here is about the *spec* lowering `Lower.lowerS / lowerB / lowerElse` (BareModel/Lower.lean).
A *scope* is one statement list: the global list or a function body.  Labels and jumps of a scope are what the
machine (`Machine.findLabel`) and lint look at: the `label`/`jump` statements that are direct members of that list.
-/

namespace C07

open Lower

/-! ## scopes, labels, jumps of lowered code -/

/-- labels defined at the top level of a statement list (= one scope) -/
def labelsOf : List Stmt → List Name
  | [] => []
  | .label l :: r => l :: labelsOf r
  | _ :: r => labelsOf r

/-- targets of the jumps of a statement list (= one scope) -/
def jumpsOf : List Stmt → List Name
  | [] => []
  | .jump l _ :: r => l :: jumpsOf r
  | _ :: r => jumpsOf r

mutual
/-- the function bodies below a statement, recursively -/
def bodiesS : Stmt → List (List Stmt)
  | .function _ _ _ _ _ body => body :: bodiesL body
  | _ => []
/-- the function bodies below a statement list, recursively -/
def bodiesL : List Stmt → List (List Stmt)
  | [] => []
  | s :: r => bodiesS s ++ bodiesL r
end

/-- all scopes of a script: the list itself and, recursively, every function body -/
def scopes (P : List Stmt) : List (List Stmt) := P :: bodiesL P

def isGen : Name → Bool
  | .gen _ _ => true
  | .user _ => false

/-- the generated labels of a scope -/
def genLabels (L : List Stmt) : List Name := (labelsOf L).filter isGen

/-- `l` is a generated name whose construct number lies in `[i, j)` -/
def InR (l : Name) (i j : Nat) : Prop := ∃ k n, l = .gen k n ∧ i ≤ n ∧ n < j

theorem mem_labelsOf {l : Name} : ∀ {L : List Stmt}, l ∈ labelsOf L ↔ Stmt.label l ∈ L
  | [] => by simp [labelsOf]
  | s :: r => by
      have ih := @mem_labelsOf l r
      cases s <;> simp [labelsOf, ih]

theorem mem_jumpsOf {t : Name} : ∀ {L : List Stmt}, t ∈ jumpsOf L ↔ ∃ c, Stmt.jump t c ∈ L
  | [] => by simp [jumpsOf]
  | s :: r => by
      have ih := @mem_jumpsOf t r
      cases s <;> simp [jumpsOf, ih]
      rename_i l' c'
      constructor
      · rintro (h | ⟨c, h⟩)
        · exact ⟨c', Or.inl ⟨h, rfl⟩⟩
        · exact ⟨c, Or.inr h⟩
      · rintro ⟨c, (h | h)⟩
        · exact Or.inl h.1
        · exact Or.inr ⟨c, h⟩

theorem labelsOf_append (A B : List Stmt) : labelsOf (A ++ B) = labelsOf A ++ labelsOf B := by
  induction A with
  | nil => rfl
  | cons s r ih => cases s <;> simp [labelsOf, ih]

theorem jumpsOf_append (A B : List Stmt) : jumpsOf (A ++ B) = jumpsOf A ++ jumpsOf B := by
  induction A with
  | nil => rfl
  | cons s r ih => cases s <;> simp [jumpsOf, ih]

theorem bodiesL_append (A B : List Stmt) : bodiesL (A ++ B) = bodiesL A ++ bodiesL B := by
  induction A with
  | nil => simp [bodiesL]
  | cons s r ih => simp [bodiesL, ih]

theorem genLabels_append (A B : List Stmt) : genLabels (A ++ B) = genLabels A ++ genLabels B := by
  simp [genLabels, labelsOf_append]

theorem mem_genLabels {l : Name} {L : List Stmt} : l ∈ genLabels L ↔ Stmt.label l ∈ L ∧ isGen l = true := by
  simp [genLabels, mem_labelsOf]

/-! ## structured programs: user labels / jumps of a scope, function bodies, hypotheses -/

mutual
/-- the labels the user wrote at the level of this scope (not inside nested function definitions) -/
def ulS : SStmt → List Name
  | .label l => [l]
  | .ite _ t e => ulB t ++ ulE e
  | .while _ b => ulB b
  | .for _ _ _ b => ulB b
  | _ => []
def ulB : List SStmt → List Name
  | [] => []
  | s :: ss => ulS s ++ ulB ss
def ulE : SElse → List Name
  | .none => []
  | .els b => ulB b
  | .elif _ t e => ulB t ++ ulE e
end

mutual
/-- the targets of the raw `jump`/`jumpif` statements the user wrote at the level of this scope -/
def ujS : SStmt → List Name
  | .jump l _ => [l]
  | .ite _ t e => ujB t ++ ujE e
  | .while _ b => ujB b
  | .for _ _ _ b => ujB b
  | _ => []
def ujB : List SStmt → List Name
  | [] => []
  | s :: ss => ujS s ++ ujB ss
def ujE : SElse → List Name
  | .none => []
  | .els b => ujB b
  | .elif _ t e => ujB t ++ ujE e
end

mutual
/-- the bodies of all function definitions below a structured statement (recursively) -/
def fbS : SStmt → List (List SStmt)
  | .func _ _ _ _ _ b => b :: fbB b
  | .ite _ t e => fbB t ++ fbE e
  | .while _ b => fbB b
  | .for _ _ _ b => fbB b
  | _ => []
def fbB : List SStmt → List (List SStmt)
  | [] => []
  | s :: ss => fbS s ++ fbB ss
def fbE : SElse → List (List SStmt)
  | .none => []
  | .els b => fbB b
  | .elif _ t e => fbB t ++ fbE e
end

/-- the structured scopes of a program: the program and every function body -/
def sscopes (B : List SStmt) : List (List SStmt) := B :: fbB B

mutual
/-- no raw `label` / `jump` statement anywhere in the program uses a name with the reserved prefix -/
def noResS : SStmt → Bool
  | .label l => !isGen l
  | .jump l _ => !isGen l
  | .ite _ t e => noResB t && noResE e
  | .while _ b => noResB b
  | .for _ _ _ b => noResB b
  | .func _ _ _ _ _ b => noResB b
  | _ => true
def noResB : List SStmt → Bool
  | [] => true
  | s :: ss => noResS s && noResB ss
def noResE : SElse → Bool
  | .none => true
  | .els b => noResB b
  | .elif _ t e => noResB t && noResE e
end

/-- **NoReserved**: structured code does not itself use the reserved `__bareScript` prefix for labels / jump targets -/
def NoReserved (B : List SStmt) : Prop := noResB B = true

instance (B : List SStmt) : Decidable (NoReserved B) := by unfold NoReserved; infer_instance

mutual
/-- `break`/`continue` only inside a loop of the same function; no `function` inside a function body
(exactly what `parse_script` accepts) -/
def wnS (inLoop inFunc : Bool) : SStmt → Bool
  | .brk => inLoop
  | .cont => inLoop
  | .ite _ t e => wnB inLoop inFunc t && wnE inLoop inFunc e
  | .while _ b => wnB true inFunc b
  | .for _ _ _ b => wnB true inFunc b
  | .func _ _ _ _ _ b => !inFunc && wnB false true b
  | _ => true
def wnB (inLoop inFunc : Bool) : List SStmt → Bool
  | [] => true
  | s :: ss => wnS inLoop inFunc s && wnB inLoop inFunc ss
def wnE (inLoop inFunc : Bool) : SElse → Bool
  | .none => true
  | .els b => wnB inLoop inFunc b
  | .elif _ t e => wnB inLoop inFunc t && wnE inLoop inFunc e
end

/-- **WellNested** (global scope) -/
def WellNested (B : List SStmt) : Prop := wnB false false B = true

instance (B : List SStmt) : Decidable (WellNested B) := by unfold WellNested; infer_instance

mutual
/-- no raw `include` statement with an empty list (such a statement has no source text: `renderS` gives no line) -/
def incOkS : SStmt → Bool
  | .include incs => !incs.isEmpty
  | .ite _ t e => incOkB t && incOkE e
  | .while _ b => incOkB b
  | .for _ _ _ b => incOkB b
  | .func _ _ _ _ _ b => incOkB b
  | _ => true
def incOkB : List SStmt → Bool
  | [] => true
  | s :: ss => incOkS s && incOkB ss
def incOkE : SElse → Bool
  | .none => true
  | .els b => incOkB b
  | .elif _ t e => incOkB t && incOkE e
end

/-! ## the counter -/

mutual
theorem lowerS_snd (lp : Option (Name × Name)) : ∀ (s : SStmt) (i : Nat), (lowerS lp s i).2 = cntS s i
  | .expr _ _, i => by simp [lowerS, cntS]
  | .ret _, i => by simp [lowerS, cntS]
  | .label _, i => by simp [lowerS, cntS]
  | .jump _ _, i => by simp [lowerS, cntS]
  | .include _, i => by simp [lowerS, cntS]
  | .brk, i => by simp [lowerS, cntS]
  | .cont, i => by simp [lowerS, cntS]
  | .ite c t e, i => by
      simp only [lowerS, cntS]
      rw [lowerB_snd lp t (i+1), lowerElse_snd lp _ _ e]
  | .while c b, i => by simp only [lowerS, cntS]; rw [lowerB_snd _ b (i+1)]
  | .for v ix vals b, i => by simp only [lowerS, cntS]; rw [lowerB_snd _ b (i+1)]
  | .func _ _ _ _ _ b, i => by simp only [lowerS, cntS]; rw [lowerB_snd _ b i]
theorem lowerB_snd (lp : Option (Name × Name)) : ∀ (B : List SStmt) (i : Nat), (lowerB lp B i).2 = cntB B i
  | [], i => by simp [lowerB, cntB]
  | s :: ss, i => by simp only [lowerB, cntB]; rw [lowerS_snd lp s i, lowerB_snd lp ss]
theorem lowerElse_snd (lp : Option (Name × Name)) (cur done : Name) : ∀ (e : SElse) (i : Nat),
    (lowerElse lp cur done e i).2 = cntE e i
  | .none, i => by simp [lowerElse, cntE]
  | .els b, i => by simp only [lowerElse, cntE]; rw [lowerB_snd lp b i]
  | .elif c t e, i => by
      simp only [lowerElse, cntE]
      rw [lowerB_snd lp t (i+1), lowerElse_snd lp _ _ e]
end

mutual
theorem cntS_mono : ∀ (s : SStmt) (i : Nat), i ≤ cntS s i
  | .expr _ _, i => by simp [cntS]
  | .ret _, i => by simp [cntS]
  | .label _, i => by simp [cntS]
  | .jump _ _, i => by simp [cntS]
  | .include _, i => by simp [cntS]
  | .brk, i => by simp [cntS]
  | .cont, i => by simp [cntS]
  | .ite c t e, i => by
      have h1 := cntB_mono t (i+1); have h2 := cntE_mono e (cntB t (i+1)); simp only [cntS]; omega
  | .while c b, i => by have h1 := cntB_mono b (i+1); simp only [cntS]; omega
  | .for v ix vals b, i => by have h1 := cntB_mono b (i+1); simp only [cntS]; omega
  | .func _ _ _ _ _ b, i => by have h1 := cntB_mono b i; simp only [cntS]; omega
theorem cntB_mono : ∀ (B : List SStmt) (i : Nat), i ≤ cntB B i
  | [], i => by simp [cntB]
  | s :: ss, i => by
      have h1 := cntS_mono s i; have h2 := cntB_mono ss (cntS s i); simp only [cntB]; omega
theorem cntE_mono : ∀ (e : SElse) (i : Nat), i ≤ cntE e i
  | .none, i => by simp [cntE]
  | .els b, i => by have h1 := cntB_mono b i; simp only [cntE]; omega
  | .elif c t e, i => by
      have h1 := cntB_mono t (i+1); have h2 := cntE_mono e (cntB t (i+1)); simp only [cntE]; omega
end

/-! ## unfolding lemmas: the lowered code of each construct, with the counter in closed form -/

/-- the target of the conditional jump of an `if` / `elif` branch -/
def ifTarget (e : SElse) (i : Nat) (done : Name) : Name := match e with | .none => done | _ => lIf i

theorem lowerS_ite (lp) (c : Expr) (t : List SStmt) (e : SElse) (i : Nat) :
    (lowerS lp (.ite c t e) i).1 =
      .jump (ifTarget e i (lDone i)) (some (notE c)) :: ((lowerB lp t (i+1)).1 ++
        (lowerElse lp (lIf i) (lDone i) e (cntB t (i+1))).1) := by
  simp only [lowerS, lowerB_snd, ifTarget, List.cons_append, List.nil_append]
  cases e <;> rfl

theorem lowerS_while (lp) (c : Expr) (b : List SStmt) (i : Nat) :
    (lowerS lp (.while c b) i).1 =
      .jump (lDone i) (some (notE c)) :: .label (lLoop i) :: ((lowerB (some (lDone i, lLoop i)) b (i+1)).1 ++
        [.jump (lLoop i) (some c), .label (lDone i)]) := by
  simp only [lowerS, List.cons_append, List.nil_append]

theorem lowerS_for (lp) (v : Name) (ix : Option Name) (vals : Expr) (b : List SStmt) (i : Nat) :
    (lowerS lp (.for v ix vals b) i).1 =
      forHeader i v (ix.getD (vIndex i)) vals ++ ((lowerB (some (lDone i, lCont i)) b (i+1)).1 ++
        forFooter i (ix.getD (vIndex i)) (usesContB b)) := by
  simp only [lowerS, List.append_assoc]

theorem lowerS_func (lp) (fid n args laa isAsync) (b : List SStmt) (i : Nat) :
    (lowerS lp (.func fid n args laa isAsync b) i).1 = [.function fid n args laa isAsync (lowerB none b i).1] := by
  simp only [lowerS]

theorem lowerB_cons (lp) (s : SStmt) (ss : List SStmt) (i : Nat) :
    (lowerB lp (s :: ss) i).1 = (lowerS lp s i).1 ++ (lowerB lp ss (cntS s i)).1 := by
  simp only [lowerB, lowerS_snd]

theorem lowerElse_els (lp) (cur done : Name) (b : List SStmt) (i : Nat) :
    (lowerElse lp cur done (.els b) i).1 =
      .jump done none :: .label cur :: ((lowerB lp b i).1 ++ [.label done]) := by
  simp only [lowerElse, List.cons_append, List.nil_append]

theorem lowerElse_elif (lp) (cur done : Name) (c : Expr) (t : List SStmt) (e : SElse) (i : Nat) :
    (lowerElse lp cur done (.elif c t e) i).1 =
      .jump done none :: .label cur :: .jump (ifTarget e i done) (some (notE c)) :: ((lowerB lp t (i+1)).1 ++
        (lowerElse lp (lIf i) done e (cntB t (i+1))).1) := by
  simp only [lowerElse, lowerB_snd, ifTarget, List.cons_append, List.nil_append]
  cases e <;> rfl

theorem ifTarget_none (i : Nat) (done : Name) : ifTarget .none i done = done := rfl
theorem ifTarget_ne {e : SElse} (h : e ≠ .none) (i : Nat) (done : Name) : ifTarget e i done = lIf i := by
  cases e <;> first | rfl | exact absurd rfl h

/-! ## I2 — labels: every label defined in the scope is a user label or generated with index in `[i, cnt)` -/

theorem InR.mono {l : Name} {a b i j : Nat} (h : InR l a b) (h1 : i ≤ a) (h2 : b ≤ j) : InR l i j := by
  obtain ⟨k, n, rfl, h3, h4⟩ := h
  exact ⟨k, n, rfl, by omega, by omega⟩

theorem InR.isGen {l : Name} {i j : Nat} (h : InR l i j) : isGen l = true := by
  obtain ⟨k, n, rfl, -, -⟩ := h; rfl

theorem forHeader_label {i v ix vals} {l : Name} : Stmt.label l ∈ forHeader i v ix vals ↔ l = lLoop i := by
  simp [forHeader]

theorem forFooter_label {i ix hc} {l : Name} :
    Stmt.label l ∈ forFooter i ix hc ↔ (l = lCont i ∧ hc = true) ∨ l = lDone i := by
  cases hc <;> simp [forFooter]

theorem forHeader_jump {i v ix vals} {t : Name} {c} : Stmt.jump t c ∈ forHeader i v ix vals →  t = lDone i := by
  simp [forHeader]; intro h _; exact h

theorem forFooter_jump {i ix hc} {t : Name} {c} : Stmt.jump t c ∈ forFooter i ix hc → t = lLoop i := by
  cases hc <;> simp [forFooter] <;> intro h _ <;> exact h

theorem forHeader_has_jump (i v ix vals) :
    Stmt.jump (lDone i) (some (notE (.variable (vLength i)))) ∈ forHeader i v ix vals := by simp [forHeader]

theorem forFooter_has_jump (i ix hc) :
    Stmt.jump (lLoop i) (some (.binary .lt (.variable ix) (.variable (vLength i)))) ∈ forFooter i ix hc := by
  cases hc <;> simp [forFooter]

mutual
theorem labS (lp : Option (Name × Name)) : ∀ (s : SStmt) (i : Nat) (l : Name),
    Stmt.label l ∈ (lowerS lp s i).1 → l ∈ ulS s ∨ InR l i (cntS s i)
  | .expr _ _, i, l, h => by simp [lowerS] at h
  | .ret _, i, l, h => by simp [lowerS] at h
  | .label l', i, l, h => by simp [lowerS] at h; simp [ulS, h]
  | .jump _ _, i, l, h => by simp [lowerS] at h
  | .include _, i, l, h => by simp [lowerS] at h
  | .brk, i, l, h => by cases lp <;> simp [lowerS] at h
  | .cont, i, l, h => by cases lp <;> simp [lowerS] at h
  | .func _ _ _ _ _ b, i, l, h => by simp [lowerS] at h
  | .ite c t e, i, l, h => by
      have m1 := cntB_mono t (i+1); have m2 := cntE_mono e (cntB t (i+1))
      rw [lowerS_ite] at h
      simp only [List.mem_cons, List.mem_append, reduceCtorEq, false_or] at h
      simp only [ulS, cntS, List.mem_append]
      rcases h with h | h
      · rcases labB lp t (i+1) l h with h | h
        · exact Or.inl (Or.inl h)
        · exact Or.inr (h.mono (by omega) (by omega))
      · rcases labE lp _ _ e _ l h with h | ⟨h, -⟩ | h | h
        · exact Or.inr ⟨_, _, h, by omega, by omega⟩
        · exact Or.inr ⟨_, _, h, by omega, by omega⟩
        · exact Or.inl (Or.inr h)
        · exact Or.inr (h.mono (by omega) (by omega))
  | .while c b, i, l, h => by
      have m1 := cntB_mono b (i+1)
      rw [lowerS_while] at h
      simp only [List.mem_cons, List.mem_append, reduceCtorEq, false_or, Stmt.label.injEq, List.not_mem_nil,
        or_false] at h
      simp only [ulS, cntS]
      rcases h with h | h | h
      · exact Or.inr ⟨_, _, h, by omega, by omega⟩
      · rcases labB _ b (i+1) l h with h | h
        · exact Or.inl h
        · exact Or.inr (h.mono (by omega) (by omega))
      · exact Or.inr ⟨_, _, h, by omega, by omega⟩
  | .for v ix vals b, i, l, h => by
      have m1 := cntB_mono b (i+1)
      rw [lowerS_for] at h
      simp only [List.mem_append, forHeader_label, forFooter_label] at h
      simp only [ulS, cntS]
      rcases h with h | h | ⟨h, -⟩ | h
      · exact Or.inr ⟨_, _, h, by omega, by omega⟩
      · rcases labB _ b (i+1) l h with h | h
        · exact Or.inl h
        · exact Or.inr (h.mono (by omega) (by omega))
      · exact Or.inr ⟨_, _, h, by omega, by omega⟩
      · exact Or.inr ⟨_, _, h, by omega, by omega⟩
theorem labB (lp : Option (Name × Name)) : ∀ (B : List SStmt) (i : Nat) (l : Name),
    Stmt.label l ∈ (lowerB lp B i).1 → l ∈ ulB B ∨ InR l i (cntB B i)
  | [], i, l, h => by simp [lowerB] at h
  | s :: ss, i, l, h => by
      have m1 := cntS_mono s i; have m2 := cntB_mono ss (cntS s i)
      rw [lowerB_cons] at h
      simp only [List.mem_append] at h
      simp only [ulB, cntB, List.mem_append]
      rcases h with h | h
      · rcases labS lp s i l h with h | h
        · exact Or.inl (Or.inl h)
        · exact Or.inr (h.mono (by omega) (by omega))
      · rcases labB lp ss _ l h with h | h
        · exact Or.inl (Or.inr h)
        · exact Or.inr (h.mono (by omega) (by omega))
theorem labE (lp : Option (Name × Name)) (cur done : Name) : ∀ (e : SElse) (i : Nat) (l : Name),
    Stmt.label l ∈ (lowerElse lp cur done e i).1 →
      l = done ∨ (l = cur ∧ e ≠ .none) ∨ l ∈ ulE e ∨ InR l i (cntE e i)
  | .none, i, l, h => by simp [lowerElse] at h; exact Or.inl h
  | .els b, i, l, h => by
      rw [lowerElse_els] at h
      simp only [List.mem_cons, List.mem_append, reduceCtorEq, false_or, Stmt.label.injEq, List.not_mem_nil,
        or_false] at h
      simp only [ulE, cntE]
      rcases h with h | h | h
      · exact Or.inr (Or.inl ⟨h, by simp⟩)
      · rcases labB lp b i l h with h | h
        · exact Or.inr (Or.inr (Or.inl h))
        · exact Or.inr (Or.inr (Or.inr h))
      · exact Or.inl h
  | .elif c t e, i, l, h => by
      have m1 := cntB_mono t (i+1); have m2 := cntE_mono e (cntB t (i+1))
      rw [lowerElse_elif] at h
      simp only [List.mem_cons, List.mem_append, reduceCtorEq, false_or, Stmt.label.injEq] at h
      simp only [ulE, cntE, List.mem_append]
      rcases h with h | h | h
      · exact Or.inr (Or.inl ⟨h, by simp⟩)
      · rcases labB lp t (i+1) l h with h | h
        · exact Or.inr (Or.inr (Or.inl (Or.inl h)))
        · exact Or.inr (Or.inr (Or.inr (h.mono (by omega) (by omega))))
      · rcases labE lp _ done e _ l h with h | ⟨h, -⟩ | h | h
        · exact Or.inl h
        · exact Or.inr (Or.inr (Or.inr ⟨_, _, h, by omega, by omega⟩))
        · exact Or.inr (Or.inr (Or.inl (Or.inr h)))
        · exact Or.inr (Or.inr (Or.inr (h.mono (by omega) (by omega))))
end

/-! ## under `NoReserved`, user labels / jump targets are not generated names -/

mutual
theorem ulS_user : ∀ (s : SStmt), noResS s = true → ∀ l ∈ ulS s, isGen l = false
  | .expr _ _, _, l, h => by simp [ulS] at h
  | .ret _, _, l, h => by simp [ulS] at h
  | .label l', hn, l, h => by simp [ulS] at h; simp [noResS] at hn; simp [h, hn]
  | .jump _ _, _, l, h => by simp [ulS] at h
  | .include _, _, l, h => by simp [ulS] at h
  | .brk, _, l, h => by simp [ulS] at h
  | .cont, _, l, h => by simp [ulS] at h
  | .func _ _ _ _ _ b, _, l, h => by simp [ulS] at h
  | .ite c t e, hn, l, h => by
      simp only [noResS, Bool.and_eq_true] at hn
      simp only [ulS, List.mem_append] at h
      rcases h with h | h
      · exact ulB_user t hn.1 l h
      · exact ulE_user e hn.2 l h
  | .while c b, hn, l, h => by simp only [noResS] at hn; simp only [ulS] at h; exact ulB_user b hn l h
  | .for v ix vals b, hn, l, h => by simp only [noResS] at hn; simp only [ulS] at h; exact ulB_user b hn l h
theorem ulB_user : ∀ (B : List SStmt), noResB B = true → ∀ l ∈ ulB B, isGen l = false
  | [], _, l, h => by simp [ulB] at h
  | s :: ss, hn, l, h => by
      simp only [noResB, Bool.and_eq_true] at hn
      simp only [ulB, List.mem_append] at h
      rcases h with h | h
      · exact ulS_user s hn.1 l h
      · exact ulB_user ss hn.2 l h
theorem ulE_user : ∀ (e : SElse), noResE e = true → ∀ l ∈ ulE e, isGen l = false
  | .none, _, l, h => by simp [ulE] at h
  | .els b, hn, l, h => by simp only [noResE] at hn; simp only [ulE] at h; exact ulB_user b hn l h
  | .elif c t e, hn, l, h => by
      simp only [noResE, Bool.and_eq_true] at hn
      simp only [ulE, List.mem_append] at h
      rcases h with h | h
      · exact ulB_user t hn.1 l h
      · exact ulE_user e hn.2 l h
end

mutual
theorem ujS_user : ∀ (s : SStmt), noResS s = true → ∀ l ∈ ujS s, isGen l = false
  | .expr _ _, _, l, h => by simp [ujS] at h
  | .ret _, _, l, h => by simp [ujS] at h
  | .jump l' _, hn, l, h => by simp [ujS] at h; simp [noResS] at hn; simp [h, hn]
  | .label _, _, l, h => by simp [ujS] at h
  | .include _, _, l, h => by simp [ujS] at h
  | .brk, _, l, h => by simp [ujS] at h
  | .cont, _, l, h => by simp [ujS] at h
  | .func _ _ _ _ _ b, _, l, h => by simp [ujS] at h
  | .ite c t e, hn, l, h => by
      simp only [noResS, Bool.and_eq_true] at hn
      simp only [ujS, List.mem_append] at h
      rcases h with h | h
      · exact ujB_user t hn.1 l h
      · exact ujE_user e hn.2 l h
  | .while c b, hn, l, h => by simp only [noResS] at hn; simp only [ujS] at h; exact ujB_user b hn l h
  | .for v ix vals b, hn, l, h => by simp only [noResS] at hn; simp only [ujS] at h; exact ujB_user b hn l h
theorem ujB_user : ∀ (B : List SStmt), noResB B = true → ∀ l ∈ ujB B, isGen l = false
  | [], _, l, h => by simp [ujB] at h
  | s :: ss, hn, l, h => by
      simp only [noResB, Bool.and_eq_true] at hn
      simp only [ujB, List.mem_append] at h
      rcases h with h | h
      · exact ujS_user s hn.1 l h
      · exact ujB_user ss hn.2 l h
theorem ujE_user : ∀ (e : SElse), noResE e = true → ∀ l ∈ ujE e, isGen l = false
  | .none, _, l, h => by simp [ujE] at h
  | .els b, hn, l, h => by simp only [noResE] at hn; simp only [ujE] at h; exact ujB_user b hn l h
  | .elif c t e, hn, l, h => by
      simp only [noResE, Bool.and_eq_true] at hn
      simp only [ujE, List.mem_append] at h
      rcases h with h | h
      · exact ujB_user t hn.1 l h
      · exact ujE_user e hn.2 l h
end

/-- generated labels of a lowered statement are in range (under `NoReserved`) -/
theorem glS {lp s i l} (hn : noResS s = true) (h : l ∈ genLabels (lowerS lp s i).1) : InR l i (cntS s i) := by
  rw [mem_genLabels] at h
  rcases labS lp s i l h.1 with h1 | h1
  · have := ulS_user s hn l h1; simp [this] at h
  · exact h1

theorem glB {lp B i l} (hn : noResB B = true) (h : l ∈ genLabels (lowerB lp B i).1) : InR l i (cntB B i) := by
  rw [mem_genLabels] at h
  rcases labB lp B i l h.1 with h1 | h1
  · have := ulB_user B hn l h1; simp [this] at h
  · exact h1

theorem glE {lp cur done e i l} (hn : noResE e = true) (h : l ∈ genLabels (lowerElse lp cur done e i).1) :
    l = done ∨ l = cur ∨ InR l i (cntE e i) := by
  rw [mem_genLabels] at h
  rcases labE lp cur done e i l h.1 with h1 | h1 | h1 | h1
  · exact Or.inl h1
  · exact Or.inr (Or.inl h1.1)
  · have := ulE_user e hn l h1; simp [this] at h
  · exact Or.inr (Or.inr h1)

/-! ## I3 — generated labels of a scope are pairwise distinct -/

@[simp] theorem InR_gen_iff {k n i j} : InR (.gen k n) i j ↔ i ≤ n ∧ n < j := by
  constructor
  · rintro ⟨k', n', h, h1, h2⟩; cases h; exact ⟨h1, h2⟩
  · rintro ⟨h1, h2⟩; exact ⟨k, n, rfl, h1, h2⟩

theorem InR.disj {x : Name} {a b c d : Nat} (h1 : InR x a b) (h2 : InR x c d) (h : b ≤ c) : False := by
  obtain ⟨k, n, rfl, h3, h4⟩ := h1
  simp at h2; omega

@[simp] theorem genLabels_nil : genLabels [] = [] := rfl
@[simp] theorem genLabels_jump (t c r) : genLabels (.jump t c :: r) = genLabels r := rfl
@[simp] theorem genLabels_expr (n e r) : genLabels (.expr n e :: r) = genLabels r := rfl
@[simp] theorem genLabels_function (a b c d e f r) : genLabels (.function a b c d e f :: r) = genLabels r := rfl
@[simp] theorem genLabels_gen (k n r) : genLabels (.label (.gen k n) :: r) = .gen k n :: genLabels r := by
  simp [genLabels, labelsOf, List.filter_cons, isGen]

mutual
theorem ndS (lp : Option (Name × Name)) : ∀ (s : SStmt) (i : Nat), noResS s = true →
    (genLabels (lowerS lp s i).1).Nodup
  | .expr _ _, i, _ => by simp [lowerS, genLabels, labelsOf]
  | .ret _, i, _ => by simp [lowerS, genLabels, labelsOf]
  | .label l', i, _ => by
      simp only [lowerS, genLabels, labelsOf]
      cases h : isGen l' <;> simp [h]
  | .jump _ _, i, _ => by simp [lowerS, genLabels, labelsOf]
  | .include _, i, _ => by simp [lowerS, genLabels, labelsOf]
  | .brk, i, _ => by cases lp <;> simp [lowerS, genLabels, labelsOf]
  | .cont, i, _ => by cases lp <;> simp [lowerS, genLabels, labelsOf]
  | .func _ _ _ _ _ b, i, _ => by simp [lowerS]
  | .ite c t e, i, hn => by
      have m1 := cntB_mono t (i+1)
      simp only [noResS, Bool.and_eq_true] at hn
      rw [lowerS_ite, genLabels_jump, genLabels_append, List.nodup_append]
      refine ⟨ndB lp t (i+1) hn.1, ndE lp i i e _ hn.2 (by omega) (by omega), ?_⟩
      rintro x hx y hy rfl
      have h1 := glB hn.1 hx
      rcases glE hn.2 hy with h2 | h2 | h2
      · subst h2; simp [lDone] at h1; omega
      · subst h2; simp [lIf] at h1; omega
      · exact h1.disj h2 (Nat.le_refl _)
  | .while c b, i, hn => by
      simp only [noResS] at hn
      rw [lowerS_while, genLabels_jump]
      simp only [lLoop, lDone, genLabels_gen, genLabels_append, genLabels_jump, genLabels_nil]
      rw [List.nodup_cons, List.nodup_append]
      refine ⟨?_, ndB _ b (i+1) hn, by simp, ?_⟩
      · simp only [List.mem_append, List.mem_singleton, Name.gen.injEq, reduceCtorEq, false_and, or_false]
        intro hx
        have := glB hn hx; simp at this; omega
      · rintro x hx y hy rfl
        simp only [List.mem_singleton] at hy
        subst hy
        have := glB hn hx; simp at this; omega
  | .for v ix vals b, i, hn => by
      simp only [noResS] at hn
      rw [lowerS_for]
      have hb := ndB (some (lDone i, lCont i)) b (i+1) hn
      have hr : ∀ k, Name.gen k i ∉ genLabels (lowerB (some (lDone i, lCont i)) b (i+1)).1 := by
        intro k hx
        have := glB hn hx; simp at this; omega
      simp only [lDone, lCont] at hb hr
      cases hc : usesContB b <;>
        simp only [forHeader, forFooter, lLoop, lDone, lCont, genLabels_gen, genLabels_append, genLabels_jump, genLabels_nil,
          genLabels_expr, List.cons_append, List.nil_append, if_true, if_false, Bool.false_eq_true] <;>
        rw [List.nodup_cons, List.nodup_append] <;>
        refine ⟨?_, hb, by simp, ?_⟩
      · simp [hr]
      · intro x hx y hy hxy; subst hxy; simp at hy; subst hy; exact hr _ hx
      · simp [hr]
      · intro x hx y hy hxy; subst hxy; simp at hy; rcases hy with rfl | rfl <;> exact hr _ hx
theorem ndB (lp : Option (Name × Name)) : ∀ (B : List SStmt) (i : Nat), noResB B = true →
    (genLabels (lowerB lp B i).1).Nodup
  | [], i, _ => by simp [lowerB]
  | s :: ss, i, hn => by
      simp only [noResB, Bool.and_eq_true] at hn
      rw [lowerB_cons, genLabels_append, List.nodup_append]
      refine ⟨ndS lp s i hn.1, ndB lp ss _ hn.2, ?_⟩
      rintro x hx y hy rfl
      exact (glS hn.1 hx).disj (glB hn.2 hy) (Nat.le_refl _)
theorem ndE (lp : Option (Name × Name)) (a d : Nat) : ∀ (e : SElse) (i : Nat), noResE e = true → a < i → d < i →
    (genLabels (lowerElse lp (lIf a) (lDone d) e i).1).Nodup
  | .none, i, _, _, _ => by simp [lowerElse, lDone]
  | .els b, i, hn, ha, hd => by
      simp only [noResE] at hn
      rw [lowerElse_els]
      simp only [lIf, lDone, genLabels_gen, genLabels_append, genLabels_jump, genLabels_nil]
      rw [List.nodup_cons, List.nodup_append]
      refine ⟨?_, ndB _ b i hn, by simp, ?_⟩
      · simp only [List.mem_append, List.mem_singleton, Name.gen.injEq, reduceCtorEq, false_and, or_false]
        intro hx
        have := glB hn hx; simp at this; omega
      · rintro x hx y hy rfl
        simp only [List.mem_singleton] at hy
        subst hy
        have := glB hn hx; simp at this; omega
  | .elif c t e, i, hn, ha, hd => by
      have m1 := cntB_mono t (i+1)
      simp only [noResE, Bool.and_eq_true] at hn
      rw [lowerElse_elif]
      simp only [lIf, genLabels_gen, genLabels_append, genLabels_jump]
      rw [List.nodup_cons, List.nodup_append]
      refine ⟨?_, ndB lp t (i+1) hn.1, ndE lp i d e _ hn.2 (by omega) (by omega), ?_⟩
      · simp only [List.mem_append, not_or]
        constructor
        · intro hx; have := glB hn.1 hx; simp at this; omega
        · intro hy
          rcases glE hn.2 hy with h2 | h2 | h2
          · simp [lDone] at h2
          · simp at h2; omega
          · simp at h2; omega
      · rintro x hx y hy rfl
        have h1 := glB hn.1 hx
        rcases glE hn.2 hy with h2 | h2 | h2
        · subst h2; simp [lDone] at h1; omega
        · subst h2; simp at h1; omega
        · exact h1.disj h2 (Nat.le_refl _)
end

/-! ## I4 — jumps: every jump of the scope targets a user-written target, a label the enclosing loop supplies, or a
label defined in the same scope -/

/-- `t` is supplied by the enclosing loop: its break target, or its continue target if a `continue` binds to it -/
def LpJ (lp : Option (Name × Name)) (uc : Bool) (t : Name) : Prop :=
  ∃ x c, lp = some (x, c) ∧ (t = x ∨ (t = c ∧ uc = true))

theorem LpJ.mono {lp uc uc' t} (h : LpJ lp uc t) (hu : uc = true → uc' = true) : LpJ lp uc' t := by
  obtain ⟨x, c, h1, h2⟩ := h
  exact ⟨x, c, h1, h2.imp id (fun h => ⟨h.1, hu h.2⟩)⟩

theorem LpJ.none {uc t} : ¬ LpJ none uc t := by rintro ⟨x, c, h, -⟩; cases h

theorem doneE (lp cur done) : ∀ (e : SElse) (i : Nat), Stmt.label done ∈ (lowerElse lp cur done e i).1
  | .none, i => by simp [lowerElse]
  | .els b, i => by rw [lowerElse_els]; simp
  | .elif c t e, i => by
      rw [lowerElse_elif]
      have := doneE lp (lIf i) done e (cntB t (i+1))
      simp [this]

theorem curE (lp cur done) : ∀ (e : SElse) (i : Nat), e ≠ .none → Stmt.label cur ∈ (lowerElse lp cur done e i).1
  | .none, i, h => absurd rfl h
  | .els b, i, _ => by rw [lowerElse_els]; simp
  | .elif c t e, i, _ => by rw [lowerElse_elif]; simp

theorem ifTarget_label (lp done) (e : SElse) (i j : Nat) :
    Stmt.label (ifTarget e i done) ∈ (lowerElse lp (lIf i) done e j).1 := by
  by_cases h : e = .none
  · subst h; exact doneE ..
  · rw [ifTarget_ne h]; exact curE _ _ _ e j h

mutual
theorem jmpS (lp : Option (Name × Name)) : ∀ (s : SStmt) (i : Nat) (t : Name) (c : Option Expr),
    Stmt.jump t c ∈ (lowerS lp s i).1 →
      t ∈ ujS s ∨ LpJ lp (usesContS s) t ∨ Stmt.label t ∈ (lowerS lp s i).1
  | .expr _ _, i, t, c, h => by simp [lowerS] at h
  | .ret _, i, t, c, h => by simp [lowerS] at h
  | .label _, i, t, c, h => by simp [lowerS] at h
  | .jump l' c', i, t, c, h => by simp [lowerS] at h; simp [ujS, h.1]
  | .include _, i, t, c, h => by simp [lowerS] at h
  | .brk, i, t, c, h => by
      cases lp with
      | none => simp [lowerS] at h
      | some p => simp [lowerS] at h; exact Or.inr (Or.inl ⟨p.1, p.2, rfl, Or.inl h.1⟩)
  | .cont, i, t, c, h => by
      cases lp with
      | none => simp [lowerS] at h
      | some p => simp [lowerS] at h; exact Or.inr (Or.inl ⟨p.1, p.2, rfl, Or.inr ⟨h.1, by simp [usesContS]⟩⟩)
  | .func _ _ _ _ _ b, i, t, c, h => by simp [lowerS] at h
  | .ite c' t' e, i, t, c, h => by
      rw [lowerS_ite] at h ⊢
      simp only [List.mem_cons, List.mem_append, Stmt.jump.injEq, reduceCtorEq, false_or] at h ⊢
      simp only [ujS, usesContS, List.mem_append]
      rcases h with h | h | h
      · rw [h.1]; exact Or.inr (Or.inr (Or.inr (ifTarget_label ..)))
      · rcases jmpB lp t' (i+1) t c h with h | h | h
        · exact Or.inl (Or.inl h)
        · exact Or.inr (Or.inl (h.mono (by simp; intro h; exact Or.inl h)))
        · exact Or.inr (Or.inr (Or.inl h))
      · rcases jmpE lp _ _ e _ t c h with h | h | h
        · exact Or.inl (Or.inr h)
        · exact Or.inr (Or.inl (h.mono (by simp; intro h; exact Or.inr h)))
        · exact Or.inr (Or.inr (Or.inr h))
  | .while c' b, i, t, c, h => by
      rw [lowerS_while] at h ⊢
      simp only [List.mem_cons, List.mem_append, Stmt.jump.injEq, reduceCtorEq, false_or, List.not_mem_nil, or_false,
        Stmt.label.injEq] at h ⊢
      simp only [ujS]
      rcases h with h | h | h
      · exact Or.inr (Or.inr (Or.inr (Or.inr h.1)))
      · rcases jmpB _ b (i+1) t c h with h | h | h
        · exact Or.inl h
        · obtain ⟨x, y, h1, h2⟩ := h
          cases h1
          rcases h2 with h2 | h2
          · exact Or.inr (Or.inr (Or.inr (Or.inr h2)))
          · exact Or.inr (Or.inr (Or.inl h2.1))
        · exact Or.inr (Or.inr (Or.inr (Or.inl h)))
      · exact Or.inr (Or.inr (Or.inl h.1))
  | .for v ix vals b, i, t, c, h => by
      rw [lowerS_for] at h ⊢
      simp only [List.mem_append, forHeader_label, forFooter_label] at h ⊢
      simp only [ujS]
      rcases h with h | h | h
      · exact Or.inr (Or.inr (Or.inr (Or.inr (Or.inr (forHeader_jump h)))))
      · rcases jmpB _ b (i+1) t c h with h | h | h
        · exact Or.inl h
        · obtain ⟨x, y, h1, h2⟩ := h
          cases h1
          rcases h2 with h2 | h2
          · exact Or.inr (Or.inr (Or.inr (Or.inr (Or.inr h2))))
          · exact Or.inr (Or.inr (Or.inr (Or.inr (Or.inl h2))))
        · exact Or.inr (Or.inr (Or.inr (Or.inl h)))
      · exact Or.inr (Or.inr (Or.inl (forFooter_jump h)))
theorem jmpB (lp : Option (Name × Name)) : ∀ (B : List SStmt) (i : Nat) (t : Name) (c : Option Expr),
    Stmt.jump t c ∈ (lowerB lp B i).1 →
      t ∈ ujB B ∨ LpJ lp (usesContB B) t ∨ Stmt.label t ∈ (lowerB lp B i).1
  | [], i, t, c, h => by simp [lowerB] at h
  | s :: ss, i, t, c, h => by
      rw [lowerB_cons] at h ⊢
      simp only [List.mem_append] at h ⊢
      simp only [ujB, usesContB, List.mem_append]
      rcases h with h | h
      · rcases jmpS lp s i t c h with h | h | h
        · exact Or.inl (Or.inl h)
        · exact Or.inr (Or.inl (h.mono (by simp; intro h; exact Or.inl h)))
        · exact Or.inr (Or.inr (Or.inl h))
      · rcases jmpB lp ss _ t c h with h | h | h
        · exact Or.inl (Or.inr h)
        · exact Or.inr (Or.inl (h.mono (by simp; intro h; exact Or.inr h)))
        · exact Or.inr (Or.inr (Or.inr h))
theorem jmpE (lp : Option (Name × Name)) (cur done : Name) : ∀ (e : SElse) (i : Nat) (t : Name) (c : Option Expr),
    Stmt.jump t c ∈ (lowerElse lp cur done e i).1 →
      t ∈ ujE e ∨ LpJ lp (usesContE e) t ∨ Stmt.label t ∈ (lowerElse lp cur done e i).1
  | .none, i, t, c, h => by simp [lowerElse] at h
  | .els b, i, t, c, h => by
      rw [lowerElse_els] at h ⊢
      simp only [List.mem_cons, List.mem_append, Stmt.jump.injEq, reduceCtorEq, false_or, List.not_mem_nil, or_false,
        Stmt.label.injEq] at h ⊢
      simp only [ujE, usesContE]
      rcases h with h | h
      · exact Or.inr (Or.inr (Or.inr (Or.inr h.1)))
      · rcases jmpB lp b i t c h with h | h | h
        · exact Or.inl h
        · exact Or.inr (Or.inl h)
        · exact Or.inr (Or.inr (Or.inr (Or.inl h)))
  | .elif c' t' e, i, t, c, h => by
      rw [lowerElse_elif] at h ⊢
      simp only [List.mem_cons, List.mem_append, Stmt.jump.injEq, reduceCtorEq, false_or, Stmt.label.injEq] at h ⊢
      simp only [ujE, usesContE, List.mem_append]
      rcases h with h | h | h | h
      · rw [h.1]; exact Or.inr (Or.inr (Or.inr (Or.inr (doneE ..))))
      · rw [h.1]; exact Or.inr (Or.inr (Or.inr (Or.inr (ifTarget_label ..))))
      · rcases jmpB lp t' (i+1) t c h with h | h | h
        · exact Or.inl (Or.inl h)
        · exact Or.inr (Or.inl (h.mono (by simp; intro h; exact Or.inl h)))
        · exact Or.inr (Or.inr (Or.inr (Or.inl h)))
      · rcases jmpE lp _ done e _ t c h with h | h | h
        · exact Or.inl (Or.inr h)
        · exact Or.inr (Or.inl (h.mono (by simp; intro h; exact Or.inr h)))
        · exact Or.inr (Or.inr (Or.inr (Or.inr h)))
end

/-! ## I6 — a `continue` that binds to the enclosing loop emits a jump to that loop's continue target -/

mutual
theorem ucS (x cl : Name) : ∀ (s : SStmt) (i : Nat), usesContS s = true →
    ∃ c, Stmt.jump cl c ∈ (lowerS (some (x, cl)) s i).1
  | .cont, i, _ => ⟨none, by simp [lowerS]⟩
  | .ite c t e, i, h => by
      simp only [usesContS, Bool.or_eq_true] at h
      rw [lowerS_ite]
      rcases h with h | h
      · obtain ⟨c', hc⟩ := ucB x cl t (i+1) h
        exact ⟨c', by simp [hc]⟩
      · obtain ⟨c', hc⟩ := ucE x cl (lIf i) (lDone i) e (cntB t (i+1)) h
        exact ⟨c', by simp [hc]⟩
  | .expr _ _, i, h => by simp [usesContS] at h
  | .ret _, i, h => by simp [usesContS] at h
  | .label _, i, h => by simp [usesContS] at h
  | .jump _ _, i, h => by simp [usesContS] at h
  | .include _, i, h => by simp [usesContS] at h
  | .brk, i, h => by simp [usesContS] at h
  | .func _ _ _ _ _ _, i, h => by simp [usesContS] at h
  | .while _ _, i, h => by simp [usesContS] at h
  | .for _ _ _ _, i, h => by simp [usesContS] at h
theorem ucB (x cl : Name) : ∀ (B : List SStmt) (i : Nat), usesContB B = true →
    ∃ c, Stmt.jump cl c ∈ (lowerB (some (x, cl)) B i).1
  | [], i, h => by simp [usesContB] at h
  | s :: ss, i, h => by
      simp only [usesContB, Bool.or_eq_true] at h
      rw [lowerB_cons]
      rcases h with h | h
      · obtain ⟨c', hc⟩ := ucS x cl s i h
        exact ⟨c', by simp [hc]⟩
      · obtain ⟨c', hc⟩ := ucB x cl ss (cntS s i) h
        exact ⟨c', by simp [hc]⟩
theorem ucE (x cl cur done : Name) : ∀ (e : SElse) (i : Nat), usesContE e = true →
    ∃ c, Stmt.jump cl c ∈ (lowerElse (some (x, cl)) cur done e i).1
  | .none, i, h => by simp [usesContE] at h
  | .els b, i, h => by
      simp only [usesContE] at h
      rw [lowerElse_els]
      obtain ⟨c', hc⟩ := ucB x cl b i h
      exact ⟨c', by simp [hc]⟩
  | .elif c t e, i, h => by
      simp only [usesContE, Bool.or_eq_true] at h
      rw [lowerElse_elif]
      rcases h with h | h
      · obtain ⟨c', hc⟩ := ucB x cl t (i+1) h
        exact ⟨c', by simp [hc]⟩
      · obtain ⟨c', hc⟩ := ucE x cl (lIf i) done e (cntB t (i+1)) h
        exact ⟨c', by simp [hc]⟩
end

/-! ## I5 — every label of the scope is a user label or the target of a jump of the same scope -/

mutual
theorem tgtS (lp : Option (Name × Name)) : ∀ (s : SStmt) (i : Nat) (l : Name),
    Stmt.label l ∈ (lowerS lp s i).1 → l ∈ ulS s ∨ ∃ c, Stmt.jump l c ∈ (lowerS lp s i).1
  | .expr _ _, i, l, h => by simp [lowerS] at h
  | .ret _, i, l, h => by simp [lowerS] at h
  | .label l', i, l, h => by simp [lowerS] at h; simp [ulS, h]
  | .jump _ _, i, l, h => by simp [lowerS] at h
  | .include _, i, l, h => by simp [lowerS] at h
  | .brk, i, l, h => by cases lp <;> simp [lowerS] at h
  | .cont, i, l, h => by cases lp <;> simp [lowerS] at h
  | .func _ _ _ _ _ b, i, l, h => by simp [lowerS] at h
  | .ite c t e, i, l, h => by
      rw [lowerS_ite] at h ⊢
      simp only [List.mem_cons, List.mem_append, reduceCtorEq, false_or, Stmt.jump.injEq] at h ⊢
      simp only [ulS, List.mem_append]
      rcases h with h | h
      · rcases tgtB lp t (i+1) l h with h | ⟨c', h⟩
        · exact Or.inl (Or.inl h)
        · exact Or.inr ⟨c', Or.inr (Or.inl h)⟩
      · rcases tgtE lp _ _ e _ l h with h | ⟨c', h⟩ | ⟨h2, he⟩ | ⟨h2, he⟩
        · exact Or.inl (Or.inr h)
        · exact Or.inr ⟨c', Or.inr (Or.inr h)⟩
        · exact Or.inr ⟨_, Or.inl ⟨by rw [ifTarget_ne he, h2], rfl⟩⟩
        · exact Or.inr ⟨_, Or.inl ⟨by rw [he]; exact h2, rfl⟩⟩
  | .while c b, i, l, h => by
      rw [lowerS_while] at h ⊢
      simp only [List.mem_cons, List.mem_append, reduceCtorEq, false_or, Stmt.label.injEq, List.not_mem_nil,
        or_false, Stmt.jump.injEq] at h ⊢
      simp only [ulS]
      rcases h with h | h | h
      · exact Or.inr ⟨_, Or.inr (Or.inr ⟨h, rfl⟩)⟩
      · rcases tgtB _ b (i+1) l h with h | ⟨c', h⟩
        · exact Or.inl h
        · exact Or.inr ⟨c', Or.inr (Or.inl h)⟩
      · exact Or.inr ⟨_, Or.inl ⟨h, rfl⟩⟩
  | .for v ix vals b, i, l, h => by
      rw [lowerS_for] at h ⊢
      simp only [List.mem_append, forHeader_label, forFooter_label] at h ⊢
      simp only [ulS]
      rcases h with h | h | ⟨h, hc⟩ | h
      · subst h; exact Or.inr ⟨_, Or.inr (Or.inr (forFooter_has_jump ..))⟩
      · rcases tgtB _ b (i+1) l h with h | ⟨c', h⟩
        · exact Or.inl h
        · exact Or.inr ⟨c', Or.inr (Or.inl h)⟩
      · subst h
        obtain ⟨c', h⟩ := ucB (lDone i) (lCont i) b (i+1) hc
        exact Or.inr ⟨c', Or.inr (Or.inl h)⟩
      · subst h; exact Or.inr ⟨_, Or.inl (forHeader_has_jump ..)⟩
theorem tgtB (lp : Option (Name × Name)) : ∀ (B : List SStmt) (i : Nat) (l : Name),
    Stmt.label l ∈ (lowerB lp B i).1 → l ∈ ulB B ∨ ∃ c, Stmt.jump l c ∈ (lowerB lp B i).1
  | [], i, l, h => by simp [lowerB] at h
  | s :: ss, i, l, h => by
      rw [lowerB_cons] at h ⊢
      simp only [List.mem_append] at h ⊢
      simp only [ulB, List.mem_append]
      rcases h with h | h
      · rcases tgtS lp s i l h with h | ⟨c', h⟩
        · exact Or.inl (Or.inl h)
        · exact Or.inr ⟨c', Or.inl h⟩
      · rcases tgtB lp ss _ l h with h | ⟨c', h⟩
        · exact Or.inl (Or.inr h)
        · exact Or.inr ⟨c', Or.inr h⟩
theorem tgtE (lp : Option (Name × Name)) (cur done : Name) : ∀ (e : SElse) (i : Nat) (l : Name),
    Stmt.label l ∈ (lowerElse lp cur done e i).1 →
      l ∈ ulE e ∨ (∃ c, Stmt.jump l c ∈ (lowerElse lp cur done e i).1) ∨ (l = cur ∧ e ≠ .none) ∨ (l = done ∧ e = .none)
  | .none, i, l, h => by simp [lowerElse] at h; exact Or.inr (Or.inr (Or.inr ⟨h, rfl⟩))
  | .els b, i, l, h => by
      rw [lowerElse_els] at h ⊢
      simp only [List.mem_cons, List.mem_append, reduceCtorEq, false_or, Stmt.label.injEq, List.not_mem_nil,
        or_false, Stmt.jump.injEq] at h ⊢
      simp only [ulE]
      rcases h with h | h | h
      · exact Or.inr (Or.inr (Or.inl ⟨h, by simp⟩))
      · rcases tgtB lp b i l h with h | ⟨c', h⟩
        · exact Or.inl h
        · exact Or.inr (Or.inl ⟨c', Or.inr h⟩)
      · exact Or.inr (Or.inl ⟨_, Or.inl ⟨h, rfl⟩⟩)
  | .elif c t e, i, l, h => by
      rw [lowerElse_elif] at h ⊢
      simp only [List.mem_cons, List.mem_append, reduceCtorEq, false_or, Stmt.label.injEq, Stmt.jump.injEq] at h ⊢
      simp only [ulE, List.mem_append]
      rcases h with h | h | h
      · exact Or.inr (Or.inr (Or.inl ⟨h, by simp⟩))
      · rcases tgtB lp t (i+1) l h with h | ⟨c', h⟩
        · exact Or.inl (Or.inl h)
        · exact Or.inr (Or.inl ⟨c', Or.inr (Or.inr (Or.inl h))⟩)
      · rcases tgtE lp _ done e _ l h with h | ⟨c', h⟩ | ⟨h, he⟩ | ⟨h, he⟩
        · exact Or.inl (Or.inr h)
        · exact Or.inr (Or.inl ⟨c', Or.inr (Or.inr (Or.inr h))⟩)
        · exact Or.inr (Or.inl ⟨_, Or.inr (Or.inl ⟨by rw [ifTarget_ne he, h], rfl⟩)⟩)
        · exact Or.inr (Or.inl ⟨_, Or.inl ⟨h, rfl⟩⟩)
end

/-! ## the scopes of lowered code are the lowerings (with `lp = none`) of the structured function bodies -/

@[simp] theorem bodiesL_nil : bodiesL [] = [] := by simp [bodiesL]
@[simp] theorem bodiesL_jump (t c r) : bodiesL (.jump t c :: r) = bodiesL r := by simp [bodiesL, bodiesS]
@[simp] theorem bodiesL_label (l r) : bodiesL (.label l :: r) = bodiesL r := by simp [bodiesL, bodiesS]
@[simp] theorem bodiesL_expr (n e r) : bodiesL (.expr n e :: r) = bodiesL r := by simp [bodiesL, bodiesS]
@[simp] theorem bodiesL_ret (e r) : bodiesL (.ret e :: r) = bodiesL r := by simp [bodiesL, bodiesS]
@[simp] theorem bodiesL_include (e r) : bodiesL (.include e :: r) = bodiesL r := by simp [bodiesL, bodiesS]
@[simp] theorem bodiesL_function (a b c d e f r) :
    bodiesL (.function a b c d e f :: r) = f :: (bodiesL f ++ bodiesL r) := by simp [bodiesL, bodiesS]

@[simp] theorem bodiesL_forHeader (i v ix vals) : bodiesL (forHeader i v ix vals) = [] := by simp [forHeader]
@[simp] theorem bodiesL_forFooter (i ix hc) : bodiesL (forFooter i ix hc) = [] := by cases hc <;> simp [forFooter]

/-- `body` is the lowering (no enclosing loop) of a structured function body from `F`, with counter range inside `[i, j)` -/
def IsLowered (F : List (List SStmt)) (i j : Nat) (body : List Stmt) : Prop :=
  ∃ b k, b ∈ F ∧ body = (lowerB none b k).1 ∧ i ≤ k ∧ cntB b k ≤ j

theorem IsLowered.mono {F F' : List (List SStmt)} {a b i j body} (h : IsLowered F a b body)
    (hF : ∀ x ∈ F, x ∈ F') (h1 : i ≤ a) (h2 : b ≤ j) : IsLowered F' i j body := by
  obtain ⟨x, k, hx, hb, h3, h4⟩ := h
  exact ⟨x, k, hF x hx, hb, by omega, by omega⟩

mutual
theorem scS (lp : Option (Name × Name)) : ∀ (s : SStmt) (i : Nat) (body : List Stmt),
    body ∈ bodiesL (lowerS lp s i).1 → IsLowered (fbS s) i (cntS s i) body
  | .expr _ _, i, body, h => by simp [lowerS] at h
  | .ret _, i, body, h => by simp [lowerS] at h
  | .label _, i, body, h => by simp [lowerS] at h
  | .jump _ _, i, body, h => by simp [lowerS] at h
  | .include _, i, body, h => by simp [lowerS] at h
  | .brk, i, body, h => by cases lp <;> simp [lowerS] at h
  | .cont, i, body, h => by cases lp <;> simp [lowerS] at h
  | .func _ _ _ _ _ b, i, body, h => by
      rw [lowerS_func] at h
      simp only [bodiesL_function, bodiesL_nil, List.append_nil, List.mem_cons] at h
      simp only [fbS, cntS]
      rcases h with h | h
      · exact ⟨b, i, by simp, h, Nat.le_refl _, Nat.le_refl _⟩
      · exact (scB none b i body h).mono (fun x hx => by simp [hx]) (Nat.le_refl _) (Nat.le_refl _)
  | .ite c t e, i, body, h => by
      have m1 := cntB_mono t (i+1); have m2 := cntE_mono e (cntB t (i+1))
      rw [lowerS_ite] at h
      simp only [bodiesL_jump, bodiesL_append, List.mem_append] at h
      simp only [fbS, cntS]
      rcases h with h | h
      · exact (scB lp t (i+1) body h).mono (fun x hx => by simp [hx]) (by omega) (by omega)
      · exact (scE lp _ _ e _ body h).mono (fun x hx => by simp [hx]) (by omega) (by omega)
  | .while c b, i, body, h => by
      have m1 := cntB_mono b (i+1)
      rw [lowerS_while] at h
      simp only [bodiesL_jump, bodiesL_label, bodiesL_append, bodiesL_nil, List.append_nil] at h
      simp only [fbS, cntS]
      exact (scB _ b (i+1) body h).mono (fun x hx => hx) (by omega) (by omega)
  | .for v ix vals b, i, body, h => by
      have m1 := cntB_mono b (i+1)
      rw [lowerS_for] at h
      simp only [bodiesL_append, bodiesL_forHeader, bodiesL_forFooter, List.append_nil, List.nil_append] at h
      simp only [fbS, cntS]
      exact (scB _ b (i+1) body h).mono (fun x hx => hx) (by omega) (by omega)
theorem scB (lp : Option (Name × Name)) : ∀ (B : List SStmt) (i : Nat) (body : List Stmt),
    body ∈ bodiesL (lowerB lp B i).1 → IsLowered (fbB B) i (cntB B i) body
  | [], i, body, h => by simp [lowerB] at h
  | s :: ss, i, body, h => by
      have m1 := cntS_mono s i; have m2 := cntB_mono ss (cntS s i)
      rw [lowerB_cons] at h
      simp only [bodiesL_append, List.mem_append] at h
      simp only [fbB, cntB]
      rcases h with h | h
      · exact (scS lp s i body h).mono (fun x hx => by simp [hx]) (by omega) (by omega)
      · exact (scB lp ss _ body h).mono (fun x hx => by simp [hx]) (by omega) (by omega)
theorem scE (lp : Option (Name × Name)) (cur done : Name) : ∀ (e : SElse) (i : Nat) (body : List Stmt),
    body ∈ bodiesL (lowerElse lp cur done e i).1 → IsLowered (fbE e) i (cntE e i) body
  | .none, i, body, h => by simp [lowerElse] at h
  | .els b, i, body, h => by
      rw [lowerElse_els] at h
      simp only [bodiesL_jump, bodiesL_label, bodiesL_append, bodiesL_nil, List.append_nil] at h
      simp only [fbE, cntE]
      exact scB lp b i body h
  | .elif c t e, i, body, h => by
      have m1 := cntB_mono t (i+1); have m2 := cntE_mono e (cntB t (i+1))
      rw [lowerElse_elif] at h
      simp only [bodiesL_jump, bodiesL_label, bodiesL_append, List.mem_append] at h
      simp only [fbE, cntE]
      rcases h with h | h
      · exact (scB lp t (i+1) body h).mono (fun x hx => by simp [hx]) (by omega) (by omega)
      · exact (scE lp _ done e _ body h).mono (fun x hx => by simp [hx]) (by omega) (by omega)
end

/-- every scope of the lowered program is the lowering, with no enclosing loop, of a structured scope -/
theorem scopes_lowerProgram (B : List SStmt) (sc : List Stmt) (h : sc ∈ scopes (lowerProgram B)) :
    IsLowered (sscopes B) 0 (cntB B 0) sc := by
  simp only [scopes, lowerProgram, List.mem_cons] at h
  rcases h with h | h
  · exact ⟨B, 0, by simp [sscopes], h, Nat.le_refl _, Nat.le_refl _⟩
  · exact (scB none B 0 sc h).mono (fun x hx => by simp [sscopes, hx]) (Nat.le_refl _) (Nat.le_refl _)

/-! ## hereditary hypotheses -/

mutual
theorem noResS_fb : ∀ (s : SStmt), noResS s = true → ∀ b ∈ fbS s, noResB b = true
  | .expr _ _, _, b, h => by simp [fbS] at h
  | .ret _, _, b, h => by simp [fbS] at h
  | .label _, _, b, h => by simp [fbS] at h
  | .jump _ _, _, b, h => by simp [fbS] at h
  | .include _, _, b, h => by simp [fbS] at h
  | .brk, _, b, h => by simp [fbS] at h
  | .cont, _, b, h => by simp [fbS] at h
  | .func _ _ _ _ _ b', hn, b, h => by
      simp only [noResS] at hn
      simp only [fbS, List.mem_cons] at h
      rcases h with h | h
      · rw [h]; exact hn
      · exact noResB_fb b' hn b h
  | .ite c t e, hn, b, h => by
      simp only [noResS, Bool.and_eq_true] at hn
      simp only [fbS, List.mem_append] at h
      rcases h with h | h
      · exact noResB_fb t hn.1 b h
      · exact noResE_fb e hn.2 b h
  | .while c b', hn, b, h => by simp only [noResS] at hn; simp only [fbS] at h; exact noResB_fb b' hn b h
  | .for v ix vals b', hn, b, h => by simp only [noResS] at hn; simp only [fbS] at h; exact noResB_fb b' hn b h
theorem noResB_fb : ∀ (B : List SStmt), noResB B = true → ∀ b ∈ fbB B, noResB b = true
  | [], _, b, h => by simp [fbB] at h
  | s :: ss, hn, b, h => by
      simp only [noResB, Bool.and_eq_true] at hn
      simp only [fbB, List.mem_append] at h
      rcases h with h | h
      · exact noResS_fb s hn.1 b h
      · exact noResB_fb ss hn.2 b h
theorem noResE_fb : ∀ (e : SElse), noResE e = true → ∀ b ∈ fbE e, noResB b = true
  | .none, _, b, h => by simp [fbE] at h
  | .els b', hn, b, h => by simp only [noResE] at hn; simp only [fbE] at h; exact noResB_fb b' hn b h
  | .elif c t e, hn, b, h => by
      simp only [noResE, Bool.and_eq_true] at hn
      simp only [fbE, List.mem_append] at h
      rcases h with h | h
      · exact noResB_fb t hn.1 b h
      · exact noResE_fb e hn.2 b h
end

theorem NoReserved.sscopes {B : List SStmt} (h : NoReserved B) : ∀ b ∈ sscopes B, NoReserved b := by
  intro b hb
  simp only [C07.sscopes, List.mem_cons] at hb
  rcases hb with hb | hb
  · rw [hb]; exact h
  · exact noResB_fb B h b hb

/-! ## I7 — under `NoReserved` the non-generated labels of the lowered scope are exactly the user's labels, in order -/

/-- the labels of a scope that are not generated names -/
def userLabels (L : List Stmt) : List Name := (labelsOf L).filter (fun l => !isGen l)

@[simp] theorem userLabels_nil : userLabels [] = [] := rfl
@[simp] theorem userLabels_jump (t c r) : userLabels (.jump t c :: r) = userLabels r := rfl
@[simp] theorem userLabels_expr (n e r) : userLabels (.expr n e :: r) = userLabels r := rfl
@[simp] theorem userLabels_ret (e r) : userLabels (.ret e :: r) = userLabels r := rfl
@[simp] theorem userLabels_include (e r) : userLabels (.include e :: r) = userLabels r := rfl
@[simp] theorem userLabels_function (a b c d e f r) : userLabels (.function a b c d e f :: r) = userLabels r := rfl
@[simp] theorem userLabels_gen (k n r) : userLabels (.label (.gen k n) :: r) = userLabels r := by
  simp [userLabels, labelsOf, isGen]
theorem userLabels_label {l : Name} (h : isGen l = false) (r) : userLabels (.label l :: r) = l :: userLabels r := by
  simp [userLabels, labelsOf, h]
theorem userLabels_label_gen {l : Name} (h : isGen l = true) (r) : userLabels (.label l :: r) = userLabels r := by
  simp [userLabels, labelsOf, h]
theorem userLabels_append (A B : List Stmt) : userLabels (A ++ B) = userLabels A ++ userLabels B := by
  simp [userLabels, labelsOf_append]
@[simp] theorem userLabels_forHeader (i v ix vals) : userLabels (forHeader i v ix vals) = [] := by
  simp [forHeader, lLoop]
@[simp] theorem userLabels_forFooter (i ix hc) : userLabels (forFooter i ix hc) = [] := by
  cases hc <;> simp [forFooter, lCont, lDone]

theorem mem_userLabels {l : Name} {L : List Stmt} : l ∈ userLabels L ↔ Stmt.label l ∈ L ∧ isGen l = false := by
  simp [userLabels, mem_labelsOf]

mutual
theorem usrS (lp : Option (Name × Name)) : ∀ (s : SStmt) (i : Nat), noResS s = true →
    userLabels (lowerS lp s i).1 = ulS s
  | .expr _ _, i, _ => by simp [lowerS, ulS]
  | .ret _, i, _ => by simp [lowerS, ulS]
  | .label l', i, hn => by
      simp only [noResS, Bool.not_eq_true'] at hn
      simp [lowerS, ulS, userLabels_label hn]
  | .jump _ _, i, _ => by simp [lowerS, ulS]
  | .include _, i, _ => by simp [lowerS, ulS]
  | .brk, i, _ => by cases lp <;> simp [lowerS, ulS]
  | .cont, i, _ => by cases lp <;> simp [lowerS, ulS]
  | .func _ _ _ _ _ b, i, _ => by simp [lowerS, ulS]
  | .ite c t e, i, hn => by
      simp only [noResS, Bool.and_eq_true] at hn
      rw [lowerS_ite, userLabels_jump, userLabels_append, usrB lp t (i+1) hn.1,
        usrE lp _ _ rfl rfl e _ hn.2, ulS]
  | .while c b, i, hn => by
      simp only [noResS] at hn
      rw [lowerS_while]
      simp only [lLoop, lDone, userLabels_jump, userLabels_gen, userLabels_append, userLabels_nil, List.append_nil]
      rw [usrB _ b (i+1) hn, ulS]
  | .for v ix vals b, i, hn => by
      simp only [noResS] at hn
      rw [lowerS_for]
      simp only [userLabels_append, userLabels_forHeader, userLabels_forFooter, List.append_nil, List.nil_append]
      rw [usrB _ b (i+1) hn, ulS]
theorem usrB (lp : Option (Name × Name)) : ∀ (B : List SStmt) (i : Nat), noResB B = true →
    userLabels (lowerB lp B i).1 = ulB B
  | [], i, _ => by simp [lowerB, ulB]
  | s :: ss, i, hn => by
      simp only [noResB, Bool.and_eq_true] at hn
      rw [lowerB_cons, userLabels_append, usrS lp s i hn.1, usrB lp ss _ hn.2, ulB]
theorem usrE (lp : Option (Name × Name)) (cur done : Name) (hc : isGen cur = true) (hd : isGen done = true) :
    ∀ (e : SElse) (i : Nat), noResE e = true → userLabels (lowerElse lp cur done e i).1 = ulE e
  | .none, i, _ => by simp [lowerElse, ulE, userLabels_label_gen hd]
  | .els b, i, hn => by
      simp only [noResE] at hn
      rw [lowerElse_els]
      simp only [userLabels_jump, userLabels_label_gen hc, userLabels_append, userLabels_label_gen hd, userLabels_nil,
        List.append_nil]
      rw [usrB lp b i hn, ulE]
  | .elif c t e, i, hn => by
      simp only [noResE, Bool.and_eq_true] at hn
      rw [lowerElse_elif]
      simp only [userLabels_jump, userLabels_label_gen hc, userLabels_append]
      rw [usrB lp t (i+1) hn.1, usrE lp _ done rfl hd e _ hn.2, ulE]
end

theorem nodup_of_filter {α : Type} (p : α → Bool) : ∀ {l : List α},
    (l.filter p).Nodup → (l.filter (fun x => !p x)).Nodup → l.Nodup
  | [], _, _ => List.nodup_nil
  | a :: r, h1, h2 => by
      cases hp : p a
      · simp only [List.filter_cons, hp, Bool.false_eq_true, if_false, Bool.not_false, if_true, List.nodup_cons] at h1 h2
        refine List.nodup_cons.2 ⟨fun ha => h2.1 (List.mem_filter.2 ⟨ha, by simp [hp]⟩), nodup_of_filter p h1 h2.2⟩
      · simp only [List.filter_cons, hp, if_true, Bool.not_true, Bool.false_eq_true, if_false, List.nodup_cons] at h1 h2
        refine List.nodup_cons.2 ⟨fun ha => h1.1 (List.mem_filter.2 ⟨ha, hp⟩), nodup_of_filter p h1.2 h2⟩

/-- all labels of a lowered scope are pairwise distinct if the user's own labels are -/
theorem labels_nodup (B : List SStmt) (i : Nat) (hn : noResB B = true) (hu : (ulB B).Nodup) :
    (labelsOf (lowerB none B i).1).Nodup := by
  apply nodup_of_filter isGen
  · exact ndB none B i hn
  · have := usrB none B i hn
    rw [userLabels] at this
    rw [this]; exact hu

/-! ## schema: include lists are never empty -/

mutual
/-- no `include` statement with an empty list, in this statement and (recursively) in function bodies -/
def incNES : Stmt → Bool
  | .include incs => !incs.isEmpty
  | .function _ _ _ _ _ body => incNEL body
  | _ => true
def incNEL : List Stmt → Bool
  | [] => true
  | s :: r => incNES s && incNEL r
end

theorem incNEL_append (A B : List Stmt) : incNEL (A ++ B) = (incNEL A && incNEL B) := by
  induction A with
  | nil => simp [incNEL]
  | cons s r ih => simp [incNEL, ih, Bool.and_assoc]

theorem incNEL_forHeader (i v ix vals) : incNEL (forHeader i v ix vals) = true := by simp [forHeader, incNEL, incNES]
theorem incNEL_forFooter (i ix hc) : incNEL (forFooter i ix hc) = true := by cases hc <;> simp [forFooter, incNEL, incNES]

mutual
theorem incS (lp : Option (Name × Name)) : ∀ (s : SStmt) (i : Nat), incOkS s = true → incNEL (lowerS lp s i).1 = true
  | .expr _ _, i, _ => by simp [lowerS, incNEL, incNES]
  | .ret _, i, _ => by simp [lowerS, incNEL, incNES]
  | .label _, i, _ => by simp [lowerS, incNEL, incNES]
  | .jump _ _, i, _ => by simp [lowerS, incNEL, incNES]
  | .include incs, i, h => by simp only [incOkS] at h; simp [lowerS, incNEL, incNES, h]
  | .brk, i, _ => by cases lp <;> simp [lowerS, incNEL, incNES]
  | .cont, i, _ => by cases lp <;> simp [lowerS, incNEL, incNES]
  | .func _ _ _ _ _ b, i, h => by
      simp only [incOkS] at h
      simp [lowerS_func, incNEL, incNES, incB none b i h]
  | .ite c t e, i, h => by
      simp only [incOkS, Bool.and_eq_true] at h
      rw [lowerS_ite]
      simp [incNEL, incNES, incNEL_append, incB lp t (i+1) h.1, incE lp _ _ e _ h.2]
  | .while c b, i, h => by
      simp only [incOkS] at h
      rw [lowerS_while]
      simp [incNEL, incNES, incNEL_append, incB _ b (i+1) h]
  | .for v ix vals b, i, h => by
      simp only [incOkS] at h
      rw [lowerS_for]
      simp [incNEL_append, incNEL_forHeader, incNEL_forFooter, incB _ b (i+1) h]
theorem incB (lp : Option (Name × Name)) : ∀ (B : List SStmt) (i : Nat), incOkB B = true → incNEL (lowerB lp B i).1 = true
  | [], i, _ => by simp [lowerB, incNEL]
  | s :: ss, i, h => by
      simp only [incOkB, Bool.and_eq_true] at h
      rw [lowerB_cons]
      simp [incNEL_append, incS lp s i h.1, incB lp ss _ h.2]
theorem incE (lp : Option (Name × Name)) (cur done : Name) : ∀ (e : SElse) (i : Nat), incOkE e = true →
    incNEL (lowerElse lp cur done e i).1 = true
  | .none, i, _ => by simp [lowerElse, incNEL, incNES]
  | .els b, i, h => by
      simp only [incOkE] at h
      rw [lowerElse_els]
      simp [incNEL, incNES, incNEL_append, incB lp b i h]
  | .elif c t e, i, h => by
      simp only [incOkE, Bool.and_eq_true] at h
      rw [lowerElse_elif]
      simp [incNEL, incNES, incNEL_append, incB lp t (i+1) h.1, incE lp _ done e _ h.2]
end

/-- `incNEL` says what it should: no scope contains `include []` -/
theorem incNEL_mem : ∀ (P : List Stmt), incNEL P = true → Stmt.include [] ∉ P
  | [], _, h => by simp at h
  | s :: r, hP, h => by
      simp only [incNEL, Bool.and_eq_true] at hP
      simp only [List.mem_cons] at h
      rcases h with h | h
      · subst h; simp [incNES] at hP
      · exact incNEL_mem r hP.2 h

mutual
theorem incNES_bodies : ∀ (s : Stmt), incNES s = true → ∀ body ∈ bodiesS s, incNEL body = true
  | .function _ _ _ _ _ f, h, body, hb => by
      simp only [incNES] at h
      simp only [bodiesS, List.mem_cons] at hb
      rcases hb with hb | hb
      · rw [hb]; exact h
      · exact incNEL_bodies f h body hb
  | .expr _ _, _, body, hb => by simp [bodiesS] at hb
  | .jump _ _, _, body, hb => by simp [bodiesS] at hb
  | .ret _, _, body, hb => by simp [bodiesS] at hb
  | .label _, _, body, hb => by simp [bodiesS] at hb
  | .include _, _, body, hb => by simp [bodiesS] at hb
theorem incNEL_bodies : ∀ (P : List Stmt), incNEL P = true → ∀ body ∈ bodiesL P, incNEL body = true
  | [], _, body, hb => by simp at hb
  | s :: r, h, body, hb => by
      simp only [incNEL, Bool.and_eq_true] at h
      simp only [bodiesL, List.mem_append] at hb
      rcases hb with hb | hb
      · exact incNES_bodies s h.1 body hb
      · exact incNEL_bodies r h.2 body hb
end

/-! ### the mirror: `stepLine` never creates an empty include list (for *any* line sequence) -/

/-- the invariant: both statement lists under construction are free of empty includes -/
def PInv (s : PState) : Prop :=
  incNEL s.stmts = true ∧ ∀ f, s.func = some f → incNEL f.body = true

theorem PInv.cur {s : PState} (h : PInv s) : incNEL s.cur = true := by
  unfold PState.cur
  cases hf : s.func with
  | none => simpa [hf] using h.1
  | some f => simpa [hf] using h.2 f hf

theorem PInv.setCur {s : PState} (h : PInv s) {ss : List Stmt} (hs : incNEL ss = true) : PInv (s.setCur ss) := by
  unfold PState.setCur
  cases hf : s.func with
  | none => exact ⟨by simpa using hs, fun f hf' => by simp at hf'⟩
  | some f =>
    refine ⟨by simpa using h.1, fun f' hf' => ?_⟩
    simp only [Option.some.injEq] at hf'
    subst hf'; simpa using hs

theorem PInv.emit {s : PState} (h : PInv s) {ss : List Stmt} (hs : incNEL ss = true) : PInv (s.emit ss) := by
  unfold PState.emit
  exact h.setCur (by rw [incNEL_append, h.cur, hs]; rfl)

theorem PInv.withDefs {s : PState} (h : PInv s) (d : List LabelDef) (k : Nat) : PInv { s with defs := d, idx := k } := h

theorem PInv.withDefs' {s : PState} (h : PInv s) (d : List LabelDef) : PInv { s with defs := d } := h

theorem incNEL_set (ss : List Stmt) (n : Nat) (x : Stmt) (hx : incNES x = true) (h : incNEL ss = true) :
    incNEL (ss.set n x) = true := by
  induction ss generalizing n with
  | nil => simpa using h
  | cons a r ih =>
    simp only [incNEL, Bool.and_eq_true] at h
    cases n with
    | zero => simp [incNEL, hx, h.2]
    | succ n => simp [incNEL, h.1, ih n h.2]

theorem incNEL_retarget (ss : List Stmt) (n : Nat) (l : Name) (h : incNEL ss = true) : incNEL (retarget ss n l) = true := by
  unfold retarget
  split
  · exact incNEL_set ss n _ rfl h
  · exact h

theorem incNEL_dropLast (ss : List Stmt) (h : incNEL ss = true) : incNEL ss.dropLast = true := by
  induction ss with
  | nil => simpa using h
  | cons a r ih =>
    simp only [incNEL, Bool.and_eq_true] at h
    cases r with
    | nil => simp [incNEL]
    | cons b r' => simp only [List.dropLast_cons_cons, incNEL, Bool.and_eq_true]; exact ⟨h.1, ih h.2⟩

theorem stepLine_inv (s : PState) (ln : Line) (s' : PState) (h : PInv s) (hs : stepLine s ln = .ok s') : PInv s' := by
  cases ln with
  | assign n e => simp only [stepLine, Except.ok.injEq] at hs; subst hs; exact h.emit rfl
  | exprStmt e => simp only [stepLine, Except.ok.injEq] at hs; subst hs; exact h.emit rfl
  | label l => simp only [stepLine, Except.ok.injEq] at hs; subst hs; exact h.emit rfl
  | jump l c => simp only [stepLine, Except.ok.injEq] at hs; subst hs; exact h.emit rfl
  | ret e => simp only [stepLine, Except.ok.injEq] at hs; subst hs; exact h.emit rfl
  | «include» url sys =>
    simp only [stepLine] at hs
    split at hs
    · simp only [Except.ok.injEq] at hs; subst hs
      refine h.setCur ?_
      rw [incNEL_append, incNEL_dropLast _ h.cur]
      simp [incNEL, incNES]
    · simp only [Except.ok.injEq] at hs; subst hs
      exact h.emit (by simp [incNEL, incNES])
  | funcBegin n args laa isAsync =>
    simp only [stepLine] at hs
    split at hs
    · cases hs
    · simp only [Except.ok.injEq] at hs; subst hs
      exact ⟨h.1, fun f hf => by simp only [Option.some.injEq] at hf; subst hf; rfl⟩
  | funcEnd =>
    simp only [stepLine] at hs
    split at hs
    · cases hs
    · rename_i f hf
      split at hs
      · cases hs
      · simp only [Except.ok.injEq] at hs; subst hs
        refine ⟨?_, fun f' hf' => by simp at hf'⟩
        show incNEL (s.stmts ++ _) = true
        rw [incNEL_append, h.1]
        simp [incNEL, incNES, h.2 f hf]
  | ifBegin c =>
    simp only [stepLine, Except.ok.injEq] at hs; subst hs
    exact (h.emit (ss := [.jump (lIf s.idx) (some (notE c))]) rfl).withDefs _ _
  | elif c =>
    simp only [stepLine] at hs
    split at hs
    · split at hs
      · cases hs
      · simp only [Except.ok.injEq] at hs; subst hs
        exact (h.emit (by simp [incNEL, incNES])).withDefs _ _
    · cases hs
  | else_ =>
    simp only [stepLine] at hs
    split at hs
    · split at hs
      · cases hs
      · simp only [Except.ok.injEq] at hs; subst hs
        exact (h.emit (by simp [incNEL, incNES])).withDefs' _
    · cases hs
  | endif =>
    simp only [stepLine] at hs
    split at hs
    · simp only [Except.ok.injEq] at hs; subst hs
      refine (h.setCur ?_).withDefs' _
      rw [incNEL_append]
      split
      · simp [h.cur, incNEL, incNES]
      · simp [incNEL_retarget _ _ _ h.cur, incNEL, incNES]
    · cases hs
  | whileBegin c =>
    simp only [stepLine, Except.ok.injEq] at hs; subst hs
    exact (h.emit (by simp [incNEL, incNES])).withDefs _ _
  | endwhile =>
    simp only [stepLine] at hs
    split at hs
    · simp only [Except.ok.injEq] at hs; subst hs
      exact (h.emit (by simp [incNEL, incNES])).withDefs' _
    · cases hs
  | forBegin v ix vals =>
    simp only [stepLine, Except.ok.injEq] at hs; subst hs
    exact (h.emit (incNEL_forHeader ..)).withDefs _ _
  | endfor =>
    simp only [stepLine] at hs
    split at hs
    · simp only [Except.ok.injEq] at hs; subst hs
      exact (h.emit (incNEL_forFooter ..)).withDefs' _
    · cases hs
  | break_ =>
    simp only [stepLine] at hs
    split at hs
    · simp only [Except.ok.injEq] at hs; subst hs; exact h.emit rfl
    · simp only [Except.ok.injEq] at hs; subst hs; exact h.emit rfl
    · cases hs
  | continue_ =>
    simp only [stepLine] at hs
    split at hs
    · simp only [Except.ok.injEq] at hs; subst hs; exact h.emit rfl
    · simp only [Except.ok.injEq] at hs; subst hs
      exact (h.emit (ss := [.jump (lCont _) none]) rfl).withDefs' _
    · cases hs

theorem parseLinesFrom_inv : ∀ (ls : List Line) (s s' : PState), PInv s → parseLinesFrom s ls = .ok s' → PInv s'
  | [], s, s', h, hs => by simp only [parseLinesFrom, Except.ok.injEq] at hs; subst hs; exact h
  | l :: ls, s, s', h, hs => by
      simp only [parseLinesFrom] at hs
      split at hs
      · rename_i s1 h1
        exact parseLinesFrom_inv ls s1 s' (stepLine_inv s l s1 h h1) hs
      · cases hs

theorem parseLines_incNEL (ls : List Line) (P : List Stmt) (h : parseLines ls = .ok P) : incNEL P = true := by
  simp only [parseLines] at h
  split at h
  · rename_i s hs
    have hi := parseLinesFrom_inv ls PState.init s ⟨rfl, fun f hf => by simp [PState.init] at hf⟩ hs
    simp only [finish] at h
    split at h
    · cases h
    · split at h
      · cases h
      · simp only [Except.ok.injEq] at h; subst h; exact hi.1
  · cases h

/-! ## the user's raw jumps are emitted unchanged -/

mutual
theorem ujInS (lp : Option (Name × Name)) : ∀ (s : SStmt) (i : Nat) (t : Name), t ∈ ujS s →
    ∃ c, Stmt.jump t c ∈ (lowerS lp s i).1
  | .expr _ _, i, t, h => by simp [ujS] at h
  | .ret _, i, t, h => by simp [ujS] at h
  | .label _, i, t, h => by simp [ujS] at h
  | .jump l c, i, t, h => by simp [ujS] at h; exact ⟨c, by simp [lowerS, h]⟩
  | .include _, i, t, h => by simp [ujS] at h
  | .brk, i, t, h => by simp [ujS] at h
  | .cont, i, t, h => by simp [ujS] at h
  | .func _ _ _ _ _ _, i, t, h => by simp [ujS] at h
  | .ite c t' e, i, t, h => by
      simp only [ujS, List.mem_append] at h
      rw [lowerS_ite]
      rcases h with h | h
      · obtain ⟨c', hc⟩ := ujInB lp t' (i+1) t h
        exact ⟨c', by simp [hc]⟩
      · obtain ⟨c', hc⟩ := ujInE lp (lIf i) (lDone i) e (cntB t' (i+1)) t h
        exact ⟨c', by simp [hc]⟩
  | .while c b, i, t, h => by
      simp only [ujS] at h
      rw [lowerS_while]
      obtain ⟨c', hc⟩ := ujInB (some (lDone i, lLoop i)) b (i+1) t h
      exact ⟨c', by simp [hc]⟩
  | .for v ix vals b, i, t, h => by
      simp only [ujS] at h
      rw [lowerS_for]
      obtain ⟨c', hc⟩ := ujInB (some (lDone i, lCont i)) b (i+1) t h
      exact ⟨c', by simp [hc]⟩
theorem ujInB (lp : Option (Name × Name)) : ∀ (B : List SStmt) (i : Nat) (t : Name), t ∈ ujB B →
    ∃ c, Stmt.jump t c ∈ (lowerB lp B i).1
  | [], i, t, h => by simp [ujB] at h
  | s :: ss, i, t, h => by
      simp only [ujB, List.mem_append] at h
      rw [lowerB_cons]
      rcases h with h | h
      · obtain ⟨c', hc⟩ := ujInS lp s i t h
        exact ⟨c', by simp [hc]⟩
      · obtain ⟨c', hc⟩ := ujInB lp ss (cntS s i) t h
        exact ⟨c', by simp [hc]⟩
theorem ujInE (lp : Option (Name × Name)) (cur done : Name) : ∀ (e : SElse) (i : Nat) (t : Name), t ∈ ujE e →
    ∃ c, Stmt.jump t c ∈ (lowerElse lp cur done e i).1
  | .none, i, t, h => by simp [ujE] at h
  | .els b, i, t, h => by
      simp only [ujE] at h
      rw [lowerElse_els]
      obtain ⟨c', hc⟩ := ujInB lp b i t h
      exact ⟨c', by simp [hc]⟩
  | .elif c t' e, i, t, h => by
      simp only [ujE, List.mem_append] at h
      rw [lowerElse_elif]
      rcases h with h | h
      · obtain ⟨c', hc⟩ := ujInB lp t' (i+1) t h
        exact ⟨c', by simp [hc]⟩
      · obtain ⟨c', hc⟩ := ujInE lp (lIf i) done e (cntB t' (i+1)) t h
        exact ⟨c', by simp [hc]⟩
end

/-- the user's raw labels are emitted unchanged (under `NoReserved`) -/
theorem ulInB (lp : Option (Name × Name)) (B : List SStmt) (i : Nat) (hn : noResB B = true) (l : Name) (h : l ∈ ulB B) :
    Stmt.label l ∈ (lowerB lp B i).1 := by
  rw [← usrB lp B i hn] at h
  exact (mem_userLabels.1 h).1

/-! ## programs without raw `label` / `jump` statements -/

mutual
def noRawS : SStmt → Bool
  | .label _ => false
  | .jump _ _ => false
  | .ite _ t e => noRawB t && noRawE e
  | .while _ b => noRawB b
  | .for _ _ _ b => noRawB b
  | .func _ _ _ _ _ b => noRawB b
  | _ => true
def noRawB : List SStmt → Bool
  | [] => true
  | s :: ss => noRawS s && noRawB ss
def noRawE : SElse → Bool
  | .none => true
  | .els b => noRawB b
  | .elif _ t e => noRawB t && noRawE e
end

mutual
theorem noRawS_spec : ∀ (s : SStmt), noRawS s = true →
    ulS s = [] ∧ ujS s = [] ∧ noResS s = true ∧ ∀ b ∈ fbS s, noRawB b = true
  | .expr _ _, _ => by simp [ulS, ujS, noResS, fbS]
  | .ret _, _ => by simp [ulS, ujS, noResS, fbS]
  | .label _, h => by simp [noRawS] at h
  | .jump _ _, h => by simp [noRawS] at h
  | .include _, _ => by simp [ulS, ujS, noResS, fbS]
  | .brk, _ => by simp [ulS, ujS, noResS, fbS]
  | .cont, _ => by simp [ulS, ujS, noResS, fbS]
  | .func _ _ _ _ _ b, h => by
      simp only [noRawS] at h
      obtain ⟨-, -, h3, h4⟩ := noRawB_spec b h
      refine ⟨by simp [ulS], by simp [ujS], by simpa [noResS] using h3, ?_⟩
      intro x hx
      simp only [fbS, List.mem_cons] at hx
      rcases hx with hx | hx
      · rw [hx]; exact h
      · exact h4 x hx
  | .ite c t e, h => by
      simp only [noRawS, Bool.and_eq_true] at h
      obtain ⟨a1, a2, a3, a4⟩ := noRawB_spec t h.1
      obtain ⟨b1, b2, b3, b4⟩ := noRawE_spec e h.2
      refine ⟨by simp [ulS, a1, b1], by simp [ujS, a2, b2], by simp [noResS, a3, b3], ?_⟩
      intro x hx
      simp only [fbS, List.mem_append] at hx
      exact hx.elim (a4 x) (b4 x)
  | .while c b, h => by
      simp only [noRawS] at h
      obtain ⟨a1, a2, a3, a4⟩ := noRawB_spec b h
      exact ⟨by simp [ulS, a1], by simp [ujS, a2], by simp [noResS, a3], by simpa [fbS] using a4⟩
  | .for v ix vals b, h => by
      simp only [noRawS] at h
      obtain ⟨a1, a2, a3, a4⟩ := noRawB_spec b h
      exact ⟨by simp [ulS, a1], by simp [ujS, a2], by simp [noResS, a3], by simpa [fbS] using a4⟩
theorem noRawB_spec : ∀ (B : List SStmt), noRawB B = true →
    ulB B = [] ∧ ujB B = [] ∧ noResB B = true ∧ ∀ b ∈ fbB B, noRawB b = true
  | [], _ => by simp [ulB, ujB, noResB, fbB]
  | s :: ss, h => by
      simp only [noRawB, Bool.and_eq_true] at h
      obtain ⟨a1, a2, a3, a4⟩ := noRawS_spec s h.1
      obtain ⟨b1, b2, b3, b4⟩ := noRawB_spec ss h.2
      refine ⟨by simp [ulB, a1, b1], by simp [ujB, a2, b2], by simp [noResB, a3, b3], ?_⟩
      intro x hx
      simp only [fbB, List.mem_append] at hx
      exact hx.elim (a4 x) (b4 x)
theorem noRawE_spec : ∀ (e : SElse), noRawE e = true →
    ulE e = [] ∧ ujE e = [] ∧ noResE e = true ∧ ∀ b ∈ fbE e, noRawB b = true
  | .none, _ => by simp [ulE, ujE, noResE, fbE]
  | .els b, h => by
      simp only [noRawE] at h
      obtain ⟨a1, a2, a3, a4⟩ := noRawB_spec b h
      exact ⟨by simp [ulE, a1], by simp [ujE, a2], by simp [noResE, a3], by simpa [fbE] using a4⟩
  | .elif c t e, h => by
      simp only [noRawE, Bool.and_eq_true] at h
      obtain ⟨a1, a2, a3, a4⟩ := noRawB_spec t h.1
      obtain ⟨b1, b2, b3, b4⟩ := noRawE_spec e h.2
      refine ⟨by simp [ulE, a1, b1], by simp [ujE, a2, b2], by simp [noResE, a3, b3], ?_⟩
      intro x hx
      simp only [fbE, List.mem_append] at hx
      exact hx.elim (a4 x) (b4 x)
end

/-! ## the machine's label search -/

theorem findLabel_of_mem {P : List Stmt} {l : Name} (h : Stmt.label l ∈ P) : ∃ n, Machine.findLabel P l = some n := by
  unfold Machine.findLabel
  have : P.findIdx (Machine.isLabel l) < P.length :=
    List.findIdx_lt_length_of_exists ⟨_, h, by simp [Machine.isLabel]⟩
  exact ⟨P.findIdx (Machine.isLabel l), by simp [this]⟩

theorem mem_of_findLabel {P : List Stmt} {l : Name} {n : Nat} (h : Machine.findLabel P l = some n) : Stmt.label l ∈ P := by
  unfold Machine.findLabel at h
  simp only at h
  split at h
  · rename_i hlt
    have := List.findIdx_getElem (w := hlt)
    have hm := List.getElem_mem hlt
    generalize P[List.findIdx (Machine.isLabel l) P] = s at this hm
    cases s <;> simp [Machine.isLabel] at this
    subst this; exact hm
  · cases h

end C07
